#!/usr/bin/env python3
"""dettest.py <prop> [--runs N] [--reps R]: determinism self-test. Runs the same seeds in separate worker
processes at GOMAXPROCS 1/4/16, R repetitions each, and diffs the per-run log hashes."""
import argparse, json, os, subprocess, sys, glob
ap = argparse.ArgumentParser()
ap.add_argument("prop"); ap.add_argument("--runs", type=int, default=64); ap.add_argument("--reps", type=int, default=2)
ap.add_argument("--seed", type=int, default=777)
a = ap.parse_args()
V = os.path.dirname(os.path.dirname(os.path.abspath(__file__)))
results = []
for gmp in (1, 4, 16):
    for rep in range(a.reps):
        env = dict(os.environ, VERIF_GOMAXPROCS=str(gmp))
        p = subprocess.run([os.path.join(V, "bin", "vcheck"), a.prop, "--tier", "quick", "--no-evidence", "--detlog",
                            "--runs", str(a.runs), "--workers", "4", "--seed", str(a.seed), "--gomaxprocs", str(gmp)],
                           capture_output=True, text=True, env=env)
        path = None
        for line in p.stdout.splitlines():
            if line.startswith("DETLOG "):
                path = line.split()[1]
        if path is None:
            print(p.stdout[-2000:], p.stderr[-2000:]); sys.exit(2)
        results.append((gmp, rep, json.load(open(path)))); os.remove(path)
base = results[0][2]
bad = set()
for gmp, rep, r in results[1:]:
    for k in base:
        if r.get(k) != base[k]:
            bad.add(k)
n = len(base)
print(json.dumps({"property": a.prop, "seeds": n, "processes": len(results), "identical": n - len(bad), "diverging_runs": sorted(bad, key=int)[:20]}))
sys.exit(0 if not bad else 1)
