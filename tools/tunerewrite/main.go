// tunerewrite <src.go> <dst.go> <name,name,...>: turn top-level tuning constants into variables so
// that the simulator can randomise them per run (a limit too large for its throttle path to run is
// the classic blind spot). Only `const NAME = <literal>` declarations (own declaration or inside a
// const block) named on the command line are touched; nothing else changes.
package main

import (
	"bytes"
	"fmt"
	"go/ast"
	"go/parser"
	"go/printer"
	"go/token"
	"os"
	"strings"
)

func main() {
	if len(os.Args) != 4 {
		fmt.Fprintln(os.Stderr, "usage: tunerewrite src dst names")
		os.Exit(2)
	}
	// names may carry an explicit type for untyped constants: name:type
	want := map[string]bool{}
	typ := map[string]string{}
	for _, n := range strings.Split(os.Args[3], ",") {
		if i := strings.IndexByte(n, ':'); i > 0 {
			typ[n[:i]] = n[i+1:]
			n = n[:i]
		}
		want[n] = true
	}
	fset := token.NewFileSet()
	f, err := parser.ParseFile(fset, os.Args[1], nil, parser.ParseComments)
	if err != nil {
		fmt.Fprintln(os.Stderr, err)
		os.Exit(2)
	}
	found := map[string]bool{}
	var decls []ast.Decl
	for _, d := range f.Decls {
		gd, ok := d.(*ast.GenDecl)
		if !ok || gd.Tok != token.CONST {
			decls = append(decls, d)
			continue
		}
		var keep []ast.Spec
		for _, s := range gd.Specs {
			vs := s.(*ast.ValueSpec)
			if len(vs.Names) == 1 && want[vs.Names[0].Name] && len(vs.Values) == 1 {
				if _, lit := vs.Values[0].(*ast.BasicLit); lit {
					found[vs.Names[0].Name] = true
					if t := typ[vs.Names[0].Name]; t != "" && vs.Type == nil {
						vs.Type = ast.NewIdent(t)
					}
					decls = append(decls, &ast.GenDecl{Tok: token.VAR, Specs: []ast.Spec{vs}})
					continue
				}
			}
			keep = append(keep, s)
		}
		if len(keep) > 0 {
			gd.Specs = keep
			decls = append(decls, gd)
		}
	}
	for n := range want {
		if !found[n] {
			fmt.Fprintf(os.Stderr, "tunerewrite: constant %s not found as `const %s = <literal>` in %s\n", n, n, os.Args[1])
			os.Exit(2)
		}
	}
	f.Decls = decls
	var buf bytes.Buffer
	if err := printer.Fprint(&buf, fset, f); err != nil {
		fmt.Fprintln(os.Stderr, err)
		os.Exit(2)
	}
	if err := os.WriteFile(os.Args[2], buf.Bytes(), 0o644); err != nil {
		fmt.Fprintln(os.Stderr, err)
		os.Exit(2)
	}
}
