module tunerewrite

go 1.26
