#!/usr/bin/env python3
"""mkoverlay.py <repo> <outdir>: (re)generate the go build overlay from /repo's current tree.

1. every file /verif/overlay/<pkgpath>/verif_*.go is ADDED to /repo/<pkgpath>/ (white-box accessors,
   all `//go:build verif`);
2. files listed in /verif/overlay/rewrite.json are REWRITTEN from the current tree by tools/osrewrite
   (os.* file-system calls -> simos.*), output under <outdir>/rewritten/.
Prints the overlay json path on the last line. Exit != 0 on trouble (caller exits 2).
"""
import json, os, subprocess, sys

def main():
    repo, outdir = sys.argv[1], sys.argv[2]
    verif = os.path.dirname(os.path.dirname(os.path.abspath(__file__)))
    ovroot = os.path.join(verif, "overlay")
    replace = {}
    for d, _, files in os.walk(ovroot):
        for fn in files:
            if fn.startswith("verif_") and fn.endswith(".go"):
                rel = os.path.relpath(os.path.join(d, fn), ovroot)
                replace[os.path.join(repo, rel)] = os.path.join(d, fn)
    rw = os.path.join(ovroot, "rewrite.json")
    if os.path.exists(rw):
        with open(rw) as f:
            spec = json.load(f)
        tool = os.path.join(verif, "bin", "build", "osrewrite")
        if not os.path.exists(tool) or os.path.getmtime(tool) < os.path.getmtime(os.path.join(verif, "tools", "osrewrite", "main.go")):
            env = dict(os.environ, GOFLAGS="-mod=mod", GOPROXY="off", GOSUMDB="off", GOTOOLCHAIN="local")
            p = subprocess.run(["go1.26.8", "build", "-o", tool, "."], cwd=os.path.join(verif, "tools", "osrewrite"),
                               capture_output=True, text=True, env=env)
            if p.returncode != 0:
                print("osrewrite build failed:\n" + p.stdout + p.stderr)
                return 2
        rdir = os.path.join(outdir, "rewritten")
        os.makedirs(rdir, exist_ok=True)
        for rel in spec["files"]:
            src = os.path.join(repo, rel)
            if not os.path.exists(src):
                if rel in spec.get("optional", []):
                    continue
                print("osrewrite: %s does not exist in the tree" % src)
                return 2
            dst = os.path.join(rdir, rel.replace("/", "__"))
            # several vcheck runs may regenerate this directory at once: write to a private
            # temp name, keep the existing file when the content is unchanged, else rename atomically
            tmp = "%s.%d.tmp" % (dst, os.getpid())
            p = subprocess.run([tool, src, tmp], capture_output=True, text=True)
            if p.returncode != 0:
                print("osrewrite failed on %s:\n%s%s" % (rel, p.stdout, p.stderr))
                return 2
            same = False
            try:
                with open(tmp, "rb") as a, open(dst, "rb") as b:
                    same = a.read() == b.read()
            except OSError:
                pass
            if same:
                os.remove(tmp)
            else:
                os.replace(tmp, dst)
            replace[src] = dst
    if os.path.exists(rw) and spec.get("yield_files"):
        ytool = os.path.join(verif, "bin", "build", "yieldrewrite")
        ysrc = os.path.join(verif, "tools", "yieldrewrite", "main.go")
        if not os.path.exists(ytool) or os.path.getmtime(ytool) < os.path.getmtime(ysrc):
            env = dict(os.environ, GOFLAGS="-mod=mod", GOPROXY="off", GOSUMDB="off", GOTOOLCHAIN="local")
            tmpbin = "%s.%d" % (ytool, os.getpid())
            p = subprocess.run(["go1.26.8", "build", "-o", tmpbin, "."], cwd=os.path.dirname(ysrc), capture_output=True, text=True, env=env)
            if p.returncode != 0:
                print("yieldrewrite build failed:\n" + p.stdout + p.stderr)
                return 2
            os.replace(tmpbin, ytool)
        rdir = os.path.join(outdir, "rewritten")
        os.makedirs(rdir, exist_ok=True)
        for rel in spec["yield_files"]:
            src = os.path.join(repo, rel)
            dst = os.path.join(rdir, rel.replace("/", "__"))
            tmp = "%s.%d.tmp" % (dst, os.getpid())
            p = subprocess.run([ytool, src, tmp], capture_output=True, text=True)
            if p.returncode != 0:
                print("yieldrewrite failed on %s:\n%s%s" % (rel, p.stdout, p.stderr))
                return 2
            same = False
            try:
                with open(tmp, "rb") as a, open(dst, "rb") as b:
                    same = a.read() == b.read()
            except OSError:
                pass
            if same:
                os.remove(tmp)
            else:
                os.replace(tmp, dst)
            replace[src] = dst
    if os.path.exists(rw) and spec.get("tunable_consts"):
        ttool = os.path.join(verif, "bin", "build", "tunerewrite")
        tsrc = os.path.join(verif, "tools", "tunerewrite", "main.go")
        if not os.path.exists(ttool) or os.path.getmtime(ttool) < os.path.getmtime(tsrc):
            env = dict(os.environ, GOFLAGS="-mod=mod", GOPROXY="off", GOSUMDB="off", GOTOOLCHAIN="local")
            tmpbin = "%s.%d" % (ttool, os.getpid())
            p = subprocess.run(["go1.26.8", "build", "-o", tmpbin, "."], cwd=os.path.dirname(tsrc), capture_output=True, text=True, env=env)
            if p.returncode != 0:
                print("tunerewrite build failed:\n" + p.stdout + p.stderr)
                return 2
            os.replace(tmpbin, ttool)
        rdir = os.path.join(outdir, "rewritten")
        os.makedirs(rdir, exist_ok=True)
        for rel, names in sorted(spec["tunable_consts"].items()):
            src = os.path.join(repo, rel)
            dst = os.path.join(rdir, rel.replace("/", "__"))
            tmp = "%s.%d.tmp" % (dst, os.getpid())
            p = subprocess.run([ttool, src, tmp, ",".join(names)], capture_output=True, text=True)
            if p.returncode != 0:
                print("tunerewrite failed on %s:\n%s%s" % (rel, p.stdout, p.stderr))
                return 2
            same = False
            try:
                with open(tmp, "rb") as a, open(dst, "rb") as b:
                    same = a.read() == b.read()
            except OSError:
                pass
            if same:
                os.remove(tmp)
            else:
                os.replace(tmp, dst)
            replace[src] = dst
    os.makedirs(outdir, exist_ok=True)
    path = os.path.join(outdir, "overlay.json")
    tmp = "%s.%d.tmp" % (path, os.getpid())
    with open(tmp, "w") as f:
        json.dump({"Replace": replace}, f, indent=1, sort_keys=True)
    os.replace(tmp, path)
    print(path)
    return 0

if __name__ == "__main__":
    sys.exit(main())
