#!/usr/bin/env python3
"""Regenerates MANIFEST.json from checks.json (claimed checks) and tools/manifest_meta.json (texts)."""
import json, os
V = os.path.dirname(os.path.dirname(os.path.abspath(__file__)))
table = json.load(open(os.path.join(V, "checks.json")))
meta = json.load(open(os.path.join(V, "tools", "manifest_meta.json")))
import glob
ready = set(table.get("ready_engines", []))
for p in sorted(glob.glob(os.path.join(V, "sim", "*", "checks.json"))):
    if os.path.basename(os.path.dirname(p)) in ready:
        table["checks"].update(json.load(open(p))["checks"])
for p in sorted(glob.glob(os.path.join(V, "sim", "*", "manifest_meta.json"))):
    if os.path.basename(os.path.dirname(p)) not in ready:
        continue
    mm = json.load(open(p))
    for pid, v in mm.get("claimed", {}).items():
        meta["claimed"][pid] = v
        meta["na"].pop(pid, None)
props = [json.loads(l) for l in open(os.path.join(V, "properties.jsonl"))]
checks, na = [], []
engines = {}
for p in props:
    pid = p["id"]
    if pid in table["checks"]:
        c = table["checks"][pid]
        m = meta["claimed"][pid]
        engines.setdefault(c["engine"], []).append(pid)
        checks.append({
            "property_id": pid,
            "quick_cmd": "bin/vcheck %s --tier quick" % pid,
            "thorough_cmd": "bin/vcheck %s --tier thorough" % pid,
            "evidence_file": "/verif/evidence/%s.json" % pid,
            "replay_cmd_template": "bin/vcheck %s --replay {path}" % pid,
            "engine": c["engine"],
            "level_claimed": {"category": m["level"], "text": m["text"], "design_ref": "DESIGN.md section 4, %s" % pid},
            "level_note": m["note"],
            "technique": m.get("technique", "deterministic simulation with fault injection: seeded search over schedules and fault sequences"),
        })
    else:
        na.append({"property_id": pid, "reason": meta["na"][pid]})
for pid in list(table["checks"]):
    if pid not in meta["claimed"]:
        raise SystemExit("check %s has no manifest text" % pid)
man = {
    "version": 1,
    "setup_cmd": "bin/setup",
    "hooks": {
        "guard": "build tag `verif` + go build -overlay (no hook commits in /repo)",
        "enable": "go1.26.8 test -c -tags verif -overlay bin/build/overlay.json (overlay regenerated from /repo's working tree by tools/mkoverlay.py: added //go:build verif accessor files and os->simos rewrites of freezer/journal files)",
        "baseline_off_cmd": "cd /repo && go test -vet=off -count=1 -timeout 25m ./... && (cd cmd/keeper && go test -vet=off -count=1 ./...)",
        "source_commits": [],
        "add_only": True,
    },
    "engines": [{"name": e, "path": "sim/" + e, "serves_properties": sorted(ps),
                 "kind_free_text": "deterministic simulation engine (Go test binary driven by bin/vcheck)"} for e, ps in sorted(engines.items())],
    "checks": checks,
    "not_applicable": na,
    "notes": meta.get("notes", ""),
}
json.dump(man, open(os.path.join(V, "MANIFEST.json"), "w"), indent=1)
print("claimed", len(checks), "n/a", len(na))
