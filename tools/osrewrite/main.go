// osrewrite <src.go> <dst.go>: redirect file-system calls of one geth source file to
// verifsim/simos. Only selector expressions are rewritten; logic, order of calls and every
// Sync() stay exactly as in the tree under test. Unknown mutating os calls abort (exit 2).
package main

import (
	"bytes"
	"fmt"
	"go/ast"
	"go/parser"
	"go/printer"
	"go/token"
	"os"
	"strconv"
)

var redirect = map[string]string{
	"OpenFile": "OpenFile", "Open": "Open", "CreateTemp": "CreateTemp", "Remove": "Remove",
	"RemoveAll": "RemoveAll", "Rename": "Rename", "MkdirAll": "MkdirAll", "File": "File",
}

// os identifiers that are fine to leave alone (read-only or constants/types)
var passthrough = map[string]bool{
	"Lstat": true, "Stat": true, "IsNotExist": true, "IsExist": true, "ModeSymlink": true,
	"O_RDONLY": true, "O_WRONLY": true, "O_RDWR": true, "O_CREATE": true, "O_TRUNC": true, "O_APPEND": true, "O_EXCL": true,
	"ErrInvalid": true, "ErrNotExist": true, "ErrExist": true, "PathError": true, "Stdout": true, "Stderr": true,
	"FileMode": true, "FileInfo": true, "ReadFile": true, "ReadDir": true, "DirEntry": true, "Getpid": true,
	"ModePerm": true, "ErrClosed": true, "SEEK_SET": true, "IsPermission": true,
}

func main() {
	if len(os.Args) != 3 {
		fmt.Fprintln(os.Stderr, "usage: osrewrite src dst")
		os.Exit(2)
	}
	fset := token.NewFileSet()
	f, err := parser.ParseFile(fset, os.Args[1], nil, parser.ParseComments)
	if err != nil {
		fmt.Fprintln(os.Stderr, err)
		os.Exit(2)
	}
	osName, flockName := "", ""
	for _, imp := range f.Imports {
		p, _ := strconv.Unquote(imp.Path.Value)
		switch p {
		case "os":
			osName = "os"
			if imp.Name != nil {
				osName = imp.Name.Name
			}
		case "github.com/gofrs/flock":
			flockName = "flock"
			if imp.Name != nil {
				flockName = imp.Name.Name
			}
		}
	}
	bad := false
	usedSimos := false
	flockLeft := false
	ast.Inspect(f, func(n ast.Node) bool {
		sel, ok := n.(*ast.SelectorExpr)
		if !ok {
			return true
		}
		id, ok := sel.X.(*ast.Ident)
		if !ok || id.Obj != nil {
			return true
		}
		switch {
		case osName != "" && id.Name == osName:
			if to, ok := redirect[sel.Sel.Name]; ok {
				id.Name = "simos"
				sel.Sel.Name = to
				usedSimos = true
			} else if !passthrough[sel.Sel.Name] {
				fmt.Fprintf(os.Stderr, "%s: unmapped os.%s\n", fset.Position(sel.Pos()), sel.Sel.Name)
				bad = true
			}
		case flockName != "" && id.Name == flockName:
			switch sel.Sel.Name {
			case "New":
				id.Name, sel.Sel.Name = "simos", "NewFlock"
				usedSimos = true
			case "Flock":
				id.Name = "simos"
				usedSimos = true
			default:
				flockLeft = true
			}
		}
		return true
	})
	if bad {
		os.Exit(2)
	}
	// fix imports
	for _, d := range f.Decls {
		gd, ok := d.(*ast.GenDecl)
		if !ok || gd.Tok != token.IMPORT {
			continue
		}
		var specs []ast.Spec
		for _, s := range gd.Specs {
			is := s.(*ast.ImportSpec)
			p, _ := strconv.Unquote(is.Path.Value)
			if p == "github.com/gofrs/flock" && !flockLeft {
				continue
			}
			specs = append(specs, s)
		}
		if usedSimos {
			specs = append(specs, &ast.ImportSpec{Path: &ast.BasicLit{Kind: token.STRING, Value: strconv.Quote("verifsim/simos")}})
			usedSimos = false
		}
		gd.Specs = specs
		if gd.Lparen == token.NoPos && len(specs) > 1 {
			gd.Lparen = gd.Pos()
			gd.Rparen = gd.End()
		}
	}
	var buf bytes.Buffer
	if err := printer.Fprint(&buf, fset, f); err != nil {
		fmt.Fprintln(os.Stderr, err)
		os.Exit(2)
	}
	if osName != "" {
		fmt.Fprintf(&buf, "\nvar _ = %s.ErrInvalid // keep the import used after the simos rewrite\n", osName)
	}
	if err := os.WriteFile(os.Args[2], buf.Bytes(), 0o644); err != nil {
		fmt.Fprintln(os.Stderr, err)
		os.Exit(2)
	}
}
