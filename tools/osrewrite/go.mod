module osrewrite

go 1.26
