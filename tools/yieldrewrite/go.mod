module yieldrewrite

go 1.26
