// yieldrewrite <src.go> <dst.go>: insert cooperative yield points into one geth source file.
// A call `simyield.Point("<file>:<line>")` is inserted
//   - before every statement `x.Lock()` / `x.RLock()`,
//   - after every statement `x.Unlock()` / `x.RUnlock()`,
//   - before every channel send statement and every receive statement (outside select).
// Nothing else changes; with no hook installed Point is an atomic load and a return.
// The simulator installs a hook that parks the goroutine at a scheduler gate, which turns the
// interleavings between these points into tape-decided schedule choices.
package main

import (
	"bytes"
	"fmt"
	"go/ast"
	"go/parser"
	"go/printer"
	"go/token"
	"os"
	"path/filepath"
	"strconv"
)

var fset = token.NewFileSet()
var base string

func point(pos token.Pos) ast.Stmt {
	label := fmt.Sprintf("%s:%d", base, fset.Position(pos).Line)
	return &ast.ExprStmt{X: &ast.CallExpr{
		Fun:  &ast.SelectorExpr{X: ast.NewIdent("simyield"), Sel: ast.NewIdent("Point")},
		Args: []ast.Expr{&ast.BasicLit{Kind: token.STRING, Value: strconv.Quote(label)}},
	}}
}

func methodCall(s ast.Stmt) string {
	es, ok := s.(*ast.ExprStmt)
	if !ok {
		return ""
	}
	call, ok := es.X.(*ast.CallExpr)
	if !ok || len(call.Args) != 0 {
		return ""
	}
	sel, ok := call.Fun.(*ast.SelectorExpr)
	if !ok {
		return ""
	}
	return sel.Sel.Name
}

func isRecvStmt(s ast.Stmt) bool {
	switch st := s.(type) {
	case *ast.ExprStmt:
		u, ok := st.X.(*ast.UnaryExpr)
		return ok && u.Op == token.ARROW
	case *ast.AssignStmt:
		if len(st.Rhs) == 1 {
			u, ok := st.Rhs[0].(*ast.UnaryExpr)
			return ok && u.Op == token.ARROW
		}
	}
	return false
}

func rewriteList(list []ast.Stmt) []ast.Stmt {
	var out []ast.Stmt
	for _, s := range list {
		switch m := methodCall(s); {
		case m == "Lock" || m == "RLock":
			out = append(out, point(s.Pos()), s)
		case m == "Unlock" || m == "RUnlock":
			out = append(out, s, point(s.Pos()))
		default:
			if _, ok := s.(*ast.SendStmt); ok || isRecvStmt(s) {
				out = append(out, point(s.Pos()), s)
			} else {
				out = append(out, s)
			}
		}
	}
	return out
}

func main() {
	if len(os.Args) != 3 {
		fmt.Fprintln(os.Stderr, "usage: yieldrewrite src dst")
		os.Exit(2)
	}
	base = filepath.Base(os.Args[1])
	f, err := parser.ParseFile(fset, os.Args[1], nil, parser.ParseComments)
	if err != nil {
		fmt.Fprintln(os.Stderr, err)
		os.Exit(2)
	}
	ast.Inspect(f, func(n ast.Node) bool {
		// functions named init run inside sync.Once.Do: a goroutine parked there would
		// block others on the Once's mutex, which is not a durable wait
		if fd, ok := n.(*ast.FuncDecl); ok && fd.Name.Name == "init" {
			return false
		}
		switch b := n.(type) {
		case *ast.BlockStmt:
			b.List = rewriteList(b.List)
		case *ast.CaseClause:
			b.Body = rewriteList(b.Body)
		case *ast.CommClause:
			b.Body = rewriteList(b.Body)
		}
		return true
	})
	// add the import
	added := false
	for _, d := range f.Decls {
		gd, ok := d.(*ast.GenDecl)
		if !ok || gd.Tok != token.IMPORT {
			continue
		}
		gd.Specs = append(gd.Specs, &ast.ImportSpec{Path: &ast.BasicLit{Kind: token.STRING, Value: strconv.Quote("verifsim/simyield")}})
		if gd.Lparen == token.NoPos {
			gd.Lparen = gd.Pos()
			gd.Rparen = gd.End()
		}
		added = true
		break
	}
	if !added {
		fmt.Fprintln(os.Stderr, "no import declaration to extend")
		os.Exit(2)
	}
	var buf bytes.Buffer
	if err := printer.Fprint(&buf, fset, f); err != nil {
		fmt.Fprintln(os.Stderr, err)
		os.Exit(2)
	}
	buf.WriteString("\nvar _ = simyield.Point // keep the import used\n")
	if err := os.WriteFile(os.Args[2], buf.Bytes(), 0o644); err != nil {
		fmt.Fprintln(os.Stderr, err)
		os.Exit(2)
	}
}
