#!/usr/bin/env python3
"""Regenerates the two generated tables of DESIGN.md (between <!-- BEGIN/END ... --> markers):
findings (from known_findings.jsonl) and seeded changes (from seeded/*/*/meta.json)."""
import json, os, re, glob
V = os.path.dirname(os.path.dirname(os.path.abspath(__file__)))

def esc(s):
    return s.replace("|", "\\|").replace("\n", " ")

def findings():
    rows = {}
    for l in open(os.path.join(V, "known_findings.jsonl")):
        l = l.strip()
        if not l: continue
        e = json.loads(l)
        k = (e["key"], e["status"], e.get("commit", ""))
        rows.setdefault(k, {"props": [], "what": e["what"]})["props"].append(e["property"])
    out = ["| properties | key | status | what |", "|---|---|---|---|"]
    for (key, status, commit), v in sorted(rows.items(), key=lambda kv: (sorted(kv[1]["props"])[0], kv[0][0])):
        st = status + (" " + commit if commit else "")
        what = v["what"]
        if what.startswith(key + ": "):
            what = what[len(key) + 2:]
        if len(what) > 330:
            what = what[:327] + "..."
        out.append("| %s | `%s` | %s | %s |" % (",".join(sorted(set(v["props"]))), esc(key), st, esc(what)))
    return "\n".join(out)

def seeded():
    out = ["| property | change | what it breaks / what it needs | result of `tools/seedcheck.sh` (quick tier against the patched scratch worktree) |", "|---|---|---|---|"]
    n = caught = 0
    for mp in sorted(glob.glob(os.path.join(V, "seeded", "*", "*", "meta.json"))):
        m = json.load(open(mp))
        prop = os.path.basename(os.path.dirname(os.path.dirname(mp)))
        name = os.path.basename(os.path.dirname(mp))
        summ = m.get("summary") or m.get("what") or ""
        needs = m.get("needs_to_manifest") or ""
        if isinstance(summ, (list, dict)): summ = json.dumps(summ)
        if isinstance(needs, (list, dict)): needs = json.dumps(needs)
        text = (summ.strip() + " NEEDS: " + needs.strip()) if needs else summ.strip()
        if len(text) > 420: text = text[:417] + "..."
        v = m.get("verified_by_main_session", {}).get("verdict", "")
        keys = re.findall(r"key=([^;]+);", v)
        n += 1
        if "vcheck_exit=1" in v:
            caught += 1
            res = "caught: " + ", ".join("`%s`" % k.strip() for k in keys[:3])
            if "earlier run" in v: res += " (missed before the check was strengthened)"
        else:
            res = "NOT caught"
        out.append("| %s | %s | %s | %s |" % (prop, name, esc(text), esc(res)))
    out.append("")
    out.append("%d seeded changes verified (demo fails with / passes without the change, package tests pass with it); %d reported by the quick tier, %d not." % (n, caught, n - caught))
    return "\n".join(out)

def replace(doc, tag, body):
    b, e = "<!-- BEGIN %s -->" % tag, "<!-- END %s -->" % tag
    if b not in doc:
        return doc.rstrip("\n") + "\n\n" + b + "\n" + body + "\n" + e + "\n"
    pre, rest = doc.split(b, 1)
    _, post = rest.split(e, 1)
    return pre + b + "\n" + body + "\n" + e + post

p = os.path.join(V, "DESIGN.md")
doc = open(p).read()
doc = replace(doc, "FINDINGS-TABLE", findings())
doc = replace(doc, "SEEDED-TABLE", seeded())
open(p, "w").write(doc)
print("ok")
