#!/usr/bin/env python3
"""archive_seed.py <prop> <mutant dir> <name> <verdict line...>: copy a verified seeded change into /verif/seeded/<prop>/<name>/"""
import json, os, shutil, sys
prop, mdir, name = sys.argv[1:4]
verdict = " ".join(sys.argv[4:])
dst = os.path.join("/verif/seeded", prop, name)
os.makedirs(dst, exist_ok=True)
for fn in ("patch.diff", "demo_test.go", "README.md"):
    p = os.path.join(mdir, fn)
    if os.path.exists(p):
        shutil.copy(p, os.path.join(dst, fn if fn != "demo_test.go" else "demo_test.go.txt"))
meta = {}
mp = os.path.join(mdir, "meta.json")
if os.path.exists(mp):
    try:
        meta = json.load(open(mp))
    except ValueError:
        meta = {"raw": open(mp).read()}
meta["property"] = prop
meta["verified_by_main_session"] = {
    "command": "tools/seedcheck.sh %s <dir> <pkg> --tier quick --workers 8 (scratch worktree of /repo HEAD: demo without patch, demo with patch, package tests with patch, bin/vcheck against the patched worktree)" % prop,
    "verdict": verdict,
}
json.dump(meta, open(os.path.join(dst, "meta.json"), "w"), indent=1)
print(dst)
