#!/bin/bash
# mutest.sh <patch.diff> <prop> [vcheck args...]: apply a seeded change to /repo, run the check, always revert.
set -u
patch=$1; prop=$2; shift 2
cd /repo || exit 2
if [ -n "$(git status --porcelain)" ]; then echo "repo not clean"; exit 2; fi
git apply "$patch" || { echo "patch does not apply"; exit 2; }
trap 'git -C /repo checkout -- . ; git -C /repo clean -fdq' EXIT
cd /verif && bin/vcheck "$prop" --no-evidence "$@"
echo "exit=$?"
