#!/bin/bash
# seedcheck.sh <prop> <mutant dir with patch.diff [+demo_test.go, README.md, meta.json]> <pkg dir of demo, e.g. event> [vcheck args]
# Verifies a seeded change in a scratch worktree: (1) applies, (2) builds, (3) demo passes without / fails with,
# (4) the package's tests pass with it, (5) runs the check against it. Prints a one-line verdict. Leaves nothing behind.
set -u
prop=$1; mdir=$2; pkg=$3; shift 3
export GOFLAGS=-mod=mod GOPROXY=off
wt=/tmp/seedwt-$prop-$$
git -C /repo worktree add -q --detach "$wt" HEAD || exit 2
cleanup() { git -C /repo worktree remove --force "$wt" >/dev/null 2>&1; tag=$(python3 -c "import hashlib,os;print(hashlib.sha1(os.path.realpath('$wt').encode()).hexdigest()[:10])"); rm -rf /verif/bin/build/$tag; }
trap cleanup EXIT
cd "$wt"
demo_without=skip; demo_with=skip
if [ -f "$mdir/demo_test.go" ]; then
  cp "$mdir/demo_test.go" "$pkg/zz_seed_demo_test.go"
  name=$(grep -o 'func Test[A-Za-z0-9_]*' "$pkg/zz_seed_demo_test.go" | head -1 | sed 's/func //')
  if go test -count=1 -vet=off -run "^$name\$" ./$pkg/ >/tmp/seed-$$-a.log 2>&1; then demo_without=pass; else demo_without=FAIL; fi
fi
if ! git apply "$mdir/patch.diff"; then echo "VERDICT $prop $(basename $mdir): patch does not apply"; exit 2; fi
if ! go build ./$pkg/ >/tmp/seed-$$-b.log 2>&1; then echo "VERDICT $prop $(basename $mdir): does not build"; tail -5 /tmp/seed-$$-b.log; exit 2; fi
if [ -f "$pkg/zz_seed_demo_test.go" ]; then
  if go test -count=1 -vet=off -run "^$name\$" ./$pkg/ >/tmp/seed-$$-c.log 2>&1; then demo_with=PASS; else demo_with=fail; fi
  rm -f "$pkg/zz_seed_demo_test.go"
fi
if go test -count=1 -vet=off ./$pkg/ >/tmp/seed-$$-d.log 2>&1; then tests=pass; else tests=FAIL; fi
cd /verif
VERIF_REPO=$wt bin/vcheck "$prop" --no-evidence "$@" >/tmp/seed-$$-e.log 2>&1; rc=$?
keys=$(grep -o 'key=[^ ]*' /tmp/seed-$$-e.log | sort | uniq -c | sort -rn | head -3 | tr '\n' ';')
echo "VERDICT $prop $(basename $mdir): demo_without=$demo_without demo_with=$demo_with pkgtests=$tests vcheck_exit=$rc $keys"
[ "$tests" = FAIL ] && grep -E "^(--- FAIL|FAIL|panic)" /tmp/seed-$$-d.log | head -5
rm -f /tmp/seed-$$-*.log
exit 0
