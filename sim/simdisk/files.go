package simdisk

import (
	"bytes"
	"fmt"
	"os"
	"path/filepath"
	"sort"
	"strings"

	"verifsim/simcore"
	"verifsim/simos"
)

// fsFile is one file of the modelled file system.
type fsFile struct {
	vol  []byte        // what a reader sees now
	dur  []byte        // content as of the last fsync of this file (nil before the first)
	pend []simos.Event // data mutations since the last fsync, in order
}

// FSModel replays a simos event log.
type FSModel struct {
	Root  string
	Files map[string]*fsFile
	Dirs  map[string]bool
}

func NewFSModel(root string) *FSModel {
	return &FSModel{Root: filepath.Clean(root), Files: map[string]*fsFile{}, Dirs: map[string]bool{filepath.Clean(root): true}}
}

func writeAt(b []byte, off int64, data []byte) []byte {
	end := off + int64(len(data))
	if int64(len(b)) < end {
		nb := make([]byte, end)
		copy(nb, b)
		b = nb
	}
	copy(b[off:], data)
	return b
}

func truncateTo(b []byte, size int64) []byte {
	if int64(len(b)) >= size {
		return b[:size:size]
	}
	nb := make([]byte, size)
	copy(nb, b)
	return nb
}

// Apply replays one event. Directory-entry operations (create, remove, rename,
// mkdir) are modelled as immediately durable; file data is durable at fsync.
func (m *FSModel) Apply(ev *simos.Event) {
	switch ev.Kind {
	case simos.EvCreate:
		m.Files[ev.Path] = &fsFile{}
	case simos.EvWrite:
		f := m.Files[ev.Path]
		if f == nil {
			f = &fsFile{}
			m.Files[ev.Path] = f
		}
		f.vol = writeAt(f.vol, ev.Off, ev.Data)
		f.pend = append(f.pend, *ev)
	case simos.EvTruncate:
		f := m.Files[ev.Path]
		if f == nil {
			f = &fsFile{}
			m.Files[ev.Path] = f
		}
		f.vol = truncateTo(f.vol, ev.Off)
		f.pend = append(f.pend, *ev)
	case simos.EvSync:
		if f := m.Files[ev.Path]; f != nil {
			f.dur = append([]byte{}, f.vol...)
			f.pend = nil
		}
	case simos.EvRemove:
		delete(m.Files, ev.Path)
		delete(m.Dirs, ev.Path)
	case simos.EvRename:
		if f, ok := m.Files[ev.Path]; ok {
			delete(m.Files, ev.Path)
			m.Files[ev.To] = f
		} else {
			// directory rename: move everything below
			pre := ev.Path + "/"
			for p, f := range m.Files {
				if strings.HasPrefix(p, pre) {
					delete(m.Files, p)
					m.Files[ev.To+"/"+p[len(pre):]] = f
				}
			}
			for d := range m.Dirs {
				if d == ev.Path || strings.HasPrefix(d, pre) {
					delete(m.Dirs, d)
					m.Dirs[ev.To+d[len(ev.Path):]] = true
				}
			}
		}
	case simos.EvMkdir:
		for d := ev.Path; len(d) >= len(m.Root); d = filepath.Dir(d) {
			m.Dirs[d] = true
			if d == m.Root {
				break
			}
		}
	case simos.EvRemoveAll:
		pre := ev.Path + "/"
		for p := range m.Files {
			if p == ev.Path || strings.HasPrefix(p, pre) {
				delete(m.Files, p)
			}
		}
		for d := range m.Dirs {
			if d == ev.Path || strings.HasPrefix(d, pre) {
				delete(m.Dirs, d)
			}
		}
	case simos.EvSyncDir:
	}
}

// Replay builds the model for events[:n].
func Replay(root string, events []simos.Event, n int) *FSModel {
	m := NewFSModel(root)
	for i := 0; i < n && i < len(events); i++ {
		m.Apply(&events[i])
	}
	return m
}

// LossMode selects what survives a crash.
type LossMode int

const (
	ProcessCrash LossMode = iota // kill -9: the page cache survives, every file = volatile image
	PowerLoss                    // unsynced file data is kept, lost, or left as a zero-filled extension
)

// CrashImage returns path -> content for the crash state of the model. In
// PowerLoss mode each file independently keeps a drawn prefix of its unsynced
// mutations; the next unsynced write may be applied partially, either cut short or
// with the file extended to its full length and the missing bytes zero.
func (m *FSModel) CrashImage(mode LossMode, r *simcore.Rand, stats map[string]int) map[string][]byte {
	img := map[string][]byte{}
	paths := make([]string, 0, len(m.Files))
	for p := range m.Files {
		paths = append(paths, p)
	}
	sort.Strings(paths)
	for _, p := range paths {
		f := m.Files[p]
		if mode == ProcessCrash || len(f.pend) == 0 {
			img[p] = f.vol
			continue
		}
		var j int
		switch r.Intn(4) {
		case 0:
			j = 0
		case 1:
			j = len(f.pend)
		default:
			j = r.Intn(len(f.pend) + 1)
		}
		b := append([]byte{}, f.dur...)
		for i := 0; i < j; i++ {
			ev := &f.pend[i]
			if ev.Kind == simos.EvWrite {
				b = writeAt(b, ev.Off, ev.Data)
			} else {
				b = truncateTo(b, ev.Off)
			}
		}
		if j < len(f.pend) {
			stats["lost-unsynced"]++
			ev := &f.pend[j]
			// An overwrite that stays inside the file's current extent (the freezer's
			// .meta rewrite, <= one sector) takes either version; only writes that
			// extend the file are torn or left as zero-filled extensions.
			if ev.Kind == simos.EvWrite && len(ev.Data) > 1 && ev.Off+int64(len(ev.Data)) > int64(len(b)) && r.Bool(0.6) {
				k := r.Intn(len(ev.Data))
				if r.Bool(0.5) {
					// torn write: only the first k bytes reached the disk
					if k > 0 {
						b = writeAt(b, ev.Off, ev.Data[:k])
					}
					stats["torn-write"]++
				} else {
					// size updated before data: zero-filled extension from offset k on
					z := make([]byte, len(ev.Data))
					copy(z, ev.Data[:k])
					if int64(len(b)) < ev.Off+int64(len(z)) {
						// only the part beyond the old end is zero; bytes inside the old extent keep old data
						old := int64(len(b))
						nb := truncateTo(b, ev.Off+int64(len(z)))
						for i := int64(0); i < int64(len(z)); i++ {
							pos := ev.Off + i
							if i < int64(k) {
								nb[pos] = ev.Data[i]
							} else if pos >= old {
								nb[pos] = 0
							}
						}
						b = nb
						stats["zero-filled-tail"]++
					}
				}
			}
		}
		img[p] = b
	}
	return img
}

// WholeWriteStates returns every content the file at path can have when each of its unsynced
// mutations is either applied completely or not at all, in order (durable content first). A crash
// image holding anything else for that file contains a torn or zero-filled write.
func (m *FSModel) WholeWriteStates(path string) [][]byte {
	f := m.Files[path]
	if f == nil {
		return nil
	}
	b := append([]byte{}, f.dur...)
	out := [][]byte{append([]byte{}, b...)}
	for i := range f.pend {
		ev := &f.pend[i]
		if ev.Kind == simos.EvWrite {
			b = writeAt(b, ev.Off, ev.Data)
		} else {
			b = truncateTo(b, ev.Off)
		}
		out = append(out, append([]byte{}, b...))
	}
	return out
}

// WriteImage writes a crash image below newRoot (paths are re-rooted).
func (m *FSModel) WriteImage(img map[string][]byte, newRoot string) error {
	dirs := make([]string, 0, len(m.Dirs))
	for d := range m.Dirs {
		dirs = append(dirs, d)
	}
	sort.Strings(dirs)
	for _, d := range dirs {
		if err := os.MkdirAll(filepath.Join(newRoot, strings.TrimPrefix(d, m.Root)), 0o755); err != nil {
			return err
		}
	}
	for p, b := range img {
		np := filepath.Join(newRoot, strings.TrimPrefix(p, m.Root))
		if err := os.MkdirAll(filepath.Dir(np), 0o755); err != nil {
			return err
		}
		if err := os.WriteFile(np, b, 0o644); err != nil {
			return err
		}
	}
	return nil
}

// VerifyAgainstDisk compares the volatile image with the real files below the
// model's root. A mismatch means the tree under test mutated a file through a call
// the rewrite table does not cover: the check must stop (exit 2), not judge.
func (m *FSModel) VerifyAgainstDisk(ignore func(path string) bool) error {
	seen := map[string]bool{}
	err := filepath.Walk(m.Root, func(p string, info os.FileInfo, err error) error {
		if err != nil {
			return err
		}
		if info.IsDir() || (ignore != nil && ignore(p)) {
			return nil
		}
		seen[p] = true
		f := m.Files[p]
		if f == nil {
			return fmt.Errorf("file %s exists on disk but not in the recorded model", p)
		}
		b, err := os.ReadFile(p)
		if err != nil {
			return err
		}
		if !bytes.Equal(b, f.vol) {
			return fmt.Errorf("file %s: disk content (%d bytes) differs from the recorded model (%d bytes)", p, len(b), len(f.vol))
		}
		return nil
	})
	if err != nil {
		return err
	}
	for p := range m.Files {
		if !seen[p] && (ignore == nil || !ignore(p)) {
			return fmt.Errorf("file %s is in the recorded model but not on disk", p)
		}
	}
	return nil
}

// ModelFromImage returns the model of a file system that was restarted on a crash image of
// old (paths re-rooted below newRoot, every file durable as it is in the image); events
// recorded below newRoot by the restarted process can then be applied to it, which gives
// the crash states of a second crash during the restart.
func ModelFromImage(old *FSModel, img map[string][]byte, newRoot string) *FSModel {
	m := NewFSModel(newRoot)
	for d := range old.Dirs {
		m.Dirs[filepath.Join(m.Root, strings.TrimPrefix(d, old.Root))] = true
	}
	for p, b := range img {
		np := filepath.Join(m.Root, strings.TrimPrefix(p, old.Root))
		m.Files[np] = &fsFile{vol: append([]byte{}, b...), dur: append([]byte{}, b...)}
		for d := filepath.Dir(np); len(d) >= len(m.Root); d = filepath.Dir(d) {
			m.Dirs[d] = true
			if d == m.Root {
				break
			}
		}
	}
	return m
}
