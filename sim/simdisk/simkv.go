// Package simdisk is the simulated disk: SimKV (an ethdb.KeyValueStore over the
// real memorydb that logs every mutation unit with a global sequence number,
// parks callers at scheduler gates and injects faults) and the crash-state
// materialiser for KV op logs and simos file event logs.
package simdisk

import (
	"bytes"
	"encoding/hex"
	"errors"
	"sort"
	"sync"
	"sync/atomic"

	"github.com/ethereum/go-ethereum/ethdb"
	"github.com/ethereum/go-ethereum/ethdb/memorydb"

	"verifsim/simsched"
)

// Clock hands out the global event sequence numbers shared by SimKV and simos.
type Clock struct{ n atomic.Uint64 }

func (c *Clock) Next() uint64 { return c.n.Add(1) }
func (c *Clock) Now() uint64  { return c.n.Load() }

type OpKind uint8

const (
	OpPut OpKind = iota + 1
	OpDelete
	OpDeleteRange
	OpBatch
	OpSync
)

// KVOp is one logged mutation unit (a batch is one unit: one WAL record in the
// real backends, hence atomic).
type KVOp struct {
	Seq   uint64
	Kind  OpKind
	Key   []byte
	Val   []byte // value, or range end for OpDeleteRange
	Batch []KVOp
}

var (
	ErrDiskFull = errors.New("simdisk: no space left on device (injected)")
	ErrIO       = errors.New("simdisk: input/output error (injected)")
)

type SimKV struct {
	mem   *memorydb.Database
	mu    sync.Mutex
	Log   []KVOp
	Clock *Clock
	Sched *simsched.Sched

	GateReads  bool
	GateWrites bool
	GateIter   bool

	// ValueSizeScale > 1 inflates Batch.ValueSize() (documented as approximate) so
	// that ethdb.IdealBatchSize flush paths run with tiny states.
	ValueSizeScale int

	// FailWriteAt: the n-th (1-based) mutation unit returns the error and is not applied.
	FailWriteAt map[int]error
	writeUnits  int
	// FailGet: if it returns true for a key, Get/Has report "not found".
	FailGet func(key []byte) bool
	// FailSyncAt: the n-th SyncKeyValue fails.
	FailSyncAt map[int]error
	syncs      int

	// Hook runs after a unit has been applied and logged (crash probes etc.).
	Hook func(op *KVOp)

	Reads, Writes, Fired atomic.Int64
	closed               bool
}

func NewSimKV(clock *Clock) *SimKV {
	if clock == nil {
		clock = &Clock{}
	}
	return &SimKV{mem: memorydb.New(), Clock: clock, ValueSizeScale: 1}
}

// FromMem wraps an existing memorydb (e.g. a materialised crash image).
func FromMem(mem *memorydb.Database, clock *Clock) *SimKV {
	kv := NewSimKV(clock)
	kv.mem = mem
	return kv
}

func (kv *SimKV) Mem() *memorydb.Database { return kv.mem }

func label(op string, key []byte) string {
	if len(key) > 8 {
		key = key[:8]
	}
	return "kv." + op + ":" + hex.EncodeToString(key)
}

func (kv *SimKV) gate(on bool, op string, key []byte) {
	if on && kv.Sched != nil {
		kv.Sched.Gate(label(op, key))
	}
}

func (kv *SimKV) Has(key []byte) (bool, error) {
	kv.gate(kv.GateReads, "has", key)
	kv.Reads.Add(1)
	if kv.FailGet != nil && kv.FailGet(key) {
		kv.Fired.Add(1)
		return false, nil
	}
	return kv.mem.Has(key)
}

func (kv *SimKV) Get(key []byte) ([]byte, error) {
	kv.gate(kv.GateReads, "get", key)
	kv.Reads.Add(1)
	if kv.FailGet != nil && kv.FailGet(key) {
		kv.Fired.Add(1)
		return nil, errNotFound
	}
	return kv.mem.Get(key)
}

var errNotFound = func() error {
	_, err := memorydb.New().Get([]byte("x"))
	return err
}()

func cp(b []byte) []byte { return append([]byte{}, b...) }

// unit applies one mutation unit atomically, after the fault check.
func (kv *SimKV) unit(op KVOp, apply func() error) error {
	kv.mu.Lock()
	kv.writeUnits++
	if err, ok := kv.FailWriteAt[kv.writeUnits]; ok {
		kv.mu.Unlock()
		kv.Fired.Add(1)
		return err
	}
	if err := apply(); err != nil {
		kv.mu.Unlock()
		return err
	}
	op.Seq = kv.Clock.Next()
	kv.Log = append(kv.Log, op)
	h := kv.Hook
	p := &kv.Log[len(kv.Log)-1]
	kv.mu.Unlock()
	kv.Writes.Add(1)
	if h != nil {
		h(p)
	}
	return nil
}

func (kv *SimKV) Put(key, value []byte) error {
	kv.gate(kv.GateWrites, "put", key)
	return kv.unit(KVOp{Kind: OpPut, Key: cp(key), Val: cp(value)}, func() error { return kv.mem.Put(key, value) })
}

func (kv *SimKV) Delete(key []byte) error {
	kv.gate(kv.GateWrites, "del", key)
	return kv.unit(KVOp{Kind: OpDelete, Key: cp(key)}, func() error { return kv.mem.Delete(key) })
}

func (kv *SimKV) DeleteRange(start, end []byte) error {
	kv.gate(kv.GateWrites, "delrange", start)
	return kv.unit(KVOp{Kind: OpDeleteRange, Key: cp(start), Val: cp(end)}, func() error { return kv.mem.DeleteRange(start, end) })
}

func (kv *SimKV) Stat() (string, error)             { return "simkv", nil }
func (kv *SimKV) Compact(start, limit []byte) error { return nil }
func (kv *SimKV) Close() error                      { kv.closed = true; return nil }

func (kv *SimKV) SyncKeyValue() error {
	kv.gate(kv.GateWrites, "sync", nil)
	kv.mu.Lock()
	kv.syncs++
	if err, ok := kv.FailSyncAt[kv.syncs]; ok {
		kv.mu.Unlock()
		kv.Fired.Add(1)
		return err
	}
	kv.Log = append(kv.Log, KVOp{Seq: kv.Clock.Next(), Kind: OpSync})
	h := kv.Hook
	p := &kv.Log[len(kv.Log)-1]
	kv.mu.Unlock()
	if h != nil {
		h(p)
	}
	return nil
}

// LogLen returns the number of logged units.
func (kv *SimKV) LogLen() int {
	kv.mu.Lock()
	defer kv.mu.Unlock()
	return len(kv.Log)
}

// Snapshot returns a copy of the log (safe to read while the SUT runs).
func (kv *SimKV) Snapshot() []KVOp {
	kv.mu.Lock()
	defer kv.mu.Unlock()
	return append([]KVOp{}, kv.Log...)
}

// ---- batch

type simBatch struct {
	kv   *SimKV
	ops  []KVOp
	size int
}

func (kv *SimKV) NewBatch() ethdb.Batch                 { return &simBatch{kv: kv} }
func (kv *SimKV) NewBatchWithSize(size int) ethdb.Batch { return &simBatch{kv: kv} }

func (b *simBatch) Put(key, value []byte) error {
	b.ops = append(b.ops, KVOp{Kind: OpPut, Key: cp(key), Val: cp(value)})
	b.size += len(key) + len(value)
	return nil
}
func (b *simBatch) Delete(key []byte) error {
	b.ops = append(b.ops, KVOp{Kind: OpDelete, Key: cp(key)})
	b.size += len(key)
	return nil
}
func (b *simBatch) DeleteRange(start, end []byte) error {
	b.ops = append(b.ops, KVOp{Kind: OpDeleteRange, Key: cp(start), Val: cp(end)})
	b.size += len(start) + len(end)
	return nil
}
func (b *simBatch) ValueSize() int {
	s := b.kv.ValueSizeScale
	if s < 1 {
		s = 1
	}
	return b.size * s
}
func (b *simBatch) Reset() { b.ops = b.ops[:0]; b.size = 0 }
func (b *simBatch) Close() {}

func (b *simBatch) Write() error {
	if len(b.ops) == 0 {
		return nil
	}
	b.kv.gate(b.kv.GateWrites, "batch", b.ops[0].Key)
	ops := append([]KVOp{}, b.ops...)
	return b.kv.unit(KVOp{Kind: OpBatch, Batch: ops}, func() error {
		mb := b.kv.mem.NewBatch()
		for _, op := range ops {
			switch op.Kind {
			case OpPut:
				mb.Put(op.Key, op.Val)
			case OpDelete:
				mb.Delete(op.Key)
			case OpDeleteRange:
				mb.DeleteRange(op.Key, op.Val)
			}
		}
		return mb.Write()
	})
}

func (b *simBatch) Replay(w ethdb.KeyValueWriter) error {
	for _, op := range b.ops {
		switch op.Kind {
		case OpPut:
			if err := w.Put(op.Key, op.Val); err != nil {
				return err
			}
		case OpDelete:
			if err := w.Delete(op.Key); err != nil {
				return err
			}
		case OpDeleteRange:
			rd, ok := w.(ethdb.KeyValueRangeDeleter)
			if !ok {
				return errors.New("simdisk: replay target cannot delete ranges")
			}
			if err := rd.DeleteRange(op.Key, op.Val); err != nil {
				return err
			}
		}
	}
	return nil
}

// ---- iterator

type simIter struct {
	kv *SimKV
	it ethdb.Iterator
	n  int
}

func (kv *SimKV) NewIterator(prefix, start []byte) ethdb.Iterator {
	kv.gate(kv.GateIter, "iter", append(cp(prefix), start...))
	return &simIter{kv: kv, it: kv.mem.NewIterator(prefix, start)}
}

func (it *simIter) Next() bool {
	if it.kv.GateIter && it.kv.Sched != nil {
		it.kv.Sched.Gate("kv.next")
	}
	it.kv.Reads.Add(1)
	return it.it.Next()
}
func (it *simIter) Error() error  { return it.it.Error() }
func (it *simIter) Key() []byte   { return it.it.Key() }
func (it *simIter) Value() []byte { return it.it.Value() }
func (it *simIter) Release()      { it.it.Release() }

// ---- crash images

func applyOp(mem *memorydb.Database, op *KVOp) {
	switch op.Kind {
	case OpPut:
		mem.Put(op.Key, op.Val)
	case OpDelete:
		mem.Delete(op.Key)
	case OpDeleteRange:
		mem.DeleteRange(op.Key, op.Val)
	case OpBatch:
		for i := range op.Batch {
			applyOp(mem, &op.Batch[i])
		}
	}
}

// MaterialiseKV returns a fresh memorydb holding exactly the units of log with
// Seq <= cutSeq, minus (power-loss) the last `lose` un-synced units, where
// `lose` is clamped to the number of units after the last sync barrier.
// It reports how many units were dropped.
func MaterialiseKV(log []KVOp, cutSeq uint64, lose int) (*memorydb.Database, int) {
	n := sort.Search(len(log), func(i int) bool { return log[i].Seq > cutSeq })
	// units after the last barrier within [0,n)
	lastSync := -1
	for i := n - 1; i >= 0; i-- {
		if log[i].Kind == OpSync {
			lastSync = i
			break
		}
	}
	unsynced := n - 1 - lastSync
	if lose > unsynced {
		lose = unsynced
	}
	if lose < 0 {
		lose = 0
	}
	mem := memorydb.New()
	for i := 0; i < n-lose; i++ {
		applyOp(mem, &log[i])
	}
	return mem, lose
}

// UnsyncedUnits returns the number of mutation units after the last barrier at cutSeq.
func UnsyncedUnits(log []KVOp, cutSeq uint64) int {
	n := sort.Search(len(log), func(i int) bool { return log[i].Seq > cutSeq })
	c := 0
	for i := n - 1; i >= 0; i-- {
		if log[i].Kind == OpSync {
			break
		}
		c++
	}
	return c
}

// DumpMem returns all key/value pairs of a memorydb in key order.
func DumpMem(mem ethdb.Iteratee, prefix []byte) (keys, vals [][]byte) {
	it := mem.NewIterator(prefix, nil)
	defer it.Release()
	for it.Next() {
		keys = append(keys, cp(it.Key()))
		vals = append(vals, cp(it.Value()))
	}
	return
}

// EqualMem compares two stores over a prefix; returns the first differing key.
func EqualMem(a, b ethdb.Iteratee, prefix []byte) (bool, []byte) {
	ka, va := DumpMem(a, prefix)
	kb, vb := DumpMem(b, prefix)
	for i := 0; i < len(ka) && i < len(kb); i++ {
		if !bytes.Equal(ka[i], kb[i]) {
			if bytes.Compare(ka[i], kb[i]) < 0 {
				return false, ka[i]
			}
			return false, kb[i]
		}
		if !bytes.Equal(va[i], vb[i]) {
			return false, ka[i]
		}
	}
	if len(ka) != len(kb) {
		if len(ka) > len(kb) {
			return false, ka[len(kb)]
		}
		return false, kb[len(ka)]
	}
	return true, nil
}

// CopyMem returns an independent copy of a memorydb.
func CopyMem(mem *memorydb.Database) *memorydb.Database {
	out := memorydb.New()
	it := mem.NewIterator(nil, nil)
	defer it.Release()
	for it.Next() {
		out.Put(cp(it.Key()), cp(it.Value()))
	}
	return out
}

// MaterialiseKVOn applies the units of log with Seq <= cutSeq to a copy of base (the image a
// restarted process started from) and returns it.
func MaterialiseKVOn(base *memorydb.Database, log []KVOp, cutSeq uint64) *memorydb.Database {
	mem := CopyMem(base)
	for i := range log {
		if log[i].Seq > cutSeq {
			break
		}
		applyOp(mem, &log[i])
	}
	return mem
}
