// Package migsim checks C25: chain data is unchanged by migration into the
// freezer, including a stop at any point of the migration.
//
// The system under test is the real rawdb.Open(kv, {Ancient: dir}) stack: freezerdb,
// chainFreezer.freeze, the real Freezer (through the simos file seam) and the real
// rawdb chain accessors. The key-value store is simdisk.SimKV (real memorydb with an
// op log); both the KV op log and the simos file-event log are stamped from one
// simdisk.Clock, so "a cut" is one sequence number of the combined log.
package migsim

import (
	"bytes"
	"encoding/binary"
	"encoding/json"
	"fmt"
	"math/big"
	"os"
	"path/filepath"
	"regexp"
	"runtime"
	"sort"
	"strings"
	"sync"
	"sync/atomic"
	"testing"
	"time"

	"github.com/ethereum/go-ethereum/common"
	"github.com/ethereum/go-ethereum/core/rawdb"
	"github.com/ethereum/go-ethereum/core/types"
	"github.com/ethereum/go-ethereum/ethdb"
	"github.com/ethereum/go-ethereum/params"
	"github.com/ethereum/go-ethereum/rlp"

	"verifsim/simcore"
	"verifsim/simdisk"
	"verifsim/simos"
)

// ---------------------------------------------------------------- plan

// Op is one step of a history. Selectors (A) are reduced modulo the number of
// eligible targets at run time, so every plan is executable and shrinkable.
type Op struct {
	K string `json:"k"`           // canon | side | reorg | final | freeze | reopen
	N int    `json:"n,omitempty"` // canon/side: number of blocks
	A uint64 `json:"a,omitempty"` // selector (side: parent, reorg: branch tip, final: height)
	S uint64 `json:"s,omitempty"` // content salt
}

type Plan struct {
	Ops        []Op   `json:"ops"`
	BatchLimit uint64 `json:"batch_limit"` // chain freezer blocks per cycle (0 = the shipped 30000); small values give capped batches and several consecutive cycles per Freeze()
	CutSeed    uint64 `json:"cut_seed"`
	MaxCuts    int    `json:"max_cuts"`  // 0 = every cut of every freeze window
	Draws      int    `json:"draws"`     // power-loss draws per cut
	OnlyCut    uint64 `json:"only_cut"`  // >0: minimised replay evaluates the cut after this sequence number ...
	OnlyDraw   int    `json:"only_draw"` // ... and this draw (0 = process crash, k = k-th power-loss draw)
	Expect     string `json:"expect"`    // oracle class found at OnlyCut (replay looks for this class first)
}

func gen(r *simcore.Rand, tier string) any {
	p := &Plan{CutSeed: r.Uint64(), Draws: 2, MaxCuts: 36}
	if !r.Bool(0.4) {
		p.BatchLimit = uint64(r.Range(1, 8))
	}
	rounds := r.Range(1, 3)
	if tier == "thorough" {
		rounds = r.Range(1, 5)
		p.Draws = 3
		p.MaxCuts = 0
	}
	p.Ops = append(p.Ops, Op{K: "canon", N: r.Range(2, 9), S: r.Uint64() >> 1})
	for i := 0; i < rounds; i++ {
		if i > 0 || r.Bool(0.5) {
			p.Ops = append(p.Ops, Op{K: "canon", N: r.Range(1, 6), S: r.Uint64() >> 1})
		}
		for k := r.Intn(4); k > 0; k-- {
			p.Ops = append(p.Ops, Op{K: "side", N: r.Range(1, 4), A: r.Uint64() >> 1, S: r.Uint64() >> 1})
		}
		if r.Bool(0.3) {
			p.Ops = append(p.Ops, Op{K: "reorg", A: r.Uint64() >> 1})
			if r.Bool(0.5) {
				p.Ops = append(p.Ops, Op{K: "side", N: r.Range(1, 3), A: r.Uint64() >> 1, S: r.Uint64() >> 1})
			}
		}
		if r.Bool(0.4) {
			p.Ops = append(p.Ops, Op{K: "canon", N: r.Range(1, 3), S: r.Uint64() >> 1})
		}
		if r.Bool(0.9) {
			p.Ops = append(p.Ops, Op{K: "final", A: r.Uint64() >> 1})
		}
		if r.Bool(0.15) {
			p.Ops = append(p.Ops, Op{K: "reopen"})
		}
		p.Ops = append(p.Ops, Op{K: "freeze"})
		if r.Bool(0.1) {
			p.Ops = append(p.Ops, Op{K: "freeze"})
		}
	}
	return p
}

func decode(b []byte) (any, error) {
	p := &Plan{}
	return p, json.Unmarshal(b, p)
}

func shrink(pl any) []any {
	p := pl.(*Plan)
	var out []any
	mk := func(f func(q *Plan)) {
		b, _ := json.Marshal(p)
		q := &Plan{}
		json.Unmarshal(b, q)
		f(q)
		out = append(out, q)
	}
	for _, ops := range simcore.ShrinkSlice(p.Ops) {
		ops := ops
		mk(func(q *Plan) { q.Ops = ops; q.OnlyCut, q.OnlyDraw = 0, 0 })
	}
	if p.BatchLimit != 0 {
		mk(func(q *Plan) { q.BatchLimit = 0; q.OnlyCut, q.OnlyDraw, q.Expect = 0, 0, "" })
	}
	for i, op := range p.Ops {
		i, op := i, op
		if (op.K == "canon" || op.K == "side") && op.N > 1 {
			mk(func(q *Plan) { q.Ops[i].N = op.N / 2; q.OnlyCut, q.OnlyDraw, q.Expect = 0, 0, "" })
			mk(func(q *Plan) { q.Ops[i].N = op.N - 1; q.OnlyCut, q.OnlyDraw, q.Expect = 0, 0, "" })
		}
	}
	return out
}

// ---------------------------------------------------------------- reference chain

type blk struct {
	id       int
	num      uint64
	parent   int // -1 for genesis
	hash     common.Hash
	header   *types.Header
	body     *types.Body
	receipts types.Receipts
	hdrRLP   []byte
	bodyRLP  []byte
	rcRLP    []byte
	balRLP   []byte // nil: no access list stored
	txs      []common.Hash
	trefs    []txRef
}

// txRef is a transaction together with the seed its receipt is derived from, so that
// another block (a competing fork, or a later canonical block after a reorg) can
// include the very same transaction.
type txRef struct {
	tx *types.Transaction
	x  uint64
}

// chain is the reference block tree plus what the property lets us expect of the
// store: which block is canonical at each height, which side blocks must be gone.
type chain struct {
	blocks  []*blk
	canon   []int // height -> block id
	isCanon map[int]bool
	removed map[int]bool // side blocks the completed freezes must have removed
	final   uint64       // finalized height (0 = marker not set)
	frozen  uint64       // number of blocks the freezer must hold after the completed freezes
	txNonce uint64
}

// snapshot of the expectations, taken when a freeze window opens.
type snap struct {
	canon        []int
	isCanon      map[int]bool
	removedPre   map[int]bool // before this freeze
	removedPost  map[int]bool // after it completed
	final        uint64
	frozenPre    uint64
	frozenPost   uint64
	nblocks      int
	startSeq     uint64 // nothing of the window has happened at this cut
	endSeq       uint64
	kind         string
	headHash     common.Hash
	finalHash    common.Hash
	danglingPost map[int]bool // subset of removedPost above the boundary
}

var toAddr = common.HexToAddress("0x00000000000000000000000000000000000c25c2")

func (c *chain) mkBlock(parent *blk, salt uint64, reuse []txRef) *blk {
	id := len(c.blocks)
	h := simcore.SplitMix(salt ^ uint64(id)*0x9e3779b97f4a7c15)
	b := &blk{id: id, parent: -1}
	hdr := &types.Header{
		Difficulty: big.NewInt(0),
		Number:     new(big.Int),
		GasLimit:   30_000_000,
		Extra:      binary.BigEndian.AppendUint64(nil, h),
	}
	if parent != nil {
		b.parent = parent.id
		b.num = parent.num + 1
		hdr.ParentHash = parent.hash
		hdr.Number.SetUint64(b.num)
		hdr.Time = b.num * 12
	}
	body := &types.Body{}
	ntx := int(h % 4)
	if h&0x30 == 0 || parent == nil {
		ntx = 0 // the genesis block carries no transactions (a lookup entry for height 0 is an empty value)
	}
	refs := append([]txRef{}, reuse...)
	for i := 0; i < ntx; i++ {
		c.txNonce++
		x := simcore.SplitMix(h + uint64(i))
		data := make([]byte, x%37)
		for k := range data {
			data[k] = byte(x >> (uint(k) % 56))
		}
		to := toAddr
		tx := types.NewTx(&types.LegacyTx{Nonce: c.txNonce, To: &to, Value: big.NewInt(int64(x % 1000)), Gas: 21000 + uint64(len(data))*16, GasPrice: big.NewInt(1), Data: data})
		// fresh transactions go before or after the shared ones
		if x&(1<<20) != 0 {
			refs = append([]txRef{{tx, x}}, refs...)
		} else {
			refs = append(refs, txRef{tx, x})
		}
	}
	var cum uint64
	for _, ref := range refs {
		tx, x := ref.tx, ref.x
		body.Transactions = append(body.Transactions, tx)
		b.txs = append(b.txs, tx.Hash())
		cum += tx.Gas()
		rc := &types.Receipt{Type: types.LegacyTxType, Status: x & 1, CumulativeGasUsed: cum}
		for l := 0; l < int(x>>8)%3; l++ {
			rc.Logs = append(rc.Logs, &types.Log{Address: toAddr, Topics: []common.Hash{common.BigToHash(new(big.Int).SetUint64(x + uint64(l)))}, Data: tx.Data()})
		}
		b.receipts = append(b.receipts, rc)
	}
	b.trefs = refs
	if b.receipts == nil {
		b.receipts = types.Receipts{}
	}
	if h&0x300 != 0 {
		// an opaque, well-formed RLP list stands in for the block access list
		b.balRLP, _ = rlp.EncodeToBytes([]uint64{h, uint64(id), b.num})
	}
	b.header, b.body = hdr, body
	b.hash = hdr.Hash()
	b.hdrRLP, _ = rlp.EncodeToBytes(hdr)
	b.bodyRLP, _ = rlp.EncodeToBytes(body)
	st := make([]*types.ReceiptForStorage, len(b.receipts))
	for i, rc := range b.receipts {
		st[i] = (*types.ReceiptForStorage)(rc)
	}
	b.rcRLP, _ = rlp.EncodeToBytes(st)
	c.blocks = append(c.blocks, b)
	return b
}

func (c *chain) head() *blk { return c.blocks[c.canon[len(c.canon)-1]] }

// reuseForSide picks transactions of the current canonical chain for a side block on
// top of par: mostly from the canonical block of the SAME height (two forks of one
// height usually carry the same pending transactions), sometimes from another height
// above the fork point. Never a transaction the branch already contains.
func (c *chain) reuseForSide(par *blk, salt uint64) []txRef {
	fp := c.forkPoint(par)
	used := map[common.Hash]bool{}
	for a := par; a.id != fp.id; a = c.blocks[a.parent] {
		for _, th := range a.txs {
			used[th] = true
		}
	}
	x := simcore.SplitMix(salt ^ 0x7e57ab1e)
	h := par.num + 1
	var out []txRef
	take := func(r txRef) {
		if !used[r.tx.Hash()] {
			used[r.tx.Hash()] = true
			out = append(out, r)
		}
	}
	if h < uint64(len(c.canon)) && x%10 < 7 {
		cb := c.blocks[c.canon[h]]
		for i, r := range cb.trefs {
			if (x>>(8+uint(i)))&1 == 1 || uint64(i) == (x>>4)%uint64(len(cb.trefs)) {
				take(r)
			}
		}
	}
	if top := uint64(len(c.canon)) - 1; top > fp.num && (x>>32)%10 < 3 {
		h2 := fp.num + 1 + (x>>36)%(top-fp.num)
		if h2 != h {
			for i, r := range c.blocks[c.canon[h2]].trefs {
				if i == 0 || (x>>(40+uint(i)))&1 == 1 {
					take(r)
				}
			}
		}
	}
	return out
}

// reuseForCanon picks transactions of blocks that are NOT on the canonical chain (forks,
// blocks dropped by a reorg) for inclusion in the next canonical block, as a pool does.
func (c *chain) reuseForCanon(salt uint64) []txRef {
	x := simcore.SplitMix(salt ^ 0xca11ab1e)
	if x%10 >= 3 {
		return nil
	}
	onCanon := map[common.Hash]bool{}
	for _, id := range c.canon {
		for _, th := range c.blocks[id].txs {
			onCanon[th] = true
		}
	}
	var out []txRef
	for _, b := range c.blocks {
		if c.isCanon[b.id] {
			continue
		}
		for i, r := range b.trefs {
			if !onCanon[r.tx.Hash()] && (x>>(8+uint(b.id+i)%40))&1 == 1 && len(out) < 3 {
				onCanon[r.tx.Hash()] = true
				out = append(out, r)
			}
		}
	}
	return out
}

// boundary returns the highest frozen height and whether anything is frozen.
func (c *chain) forkPoint(b *blk) *blk {
	for !c.isCanon[b.id] {
		b = c.blocks[b.parent]
	}
	return b
}

// applyFreeze advances the expectations by one completed freeze cycle, following
// the property: blocks up to the threshold are in the freezer, side-chain blocks at
// or below the frozen boundary and their descendants are gone.
func (c *chain) applyFreeze() {
	if c.final == 0 {
		return // head never exceeds params.FullImmutabilityThreshold here: no threshold
	}
	if c.frozen != 0 && c.frozen-1 >= c.final {
		return
	}
	c.frozen = c.final + 1
	bound := c.frozen - 1
	for _, b := range c.blocks {
		if c.isCanon[b.id] || c.removed[b.id] || b.num == 0 {
			continue
		}
		// at or below the boundary, or descending from a side block at or below it
		for a := b; !c.isCanon[a.id]; a = c.blocks[a.parent] {
			if a.num <= bound {
				c.removed[b.id] = true
				break
			}
		}
	}
}

func cpSet(m map[int]bool) map[int]bool {
	o := make(map[int]bool, len(m))
	for k, v := range m {
		o[k] = v
	}
	return o
}

// ---------------------------------------------------------------- KV wrapper that parks the freezer goroutine

// holdKV lets the harness observe the database right after rawdb.Open, before the
// background freeze loop (started by Open) has done anything: the first read of a
// freeze cycle (ReadHeadBlockHash in freezeThreshold) blocks here while held. Only
// the goroutine running chainFreezer.freeze is ever blocked.
type holdKV struct {
	*simdisk.SimKV
	held    atomic.Bool
	mu      sync.Mutex
	parked  chan struct{}
	release chan struct{}
}

var headBlockKey = []byte("LastBlock")

func newHoldKV(kv *simdisk.SimKV) *holdKV {
	return &holdKV{SimKV: kv}
}

func (h *holdKV) hold() {
	h.mu.Lock()
	h.parked = make(chan struct{})
	h.release = make(chan struct{})
	h.mu.Unlock()
	h.held.Store(true)
}

func (h *holdKV) Get(key []byte) ([]byte, error) {
	if h.held.Load() && bytes.Equal(key, headBlockKey) {
		var buf [8192]byte
		n := runtime.Stack(buf[:], false)
		if bytes.Contains(buf[:n], []byte("(*chainFreezer).freeze(")) {
			h.mu.Lock()
			parked, release := h.parked, h.release
			h.mu.Unlock()
			select {
			case <-parked:
			default:
				close(parked)
			}
			<-release
		}
	}
	return h.SimKV.Get(key)
}

// waitParked blocks until the freeze loop sits at its first read.
func (h *holdKV) waitParked() {
	select {
	case <-h.parked:
	case <-time.After(20 * time.Second):
		simcore.Harnessf("freeze loop did not reach its first read within 20s after Open")
	}
}

func (h *holdKV) letGo() {
	if h.held.Swap(false) {
		close(h.release)
	}
}

type freezer interface{ Freeze() error }

// ---------------------------------------------------------------- run

func scratchDir() string {
	d := os.Getenv("VERIF_SCRATCH")
	if d == "" {
		d = "/dev/shm"
	}
	return d
}

var trace = os.Getenv("VERIF_TRACE") != ""

func run(t *testing.T, pl any) *simcore.Result {
	p := pl.(*Plan)
	if p.OnlyCut == 0 {
		return runOnce(t, p, "")
	}
	// The tree under test iterates its table map in Go's random order, so file events
	// of different tables may interleave differently between executions: the recorded
	// cut is a hint; fall back to every cut of a few re-executions, looking for the
	// recorded violation class first.
	res := runOnce(t, p, "")
	if res.Violation != nil && (p.Expect == "" || res.Violation.Oracle == p.Expect) {
		return res
	}
	other := res
	for attempt := 0; attempt < 6; attempt++ {
		q := *p
		q.OnlyCut, q.OnlyDraw, q.MaxCuts = 0, 0, 0
		r2 := runOnce(t, &q, p.Expect)
		other.Reboots += r2.Reboots
		if r2.Violation != nil {
			if p.Expect == "" || r2.Violation.Oracle == p.Expect {
				return r2
			}
			if other.Violation == nil {
				other = r2
			}
		}
	}
	return other
}

type world struct {
	p     *Plan
	res   *simcore.Result
	root  string
	clock *simdisk.Clock
	kv    *simdisk.SimKV
	hkv   *holdKV
	rec   *simos.Recorder
	db    ethdb.Database
	c     *chain
	wins  []*snap
	log   simcore.Hash64
}

func (w *world) open() *simcore.Violation {
	w.hkv.hold()
	db, err := rawdb.Open(w.hkv, rawdb.OpenOptions{Ancient: filepath.Join(w.root, "anc")})
	if err != nil {
		w.hkv.letGo()
		return simcore.Violf("open-error", "rawdb.Open failed on a cleanly closed database: %v", err)
	}
	w.db = db
	w.hkv.waitParked()
	return nil
}

// quiesce lets the held freeze loop run its start-up cycle and one triggered cycle.
func (w *world) quiesce() {
	w.hkv.letGo()
	if err := w.db.(freezer).Freeze(); err != nil {
		simcore.Harnessf("Freeze: %v", err)
	}
}

func (w *world) writeBlock(b *blk, canon bool) {
	blk := types.NewBlockWithHeader(b.header).WithBody(*b.body)
	rawdb.WriteBlock(w.db, blk)
	rawdb.WriteReceipts(w.db, b.hash, b.num, b.receipts)
	if b.balRLP != nil {
		rawdb.WriteAccessListRLP(w.db, b.hash, b.num, b.balRLP)
	}
	if canon {
		w.setCanon(b)
	}
}

func (w *world) setCanon(b *blk) {
	rawdb.WriteCanonicalHash(w.db, b.hash, b.num)
	blk := types.NewBlockWithHeader(b.header).WithBody(*b.body)
	rawdb.WriteTxLookupEntriesByBlock(w.db, blk)
}

func (w *world) setHead(b *blk) {
	rawdb.WriteHeadHeaderHash(w.db, b.hash)
	rawdb.WriteHeadFastBlockHash(w.db, b.hash)
	rawdb.WriteHeadBlockHash(w.db, b.hash)
}

func (w *world) openWindow(kind string) *snap {
	c := w.c
	s := &snap{canon: append([]int{}, c.canon...), isCanon: cpSet(c.isCanon), removedPre: cpSet(c.removed),
		final: c.final, frozenPre: c.frozen, nblocks: len(c.blocks), startSeq: w.clock.Now(), kind: kind,
		headHash: c.head().hash}
	if c.final > 0 {
		s.finalHash = c.blocks[c.canon[c.final]].hash
	}
	return s
}

func (w *world) closeWindow(s *snap) {
	c := w.c
	s.removedPost = cpSet(c.removed)
	s.frozenPost = c.frozen
	s.endSeq = w.clock.Now()
	s.danglingPost = map[int]bool{}
	if s.frozenPost > 0 {
		for id := range s.removedPost {
			if c.blocks[id].num > s.frozenPost-1 {
				s.danglingPost[id] = true
			}
		}
	}
	w.wins = append(w.wins, s)
}

func runOnce(t *testing.T, p *Plan, want string) *simcore.Result {
	res := simcore.NewResult()
	// process-global knob of the tree under test (a constant in the shipped tree, made a
	// variable by the build overlay): set for this run including its reboots, then restored
	limit := p.BatchLimit
	if limit == 0 {
		limit = shippedBatchLimit
	}
	defer rawdb.VerifSetFreezerBatchLimit(rawdb.VerifSetFreezerBatchLimit(limit))
	root, err := os.MkdirTemp(scratchDir(), "mig-")
	if err != nil {
		simcore.Harnessf("mkdtemp: %v", err)
	}
	defer os.RemoveAll(root)
	w := &world{p: p, res: res, root: root, clock: &simdisk.Clock{}, log: simcore.NewHash()}
	w.kv = simdisk.NewSimKV(w.clock)
	w.hkv = newHoldKV(w.kv)
	w.rec = simos.NewRecorder(root)
	w.rec.NextSeq = w.clock.Next
	simos.ResetLocks()
	simos.Install(w.rec)
	defer simos.Install(nil)
	w.c = &chain{isCanon: map[int]bool{}, removed: map[int]bool{}}
	c := w.c

	if v := w.open(); v != nil {
		return res.Fail(v)
	}
	closed := false
	defer func() {
		if !closed {
			w.hkv.letGo()
			w.db.Close()
		}
	}()
	w.quiesce()

	// genesis
	g := c.mkBlock(nil, p.CutSeed, nil)
	c.canon = []int{g.id}
	c.isCanon[g.id] = true
	w.writeBlock(g, true)
	w.setHead(g)

	for _, op := range p.Ops {
		switch op.K {
		case "canon":
			for i := 0; i < op.N && len(c.canon) < 400; i++ {
				reuse := c.reuseForCanon(op.S + uint64(i))
				if len(reuse) > 0 {
					res.Probe("canonical-block-reincludes-fork-tx")
				}
				b := c.mkBlock(c.head(), op.S+uint64(i), reuse)
				c.canon = append(c.canon, b.id)
				c.isCanon[b.id] = true
				w.writeBlock(b, true)
				w.setHead(b)
			}
		case "side":
			// parent: any block still expected in the store whose child lies above the
			// frozen boundary (a node only ever imports blocks above its frozen segment)
			var cands []*blk
			for _, b := range c.blocks {
				if c.removed[b.id] || b.num+1 < c.frozen || b.num+1 == 0 {
					continue
				}
				if c.frozen > 0 && b.num+1 <= c.frozen-1 {
					continue
				}
				cands = append(cands, b)
			}
			if len(cands) == 0 {
				continue
			}
			par := cands[op.A%uint64(len(cands))]
			// bias towards forks that matter: prefer parents not far above the finalized height
			for i := 0; i < op.N; i++ {
				reuse := c.reuseForSide(par, op.S+uint64(i))
				b := c.mkBlock(par, op.S+uint64(i)+0x5151, reuse)
				for _, r := range reuse {
					if b.num < uint64(len(c.canon)) {
						for _, th := range c.blocks[c.canon[b.num]].txs {
							if th == r.tx.Hash() {
								res.Probe("side-block-shares-tx-with-canonical-same-height")
							}
						}
					}
				}
				if len(reuse) > 0 {
					res.Probe("side-block-shares-canonical-tx")
				}
				w.writeBlock(b, false)
				par = b
				if c.isCanon[b.parent] {
					res.Probe("fork-from-canonical")
				}
			}
		case "reorg":
			// switch to a side branch forking above both the finalized height and the frozen boundary
			var tips []*blk
			for _, b := range c.blocks {
				if c.isCanon[b.id] || c.removed[b.id] {
					continue
				}
				fp := c.forkPoint(b)
				if fp.num < c.final || (c.frozen > 0 && fp.num < c.frozen-1) {
					continue
				}
				tips = append(tips, b)
			}
			if len(tips) == 0 {
				continue
			}
			tip := tips[op.A%uint64(len(tips))]
			fp := c.forkPoint(tip)
			// drop the old canonical blocks above the fork point
			for n := uint64(len(c.canon)) - 1; n > fp.num; n-- {
				old := c.blocks[c.canon[n]]
				delete(c.isCanon, old.id)
				rawdb.DeleteCanonicalHash(w.db, n)
				rawdb.DeleteTxLookupEntries(w.db, old.txs)
			}
			c.canon = c.canon[:fp.num+1]
			var path []*blk
			for b := tip; b.id != fp.id; b = c.blocks[b.parent] {
				path = append(path, b)
			}
			for i := len(path) - 1; i >= 0; i-- {
				c.canon = append(c.canon, path[i].id)
				c.isCanon[path[i].id] = true
				w.setCanon(path[i])
			}
			w.setHead(tip)
			res.Probe("reorg")
		case "final":
			lo := c.final
			hi := uint64(len(c.canon)) - 1
			if hi <= lo {
				continue
			}
			// never finalise the genesis block: the marker is only meaningful above it
			n := lo + 1 + op.A%(hi-lo)
			c.final = n
			rawdb.WriteFinalizedBlockHash(w.db, c.blocks[c.canon[n]].hash)
		case "freeze", "reopen":
			if err := w.kv.SyncKeyValue(); err != nil {
				simcore.Harnessf("SyncKeyValue: %v", err)
			}
			if v := w.checkCanonical(w.db, w.snapNow(), "before-freeze"); v != nil {
				return res.Fail(v)
			}
			s := w.openWindow(op.K)
			if op.K == "reopen" {
				if err := w.db.Close(); err != nil {
					return res.Fail(simcore.Violf("close-error", "Close failed: %v", err))
				}
				if v := w.open(); v != nil {
					closed = true
					return res.Fail(v)
				}
				if v := w.checkCanonical(w.db, s, "after-clean-reopen"); v != nil {
					return res.Fail(v)
				}
				w.quiesce()
			} else {
				if err := w.db.(freezer).Freeze(); err != nil {
					simcore.Harnessf("Freeze: %v", err)
				}
			}
			before := c.frozen
			c.applyFreeze()
			if c.frozen-before > limit {
				res.Probe("freeze-in-several-capped-batches")
			}
			if c.frozen > before {
				res.Probe("freeze-advanced")
			} else {
				res.Probe("freeze-noop")
			}
			w.closeWindow(s)
			if v := w.checkAfterFreeze(w.db, w.kv, s, false); v != nil {
				return res.Fail(v)
			}
		}
		w.log = w.log.String(op.K).U64(uint64(len(c.blocks))).U64(c.frozen).U64(c.final)
	}
	if v := w.checkCanonical(w.db, w.snapNow(), "end"); v != nil {
		return res.Fail(v)
	}
	w.hkv.letGo()
	if err := w.db.Close(); err != nil {
		closed = true
		return res.Fail(simcore.Violf("close-error", "Close failed: %v", err))
	}
	closed = true
	simos.Install(nil)

	events := w.rec.Events
	kvlog := w.kv.Snapshot()
	res.Events = len(events) + len(kvlog)
	full := simdisk.Replay(root, events, len(events))
	if err := full.VerifyAgainstDisk(func(p string) bool { return filepath.Base(p) == "FLOCK" }); err != nil {
		simcore.Harnessf("simos model diverged from the real files (unmapped file-system call?): %v", err)
	}
	res.LogHash = uint64(w.log.U64(kvHash(kvlog)).U64(eventsHash(events, root)))
	res.StateFP = uint64(simcore.NewHash().U64(uint64(len(c.blocks))).U64(c.frozen).U64(c.final).U64(uint64(len(w.wins))).U64(uint64(len(c.removed))))

	// ---- crash enumeration over the freeze windows
	var cuts []cutRef
	for wi, s := range w.wins {
		for q := s.startSeq; q <= s.endSeq; q++ {
			cuts = append(cuts, cutRef{seq: q, win: wi})
		}
	}
	ncuts := len(cuts)
	cr := simcore.NewRand(p.CutSeed)
	hint := p.OnlyCut > 0
	if hint && os.Getenv("VERIF_REPLAY_FULL") == "" {
		var one []cutRef
		for _, cu := range cuts {
			if cu.seq == p.OnlyCut-1 {
				one = append(one, cu)
				break
			}
		}
		cuts = one
	} else if p.MaxCuts > 0 && len(cuts) > p.MaxCuts {
		pick := map[int]bool{}
		for len(pick) < p.MaxCuts {
			pick[cr.Intn(len(cuts))] = true
		}
		idx := make([]int, 0, len(pick))
		for i := range pick {
			idx = append(idx, i)
		}
		sort.Ints(idx)
		sel := make([]cutRef, 0, len(idx))
		for _, i := range idx {
			sel = append(sel, cuts[i])
		}
		cuts = sel
	}
	model := simdisk.NewFSModel(root)
	applied := 0
	stats := map[string]int{}
	var otherV *simcore.Violation
	flush := func() {
		for k, n := range stats {
			res.Faults[k] += n
		}
	}
	for _, cu := range cuts {
		for applied < len(events) && events[applied].Seq <= cu.seq {
			model.Apply(&events[applied])
			applied++
		}
		s := w.wins[cu.win]
		for d := 0; d <= p.Draws; d++ {
			if hint && len(cuts) == 1 && os.Getenv("VERIF_REPLAY_FULL") == "" && d != p.OnlyDraw {
				continue
			}
			dr := simcore.NewRand(simcore.RunSeed(p.CutSeed, cu.seq*16+uint64(d)))
			mode := simdisk.ProcessCrash
			lose := 0
			if d > 0 {
				mode = simdisk.PowerLoss
				un := simdisk.UnsyncedUnits(kvlog, cu.seq)
				switch dr.Intn(3) {
				case 0:
					lose = 0
				case 1:
					lose = un
				default:
					lose = dr.Intn(un + 1)
				}
			}
			img := model.CrashImage(mode, dr, stats)
			mem, lost := simdisk.MaterialiseKV(kvlog, cu.seq, lose)
			if lost > 0 {
				stats["kv-lost-unsynced-units"]++
			}
			res.Reboots++
			v := w.rebootSafe(model, img, mem, s, cu, d)
			if v != nil {
				v.Msg = fmt.Sprintf("cut after seq %d (window %d %q [%d,%d], %d cuts in run) draw=%d (0=process crash) kv-units-lost=%d; last event before the cut: %s\n%s",
					cu.seq, cu.win, s.kind, s.startSeq, s.endSeq, ncuts, d, lost, describeSeq(events, kvlog, cu.seq, root), v.Msg)
				if simcore.IsKnown(v.Key) {
					res.KnownHit(v.Key)
					continue
				}
				if trace {
					for q := s.startSeq + 1; q <= cu.seq; q++ {
						fmt.Printf("seq %d %s\n", q, describeSeq(events, kvlog, q, root))
					}
				}
				if want != "" && v.Oracle != want {
					// replay is looking for another class: remember this one, keep enumerating
					if otherV == nil {
						otherV = v
					}
					continue
				}
				if p.OnlyCut == 0 {
					p.OnlyCut, p.OnlyDraw, p.Expect = cu.seq+1, d, v.Oracle
				}
				flush()
				return res.Fail(v)
			}
		}
	}
	flush()
	if otherV != nil {
		return res.Fail(otherV)
	}
	res.Faults["crash-cut"] += len(cuts)
	res.NonTrivial = res.Reboots > 2 && res.Probes["freeze-advanced"] > 0
	return res
}

// shippedBatchLimit is read once, before any run changes the knob.
var shippedBatchLimit = func() uint64 {
	old := rawdb.VerifSetFreezerBatchLimit(1)
	rawdb.VerifSetFreezerBatchLimit(old)
	return old
}()

type cutRef struct {
	seq uint64
	win int
}

func (w *world) snapNow() *snap {
	c := w.c
	s := &snap{canon: c.canon, isCanon: c.isCanon, removedPre: c.removed, removedPost: c.removed, final: c.final,
		frozenPre: c.frozen, frozenPost: c.frozen, nblocks: len(c.blocks), headHash: c.head().hash}
	if c.final > 0 {
		s.finalHash = c.blocks[c.canon[c.final]].hash
	}
	return s
}

func kvHash(log []simdisk.KVOp) uint64 {
	h := simcore.NewHash()
	var one func(op *simdisk.KVOp)
	one = func(op *simdisk.KVOp) {
		h = h.U64(uint64(op.Kind)).Bytes(op.Key).Bytes(op.Val)
		for i := range op.Batch {
			one(&op.Batch[i])
		}
	}
	for i := range log {
		one(&log[i])
	}
	return uint64(h)
}

// eventsHash is independent of how events of different files interleave (the tree
// under test walks its table map in Go's random order): per file, in order.
func eventsHash(evs []simos.Event, root string) uint64 {
	per := map[string]simcore.Hash64{}
	for _, e := range evs {
		h, ok := per[e.Path]
		if !ok {
			h = simcore.NewHash()
		}
		per[e.Path] = h.U64(uint64(e.Kind)).U64(uint64(e.Off)).Bytes(e.Data).String(strings.TrimPrefix(e.To, root))
	}
	paths := make([]string, 0, len(per))
	for p := range per {
		paths = append(paths, p)
	}
	sort.Strings(paths)
	h := simcore.NewHash()
	for _, p := range paths {
		h = h.String(strings.TrimPrefix(p, root)).U64(uint64(per[p]))
	}
	return uint64(h)
}

func describeSeq(evs []simos.Event, kvlog []simdisk.KVOp, seq uint64, root string) string {
	for i := range evs {
		if evs[i].Seq == seq {
			e := evs[i]
			return fmt.Sprintf("file %s %s off=%d len=%d", e.Kind, strings.TrimPrefix(e.Path, root), e.Off, len(e.Data))
		}
	}
	for i := range kvlog {
		if kvlog[i].Seq == seq {
			op := kvlog[i]
			switch op.Kind {
			case simdisk.OpBatch:
				return fmt.Sprintf("kv batch of %d ops (first key %x)", len(op.Batch), trunc(op.Batch[0].Key))
			case simdisk.OpSync:
				return "kv sync barrier"
			default:
				return fmt.Sprintf("kv op kind=%d key=%x", op.Kind, trunc(op.Key))
			}
		}
	}
	return "(none)"
}

func trunc(b []byte) []byte {
	if len(b) > 12 {
		return b[:12]
	}
	return b
}

// ---------------------------------------------------------------- oracles

func rawEq(a, b []byte) bool { return bytes.Equal(a, b) }

// checkCanonical: every chain accessor returns, for every canonical block, what the
// reference chain holds. Used before a freeze, after it, and on every crash state.
func (w *world) checkCanonical(db ethdb.Database, s *snap, when string) *simcore.Violation {
	c := w.c
	bad := func(n uint64, acc string, format string, a ...any) *simcore.Violation {
		return &simcore.Violation{Oracle: "canonical-read", Key: "canonical-read:" + acc,
			Msg: fmt.Sprintf("[%s] canonical block %d (frozen items %d): %s: %s", when, n, ancients(db), acc, fmt.Sprintf(format, a...))}
	}
	for n := uint64(0); n < uint64(len(s.canon)); n++ {
		b := c.blocks[s.canon[n]]
		if got := rawdb.ReadCanonicalHash(db, n); got != b.hash {
			return bad(n, "ReadCanonicalHash", "got %x want %x", got[:6], b.hash[:6])
		}
		if got := rawdb.ReadHeaderRLP(db, b.hash, n); !rawEq(got, b.hdrRLP) {
			return bad(n, "ReadHeaderRLP", "got %d bytes, want the %d bytes written", len(got), len(b.hdrRLP))
		}
		if h := rawdb.ReadHeader(db, b.hash, n); h == nil || h.Hash() != b.hash {
			return bad(n, "ReadHeader", "nil or wrong header")
		}
		if !rawdb.HasHeader(db, b.hash, n) {
			return bad(n, "HasHeader", "false")
		}
		if num, ok := rawdb.ReadHeaderNumber(db, b.hash); !ok || num != n {
			return bad(n, "ReadHeaderNumber", "got %d,%v", num, ok)
		}
		if got := rawdb.ReadBodyRLP(db, b.hash, n); !rawEq(got, b.bodyRLP) {
			return bad(n, "ReadBodyRLP", "got %d bytes, want the %d bytes written", len(got), len(b.bodyRLP))
		}
		if got := rawdb.ReadCanonicalBodyRLP(db, n, nil); !rawEq(got, b.bodyRLP) {
			return bad(n, "ReadCanonicalBodyRLP", "(hash=nil) got %d bytes, want %d", len(got), len(b.bodyRLP))
		}
		if got := rawdb.ReadCanonicalBodyRLP(db, n, &b.hash); !rawEq(got, b.bodyRLP) {
			return bad(n, "ReadCanonicalBodyRLP", "(hash given) got %d bytes, want %d", len(got), len(b.bodyRLP))
		}
		if !rawdb.HasBody(db, b.hash, n) {
			return bad(n, "HasBody", "false")
		}
		if body := rawdb.ReadBody(db, b.hash, n); body == nil || len(body.Transactions) != len(b.txs) {
			return bad(n, "ReadBody", "nil or wrong transaction count")
		}
		if got := rawdb.ReadReceiptsRLP(db, b.hash, n); !rawEq(got, b.rcRLP) {
			return bad(n, "ReadReceiptsRLP", "got %d bytes, want the %d bytes written", len(got), len(b.rcRLP))
		}
		if got := rawdb.ReadCanonicalReceiptsRLP(db, n, nil); !rawEq(got, b.rcRLP) {
			return bad(n, "ReadCanonicalReceiptsRLP", "(hash=nil) got %d bytes, want %d", len(got), len(b.rcRLP))
		}
		if got := rawdb.ReadCanonicalReceiptsRLP(db, n, &b.hash); !rawEq(got, b.rcRLP) {
			return bad(n, "ReadCanonicalReceiptsRLP", "(hash given) got %d bytes, want %d", len(got), len(b.rcRLP))
		}
		if !rawdb.HasReceipts(db, b.hash, n) {
			return bad(n, "HasReceipts", "false")
		}
		if rs := rawdb.ReadRawReceipts(db, b.hash, n); rs == nil || len(rs) != len(b.receipts) {
			return bad(n, "ReadRawReceipts", "nil or wrong count")
		}
		rs := rawdb.ReadReceipts(db, b.hash, n, b.header.Time, params.TestChainConfig)
		if rs == nil || len(rs) != len(b.receipts) {
			return bad(n, "ReadReceipts", "nil or wrong count")
		}
		for i, r := range rs {
			if r.TxHash != b.txs[i] || r.BlockHash != b.hash || r.Status != b.receipts[i].Status || len(r.Logs) != len(b.receipts[i].Logs) {
				return bad(n, "ReadReceipts", "receipt %d differs from the one written", i)
			}
		}
		if logs := rawdb.ReadLogs(db, b.hash, n); len(logs) != len(b.receipts) {
			return bad(n, "ReadLogs", "got %d receipt log lists, want %d", len(logs), len(b.receipts))
		}
		if got := rawdb.ReadAccessListRLP(db, b.hash, n); !rawEq(got, b.balRLP) {
			return bad(n, "ReadAccessListRLP", "got %d bytes, want %d", len(got), len(b.balRLP))
		}
		if blk := rawdb.ReadBlock(db, b.hash, n); blk == nil || blk.Hash() != b.hash || len(blk.Transactions()) != len(b.txs) {
			return bad(n, "ReadBlock", "nil or wrong block")
		}
		for i, th := range b.txs {
			if got := rawdb.ReadTxLookupEntry(db, th); got == nil || *got != n {
				return bad(n, "ReadTxLookupEntry", "tx %d: got %v", i, got)
			}
			tx, bh, bn, idx := rawdb.ReadCanonicalTransaction(db, th)
			if tx == nil || tx.Hash() != th || bh != b.hash || bn != n || idx != uint64(i) {
				return bad(n, "ReadCanonicalTransaction", "tx %d: got block %x number %d index %d", i, bh[:6], bn, idx)
			}
			rc, ctx, err := rawdb.ReadCanonicalRawReceipt(db, b.hash, n, uint64(i))
			if err != nil || rc == nil || rc.Status != b.receipts[i].Status || rc.CumulativeGasUsed != b.receipts[i].CumulativeGasUsed {
				return bad(n, "ReadCanonicalRawReceipt", "tx %d: err=%v", i, err)
			}
			_ = ctx
			cr, cbh, cbn, cidx := rawdb.ReadCanonicalReceipt(db, th, params.TestChainConfig)
			if cr == nil || cr.TxHash != th || cbh != b.hash || cbn != n || cidx != uint64(i) || cr.Status != b.receipts[i].Status {
				return bad(n, "ReadCanonicalReceipt", "tx %d (%x): got block %x number %d index %d (nil=%v)", i, th[:6], cbh[:6], cbn, cidx, cr == nil)
			}
		}
	}
	head := uint64(len(s.canon)) - 1
	if got := rawdb.ReadHeadBlockHash(w.kvOf(db)); got != s.headHash {
		return bad(head, "ReadHeadBlockHash", "got %x want %x", got[:6], s.headHash[:6])
	}
	if got := rawdb.ReadFinalizedBlockHash(w.kvOf(db)); got != s.finalHash {
		return bad(s.final, "ReadFinalizedBlockHash", "got %x want %x", got[:6], s.finalHash[:6])
	}
	if strings.HasPrefix(when, "after-recovery") {
		return nil // the range read allocates a 2 MB buffer per call inside the freezer: once per reboot is enough
	}
	// header range from the head downwards spans the freezer/KV border
	hs := rawdb.ReadHeaderRange(db, head, head+1)
	if uint64(len(hs)) != head+1 {
		return bad(head, "ReadHeaderRange", "got %d headers from the head down, want %d", len(hs), head+1)
	}
	for i, raw := range hs {
		if !rawEq(raw, c.blocks[s.canon[head-uint64(i)]].hdrRLP) {
			return bad(head-uint64(i), "ReadHeaderRange", "header differs")
		}
	}
	return nil
}

// kvOf: marker reads bypass the hold wrapper (they are plain KV reads anyway).
func (w *world) kvOf(db ethdb.Database) ethdb.KeyValueReader { return kvReader{db} }

type kvReader struct{ db ethdb.Database }

func (k kvReader) Has(key []byte) (bool, error) { return k.db.Has(key) }
func (k kvReader) Get(key []byte) ([]byte, error) {
	return k.db.Get(key)
}

func ancients(db ethdb.Database) uint64 {
	n, _ := db.Ancients()
	return n
}

// checkAfterFreeze judges the state after a freeze cycle that ran to completion
// (crashed=false: the uninterrupted cycle of the main run; crashed=true: the cycle
// run after a reboot of a crash state).
func (w *world) checkAfterFreeze(db ethdb.Database, kv ethdb.KeyValueStore, s *snap, crashed bool) *simcore.Violation {
	c := w.c
	res := w.res
	tag := "freeze"
	if crashed {
		tag = "recovery-freeze"
	}
	if got := ancients(db); got != s.frozenPost {
		return &simcore.Violation{Oracle: tag + "-incomplete", Key: tag + "-incomplete",
			Msg: fmt.Sprintf("after a completed freeze cycle the freezer holds %d blocks, expected %d (finalized height %d, head %d, %d frozen before)", got, s.frozenPost, s.final, len(s.canon)-1, s.frozenPre)}
	}
	if v := w.checkCanonical(db, s, "after-"+tag); v != nil {
		return v
	}
	if s.frozenPost == 0 {
		return nil
	}
	bound := s.frozenPost - 1
	nf := rawdb.NewDatabase(kv) // KV-only view: what is left in the key-value store
	present := func(b *blk) string {
		switch {
		case len(rawdb.ReadHeaderRLP(nf, b.hash, b.num)) > 0:
			return "header"
		case len(rawdb.ReadBodyRLP(nf, b.hash, b.num)) > 0:
			return "body"
		case len(rawdb.ReadReceiptsRLP(nf, b.hash, b.num)) > 0:
			return "receipts"
		case len(rawdb.ReadAccessListRLP(nf, b.hash, b.num)) > 0:
			return "access list"
		}
		if _, ok := rawdb.ReadHeaderNumber(nf, b.hash); ok {
			return "hash->number mapping"
		}
		return ""
	}
	ids := make([]int, 0, len(s.removedPost))
	for id := range s.removedPost {
		ids = append(ids, id)
	}
	sort.Ints(ids)
	for _, id := range ids {
		b := c.blocks[id]
		what := present(b)
		if what == "" {
			continue
		}
		if b.num <= bound {
			oracle := "side-chain-left-below-boundary"
			if crashed {
				oracle = "crash-side-chain-left-below-boundary"
			}
			return &simcore.Violation{Oracle: oracle, Key: oracle,
				Msg: fmt.Sprintf("after a completed freeze cycle (frozen boundary %d) the %s of side-chain block %d (%x, parent block id %d) is still in the key-value store", bound, what, b.num, b.hash[:6], b.parent)}
		}
		if crashed {
			// above the boundary: removed by the uninterrupted cycle, swept later otherwise
			res.Probe("dangling-left-after-crash")
			continue
		}
		return &simcore.Violation{Oracle: "dangling-descendant-left", Key: "dangling-descendant-left",
			Msg: fmt.Sprintf("after a completed freeze (frozen boundary %d) the %s of block %d (%x), a descendant of a removed side-chain block, is still in the key-value store", bound, what, b.num, b.hash[:6])}
	}
	for n := uint64(1); n <= bound; n++ {
		hs := rawdb.ReadAllHashes(kv, n)
		if len(hs) == 0 {
			continue
		}
		canon := c.blocks[s.canon[n]]
		for _, h := range hs {
			if h == canon.hash {
				if crashed {
					res.Probe("canonical-kv-copy-left-after-crash")
				} else {
					res.Probe("canonical-kv-copy-left")
				}
				continue
			}
			oracle := "side-chain-left-below-boundary"
			if crashed {
				oracle = "crash-side-chain-left-below-boundary"
			}
			return &simcore.Violation{Oracle: oracle, Key: oracle,
				Msg: fmt.Sprintf("after a completed freeze cycle (frozen boundary %d) a non-canonical header %x is still stored at height %d", bound, h[:6], n)}
		}
	}
	if len(s.danglingPost) > 0 {
		res.Probe("dangling-descendants-expected")
	}
	if len(s.removedPost) > len(s.removedPre) {
		res.Probe("side-chain-removal-expected")
	}
	// side blocks the property does not ask to remove: counted, never judged
	for id := s.nblocks - 1; id >= 0; id-- {
		b := c.blocks[id]
		if !s.isCanon[id] && !s.removedPost[id] && b.num > bound {
			if present(b) != "" {
				res.Probe("side-above-boundary-kept")
			} else {
				res.Probe("side-above-boundary-gone")
			}
		}
	}
	return nil
}

var digits = regexp.MustCompile(`[0-9]+`)
var hexes = regexp.MustCompile(`0x[0-9a-fA-F]+|#[0-9]+`)

func errClass(s string) string {
	s = hexes.ReplaceAllString(s, "X")
	s = digits.ReplaceAllString(s, "N")
	if len(s) > 70 {
		s = s[:70]
	}
	return s
}

// tornMeta reports whether a crash image holds, for some freezer table metadata file, a
// content that is none of the states reachable by applying each unsynced mutation of that
// file completely or not at all: a torn or zero-filled extending rewrite.
func tornMeta(model *simdisk.FSModel, img map[string][]byte) string {
	paths := make([]string, 0, len(img))
	for p := range img {
		if strings.HasSuffix(p, ".meta") {
			paths = append(paths, p)
		}
	}
	sort.Strings(paths)
	for _, p := range paths {
		whole := false
		for _, st := range model.WholeWriteStates(p) {
			if bytes.Equal(st, img[p]) {
				whole = true
				break
			}
		}
		if !whole {
			return p
		}
	}
	return ""
}

const keyTornMeta = "reopen-fails:power-loss:torn-metadata-file"

func (w *world) rebootSafe(model *simdisk.FSModel, img map[string][]byte, mem ethdb.KeyValueStore, s *snap, cu cutRef, draw int) (v *simcore.Violation) {
	defer func() {
		// A power-loss image with a torn table metadata file is the recorded cause
		// "torn-metadata-file" whatever the symptom: the torn bytes may fail to decode, or
		// decode to a garbage flushOffset / virtual tail (truncate: invalid argument, missing
		// data file, hidden items, unreadable canonical blocks). Key by the cause.
		if v != nil && draw > 0 && v.Key != keyTornMeta {
			if p := tornMeta(model, img); p != "" {
				v.Msg = fmt.Sprintf("[power-loss image holds a torn metadata file %s; symptom: %s] %s", strings.TrimPrefix(p, model.Root), v.Key, v.Msg)
				v.Key = keyTornMeta
			}
		}
	}()
	defer func() {
		if r := recover(); r != nil {
			if hp, ok := r.(simcore.HarnessPanic); ok {
				panic(hp)
			}
			msg := fmt.Sprint(r)
			v = &simcore.Violation{Oracle: "recovery-panics", Key: "recovery-panics:" + errClass(tableName.ReplaceAllString(msg, "table X ")),
				Msg: "panic while reopening the database on the crash state: " + msg}
		}
	}()
	return w.reboot(model, img, mem, s, cu, draw)
}

var tableName = regexp.MustCompile(`table [a-z]+ `)

// reboot materialises one crash state, reopens the real database stack on it and judges.
func (w *world) reboot(model *simdisk.FSModel, img map[string][]byte, mem ethdb.KeyValueStore, s *snap, cu cutRef, draw int) *simcore.Violation {
	res := w.res
	nroot, err := os.MkdirTemp(scratchDir(), "migc-")
	if err != nil {
		simcore.Harnessf("mkdtemp: %v", err)
	}
	defer os.RemoveAll(nroot)
	if err := model.WriteImage(img, nroot); err != nil {
		simcore.Harnessf("write image: %v", err)
	}
	simos.ResetLocks()
	memdb, ok := mem.(interface {
		ethdb.KeyValueStore
	})
	if !ok {
		simcore.Harnessf("crash image is not a key-value store")
	}
	kv := simdisk.NewSimKV(nil)
	// load the image into a fresh SimKV (its own clock: reboots are not recorded)
	it := memdb.NewIterator(nil, nil)
	for it.Next() {
		kv.Mem().Put(it.Key(), it.Value())
	}
	it.Release()
	hkv := newHoldKV(kv)
	hkv.hold()
	mode := "process-crash"
	if draw > 0 {
		mode = "power-loss"
	}
	db, err := rawdb.Open(hkv, rawdb.OpenOptions{Ancient: filepath.Join(nroot, "anc")})
	if err != nil {
		hkv.letGo()
		cls := classifyImage(model.Root, img)
		if cls == "" {
			cls = errClass(err.Error())
		}
		return &simcore.Violation{Oracle: "reopen-fails", Key: "reopen-fails:" + mode + ":" + cls,
			Msg: fmt.Sprintf("rawdb.Open fails on the crash state (%s, %s): %v", mode, cls, err)}
	}
	defer func() {
		hkv.letGo()
		db.Close()
	}()
	hkv.waitParked()
	rec := ancients(db)
	switch {
	case rec < s.frozenPre:
		return &simcore.Violation{Oracle: "frozen-blocks-lost", Key: "frozen-blocks-lost:" + mode,
			Msg: fmt.Sprintf("the recovered freezer holds %d blocks but %d had been frozen and synced by earlier completed cycles", rec, s.frozenPre)}
	case rec == s.frozenPre:
		res.Probe("crash-before-copy-visible")
	case rec < s.frozenPost:
		res.Probe("crash-partial-copy")
	default:
		res.Probe("crash-after-copy")
	}
	// 1. the crash state itself: nothing canonical is unreadable or different
	if v := w.checkCanonical(db, s, "crash-state/"+mode); v != nil {
		v.Oracle = "crash-" + v.Oracle
		v.Key = "crash-" + v.Key
		// name the structural cause when it is visible: these histories never truncate the
		// freezer tail, so a non-zero tail means recovery itself hid frozen items
		for _, g := range []string{rawdb.ChainFreezerBlockDataGroup, rawdb.ChainFreezerBALGroup} {
			if tail, _ := db.Tail(g); tail > 0 {
				v.Key = "crash-canonical-read:recovery-advanced-freezer-tail"
				v.Msg += fmt.Sprintf("\nthe recovered freezer reports tail %d for group %q although no tail truncation was ever requested (recovered items %d)", tail, g, rec)
				break
			}
		}
		return v
	}
	// 2. the next freeze cycle completes the migration
	hkv.letGo()
	if err := db.(freezer).Freeze(); err != nil {
		simcore.Harnessf("Freeze: %v", err)
	}
	// expectations of the completed migration are those of the window's end state
	if v := w.checkAfterFreeze(db, kv, s, true); v != nil {
		return v
	}
	return nil
}

// classifyImage names the structural cause of a failed reopen when it is one of the
// freezer-level findings already recorded under C24, from the crash image alone.
func classifyImage(root string, img map[string][]byte) string {
	type tinfo struct{ items, vtail uint64 }
	var infos []tinfo
	tables := []struct {
		name string
		raw  bool
	}{{"hashes", true}, {"headers", false}, {"bodies", false}, {"receipts", false}, {"bals", false}}
	dir := filepath.Join(root, "anc", "chain")
	for _, tb := range tables {
		ext := ".cidx"
		if tb.raw {
			ext = ".ridx"
		}
		meta, okm := img[filepath.Join(dir, tb.name+".meta")]
		idx := img[filepath.Join(dir, tb.name+ext)]
		if !okm {
			continue
		}
		var o struct {
			Version uint16
			Tail    uint64
			Offset  uint64
		}
		if err := rlp.DecodeBytes(meta, &o); err != nil {
			if len(meta) == 0 {
				continue
			}
			return "torn-metadata-file"
		}
		size := int64(len(idx)) / 6 * 6
		if size > int64(o.Offset) && o.Offset >= 6 {
			size = int64(o.Offset)
		}
		if size < 6 {
			continue
		}
		deleted := uint64(binary.BigEndian.Uint32(idx[2:6]))
		infos = append(infos, tinfo{items: deleted + uint64(size/6) - 1, vtail: o.Tail})
	}
	head, any := uint64(0), false
	for _, ti := range infos {
		if ti.items == 0 {
			continue
		}
		if !any || ti.items < head {
			head, any = ti.items, true
		}
	}
	for _, ti := range infos {
		if ti.vtail > ti.items || (any && ti.vtail > head) {
			return "virtual-tail-beyond-recovered-head"
		}
	}
	return ""
}

// ---------------------------------------------------------------- registration

func Checks() map[string]*simcore.Check {
	return map[string]*simcore.Check{
		"C25": {
			ID: "C25", Engine: "migsim", Level: "fault_enumeration",
			Rule: "plan = a history of canonical extensions, side branches (fork point and length drawn; parents above the frozen segment; blocks carry 0-3 indexed transactions, side blocks re-include transactions of the canonical block of the same height and of other heights, canonical blocks re-include fork transactions), reorgs onto side branches above the finalized height, finalized-marker moves, clean reopen and 1-6 blocking Freeze() rounds, with the chain freezer batch limit drawn per run (shipped 30000 in 40% of runs, otherwise 1-8 blocks per cycle so that one Freeze() runs several capped cycles), written with the real rawdb.Write* accessors into rawdb.Open(SimKV, Ancient dir) - the real freezerdb, chainFreezer.freeze loop and file freezer (os->simos rewrite). Every KV mutation unit and every freezer file event carries one shared sequence number; every sequence number inside a freeze (or reopen) window is a cut (quick: seeded sample of 36 per run); each cut is materialised as a process-crash state and 2-3 power-loss states (KV: drawn suffix of unsynced units lost; files: per-file prefix of unsynced writes, torn/zero-filled last write), the real stack is reopened on it with the background freeze loop parked, all canonical accessors are compared with the reference chain, then Freeze() is run and the completed migration is judged. evaluations = histories; reboots = crash states rebooted. Non-trivial = history whose freezer advanced at least once and that rebooted >2 crash states; distinct = distinct (blocks, frozen, finalized, freeze windows, removed side blocks) fingerprints.",
			Assumptions: []string{
				"a KV write batch is atomic and units become durable in order (prefix property); the harness issues SyncKeyValue after writing chain data, before each freeze (chain data the freezer reads is durable, as after geth's own block-write path)",
				"directory-entry operations are durable immediately; file data is durable at fsync of that file (every Sync call of the tree under test is seen)",
				"the freeze threshold is driven by the finalized marker only: head never exceeds params.FullImmutabilityThreshold (a constant, 90000) in these histories",
				"side blocks are only imported above the frozen segment (parent at or above the last frozen height), as a running node does",
			},
			Components: simcore.Components{
				Real: []string{"core/rawdb: Open, freezerdb, chainFreezer.freeze/freezeRange/freezeThreshold, Freezer and tables (recompiled with os.* -> simos.*), all Read*/Write*/Delete* chain accessors, ReadAllHashes, tx lookup accessors", "ethdb/memorydb under SimKV", "core/types block, body, receipt encoding"},
				Stub: []string{"key-value store = simdisk.SimKV (memorydb + op log, batch = one atomic unit)", "file system calls pass through simos to tmpfs and are recorded; fsync modelled", "flock is an in-process table", "era store directory is absent"}},
			Perturbed: []string{"order in which the freezer walks its table map (Go map order) decides how file events of different tables interleave; not seedable, so the set of events before a given cut can differ between executions of one plan (replay falls back to all cuts)"},
			Runs:      map[string]int{"quick": 240, "thorough": 12000},
			Gen:       gen, Decode: decode, Run: run, Shrink: shrink,
			ProbeNames: []string{"freeze-advanced", "freeze-noop", "reorg", "fork-from-canonical", "crash-before-copy-visible", "crash-partial-copy", "crash-after-copy", "freeze-in-several-capped-batches",
				"side-chain-removal-expected", "dangling-descendants-expected", "side-block-shares-tx-with-canonical-same-height", "side-block-shares-canonical-tx", "canonical-block-reincludes-fork-tx", "side-above-boundary-kept", "canonical-kv-copy-left-after-crash"},
		},
	}
}
