// Package storesim holds the storage-layer checks: C24 (freezer crash
// consistency), C25 (chain freezer migration) and C23 (KV backend equivalence).
package storesim

import (
	"bytes"
	"encoding/binary"
	"encoding/json"
	"fmt"
	"os"
	"path/filepath"
	"regexp"
	"sort"
	"strings"
	"testing"

	"github.com/ethereum/go-ethereum/core/rawdb"
	"github.com/ethereum/go-ethereum/ethdb"
	"github.com/ethereum/go-ethereum/rlp"

	"verifsim/simcore"
	"verifsim/simdisk"
	"verifsim/simos"
)

type FzTable struct {
	Name     string `json:"name"`
	NoSnappy bool   `json:"raw"`
	Group    string `json:"group"`
}

type FzOp struct {
	Kind  string `json:"k"`           // append | thead | ttail | sync | reopen
	N     int    `json:"n,omitempty"` // append: item count
	Arg   uint64 `json:"a,omitempty"` // truncation target (interpreted relative, see run)
	Group string `json:"g,omitempty"`
	Salt  uint64 `json:"s,omitempty"` // size salt for appended items
}

type FzPlan struct {
	MaxSize  uint32        `json:"max_size"`
	Tables   []FzTable     `json:"tables"`
	Ops      []FzOp        `json:"ops"`
	Faults   []simos.Fault `json:"faults,omitempty"` // I/O error configuration (no crash cuts then)
	CutSeed  uint64        `json:"cut_seed"`
	MaxCuts  int           `json:"max_cuts"`  // 0 = every cut
	Draws    int           `json:"draws"`     // power-loss draws per cut
	OnlyCut  int           `json:"only_cut"`  // >0: minimised replay evaluates just this cut ...
	OnlyDraw int           `json:"only_draw"` // ... and this draw (0 = process crash, k = k-th power-loss draw)
}

func genFz(r *simcore.Rand, tier string) any {
	p := &FzPlan{MaxSize: uint32(r.Range(40, 400)), CutSeed: r.Uint64(), Draws: 2}
	nt := r.Range(2, 3)
	groups := []string{"", "g", "g", "h"}
	for i := 0; i < nt; i++ {
		p.Tables = append(p.Tables, FzTable{Name: string(rune('a' + i)), NoSnappy: r.Bool(0.5), Group: groups[r.Intn(len(groups))]})
	}
	if r.Bool(0.3) {
		for i := range p.Tables {
			p.Tables[i].Group = "g"
		}
	}
	nops := r.Range(3, 14)
	if tier == "thorough" {
		nops = r.Range(3, 40)
		p.Draws = 3
	} else {
		p.MaxCuts = 60
	}
	for i := 0; i < nops; i++ {
		switch r.Pick(10, 3, 3, 4, 2) {
		case 0:
			p.Ops = append(p.Ops, FzOp{Kind: "append", N: r.Range(1, 8), Salt: r.Uint64() >> 1})
		case 1:
			p.Ops = append(p.Ops, FzOp{Kind: "thead", Arg: uint64(r.Intn(1000))})
		case 2:
			p.Ops = append(p.Ops, FzOp{Kind: "ttail", Arg: uint64(r.Intn(1000)), Group: []string{"g", "h"}[r.Intn(2)]})
		case 3:
			p.Ops = append(p.Ops, FzOp{Kind: "sync"})
		case 4:
			p.Ops = append(p.Ops, FzOp{Kind: "reopen"})
		}
	}
	return p
}

func decodeFz(b []byte) (any, error) {
	p := &FzPlan{}
	return p, json.Unmarshal(b, p)
}

func shrinkFz(pl any) []any {
	p := pl.(*FzPlan)
	var out []any
	mk := func(f func(q *FzPlan)) {
		b, _ := json.Marshal(p)
		q := &FzPlan{}
		json.Unmarshal(b, q)
		f(q)
		out = append(out, q)
	}
	for _, ops := range simcore.ShrinkSlice(p.Ops) {
		ops := ops
		mk(func(q *FzPlan) { q.Ops = ops; q.OnlyCut, q.OnlyDraw = 0, 0 })
	}
	if len(p.Tables) > 2 {
		for i := range p.Tables {
			i := i
			mk(func(q *FzPlan) { q.Tables = append(q.Tables[:i], q.Tables[i+1:]...); q.OnlyCut, q.OnlyDraw = 0, 0 })
		}
	}
	for i, op := range p.Ops {
		i := i
		if op.Kind == "append" && op.N > 1 {
			mk(func(q *FzPlan) { q.Ops[i].N = op.N / 2; q.OnlyCut, q.OnlyDraw = 0, 0 })
		}
	}
	for i := range p.Faults {
		i := i
		mk(func(q *FzPlan) { q.Faults = append(q.Faults[:i], q.Faults[i+1:]...) })
	}
	return out
}

// item value: deterministic in (table, index, generation), length from the salt.
func fzValue(table int, idx uint64, gen int, salt uint64, maxSize uint32, raw bool) []byte {
	h := simcore.SplitMix(salt ^ uint64(table)*0x9e37 ^ idx*0x85eb ^ uint64(gen)*0xc2b2)
	limit := int(maxSize) * 2 / 3
	if limit < 2 {
		limit = 2
	}
	size := int(h % uint64(limit))
	if raw && size == 0 {
		size = 1 // see DESIGN C24 soundness: all-zero index entries are documented as undetectable
	}
	b := make([]byte, size)
	x := simcore.SplitMix(h)
	compressible := x&3 == 0
	for i := range b {
		if compressible {
			b[i] = byte(x >> 8)
		} else {
			x = simcore.SplitMix(x)
			b[i] = byte(x)
		}
	}
	if size > 0 {
		b[0] = byte(1 + (uint64(gen)*31+idx*7+uint64(table))%255) // never a zero first byte
	}
	return b
}

type fzGen struct {
	gen      int
	salt     uint64
	startEv  int // events recorded before the append started
	endEv    int // events recorded when it returned
	ok       bool
	failedOp bool
}

type fzOpRec struct {
	beyond         bool // ttail beyond the head: every table is reset (resetTo)
	kind           string
	arg            uint64
	group          string
	startEv, endEv int
	ok             bool
}

type fzModel struct {
	p      *FzPlan
	head   uint64
	tails  map[string]uint64
	gens   map[uint64][]*fzGen // index -> generations in append order
	ops    []fzOpRec
	genCtr int
}

func (m *fzModel) maxTail() uint64 {
	var t uint64
	for _, v := range m.tails {
		if v > t {
			t = v
		}
	}
	return t
}

func specs(p *FzPlan) []rawdb.VerifTableSpec {
	var s []rawdb.VerifTableSpec
	for _, t := range p.Tables {
		s = append(s, rawdb.VerifTableSpec{Name: t.Name, NoSnappy: t.NoSnappy, TailGroup: t.Group})
	}
	return s
}

func scratchDir() string {
	d := os.Getenv("VERIF_SCRATCH")
	if d == "" {
		d = os.TempDir()
	}
	return d
}

// runFz executes a plan. The tree under test iterates its table map in Go's random
// order (TruncateHead/TruncateTail/SyncAncient/commit), which the simulator cannot
// seed: event indices may shift between executions of the same operations. A
// replay therefore treats the recorded cut as a hint and falls back to enumerating
// every cut of a few re-executions.
func runFz(t *testing.T, pl any) *simcore.Result {
	p := pl.(*FzPlan)
	if p.OnlyCut == 0 {
		return runFzOnce(t, p)
	}
	res := runFzOnce(t, p)
	if res.Violation != nil {
		return res
	}
	for attempt := 0; attempt < 4; attempt++ {
		q := *p
		q.OnlyCut, q.OnlyDraw, q.MaxCuts = 0, 0, 0
		r2 := runFzOnce(t, &q)
		res.Reboots += r2.Reboots
		if r2.Violation != nil {
			return r2
		}
	}
	return res
}

func runFzOnce(t *testing.T, p *FzPlan) *simcore.Result {
	res := simcore.NewResult()
	root, err := os.MkdirTemp(scratchDir(), "fz-")
	if err != nil {
		simcore.Harnessf("mkdtemp: %v", err)
	}
	defer os.RemoveAll(root)
	dir := filepath.Join(root, "fz")
	rec := simos.NewRecorder(root)
	simos.ResetLocks()
	simos.Install(rec)
	defer simos.Install(nil)
	if len(p.Faults) > 0 {
		rec.SetFaults(p.Faults)
	}
	m := &fzModel{p: p, tails: map[string]uint64{}, gens: map[uint64][]*fzGen{}}
	groupsUsed := map[string]bool{}
	for _, tb := range p.Tables {
		if tb.Group != "" {
			groupsUsed[tb.Group] = true
			m.tails[tb.Group] = 0
		}
	}
	f, err := rawdb.VerifNewFreezer(dir, false, p.MaxSize, specs(p))
	if err != nil {
		if len(p.Faults) > 0 {
			return res // an injected error at open is a legal failure
		}
		return res.Fail(simcore.Violf("open-fresh", "fresh freezer failed to open: %v", err))
	}
	faulty := len(p.Faults) > 0
	for _, op := range p.Ops {
		or := fzOpRec{kind: op.Kind, startEv: rec.Len()}
		switch op.Kind {
		case "append":
			start := m.head
			var gl []*fzGen
			for i := 0; i < op.N; i++ {
				m.genCtr++
				g := &fzGen{gen: m.genCtr, salt: op.Salt, startEv: or.startEv}
				gl = append(gl, g)
			}
			_, err := f.ModifyAncients(func(w ethdb.AncientWriteOp) error {
				for i := 0; i < op.N; i++ {
					for ti, tb := range p.Tables {
						v := fzValue(ti, start+uint64(i), gl[i].gen, op.Salt, p.MaxSize, tb.NoSnappy)
						if err := w.AppendRaw(tb.Name, start+uint64(i), v); err != nil {
							return err
						}
					}
				}
				return nil
			})
			or.ok = err == nil
			or.endEv = rec.Len()
			for i, g := range gl {
				g.endEv, g.ok = or.endEv, err == nil
				g.failedOp = err != nil
				m.gens[start+uint64(i)] = append(m.gens[start+uint64(i)], g)
			}
			if err == nil {
				m.head = start + uint64(op.N)
			} else if !faulty {
				f.Close()
				return res.Fail(simcore.Violf("append-error", "ModifyAncients failed without an injected fault: %v", err))
			} else {
				res.Fault("io-error-seen")
			}
			or.arg = start
		case "thead":
			lo := m.maxTail()
			if m.head <= lo {
				continue
			}
			n := lo + op.Arg%(m.head-lo+1)
			or.arg = n
			_, err := f.TruncateHead(n)
			or.ok, or.endEv = err == nil, rec.Len()
			if err == nil {
				if n < m.head {
					m.head = n
				}
			} else if !faulty {
				f.Close()
				return res.Fail(simcore.Violf("thead-error", "TruncateHead(%d) failed without an injected fault: %v", n, err))
			}
		case "ttail":
			if !groupsUsed[op.Group] {
				continue
			}
			cur := m.tails[op.Group]
			allInGroup := true
			for _, tb := range p.Tables {
				if tb.Group != op.Group {
					allInGroup = false
				}
			}
			var n uint64
			if allInGroup && op.Arg%4 == 3 {
				// tail beyond the head: every table is reset to the new tail (resetTo) and the
				// freezer head follows; only meaningful when all tables share the group
				n = m.head + 1 + op.Arg%3
				or.beyond = true
				res.Probe("truncate-tail-beyond-head")
			} else {
				if m.head <= cur {
					continue
				}
				n = cur + op.Arg%(m.head-cur+1)
			}
			or.arg, or.group = n, op.Group
			_, err := f.TruncateTail(op.Group, n)
			or.ok, or.endEv = err == nil, rec.Len()
			if err == nil {
				if n > cur {
					m.tails[op.Group] = n
				}
				if n > m.head {
					m.head = n
				}
			} else if !faulty {
				f.Close()
				return res.Fail(simcore.Violf("ttail-error", "TruncateTail(%s,%d) failed without an injected fault: %v", op.Group, n, err))
			}
		case "sync":
			err := f.SyncAncient()
			or.ok, or.endEv = err == nil, rec.Len()
			if err != nil && !faulty {
				f.Close()
				return res.Fail(simcore.Violf("sync-error", "SyncAncient failed without an injected fault: %v", err))
			}
		case "reopen":
			err := f.Close()
			if err != nil && !faulty {
				return res.Fail(simcore.Violf("close-error", "Close failed without an injected fault: %v", err))
			}
			f, err = rawdb.VerifNewFreezer(dir, false, p.MaxSize, specs(p))
			or.ok, or.endEv = err == nil, rec.Len()
			if err != nil {
				if faulty {
					return res
				}
				return res.Fail(simcore.Violf("reopen-error", "clean reopen failed: %v", err))
			}
		}
		if or.endEv == 0 {
			or.endEv = rec.Len()
		}
		m.ops = append(m.ops, or)
		// live check after every operation (fault-free runs: exact; after an injected
		// error: values must still be right, bounds are taken from the freezer)
		if v := m.checkLive(f, faulty, res); v != nil {
			f.Close()
			return res.Fail(v)
		}
	}
	f.Close()
	simos.Install(nil)
	res.Events = rec.Len()
	for k, v := range rec.Fired {
		res.Faults["io-"+k] += v
	}
	full := simdisk.Replay(root, rec.Events, len(rec.Events))
	if err := full.VerifyAgainstDisk(func(p string) bool { return filepath.Base(p) == "FLOCK" }); err != nil {
		simcore.Harnessf("simos model diverged from the real files (unmapped file-system call?): %v", err)
	}
	if faulty {
		// clean reopen after I/O errors: must open and be self-consistent
		simos.ResetLocks()
		f2, err := rawdb.VerifNewFreezer(dir, false, p.MaxSize, specs(p))
		if err != nil {
			return res.Fail(simcore.Violf("reopen-after-io-error", "freezer does not reopen after injected I/O errors %v: %v", p.Faults, err))
		}
		defer f2.Close()
		if v := m.checkLive(f2, true, res); v != nil {
			v.Oracle = "after-io-error-" + v.Oracle
			v.Key = v.Oracle
			return res.Fail(v)
		}
		res.NonTrivial = len(res.Faults) > 0
		res.StateFP = uint64(simcore.NewHash().U64(uint64(rec.Len())).U64(m.head))
		return res
	}

	// ---- crash enumeration
	nev := len(rec.Events)
	cuts := make([]int, 0, nev+1)
	for c := 0; c <= nev; c++ {
		cuts = append(cuts, c)
	}
	cr := simcore.NewRand(p.CutSeed)
	hint := p.OnlyCut > 0 && p.OnlyCut-1 <= nev
	if hint && os.Getenv("VERIF_REPLAY_FULL") == "" {
		cuts = []int{p.OnlyCut - 1}
	} else if p.MaxCuts > 0 && len(cuts) > p.MaxCuts {
		// biased sample: always the cuts right around operation boundaries' interiors
		pick := map[int]bool{}
		for len(pick) < p.MaxCuts {
			pick[cr.Intn(nev+1)] = true
		}
		cuts = cuts[:0]
		for c := range pick {
			cuts = append(cuts, c)
		}
		sort.Ints(cuts)
	}
	model := simdisk.NewFSModel(root)
	applied := 0
	stats := map[string]int{}
	for _, c := range cuts {
		for applied < c {
			model.Apply(&rec.Events[applied])
			applied++
		}
		for d := 0; d <= p.Draws; d++ {
			if hint && len(cuts) == 1 && d != p.OnlyDraw {
				continue
			}
			mode := simdisk.ProcessCrash
			if d > 0 {
				mode = simdisk.PowerLoss
			}
			img := model.CrashImage(mode, simcore.NewRand(simcore.RunSeed(p.CutSeed, uint64(c*16+d))), stats)
			res.Reboots++
			if os.Getenv("VERIF_TRACE") == "events" {
				for i := 0; i < c; i++ {
					fmt.Printf("ev %d %s\n", i, evString(rec.Events, i, root))
				}
				for _, op := range m.ops {
					fmt.Printf("op %+v\n", op)
				}
			}
			if v := m.rebootSafe(model, img, c, d, res); v != nil {
				v.Msg = fmt.Sprintf("cut=%d/%d draw=%d (0=process crash) last event before cut: %s\n%s", c, nev, d, evString(rec.Events, c-1, root), v.Msg)
				if simcore.IsKnown(v.Key) {
					res.KnownHit(v.Key)
					continue
				}
				if p.OnlyCut == 0 {
					p.OnlyCut, p.OnlyDraw = c+1, d
				}
				for k, n := range stats {
					res.Faults[k] += n
				}
				return res.Fail(v)
			}
		}
	}
	for k, n := range stats {
		res.Faults[k] += n
	}
	res.Faults["crash-cut"] += len(cuts)
	res.NonTrivial = res.Reboots > 2
	res.StateFP = uint64(simcore.NewHash().U64(uint64(nev)).U64(m.head).U64(uint64(len(m.ops))))
	res.LogHash = eventsHash(rec.Events, root)
	return res
}

func evString(evs []simos.Event, i int, root string) string {
	if i < 0 || i >= len(evs) {
		return "(none)"
	}
	e := evs[i]
	return fmt.Sprintf("%s %s off=%d len=%d %s", e.Kind, e.Path[len(root):], e.Off, len(e.Data), e.To)
}

// eventsHash is the determinism fingerprint of a run: per file, the sequence of its
// own events; files combined in path order. (The global interleaving of different
// tables' events follows Go's random map iteration inside the freezer and is not
// part of the fingerprint.)
func eventsHash(evs []simos.Event, root string) uint64 {
	per := map[string]simcore.Hash64{}
	for _, e := range evs {
		p := e.Path[len(root):]
		h, ok := per[p]
		if !ok {
			h = simcore.NewHash()
		}
		if e.Kind == simos.EvRename && strings.Contains(p, "simos-tmp-") {
			// a temp file's life (create, writes, sync) is folded into its rename target:
			// which table uses the shared temp name first follows Go's map order
			to := strings.TrimPrefix(e.To, root)
			th, ok := per[to]
			if !ok {
				th = simcore.NewHash()
			}
			per[to] = th.String("renamed-from-temp").U64(uint64(h))
			delete(per, p)
			continue
		}
		if e.Kind == simos.EvRemove && strings.Contains(p, "simos-tmp-") {
			delete(per, p)
			continue
		}
		per[p] = h.U64(uint64(e.Kind)).U64(uint64(e.Off)).Bytes(e.Data).String(strings.TrimPrefix(e.To, root))
	}
	paths := make([]string, 0, len(per))
	for p := range per {
		paths = append(paths, p)
	}
	sort.Strings(paths)
	h := simcore.NewHash()
	for _, p := range paths {
		h = h.String(p).U64(uint64(per[p]))
		if os.Getenv("VERIF_TRACE") == "hash" {
			fmt.Printf("FILEHASH %s %x\n", p, uint64(per[p]))
		}
	}
	if os.Getenv("VERIF_TRACE") == "hash" {
		for i := range evs {
			fmt.Printf("EV %s\n", evString(evs, i, root))
		}
	}
	return uint64(h)
}

// checkLive compares the open freezer with the model. In relaxed mode (after
// an injected I/O error) bounds are taken from the freezer and only values are
// judged.
func (m *fzModel) checkLive(f *rawdb.Freezer, relaxed bool, res *simcore.Result) *simcore.Violation {
	head, err := f.Ancients()
	if err != nil {
		return simcore.Violf("live-ancients", "Ancients: %v", err)
	}
	if !relaxed && head != m.head {
		return simcore.Violf("live-head", "Ancients()=%d, model head %d", head, m.head)
	}
	for ti, tb := range m.p.Tables {
		var tail uint64
		if tb.Group != "" {
			tail, err = f.Tail(tb.Group)
			if err != nil {
				return simcore.Violf("live-tail", "Tail(%s): %v", tb.Group, err)
			}
			if !relaxed && tail != m.tails[tb.Group] {
				return simcore.Violf("live-tail", "Tail(%s)=%d, model %d", tb.Group, tail, m.tails[tb.Group])
			}
		}
		for i := tail; i < head; i++ {
			got, err := f.Ancient(tb.Name, i)
			if err != nil {
				return simcore.Violf("live-read", "table %s item %d in [%d,%d) unreadable: %v", tb.Name, i, tail, head, err)
			}
			if !m.valueAllowed(ti, tb, i, got, 1<<30, relaxed) {
				return simcore.Violf("live-value", "table %s item %d: read %x, not the value appended there", tb.Name, i, trunc(got))
			}
		}
		if tail > 0 {
			if _, err := f.Ancient(tb.Name, tail-1); err == nil {
				return simcore.Violf("live-hidden-readable", "table %s item %d below tail %d is readable", tb.Name, tail-1, tail)
			}
		}
		if _, err := f.Ancient(tb.Name, head); err == nil {
			return simcore.Violf("live-beyond-head", "table %s item %d at head is readable", tb.Name, head)
		}
	}
	return nil
}

func trunc(b []byte) []byte {
	if len(b) > 24 {
		return b[:24]
	}
	return b
}

// valueAllowed: got must equal the latest generation appended at idx whose append
// started before the cut; in relaxed mode any generation appended there.
func (m *fzModel) valueAllowed(ti int, tb FzTable, idx uint64, got []byte, cut int, anyGen bool) bool {
	gl := m.gens[idx]
	for k := len(gl) - 1; k >= 0; k-- {
		g := gl[k]
		if g.startEv >= cut && cut >= 0 {
			continue
		}
		if bytes.Equal(got, fzValue(ti, idx, g.gen, g.salt, m.p.MaxSize, tb.NoSnappy)) {
			return true
		}
		if !anyGen {
			return false
		}
	}
	return false
}

var digits = regexp.MustCompile(`[0-9]+`)
var tableName = regexp.MustCompile(`table [a-z] `)

// rebootSafe turns a panic of the tree under test during recovery into a violation.
func (m *fzModel) tornMeta(model *simdisk.FSModel, img map[string][]byte) bool {
	for _, tb := range m.p.Tables {
		mp := filepath.Join(model.Root, "fz", tb.Name+".meta")
		b, ok := img[mp]
		if !ok {
			continue
		}
		whole := false
		for _, st := range model.WholeWriteStates(mp) {
			if bytes.Equal(st, b) {
				whole = true
				break
			}
		}
		if !whole {
			return true
		}
	}
	return false
}

func (m *fzModel) rebootSafe(model *simdisk.FSModel, img map[string][]byte, cut, draw int, res *simcore.Result) (v *simcore.Violation) {
	defer func() {
		// A table metadata file holding neither version of a rewrite (torn or zero-filled
		// extension at power loss) is the recorded cause "torn-metadata-file"; whatever the
		// symptom (open fails, garbage virtual tail hides synced items, ...), key it by the cause.
		if v != nil && draw > 0 && m.tornMeta(model, img) {
			v.Msg = "[image holds a torn .meta file; symptom: " + v.Key + "] " + v.Msg
			v.Key = "power-loss:torn-metadata-file"
		}
	}()
	defer func() {
		if r := recover(); r != nil {
			if hp, ok := r.(simcore.HarnessPanic); ok {
				panic(hp)
			}
			msg := fmt.Sprint(r)
			v = &simcore.Violation{Oracle: "recovery-panics", Key: "recovery-panics:" + tableName.ReplaceAllString(digits.ReplaceAllString(errClassS(msg), "N"), "table X "), Msg: "panic while reopening the freezer on the crash state: " + msg}
		}
	}()
	return m.reboot(model, img, cut, draw, res)
}

func errClassS(s string) string {
	if len(s) > 60 {
		s = s[:60]
	}
	return s
}

// reboot materialises one crash state, reopens the freezer on it and judges.
func (m *fzModel) reboot(model *simdisk.FSModel, img map[string][]byte, cut, draw int, res *simcore.Result) *simcore.Violation {
	nroot, err := os.MkdirTemp(scratchDir(), "fzc-")
	if err != nil {
		simcore.Harnessf("mkdtemp: %v", err)
	}
	defer os.RemoveAll(nroot)
	if err := model.WriteImage(img, nroot); err != nil {
		simcore.Harnessf("write image: %v", err)
	}
	simos.ResetLocks()
	dir := filepath.Join(nroot, "fz")
	f, err := rawdb.VerifNewFreezer(dir, false, m.p.MaxSize, specs(m.p))
	if err != nil {
		mode := "process-crash:"
		if draw > 0 {
			mode = "power-loss:"
		}
		cls := m.classifyImage(model.Root, img)
		if cls == "" {
			// a metadata file that holds neither version of a rewrite (a torn or zero-filled
			// extension) may still decode, to garbage: same recorded cause as the undecodable case
			for _, tb := range m.p.Tables {
				mp := filepath.Join(model.Root, "fz", tb.Name+".meta")
				whole := false
				for _, st := range model.WholeWriteStates(mp) {
					if bytes.Equal(st, img[mp]) {
						whole = true
						break
					}
				}
				if _, ok := img[mp]; ok && !whole {
					cls = "torn-metadata-file"
					break
				}
			}
		}
		if cls == "virtual-tail-beyond-recovered-head" {
			// The recorded finding is about tail truncations that hide unsynced items. A
			// table reset (tail truncation beyond the head) in flight at the cut is a
			// different history and keeps its own key.
			for _, op := range m.ops {
				if op.beyond && op.startEv < cut && cut < op.endEv {
					cls += ":during-table-reset"
					break
				}
			}
		}
		if cls != "" {
			return &simcore.Violation{Oracle: "reopen-fails", Key: "reopen-fails:" + mode + cls, Msg: fmt.Sprintf("freezer does not reopen on the crash state (%s%s): %v", mode, cls, err)}
		}
		return &simcore.Violation{Oracle: "reopen-fails", Key: "reopen-fails:" + mode + errClass(err), Msg: fmt.Sprintf("freezer does not reopen on the crash state: %v", err)}
	}
	defer f.Close()

	// logical expectations at this cut
	var (
		started   []fzOpRec // ops that may have begun (startEv < cut, or == cut but recorded nothing yet: not begun)
		completed []fzOpRec
	)
	for _, op := range m.ops {
		if op.endEv <= cut && op.ok {
			completed = append(completed, op)
		}
		if op.startEv < cut || (op.startEv == cut && op.endEv <= cut) {
			started = append(started, op)
		}
	}
	head, err := f.Ancients()
	if err != nil {
		return simcore.Violf("crash-ancients", "Ancients: %v", err)
	}
	// 1. one contiguous range shared by all tables
	tails := map[string]uint64{}
	for _, tb := range m.p.Tables {
		_, hidden, items, _ := f.VerifTableBounds(tb.Name)
		if items != head {
			return simcore.Violf("crash-head-mismatch", "table %s has %d items, freezer head %d", tb.Name, items, head)
		}
		if tb.Group == "" {
			if hidden != 0 {
				return simcore.Violf("crash-tail-nonprunable", "non-prunable table %s has tail %d", tb.Name, hidden)
			}
			continue
		}
		if t, ok := tails[tb.Group]; ok && t != hidden {
			return simcore.Violf("crash-tail-mismatch", "tables of group %s disagree on the tail: %d vs %d", tb.Group, t, hidden)
		}
		tails[tb.Group] = hidden
		if ft, _ := f.Tail(tb.Group); ft != hidden {
			return simcore.Violf("crash-tail-mismatch", "Tail(%s)=%d but table %s hides %d", tb.Group, ft, tb.Name, hidden)
		}
	}
	// 2. every readable item equals what was appended at that position
	for ti, tb := range m.p.Tables {
		tail := tails[tb.Group]
		if tb.Group == "" {
			tail = 0
		}
		for i := tail; i < head; i++ {
			got, err := f.Ancient(tb.Name, i)
			if err != nil {
				return simcore.Violf("crash-unreadable", "table %s item %d inside [%d,%d) is unreadable after recovery: %v", tb.Name, i, tail, head, err)
			}
			if !m.valueAllowed(ti, tb, i, got, cut, false) {
				return simcore.Violf("crash-wrong-value", "table %s item %d: read %x (%d bytes) which is not the value last appended at that position before the crash", tb.Name, i, trunc(got), len(got))
			}
		}
	}
	// 3. durability: items covered by a completed sync and not later truncated
	lastSync := -1
	for i, op := range m.ops {
		if (op.kind == "sync" || op.kind == "reopen") && op.ok && op.endEv <= cut {
			lastSync = i
		}
	}
	if lastSync >= 0 {
		// logical state right after the last completed sync
		var sHead uint64
		sTails := map[string]uint64{}
		for i := 0; i <= lastSync; i++ {
			op := m.ops[i]
			if !op.ok {
				continue
			}
			switch op.kind {
			case "append":
				// arg = start index
				n := 0
				for idx := op.arg; ; idx++ {
					found := false
					for _, g := range m.gens[idx] {
						if g.startEv == op.startEv && g.endEv == op.endEv {
							found = true
						}
					}
					if !found {
						break
					}
					n++
				}
				sHead = op.arg + uint64(n)
			case "thead":
				if op.arg < sHead {
					sHead = op.arg
				}
			case "ttail":
				if op.arg > sTails[op.group] {
					sTails[op.group] = op.arg
				}
			}
		}
		lo := map[string]uint64{}
		for g, v := range sTails {
			lo[g] = v
		}
		hi := sHead
		// later truncations that started before the cut may have removed items
		for i := lastSync + 1; i < len(m.ops); i++ {
			op := m.ops[i]
			if op.startEv >= cut {
				break
			}
			switch op.kind {
			case "thead":
				if op.arg < hi {
					hi = op.arg
				}
			case "ttail":
				if op.arg > lo[op.group] {
					lo[op.group] = op.arg
				}
			case "append":
				// a failed/in-flight append rolls back to its start, never below
			}
		}
		if head < hi {
			return simcore.Violf("crash-lost-synced", "freezer head %d after recovery, but items up to %d were covered by a completed sync (op #%d) and not truncated afterwards", head, hi, lastSync)
		}
		for g, t := range tails {
			if lo[g] < hi && t > lo[g] {
				return simcore.Violf("crash-lost-synced-tail", "group %s tail %d after recovery, but items [%d,%d) were covered by a completed sync (op #%d) and no tail truncation beyond %d had started", g, t, lo[g], hi, lastSync, lo[g])
			}
		}
		res.Probe("durability-clause-evaluated")
	}
	// head can never exceed what was appended
	var maxAppended uint64
	for _, op := range started {
		if op.kind == "append" {
			n := uint64(0)
			for idx := op.arg; ; idx++ {
				found := false
				for _, g := range m.gens[idx] {
					if g.startEv == op.startEv {
						found = true
					}
				}
				if !found {
					break
				}
				n++
			}
			if op.arg+n > maxAppended {
				maxAppended = op.arg + n
			}
		}
	}
	// a tail truncation beyond the head moves the head up to its target
	for _, op := range started {
		if op.kind == "ttail" && op.arg > maxAppended {
			maxAppended = op.arg
		}
	}
	if head > maxAppended {
		return simcore.Violf("crash-phantom-items", "freezer head %d after recovery exceeds the %d items ever appended (or tail-truncated to) before the crash", head, maxAppended)
	}
	// 4. the recovered freezer accepts new items
	_, err = f.ModifyAncients(func(w ethdb.AncientWriteOp) error {
		for _, tb := range m.p.Tables {
			if err := w.AppendRaw(tb.Name, head, []byte{0xEE, byte(head)}); err != nil {
				return err
			}
		}
		return nil
	})
	if err != nil {
		return simcore.Violf("crash-append-after-recovery", "appending item %d after recovery failed: %v", head, err)
	}
	for _, tb := range m.p.Tables {
		got, err := f.Ancient(tb.Name, head)
		if err != nil || !bytes.Equal(got, []byte{0xEE, byte(head)}) {
			return simcore.Violf("crash-append-after-recovery", "item %d appended after recovery reads back %x, %v", head, got, err)
		}
	}
	if head == 0 {
		res.Probe("recovered-empty")
	} else {
		res.Probe("recovered-nonempty")
	}
	_ = completed
	return nil
}

// classifyImage names the structural cause of a failed reopen when it is one of
// the recorded findings, from the crash image alone (so that a different cause
// with the same error text is still reported as new).
func (m *fzModel) classifyImage(root string, img map[string][]byte) string {
	type tinfo struct{ items, vtail uint64 }
	var infos []tinfo
	for _, tb := range m.p.Tables {
		ext := ".cidx"
		if tb.NoSnappy {
			ext = ".ridx"
		}
		meta, okm := img[filepath.Join(root, "fz", tb.Name+".meta")]
		idx := img[filepath.Join(root, "fz", tb.Name+ext)]
		if !okm || len(meta) == 0 {
			continue
		}
		var o struct {
			Version uint16
			Tail    uint64
			Offset  uint64
		}
		// decode like newMetadata does: one value from the stream, trailing stale bytes
		// (a shorter encoding written over a longer one) are ignored
		if err := rlp.Decode(bytes.NewReader(meta), &o); err != nil {
			return "torn-metadata-file"
		}
		size := int64(len(idx)) / 6 * 6
		if size > int64(o.Offset) && o.Offset >= 6 {
			size = int64(o.Offset)
		}
		if size < 6 {
			continue
		}
		deleted := uint64(binary.BigEndian.Uint32(idx[2:6]))
		infos = append(infos, tinfo{items: deleted + uint64(size/6) - 1, vtail: o.Tail})
	}
	// the common head Freezer.repair will choose: minimum over non-empty tables
	head, any := uint64(0), false
	for _, ti := range infos {
		if ti.items == 0 {
			continue
		}
		if !any || ti.items < head {
			head, any = ti.items, true
		}
	}
	for _, ti := range infos {
		if ti.vtail > ti.items || (any && ti.vtail > head) {
			return "virtual-tail-beyond-recovered-head"
		}
	}
	return ""
}

var pathRe = regexp.MustCompile(`/[^ :]*`)

func errClass(err error) string {
	s := pathRe.ReplaceAllString(err.Error(), "PATH")
	if len(s) > 40 {
		s = s[:40]
	}
	return s
}

func Checks() map[string]*simcore.Check {
	return map[string]*simcore.Check{
		"C24": {
			ID: "C24", Engine: "storesim", Level: "fault_enumeration",
			Rule: "plan = 2-3 freezer tables (snappy/raw, prunable groups), data-file limit 40-400 bytes, 3-40 append/TruncateHead/TruncateTail/SyncAncient/close+reopen operations on the real rawdb.Freezer compiled with the os->simos rewrite; every file mutation and fsync is a recorded event. Each run is then cut at every event boundary (quick: seeded sample of 60 cuts) and each cut is materialised as a process-crash image plus 2-3 power-loss images (per file a drawn prefix of its unsynced writes, torn last write or zero-filled extension) and the real freezer is reopened on it. evaluations = runs; reboots = crash states rebooted. Non-trivial = run whose crash enumeration rebooted >2 states (or, in the I/O-error configuration, an injected error actually fired); distinct = distinct (event count, final head, op count) fingerprints.",
			Assumptions: []string{
				"directory-entry operations (create, remove, rename) are durable immediately; file data is durable at fsync of that file (sync tracking is exact: every Sync call of the tree under test is seen)",
				"a crash between two write syscalls is possible (process-crash cut at every event); within one write syscall only power loss tears data",
				"raw tables never hold zero-length items (the all-zero index is documented by the code as undetectable)",
			},
			Components: simcore.Components{
				Real: []string{"core/rawdb Freezer, freezerTable, freezerBatch, freezerTableMeta, freezer_utils (recompiled with os.* -> simos.*)"},
				Stub: []string{"file system calls pass through simos to tmpfs and are recorded; fsync is modelled, not executed; flock is an in-process table"}},
			Runs: map[string]int{"quick": 480, "thorough": 16000},
			Gen:  genFz, Decode: decodeFz, Run: runFz, Shrink: shrinkFz,
			ProbeNames: []string{"durability-clause-evaluated", "recovered-empty", "recovered-nonempty"},
		},
	}
}
