package netsim

// C44: two real rlpx.Conn endpoints over a SimConn pair inside a synctest bubble.

import (
	"bytes"
	"crypto/ecdsa"
	crand "crypto/rand"
	"encoding/binary"
	"encoding/hex"
	"encoding/json"
	"errors"
	"fmt"
	"io"
	mrand "math/rand"
	"os"
	"sync"
	"testing"
	"testing/cryptotest"
	"time"

	"github.com/ethereum/go-ethereum/crypto"
	"github.com/ethereum/go-ethereum/crypto/ecies"
	"github.com/ethereum/go-ethereum/p2p/rlpx"
	"github.com/ethereum/go-ethereum/rlp"

	"verifsim/simcore"
	"verifsim/simsched"
)

const (
	maxUint24         = 1<<24 - 1
	handshakeTimeout  = 5 * time.Second  // p2p/server.go
	frameReadTimeout  = 30 * time.Second // p2p/transport.go
	frameWriteTimeout = 20 * time.Second
)

type Msg44 struct {
	Code uint64 `json:"code"`
	Size int    `json:"size"`
	Fill int    `json:"fill"` // 0 pseudo-random, 1 zeros, 2 short repeating pattern
	Seed uint64 `json:"seed"`
}

type Fault44 struct {
	Dir     int    `json:"dir"` // 0: A->B, 1: B->A
	Kind    string `json:"kind"`
	Unit    int    `json:"unit"`
	Region  int    `json:"region"`
	Pos     int    `json:"pos"`
	Mask    byte   `json:"mask"`
	N       int    `json:"n"`
	Variant int    `json:"variant"`
	DurMS   int    `json:"dur_ms"`
	Bytes   string `json:"bytes,omitempty"` // hex
}

type Plan44 struct {
	KeyA       string    `json:"key_a"` // static private keys (hex scalars)
	KeyB       string    `json:"key_b"`
	CryptoSeed uint64    `json:"crypto_seed"`
	Snappy     bool      `json:"snappy"`
	Peer       int       `json:"peer"` // 0 both honest; 1 B forges the ack; 2 A forges the auth
	PeerPoint  int       `json:"peer_point"`
	PeerRnd    string    `json:"peer_rnd"`
	MsgsAB     []Msg44   `json:"msgs_ab"`
	MsgsBA     []Msg44   `json:"msgs_ba"`
	FragMode   [2]int    `json:"frag_mode"`
	YieldEach  [2]int    `json:"yield_each"`
	FragTape   []uint16  `json:"frag_tape"`
	Window     [2]int    `json:"window"`
	Hold       [2]bool   `json:"hold"` // reader of endpoint A/B keeps the slice returned by Read (valid until the next Read) across the endpoint's next Write before looking at it
	Faults     []Fault44 `json:"faults"`
	Tape       []uint16  `json:"tape"`
}

func genKeyHex(r *simcore.Rand) string {
	for {
		b := r.Bytes(32)
		if _, err := crypto.ToECDSA(b); err == nil {
			return hex.EncodeToString(b)
		}
	}
}

var sizes44 = []int{0, 1, 2, 14, 15, 16, 17, 30, 31, 32, 33, 47, 48, 49, 100, 255, 256, 1000, 1024, 4000}

func genMsgs(r *simcore.Rand, snappy bool, allowHuge bool) []Msg44 {
	n := 0
	switch r.Pick(1, 6, 3) {
	case 1:
		n = r.Range(1, 6)
	case 2:
		n = r.Range(7, 30)
	}
	var out []Msg44
	for i := 0; i < n; i++ {
		m := Msg44{Fill: r.Pick(5, 2, 2), Seed: r.Uint64()}
		switch r.Pick(4, 3, 1, 1) {
		case 0:
			m.Code = uint64(r.Intn(128))
		case 1:
			m.Code = uint64(r.Intn(1 << 16))
		case 2:
			m.Code = r.Uint64() >> uint(r.Intn(64))
		case 3:
			m.Code = []uint64{0, 127, 128, 255, 256, 1<<32 - 1, 1 << 32, 1<<64 - 1}[r.Intn(8)]
		}
		switch r.Pick(12, 5, 2, 4) {
		case 0:
			m.Size = sizes44[r.Intn(len(sizes44))]
		case 1:
			m.Size = r.Intn(3000)
		case 2:
			m.Size = r.Range(3000, 70000)
		case 3:
			m.Size = r.Range(1025, 2048) // just above typical initial buffer sizes
		}
		out = append(out, m)
	}
	if allowHuge && len(out) > 0 {
		// rarely: one message at the size limit
		i := r.Intn(len(out))
		m := &out[i]
		m.Size = []int{maxUint24 - 9, maxUint24 - intSize(m.Code), maxUint24 - intSize(m.Code) + 1, maxUint24, maxUint24 + 1, 1 << 20}[r.Intn(6)]
		if snappy && m.Fill == 0 && m.Size <= maxUint24 {
			// incompressible data may legitimately expand past the frame limit: keep the
			// expectation decidable
			m.Fill = 1 + r.Intn(2)
		}
	}
	return out
}

func Gen44(r *simcore.Rand, tier string) any {
	p := &Plan44{KeyA: genKeyHex(r), KeyB: genKeyHex(r), CryptoSeed: r.Uint64(), Snappy: r.Bool(0.5)}
	if r.Bool(0.08) {
		p.Peer = 1 + r.Intn(2)
		p.PeerPoint = r.Intn(6) // 5 = a valid point (control: the forged handshake must then succeed)
		p.PeerRnd = hex.EncodeToString(r.Bytes(64))
		p.Tape = r.Tape(40)
		return p
	}
	huge := r.Bool(0.004)
	p.MsgsAB = genMsgs(r, p.Snappy, huge && r.Bool(0.5))
	p.MsgsBA = genMsgs(r, p.Snappy, huge && len(p.MsgsAB) == 0)
	for d := 0; d < 2; d++ {
		p.FragMode[d] = r.Pick(2, 2, 5)
		if r.Bool(0.4) {
			p.YieldEach[d] = r.Range(1, 9)
		}
		if r.Bool(0.3) {
			p.Window[d] = []int{1, 64, 600, 5000}[r.Intn(4)]
		}
		p.Hold[d] = r.Bool(0.5)
	}
	p.FragTape = r.Tape(400)
	nf := r.Pick(3, 6, 1)
	for i := 0; i < nf; i++ {
		f := Fault44{Dir: r.Intn(2)}
		n := len(p.MsgsAB)
		if f.Dir == 1 {
			n = len(p.MsgsBA)
		}
		if r.Bool(0.25) || n == 0 {
			f.Unit = 0
		} else {
			f.Unit = 1 + r.Intn(n)
		}
		f.Region = r.Intn(30)
		f.Pos = r.Intn(1 << 20)
		f.Mask = byte(1) << uint(r.Intn(8))
		if r.Bool(0.3) {
			f.Mask = byte(1 + r.Intn(255))
		}
		f.N = r.Intn(64)
		f.Variant = r.Intn(5)
		switch r.Pick(8, 2, 2, 2, 2, 2, 3, 3) {
		case 0:
			f.Kind = "xor"
		case 1:
			f.Kind = "ephkey"
			f.Unit = 0
			f.Bytes = hex.EncodeToString(r.Bytes(64))
		case 2:
			f.Kind = "inject"
			f.Bytes = hex.EncodeToString(r.Bytes(r.Range(1, 80)))
		case 3:
			f.Kind = "replay"
			if f.Unit == 0 {
				f.Unit = 1
			}
		case 4:
			f.Kind = "dup"
		case 5:
			f.Kind = "drop"
		case 6:
			f.Kind = "trunc"
		case 7:
			f.Kind = "stall"
			f.DurMS = []int{1, 900, 4999, 5001, 12000, 29999, 30001, 95000}[r.Intn(8)]
		}
		p.Faults = append(p.Faults, f)
	}
	p.Tape = r.Tape(120 + 6*(len(p.MsgsAB)+len(p.MsgsBA)))
	return p
}

func Decode44(b []byte) (any, error) {
	p := &Plan44{}
	err := json.Unmarshal(b, p)
	return p, err
}

func clone44(p *Plan44) *Plan44 {
	b, _ := json.Marshal(p)
	q := &Plan44{}
	json.Unmarshal(b, q)
	return q
}

func Shrink44(pl any) []any {
	p := pl.(*Plan44)
	var out []any
	for i := range p.Faults {
		if len(p.Faults) > 1 {
			q := clone44(p)
			q.Faults = append(q.Faults[:i], q.Faults[i+1:]...)
			out = append(out, q)
		}
	}
	// dropping messages from the end keeps unit numbering of the faults
	for _, dir := range []int{0, 1} {
		ms := p.MsgsAB
		if dir == 1 {
			ms = p.MsgsBA
		}
		for _, n := range []int{0, len(ms) / 2, len(ms) - 1} {
			if n >= 0 && n < len(ms) {
				q := clone44(p)
				if dir == 0 {
					q.MsgsAB = q.MsgsAB[:n]
				} else {
					q.MsgsBA = q.MsgsBA[:n]
				}
				out = append(out, q)
			}
		}
	}
	for d := 0; d < 2; d++ {
		if p.Hold[d] {
			q := clone44(p)
			q.Hold[d] = false
			out = append(out, q)
		}
		if p.FragMode[d] != 0 || p.YieldEach[d] != 0 || p.Window[d] != 0 {
			q := clone44(p)
			q.FragMode[d], q.YieldEach[d], q.Window[d] = 0, 0, 0
			out = append(out, q)
		}
	}
	if p.Snappy {
		q := clone44(p)
		q.Snappy = false
		out = append(out, q)
	}
	for _, dir := range []int{0, 1} {
		ms := p.MsgsAB
		if dir == 1 {
			ms = p.MsgsBA
		}
		for i, m := range ms {
			if m.Size > 16 {
				q := clone44(p)
				if dir == 0 {
					q.MsgsAB[i].Size = m.Size / 2
				} else {
					q.MsgsBA[i].Size = m.Size / 2
				}
				out = append(out, q)
			}
			if len(out) > 60 {
				break
			}
		}
	}
	for _, t := range simcore.ShrinkTape(p.Tape) {
		q := clone44(p)
		q.Tape = t
		out = append(out, q)
		if len(out) > 90 {
			break
		}
	}
	return out
}

func intSize(v uint64) int {
	if v < 128 {
		return 1
	}
	n := 0
	for ; v > 0; v >>= 8 {
		n++
	}
	return 1 + n
}

func payload44(m Msg44) []byte {
	b := make([]byte, m.Size)
	switch m.Fill {
	case 0:
		x := m.Seed | 1
		for i := 0; i+8 <= len(b); i += 8 {
			x = simcore.SplitMix(x)
			binary.LittleEndian.PutUint64(b[i:], x)
		}
		for i := len(b) &^ 7; i < len(b); i++ {
			x = simcore.SplitMix(x)
			b[i] = byte(x)
		}
	case 2:
		pat := []byte{byte(m.Seed), byte(m.Seed >> 8), byte(m.Seed >> 16), 0x55, 0xaa}
		for i := range b {
			b[i] = pat[i%len(pat)]
		}
	}
	return b
}

// sendable is the writer-side expectation: within the limit the message must be
// accepted, beyond it refused. With snappy the frame carries the compressed payload;
// the generator draws near-limit sizes only with compressible fills, so every payload
// of at most 2^24-1 bytes fits.
func sendable(m Msg44, snappy bool) bool {
	if m.Size > maxUint24 {
		return false
	}
	if snappy {
		return true
	}
	return intSize(m.Code)+m.Size <= maxUint24
}

type sentRec struct {
	msg        Msg44
	start, end int // stream range written
	payload    []byte
	accepted   bool
}

type endpoint44 struct {
	name      string
	conn      *SimConn
	rc        *rlpx.Conn
	key       *ecdsa.PrivateKey
	hsErr     error
	hsRemote  *ecdsa.PublicKey
	hsDone    bool
	hsTook    time.Duration
	sent      []sentRec
	recvN     int
	recvErr   error
	readStart []time.Time
	readEnd   []time.Time
	viol      *simcore.Violation

	// writer progress, for readers that hold a payload across the endpoint's next Write
	mu         sync.Mutex
	hold       bool
	writesDone int
	writerDone bool
	wrote      chan struct{}
	held       int
}

func (e *endpoint44) noteWrite(finished bool) {
	e.mu.Lock()
	e.writesDone++
	if finished {
		e.writerDone = true
	}
	close(e.wrote)
	e.wrote = make(chan struct{})
	e.mu.Unlock()
}

func unhex(s string) []byte {
	b, err := hex.DecodeString(s)
	if err != nil {
		simcore.Harnessf("bad hex in plan: %v", err)
	}
	return b
}

var trace = os.Getenv("VERIF_TRACE") != ""

func Run44(t *testing.T, pl any) *simcore.Result {
	p := pl.(*Plan44)
	res := simcore.NewResult()
	cryptotest.SetGlobalRandom(t, p.CryptoSeed)
	mrand.Seed(int64(p.CryptoSeed)) // EIP-8 padding length comes from the global math/rand
	keyA, errA := crypto.ToECDSA(unhex(p.KeyA))
	keyB, errB := crypto.ToECDSA(unhex(p.KeyB))
	if errA != nil || errB != nil {
		simcore.Harnessf("bad static key in plan")
	}
	var (
		sched  *simsched.Sched
		ab, ba *wire
		A, B   *endpoint44
		stuck  string
		log    = simcore.NewHash()
	)
	dl, pv := runBubble(t, func() {
		start := time.Now()
		sched = simsched.New(p.Tape, simsched.ModeWait)
		ca, cb, wab, wba := NewSimConnPair(sched, "A", "B")
		ab, ba = wab, wba
		fragTape := &simcore.TapeReader{T: p.FragTape}
		for d, w := range []*wire{ab, ba} {
			w.fragMode, w.yieldEach, w.capacity, w.fragTape = p.FragMode[d], p.YieldEach[d], p.Window[d], fragTape
		}
		for _, f := range p.Faults {
			wf := wireFault{Kind: f.Kind, Unit: f.Unit, Region: f.Region, Pos: f.Pos, Mask: f.Mask, N: f.N, Variant: f.Variant,
				Dur: time.Duration(f.DurMS) * time.Millisecond, Bytes: unhex(f.Bytes)}
			if f.Dir == 0 {
				ab.faults = append(ab.faults, wf)
			} else {
				ba.faults = append(ba.faults, wf)
			}
		}
		A = &endpoint44{name: "A", conn: ca, key: keyA, hold: p.Hold[0], wrote: make(chan struct{})}
		B = &endpoint44{name: "B", conn: cb, key: keyB, hold: p.Hold[1], wrote: make(chan struct{})}
		A.rc = rlpx.NewConn(ca, &keyB.PublicKey)
		B.rc = rlpx.NewConn(cb, nil)

		run := func(e, peer *endpoint44, msgs []Msg44, npeer int) {
			sched.Go(e.name, func() {
				t0 := time.Now()
				e.rc.SetDeadline(t0.Add(handshakeTimeout))
				remote, err := e.rc.Handshake(e.key)
				e.hsDone, e.hsErr, e.hsRemote, e.hsTook = true, err, remote, time.Since(t0)
				if err != nil {
					e.conn.Close()
					return
				}
				e.rc.SetDeadline(time.Time{})
				e.rc.SetSnappy(p.Snappy)
				sched.Go(e.name+".w", func() { writer44(sched, e, msgs, p.Snappy) })
				sched.Go(e.name+".r", func() { reader44(sched, e, peer) })
			})
		}
		switch p.Peer {
		case 0:
			run(A, B, p.MsgsAB, len(p.MsgsBA))
			run(B, A, p.MsgsBA, len(p.MsgsAB))
		case 1:
			run(A, B, nil, 0)
			sched.Go("B", func() { forgedRecipient(p, B, keyA) })
		case 2:
			run(B, A, nil, 0)
			sched.Go("A", func() { forgedInitiator(p, A, keyB) })
		}
		sched.Run()
		if sched.Err != nil {
			stuck = sched.Err.Error()
		}
		ca.Close()
		cb.Close()
		res.SimTimeNS = int64(time.Since(start))
	})
	if pv != nil {
		return res.Fail(pv)
	}
	res.SchedFP = sched.FP()
	res.Events = sched.Steps()
	if dl != "" {
		simcore.Harnessf("C44 bubble: %s", dl)
	}
	if stuck != "" {
		simcore.Harnessf("C44 scheduler: %s", stuck)
	}
	for _, w := range []*wire{ab, ba} {
		w.finalize()
		for k, v := range w.fired {
			res.Faults[k] += v
		}
		for k, v := range w.applied {
			// a stream modification counts as fired once the reader has consumed
			// everything in front of it (it then faces the modified bytes)
			if k != "stall" && w.firstDiffWire >= 0 && w.rpos >= w.firstDiffWire {
				res.Faults["wire-"+k] += v
			}
		}
		if w.shortRead > 0 {
			res.Probe("short-reads")
		}
		log = log.U64(uint64(w.wireHash)).U64(uint64(w.origN)).U64(uint64(w.rpos))
	}
	if A.held+B.held > 0 {
		res.Probes["payload-held-across-write"] += A.held + B.held
	}
	v := oracle44(p, A, B, ab, ba, res)
	for _, e := range []*endpoint44{A, B} {
		log = log.String(fmt.Sprint(e.hsDone, e.hsErr, e.recvN, e.recvErr, len(e.sent)))
		for i := range e.readEnd {
			log = log.U64(uint64(e.readEnd[i].UnixNano()))
		}
	}
	res.LogHash = uint64(log.U64(res.SchedFP))
	res.StateFP = uint64(log)
	res.NonTrivial = sched.Choices() >= 2 || len(res.Faults) > 0
	if v != nil {
		res.Fail(v)
	}
	return res
}

func writer44(sched *simsched.Sched, e *endpoint44, msgs []Msg44, snappy bool) {
	defer e.conn.CloseWrite()
	defer e.noteWrite(true)
	for i, m := range msgs {
		if i > 0 {
			e.noteWrite(false)
		}
		data := payload44(m)
		e.rc.SetWriteDeadline(time.Now().Add(frameWriteTimeout))
		e.conn.out.mu.Lock()
		start := e.conn.out.origN
		e.conn.out.mu.Unlock()
		_, err := e.rc.Write(m.Code, data)
		e.conn.out.mu.Lock()
		end := e.conn.out.origN
		e.conn.out.mu.Unlock()
		want := sendable(m, snappy)
		if err == nil && !want {
			e.viol = simcore.Violf("oversize-accepted", "%s: Write(code=%d, %d bytes) beyond the 2^24-1 limit was accepted", e.name, m.Code, m.Size)
			return
		}
		if err != nil && !want {
			if end != start {
				e.viol = simcore.Violf("refused-message-on-wire", "%s: Write of an oversize message failed (%v) but put %d bytes on the wire", e.name, err, end-start)
				return
			}
			continue
		}
		if err != nil {
			if errors.Is(err, errBrokenPipe) || errors.Is(err, os.ErrDeadlineExceeded) || errors.Is(err, io.ErrClosedPipe) || isClosed(err) {
				return // the peer stopped reading (after a planned fault)
			}
			e.viol = simcore.Violf("write-refused", "%s: Write(code=%d, %d bytes) within the limit failed: %v", e.name, m.Code, m.Size, err)
			return
		}
		e.sent = append(e.sent, sentRec{msg: m, start: start, end: end, accepted: true, payload: data})
	}
}

func isClosed(err error) bool {
	return err != nil && (errors.Is(err, io.EOF) || err.Error() == "use of closed network connection")
}

func reader44(sched *simsched.Sched, e, peer *endpoint44) {
	defer e.conn.CloseRead()
	for {
		sched.Gate(e.name + ".r:msg")
		now := time.Now()
		e.rc.SetReadDeadline(now.Add(frameReadTimeout))
		e.readStart = append(e.readStart, now)
		code, data, _, err := e.rc.Read()
		e.readEnd = append(e.readEnd, time.Now())
		if err != nil {
			e.recvErr = err
			return
		}
		if e.hold {
			// The slice returned by Read is valid until the next Read: keep it, uncopied,
			// until this endpoint's writer has completed one more Write (or is done; or,
			// if the writer is itself waiting for somebody, for 50 ms of virtual time).
			e.mu.Lock()
			done, ch := e.writerDone, e.wrote
			e.mu.Unlock()
			if !done {
				tm := time.NewTimer(50 * time.Millisecond)
				select {
				case <-ch:
					e.held++
				case <-tm.C:
				}
				tm.Stop()
				sched.Gate(e.name + ".r:held")
			}
		}
		// The peer's writer runs strictly before (it is the only way bytes get here), so
		// its record of message recvN exists unless something was delivered that was
		// never written.
		if e.recvN >= len(peer.sent) {
			e.viol = simcore.Violf("phantom-message", "%s read message #%d (code %d, %d bytes) but the peer wrote only %d", e.name, e.recvN, code, len(data), len(peer.sent))
			return
		}
		m := peer.sent[e.recvN].msg
		if same := bytes.Equal(data, peer.sent[e.recvN].payload); code != m.Code || !same {
			e.viol = simcore.Violf("wrong-message-delivered", "%s read message #%d: code %d len %d, written was code %d len %d (payload equal: %v)",
				e.name, e.recvN, code, len(data), m.Code, m.Size, same)
			return
		}
		e.recvN++
	}
}

// forgedRecipient plays B by hand: it reads A's auth packet and answers with an ack
// whose ephemeral public key field is an invalid curve point (PeerPoint 5: a valid one).
func forgedRecipient(p *Plan44, B *endpoint44, keyA *ecdsa.PrivateKey) {
	defer B.conn.Close()
	B.conn.SetDeadline(time.Now().Add(handshakeTimeout))
	var prefix [2]byte
	if _, err := io.ReadFull(B.conn, prefix[:]); err != nil {
		B.hsErr = err
		return
	}
	body := make([]byte, binary.BigEndian.Uint16(prefix[:]))
	if _, err := io.ReadFull(B.conn, body); err != nil {
		B.hsErr = err
		return
	}
	eph, _ := ecies.GenerateKey(crand.Reader, crypto.S256(), nil)
	pub := crypto.FromECDSAPub(&eph.ExportECDSA().PublicKey)[1:]
	if p.PeerPoint < 5 {
		pub = invalidPoint(p.PeerPoint, pub, unhex(p.PeerRnd))
		if p.PeerPoint == 4 {
			pub[10] ^= 0x40 // some other off-curve point
		}
	}
	type authResp struct {
		RandomPubkey [64]byte
		Nonce        [32]byte
		Version      uint
	}
	var r authResp
	copy(r.RandomPubkey[:], pub)
	crand.Read(r.Nonce[:])
	r.Version = 4
	B.conn.Write(sealForged(&r, &keyA.PublicKey))
	B.hsDone = true
}

// forgedInitiator plays A by hand: an auth packet, properly encrypted to B, whose
// initiator public key field is an invalid curve point (PeerPoint 5: valid and
// correctly signed, which must be accepted).
func forgedInitiator(p *Plan44, A *endpoint44, keyB *ecdsa.PrivateKey) {
	defer A.conn.Close()
	A.conn.SetDeadline(time.Now().Add(handshakeTimeout))
	type authMsg struct {
		Signature       [65]byte
		InitiatorPubkey [64]byte
		Nonce           [32]byte
		Version         uint
	}
	var m authMsg
	crand.Read(m.Nonce[:])
	m.Version = 4
	eph, _ := ecies.GenerateKey(crand.Reader, crypto.S256(), nil)
	token, err := ecies.ImportECDSA(A.key).GenerateShared(ecies.ImportECDSAPublic(&keyB.PublicKey), 16, 16)
	if err != nil {
		simcore.Harnessf("forged initiator: %v", err)
	}
	signed := make([]byte, 32)
	for i := range signed {
		signed[i] = token[i] ^ m.Nonce[i]
	}
	sig, err := crypto.Sign(signed, eph.ExportECDSA())
	if err != nil {
		simcore.Harnessf("forged initiator sign: %v", err)
	}
	copy(m.Signature[:], sig)
	pub := crypto.FromECDSAPub(&A.key.PublicKey)[1:]
	if p.PeerPoint < 5 {
		pub = invalidPoint(p.PeerPoint, pub, unhex(p.PeerRnd))
		if p.PeerPoint == 4 {
			pub[10] ^= 0x40
		}
	}
	copy(m.InitiatorPubkey[:], pub)
	A.conn.Write(sealForged(&m, &keyB.PublicKey))
	// wait for the ack or the close
	var prefix [2]byte
	if _, err := io.ReadFull(A.conn, prefix[:]); err != nil {
		A.hsErr = err
		return
	}
	body := make([]byte, binary.BigEndian.Uint16(prefix[:]))
	if _, err := io.ReadFull(A.conn, body); err != nil {
		A.hsErr = err
		return
	}
	A.hsDone = true
}

func sealForged(msg any, to *ecdsa.PublicKey) []byte {
	pt, err := rlp.EncodeToBytes(msg)
	if err != nil {
		simcore.Harnessf("forged handshake encode: %v", err)
	}
	pt = append(pt, make([]byte, 120)...)
	prefix := make([]byte, 2)
	binary.BigEndian.PutUint16(prefix, uint16(len(pt)+65+16+32))
	enc, err := ecies.Encrypt(crand.Reader, ecies.ImportECDSAPublic(to), pt, nil, prefix)
	if err != nil {
		simcore.Harnessf("forged handshake seal: %v", err)
	}
	return append(prefix, enc...)
}

func samePub(a, b *ecdsa.PublicKey) bool {
	return a != nil && b != nil && a.X.Cmp(b.X) == 0 && a.Y.Cmp(b.Y) == 0
}

func oracle44(p *Plan44, A, B *endpoint44, ab, ba *wire, res *simcore.Result) *simcore.Violation {
	for _, e := range []*endpoint44{A, B} {
		if e.viol != nil {
			return e.viol
		}
	}
	// forged-peer scenarios
	if p.Peer == 1 || p.Peer == 2 {
		victim, forger := A, B
		if p.Peer == 2 {
			victim, forger = B, A
		}
		res.Probe(fmt.Sprintf("forged-peer-%d", p.Peer))
		if !victim.hsDone {
			simcore.Harnessf("C44: victim handshake did not finish")
		}
		if p.PeerPoint < 5 {
			res.Fault("invalid-curve-point-in-handshake")
			if victim.hsErr == nil {
				return simcore.Violf("invalid-point-used", "%s completed a handshake in which the peer's %s carried an invalid curve point (variant %d)",
					victim.name, map[int]string{1: "ack ephemeral key", 2: "auth initiator key"}[p.Peer], p.PeerPoint)
			}
			return nil
		}
		res.Probe("forged-peer-control-accepted")
		if victim.hsErr != nil {
			return simcore.Violf("valid-handshake-rejected", "%s rejected a well-formed handshake from a hand-written peer: %v", victim.name, victim.hsErr)
		}
		if !samePub(victim.hsRemote, &forger.key.PublicKey) {
			return simcore.Violf("wrong-remote-key", "%s learned a wrong remote key", victim.name)
		}
		return nil
	}

	// handshake
	type side struct {
		e, peer *endpoint44
		in      *wire // peer -> e
	}
	sides := []side{{A, B, ba}, {B, A, ab}}
	for _, s := range sides {
		if !s.e.hsDone {
			simcore.Harnessf("C44: %s handshake did not finish", s.e.name)
		}
		if s.e.hsErr == nil && !samePub(s.e.hsRemote, &s.peer.key.PublicKey) {
			return simcore.Violf("wrong-remote-key", "%s finished the handshake with a remote key that is not the peer's", s.e.name)
		}
	}
	hsFault := func(w *wire) bool { // delivered handshake packet differs from the written one
		return w.firstDiff >= 0 && len(w.units) > 0 && w.firstDiff < w.units[0].OrigEnd
	}
	// stalls delay bytes without changing them; whether a deadline expires depends on
	// the sum of the delays in the run, so the delivery clauses are only required when
	// the planned delays cannot add up to a timeout.
	var hsStall, allStall time.Duration
	for _, f := range p.Faults {
		if f.Kind == "stall" {
			allStall += time.Duration(f.DurMS) * time.Millisecond
			if f.Unit == 0 {
				hsStall += time.Duration(f.DurMS) * time.Millisecond
			}
		}
	}
	hsMayTimeOut := hsStall >= handshakeTimeout-time.Millisecond
	msgMayTimeOut := allStall >= frameReadTimeout-time.Millisecond
	// B reads the auth (ab), A reads the ack (ba)
	if hsFault(ab) && B.hsErr == nil {
		return simcore.Violf("tampered-handshake-accepted", "B completed the handshake although the auth packet was modified at stream offset %d", ab.firstDiff)
	}
	if hsFault(ba) && A.hsErr == nil {
		return simcore.Violf("tampered-handshake-accepted", "A completed the handshake although the ack packet was modified at stream offset %d", ba.firstDiff)
	}
	if !hsFault(ab) && !hsFault(ba) && !hsMayTimeOut {
		if A.hsErr != nil || B.hsErr != nil {
			return simcore.Violf("handshake-failed", "untouched handshake failed: A: %v, B: %v", A.hsErr, B.hsErr)
		}
		res.Probe("handshake-ok")
	}
	if A.hsErr != nil || B.hsErr != nil {
		res.Probe("handshake-failed-after-fault")
	}
	// bounded liveness of blocked reads
	for _, e := range []*endpoint44{A, B} {
		if e.hsTook > handshakeTimeout {
			return simcore.Violf("read-past-deadline", "%s: Handshake returned after %v with a %v deadline", e.name, e.hsTook, handshakeTimeout)
		}
		if e.conn.lateReturn > 0 {
			return simcore.Violf("read-past-deadline", "%s: a blocked read returned %v after its deadline", e.name, e.conn.lateReturn)
		}
		for i := range e.readEnd {
			if d := e.readEnd[i].Sub(e.readStart[i]); d > frameReadTimeout {
				return simcore.Violf("read-past-deadline", "%s: message read #%d took %v with a %v deadline", e.name, i, d, frameReadTimeout)
			}
		}
	}
	if A.hsErr != nil || B.hsErr != nil {
		// no established pair: nothing may have been delivered
		for _, e := range []*endpoint44{A, B} {
			if e.recvN > 0 && (A.hsErr != nil && B.hsErr != nil) {
				return simcore.Violf("delivery-without-handshake", "%s delivered %d messages though no handshake completed", e.name, e.recvN)
			}
		}
	}
	// message streams
	for _, s := range sides {
		e, peer, w := s.e, s.peer, s.in
		if e.hsErr != nil || peer.hsErr != nil {
			continue
		}
		// delivered messages were compared one by one in the reader (prefix, in order).
		want := len(peer.sent)
		if w.firstDiff >= 0 {
			want = 0
			for _, sr := range peer.sent {
				if sr.end <= w.firstDiff {
					want++
				}
			}
		}
		if e.recvN > want {
			return simcore.Violf("modified-message-delivered", "%s delivered %d messages but the stream %s was modified at offset %d: only %d messages end before it",
				e.name, e.recvN, w.name, w.firstDiff, want)
		}
		if e.recvN < want && msgMayTimeOut && errors.Is(e.recvErr, os.ErrDeadlineExceeded) {
			res.Probe("stall-timeout-observed")
			continue
		}
		if e.recvN < want {
			return simcore.Violf("message-lost", "%s delivered %d of %d messages that were written intact before offset %d of %s (read error: %v)",
				e.name, e.recvN, want, w.firstDiff, w.name, e.recvErr)
		}
		if e.recvErr == nil {
			simcore.Harnessf("C44: reader %s stopped without an error", e.name)
		}
		if w.firstDiff < 0 {
			// untouched stream: all messages, then a clean end of stream
			if !errors.Is(e.recvErr, io.EOF) {
				return simcore.Violf("spurious-read-error", "%s: untouched stream %s ended with %v instead of EOF after %d messages", e.name, w.name, e.recvErr, e.recvN)
			}
			if want > 0 {
				res.Probe("all-delivered")
			}
		} else {
			res.Probe("error-at-fault")
		}
	}
	return nil
}
