package netsim

// C53: the real light.CommitteeChain (+ HeadTracker.validate) built through the
// tree's own test seam (deterministic dummy signature scheme, mclock.Simulated),
// persisting into simdisk.SimKV. An honest beacon-chain model produces the genuine
// committees, updates and signed headers; a forging server that does not hold the
// genuine committees' signing material produces everything else.

import (
	"bytes"
	"crypto/sha256"
	"encoding/binary"
	"encoding/json"
	"errors"
	"fmt"
	"runtime/debug"
	"sort"
	"strings"
	"testing"
	"time"

	"github.com/ethereum/go-ethereum/beacon/light"
	"github.com/ethereum/go-ethereum/beacon/merkle"
	"github.com/ethereum/go-ethereum/beacon/params"
	"github.com/ethereum/go-ethereum/beacon/types"
	"github.com/ethereum/go-ethereum/common"
	"github.com/ethereum/go-ethereum/common/mclock"
	"github.com/ethereum/go-ethereum/core/rawdb"
	"github.com/ethereum/go-ethereum/rlp"

	"verifsim/simcore"
	"verifsim/simdisk"
)

type Op53 struct {
	Op       string `json:"op"`               // update | header | restart | crash | clock | failwrite | checkpoint
	Period   int    `json:"period,omitempty"` // offset from the checkpoint period
	Sub      int    `json:"sub,omitempty"`    // slot inside the period
	Signers  int    `json:"signers,omitempty"`
	Final    bool   `json:"final,omitempty"`
	Forge    string `json:"forge,omitempty"`
	Comm     string `json:"comm,omitempty"` // next committee handed over: honest | none | fake | other
	By       string `json:"by,omitempty"`   // header: genuine | other-period | fake
	SigDelta int    `json:"sig_delta,omitempty"`
	Tamper   string `json:"tamper,omitempty"`
	K        int    `json:"k,omitempty"`
	Frac     int    `json:"frac,omitempty"` // clock: advance by Frac/8 periods
	Seed     uint64 `json:"seed,omitempty"`
}

type Plan53 struct {
	Seed        uint64 `json:"seed"`
	Fork        string `json:"fork"` // update version: "deneb" (old state indices) or "" (electra)
	P0          int    `json:"p0"`
	Periods     int    `json:"periods"`
	Threshold   int    `json:"threshold"`
	EnforceTime bool   `json:"enforce_time"`
	Clock8      int    `json:"clock8"` // initial clock, in eighths of a period after P0
	Ops         []Op53 `json:"ops"`
}

var forge53 = []string{"mixup-sig-next", "mixup-sig-next", "mixup-sig-prev", "mixup-header-next", "mixup-signer-next", "fake-chain", "swap-root", "swap-root-rebuilt", "more-signers", "tamper-header", "tamper-state", "cross-period-sig", "fake-final"}

func Gen53(r *simcore.Rand, tier string) any {
	p := &Plan53{Seed: r.Uint64(), Fork: []string{"", "deneb"}[r.Intn(2)], P0: r.Range(0, 40), Periods: r.Range(2, 12),
		Threshold: []int{1, 5, 100, 256, 341, 342}[r.Intn(6)], EnforceTime: r.Bool(0.5)}
	p.Clock8 = r.Intn(8 * (p.Periods + 2))
	if r.Bool(0.65) {
		p.Clock8 = 8 * (p.Periods + 2)
	}
	faulty := r.Bool(0.5) // the other half is fault-free: bounded liveness is judged there
	signers := func() int {
		t := p.Threshold
		switch r.Pick(4, 3, 2, 2, 1) {
		case 0:
			return r.Range(t, 512)
		case 1:
			return t
		case 2:
			return max(0, t-1)
		case 3:
			return []int{341, 342, 343, 512}[r.Intn(4)]
		}
		return r.Intn(t + 1)
	}
	nops := r.Range(10, 80)
	next := 0 // biased towards in-order delivery so that the chain grows
	for i := 0; i < nops; i++ {
		op := Op53{Seed: r.Uint64()}
		switch r.Pick(40, 25, 5, 4, 8, 6, 3) {
		case 0:
			op.Op = "update"
			switch r.Pick(5, 3, 1) {
			case 0:
				op.Period = next
			case 1:
				op.Period = r.Intn(p.Periods)
			case 2:
				op.Period = r.Range(-1, p.Periods+1)
			}
			op.Sub = r.Intn(params.SyncPeriodLength - 1)
			op.Signers = signers()
			op.Final = r.Bool(0.4)
			op.Comm = []string{"honest", "honest", "honest", "honest", "none", "fake", "other"}[r.Intn(7)]
			if r.Bool(0.35) {
				op.Forge = forge53[r.Intn(len(forge53))]
				if r.Bool(0.5) {
					op.Signers = 512
					op.Final = true
				}
				if strings.HasPrefix(op.Forge, "mixup") {
					op.Signers, op.Final, op.Comm = 512, true, "honest" // (the committee matching the claimed root)
					if next > 0 {
						op.Period = r.Intn(next)
					}
				}
			} else if op.Period == next && op.Signers >= p.Threshold && op.Comm == "honest" && r.Bool(0.8) {
				next++
			}
		case 1:
			op.Op = "header"
			op.Period = r.Range(-1, p.Periods+1)
			if r.Bool(0.6) {
				op.Period = r.Intn(next + 1)
			}
			op.Sub = r.Intn(params.SyncPeriodLength - 1)
			if r.Bool(0.1) {
				op.Sub = params.SyncPeriodLength - 1 // signature slot falls into the next period
			}
			op.Signers = signers()
			op.By = []string{"genuine", "genuine", "genuine", "other-period", "fake"}[r.Intn(5)]
			op.Tamper = []string{"", "", "", "slot", "state", "bits", "sig"}[r.Intn(7)]
		case 2:
			op.Op = "restart"
		case 3:
			op.Op = "crash"
			op.K = r.Range(1, 4)
			if !faulty {
				op.Op = "restart"
			}
		case 4:
			op.Op = "clock"
			op.Frac = r.Range(1, 12)
		case 5:
			op.Op = "failwrite"
			op.K = r.Range(1, 4)
			if !faulty {
				op.Op = "clock"
				op.Frac = r.Range(1, 4)
			}
		case 6:
			op.Op = "checkpoint"
			op.Period = r.Intn(p.Periods)
		}
		p.Ops = append(p.Ops, op)
	}
	return p
}

func Decode53(b []byte) (any, error) {
	p := &Plan53{}
	err := json.Unmarshal(b, p)
	return p, err
}

func Shrink53(pl any) []any {
	p := pl.(*Plan53)
	var out []any
	for _, ops := range simcore.ShrinkSlice(p.Ops) {
		q := *p
		q.Ops = ops
		out = append(out, &q)
	}
	return out
}

// ---- honest beacon chain model

type world53 struct {
	p      *Plan53
	res    *simcore.Result
	config params.ChainConfig
	comm   map[int]*types.SerializedSyncCommittee // genuine committee per period offset (-1 .. Periods+2)
	root   map[int]common.Hash
	fake   map[int]*types.SerializedSyncCommittee
	kv     *simdisk.SimKV
	clock  *mclock.Simulated
	chain  *light.CommitteeChain
	head   *light.HeadTracker
	log    simcore.Hash64
	viol   *simcore.Violation

	firedBefore int64
	opened      uint64 // number of chain objects constructed
	checkedAt   [4]uint64
	faulted     bool // a KV write error fired or write units were lost: delivery clauses no longer required
}

func (w *world53) fail(v *simcore.Violation) {
	if w.viol == nil {
		w.viol = v
	}
}

func seedBytes(seed uint64, tag string, n int) []byte {
	h := sha256.Sum256(append(binary.BigEndian.AppendUint64(nil, seed), tag...))
	out := make([]byte, 0, n)
	for ctr := uint64(0); len(out) < n; ctr++ {
		b := sha256.Sum256(binary.BigEndian.AppendUint64(h[:], ctr))
		out = append(out, b[:]...)
	}
	return out[:n]
}

func makeCommittee(seed uint64, tag string) *types.SerializedSyncCommittee {
	c := new(types.SerializedSyncCommittee)
	copy(c[:32], seedBytes(seed, tag, 32))
	return c
}

// sparseTree computes a state root in which the given generalized indices hold the
// given values (all other nodes are seed-derived fillers) and the branch of each.
type sparseTree struct {
	leaves map[uint64]merkle.Value
	seed   uint64
	tag    string
}

func (t *sparseTree) covers(g uint64) bool {
	for l := range t.leaves {
		for x := l; x >= g; x >>= 1 {
			if x == g {
				return true
			}
		}
	}
	return false
}

func (t *sparseTree) node(g uint64) merkle.Value {
	if v, ok := t.leaves[g]; ok {
		return v
	}
	if !t.covers(g) {
		var v merkle.Value
		copy(v[:], seedBytes(t.seed, fmt.Sprintf("%s/%d", t.tag, g), 32))
		return v
	}
	l, r := t.node(2*g), t.node(2*g+1)
	var v merkle.Value
	h := sha256.New()
	h.Write(l[:])
	h.Write(r[:])
	h.Sum(v[:0])
	return v
}

func (t *sparseTree) branch(leaf uint64) merkle.Values {
	var out merkle.Values
	for g := leaf; g > 1; g >>= 1 {
		out = append(out, t.node(g^1))
	}
	return out
}

func (w *world53) absPeriod(off int) uint64 { return uint64(w.p.P0 + 1 + off) } // +1: room for period offset -1

func makeBitmask(n int, seed uint64) (bm [params.SyncCommitteeBitmaskSize]byte) {
	// n distinct positions chosen by a seeded permutation
	perm := make([]int, params.SyncCommitteeSize)
	for i := range perm {
		perm[i] = i
	}
	x := seed | 1
	for i := len(perm) - 1; i > 0; i-- {
		x = simcore.SplitMix(x)
		j := int(x % uint64(i+1))
		perm[i], perm[j] = perm[j], perm[i]
	}
	for _, pos := range perm[:min(n, len(perm))] {
		bm[pos/8] |= 1 << uint(pos%8)
	}
	return bm
}

// sign is the test seam's dummy scheme (beacon/light/test_helpers.go): the committee's
// first 32 bytes XOR the signing root, followed by the signer bitmask.
func (w *world53) sign(c *types.SerializedSyncCommittee, h types.Header, sigSlot uint64, n int, seed uint64) types.SignedHeader {
	bm := makeBitmask(n, seed)
	sr, err := w.config.Forks.SigningRoot(h.Epoch(), h.Hash())
	if err != nil {
		simcore.Harnessf("signing root: %v", err)
	}
	var sig [params.BLSSignatureSize]byte
	for i := 0; i < 32; i++ {
		sig[i] = c[i] ^ sr[i]
	}
	copy(sig[32:], bm[:])
	return types.SignedHeader{Header: h, Signature: types.SyncAggregate{Signers: bm, Signature: sig}, SignatureSlot: sigSlot}
}

// makeUpdate builds an update for period offset off whose attested header at slot
// start+sub proves nextRoot (and, if final, a finalized header of the same period).
func (w *world53) makeUpdate(off, sub int, signer *types.SerializedSyncCommittee, nextRoot common.Hash, n int, final bool, seed uint64, sigSlot ...uint64) *types.LightClientUpdate {
	u := &types.LightClientUpdate{Version: w.p.Fork, NextSyncCommitteeRoot: nextRoot}
	start := types.SyncPeriodStart(w.absPeriod(off))
	tree := &sparseTree{leaves: map[uint64]merkle.Value{params.StateIndexNextSyncCommittee(w.p.Fork): merkle.Value(nextRoot)}, seed: seed, tag: "state"}
	if final {
		fin := types.Header{Slot: start + uint64(sub)/2, ProposerIndex: seed % 1000, StateRoot: common.BytesToHash(seedBytes(seed, "finstate", 32)), BodyRoot: common.BytesToHash(seedBytes(seed, "finbody", 32))}
		u.FinalizedHeader = &fin
		tree.leaves[params.StateIndexFinalBlock(w.p.Fork)] = merkle.Value(fin.Hash())
	}
	att := types.Header{Slot: start + uint64(sub), ProposerIndex: (seed >> 8) % 1000, ParentRoot: common.BytesToHash(seedBytes(seed, "parent", 32)),
		StateRoot: common.Hash(tree.node(1)), BodyRoot: common.BytesToHash(seedBytes(seed, "body", 32))}
	u.NextSyncCommitteeBranch = tree.branch(params.StateIndexNextSyncCommittee(w.p.Fork))
	if final {
		u.FinalityBranch = tree.branch(params.StateIndexFinalBlock(w.p.Fork))
	}
	ss := att.Slot + 1
	if len(sigSlot) > 0 {
		ss = sigSlot[0]
	}
	u.AttestedHeader = w.sign(signer, att, ss, n, seed)
	return u
}

func (w *world53) checkpoint(off int) *types.BootstrapData {
	c := w.comm[off]
	seed := w.p.Seed + uint64(off)*7919
	tree := &sparseTree{leaves: map[uint64]merkle.Value{
		params.StateIndexSyncCommittee(w.p.Fork):     merkle.Value(c.Root()),
		params.StateIndexNextSyncCommittee(w.p.Fork): merkle.Value(w.root[off+1]),
	}, seed: seed, tag: "cp"}
	h := types.Header{Slot: types.SyncPeriodStart(w.absPeriod(off)) + 77, StateRoot: common.Hash(tree.node(1))}
	return &types.BootstrapData{Version: w.p.Fork, Header: h, Committee: c, CommitteeRoot: c.Root(), CommitteeBranch: tree.branch(params.StateIndexSyncCommittee(w.p.Fork))}
}

// construct opens a chain on the current disk. Observation (not judged, see NOTES.md):
// if the stored periods are not contiguous after a failed write, newCanonicalStore
// returns (nil, error) and newCommitteeChain's recovery path (Reset -> rollback)
// dereferences the nil store, i.e. the chain cannot be constructed.
func (w *world53) construct() (c *light.CommitteeChain, panicked string) {
	defer func() {
		if r := recover(); r != nil {
			st := string(debug.Stack())
			if w.faulted && strings.Contains(st, "newCommitteeChain") {
				panicked = fmt.Sprint(r)
				return
			}
			panic(r)
		}
	}()
	return light.NewTestCommitteeChain(w.kv, &w.config, w.p.Threshold, w.p.EnforceTime, w.clock), ""
}

func (w *world53) open(how string) {
	c, panicked := w.construct()
	if panicked != "" {
		// C53 speaks about what an existing chain holds and accepts, not about
		// surviving I/O errors: count it and go on with a fresh database
		w.res.Probe("restart-failed-after-write-error")
		w.kv = simdisk.NewSimKV(w.kv.Clock)
		w.firedBefore = 0
		c, panicked = w.construct()
		if panicked != "" {
			simcore.Harnessf("committee chain panics on an empty database: %s", panicked)
		}
	}
	w.chain = c
	w.opened++
	w.head = light.NewHeadTracker(w.chain, w.p.Threshold, nil)
	w.check(how)
}

// check is the safety oracle: whatever the chain holds, in memory or on disk, is genuine.
func (w *world53) check(after string) {
	if w.viol != nil {
		return
	}
	// nothing was written, no write failed and the chain reports no change since the
	// last full check of this very chain object: nothing new to look at
	key := [4]uint64{uint64(w.kv.LogLen()), uint64(w.kv.Fired.Load()), w.chain.ChangeCounter(), w.opened}
	if key == w.checkedAt {
		w.res.Events++
		return
	}
	w.checkedAt = key
	st := w.chain.VerifState()
	off := func(p uint64) int { return int(p) - w.p.P0 - 1 }
	var ps []uint64
	for p := range st.Committees {
		ps = append(ps, p)
	}
	sort.Slice(ps, func(i, j int) bool { return ps[i] < ps[j] })
	for _, p := range ps {
		c := st.Committees[p]
		g := w.comm[off(p)]
		if c == nil {
			w.res.Probe("committee-in-range-but-missing")
			continue
		}
		if g == nil || *c != *g {
			w.fail(simcore.Violf("forged-committee-held", "after %s: the chain holds a committee for period %d (offset %d) that is not the genuine one", after, p, off(p)))
			return
		}
	}
	ps = ps[:0]
	for p := range st.Updates {
		ps = append(ps, p)
	}
	sort.Slice(ps, func(i, j int) bool { return ps[i] < ps[j] })
	for _, p := range ps {
		u := st.Updates[p]
		if u == nil {
			w.res.Probe("update-in-range-but-missing")
			continue
		}
		if g, ok := w.root[off(p)+1]; !ok || u.NextSyncCommitteeRoot != g {
			w.fail(simcore.Violf("forged-update-held", "after %s: the chain holds an update for period %d proving a committee root that is not the genuine one", after, p))
			return
		}
	}
	ps = ps[:0]
	for p := range st.FixedRoots {
		ps = append(ps, p)
	}
	sort.Slice(ps, func(i, j int) bool { return ps[i] < ps[j] })
	for _, p := range ps {
		if g, ok := w.root[off(p)]; st.FixedRoots[p] != (common.Hash{}) && (!ok || st.FixedRoots[p] != g) {
			w.fail(simcore.Violf("forged-root-fixed", "after %s: fixed committee root of period %d is not the genuine one", after, p))
			return
		}
	}
	// the disk
	for _, pre := range [][]byte{rawdb.SyncCommitteeKey, rawdb.BestUpdateKey} {
		it := w.kv.Mem().NewIterator(pre, nil)
		for it.Next() {
			if len(it.Key()) != len(pre)+8 {
				continue
			}
			p := binary.BigEndian.Uint64(it.Key()[len(pre):])
			if bytes.Equal(pre, rawdb.SyncCommitteeKey) {
				var c types.SerializedSyncCommittee
				if err := rlp.DecodeBytes(it.Value(), &c); err != nil {
					continue
				}
				if g := w.comm[off(p)]; g == nil || c != *g {
					it.Release()
					w.fail(simcore.Violf("forged-committee-on-disk", "after %s: the database holds a committee for period %d that is not the genuine one", after, p))
					return
				}
			} else {
				var u types.LightClientUpdate
				if err := rlp.DecodeBytes(it.Value(), &u); err != nil {
					continue
				}
				if g, ok := w.root[off(p)+1]; !ok || u.NextSyncCommitteeRoot != g {
					it.Release()
					w.fail(simcore.Violf("forged-update-on-disk", "after %s: the database holds an update for period %d proving a committee root that is not the genuine one", after, p))
					return
				}
			}
		}
		it.Release()
	}
	w.log = w.log.U64(st.CommitteeRange[0]).U64(st.CommitteeRange[1]).U64(st.UpdateRange[0]).U64(st.UpdateRange[1]).U64(st.FixedRange[0]).U64(st.FixedRange[1])
	w.res.Events++
}

func (w *world53) nowSlotTimeOK(slot uint64) bool {
	return int64(w.clock.Now()) >= int64(slot)*12*int64(time.Second)
}

func (w *world53) doUpdate(i int, op *Op53) {
	off := op.Period
	if w.comm[off] == nil || w.comm[off+1] == nil {
		return
	}
	signer, nextRoot, next := w.comm[off], w.root[off+1], w.comm[off+1]
	genuine := op.Forge == ""
	var u *types.LightClientUpdate
	switch op.Forge {
	case "":
		u = w.makeUpdate(off, op.Sub, signer, nextRoot, op.Signers, op.Final, op.Seed)
	case "fake-chain":
		// the forger's own committees all the way
		u = w.makeUpdate(off, op.Sub, w.fake[off], w.fake[off+1].Root(), op.Signers, op.Final, op.Seed)
		next = w.fake[off+1]
	case "fake-final":
		// signed by the forger's committee but proving the genuine next committee
		u = w.makeUpdate(off, op.Sub, w.fake[off], nextRoot, op.Signers, true, op.Seed)
	case "swap-root":
		// a genuine signed header, but another committee root is claimed with the old branch
		u = w.makeUpdate(off, op.Sub, signer, nextRoot, op.Signers, op.Final, op.Seed)
		u.NextSyncCommitteeRoot = w.fake[off+1].Root()
		next = w.fake[off+1]
	case "swap-root-rebuilt":
		// a consistent proof for the fake root, under the genuine header's signature
		g := w.makeUpdate(off, op.Sub, signer, nextRoot, op.Signers, op.Final, op.Seed)
		u = w.makeUpdate(off, op.Sub, w.fake[off], w.fake[off+1].Root(), op.Signers, op.Final, op.Seed)
		u.AttestedHeader.Signature = g.AttestedHeader.Signature
		next = w.fake[off+1]
	case "more-signers":
		u = w.makeUpdate(off, op.Sub, signer, nextRoot, min(op.Signers, 300), op.Final, op.Seed)
		u.AttestedHeader.Signature.Signers = makeBitmask(512, op.Seed)
	case "tamper-header":
		u = w.makeUpdate(off, op.Sub, signer, nextRoot, op.Signers, op.Final, op.Seed)
		u.AttestedHeader.Header.ProposerIndex++
	case "tamper-state":
		// header re-pointed at a state proving the fake committee; signature kept
		f := w.makeUpdate(off, op.Sub, w.fake[off], w.fake[off+1].Root(), op.Signers, op.Final, op.Seed)
		g := w.makeUpdate(off, op.Sub, signer, nextRoot, op.Signers, op.Final, op.Seed)
		u = f
		u.AttestedHeader.Signature = g.AttestedHeader.Signature
		u.AttestedHeader.Header.ParentRoot = g.AttestedHeader.Header.ParentRoot
		next = w.fake[off+1]
	case "mixup-sig-next":
		// period mix-up: header in this period, signature slot in the NEXT period, signed by
		// the next period's genuine committee (whose signatures the forger got hold of),
		// proving the forger's committee for the next period
		if w.fake[off+1] == nil {
			return
		}
		u = w.makeUpdate(off, op.Sub, w.comm[off+1], w.fake[off+1].Root(), op.Signers, op.Final, op.Seed,
			types.SyncPeriodStart(w.absPeriod(off+1))+uint64(op.Sub%4000))
		next = w.fake[off+1]
	case "mixup-sig-prev":
		// header in this period, signature slot in the PREVIOUS period, signed by that committee
		if w.comm[off-1] == nil {
			return
		}
		u = w.makeUpdate(off, op.Sub, w.comm[off-1], w.fake[off+1].Root(), op.Signers, op.Final, op.Seed,
			types.SyncPeriodStart(w.absPeriod(off-1))+uint64(op.Sub))
		next = w.fake[off+1]
	case "mixup-header-next":
		// header in the NEXT period (so the update is filed under it), signature slot in this
		// period, signed by this period's genuine committee
		if w.comm[off+2] == nil || w.fake[off+2] == nil {
			return
		}
		u = w.makeUpdate(off+1, op.Sub, w.comm[off], w.fake[off+2].Root(), op.Signers, op.Final, op.Seed,
			types.SyncPeriodStart(w.absPeriod(off))+uint64(op.Sub))
		next = w.fake[off+2]
	case "mixup-signer-next":
		// all slots in this period, but signed by the next period's genuine committee
		u = w.makeUpdate(off, op.Sub, w.comm[off+1], w.fake[off+1].Root(), op.Signers, op.Final, op.Seed)
		next = w.fake[off+1]
	case "cross-period-sig":
		// last slot of the period, signed in the first slot of the next period by that
		// period's genuine committee: the header and the signature belong to different periods
		u = w.makeUpdate(off, params.SyncPeriodLength-1, w.comm[off+1], nextRoot, op.Signers, false, op.Seed)
	}
	var nc *types.SerializedSyncCommittee
	switch op.Comm {
	case "honest":
		nc = next
	case "fake":
		nc = w.fake[off+1]
	case "other":
		nc = w.comm[off]
	}
	w.res.Probe("update-delivered")
	if !genuine {
		w.res.Fault("forged-update-" + op.Forge)
	}
	// the network layer validates proofs before handing an update to the chain
	// (beacon/light/api: LightClientUpdate.Validate)
	if err := u.Validate(); err != nil {
		w.res.Probe("update-rejected-by-validate")
		if genuine {
			w.fail(simcore.Violf("genuine-update-invalid", "op %d: genuine update (period offset %d, slot +%d, final %v) fails Validate: %v", i, off, op.Sub, op.Final, err))
		}
		return
	}
	before := w.chain.VerifState()
	period := w.absPeriod(off)
	err := w.chain.InsertUpdate(u, nc)
	failed := w.kv.Fired.Load() > w.firedBefore
	w.firedBefore = w.kv.Fired.Load()
	if failed {
		w.faulted = true
	}
	w.log = w.log.String(fmt.Sprint(err))
	if err == nil {
		w.res.Probe("update-accepted")
	}
	if trace {
		fmt.Printf("op %d update off=%d forge=%q signers=%d final=%v comm=%s => %v\n", i, off, op.Forge, op.Signers, op.Final, op.Comm, err)
	}
	w.check(fmt.Sprintf("op %d update(period offset %d, forge %q)", i, off, op.Forge))
	if w.viol != nil || !genuine {
		return
	}
	// a genuine update at a position where the chain can take it
	canExpand := before.UpdateRange[0] == before.UpdateRange[1] || (period+1 >= before.UpdateRange[0] && period <= before.UpdateRange[1])
	hasComm := period >= before.CommitteeRange[0] && period < before.CommitteeRange[1] && before.Committees[period] != nil
	inTime := !w.p.EnforceTime || w.nowSlotTimeOK(u.AttestedHeader.Header.Slot)
	if !canExpand || !hasComm {
		return
	}
	if failed {
		w.res.Fault("kv-write-error-during-insert")
		return
	}
	if w.faulted {
		return // memory and disk may have diverged: only the safety clauses are judged
	}
	if op.Signers < w.p.Threshold {
		w.res.Fault("signers-below-threshold")
		if err == nil {
			w.fail(simcore.Violf("low-participation-accepted", "op %d: genuine update with %d signers accepted, threshold %d", i, op.Signers, w.p.Threshold))
		}
		return
	}
	if old := before.Updates[period]; old != nil && !u.Score().BetterThan(old.Score()) {
		// an equal or better update is already there: InsertUpdate returns nil without
		// looking further at the new one
		w.res.Probe("not-better-than-existing")
		if err != nil {
			w.fail(simcore.Violf("genuine-update-rejected", "op %d: genuine update not better than the stored one was answered with %v", i, err))
		}
		return
	}
	if !inTime {
		w.res.Fault("future-update") // time enforcement is not part of the property: not judged
		return
	}
	needComm := !(period+1 >= before.CommitteeRange[0] && period+1 < before.CommitteeRange[1])
	if needComm && op.Comm != "honest" {
		w.res.Probe("next-committee-missing-or-wrong") // a wrong committee that got in is caught by check()
		return
	}
	if err != nil {
		w.fail(simcore.Violf("genuine-update-rejected", "op %d: genuine update (period offset %d, %d signers, threshold %d, final %v) at a position the chain can extend was rejected: %v", i, off, op.Signers, w.p.Threshold, op.Final, err))
		return
	}
	if op.Signers == w.p.Threshold {
		w.res.Probe("update-at-exact-threshold-accepted")
	}
}

func (w *world53) doHeader(i int, op *Op53) {
	off := op.Period
	if w.comm[off] == nil || w.comm[off+1] == nil {
		return
	}
	slot := types.SyncPeriodStart(w.absPeriod(off)) + uint64(op.Sub)
	sigSlot := slot + 1
	sigOff := int(types.SyncPeriod(sigSlot)) - w.p.P0 - 1
	var signer *types.SerializedSyncCommittee
	switch op.By {
	case "genuine":
		signer = w.comm[sigOff]
	case "other-period":
		signer = w.comm[sigOff-1]
		if signer == nil {
			signer = w.comm[sigOff+1]
		}
	default:
		signer = w.fake[sigOff]
	}
	if signer == nil {
		return
	}
	h := types.Header{Slot: slot, ProposerIndex: op.Seed % 999, ParentRoot: common.BytesToHash(seedBytes(op.Seed, "hp", 32)),
		StateRoot: common.BytesToHash(seedBytes(op.Seed, "hs", 32)), BodyRoot: common.BytesToHash(seedBytes(op.Seed, "hb", 32))}
	sh := w.sign(signer, h, sigSlot, op.Signers, op.Seed)
	valid := op.By == "genuine"
	switch op.Tamper {
	case "slot":
		if sh.Header.Slot%params.SyncPeriodLength > 0 {
			sh.Header.Slot--
			valid = false
		}
	case "state":
		sh.Header.StateRoot[5] ^= 0x10
		valid = false
	case "bits":
		// claim one more signer than signed
		for b := 0; b < params.SyncCommitteeSize; b++ {
			if sh.Signature.Signers[b/8]&(1<<uint(b%8)) == 0 {
				sh.Signature.Signers[b/8] |= 1 << uint(b%8)
				valid = false
				break
			}
		}
	case "sig":
		sh.Signature.Signature[op.Seed%32] ^= 0x01
		valid = false
	}
	count := sh.Signature.SignerCount()
	st := w.chain.VerifState()
	sp := types.SyncPeriod(sigSlot)
	known := sp >= st.CommitteeRange[0] && sp < st.CommitteeRange[1] && st.Committees[sp] != nil
	inTime := !w.p.EnforceTime || w.nowSlotTimeOK(sh.Header.Slot)
	ok, err := w.head.VerifValidate(sh, types.SignedHeader{})
	w.log = w.log.String(fmt.Sprint(ok, err))
	w.res.Probe("header-checked")
	want := valid && count >= w.p.Threshold && known && inTime && (sh.Header.Slot > 0 || count > 0)
	if !valid {
		w.res.Fault("header-" + op.By + "-" + op.Tamper)
	} else if count < w.p.Threshold {
		w.res.Fault("header-below-threshold")
	} else if !known {
		w.res.Fault("header-of-unknown-period")
	} else if !inTime {
		w.res.Fault("header-from-the-future")
	}
	if ok && !(valid && count >= w.p.Threshold && known) {
		w.fail(simcore.Violf("header-wrongly-accepted", "op %d: signed header (period offset %d, signed by %s committee, tamper %q, %d signers, threshold %d, period known %v, in time %v) was accepted",
			i, off, op.By, op.Tamper, count, w.p.Threshold, known, inTime))
		return
	}
	if !ok && want {
		w.fail(simcore.Violf("header-wrongly-rejected", "op %d: header signed by %d >= %d members of the genuine committee of a known period was rejected: %v", i, count, w.p.Threshold, err))
		return
	}
	if ok {
		w.res.Probe("header-accepted")
		if count == w.p.Threshold {
			w.res.Probe("header-at-exact-threshold-accepted")
		}
	}
}

func Run53(t *testing.T, pl any) *simcore.Result {
	p := pl.(*Plan53)
	res := simcore.NewResult()
	w := &world53{p: p, res: res, comm: map[int]*types.SerializedSyncCommittee{}, root: map[int]common.Hash{}, fake: map[int]*types.SerializedSyncCommittee{},
		clock: &mclock.Simulated{}, log: simcore.NewHash()}
	copy(w.config.GenesisValidatorsRoot[:], seedBytes(p.Seed, "gvr", 32))
	w.config.AddFork("deneb", 0, []byte{byte(p.Seed)})
	for off := -1; off <= p.Periods+2; off++ {
		w.comm[off] = makeCommittee(p.Seed, fmt.Sprintf("genuine/%d", off))
		w.root[off] = w.comm[off].Root()
		w.fake[off] = makeCommittee(p.Seed, fmt.Sprintf("forger/%d", off))
	}
	w.kv = simdisk.NewSimKV(nil)
	periodDur := time.Duration(params.SyncPeriodLength) * 12 * time.Second
	w.clock.Run(time.Duration(w.absPeriod(0))*periodDur + time.Duration(p.Clock8)*periodDur/8 + 3*time.Second)
	w.open("start")
	if w.viol != nil {
		return res.Fail(w.viol)
	}
	if err := w.chain.CheckpointInit(*w.checkpoint(0)); err != nil {
		simcore.Harnessf("checkpoint init: %v", err)
	}
	w.check("checkpoint")
	for i := range p.Ops {
		if w.viol != nil {
			break
		}
		op := &p.Ops[i]
		switch op.Op {
		case "update":
			w.doUpdate(i, op)
		case "header":
			w.doHeader(i, op)
		case "restart":
			res.Fault("restart")
			w.open(fmt.Sprintf("op %d restart", i))
		case "crash":
			// the last K write units never reached the disk
			ops := w.kv.Snapshot()
			if len(ops) == 0 {
				continue
			}
			cut := len(ops) - min(op.K, len(ops))
			var seq uint64
			if cut > 0 {
				seq = ops[cut-1].Seq
			}
			mem, _ := simdisk.MaterialiseKV(ops, seq, 0)
			nkv := simdisk.FromMem(mem, w.kv.Clock)
			nkv.Log = append([]simdisk.KVOp{}, ops[:cut]...)
			w.kv = nkv
			w.firedBefore = 0
			w.faulted = true
			res.Fault("crash-restart")
			res.Reboots++
			w.open(fmt.Sprintf("op %d crash losing %d write units", i, len(ops)-cut))
		case "clock":
			w.clock.Run(time.Duration(op.Frac) * periodDur / 8)
			res.SimTimeNS += int64(time.Duration(op.Frac) * periodDur / 8)
		case "failwrite":
			if w.kv.FailWriteAt == nil {
				w.kv.FailWriteAt = map[int]error{}
			}
			w.kv.FailWriteAt[int(w.kv.Writes.Load()+w.kv.Fired.Load())+op.K] = simdisk.ErrIO
		case "checkpoint":
			// a later trusted checkpoint of the same (genuine) chain
			if w.comm[op.Period] == nil {
				continue
			}
			err := w.chain.CheckpointInit(*w.checkpoint(op.Period))
			w.log = w.log.String(fmt.Sprint(err))
			res.Probe("checkpoint-init")
			if w.kv.Fired.Load() > w.firedBefore {
				w.faulted = true
			}
			w.firedBefore = w.kv.Fired.Load()
			w.check(fmt.Sprintf("op %d checkpoint(period offset %d)", i, op.Period))
		}
	}
	if w.viol == nil && !w.faulted {
		w.liveness() // bounded liveness is only required of fault-free runs
	}
	for k, n := range map[string]int64{"kv-write-error": w.kv.Fired.Load()} {
		if n > 0 {
			res.Faults[k] += int(n)
		}
	}
	checkResources()
	res.LogHash = uint64(w.log)
	res.StateFP = uint64(w.log)
	res.NonTrivial = len(res.Faults) > 0
	if w.viol != nil {
		res.Fail(w.viol)
	}
	return res
}

// liveness: faults stop, the node restarts, time passes; handing over the genuine
// updates in order must make the chain span all periods.
func (w *world53) liveness() {
	w.kv.FailWriteAt = nil
	periodDur := time.Duration(params.SyncPeriodLength) * 12 * time.Second
	target := time.Duration(w.absPeriod(w.p.Periods+2)) * periodDur
	if d := target - time.Duration(w.clock.Now()); d > 0 {
		w.clock.Run(d)
	}
	w.open("final restart")
	if w.viol != nil {
		return
	}
	if _, ok := w.chain.NextSyncPeriod(); !ok {
		w.res.Probe("chain-reset-needs-checkpoint")
		if err := w.chain.CheckpointInit(*w.checkpoint(0)); err != nil {
			w.fail(simcore.Violf("liveness-checkpoint", "after faults stopped the chain does not accept the trusted checkpoint: %v", err))
			return
		}
	}
	st := w.chain.VerifState()
	first := int(st.CommitteeRange[0]) - w.p.P0 - 1
	if nsp, _ := w.chain.NextSyncPeriod(); int(nsp)-w.p.P0-1 < first {
		first = int(nsp) - w.p.P0 - 1
	}
	for off := max(first, 0); off < w.p.Periods; off++ {
		u := w.makeUpdate(off, 4000, w.comm[off], w.root[off+1], 512, true, w.p.Seed+uint64(off))
		if err := u.Validate(); err != nil {
			simcore.Harnessf("liveness update invalid: %v", err)
		}
		if err := w.chain.InsertUpdate(u, w.comm[off+1]); err != nil {
			if errors.Is(err, light.ErrInvalidPeriod) {
				continue // not adjacent to what the chain holds; the span check below decides
			}
			w.fail(simcore.Violf("liveness-update-rejected", "after faults stopped, the best genuine update for period offset %d was rejected: %v (committees %v, updates %v)", off, err, w.chain.VerifState().CommitteeRange, w.chain.VerifState().UpdateRange))
			return
		}
	}
	w.check("liveness phase")
	if w.viol != nil {
		return
	}
	st = w.chain.VerifState()
	if want := w.absPeriod(w.p.Periods) + 1; st.CommitteeRange[1] < want {
		w.fail(simcore.Violf("liveness-span", "after all genuine updates were delivered the chain holds committees [%d,%d), expected up to %d", st.CommitteeRange[0], st.CommitteeRange[1], want))
		return
	}
	for off := max(int(st.CommitteeRange[0])-w.p.P0-1, 0); off <= w.p.Periods; off++ {
		h := types.Header{Slot: types.SyncPeriodStart(w.absPeriod(off)) + 9, StateRoot: common.BytesToHash(seedBytes(w.p.Seed, "lv", 32))}
		sh := w.sign(w.comm[off], h, h.Slot+1, 512, 1)
		if ok, err := w.head.VerifValidate(sh, types.SignedHeader{}); !ok {
			w.fail(simcore.Violf("liveness-header", "fully signed header of period offset %d rejected after sync: %v", off, err))
			return
		}
	}
	w.res.Probe("liveness-chain-spans-all-periods")
}
