// Package netsim holds the network-side checks: C44 (RLPx transport over a simulated
// byte stream), C45 (discv5 wire codec and node records over a simulated packet
// channel), C46 (discovery node table with simulated transport and clock) and C53
// (beacon light client committee chain against honest and forging update sources).
package netsim

import (
	"verifsim/simcore"
)

func Checks() map[string]*simcore.Check {
	return map[string]*simcore.Check{
		"C44": {
			ID: "C44", Engine: "netsim", Level: "exploration",
			Rule: "plan = two static keys, crypto seed, snappy on/off, 0-30 messages per direction (codes 0..2^64-1, sizes 0..70000 with padding boundaries, rarely the 2^24-1 limit and limit+1), per-direction fragmentation mode (all available / 1 byte / tape-chosen), write window, 0-2 stream faults (xor, ephemeral-key replacement, inject, replay, dup, drop, truncate, stall) addressed as (direction, write unit, region, position), or a hand-written peer whose handshake carries an invalid curve point; every conn.Write, message read, blocking read and wake-up is a gate released by the tape. Non-trivial = a fault fired or the scheduler had a real choice at >=2 steps; distinct = distinct (schedule, wire bytes, per-endpoint outcome) fingerprints.",
			Assumptions: []string{
				"crypto/rand is replaced by testing/cryptotest.SetGlobalRandom and the global math/rand is re-seeded per run (EIP-8 padding), so wire bytes are a function of the plan",
				"a random modification is detected by a 16/32-byte MAC: a run in which a modified frame verifies by chance (2^-128) would be reported as a violation",
				"read deadlines are applied per message by the harness the way p2p/transport.go does (30 s per frame, 5 s handshake)",
			},
			Components: simcore.Components{Real: []string{"p2p/rlpx.Conn (Handshake, Read, Write, SetSnappy, deadlines)", "p2p/rlpx read/write buffers", "crypto/ecies", "crypto/secp256k1", "golang/snappy"},
				Stub: []string{"net.Conn (SimConn: fragmentation, tampering, stalls, windows, virtual-clock deadlines)", "message producers/consumers (harness actors)", "hand-written malicious handshake peer"}},
			Runs: map[string]int{"quick": 16000, "thorough": 600000},
			Gen:  Gen44, Decode: Decode44, Run: Run44, Shrink: Shrink44,
			ProbeNames: []string{"handshake-ok", "all-delivered", "error-at-fault", "short-reads", "handshake-failed-after-fault", "forged-peer-1", "forged-peer-2", "forged-peer-control-accepted", "stall-timeout-observed"},
		},
	}
}
