// Package netsim holds the network-side checks: C44 (RLPx transport over a simulated
// byte stream), C45 (discv5 wire codec and node records over a simulated packet
// channel), C46 (discovery node table with simulated transport and clock) and C53
// (beacon light client committee chain against honest and forging update sources).
package netsim

import (
	"fmt"
	"runtime"
	"runtime/debug"
	"strings"
	"testing"

	"verifsim/simcore"
	"verifsim/simsched"
)

// checkResources turns a resource pile-up of the harness (goroutines left behind by
// runs) into harness trouble (exit 2) long before the runtime gives up.
var runsDone int

func checkResources() {
	runsDone++
	if trace && runsDone%10000 == 0 {
		var ms runtime.MemStats
		runtime.ReadMemStats(&ms)
		fmt.Printf("netsim: %d runs, %d goroutines, heap %d MiB, sys %d MiB\n", runsDone, runtime.NumGoroutine(), ms.HeapAlloc>>20, ms.Sys>>20)
	}
	if g := runtime.NumGoroutine(); g > 300 {
		simcore.Harnessf("netsim: %d goroutines alive after a run: the harness leaks per-run resources", g)
	}
}

// runBubble runs f in a synctest bubble. A panic on the bubble's main goroutine is
// carried out of the bubble: harness trouble is re-raised as such, anything else
// (the code under test panicked) becomes a violation of class "panic".
func runBubble(t *testing.T, f func()) (deadlock string, v *simcore.Violation) {
	var pv any
	var stack string
	deadlock = simsched.Bubble(t, func() {
		defer func() {
			if r := recover(); r != nil {
				pv, stack = r, string(debug.Stack())
			}
		}()
		f()
	})
	checkResources()
	if pv == nil {
		return deadlock, nil
	}
	if hp, ok := pv.(simcore.HarnessPanic); ok {
		panic(hp)
	}
	site := "unknown"
	seen := false
	for _, l := range strings.Split(stack, "\n") {
		if strings.HasPrefix(l, "panic(") {
			seen = true
			continue
		}
		if seen && strings.Contains(l, "go-ethereum") && !strings.HasPrefix(l, "\t") {
			site = l
			if i := strings.LastIndex(l, "("); i > 0 {
				site = l[:i]
			}
			break
		}
	}
	lines := strings.Split(stack, "\n")
	if len(lines) > 40 {
		lines = lines[:40]
	}
	return "", &simcore.Violation{Oracle: "panic", Key: "panic:" + site, Msg: fmt.Sprintf("%v\n%s", pv, strings.Join(lines, "\n"))}
}

func Checks() map[string]*simcore.Check {
	return map[string]*simcore.Check{
		"C44": {
			ID: "C44", Engine: "netsim", Level: "exploration",
			Rule: "plan = two static keys, crypto seed, snappy on/off, 0-30 messages per direction (codes 0..2^64-1, sizes 0..70000 with padding boundaries, rarely the 2^24-1 limit and limit+1), per-direction fragmentation mode (all available / 1 byte / tape-chosen), write window, reader holding the returned payload slice uncopied across the endpoint's next Write, 0-2 stream faults (xor, ephemeral-key replacement, inject, replay, dup, drop, truncate, stall) addressed as (direction, write unit, region, position), or a hand-written peer whose handshake carries an invalid curve point; every conn.Write, message read, blocking read and wake-up is a gate released by the tape. Non-trivial = a fault fired or the scheduler had a real choice at >=2 steps; distinct = distinct (schedule, wire bytes, per-endpoint outcome) fingerprints.",
			Assumptions: []string{
				"crypto/rand is replaced by testing/cryptotest.SetGlobalRandom and the global math/rand is re-seeded per run (EIP-8 padding), so wire bytes are a function of the plan",
				"a random modification is detected by a 16/32-byte MAC: a run in which a modified frame verifies by chance (2^-128) would be reported as a violation",
				"read deadlines are applied per message by the harness the way p2p/transport.go does (30 s per frame, 5 s handshake)",
			},
			Components: simcore.Components{Real: []string{"p2p/rlpx.Conn (Handshake, Read, Write, SetSnappy, deadlines)", "p2p/rlpx read/write buffers", "crypto/ecies", "crypto/secp256k1", "golang/snappy"},
				Stub: []string{"net.Conn (SimConn: fragmentation, tampering, stalls, windows, virtual-clock deadlines)", "message producers/consumers (harness actors)", "hand-written malicious handshake peer"}},
			Runs: map[string]int{"quick": 16000, "thorough": 600000},
			Gen:  Gen44, Decode: Decode44, Run: Run44, Shrink: Shrink44,
			ProbeNames: []string{"handshake-ok", "all-delivered", "error-at-fault", "short-reads", "handshake-failed-after-fault", "forged-peer-1", "forged-peer-2", "forged-peer-control-accepted", "stall-timeout-observed", "payload-held-across-write"},
		},
		"C46": {
			ID: "C46", Engine: "netsim", Level: "exploration",
			Rule: "plan = local id, 8-70 pool nodes at 1-4 chosen log distances (incl. <=239 and the local id itself) with addresses from 1-5 /24 subnets (IPv4, IPv6, LAN), ping interval, 20-220 operations: add found / inbound node, deliver an updated record (sequence and/or endpoint), delete, advance the clock (50 ms .. 31 s), answer the k-th outstanding revalidation ping (pong, timeout, higher sequence with fetched record or failed fetch), report a findnode result (failure counter, found nodes), refresh, findnodeByID with random targets / sizes / liveness preference. One stimulus at a time, bubble quiescent before the next. Non-trivial = a bucket filled up, an address was refused by a limit, a dead node was removed or a planned transport fault fired; distinct = distinct hashes of the table content after every operation.",
			Assumptions: []string{
				"LAN classification in the reference is restricted to the three private ranges the generator uses (10/8, 192.168/16, 172.20/16)",
				"the table's random choices (which node to revalidate, which replacement to promote, revalidation schedule) come from its own PRNG seeded through the deterministic crypto/rand; the oracle accepts any choice",
				"refresh timer and re-seed ticker (bubble time) never fire because the harness never lets bubble time pass; refresh is exercised as an explicit operation",
			},
			Components: simcore.Components{Real: []string{"p2p/discover.Table incl. loop goroutine, tableRevalidation, bucket / replacement / IP-limit handling, findnodeByID", "p2p/netutil.DistinctNetSet", "p2p/enode.DB (memory)"},
				Stub: []string{"transport (ping, RequestENR, lookups: planned outcomes)", "clock (mclock.Simulated)", "node records (null identity scheme)"}},
			Runs: map[string]int{"quick": 6000, "thorough": 300000},
			Gen:  Gen46, Decode: Decode46, Run: Run46, Shrink: Shrink46,
			ProbeNames: []string{"added-to-bucket", "bucket-full", "refused-by-ip-limit", "replacement-refused-by-ip-limit", "dead-node-removed", "replacement-promoted", "failed-check-kept", "revalidated-live", "endpoint-changed", "record-updated", "findnode-compared", "findnode-live-only", "findnode-truncated", "refresh", "add-existing"},
		},
		"C53": {
			ID: "C53", Engine: "netsim", Level: "exploration",
			Rule: "plan = chain seed, update version (old / electra state indices), checkpoint period, 2-12 periods, signer threshold (1..342), time enforcement on/off, clock position, 10-80 operations: deliver an update (genuine with chosen slot / signer count around the threshold / finality, or one of 12 forgeries incl. period mix-ups (signature slot / signer / header of a neighbouring period); next committee genuine / missing / fake / of another period; any period order, repeats), check a signed header (genuine / other period's / forger's committee, signer count around the threshold, tampered slot / state root / signer bits / signature, signature slot across the period boundary), restart on the same disk, crash losing the last 1-4 write units, clock advance, fail the k-th next KV write, a later genuine checkpoint; then faults stop and all genuine updates are delivered in order. Non-trivial = at least one forgery, fault or rejection class fired; distinct = distinct hashes of (verdicts, held ranges after every step).",
			Assumptions: []string{
				"the dummy signature scheme of beacon/light/test_helpers.go stands in for BLS; the forging server never signs with the genuine committee of the period an update or header belongs to (in the dummy scheme the committee's first 32 bytes act as its private key); in the period mix-up forgeries it does hold signatures of a genuine committee of ANOTHER period",
				"the genuine chain has exactly one committee per period (no genuine reorgs across period boundaries)",
				"updates pass LightClientUpdate.Validate before InsertUpdate, as in beacon/light/api; signed headers are checked through HeadTracker.validate (the exported entry points additionally verify an execution payload proof that is out of scope)",
				"thresholds above the 2/3 supermajority (342) are not drawn: a finalized update outranks the minimum score regardless of the configured count",
			},
			Components: simcore.Components{Real: []string{"beacon/light.CommitteeChain (InsertUpdate, CheckpointInit, rollback, reload from disk)", "beacon/light.HeadTracker.validate", "beacon/light canonicalStore", "beacon/types LightClientUpdate.Validate / BootstrapData.Validate / UpdateScore", "beacon/merkle.VerifyProof", "beacon/params fork signing roots"},
				Stub: []string{"disk (simdisk.SimKV over memorydb: write errors, crash images)", "clock (mclock.Simulated)", "signature scheme (tree's own dummy verifier)", "beacon chain and update servers (honest model, forger)"}},
			Runs: map[string]int{"quick": 12000, "thorough": 500000},
			Gen:  Gen53, Decode: Decode53, Run: Run53, Shrink: Shrink53,
			ProbeNames: []string{"update-accepted", "update-rejected-by-validate", "update-at-exact-threshold-accepted", "header-accepted", "header-at-exact-threshold-accepted", "checkpoint-init", "liveness-chain-spans-all-periods", "chain-reset-needs-checkpoint"},
		},
		"C45": {
			ID: "C45", Engine: "netsim", Level: "exploration",
			Rule: "plan = 2-3 node keys, crypto seed, 8-60 operations: send / exchange (send + clean delivery chain) of any of the six message types, deliver an in-flight packet (ok, duplicate, drop, flip a byte in a chosen region, cut, extend, deliver to another node, deliver from another address), replay any earlier packet, reset a node's codec (sessions and challenges lost), advance the shared clock (7 ms .. 5 s), bump a node's record, put off the handshake reply to a WHOAREYOU until the node has decoded another datagram, answer a challenge with a hand-written handshake packet carrying a record with a chosen defect, impersonate a made-up identity from a real node's address, differential probes of record decoding with chosen mutations; then faults stop and one PING per direction must get through. Non-trivial = at least one fault kind fired; distinct = distinct hashes of (all wire packets, all decode verdicts).",
			Assumptions: []string{
				"the harness plays the part of UDPv5 around the codec (call table keyed by nonce, one handshake per call, WHOAREYOU repeated while a challenge is outstanding, calls time out after 700 ms); matching a WHOAREYOU to a sent packet is therefore harness code, not code under test",
				"in-session duplicates are legal in discv5 (no replay window inside a session): the oracle requires them to decode to the same message",
				"a session id model (who holds the keys of which handshake) predicts decodability; it is cross-checked against Codec.SessionNode and stops the run with exit 2 on drift",
			},
			Components: simcore.Components{Real: []string{"p2p/discover/v5wire.Codec (Encode, Decode, SessionCache, handshake, key derivation, AES-GCM, masking)", "p2p/enode.LocalNode / enode.New / V4ID", "p2p/enr.Record decoding", "rlp"},
				Stub: []string{"UDP socket and UDPv5 call handling (harness)", "clock (mclock.Simulated)", "hand-written handshake sender (independent implementation of the wire spec)", "reference record validator"}},
			Runs: map[string]int{"quick": 40000, "thorough": 1500000},
			Gen:  Gen45, Decode: Decode45, Run: Run45, Shrink: Shrink45,
			ProbeNames: []string{"handshake-accepted", "handshake-record-accepted", "in-session-decode", "in-session-duplicate-decoded", "challenge-repeated", "challenge-without-call", "forged-valid-handshake-accepted", "liveness-ping-delivered", "deferred-handshake-sent", "fresh-identity-handshake-accepted", "record-accepted", "record-probe-size300", "record-probe-size301"},
		},
	}
}
