package netsim

// Reference treatment of node records (EIP-778) for C45: an independent builder /
// signer / validator on top of the rlp primitives and secp256k1, used (a) to judge
// every record a codec accepts in a handshake, (b) to hand-write records with chosen
// defects, (c) for differential probes of enr.Record decoding.

import (
	"bytes"
	"crypto/ecdsa"
	"encoding/hex"
	"errors"
	"fmt"
	"sort"

	"github.com/ethereum/go-ethereum/crypto"
	"github.com/ethereum/go-ethereum/p2p/enode"
	"github.com/ethereum/go-ethereum/p2p/enr"
	"github.com/ethereum/go-ethereum/rlp"

	"verifsim/simcore"
)

const recordSizeLimit = 300

type refPair struct {
	k string
	v []byte // RLP encoding of the value
}

func rlpString(b []byte) []byte {
	out, _ := rlp.EncodeToBytes(b)
	return out
}

func rlpListOf(content []byte) []byte {
	// header for a list with the given payload
	n := len(content)
	if n < 56 {
		return append([]byte{0xc0 + byte(n)}, content...)
	}
	var lb []byte
	for x := n; x > 0; x >>= 8 {
		lb = append([]byte{byte(x)}, lb...)
	}
	return append(append([]byte{0xf7 + byte(len(lb))}, lb...), content...)
}

func rlpUint(v uint64) []byte {
	out, _ := rlp.EncodeToBytes(v)
	return out
}

// refEncodeContent returns RLP(seq) || k1 v1 k2 v2 ... in the given order.
func refEncodeContent(seqEnc []byte, pairs []refPair) []byte {
	out := append([]byte{}, seqEnc...)
	for _, p := range pairs {
		out = append(out, rlpString([]byte(p.k))...)
		out = append(out, p.v...)
	}
	return out
}

// refSignRecord produces the full record encoding, signing the content as it stands
// (whether or not it is well-formed).
func refSignRecord(key *ecdsa.PrivateKey, seqEnc []byte, pairs []refPair) []byte {
	content := refEncodeContent(seqEnc, pairs)
	sig, err := crypto.Sign(crypto.Keccak256(rlpListOf(content)), key)
	if err != nil {
		simcore.Harnessf("record sign: %v", err)
	}
	return rlpListOf(append(rlpString(sig[:64]), content...))
}

// refRecordSize is the encoded size of the signed record (the signature is always 64 bytes).
func refRecordSize(seqEnc []byte, pairs []refPair) int {
	return len(rlpListOf(append(rlpString(make([]byte, 64)), refEncodeContent(seqEnc, pairs)...)))
}

func basePairs(key *ecdsa.PrivateKey, extra []refPair) []refPair {
	pairs := []refPair{
		{"id", rlpString([]byte("v4"))},
		{"secp256k1", rlpString(crypto.CompressPubkey(&key.PublicKey))},
	}
	pairs = append(pairs, extra...)
	sort.SliceStable(pairs, func(i, j int) bool { return pairs[i].k < pairs[j].k })
	return pairs
}

// padTo adds one or two padding entries so that the signed record is exactly size
// bytes; ok=false if that size cannot be hit.
func padTo(key *ecdsa.PrivateKey, seqEnc []byte, pairs []refPair, size int) ([]refPair, bool) {
	for _, p := range pairs {
		if p.k == "pad" || p.k == "pae" {
			return nil, false
		}
	}
	build := func(n int, two bool) []refPair {
		try := append([]refPair{}, pairs...)
		if two {
			try = append(try, refPair{"pae", rlpString([]byte{1})})
		}
		try = append(try, refPair{"pad", rlpString(bytes.Repeat([]byte{0x5a}, n))})
		sort.SliceStable(try, func(i, j int) bool { return try[i].k < try[j].k })
		return try
	}
	for _, two := range []bool{false, true} {
		for n := 0; n < 400; n++ {
			try := build(n, two)
			if l := refRecordSize(seqEnc, try); l == size {
				return try, true
			} else if l > size {
				break
			}
		}
	}
	return nil, false
}

var (
	errRefSize     = errors.New("bigger than 300 bytes")
	errRefUnsorted = errors.New("keys not sorted or not unique")
	errRefSig      = errors.New("signature does not verify")
)

type refRecord struct {
	sig    []byte
	seq    uint64
	pairs  []refPair
	signed []byte // list encoding of the content, the signing input
}

// refParseRecord parses the encoding of a record strictly.
func refParseRecord(b []byte) (*refRecord, error) {
	if len(b) > recordSizeLimit {
		return nil, errRefSize
	}
	content, rest, err := rlp.SplitList(b)
	if err != nil {
		return nil, fmt.Errorf("not a list: %v", err)
	}
	if len(rest) != 0 {
		return nil, errors.New("trailing bytes")
	}
	if !bytes.Equal(rlpListOf(content), b) {
		return nil, errors.New("non-canonical list header")
	}
	kind, sig, tail, err := rlp.Split(content)
	if err != nil || kind == rlp.List {
		return nil, fmt.Errorf("bad signature element: %v", err)
	}
	r := &refRecord{sig: sig, signed: rlpListOf(tail)}
	kind, seqb, tail2, err := rlp.Split(tail)
	if err != nil || kind == rlp.List || len(seqb) > 8 {
		return nil, fmt.Errorf("bad seq element: %v", err)
	}
	if len(seqb) > 0 && seqb[0] == 0 {
		return nil, errors.New("seq with leading zero")
	}
	for _, c := range seqb {
		r.seq = r.seq<<8 | uint64(c)
	}
	if !bytes.Equal(rlpUint(r.seq), tail[:len(tail)-len(tail2)]) {
		return nil, errors.New("non-canonical seq")
	}
	tail = tail2
	for len(tail) > 0 {
		kind, k, t2, err := rlp.Split(tail)
		if err != nil || kind == rlp.List {
			return nil, fmt.Errorf("bad key: %v", err)
		}
		if !bytes.Equal(rlpString(k), tail[:len(tail)-len(t2)]) {
			return nil, errors.New("non-canonical key")
		}
		if len(t2) == 0 {
			return nil, errors.New("key without value")
		}
		_, _, t3, err := rlp.Split(t2)
		if err != nil {
			return nil, fmt.Errorf("bad value: %v", err)
		}
		v := t2[:len(t2)-len(t3)]
		if n := len(r.pairs); n > 0 && string(k) <= r.pairs[n-1].k {
			return nil, errRefUnsorted
		}
		r.pairs = append(r.pairs, refPair{string(k), v})
		tail = t3
	}
	return r, nil
}

func (r *refRecord) get(k string) []byte {
	for _, p := range r.pairs {
		if p.k == k {
			return p.v
		}
	}
	return nil
}

// refCheckRecord says whether b is a valid "v4" record: well-formed, within the
// limit, sorted unique keys, signature verifies.
func refCheckRecord(b []byte) error {
	r, err := refParseRecord(b)
	if err != nil {
		return err
	}
	if !bytes.Equal(r.get("id"), rlpString([]byte("v4"))) {
		return errors.New("identity scheme is not v4")
	}
	kind, pub, rest, err := rlp.Split(r.get("secp256k1"))
	if err != nil || kind == rlp.List || len(rest) != 0 || len(pub) != 33 {
		return errors.New("no 33-byte secp256k1 entry")
	}
	if _, err := crypto.DecompressPubkey(pub); err != nil {
		return errors.New("secp256k1 entry is not a curve point")
	}
	if len(r.sig) != 64 || !crypto.VerifySignature(pub, crypto.Keccak256(r.signed), r.sig) {
		return errRefSig
	}
	return nil
}

func refRecordID(b []byte) (id enode.ID, err error) {
	r, err := refParseRecord(b)
	if err != nil {
		return id, err
	}
	_, pub, _, err := rlp.Split(r.get("secp256k1"))
	if err != nil {
		return id, err
	}
	k, err := crypto.DecompressPubkey(pub)
	if err != nil {
		return id, err
	}
	copy(id[:], crypto.Keccak256(crypto.FromECDSAPub(k)[1:]))
	return id, nil
}

func refRecordSeq(b []byte) uint64 {
	content, _, err := rlp.SplitList(b)
	if err != nil {
		return 0
	}
	_, _, tail, err := rlp.Split(content)
	if err != nil {
		return 0
	}
	_, seqb, _, err := rlp.Split(tail)
	if err != nil {
		return 0
	}
	var s uint64
	for _, c := range seqb {
		s = s<<8 | uint64(c)
	}
	return s
}

// forgeRecord builds the record a hand-written handshake carries.
func forgeRecord(src *node45, kind string, w *world45) []byte {
	w.bumpN++
	seq := src.ln.Node().Seq() + 1000 + uint64(w.bumpN)
	seqEnc := rlpUint(seq)
	extra := []refPair{{"ip", rlpString([]byte{198, 51, 100, byte(10 + src.idx)})}, {"udp", rlpUint(30303)}}
	pairs := basePairs(src.key, extra)
	switch kind {
	case "valid":
		return refSignRecord(src.key, seqEnc, pairs)
	case "valid-300", "oversize-301":
		size := recordSizeLimit
		if kind == "oversize-301" {
			size++
		}
		padded, ok := padTo(src.key, seqEnc, pairs, size)
		if !ok {
			simcore.Harnessf("cannot pad the forged record to %d bytes", size)
		}
		return refSignRecord(src.key, seqEnc, padded)
	case "unsorted":
		pairs[0], pairs[1] = pairs[1], pairs[0]
		return refSignRecord(src.key, seqEnc, pairs)
	case "dupkey":
		pairs = append(pairs[:2:2], append([]refPair{pairs[1]}, pairs[2:]...)...)
		return refSignRecord(src.key, seqEnc, pairs)
	case "badsig":
		b := refSignRecord(src.key, seqEnc, pairs)
		b[10] ^= 0x04 // inside the signature string
		return b
	case "wrongid":
		other := w.nodes[(src.idx+1)%len(w.nodes)].key
		return refSignRecord(other, seqEnc, basePairs(other, extra))
	case "truncated":
		b := refSignRecord(src.key, seqEnc, pairs)
		return b[:len(b)-1]
	case "seq-leading-zero":
		return refSignRecord(src.key, append([]byte{0x80 + 3, 0x00}, seqEnc[len(seqEnc)-2:]...), pairs)
	}
	simcore.Harnessf("unknown forge kind %q", kind)
	return nil
}

// ---- differential probes of record decoding

type Probe45 struct {
	Key  string   `json:"key"`
	Seq  uint64   `json:"seq"`
	Keys []string `json:"keys"`
	Vals []string `json:"vals"` // hex payloads (encoded as RLP strings)
	Mut  string   `json:"mut"`  // none | swap | dup | size300 | size301 | flipsig | flipbody | trunc | trail | leadzero | listval | wrongkey
	Pos  int      `json:"pos"`
	Mask byte     `json:"mask"`
}

var probeMuts = []string{"none", "none", "swap", "dup", "size300", "size301", "flipsig", "flipbody", "trunc", "trail", "leadzero", "listval", "wrongkey"}

func genProbe45(r *simcore.Rand) *Probe45 {
	p := &Probe45{Key: genKeyHex(r), Seq: r.Uint64() >> uint(r.Intn(64)), Mut: probeMuts[r.Intn(len(probeMuts))], Pos: r.Intn(1 << 16), Mask: byte(1) << uint(r.Intn(8))}
	n := r.Intn(6)
	total := 0
	for i := 0; i < n; i++ {
		k := []string{"ip", "udp", "tcp", "ip6", "eth", "a", "zzz", "id2", "secp256k0", "secp256k2", "i"}[r.Intn(11)]
		if r.Bool(0.3) {
			k = string(r.Bytes(4)[:1+r.Intn(4)])
		}
		l := []int{0, 1, 2, 4, 16, 33, 60}[r.Intn(7)]
		if total+l > 120 {
			l = 1
		}
		total += l + len(k) + 2
		p.Keys = append(p.Keys, hex.EncodeToString([]byte(k)))
		p.Vals = append(p.Vals, hex.EncodeToString(r.Bytes(l)))
	}
	return p
}

func runProbe45(p *Probe45, res *simcore.Result) *simcore.Violation {
	key, err := crypto.ToECDSA(unhex(p.Key))
	if err != nil {
		simcore.Harnessf("probe key")
	}
	seen := map[string]bool{"id": true, "secp256k1": true}
	var extra []refPair
	for i, kh := range p.Keys {
		k := string(unhex(kh))
		if seen[k] {
			continue
		}
		seen[k] = true
		extra = append(extra, refPair{k, rlpString(unhex(p.Vals[i]))})
	}
	pairs := basePairs(key, extra)
	seqEnc := rlpUint(p.Seq)
	signer := key
	wantValid := true
	switch p.Mut {
	case "swap":
		i := p.Pos % (len(pairs) - 1)
		pairs[i], pairs[i+1] = pairs[i+1], pairs[i]
		wantValid = false
	case "dup":
		i := p.Pos % len(pairs)
		pairs = append(pairs[:i+1:i+1], pairs[i:]...)
		wantValid = false
	case "size300", "size301":
		size := recordSizeLimit
		if p.Mut == "size301" {
			size++
		}
		if padded, ok := padTo(key, seqEnc, pairs, size); ok {
			pairs = padded
			wantValid = p.Mut == "size300"
		}
	case "leadzero":
		if p.Seq == 0 {
			seqEnc = []byte{0x00}
		} else {
			raw := seqEnc
			if raw[0] >= 0x80 {
				raw = raw[1:]
			}
			seqEnc = append([]byte{0x80 + byte(len(raw)+1), 0x00}, raw...)
		}
		wantValid = false
	case "listval":
		// a value may be any RLP item, also a list
		if !seen["lst"] {
			pairs = append(pairs, refPair{"lst", rlpListOf(append(rlpUint(1), rlpString([]byte("x"))...))})
			sort.SliceStable(pairs, func(i, j int) bool { return pairs[i].k < pairs[j].k })
		}
	case "wrongkey":
		k2, _ := crypto.ToECDSA(crypto.Keccak256(unhex(p.Key)))
		signer = k2 // signed by a key that is not the one in the record
		wantValid = false
	}
	b := refSignRecord(signer, seqEnc, pairs)
	switch p.Mut {
	case "flipsig":
		b[3+p.Pos%64] ^= p.Mask | 1
		wantValid = false
	case "flipbody":
		off := 3 + 64
		b[off+p.Pos%(len(b)-off)] ^= p.Mask | 1
		wantValid = false
	case "trunc":
		b = b[:len(b)-1-p.Pos%8]
		wantValid = false
	case "trail":
		b = append(b, byte(p.Pos))
		wantValid = false
	}
	refErr := refCheckRecord(b)
	// the construction above and the reference validator must agree, otherwise the
	// harness is wrong (only for the mutations whose effect is certain)
	if p.Mut != "flipbody" && p.Mut != "flipsig" && (refErr == nil) != wantValid {
		simcore.Harnessf("record probe %s: reference validator says %v for a record constructed valid=%v (%x)", p.Mut, refErr, wantValid, b)
	}
	var rec enr.Record
	decErr := rlp.DecodeBytes(b, &rec)
	var node *enode.Node
	if decErr == nil {
		node, decErr = enode.New(enode.ValidSchemes, &rec)
	}
	res.Probe("record-probe-" + p.Mut)
	if decErr == nil {
		if refErr != nil {
			return simcore.Violf("invalid-record-decoded", "record (%s) accepted by enr/enode although: %v (%x)", p.Mut, refErr, b)
		}
		re, err := rlp.EncodeToBytes(&rec)
		if err != nil || !bytes.Equal(re, b) {
			return simcore.Violf("record-not-canonical", "accepted record re-encodes to different bytes (%s): %x vs %x", p.Mut, re, b)
		}
		if id, _ := refRecordID(b); id != node.ID() || rec.Seq() != refRecordSeq(b) {
			return simcore.Violf("record-fields", "accepted record has id/seq different from the reference parse (%s)", p.Mut)
		}
		res.Probe("record-accepted")
	} else {
		if refErr == nil {
			return simcore.Violf("valid-record-rejected", "well-formed signed record (%s, %d bytes) rejected: %v (%x)", p.Mut, len(b), decErr, b)
		}
		res.Fault("record-defect-" + p.Mut)
	}
	return nil
}
