package netsim

import (
	"errors"
	"io"
	"net"
	"os"
	"sync"
	"time"

	"verifsim/simcore"
	"verifsim/simsched"
)

// SimConn is the byte-stream seam of C44: a pair of net.Conn endpoints joined by two
// simulator-owned one-directional wires. The wire applies the plan's faults to the
// stream (at planned offsets inside planned write units), hands the reader
// plan-chosen fragments (down to one byte per Read), and implements deadlines on the
// bubble's virtual clock. Inside a gate-scheduled run exactly one actor runs at a
// time, so everything a reader observes is a function of the plan.

// unitRec is one Write call of the endpoint that owns the wire's sending side.
type unitRec struct {
	OrigStart, OrigEnd int // offsets in the stream as written
	WireStart, WireEnd int // offsets in the stream as delivered
	orig               []byte
}

type wireFault struct {
	Kind    string // xor | ephkey | inject | replay | dup | drop | trunc | stall
	Unit    int    // index of the write unit in this direction
	Region  int    // unit region selector (resolved by regionBounds)
	Pos     int    // position inside the region (mod its length)
	Mask    byte
	N       int           // inject: number of bytes; replay: source unit (mod Unit)
	Variant int           // ephkey: which invalid point
	Dur     time.Duration // stall
	Bytes   []byte        // inject: the bytes (drawn in Gen)
}

type wire struct {
	name   string
	mu     sync.Mutex
	sched  *simsched.Sched
	data   []byte // stream as delivered
	origN  int    // bytes written so far
	rpos   int
	units  []unitRec
	faults []wireFault

	capacity   int // 0 = unbounded
	closedW    bool
	closedR    bool
	truncated  bool // a trunc fault cut the stream: EOF after data
	stallOff   int  // wire offset from which bytes are held back (-1 none)
	stallUntil time.Time
	stallDur   time.Duration
	notify     chan struct{}

	origAll       []byte // stream as written
	cmpN          int
	firstDiff     int // first original offset at which delivered != written (-1 none)
	firstDiffWire int // the same position in delivered-stream coordinates
	fired         map[string]int
	applied       map[string]int

	fragMode  int
	fragTape  *simcore.TapeReader
	yieldEach int
	reads     int
	shortRead int
	wireHash  simcore.Hash64
}

func newWire(name string, s *simsched.Sched) *wire {
	return &wire{name: name, sched: s, stallOff: -1, firstDiff: -1, firstDiffWire: -1, notify: make(chan struct{}),
		fired: map[string]int{}, applied: map[string]int{}, wireHash: simcore.NewHash()}
}

// broadcast wakes everybody blocked on the wire. Caller holds mu.
func (w *wire) broadcast() {
	close(w.notify)
	w.notify = make(chan struct{})
}

// compare extends the verified-equal prefix of (stream as written, stream as
// delivered). Several faults can cancel (a dropped unit replayed in place), so the
// divergence point is computed from the bytes, not from the fault list.
func (w *wire) compare() {
	if w.firstDiff >= 0 {
		return
	}
	for w.cmpN < len(w.data) && w.cmpN < len(w.origAll) {
		if w.data[w.cmpN] != w.origAll[w.cmpN] {
			w.firstDiff, w.firstDiffWire = w.cmpN, w.cmpN
			return
		}
		w.cmpN++
	}
}

// finalize is called after the run: a delivered stream that is shorter or longer
// than the written one diverges at the end of the common prefix.
func (w *wire) finalize() {
	w.compare()
	if w.firstDiff < 0 && len(w.data) != len(w.origAll) {
		w.firstDiff, w.firstDiffWire = w.cmpN, w.cmpN
	}
}

var fragSizes = []int{1, 1, 2, 3, 5, 8, 13, 15, 16, 17, 31, 32, 33, 48, 64, 100, 250, 1000, 1 << 30}

// fragment chooses how many of the avail readable bytes one Read returns.
func (w *wire) fragment(avail, want int) int {
	m := min(avail, want)
	n := m
	switch w.fragMode {
	case 1:
		n = 1
	case 2:
		n = fragSizes[w.fragTape.Next(len(fragSizes))]
	}
	if n > m {
		n = m
	}
	// keep huge messages affordable: never cut what is available into more than 16 pieces
	if lo := m / 16; n < lo {
		n = lo
	}
	if n < 1 {
		n = 1
	}
	return n
}

// regionBounds resolves a region selector for a unit: unit 0 of a direction is the
// ECIES handshake packet (size prefix | 0x04 X Y | IV | ciphertext | tag), later units
// are frames (header ct | header MAC | body | body MAC).
func regionBounds(unit int, b []byte, region int) (lo, hi int) {
	n := len(b)
	if unit == 0 {
		if n < 2+65+16+32+1 {
			return 0, n
		}
		switch region % 6 {
		case 0:
			return 0, 2
		case 1:
			return 2, 2 + 65
		case 2:
			return 2 + 65, 2 + 65 + 16
		case 3:
			return 2 + 65 + 16, n - 32
		case 4:
			return n - 32, n
		}
		return 0, n
	}
	if n < 32+16+16 {
		return 0, n
	}
	switch region % 5 {
	case 0:
		return 0, 16
	case 1:
		return 16, 32
	case 2:
		return 32, n - 16
	case 3:
		return n - 16, n
	}
	return 0, n
}

// write appends one unit, applying the faults planned for it.
func (w *wire) write(b []byte) {
	k := len(w.units)
	u := unitRec{OrigStart: w.origN, OrigEnd: w.origN + len(b), WireStart: len(w.data), orig: append([]byte{}, b...)}
	w.origN += len(b)
	out := append([]byte{}, b...)
	pre := []byte(nil)  // inserted before the unit
	post := []byte(nil) // inserted after the unit
	drop := false
	for i := range w.faults {
		f := &w.faults[i]
		if f.Unit != k || w.truncated {
			continue
		}
		lo, hi := regionBounds(k, b, f.Region)
		pos := lo
		if hi > lo {
			pos = lo + f.Pos%(hi-lo)
		}
		switch f.Kind {
		case "xor":
			if len(b) == 0 {
				continue
			}
			m := f.Mask
			if m == 0 {
				m = 1
			}
			out[pos] ^= m
		case "ephkey":
			// replace the ECIES ephemeral public key of a handshake packet
			if k != 0 || len(b) < 2+65 {
				continue
			}
			pt := invalidPoint(f.Variant, b[2+1:2+65], f.Bytes)
			if f.Variant%5 == 4 {
				out[2] = 0x02 | f.Mask&1 | 0x08 // wrong format byte
			} else {
				copy(out[2+1:2+65], pt)
			}
		case "inject":
			if len(f.Bytes) == 0 {
				continue
			}
			ins := pos
			out = append(append(append([]byte{}, out[:ins]...), f.Bytes...), out[ins:]...)
		case "replay":
			if k == 0 {
				continue
			}
			src := w.units[f.N%k]
			pre = append(pre, src.orig...)
		case "dup":
			post = append(post, b...)
		case "drop":
			drop = true
		case "trunc":
			out = out[:min(pos, len(out))]
			post = nil
			w.truncated = true
		case "stall":
			if w.stallOff < 0 {
				w.stallOff = len(w.data) + len(pre) + pos
				w.stallDur = f.Dur
				w.stallUntil = time.Now().Add(f.Dur)
			}
		}
		w.applied[f.Kind]++
	}
	w.data = append(w.data, pre...)
	if !drop {
		w.data = append(w.data, out...)
	}
	w.data = append(w.data, post...)
	u.WireEnd = len(w.data)
	w.units = append(w.units, u)
	w.origAll = append(w.origAll, b...)
	w.compare()
	w.wireHash = w.wireHash.Bytes(b)
}

// invalidPoint returns 64 bytes X||Y that are not a valid public key.
func invalidPoint(variant int, orig []byte, rnd []byte) []byte {
	p := make([]byte, 64)
	switch variant % 5 {
	case 0: // identity encoded as zeros
	case 1: // random coordinates (off curve with overwhelming probability)
		copy(p, rnd)
		p[0] &= 0x7f
		p[63] |= 1
	case 2: // valid X, wrong Y
		copy(p, orig)
		p[63] ^= 0x01
	case 3: // X = field prime (not a field element)
		copy(p, []byte{0xff, 0xff, 0xff, 0xff, 0xff, 0xff, 0xff, 0xff, 0xff, 0xff, 0xff, 0xff, 0xff, 0xff, 0xff, 0xff,
			0xff, 0xff, 0xff, 0xff, 0xff, 0xff, 0xff, 0xff, 0xff, 0xff, 0xff, 0xfe, 0xff, 0xff, 0xfc, 0x2f})
		copy(p[32:], orig[32:])
	default:
		copy(p, orig)
	}
	return p
}

type simAddr string

func (a simAddr) Network() string { return "sim" }
func (a simAddr) String() string  { return string(a) }

// SimConn is one endpoint.
type SimConn struct {
	name   string
	in     *wire // peer -> me
	out    *wire // me -> peer
	mu     sync.Mutex
	rdl    time.Time
	wdl    time.Time
	closed bool
	// readsDone / lateReturn: bounded-liveness probe: a Read that returned after its deadline
	lateReturn time.Duration
}

func NewSimConnPair(s *simsched.Sched, a, b string) (*SimConn, *SimConn, *wire, *wire) {
	ab := newWire(a+">"+b, s)
	ba := newWire(b+">"+a, s)
	return &SimConn{name: a, in: ba, out: ab}, &SimConn{name: b, in: ab, out: ba}, ab, ba
}

var errBrokenPipe = errors.New("simconn: write on a connection whose peer stopped reading")

func (c *SimConn) deadlines() (r, w time.Time, closed bool) {
	c.mu.Lock()
	defer c.mu.Unlock()
	return c.rdl, c.wdl, c.closed
}

func (c *SimConn) Read(p []byte) (int, error) {
	if len(p) == 0 {
		return 0, nil
	}
	w := c.in
	for {
		rdl, _, closed := c.deadlines()
		if closed {
			return 0, net.ErrClosed
		}
		w.mu.Lock()
		limit := len(w.data)
		var stallWait time.Duration
		if w.stallOff >= 0 && limit > w.stallOff {
			if d := time.Until(w.stallUntil); d > 0 {
				limit = w.stallOff
				stallWait = d
			} else {
				if w.rpos <= w.stallOff {
					w.fired["stall-released"]++
				}
				w.stallOff = -1
			}
		}
		if avail := limit - w.rpos; avail > 0 {
			w.reads++
			if w.yieldEach > 0 && w.reads%(w.yieldEach+1) == 0 {
				// let the scheduler interleave the other actors in the middle of a frame
				w.mu.Unlock()
				w.sched.Gate(c.name + ":r:yield")
				continue
			}
			n := w.fragment(avail, len(p))
			if n < min(avail, len(p)) {
				w.shortRead++
			}
			copy(p, w.data[w.rpos:w.rpos+n])
			if w.firstDiffWire >= 0 && w.rpos+n > w.firstDiffWire && w.fired["tampered-bytes-delivered"] == 0 {
				w.fired["tampered-bytes-delivered"]++
			}
			w.rpos += n
			w.broadcast() // room for a blocked writer
			w.mu.Unlock()
			return n, nil
		}
		if (w.closedW || w.truncated) && stallWait == 0 {
			if w.truncated {
				w.fired["eof-after-truncation"]++
			}
			w.mu.Unlock()
			return 0, io.EOF
		}
		ch := w.notify
		w.mu.Unlock()
		// nothing to read: block until data, close, stall release or the deadline
		var dlC, stC <-chan time.Time
		var dlT, stT *time.Timer
		if !rdl.IsZero() {
			d := time.Until(rdl)
			if d <= 0 {
				return 0, os.ErrDeadlineExceeded
			}
			dlT = time.NewTimer(d)
			dlC = dlT.C
		}
		if stallWait > 0 {
			stT = time.NewTimer(stallWait)
			stC = stT.C
		}
		timedOut := false
		select {
		case <-ch:
		case <-stC:
		case <-dlC:
			timedOut = true
		}
		if dlT != nil {
			dlT.Stop()
		}
		if stT != nil {
			stT.Stop()
		}
		// woken by another actor or by the clock: park before touching anything, so that
		// still exactly one actor runs at a time
		w.sched.Gate(c.name + ":r:wake")
		if timedOut {
			if late := time.Since(rdl); late > c.lateReturn {
				c.lateReturn = late
			}
			w.mu.Lock()
			if stallWait > 0 {
				w.fired["stall-beyond-deadline"]++
			}
			w.mu.Unlock()
			return 0, os.ErrDeadlineExceeded
		}
	}
}

func (c *SimConn) Write(b []byte) (int, error) {
	w := c.out
	w.sched.Gate(c.name + ":w")
	for {
		_, wdl, closed := c.deadlines()
		if closed {
			return 0, net.ErrClosed
		}
		w.mu.Lock()
		if w.closedR {
			w.mu.Unlock()
			return 0, errBrokenPipe
		}
		if w.closedW {
			w.mu.Unlock()
			return 0, net.ErrClosed
		}
		if w.capacity == 0 || len(w.data)-w.rpos < w.capacity {
			w.write(b)
			w.broadcast()
			w.mu.Unlock()
			return len(b), nil
		}
		w.fired["writer-blocked-on-window"]++
		ch := w.notify
		w.mu.Unlock()
		var dlC <-chan time.Time
		var dlT *time.Timer
		if !wdl.IsZero() {
			d := time.Until(wdl)
			if d <= 0 {
				return 0, os.ErrDeadlineExceeded
			}
			dlT = time.NewTimer(d)
			dlC = dlT.C
		}
		timedOut := false
		select {
		case <-ch:
		case <-dlC:
			timedOut = true
		}
		if dlT != nil {
			dlT.Stop()
		}
		w.sched.Gate(c.name + ":w:wake")
		if timedOut {
			return 0, os.ErrDeadlineExceeded
		}
	}
}

// CloseWrite half-closes: the peer reads what is buffered, then EOF.
func (c *SimConn) CloseWrite() {
	c.out.mu.Lock()
	c.out.closedW = true
	c.out.broadcast()
	c.out.mu.Unlock()
}

// CloseRead tells the peer's writer that nobody reads any more.
func (c *SimConn) CloseRead() {
	c.in.mu.Lock()
	c.in.closedR = true
	c.in.broadcast()
	c.in.mu.Unlock()
}

func (c *SimConn) Close() error {
	c.mu.Lock()
	if c.closed {
		c.mu.Unlock()
		return net.ErrClosed
	}
	c.closed = true
	c.mu.Unlock()
	c.CloseWrite()
	c.CloseRead()
	return nil
}

func (c *SimConn) LocalAddr() net.Addr  { return simAddr(c.name) }
func (c *SimConn) RemoteAddr() net.Addr { return simAddr("peer-of-" + c.name) }
func (c *SimConn) SetDeadline(t time.Time) error {
	c.mu.Lock()
	c.rdl, c.wdl = t, t
	c.mu.Unlock()
	return nil
}
func (c *SimConn) SetReadDeadline(t time.Time) error {
	c.mu.Lock()
	c.rdl = t
	c.mu.Unlock()
	return nil
}
func (c *SimConn) SetWriteDeadline(t time.Time) error {
	c.mu.Lock()
	c.wdl = t
	c.mu.Unlock()
	return nil
}
