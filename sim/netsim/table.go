package netsim

// C46: the real discover.Table with its loop goroutine and revalidation process. The
// seams are the transport (ping / RequestENR outcomes are planned) and the clock
// (mclock.Simulated). The harness applies one stimulus at a time and waits for the
// bubble to go quiescent, so the table's loop never has two ready select cases and
// the run is a function of the plan. After every operation the bucket, replacement,
// IP-limit and revalidation-list invariants are checked on a white-box snapshot, and
// closest-node queries are compared with a reference XOR-distance sort.

import (
	"bytes"
	"encoding/binary"
	"encoding/json"
	"errors"
	"fmt"
	"math/bits"
	"net"
	"net/netip"
	"sort"
	"strings"
	"sync"
	"testing"
	"testing/cryptotest"
	"testing/synctest"
	"time"

	"github.com/ethereum/go-ethereum/common/mclock"
	"github.com/ethereum/go-ethereum/p2p/discover"
	"github.com/ethereum/go-ethereum/p2p/enode"
	"github.com/ethereum/go-ethereum/p2p/enr"

	"verifsim/simcore"
)

type Node46 struct {
	Dist   int    `json:"dist"` // log distance from the local node (0 = the local id itself)
	IDSeed uint64 `json:"id_seed"`
	IP     string `json:"ip"`
	Port   int    `json:"port"`
	Seq    uint64 `json:"seq"`
}

type Op46 struct {
	Op      string `json:"op"` // found | inbound | update | delete | clock | pong | track | findnode | refresh
	N       int    `json:"n,omitempty"`
	IP      string `json:"ip,omitempty"`
	Port    int    `json:"port,omitempty"`
	SeqAdd  uint64 `json:"seq_add,omitempty"`
	Inbound bool   `json:"inbound,omitempty"`
	MS      int    `json:"ms,omitempty"`
	K       int    `json:"k,omitempty"`
	Outcome string `json:"outcome,omitempty"` // ok | timeout | newseq | newseq-fail
	Found   []int  `json:"found,omitempty"`
	Success bool   `json:"success,omitempty"`
	Target  uint64 `json:"target,omitempty"`
	Count   int    `json:"count,omitempty"`
	Live    bool   `json:"live,omitempty"`
}

type Plan46 struct {
	SelfSeed   uint64   `json:"self_seed"`
	CryptoSeed uint64   `json:"crypto_seed"`
	PingMS     int      `json:"ping_ms"`
	Boot       []int    `json:"boot"`
	Nodes      []Node46 `json:"nodes"`
	Ops        []Op46   `json:"ops"`
}

func genIP46(r *simcore.Rand, subnets []string) string {
	s := subnets[r.Intn(len(subnets))]
	if strings.Contains(s, ":") {
		return fmt.Sprintf("%s::%x", s, 1+r.Intn(4000))
	}
	return fmt.Sprintf("%s.%d", s, 1+r.Intn(250))
}

func Gen46(r *simcore.Rand, tier string) any {
	p := &Plan46{SelfSeed: r.Uint64(), CryptoSeed: r.Uint64(), PingMS: []int{500, 1000, 3000, 10000}[r.Intn(4)]}
	// few subnets so that the per-bucket (2) and table-wide (10) /24 limits are hit
	pub := []string{"23.4.5", "23.4.6", "61.7.7", "8.8.8", "2a00:aa", "2a00:bb"}
	lan := []string{"10.0.3", "192.168.7", "172.20.1"}
	var subnets []string
	for i, n := 0, r.Range(1, 5); i < n; i++ {
		subnets = append(subnets, pub[r.Intn(len(pub))])
	}
	if r.Bool(0.5) {
		subnets = append(subnets, lan[r.Intn(len(lan))])
	}
	if r.Bool(0.25) {
		// mostly LAN addresses: buckets fill up, replacement lists get used
		subnets = []string{lan[0], lan[1], lan[0], pub[r.Intn(len(pub))]}
	}
	dists := []int{256, 256, 255, 255, 254, 253, 250, 245, 241, 240, 239, 200, 17, 1}
	nd := r.Range(1, 4)
	var ds []int
	for i := 0; i < nd; i++ {
		ds = append(ds, dists[r.Intn(len(dists))])
	}
	nn := r.Range(8, 70)
	for i := 0; i < nn; i++ {
		n := Node46{Dist: ds[r.Intn(len(ds))], IDSeed: r.Uint64(), IP: genIP46(r, subnets), Port: 30000 + r.Intn(100), Seq: uint64(r.Intn(4))}
		if r.Bool(0.02) {
			n.Dist = 0
		}
		p.Nodes = append(p.Nodes, n)
	}
	nops := r.Range(20, 220)
	for i := 0; i < nops; i++ {
		op := Op46{N: r.Intn(nn)}
		switch r.Pick(30, 12, 8, 6, 14, 22, 5, 12, 2) {
		case 0:
			op.Op = "found"
		case 1:
			op.Op = "inbound"
		case 2:
			op.Op = "update"
			op.Inbound = r.Bool(0.5)
			op.SeqAdd = uint64(r.Intn(3))
			op.IP = genIP46(r, subnets)
			op.Port = 30000 + r.Intn(100)
			if r.Bool(0.3) {
				op.IP = "" // keep the endpoint, only the sequence number changes
			}
		case 3:
			op.Op = "delete"
		case 4:
			op.Op = "clock"
			op.MS = []int{50, 300, 1000, 2500, 9000, 31000}[r.Intn(6)]
		case 5:
			op.Op = "pong"
			op.K = r.Intn(64)
			op.Outcome = []string{"ok", "ok", "ok", "timeout", "timeout", "newseq", "newseq", "newseq-fail"}[r.Intn(8)]
			op.SeqAdd = uint64(1 + r.Intn(3))
			op.IP = genIP46(r, subnets)
			op.Port = 30000 + r.Intn(100)
			if r.Bool(0.4) {
				op.IP = ""
			}
		case 6:
			op.Op = "track"
			op.Success = r.Bool(0.3)
			for j, m := 0, r.Intn(4); j < m; j++ {
				op.Found = append(op.Found, r.Intn(nn))
			}
		case 7:
			op.Op = "findnode"
			op.Target = r.Uint64()
			if r.Bool(0.5) {
				op.Target = 0 // use node N's id as target
			}
			op.Count = []int{1, 3, 16, 16, 30, 200}[r.Intn(6)]
			op.Live = r.Bool(0.5)
		case 8:
			op.Op = "refresh"
		}
		p.Ops = append(p.Ops, op)
	}
	return p
}

func Decode46(b []byte) (any, error) {
	p := &Plan46{}
	err := json.Unmarshal(b, p)
	return p, err
}

func Shrink46(pl any) []any {
	p := pl.(*Plan46)
	var out []any
	for _, ops := range simcore.ShrinkSlice(p.Ops) {
		q := *p
		q.Ops = ops
		out = append(out, &q)
	}
	if len(p.Boot) > 0 {
		q := *p
		q.Boot = nil
		out = append(out, &q)
	}
	return out
}

// ---- reference helpers

func seedID(seed uint64) (id enode.ID) {
	x := seed
	for i := 0; i < 32; i += 8 {
		x = simcore.SplitMix(x)
		binary.BigEndian.PutUint64(id[i:], x)
	}
	return id
}

// idAtDist returns an id whose log distance from a is exactly d.
func idAtDist(a enode.ID, d int, seed uint64) enode.ID {
	if d == 0 {
		return a
	}
	x := seedID(seed)
	// clear bits above position d-1 (counted from the least significant bit), set bit d-1
	top := 256 - d // number of leading zero bits wanted
	for i := 0; i < 32; i++ {
		switch {
		case (i+1)*8 <= top:
			x[i] = 0
		case i*8 < top:
			x[i] &= 0xff >> uint(top-i*8)
		}
	}
	x[top/8] |= 0x80 >> uint(top%8)
	var b enode.ID
	for i := range b {
		b[i] = a[i] ^ x[i]
	}
	return b
}

func refLogDist(a, b enode.ID) int {
	lz := 0
	for i := range a {
		x := a[i] ^ b[i]
		if x == 0 {
			lz += 8
			continue
		}
		lz += bits.LeadingZeros8(x)
		break
	}
	return 256 - lz
}

func refIsLAN(ip netip.Addr) bool {
	s := ip.String()
	return strings.HasPrefix(s, "10.") || strings.HasPrefix(s, "192.168.") || strings.HasPrefix(s, "172.20.")
}

func refSubnet(ip netip.Addr) string {
	if ip.Is4() {
		b := ip.As4()
		return fmt.Sprintf("4:%d.%d.%d", b[0], b[1], b[2])
	}
	b := ip.As16()
	return fmt.Sprintf("6:%x.%x.%x", b[0], b[1], b[2])
}

func makeNode46(id enode.ID, ip string, port int, seq uint64) *enode.Node {
	var r enr.Record
	addr := netip.MustParseAddr(ip)
	if addr.Is4() {
		r.Set(enr.IPv4Addr(addr))
	} else {
		r.Set(enr.IPv6Addr(addr))
		r.Set(enr.UDP6(port))
	}
	r.Set(enr.UDP(port))
	r.SetSeq(seq)
	return enode.SignNull(&r, id)
}

// ---- world

type pingReply struct {
	seq    uint64
	err    error
	enr    *enode.Node
	enrErr error
}

type ping46 struct {
	node  *enode.Node
	ch    chan pingReply
	incar int
	seen  bool
}

type world46 struct {
	p      *Plan46
	res    *simcore.Result
	consts discover.VerifConsts
	tab    *discover.Table
	clock  *mclock.Simulated
	self   *enode.Node
	pool   []*enode.Node // current record of every pool node
	mu     sync.Mutex
	pend   []*ping46
	enrRes map[enode.ID]pingReply
	incar  map[enode.ID]int // bumped whenever the id leaves the entries
	prev   discover.VerifSnapshot
	log    simcore.Hash64
	viol   *simcore.Violation
}

var errPingTimeout = errors.New("RPC timeout")

func (w *world46) fail(v *simcore.Violation) {
	if w.viol == nil {
		w.viol = v
	}
}

func (w *world46) refBucket(id enode.ID) int {
	d := refLogDist(w.self.ID(), id)
	if d <= w.consts.BucketMinDistance {
		return 0
	}
	return d - w.consts.BucketMinDistance - 1
}

type flat46 struct {
	entries map[enode.ID]discover.VerifEntry
	repl    map[enode.ID]discover.VerifEntry
	bucket  map[enode.ID]int
}

func flatten(s discover.VerifSnapshot) flat46 {
	f := flat46{map[enode.ID]discover.VerifEntry{}, map[enode.ID]discover.VerifEntry{}, map[enode.ID]int{}}
	for _, b := range s.Buckets {
		for _, e := range b.Entries {
			f.entries[e.Node.ID()] = e
			f.bucket[e.Node.ID()] = b.Index
		}
		for _, e := range b.Replacements {
			f.repl[e.Node.ID()] = e
			f.bucket[e.Node.ID()] = b.Index
		}
	}
	return f
}

// settle waits until every goroutine of the bubble is blocked, registers newly
// started pings and checks the invariants.
func (w *world46) settle(what string) discover.VerifSnapshot {
	synctest.Wait()
	s := w.tab.VerifSnapshot()
	// incarnations: ids that left the entry set
	now := flatten(s)
	for id := range flatten(w.prev).entries {
		if _, ok := now.entries[id]; !ok {
			w.incar[id]++
		}
	}
	w.mu.Lock()
	for _, pg := range w.pend {
		if !pg.seen {
			pg.seen = true
			pg.incar = w.incar[pg.node.ID()]
		}
	}
	w.mu.Unlock()
	if v := w.invariants(s, what); v != nil {
		w.fail(v)
	}
	w.prev = s
	// digest
	for _, b := range s.Buckets {
		for _, e := range b.Entries {
			id := e.Node.ID()
			w.log = w.log.Bytes(id[:4]).U64(uint64(e.Checks)).String(e.List)
		}
		w.log = w.log.U64(uint64(len(b.Replacements)))
	}
	w.res.Events++
	return s
}

func (w *world46) invariants(s discover.VerifSnapshot, what string) *simcore.Violation {
	c := w.consts
	if len(s.Buckets) != c.NBuckets {
		return simcore.Violf("bucket-count", "table has %d buckets", len(s.Buckets))
	}
	seen := map[enode.ID]bool{}
	tableNets := map[string]int{}
	tableIPs, entries := 0, 0
	for _, b := range s.Buckets {
		if len(b.Entries) > c.BucketSize {
			return simcore.Violf("bucket-overfull", "after %s: bucket %d holds %d entries", what, b.Index, len(b.Entries))
		}
		if len(b.Replacements) > c.MaxReplacements {
			return simcore.Violf("replacements-overfull", "after %s: bucket %d holds %d replacements", what, b.Index, len(b.Replacements))
		}
		entries += len(b.Entries)
		nets := map[string]int{}
		ips := 0
		for i, e := range append(append([]discover.VerifEntry{}, b.Entries...), b.Replacements...) {
			id := e.Node.ID()
			isEntry := i < len(b.Entries)
			if id == w.self.ID() {
				return simcore.Violf("self-in-table", "after %s: the local node is in bucket %d", what, b.Index)
			}
			if seen[id] {
				return simcore.Violf("duplicate-node", "after %s: node %x appears twice (bucket %d)", what, id[:6], b.Index)
			}
			seen[id] = true
			if want := w.refBucket(id); want != b.Index {
				return simcore.Violf("wrong-bucket", "after %s: node %x at log distance %d sits in bucket %d, belongs in %d", what, id[:6], refLogDist(w.self.ID(), id), b.Index, want)
			}
			if isEntry && (e.List == "" || !e.InList) {
				return simcore.Violf("reval-list", "after %s: entry %x of bucket %d is in no revalidation list (%q, contained %v)", what, id[:6], b.Index, e.List, e.InList)
			}
			if !isEntry && e.List != "" {
				return simcore.Violf("reval-list", "after %s: replacement %x of bucket %d is in revalidation list %q", what, id[:6], b.Index, e.List)
			}
			ip := e.Node.IPAddr()
			if !ip.IsValid() {
				return simcore.Violf("node-without-ip", "after %s: node %x without IP in bucket %d", what, id[:6], b.Index)
			}
			if refIsLAN(ip) {
				continue
			}
			ips++
			tableIPs++
			nets[refSubnet(ip)]++
			tableNets[refSubnet(ip)]++
		}
		for n, k := range nets {
			if k > c.BucketIPLimit {
				return simcore.Violf("bucket-ip-limit", "after %s: bucket %d holds %d nodes (entries+replacements) from subnet %s", what, b.Index, k, n)
			}
		}
		if ips != b.IPs {
			return simcore.Violf("ip-accounting", "after %s: bucket %d holds %d limited addresses but its subnet set accounts for %d", what, b.Index, ips, b.IPs)
		}
	}
	for n, k := range tableNets {
		if k > c.TableIPLimit {
			return simcore.Violf("table-ip-limit", "after %s: table holds %d nodes from subnet %s", what, k, n)
		}
	}
	if tableIPs != s.TableIPs {
		return simcore.Violf("ip-accounting", "after %s: table holds %d limited addresses but its subnet set accounts for %d", what, tableIPs, s.TableIPs)
	}
	if s.FastLen+s.SlowLen != entries {
		return simcore.Violf("reval-list", "after %s: %d entries but %d+%d nodes in the revalidation lists", what, entries, s.FastLen, s.SlowLen)
	}
	// public views agree with the buckets
	pub := w.tab.Nodes()
	for i, b := range s.Buckets {
		if len(pub[i]) != len(b.Entries) {
			return simcore.Violf("nodes-view", "Nodes() bucket %d has %d entries, table has %d", i, len(pub[i]), len(b.Entries))
		}
		for j := range b.Entries {
			if pub[i][j].Node.ID() != b.Entries[j].Node.ID() || pub[i][j].Live != b.Entries[j].Live {
				return simcore.Violf("nodes-view", "Nodes() bucket %d entry %d differs from the table", i, j)
			}
		}
	}
	if w.tab.VerifLen() != entries {
		return simcore.Violf("nodes-view", "len() = %d, %d entries", w.tab.VerifLen(), entries)
	}
	return nil
}

// ipFits: would one more node with this address respect the limits, given the snapshot?
func (w *world46) ipFits(s discover.VerifSnapshot, bucket int, ip netip.Addr, minus netip.Addr) bool {
	if refIsLAN(ip) {
		return true
	}
	tn, bn := 0, 0
	for _, b := range s.Buckets {
		for _, e := range append(append([]discover.VerifEntry{}, b.Entries...), b.Replacements...) {
			eip := e.Node.IPAddr()
			if refIsLAN(eip) || refSubnet(eip) != refSubnet(ip) {
				continue
			}
			tn++
			if b.Index == bucket {
				bn++
			}
		}
	}
	if minus.IsValid() && !refIsLAN(minus) && refSubnet(minus) == refSubnet(ip) {
		tn--
		bn--
	}
	return tn < w.consts.TableIPLimit && bn < w.consts.BucketIPLimit
}

func (w *world46) add(n *enode.Node, inbound bool, what string) {
	pre := w.prev
	f := flatten(pre)
	id := n.ID()
	initDone := w.tab.VerifInitDone()
	var ok bool
	if inbound {
		ok = w.tab.VerifAddInbound(n)
	} else {
		ok = w.tab.VerifAddFound(n)
	}
	post := w.settle(what)
	if w.viol != nil {
		return
	}
	pf := flatten(post)
	bi := w.refBucket(id)
	_, wasEntry := f.entries[id]
	_, wasRepl := f.repl[id]
	if id == w.self.ID() {
		w.res.Probe("add-self-refused")
		if ok {
			w.fail(simcore.Violf("self-added", "%s: adding the local node returned true", what))
		}
		return
	}
	if inbound && !initDone {
		if ok {
			w.fail(simcore.Violf("inbound-before-init", "%s: inbound node accepted before the table finished initialising", what))
		}
		return
	}
	if wasEntry {
		if ok {
			w.fail(simcore.Violf("add-existing", "%s: node already in its bucket, add returned true", what))
		}
		w.res.Probe("add-existing")
		return
	}
	full := len(pre.Buckets[bi].Entries) >= w.consts.BucketSize
	if wasRepl && !full {
		return // its own address is accounted already: outcome not predicted
	}
	fits := w.ipFits(pre, bi, n.IPAddr(), netip.Addr{})
	want := !full && fits
	if ok != want {
		w.fail(simcore.Violf("add-outcome", "%s: add returned %v; bucket %d had %d entries, address %s fits the limits: %v", what, ok, bi, len(pre.Buckets[bi].Entries), n.IPAddr(), fits))
		return
	}
	if _, isEntry := pf.entries[id]; isEntry != want {
		w.fail(simcore.Violf("add-outcome", "%s: add returned %v but node is entry afterwards: %v", what, ok, isEntry))
		return
	}
	switch {
	case want:
		w.res.Probe("added-to-bucket")
	case full:
		if _, isRepl := pf.repl[id]; isRepl != (fits || wasRepl) {
			w.fail(simcore.Violf("replacement-outcome", "%s: bucket full, address fits: %v, was replacement: %v, is replacement afterwards: %v", what, fits, wasRepl, isRepl))
			return
		}
		w.res.Probe("bucket-full")
		if !fits {
			w.res.Probe("replacement-refused-by-ip-limit")
		}
	default:
		w.res.Probe("refused-by-ip-limit")
	}
}

func xorLess(target, a, b enode.ID) bool {
	var xa, xb [32]byte
	for i := range target {
		xa[i], xb[i] = target[i]^a[i], target[i]^b[i]
	}
	return bytes.Compare(xa[:], xb[:]) < 0
}

func (w *world46) findnode(target enode.ID, count int, live bool) {
	got := w.tab.VerifFindnodeByID(target, count, live)
	s := w.prev
	var all, lives []enode.ID
	for _, b := range s.Buckets {
		for _, e := range b.Entries {
			all = append(all, e.Node.ID())
			if e.Live {
				lives = append(lives, e.Node.ID())
			}
		}
	}
	ref := all
	if live && len(lives) > 0 {
		ref = lives
		w.res.Probe("findnode-live-only")
	}
	sort.Slice(ref, func(i, j int) bool { return xorLess(target, ref[i], ref[j]) })
	if len(ref) > count {
		ref = ref[:count]
		w.res.Probe("findnode-truncated")
	}
	if len(got) != len(ref) {
		w.fail(simcore.Violf("closest-query", "findnodeByID(%x, %d, live=%v) returned %d nodes, reference %d", target[:6], count, live, len(got), len(ref)))
		return
	}
	for i := range ref {
		if got[i].ID() != ref[i] {
			w.fail(simcore.Violf("closest-query", "findnodeByID(%x, %d, live=%v): position %d is %x, reference (XOR order) %x", target[:6], count, live, i, got[i].ID().Bytes()[:6], ref[i][:6]))
			return
		}
	}
	if len(ref) > 1 {
		w.res.Probe("findnode-compared")
	}
	w.log = w.log.U64(uint64(len(got)))
}

func (w *world46) pong(op *Op46) {
	w.mu.Lock()
	if len(w.pend) == 0 {
		w.mu.Unlock()
		return
	}
	// canonical order: by node id
	sort.Slice(w.pend, func(i, j int) bool {
		return bytes.Compare(w.pend[i].node.ID().Bytes(), w.pend[j].node.ID().Bytes()) < 0
	})
	k := op.K % len(w.pend)
	pg := w.pend[k]
	w.pend = append(w.pend[:k], w.pend[k+1:]...)
	w.mu.Unlock()

	id := pg.node.ID()
	pre := w.prev
	f := flatten(pre)
	e, wasEntry := f.entries[id]
	sameIncarnation := wasEntry && pg.incar == w.incar[id]
	rep := pingReply{seq: pg.node.Seq()}
	var newRec *enode.Node
	switch op.Outcome {
	case "timeout":
		rep.err = errPingTimeout
		w.res.Fault("ping-timeout")
	case "newseq", "newseq-fail":
		rep.seq = pg.node.Seq() + op.SeqAdd
		if op.Outcome == "newseq-fail" {
			rep.enrErr = errPingTimeout
			w.res.Fault("enr-request-failed")
		} else {
			ip, port := op.IP, op.Port
			if ip == "" {
				ip, port = pg.node.IPAddr().String(), pg.node.UDP()
			}
			newRec = makeNode46(id, ip, port, rep.seq)
			rep.enr = newRec
			w.res.Fault("pong-with-new-record")
		}
	}
	pg.ch <- rep
	post := w.settle("pong " + op.Outcome)
	if w.viol != nil || !sameIncarnation {
		return
	}
	pf := flatten(post)
	pe, isEntry := pf.entries[id]
	bi := f.bucket[id]
	switch {
	case rep.err != nil:
		left := e.Checks / 3
		if left == 0 {
			if isEntry {
				w.fail(simcore.Violf("dead-node-kept", "node %x failed revalidation with %d checks and is still in bucket %d", id[:6], e.Checks, bi))
				return
			}
			nrep := len(pre.Buckets[bi].Replacements)
			nb, na := len(pre.Buckets[bi].Entries), len(post.Buckets[bi].Entries)
			if nrep > 0 {
				promoted := 0
				for _, r := range pre.Buckets[bi].Replacements {
					if _, ok := pf.entries[r.Node.ID()]; ok {
						promoted++
					}
				}
				if na != nb || promoted != 1 || len(post.Buckets[bi].Replacements) != nrep-1 {
					w.fail(simcore.Violf("replacement-not-promoted", "dead node %x removed from bucket %d with %d replacements: entries %d -> %d, promoted %d, replacements now %d", id[:6], bi, nrep, nb, na, promoted, len(post.Buckets[bi].Replacements)))
					return
				}
				w.res.Probe("replacement-promoted")
			} else if na != nb-1 {
				w.fail(simcore.Violf("dead-node-removal", "dead node %x removed from bucket %d without replacements: entries %d -> %d", id[:6], bi, nb, na))
				return
			}
			w.res.Probe("dead-node-removed")
		} else {
			if !isEntry || pe.Checks != left || pe.List != "fast" {
				w.fail(simcore.Violf("failed-check-accounting", "node %x failed revalidation with %d checks: entry %v checks %d list %q (want kept, %d, fast)", id[:6], e.Checks, isEntry, pe.Checks, pe.List, left))
				return
			}
			w.res.Probe("failed-check-kept")
		}
	default:
		if !isEntry || pe.Checks != e.Checks+1 {
			w.fail(simcore.Violf("live-check-accounting", "node %x answered revalidation: entry %v checks %d -> %d", id[:6], isEntry, e.Checks, pe.Checks))
			return
		}
		changed := newRec != nil && newRec.Seq() > e.Node.Seq() && (newRec.IPAddr() != e.Node.IPAddr() || newRec.UDP() != e.Node.UDP())
		fits := true
		if changed && newRec.IPAddr() != e.Node.IPAddr() {
			fits = w.ipFits(pre, bi, newRec.IPAddr(), e.Node.IPAddr())
		}
		if changed && fits {
			if pe.Live || pe.List != "fast" || pe.Node.IPAddr() != newRec.IPAddr() || pe.Node.UDP() != newRec.UDP() {
				w.fail(simcore.Violf("endpoint-change", "node %x announced a new endpoint %v:%d that fits the limits: live %v list %q endpoint %v:%d", id[:6], newRec.IPAddr(), newRec.UDP(), pe.Live, pe.List, pe.Node.IPAddr(), pe.Node.UDP()))
				return
			}
			w.res.Probe("endpoint-changed")
		} else {
			if !pe.Live || pe.List != "slow" {
				w.fail(simcore.Violf("live-check-accounting", "node %x answered revalidation: live %v list %q (want live, slow)", id[:6], pe.Live, pe.List))
				return
			}
			if changed && !fits {
				if pe.Node.IPAddr() != e.Node.IPAddr() {
					w.fail(simcore.Violf("endpoint-change", "node %x moved to an address beyond the IP limits", id[:6]))
					return
				}
				w.res.Probe("endpoint-change-refused-by-ip-limit")
			}
			w.res.Probe("revalidated-live")
		}
	}
}

func Run46(t *testing.T, pl any) *simcore.Result {
	p := pl.(*Plan46)
	res := simcore.NewResult()
	cryptotest.SetGlobalRandom(t, p.CryptoSeed)
	w := &world46{p: p, res: res, consts: discover.VerifTableConsts(), clock: &mclock.Simulated{}, enrRes: map[enode.ID]pingReply{},
		incar: map[enode.ID]int{}, log: simcore.NewHash()}
	dl, pv := runBubble(t, func() {
		selfID := seedID(p.SelfSeed)
		w.self = makeNode46(selfID, "127.0.0.1", 30303, 1)
		for _, n := range p.Nodes {
			w.pool = append(w.pool, makeNode46(idAtDist(selfID, n.Dist, n.IDSeed), n.IP, n.Port, n.Seq))
		}
		db, err := enode.VerifOpenSmallMemDB()
		if err != nil {
			simcore.Harnessf("db: %v", err)
		}
		tr := &discover.VerifTransport{SelfNode: w.self}
		tr.PingFn = func(n *enode.Node) (uint64, error) {
			pg := &ping46{node: n, ch: make(chan pingReply)}
			w.mu.Lock()
			w.pend = append(w.pend, pg)
			w.mu.Unlock()
			r := <-pg.ch
			w.mu.Lock()
			w.enrRes[n.ID()] = r
			w.mu.Unlock()
			if r.err == nil {
				// what the UDP transports do on a pong
				db.UpdateLastPongReceived(n.ID(), n.IPAddr(), time.Now())
			}
			return r.seq, r.err
		}
		tr.RequestENRFn = func(n *enode.Node) (*enode.Node, error) {
			w.mu.Lock()
			r := w.enrRes[n.ID()]
			w.mu.Unlock()
			if r.enr == nil && r.enrErr == nil {
				return nil, errPingTimeout
			}
			return r.enr, r.enrErr
		}
		tr.LookupFn = func(self bool) []*enode.Node { return nil }
		cfg := discover.Config{Clock: w.clock, PingInterval: time.Duration(p.PingMS) * time.Millisecond}
		tab, err := discover.VerifNewTable(tr, db, cfg)
		if err != nil {
			simcore.Harnessf("newTable: %v", err)
		}
		w.tab = tab
		closed := false
		shutdown := func() {
			if closed {
				return
			}
			closed = true
			// outstanding pings must return before the loop can be closed
			for {
				synctest.Wait()
				w.mu.Lock()
				pend := w.pend
				w.pend = nil
				w.mu.Unlock()
				if len(pend) == 0 {
					break
				}
				for _, pg := range pend {
					pg.ch <- pingReply{err: errPingTimeout}
				}
			}
			tab.VerifClose()
			db.Close()
			time.Sleep(2 * time.Second) // goleveldb's pool drainer lingers up to 1 s after Close
		}
		defer shutdown()
		w.prev = tab.VerifSnapshot()
		w.settle("start")
		for i := range p.Ops {
			if w.viol != nil {
				break
			}
			op := &p.Ops[i]
			n := w.pool[op.N%len(w.pool)]
			switch op.Op {
			case "found":
				w.add(n, false, fmt.Sprintf("op %d found %x", i, n.ID().Bytes()[:4]))
			case "inbound":
				w.add(n, true, fmt.Sprintf("op %d inbound %x", i, n.ID().Bytes()[:4]))
			case "update":
				ip, port := op.IP, op.Port
				if ip == "" {
					ip, port = n.IPAddr().String(), n.UDP()
				}
				nn := makeNode46(n.ID(), ip, port, n.Seq()+op.SeqAdd)
				w.pool[op.N%len(w.pool)] = nn
				w.update(nn, op.Inbound, fmt.Sprintf("op %d update %x", i, n.ID().Bytes()[:4]))
			case "delete":
				w.tab.VerifDelete(n)
				post := w.settle(fmt.Sprintf("op %d delete", i))
				if _, still := flatten(post).entries[n.ID()]; still && w.viol == nil {
					w.fail(simcore.Violf("delete-ignored", "node %x still in its bucket after delete", n.ID().Bytes()[:6]))
				}
			case "clock":
				w.clock.Run(time.Duration(op.MS) * time.Millisecond)
				res.SimTimeNS += int64(op.MS) * 1e6
				w.settle(fmt.Sprintf("op %d clock +%dms", i, op.MS))
			case "pong":
				w.pong(op)
			case "track":
				var found []*enode.Node
				for _, j := range op.Found {
					// (not the tracked node itself: it could be removed and re-added in one step)
					if fn := w.pool[j%len(w.pool)]; fn.ID() != n.ID() {
						found = append(found, fn)
					}
				}
				w.tab.VerifTrackRequest(n, op.Success, found)
				w.settle(fmt.Sprintf("op %d track", i))
			case "findnode":
				target := seedID(op.Target)
				if op.Target == 0 {
					target = n.ID()
				}
				w.findnode(target, op.Count, op.Live)
			case "refresh":
				w.tab.VerifRefresh()
				w.settle(fmt.Sprintf("op %d refresh", i))
				res.Probe("refresh")
			}
		}
		w.mu.Lock()
		if len(w.pend) > 0 {
			res.Probe("pings-outstanding-at-end")
		}
		w.mu.Unlock()
		shutdown()
	})
	if pv != nil {
		return res.Fail(pv)
	}
	if dl != "" {
		simcore.Harnessf("C46 bubble: %s", dl)
	}
	res.LogHash = uint64(w.log)
	res.StateFP = uint64(w.log)
	res.NonTrivial = res.Probes["bucket-full"] > 0 || res.Probes["refused-by-ip-limit"] > 0 || res.Probes["dead-node-removed"] > 0 || len(res.Faults) > 0
	if w.viol != nil {
		res.Fail(w.viol)
	}
	return res
}

// update delivers a new record of a known id (sequence bump and/or endpoint change).
func (w *world46) update(n *enode.Node, inbound bool, what string) {
	pre := w.prev
	f := flatten(pre)
	old, wasEntry := f.entries[n.ID()]
	if !wasEntry {
		w.add(n, inbound, what)
		return
	}
	if inbound {
		w.tab.VerifAddInbound(n)
	} else {
		w.tab.VerifAddFound(n)
	}
	post := w.settle(what)
	if w.viol != nil {
		return
	}
	pe, ok := flatten(post).entries[n.ID()]
	if !ok {
		w.fail(simcore.Violf("update-dropped-node", "%s: node left its bucket on a record update", what))
		return
	}
	initDone := w.tab.VerifInitDone()
	accept := (inbound && initDone) || (!inbound && n.Seq() > old.Node.Seq())
	if accept && n.IPAddr() != old.Node.IPAddr() {
		accept = w.ipFits(pre, f.bucket[n.ID()], n.IPAddr(), old.Node.IPAddr())
		if !accept {
			w.res.Probe("update-refused-by-ip-limit")
		}
	}
	gotNew := pe.Node.Seq() == n.Seq() && pe.Node.IPAddr() == n.IPAddr() && pe.Node.UDP() == n.UDP()
	same := n.Seq() == old.Node.Seq() && n.IPAddr() == old.Node.IPAddr() && n.UDP() == old.Node.UDP()
	if !same && gotNew != accept {
		w.fail(simcore.Violf("record-update", "%s (inbound %v): seq %d -> %d, endpoint %v:%d -> %v:%d, expected accepted=%v, table now has seq %d %v:%d",
			what, inbound, old.Node.Seq(), n.Seq(), old.Node.IPAddr(), old.Node.UDP(), n.IPAddr(), n.UDP(), accept, pe.Node.Seq(), pe.Node.IPAddr(), pe.Node.UDP()))
		return
	}
	if accept && !same {
		w.res.Probe("record-updated")
		if n.IPAddr() != old.Node.IPAddr() || n.UDP() != old.Node.UDP() {
			if pe.Live || pe.List != "fast" {
				w.fail(simcore.Violf("endpoint-change", "%s: endpoint changed but node is live=%v in list %q", what, pe.Live, pe.List))
			}
		}
	}
}

var _ = net.IP{}
