//go:debug randseednop=0
package netsim

import (
	"testing"

	"verifsim/simcore"
)

func TestWorker(t *testing.T) { simcore.RunWorker(t, Checks()) }
