package netsim

// C45: two or three real v5wire.Codec instances; the harness is the packet channel
// between them (loss, duplication, reordering, tampering, misaddressing, replay) and
// follows the protocol the UDP layer implements around the codec (unknown packet ->
// WHOAREYOU -> handshake packet). A small session model predicts for every delivered
// packet whether it must decode to exactly the message that was encoded, or must not
// decode to a message at all.

import (
	"bytes"
	"crypto/aes"
	"crypto/cipher"
	"crypto/ecdsa"
	crand "crypto/rand"
	"crypto/sha256"
	"encoding/binary"
	"encoding/hex"
	"encoding/json"
	"fmt"
	"io"
	"net"
	"testing"
	"testing/cryptotest"
	"time"

	"github.com/ethereum/go-ethereum/common/mclock"
	"github.com/ethereum/go-ethereum/crypto"
	"github.com/ethereum/go-ethereum/p2p/discover/v5wire"
	"github.com/ethereum/go-ethereum/p2p/enode"
	"github.com/ethereum/go-ethereum/p2p/enr"
	"github.com/ethereum/go-ethereum/rlp"
	"golang.org/x/crypto/hkdf"

	"verifsim/simcore"
)

type Msg45 struct {
	Kind  byte   `json:"kind"` // v5wire message type 1..6
	ReqID string `json:"req_id"`
	Seq   uint64 `json:"seq,omitempty"`
	Dists []uint `json:"dists,omitempty"`
	Proto string `json:"proto,omitempty"`
	Data  string `json:"data,omitempty"`
	NRec  int    `json:"nrec,omitempty"`
	Port  uint16 `json:"port,omitempty"`
	IP6   bool   `json:"ip6,omitempty"`
}

type Op45 struct {
	Op     string   `json:"op"` // send | exchange | deliver | flush | impersonate | replay | reset | clock | bump | probe
	From   int      `json:"from,omitempty"`
	To     int      `json:"to,omitempty"`
	Msg    *Msg45   `json:"msg,omitempty"`
	Forge  string   `json:"forge,omitempty"` // the handshake packet answering the challenge is hand-written with this record defect
	Pick   int      `json:"pick,omitempty"`
	Mode   string   `json:"mode,omitempty"`  // ok | dup | drop | tamper | cut | extend | misaddr | spoof
	Defer  bool     `json:"defer,omitempty"` // deliver: if this is a WHOAREYOU, the handshake reply is sent later (op flush)
	Seed   uint64   `json:"seed,omitempty"`
	Region int      `json:"region,omitempty"`
	Pos    int      `json:"pos,omitempty"`
	Mask   byte     `json:"mask,omitempty"`
	MS     int      `json:"ms,omitempty"`
	Probe  *Probe45 `json:"probe,omitempty"`
}

type Plan45 struct {
	Keys       []string `json:"keys"`
	CryptoSeed uint64   `json:"crypto_seed"`
	Ops        []Op45   `json:"ops"`
}

var forgeKinds = []string{"bad-idsig", "valid", "valid-300", "oversize-301", "unsorted", "dupkey", "badsig", "wrongid", "truncated", "seq-leading-zero"}

func genMsg45(r *simcore.Rand) *Msg45 {
	m := &Msg45{Kind: byte(1 + r.Intn(6)), ReqID: hex.EncodeToString(r.Bytes(8)[:r.Intn(9)])}
	switch m.Kind {
	case v5wire.PingMsg:
		m.Seq = r.Uint64() >> uint(r.Intn(64))
	case v5wire.PongMsg:
		m.Seq = r.Uint64() >> uint(r.Intn(64))
		m.Port = uint16(r.Intn(65536))
		m.IP6 = r.Bool(0.3)
	case v5wire.FindnodeMsg:
		for i, n := 0, r.Intn(5); i < n; i++ {
			m.Dists = append(m.Dists, uint(r.Intn(258)))
		}
	case v5wire.NodesMsg:
		m.Seq = uint64(r.Intn(256))
		m.NRec = r.Intn(4)
	case v5wire.TalkRequestMsg:
		m.Proto = []string{"", "p", "portal", "a-longer-protocol-name"}[r.Intn(4)]
		m.Data = hex.EncodeToString(r.Bytes(r.Intn(900))[:])
	case v5wire.TalkResponseMsg:
		m.Data = hex.EncodeToString(r.Bytes([]int{0, 1, 55, 56, 300, 1000}[r.Intn(6)]))
	}
	return m
}

func Gen45(r *simcore.Rand, tier string) any {
	n := 2 + r.Intn(2)
	p := &Plan45{CryptoSeed: r.Uint64()}
	for i := 0; i < n; i++ {
		p.Keys = append(p.Keys, genKeyHex(r))
	}
	pair := func() (int, int) {
		a := r.Intn(n)
		b := (a + 1 + r.Intn(n-1)) % n
		return a, b
	}
	nops := r.Range(8, 60)
	tamperRate := []float64{0, 0.05, 0.2}[r.Intn(3)]
	lossRate := []float64{0, 0.05, 0.25}[r.Intn(3)]
	for i := 0; i < nops; i++ {
		op := Op45{}
		switch r.Pick(14, 14, 40, 6, 3, 6, 3, 6, 6, 3) {
		case 0:
			op.Op = "send"
			op.From, op.To = pair()
			op.Msg = genMsg45(r)
			if r.Bool(0.2) {
				op.Forge = forgeKinds[r.Intn(len(forgeKinds))]
			}
		case 1:
			op.Op = "exchange"
			op.From, op.To = pair()
			op.Msg = genMsg45(r)
			if r.Bool(0.12) {
				op.Forge = forgeKinds[r.Intn(len(forgeKinds))]
			}
		case 2:
			op.Op = "deliver"
			op.Pick = r.Intn(1 << 16)
			op.Mode = "ok"
			x := r.Float()
			switch {
			case x < lossRate:
				op.Mode = "drop"
			case x < lossRate+tamperRate:
				op.Mode = []string{"tamper", "tamper", "tamper", "cut", "extend", "misaddr", "spoof"}[r.Intn(7)]
				op.Region = r.Intn(5)
				op.Pos = r.Intn(1 << 16)
				op.Mask = byte(1) << uint(r.Intn(8))
				if r.Bool(0.3) {
					op.Mask = byte(1 + r.Intn(255))
				}
				op.To = r.Intn(n)
			case x < lossRate+tamperRate+0.08:
				op.Mode = "dup"
			}
			op.Defer = r.Bool(0.3)
		case 3:
			op.Op = "replay"
			op.Pick = r.Intn(1 << 16)
		case 4:
			op.Op = "reset"
			op.From = r.Intn(n)
		case 5:
			op.Op = "clock"
			op.MS = []int{7, 7, 390, 390, 1203, 5003}[r.Intn(6)]
		case 6:
			op.Op = "bump"
			op.From = r.Intn(n)
		case 7:
			op.Op = "probe"
			op.Probe = genProbe45(r)
		case 8:
			op.Op = "flush"
			op.From = r.Intn(n)
		case 9:
			op.Op = "impersonate"
			op.From, op.To = pair()
			op.Seed = r.Uint64()
			op.Forge = []string{"other-identity", "other-identity", "control"}[r.Intn(3)]
		}
		p.Ops = append(p.Ops, op)
	}
	return p
}

func Decode45(b []byte) (any, error) {
	p := &Plan45{}
	err := json.Unmarshal(b, p)
	return p, err
}

func Shrink45(pl any) []any {
	p := pl.(*Plan45)
	var out []any
	for _, ops := range simcore.ShrinkSlice(p.Ops) {
		q := &Plan45{Keys: p.Keys, CryptoSeed: p.CryptoSeed, Ops: ops}
		out = append(out, q)
	}
	return out
}

// ---- world

type call45 struct {
	to      int
	msg     v5wire.Packet
	forge   string
	hsCount int
}

type pkt45 struct {
	id       int
	from, to int
	raw      []byte
	kind     string // random | msg | whoareyou | handshake
	msg      v5wire.Packet
	sess     int    // msg: session it was encrypted in; handshake: session it establishes
	cdata    []byte // handshake: challenge data it answers
	record   []byte // handshake: record carried ("" none)
	nonce    v5wire.Nonce
	forge    string
	way      *v5wire.Whoareyou // whoareyou: the challenge object
	toAddr   string
	fromAddr string
	epochTo  int
}

type node45 struct {
	idx     int
	key     *ecdsa.PrivateKey
	db      *enode.DB
	ln      *enode.LocalNode
	codec   *v5wire.Codec
	addr    string
	id      enode.ID
	known   map[int]*enode.Node
	pending map[v5wire.Nonce]*call45
	sess    map[int]int // model: peer index -> session id held (0 none)
	sentAt  map[*v5wire.Whoareyou]mclock.AbsTime
	inbox   int
	// handshake replies whose sending was put off (other datagrams are decoded in between)
	deferred []*deferred45
}

type deferred45 struct {
	c     *call45
	p     *v5wire.Whoareyou
	cdata []byte // challenge data as decoded, copied at decode time
}

type world45 struct {
	t         *testing.T
	res       *simcore.Result
	clock     *mclock.Simulated
	nodes     []*node45
	history   []*pkt45
	inflight  []int
	nextSess  int
	log       simcore.Hash64
	viol      *simcore.Violation
	bumpN     int
	deferNext bool
}

func (w *world45) fail(v *simcore.Violation) {
	if w.viol == nil {
		w.viol = v
	}
}

func buildMsg45(w *world45, m *Msg45) v5wire.Packet {
	rid := unhex(m.ReqID)
	switch m.Kind {
	case v5wire.PingMsg:
		return &v5wire.Ping{ReqID: rid, ENRSeq: m.Seq}
	case v5wire.PongMsg:
		ip := net.IP{10, 1, byte(m.Seq), byte(m.Port)}
		if m.IP6 {
			ip = net.ParseIP("2001:db8::" + fmt.Sprintf("%x", m.Port))
		}
		return &v5wire.Pong{ReqID: rid, ENRSeq: m.Seq, ToIP: ip, ToPort: m.Port}
	case v5wire.FindnodeMsg:
		return &v5wire.Findnode{ReqID: rid, Distances: m.Dists}
	case v5wire.NodesMsg:
		p := &v5wire.Nodes{ReqID: rid, RespCount: uint8(m.Seq)}
		for i := 0; i < m.NRec; i++ {
			p.Nodes = append(p.Nodes, w.nodes[i%len(w.nodes)].ln.Node().Record())
		}
		return p
	case v5wire.TalkRequestMsg:
		return &v5wire.TalkRequest{ReqID: rid, Protocol: m.Proto, Message: unhex(m.Data)}
	default:
		return &v5wire.TalkResponse{ReqID: rid, Message: unhex(m.Data)}
	}
}

func encMsg(p v5wire.Packet) []byte {
	b, err := rlp.EncodeToBytes(p)
	if err != nil {
		simcore.Harnessf("encode message: %v", err)
	}
	return append([]byte{p.Kind()}, b...)
}

func isMessage(p v5wire.Packet) bool {
	return p != nil && p.Kind() != v5wire.UnknownPacket && p.Kind() != v5wire.WhoareyouPacket
}

func (w *world45) nodeAt(id enode.ID, addr string) *node45 {
	for _, n := range w.nodes {
		if n.id == id && n.addr == addr {
			return n
		}
	}
	return nil
}

func (w *world45) put(p *pkt45) {
	p.id = len(w.history)
	p.fromAddr = w.nodes[p.from].addr
	if p.to >= 0 {
		p.toAddr = w.nodes[p.to].addr
	}
	p.raw = append([]byte{}, p.raw...)
	w.history = append(w.history, p)
	w.inflight = append(w.inflight, p.id)
	w.log = w.log.String(p.kind).Bytes(p.raw)
}

// send is what UDPv5.sendCall does for a new call.
func (w *world45) send(from, to int, msg v5wire.Packet, forge string) {
	x, y := w.nodes[from], w.nodes[to]
	hasSess := x.codec.SessionNode(y.id, y.addr) != nil
	if hasSess != (x.sess[to] != 0) {
		simcore.Harnessf("C45 model drift: node %d session to %d: codec %v, model %d", from, to, hasSess, x.sess[to])
	}
	enc, nonce, err := x.codec.Encode(y.id, y.addr, msg, nil)
	if err != nil {
		w.fail(simcore.Violf("encode-failed", "Encode(%s) from %d to %d failed: %v", msg.Name(), from, to, err))
		return
	}
	p := &pkt45{from: from, to: to, raw: enc, msg: msg, nonce: nonce}
	if hasSess {
		p.kind, p.sess = "msg", x.sess[to]
	} else {
		p.kind = "random"
	}
	x.pending[nonce] = &call45{to: to, msg: msg, forge: forge}
	w.put(p)
}

// deliver hands raw bytes to node `to` as coming from fromAddr and checks the verdict.
func (w *world45) deliver(g *pkt45, to int, fromAddr string, raw []byte, pristine bool, how string) {
	r := w.nodes[to]
	sender := w.nodes[g.from]
	chBefore := r.codec.CurrentChallenge(sender.id, fromAddr)
	now := w.clock.Now()
	if held := r.deferred; len(held) > 0 {
		// handshake replies put off earlier go out once this datagram has been decoded
		defer func() {
			if w.viol == nil && len(r.deferred) >= len(held) {
				r.deferred = r.deferred[len(held):]
				for _, d := range held {
					w.res.Probe("deferred-handshake-sent")
					w.sendHandshake(r, d)
				}
			}
		}()
	}
	src, n, p, err := r.codec.Decode(raw, fromAddr)
	kind := "nil"
	if p != nil {
		kind = p.Name()
	}
	w.log = w.log.String(how).String(kind).String(fmt.Sprint(err)).Bytes(src[:])
	w.res.Events++
	if trace {
		fmt.Printf("deliver #%d %s %d->%d (to %d) %s pristine=%v => %s err=%v node=%v\n", g.id, g.kind, g.from, g.to, to, how, pristine, kind, err, n != nil)
	}
	gotMsg := err == nil && isMessage(p)

	// every node accepted in a handshake must carry a valid, canonical record
	if n != nil && err == nil {
		w.res.Probe("handshake-accepted")
		rb, _ := rlp.EncodeToBytes(n.Record())
		if verr := refCheckRecord(rb); verr != nil {
			w.fail(simcore.Violf("invalid-record-accepted", "node %d accepted a handshake from %d with a record that is not valid: %v (%x)", to, g.from, verr, rb))
			return
		}
		if id, _ := refRecordID(rb); id != src || n.ID() != src {
			w.fail(simcore.Violf("record-id-mismatch", "node %d accepted a handshake whose record id %x differs from the packet source %x", to, id[:8], src[:8]))
			return
		}
	}

	switch {
	case !pristine:
		// tampered, misaddressed, or sent from another address: never a message
		w.res.Fault(how)
		if gotMsg {
			w.fail(simcore.Violf("nonpristine-packet-decoded", "packet #%d (%s, %d->%d) delivered to %d as %q decoded to %s", g.id, g.kind, g.from, g.to, to, how, kind))
			return
		}
	case g.kind == "whoareyou":
		wp, ok := p.(*v5wire.Whoareyou)
		if err != nil || !ok || wp.Nonce != g.way.Nonce || wp.IDNonce != g.way.IDNonce || wp.RecordSeq != g.way.RecordSeq {
			w.fail(simcore.Violf("whoareyou-roundtrip", "WHOAREYOU #%d did not round-trip: %s err=%v", g.id, kind, err))
			return
		}
		if !bytes.Equal(wp.ChallengeData, g.way.ChallengeData) {
			w.fail(simcore.Violf("whoareyou-roundtrip", "WHOAREYOU #%d challenge data differs between encoder and decoder", g.id))
			return
		}
	case g.kind == "random":
		up, ok := p.(*v5wire.Unknown)
		if err != nil || !ok || up.Nonce != g.nonce || src != sender.id {
			w.fail(simcore.Violf("random-packet", "random packet #%d decoded to %s err=%v (want UNKNOWN with its nonce from its sender)", g.id, kind, err))
			return
		}
	case g.kind == "msg":
		if r.sess[g.from] == g.sess {
			if !gotMsg || !bytes.Equal(encMsg(p), encMsg(g.msg)) || src != sender.id || n != nil {
				w.fail(simcore.Violf("in-session-message-lost", "message #%d (%s, session %d) delivered %s to %d which holds that session decoded to %s err=%v", g.id, g.msg.Name(), g.sess, how, to, kind, err))
				return
			}
			w.res.Probe("in-session-decode")
			if how != "ok" {
				w.res.Probe("in-session-duplicate-decoded")
			}
		} else {
			w.res.Fault("cross-session-delivery")
			if gotMsg {
				w.fail(simcore.Violf("cross-session-replay-decoded", "message #%d encrypted in session %d decoded at node %d which holds session %d", g.id, g.sess, to, r.sess[g.from]))
				return
			}
			if up, ok := p.(*v5wire.Unknown); err != nil || !ok || up.Nonce != g.nonce {
				w.fail(simcore.Violf("undecryptable-not-unknown", "message #%d outside its session decoded to %s err=%v (want UNKNOWN carrying its nonce)", g.id, kind, err))
				return
			}
		}
	case g.kind == "handshake":
		usable := chBefore != nil && r.sentAt[chBefore] >= now.Add(-time.Second) && bytes.Equal(chBefore.ChallengeData, g.cdata)
		mustParse := usable && len(g.record) > 0 && (chBefore.Node == nil || chBefore.Node.Seq() < refRecordSeq(g.record))
		expect := "fail"
		if usable {
			switch g.forge {
			case "", "valid", "valid-300":
				expect = "ok"
			case "badsig", "wrongid":
				if !mustParse {
					expect = "either"
				}
			}
			if len(g.record) == 0 && chBefore.Node == nil {
				expect = "fail" // no record known and none sent
			}
		}
		if !usable {
			w.res.Fault("handshake-without-matching-challenge")
		}
		if gotMsg && n != nil && g.forge != "" && g.forge != "valid" && g.forge != "valid-300" && g.forge != "bad-idsig" {
			if rb, _ := rlp.EncodeToBytes(n.Record()); bytes.Equal(rb, g.record) {
				w.fail(simcore.Violf("forged-record-accepted", "node %d accepted the %s record of a hand-written handshake", to, g.forge))
				return
			}
		}
		switch expect {
		case "ok":
			if !gotMsg || n == nil || src != sender.id || !bytes.Equal(encMsg(p), encMsg(g.msg)) {
				w.fail(simcore.Violf("handshake-rejected", "handshake #%d (%d->%d, forge %q) answering the outstanding challenge was not accepted: %s err=%v", g.id, g.from, g.to, g.forge, kind, err))
				return
			}
			rb, _ := rlp.EncodeToBytes(n.Record())
			if mustParse {
				if !bytes.Equal(rb, g.record) {
					w.fail(simcore.Violf("record-not-canonical", "record accepted in handshake #%d re-encodes to different bytes", g.id))
					return
				}
				w.res.Probe("handshake-record-accepted")
			} else if chBefore.Node != nil {
				cb, _ := rlp.EncodeToBytes(chBefore.Node.Record())
				if !bytes.Equal(rb, cb) {
					w.fail(simcore.Violf("handshake-node-mismatch", "handshake #%d returned a node that is neither the known one nor a newer record", g.id))
					return
				}
			}
			if g.forge != "" {
				w.res.Probe("forged-valid-handshake-accepted")
			}
		case "fail":
			if g.forge != "" {
				w.res.Fault("forged-record-" + g.forge)
			}
			if err == nil {
				w.fail(simcore.Violf("bad-handshake-accepted", "handshake #%d (%d->%d, forge %q, usable challenge %v) must be rejected but decoded to %s", g.id, g.from, g.to, g.forge, usable, kind))
				return
			}
		}
		if gotMsg && n != nil {
			r.sess[g.from] = g.sess
		}
	}
	if r.codec.SessionNode(sender.id, fromAddr) == nil && r.sess[g.from] != 0 && fromAddr == sender.addr {
		simcore.Harnessf("C45 model drift after delivery: node %d has no session for %d but the model says %d", to, g.from, r.sess[g.from])
	}
	if err != nil {
		return
	}
	// reaction, as in UDPv5.handle
	switch p := p.(type) {
	case *v5wire.Unknown:
		w.handleUnknown(r, src, fromAddr, p)
	case *v5wire.Whoareyou:
		// the challenge data the codec handed out, as of now (a later Decode must not change it)
		w.handleWhoareyou(r, p, append([]byte{}, p.ChallengeData...), w.deferNext)
	default:
		r.inbox++
		if n != nil {
			if peer := w.nodeAt(src, fromAddr); peer != nil {
				r.known[peer.idx] = n
			}
		}
	}
}

func (w *world45) handleUnknown(r *node45, src enode.ID, fromAddr string, p *v5wire.Unknown) {
	peer := w.nodeAt(src, fromAddr)
	if cur := r.codec.CurrentChallenge(src, fromAddr); cur != nil {
		enc, _, err := r.codec.Encode(src, fromAddr, cur, nil)
		if err != nil {
			w.fail(simcore.Violf("encode-failed", "re-encoding a WHOAREYOU failed: %v", err))
			return
		}
		w.res.Probe("challenge-repeated")
		if peer != nil {
			w.put(&pkt45{from: r.idx, to: peer.idx, raw: enc, kind: "whoareyou", way: cur})
		}
		return
	}
	ch := &v5wire.Whoareyou{Nonce: p.Nonce}
	crand.Read(ch.IDNonce[:])
	if peer != nil {
		if kn := r.known[peer.idx]; kn != nil {
			ch.Node, ch.RecordSeq = kn, kn.Seq()
		}
	}
	enc, _, err := r.codec.Encode(src, fromAddr, ch, nil)
	if err != nil {
		w.fail(simcore.Violf("encode-failed", "encoding a WHOAREYOU failed: %v", err))
		return
	}
	r.sentAt[ch] = w.clock.Now()
	if peer != nil {
		w.put(&pkt45{from: r.idx, to: peer.idx, raw: enc, kind: "whoareyou", way: ch})
	}
}

func (w *world45) handleWhoareyou(r *node45, p *v5wire.Whoareyou, cdata []byte, later bool) {
	c := r.pending[p.Nonce]
	if c == nil {
		w.res.Probe("challenge-without-call")
		return
	}
	if c.hsCount > 0 {
		w.res.Probe("challenge-twice")
		return
	}
	c.hsCount++
	p.Node = r.known[c.to]
	delete(r.pending, p.Nonce)
	d := &deferred45{c: c, p: p, cdata: cdata}
	if later {
		r.deferred = append(r.deferred, d)
		w.res.Probe("handshake-reply-deferred")
		return
	}
	w.sendHandshake(r, d)
}

// sendHandshake answers a decoded challenge (possibly after other packets were decoded
// by the same codec in between).
func (w *world45) sendHandshake(r *node45, d *deferred45) {
	c, p := d.c, d.p
	dst := w.nodes[c.to]
	var record []byte
	if p.RecordSeq < r.ln.Node().Seq() {
		record, _ = rlp.EncodeToBytes(r.ln.Node().Record())
	}
	w.nextSess++
	if c.forge != "" {
		rec, signKey := record, r.key
		if c.forge == "bad-idsig" {
			// the genuine record, but the identity proof is signed by somebody else's key
			signKey = dst.key
		} else {
			rec = forgeRecord(r, c.forge, w)
		}
		raw := forgeHandshake(r.id, dst, signKey, d.cdata, rec, encMsg(c.msg))
		w.put(&pkt45{from: r.idx, to: c.to, raw: raw, kind: "handshake", msg: c.msg, sess: w.nextSess, cdata: d.cdata, record: rec, forge: c.forge})
		return
	}
	enc, nonce, err := r.codec.Encode(dst.id, dst.addr, c.msg, p)
	if err != nil {
		w.fail(simcore.Violf("encode-failed", "encoding a handshake packet failed: %v", err))
		return
	}
	r.sess[c.to] = w.nextSess
	r.pending[nonce] = c
	w.put(&pkt45{from: r.idx, to: c.to, raw: enc, kind: "handshake", msg: c.msg, sess: w.nextSess, cdata: d.cdata, record: record, nonce: nonce})
}

func (w *world45) flush(r *node45) {
	ds := r.deferred
	r.deferred = nil
	for _, d := range ds {
		w.res.Probe("deferred-handshake-sent")
		w.sendHandshake(r, d)
	}
}

// impersonate: node m, from its own address, claims to be another identity A that the
// receiver has no record of. It provokes a challenge with a hand-written random packet
// carrying A's id and answers it with a handshake whose header says A but whose record,
// identity proof and ephemeral key are m's own. It must never be accepted as A.
// Control: the same exchange with a fresh identity used consistently must be accepted.
func (w *world45) impersonate(op *Op45) {
	m, r := w.nodes[op.From], w.nodes[op.To]
	akey, err := crypto.ToECDSA(crypto.Keccak256(binary.BigEndian.AppendUint64([]byte("impersonated"), op.Seed)))
	if err != nil {
		return
	}
	aid := enode.PubkeyToIDV4(&akey.PublicKey)
	control := op.Forge == "control"
	raw := forgeRandomPacket(aid, r.id)
	src, _, p, err := r.codec.Decode(raw, m.addr)
	up, ok := p.(*v5wire.Unknown)
	if err != nil || !ok || src != aid {
		w.fail(simcore.Violf("random-packet", "hand-written random packet decoded to %v err=%v", p, err))
		return
	}
	if r.codec.CurrentChallenge(aid, m.addr) != nil {
		return // (same made-up identity twice)
	}
	ch := &v5wire.Whoareyou{Nonce: up.Nonce}
	crand.Read(ch.IDNonce[:])
	if _, _, err := r.codec.Encode(aid, m.addr, ch, nil); err != nil {
		w.fail(simcore.Violf("encode-failed", "encoding a WHOAREYOU failed: %v", err))
		return
	}
	r.sentAt[ch] = w.clock.Now()
	w.bumpN++
	signKey, recKey := m.key, m.key
	if control {
		signKey, recKey = akey, akey
	}
	rec := refSignRecord(recKey, rlpUint(uint64(1000+w.bumpN)), basePairs(recKey, []refPair{{"ip", rlpString([]byte{198, 51, 100, byte(10 + m.idx)})}, {"udp", rlpUint(30303)}}))
	msg := &v5wire.Ping{ReqID: []byte{0xa1}, ENRSeq: 7}
	hs := forgeHandshake(aid, r, signKey, ch.ChallengeData, rec, encMsg(msg))
	src, n, p, err := r.codec.Decode(hs, m.addr)
	w.log = w.log.String("impersonate").String(fmt.Sprint(err))
	w.res.Events++
	established := r.codec.SessionNode(aid, m.addr) != nil
	if control {
		if err != nil || !isMessage(p) || n == nil || n.ID() != aid || !established {
			w.fail(simcore.Violf("handshake-rejected", "a well-formed hand-written handshake from a fresh identity (no record known to the receiver) was not accepted: %v err=%v", p, err))
			return
		}
		w.res.Probe("fresh-identity-handshake-accepted")
		return
	}
	w.res.Fault("handshake-claiming-other-identity")
	if (err == nil && isMessage(p)) || established {
		w.fail(simcore.Violf("impersonation-accepted", "node %d accepted a handshake whose header claims source id %x but whose record, identity proof and keys are node %d's (%x): decoded %v, node %v, session stored for the claimed id: %v",
			r.idx, aid[:6], m.idx, m.id[:6], p != nil && err == nil, n != nil, established))
	}
}

// forgeRandomPacket is a hand-written ordinary message packet with random content.
func forgeRandomPacket(srcID, dstID enode.ID) []byte {
	var iv [16]byte
	var nonce [12]byte
	body := make([]byte, 20)
	crand.Read(iv[:])
	crand.Read(nonce[:])
	crand.Read(body)
	head := append([]byte{}, iv[:]...)
	head = append(head, "discv5"...)
	head = binary.BigEndian.AppendUint16(head, 1)
	head = append(head, 0)
	head = append(head, nonce[:]...)
	head = binary.BigEndian.AppendUint16(head, 32)
	head = append(head, srcID[:]...)
	mblk, _ := aes.NewCipher(dstID[:16])
	cipher.NewCTR(mblk, iv[:]).XORKeyStream(head[16:], head[16:])
	return append(head, body...)
}

const staticHeaderSize = 23 // protocol id 6, version 2, flag 1, nonce 12, authsize 2

func tamper45(raw []byte, op *Op45) []byte {
	out := append([]byte{}, raw...)
	switch op.Mode {
	case "cut":
		n := 1 + op.Pos%min(len(out), 40)
		return out[:len(out)-n]
	case "extend":
		n := 1 + op.Pos%16
		for i := 0; i < n; i++ {
			out = append(out, byte(op.Pos>>uint(i%8))^op.Mask)
		}
		return out
	}
	lo, hi := 0, len(out)
	switch op.Region {
	case 0:
		hi = 16
	case 1:
		lo, hi = 16, 16+staticHeaderSize
	case 2:
		lo, hi = 16+staticHeaderSize, min(len(out), 16+staticHeaderSize+34)
	case 3:
		lo = max(0, len(out)-40)
	}
	if hi > len(out) {
		hi = len(out)
	}
	if lo >= hi {
		lo, hi = 0, len(out)
	}
	m := op.Mask
	if m == 0 {
		m = 1
	}
	out[lo+op.Pos%(hi-lo)] ^= m
	return out
}

func (w *world45) deliverOp(op *Op45) {
	if len(w.inflight) == 0 {
		return
	}
	i := op.Pick % len(w.inflight)
	g := w.history[w.inflight[i]]
	if op.Mode != "dup" {
		w.inflight = append(w.inflight[:i], w.inflight[i+1:]...)
	}
	switch op.Mode {
	case "drop":
		w.res.Fault("drop")
		return
	case "ok", "dup", "":
		how := "ok"
		if op.Mode == "dup" {
			how = "dup"
			w.res.Fault("duplicate")
		}
		w.deferNext = op.Defer
		w.deliver(g, g.to, g.fromAddr, g.raw, true, how)
		w.deferNext = false
	case "tamper", "cut", "extend":
		w.deliver(g, g.to, g.fromAddr, tamper45(g.raw, op), false, op.Mode)
	case "misaddr":
		to := op.To % len(w.nodes)
		if to == g.to {
			to = (to + 1) % len(w.nodes)
		}
		w.deliver(g, to, g.fromAddr, g.raw, false, "misaddr")
	case "spoof":
		w.deliver(g, g.to, "203.0.113.77:30303", g.raw, false, "spoof")
	}
}

// drain delivers everything in flight cleanly, in order, until nothing is left.
func (w *world45) drain(limit int) {
	for k := 0; len(w.inflight) > 0 && k < limit; k++ {
		g := w.history[w.inflight[0]]
		w.inflight = w.inflight[1:]
		w.deliver(g, g.to, g.fromAddr, g.raw, true, "ok")
		if w.viol != nil {
			return
		}
	}
}

func (w *world45) timeoutCalls() {
	for _, n := range w.nodes {
		n.pending = map[v5wire.Nonce]*call45{}
		n.deferred = nil
	}
}

func newNode45(idx int, keyHex string, clock *mclock.Simulated) *node45 {
	key, err := crypto.ToECDSA(unhex(keyHex))
	if err != nil {
		simcore.Harnessf("bad key in plan")
	}
	// a fresh memory database per run, created inside the bubble (a database shared with goroutines
	// outside the bubble breaks as soon as goleveldb rotates its memtable: its compaction goroutine then
	// acknowledges on a channel made inside the bubble)
	db, err := enode.VerifOpenSmallMemDB()
	if err != nil {
		simcore.Harnessf("enode db: %v", err)
	}
	ln := enode.NewLocalNode(db, key)
	ip := net.IP{198, 51, 100, byte(10 + idx)}
	ln.SetStaticIP(ip)
	ln.SetFallbackUDP(30303)
	n := &node45{idx: idx, key: key, db: db, ln: ln, addr: fmt.Sprintf("%s:30303", ip), id: ln.ID(),
		known: map[int]*enode.Node{}, pending: map[v5wire.Nonce]*call45{}, sess: map[int]int{}, sentAt: map[*v5wire.Whoareyou]mclock.AbsTime{}}
	n.codec = v5wire.NewCodec(ln, key, clock, nil)
	return n
}

func Run45(t *testing.T, pl any) *simcore.Result {
	p := pl.(*Plan45)
	res := simcore.NewResult()
	cryptotest.SetGlobalRandom(t, p.CryptoSeed)
	w := &world45{t: t, res: res, clock: &mclock.Simulated{}, log: simcore.NewHash()}
	// the bubble only provides a fixed virtual wall clock (LocalNode sequence numbers
	// start from time.Now) — the run itself is single-threaded.
	dl, pv := runBubble(t, func() {
		for i, k := range p.Keys {
			w.nodes = append(w.nodes, newNode45(i, k, w.clock))
		}
		defer func() {
			for _, n := range w.nodes {
				n.db.Close()
			}
			time.Sleep(2 * time.Second) // goleveldb's pool drainer lingers up to 1 s after Close
		}()
		// everybody knows everybody's first record, except that the highest node is
		// unknown to node 0 (handshake must then carry the record)
		for _, a := range w.nodes {
			for _, b := range w.nodes {
				if a != b && !(a.idx == 0 && b.idx == len(w.nodes)-1) {
					a.known[b.idx] = b.ln.Node()
				}
			}
		}
		for i := range p.Ops {
			op := &p.Ops[i]
			if op.From >= len(w.nodes) || op.To >= len(w.nodes) {
				op.From, op.To = op.From%len(w.nodes), op.To%len(w.nodes)
			}
			switch op.Op {
			case "send", "exchange":
				if op.From == op.To || op.Msg == nil {
					continue
				}
				if w.nodes[op.From].known[op.To] == nil {
					// a call needs the ENR of its target
					w.nodes[op.From].known[op.To] = w.nodes[op.To].ln.Node()
				}
				w.send(op.From, op.To, buildMsg45(w, op.Msg), op.Forge)
				if op.Op == "exchange" {
					w.drain(8)
				}
			case "deliver":
				w.deliverOp(op)
			case "replay":
				if len(w.history) == 0 {
					continue
				}
				g := w.history[op.Pick%len(w.history)]
				w.res.Fault("replay")
				w.deliver(g, g.to, g.fromAddr, g.raw, true, "replay")
			case "reset":
				n := w.nodes[op.From]
				n.codec = v5wire.NewCodec(n.ln, n.key, w.clock, nil)
				n.sess = map[int]int{}
				n.pending = map[v5wire.Nonce]*call45{}
				n.deferred = nil
				w.res.Fault("session-reset")
			case "clock":
				w.clock.Run(time.Duration(op.MS) * time.Millisecond)
				if op.MS >= 700 {
					w.timeoutCalls()
				}
				w.res.SimTimeNS += int64(op.MS) * 1e6
			case "bump":
				n := w.nodes[op.From]
				w.bumpN++
				n.ln.Set(enr.WithEntry("x", uint64(w.bumpN)))
				n.ln.Node()
			case "flush":
				w.flush(w.nodes[op.From])
			case "impersonate":
				if op.From != op.To {
					w.impersonate(op)
				}
			case "probe":
				if v := runProbe45(op.Probe, res); v != nil {
					w.fail(v)
				}
			}
			if w.viol != nil {
				return
			}
		}
		// bounded liveness: faults stop, outstanding challenges expire, calls time out;
		// one more call per direction must then get through within one exchange
		w.inflight = nil
		w.clock.Run(1100 * time.Millisecond)
		w.timeoutCalls()
		for a := range w.nodes {
			b := (a + 1) % len(w.nodes)
			for _, pr := range [][2]int{{a, b}, {b, a}} {
				before := w.nodes[pr[1]].inbox
				if w.nodes[pr[0]].known[pr[1]] == nil {
					w.nodes[pr[0]].known[pr[1]] = w.nodes[pr[1]].ln.Node()
				}
				w.send(pr[0], pr[1], &v5wire.Ping{ReqID: []byte{byte(a), 0xee}, ENRSeq: 1}, "")
				w.drain(8)
				if w.viol != nil {
					return
				}
				if w.nodes[pr[1]].inbox != before+1 {
					w.fail(simcore.Violf("no-session-after-retry", "after faults stopped and timeouts passed, a PING from %d to %d was not delivered within one handshake exchange", pr[0], pr[1]))
					return
				}
				res.Probe("liveness-ping-delivered")
			}
		}
	})
	if pv != nil {
		return res.Fail(pv)
	}
	if dl != "" {
		simcore.Harnessf("C45 bubble: %s", dl)
	}
	res.LogHash = uint64(w.log)
	res.StateFP = uint64(w.log)
	res.NonTrivial = len(res.Faults) > 0
	if w.viol != nil {
		res.Fail(w.viol)
	}
	return res
}

// ---- a hand-written handshake packet (independent implementation of the wire spec)

func forgeHandshake(srcID enode.ID, dst *node45, signKey *ecdsa.PrivateKey, cdata, record, msgPT []byte) []byte {
	eph, err := crypto.GenerateKey()
	if err != nil {
		simcore.Harnessf("forge: %v", err)
	}
	ephpub := crypto.CompressPubkey(&eph.PublicKey)
	h := sha256.New()
	h.Write([]byte("discovery v5 identity proof"))
	h.Write(cdata)
	h.Write(ephpub)
	h.Write(dst.id[:])
	sig, err := crypto.Sign(h.Sum(nil), signKey)
	if err != nil {
		simcore.Harnessf("forge sign: %v", err)
	}
	sig = sig[:64]
	sx, sy := crypto.S256().ScalarMult(dst.key.PublicKey.X, dst.key.PublicKey.Y, eph.D.Bytes())
	secret := make([]byte, 33)
	secret[0] = 0x02 | byte(sy.Bit(0))
	sx.FillBytes(secret[1:])
	info := append([]byte("discovery v5 key agreement"), srcID[:]...)
	info = append(info, dst.id[:]...)
	kdf := hkdf.New(sha256.New, secret, cdata, info)
	initiatorKey := make([]byte, 16)
	io.ReadFull(kdf, initiatorKey)

	var iv [16]byte
	var nonce [12]byte
	crand.Read(iv[:])
	crand.Read(nonce[:])
	auth := append([]byte{}, srcID[:]...)
	auth = append(auth, 64, 33)
	auth = append(auth, sig...)
	auth = append(auth, ephpub...)
	auth = append(auth, record...)
	head := append([]byte{}, iv[:]...)
	head = append(head, "discv5"...)
	head = binary.BigEndian.AppendUint16(head, 1)
	head = append(head, 2)
	head = append(head, nonce[:]...)
	head = binary.BigEndian.AppendUint16(head, uint16(len(auth)))
	head = append(head, auth...)
	blk, _ := aes.NewCipher(initiatorKey)
	gcm, _ := cipher.NewGCM(blk)
	ct := gcm.Seal(nil, nonce[:], msgPT, head)
	mblk, _ := aes.NewCipher(dst.id[:16])
	out := append([]byte{}, head...)
	cipher.NewCTR(mblk, iv[:]).XORKeyStream(out[16:], out[16:])
	return append(out, ct...)
}
