package snapsim

import (
	"bytes"
	"context"
	"encoding/json"
	"fmt"
	"log/slog"
	"os"
	"sort"
	"sync"
	"sync/atomic"
	"testing"
	"testing/synctest"
	"time"

	"github.com/ethereum/go-ethereum/common"
	"github.com/ethereum/go-ethereum/core"
	"github.com/ethereum/go-ethereum/core/rawdb"
	"github.com/ethereum/go-ethereum/core/types"
	"github.com/ethereum/go-ethereum/crypto"
	"github.com/ethereum/go-ethereum/eth/protocols/snap"
	"github.com/ethereum/go-ethereum/ethdb"
	"github.com/ethereum/go-ethereum/ethdb/memorydb"
	"github.com/ethereum/go-ethereum/log"
	"github.com/ethereum/go-ethereum/rlp"

	"verifsim/refmpt"
	"verifsim/simcore"
	"verifsim/simdisk"
	"verifsim/simsched"
)

var trace = os.Getenv("VERIF_TRACE") != ""

// Op is one operation of the world besides message traffic. It fires once
// `After` responses have been handed to the syncer (or at once when the sync
// finished earlier).
//
//	move          Node A's head advances N blocks, the pivot follows (cancel Sync, Sync(new pivot))
//	restart       cancel Sync, drop the syncer object, new syncer on the same disk
//	restart-move  both
//	drop / join   peer N unregisters / registers
//	jump          the clock jumps N seconds with requests in flight
//	crash         the process dies (no graceful save): a new syncer starts on the disk image of that
//	              instant, minus the last N mutation units (N > 0: power loss, nothing was synced;
//	              N = -1: everything after the last progress-journal write is lost, N = -2: that write too)
type Op struct {
	After int    `json:"after"`
	K     string `json:"k"`
	N     int    `json:"n"`
}

type Plan struct {
	Ver        int         `json:"ver"` // 1 = snap/1 syncer (healing), 2 = snap/2 syncer (BAL catch-up, GenerateTrie)
	SchemeA    string      `json:"scheme_a"`
	SchemeB    string      `json:"scheme_b"`
	AccConc    int         `json:"acc_conc"`
	StoConc    int         `json:"sto_conc"`
	State      StatePlan   `json:"state"`
	Blocks     []BlockPlan `json:"blocks"`
	Pivot0     int         `json:"pivot0"`
	Peers      []PeerPlan  `json:"peers"`
	Salt       uint64      `json:"salt"`
	Ops        []Op        `json:"ops"`
	FaultStop  int         `json:"fault_stop"` // faults stop after this many requests
	Concurrent int         `json:"concurrent"` // up to this many responses are handed to the syncer at the same instant
	Tape       []uint16    `json:"tape"`
	// Confirm > 0 (set on minimisation candidates): the plan is executed 1+Confirm
	// times and counts as violating only if every execution violates the same
	// oracle, so that minimisation keeps plans that fail robustly although the
	// syncer's internal scheduling is not decided by the plan.
	Confirm int `json:"confirm,omitempty"`
}

// ---- process prologue: log handler, process-wide pools

var (
	prologueOnce sync.Once
	logErrors    atomic.Int64
	logWarns     atomic.Int64
)

type critHandler struct{}

func (critHandler) Enabled(_ context.Context, l slog.Level) bool { return l >= slog.LevelWarn || trace }
func (critHandler) Handle(_ context.Context, r slog.Record) error {
	switch {
	case r.Level >= log.LevelCrit:
		var sb bytes.Buffer
		r.Attrs(func(a slog.Attr) bool { fmt.Fprintf(&sb, " %s=%v", a.Key, a.Value); return true })
		fmt.Printf("CRIT-LOG %s%s\n", r.Message, sb.String())
		panic("log.Crit: " + r.Message + sb.String())
	case r.Level >= slog.LevelError:
		logErrors.Add(1)
	case r.Level >= slog.LevelWarn:
		logWarns.Add(1)
	}
	if trace && os.Getenv("VERIF_TRACE") == "2" {
		var sb bytes.Buffer
		r.Attrs(func(a slog.Attr) bool { fmt.Fprintf(&sb, " %s=%v", a.Key, a.Value); return true })
		fmt.Printf("    log[%v] %s%s\n", r.Level, r.Message, sb.String())
	}
	return nil
}
func (h critHandler) WithAttrs([]slog.Attr) slog.Handler { return h }
func (h critHandler) WithGroup(string) slog.Handler      { return h }

func prologue() {
	prologueOnce.Do(func() {
		core.SenderCacher() // process-wide worker pool: must exist before the first bubble
		findTinyKeys()
		log.SetDefault(log.NewLogger(critHandler{}))
	})
}

// ---- the run

type runState struct {
	p      *Plan
	res    *simcore.Result
	w      *World
	kv     *simdisk.SimKV
	base   *memorydb.Database // image the current kv was started from (after a crash)
	db     ethdb.Database
	net    *Net
	tape   *simcore.TapeReader
	syncer snap.Syncer
	cancel chan struct{}
	done   chan error
	pivot  int
	// every state root the flat state may legitimately have been taken from
	legit                    []common.Hash
	moved                    bool
	markerHit                string
	viol                     *simcore.Violation
	opsDone                  int
	complete                 bool
	stopAt                   time.Duration // virtual instant at which faults stopped
	cycleErrs, errsAfterStop int
	powerLoss                bool
	chunkAtMove int64
	outcome                  simcore.Hash64
}

func (rs *runState) fail(v *simcore.Violation) {
	if rs.viol == nil {
		rs.viol = v
	}
}

func (rs *runState) newSyncer() {
	if rs.p.Ver == 2 {
		rs.syncer = snap.NewV2Syncer(rs.db, rs.p.SchemeB)
	} else {
		rs.syncer = snap.NewV1Syncer(rs.db, rs.p.SchemeB)
	}
	rs.net.epoch++
	for _, p := range rs.net.peers {
		p.joined = false
		if !p.away {
			rs.register(p)
		}
	}
}

func (rs *runState) register(p *simPeer) {
	if p.joined {
		return
	}
	if err := rs.syncer.Register(p); err != nil {
		simcore.Harnessf("register %s: %v", p.id, err)
	}
	p.joined = true
}

func (rs *runState) unregister(p *simPeer) {
	if !p.joined {
		return
	}
	if err := rs.syncer.Unregister(p.id); err != nil {
		simcore.Harnessf("unregister %s: %v", p.id, err)
	}
	p.joined = false
}

func (rs *runState) startSync() {
	hdr := rs.w.Header(rs.pivot)
	rs.addLegit(hdr.Root)
	rs.cancel = make(chan struct{})
	rs.done = make(chan error, 1)
	cancel, done, s := rs.cancel, rs.done, rs.syncer
	go func() {
		defer func() {
			if r := recover(); r != nil {
				done <- fmt.Errorf("PANIC in Sync: %v", r)
			}
		}()
		done <- s.Sync(hdr, cancel)
	}()
	if trace {
		fmt.Printf("t=%v Sync(pivot=%d root=%x) epoch=%d\n", rs.net.now(), rs.pivot, hdr.Root[:4], rs.net.epoch)
	}
}

// stopSync cancels a running cycle and waits for Sync to return.
func (rs *runState) stopSync() {
	if rs.done == nil {
		return
	}
	close(rs.cancel)
	err := <-rs.done
	rs.done = nil
	rs.noteSyncErr(err)
}

func (rs *runState) noteSyncErr(err error) {
	if err != nil && len(err.Error()) > 5 && err.Error()[:5] == "PANIC" {
		rs.fail(&simcore.Violation{Oracle: "panic", Key: "panic:Sync", Msg: err.Error()})
	}
}

func (rs *runState) addLegit(root common.Hash) {
	for _, r := range rs.legit {
		if r == root {
			return
		}
	}
	rs.legit = append(rs.legit, root)
}

func (rs *runState) writeHeaders(from, to int) {
	for i := from; i <= to; i++ {
		h := rs.w.Header(i)
		rawdb.WriteHeader(rs.db, h)
		rawdb.WriteCanonicalHash(rs.db, h.Hash(), h.Number.Uint64())
	}
}

// movePivot advances Node A and the pivot by n blocks. Returns false if nothing moved.
func (rs *runState) movePivot(n int) bool {
	if rs.pivot+n > len(rs.p.Blocks) {
		n = len(rs.p.Blocks) - rs.pivot
	}
	if n <= 0 {
		return false
	}
	if rs.syncer.FrozenPivot() != nil {
		rs.res.Probe("move-refused-frozen-pivot")
		return false
	}
	if c := rs.net.chunkReqs.Load(); c > 0 && c != rs.chunkAtMove {
		rs.res.Probe("pivot-move-after-split-storage-progress")
		rs.chunkAtMove = c
	}
	for i := rs.pivot; i < rs.pivot+n; i++ {
		if rs.w.multiCode[i] {
			rs.res.Probe("pivot-gap-block-with-repeated-code-change")
			break
		}
	}
	rs.w.Import(rs.pivot + n)
	rs.writeHeaders(rs.pivot+1, rs.pivot+n)
	if rs.p.Ver == 2 {
		for i := rs.pivot + 1; i <= rs.pivot+n; i++ {
			rs.addLegit(rs.w.Header(i).Root)
		}
	}
	rs.pivot += n
	rs.moved = true
	return true
}

func (rs *runState) doOp(op Op) {
	if trace {
		fmt.Printf("t=%v op %+v (delivered=%d)\n", rs.net.now(), op, rs.net.delivered)
	}
	rs.outcome = rs.outcome.String(op.K).U64(uint64(op.N))
	switch op.K {
	case "move":
		rs.stopSync()
		if rs.movePivot(op.N) {
			rs.res.Fault("pivot-move")
		}
		rs.startSync()
	case "restart", "restart-move":
		rs.stopSync()
		synctest.Wait()
		rs.newSyncer()
		rs.res.Fault("restart")
		if op.K == "restart-move" && rs.movePivot(op.N) {
			rs.res.Fault("pivot-move")
		}
		rs.startSync()
	case "crash":
		// the image is taken before the cancel, so nothing the graceful teardown
		// writes is part of it
		mem, lost := rs.crashImage(op.N)
		rs.stopSync()
		synctest.Wait()
		rs.base = mem
		rs.kv = simdisk.FromMem(copyMem(mem), nil)
		rs.kv.Hook = rs.markerHook
		rs.db = rawdb.NewDatabase(rs.kv)
		rs.writeHeaders(0, rs.pivot) // the header chain is the downloader's business, not the syncer's
		rs.newSyncer()
		if lost > 0 {
			rs.powerLoss = true
			rs.res.Fault("power-loss")
		} else {
			rs.res.Fault("crash")
		}
		rs.startSync()
	case "drop":
		if !rs.net.faultsOn {
			// a peer leaving for good is a fault: not after the faults-stop instant
			rs.res.Probe("drop-skipped-after-faults-stop")
		} else if op.N < len(rs.net.peers) {
			p := rs.net.peers[op.N]
			if p.joined {
				rs.unregister(p)
				rs.res.Fault("peer-drop")
			}
			p.away = true
		}
	case "join":
		if op.N < len(rs.net.peers) {
			p := rs.net.peers[op.N]
			p.away = false
			if !p.joined {
				rs.register(p)
				rs.res.Fault("peer-join")
			}
		}
	case "jump":
		time.Sleep(time.Duration(op.N) * time.Second)
		rs.res.Fault("clock-jump")
	}
}

func (rs *runState) stopFaults() {
	rs.net.faultsOn = false
	rs.stopAt = rs.net.now()
	// everybody reconnects: clears the syncer's per-cycle "stateless" marks
	for _, p := range rs.net.peers {
		p.away = false
		if p.joined {
			rs.unregister(p)
		}
		rs.register(p)
	}
	if trace {
		fmt.Printf("t=%v faults stop (requests=%d)\n", rs.stopAt, rs.net.requests)
	}
}

const (
	livenessWindow = 24 * time.Hour
)

func (rs *runState) loop() {
	var (
		n      = rs.net
		errc   = make(chan delivery, 64)
		budget = 0 // message budget after the faults stopped, set then
	)
	for {
		synctest.Wait()
		if rs.markerHit != "" {
			rs.fail(simcore.Violf("marker-on-disk", "a forged value reached Node B's disk: %s", rs.markerHit))
		}
		if rs.viol != nil {
			return
		}
		n.drain()
		// collect verdicts of finished deliveries
	collect:
		for {
			select {
			case d := <-errc:
				if d.err != nil {
					if len(d.err.Error()) > 5 && d.err.Error()[:5] == "PANIC" {
						rs.fail(&simcore.Violation{Oracle: "panic", Key: "panic:deliver", Msg: d.err.Error()})
						return
					}
					rs.res.Probe("response-rejected")
					if d.forged {
						rs.res.Probe("forged-response-rejected")
					}
					// the real handler drops a peer whose packet was refused
					if d.peer.joined {
						rs.unregister(d.peer)
						h := simcore.SplitMix(rs.p.Salt ^ uint64(n.delivered)*0x9e37)
						n.push(&event{rejoin: d.peer, due: n.now() + time.Duration(1+h%20000)*time.Millisecond, ord: "rejoin/" + d.peer.id})
					}
				} else if d.forged {
					rs.res.Probe("forged-response-not-rejected")
				}
			default:
				break collect
			}
		}
		// faults stop
		if n.faultsOn && (n.requests >= rs.p.FaultStop || n.now() > 2*time.Hour) {
			rs.stopFaults()
			continue
		}
		if !n.faultsOn && budget == 0 {
			ref := rs.w.Ref(rs.w.Header(rs.pivot).Root)
			items := len(ref.Accounts) + len(ref.Codes)
			for _, a := range ref.Accounts {
				items += 3 * len(a.Storage)
			}
			for _, b := range rs.p.Blocks {
				items += 10 + 10*len(b.Txs)
			}
			budget = n.requests + 40*items + 4000
		}
		// did the cycle end?
		if rs.done != nil {
			select {
			case err := <-rs.done:
				rs.done = nil
				close(rs.cancel)
				rs.noteSyncErr(err)
				if rs.viol != nil {
					return
				}
				if err == nil {
					rs.res.Probe("sync-cycle-completed")
					if rs.opsDone >= len(rs.p.Ops) {
						rs.complete = true
						return
					}
					// remaining operations fire at once
					rs.doOp(rs.p.Ops[rs.opsDone])
					rs.opsDone++
					if rs.done == nil {
						rs.startSync()
					}
					continue
				}
				rs.res.Probe("sync-cycle-error")
				if trace {
					fmt.Printf("t=%v Sync returned %v\n", n.now(), err)
				}
				// the downloader retries a failed cycle; back off like it would
				rs.cycleErrs++
				if !n.faultsOn {
					rs.errsAfterStop++
					if rs.errsAfterStop > 40 {
						rs.fail(simcore.Violf("liveness", "sync cycles keep failing after the faults stopped (%d failures, last: %v)%s", rs.errsAfterStop, err, rs.flatDiff()))
						return
					}
				}
				time.Sleep(time.Duration(min(rs.cycleErrs, 60)) * time.Second)
				rs.startSync()
				continue
			default:
			}
		}
		// operations
		if rs.opsDone < len(rs.p.Ops) && n.delivered >= rs.p.Ops[rs.opsDone].After {
			rs.doOp(rs.p.Ops[rs.opsDone])
			rs.opsDone++
			continue
		}
		// bounds
		if !n.faultsOn {
			if n.now()-rs.stopAt > livenessWindow || n.requests > budget {
				rs.fail(simcore.Violf("liveness", "sync did not complete: faults stopped at %v after %d requests; now %v, %d requests (budget %d), all non-evil peers honest",
					rs.stopAt, rs.p.FaultStop, n.now(), n.requests, budget))
				return
			}
		}
		// next event
		if len(n.queue) == 0 {
			select {
			case <-n.wake:
			case <-time.After(30 * time.Second):
			}
			continue
		}
		now := n.now()
		if n.queue[0].due > now {
			select {
			case <-n.wake:
			case <-time.After(n.queue[0].due - now):
			}
			continue
		}
		// events due now: the tape picks among those sharing the earliest instant,
		// and how many are handed over concurrently
		same := 1
		for same < len(n.queue) && n.queue[same].due == n.queue[0].due {
			same++
		}
		k := rs.tape.Next(same)
		batch := []*event{n.queue[k]}
		n.queue = append(n.queue[:k], n.queue[k+1:]...)
		if rs.p.Concurrent > 1 {
			extra := rs.tape.Next(rs.p.Concurrent)
			for extra > 0 && len(n.queue) > 0 && n.queue[0].due <= now+20*time.Millisecond && n.queue[0].req != nil && batch[0].req != nil {
				batch = append(batch, n.queue[0])
				n.queue = n.queue[1:]
				extra--
			}
			if len(batch) > 1 {
				rs.res.Probe("concurrent-deliveries")
			}
		}
		for _, ev := range batch {
			if ev.rejoin != nil {
				if !ev.rejoin.joined && !ev.rejoin.away {
					rs.register(ev.rejoin)
					rs.res.Probe("peer-rejoined")
				}
				continue
			}
			if ev.unreg != nil {
				if ev.unreg.joined {
					rs.unregister(ev.unreg)
				}
				continue
			}
			n.deliver(ev, rs.syncer, errc)
		}
	}
}

// markerHook watches every mutation unit written to Node B's disk.
func (rs *runState) markerHook(op *simdisk.KVOp) {
	check := func(k, v []byte) {
		if rs.markerHit != "" {
			return
		}
		if bytes.Contains(v, markerPrefix) || bytes.Contains(k, markerPrefix) {
			rs.markerHit = fmt.Sprintf("key %x value %x", k, v)
		}
	}
	switch op.Kind {
	case simdisk.OpPut:
		check(op.Key, op.Val)
	case simdisk.OpBatch:
		for i := range op.Batch {
			if op.Batch[i].Kind == simdisk.OpPut {
				check(op.Batch[i].Key, op.Batch[i].Val)
			}
		}
	}
}

func copyMem(src *memorydb.Database) *memorydb.Database {
	dst := memorydb.New()
	it := src.NewIterator(nil, nil)
	for it.Next() {
		dst.Put(common.CopyBytes(it.Key()), common.CopyBytes(it.Value()))
	}
	it.Release()
	return dst
}

func applyUnit(mem *memorydb.Database, op *simdisk.KVOp) {
	switch op.Kind {
	case simdisk.OpPut:
		mem.Put(op.Key, op.Val)
	case simdisk.OpDelete:
		mem.Delete(op.Key)
	case simdisk.OpDeleteRange:
		mem.DeleteRange(op.Key, op.Val)
	case simdisk.OpBatch:
		for i := range op.Batch {
			applyUnit(mem, &op.Batch[i])
		}
	}
}

// crashImage is Node B's disk as a crash at this instant leaves it: the image the
// current disk was started from plus every mutation unit logged since, minus
// the last `lose` units (power loss; the syncer never syncs, so any suffix may be gone).
func (rs *runState) crashImage(lose int) (*memorydb.Database, int) {
	log := rs.kv.Snapshot()
	if lose < 0 {
		// cut relative to the last write of the progress journal: -1 keeps it and
		// drops everything after it, -2 drops it as well
		j := -1
		for i := len(log) - 1; i >= 0 && j < 0; i-- {
			if unitTouches(&log[i], syncStatusKey) {
				j = i
			}
		}
		if j < 0 {
			lose = 1
		} else if lose == -1 {
			lose = len(log) - (j + 1)
		} else {
			lose = len(log) - j
		}
	}
	if lose > len(log) {
		lose = len(log)
	}
	mem := memorydb.New()
	if rs.base != nil {
		mem = copyMem(rs.base)
	}
	for i := 0; i < len(log)-lose; i++ {
		applyUnit(mem, &log[i])
	}
	return mem, lose
}

var syncStatusKey = []byte("SnapshotSyncStatus")

func unitTouches(op *simdisk.KVOp, key []byte) bool {
	if op.Kind == simdisk.OpBatch {
		for i := range op.Batch {
			if unitTouches(&op.Batch[i], key) {
				return true
			}
		}
		return false
	}
	return bytes.Equal(op.Key, key)
}

func (rs *runState) initDisk() {
	rs.kv = simdisk.NewSimKV(nil)
	rs.kv.Hook = rs.markerHook
	rs.db = rawdb.NewDatabase(rs.kv)
}

func runWorld(p *Plan, res *simcore.Result) *runState {
	oldA, oldS := snap.VerifSetConcurrency(p.AccConc, p.StoConc)
	defer snap.VerifSetConcurrency(oldA, oldS)

	rs := &runState{p: p, res: res, tape: &simcore.TapeReader{T: p.Tape}, outcome: simcore.NewHash()}
	rs.w = NewWorld(&p.State, p.Blocks, p.SchemeA, p.Pivot0)
	defer rs.w.Stop()
	rs.initDisk()
	rs.net = NewNet(rs.w, res, p.Salt, p.Peers)
	rs.pivot = p.Pivot0
	rs.writeHeaders(0, rs.pivot)
	rs.newSyncer()
	rs.startSync()
	rs.loop()
	// tear down: cancel whatever still runs, let in-flight goroutines finish
	if rs.done != nil {
		close(rs.cancel)
		<-rs.done
		rs.done = nil
	}
	synctest.Wait()
	res.SimTimeNS = int64(rs.net.now())
	res.Events = rs.net.requests
	if n := rs.net.chunkReqs.Load(); n > 0 {
		res.Probes["storage-chunk-requests"] += int(n)
		res.Probe("runs-with-split-storage")
	}
	for k, c := range rs.net.perKind {
		if c > 0 {
			res.Probes["requests:"+kindName[k]] += c
		}
	}
	if rs.viol == nil {
		rs.viol = rs.checkDisk()
	}
	if rs.viol != nil && isKnown(rs.viol.Key) {
		res.KnownHit(rs.viol.Key)
		rs.viol = nil
	}
	if rs.viol != nil && rs.powerLoss {
		// Coordinator's ruling: a restart on an image that lacks the last writes is
		// outside what C47 states; the outcome of such a run is counted, not judged.
		res.Probe("lost-suffix-restart-outcome:" + rs.viol.Key)
		if trace {
			fmt.Printf("NOT JUDGED (restart on an image without the last writes): %v\n", rs.viol)
		}
		rs.viol = nil
	}
	return rs
}

// ---- oracle on Node B's disk

func isNibblePath(b []byte) bool {
	for _, c := range b {
		if c > 0x0f {
			return false
		}
	}
	return true
}

// checkDisk judges Node B's disk: always the safety clause (every flat entry was
// taken from a state the syncer was pointed at), and after completion the
// equality with the target state.
func (rs *runState) checkDisk() *simcore.Violation {
	mem := rs.kv.Mem()
	var legit []*RefState
	for _, r := range rs.legit {
		legit = append(legit, rs.w.Ref(r))
	}
	final := rs.w.Ref(rs.w.Header(rs.pivot).Root)
	v2 := rs.p.Ver == 2
	exactFlat := rs.complete && (v2 || !rs.moved)

	// flat accounts
	flatAcc := map[common.Hash][]byte{}
	it := mem.NewIterator(rawdb.SnapshotAccountPrefix, nil)
	for it.Next() {
		if len(it.Key()) != 1+common.HashLength {
			continue
		}
		flatAcc[common.BytesToHash(it.Key()[1:])] = common.CopyBytes(it.Value())
	}
	it.Release()
	hashes := make([]common.Hash, 0, len(flatAcc))
	for h := range flatAcc {
		hashes = append(hashes, h)
	}
	sort.Slice(hashes, func(i, j int) bool { return bytes.Compare(hashes[i][:], hashes[j][:]) < 0 })
	for _, h := range hashes {
		blob := flatAcc[h]
		ok := false
		if v2 && !rs.complete {
			// the storage root of a flat account is allowed to lag until GenerateTrie ran
			got, err := types.FullAccount(blob)
			if err != nil {
				return simcore.Violf("unverified-flat-account", "flat account %x on Node B is undecodable: %x", h, blob)
			}
			for _, ref := range legit {
				if a := ref.Account(h); a != nil && a.Acc.Nonce == got.Nonce && a.Acc.Balance.Eq(got.Balance) && bytes.Equal(a.Acc.CodeHash, got.CodeHash) {
					ok = true
					break
				}
			}
		} else {
			for _, ref := range legit {
				if a := ref.Account(h); a != nil && bytes.Equal(a.Slim, blob) {
					ok = true
					break
				}
			}
		}
		if !ok {
			return simcore.Violf("unverified-flat-account", "flat account %x = %x on Node B matches none of the %d states the syncer was pointed at", h, blob, len(legit))
		}
	}
	// flat storage
	type sk struct{ a, s common.Hash }
	flatSto := map[sk][]byte{}
	var skeys []sk
	it = mem.NewIterator(rawdb.SnapshotStoragePrefix, nil)
	for it.Next() {
		if len(it.Key()) != 1+2*common.HashLength {
			continue
		}
		k := sk{common.BytesToHash(it.Key()[1:33]), common.BytesToHash(it.Key()[33:])}
		flatSto[k] = common.CopyBytes(it.Value())
		skeys = append(skeys, k)
	}
	it.Release()
	for _, k := range skeys {
		ok := false
		for _, ref := range legit {
			if a := ref.Account(k.a); a != nil && bytes.Equal(a.Slot(k.s), flatSto[k]) {
				ok = true
				break
			}
		}
		if !ok {
			return simcore.Violf("unverified-flat-slot", "flat slot %x/%x = %x on Node B matches none of the %d states the syncer was pointed at", k.a, k.s, flatSto[k], len(legit))
		}
	}
	// codes: content addressed
	it = mem.NewIterator(rawdb.CodePrefix, nil)
	for it.Next() {
		if len(it.Key()) != 1+common.HashLength {
			continue
		}
		if h := crypto256(it.Value()); !bytes.Equal(h, it.Key()[1:]) {
			it.Release()
			return simcore.Violf("unverified-code", "code stored under %x hashes to %x", it.Key()[1:], h)
		}
	}
	it.Release()
	if !rs.complete {
		return nil
	}
	rs.res.Probe("completed-and-compared")

	// completion: flat state
	if exactFlat {
		if len(flatAcc) != len(final.Accounts) {
			for _, h := range hashes {
				if final.Account(h) == nil {
					return simcore.Violf("final-flat-accounts", "Node B holds flat account %x which is not in the target state (%d on B, %d in target)", h, len(flatAcc), len(final.Accounts))
				}
			}
		}
		slots := 0
		for _, a := range final.Accounts {
			if !bytes.Equal(flatAcc[a.Hash], a.Slim) {
				return simcore.Violf("final-flat-accounts", "flat account %x: Node B has %x, target state has %x", a.Hash, flatAcc[a.Hash], a.Slim)
			}
			for _, s := range a.Storage {
				slots++
				if got := flatSto[sk{a.Hash, common.BytesToHash(s.K)}]; !bytes.Equal(got, s.V) {
					return simcore.Violf("final-flat-storage", "flat slot %x/%x: Node B has %x, target state has %x", a.Hash, s.K, got, s.V)
				}
			}
		}
		if slots != len(flatSto) {
			for _, k := range skeys {
				a := final.Account(k.a)
				if a == nil || a.Slot(k.s) == nil {
					return simcore.Violf("final-flat-storage", "Node B holds flat slot %x/%x = %x which is not in the target state", k.a, k.s, flatSto[k])
				}
			}
		}
	} else {
		rs.res.Probe("flat-state-not-compared(snap1-after-pivot-move)")
	}
	// completion: code
	codeHashes := make([]common.Hash, 0, len(final.Codes))
	for h := range final.Codes {
		codeHashes = append(codeHashes, h)
	}
	sort.Slice(codeHashes, func(i, j int) bool { return bytes.Compare(codeHashes[i][:], codeHashes[j][:]) < 0 })
	for _, h := range codeHashes {
		if got := rawdb.ReadCode(rs.db, h); !bytes.Equal(got, final.Codes[h]) {
			return simcore.Violf("final-code", "code %x: Node B has %d bytes, target has %d bytes", h, len(got), len(final.Codes[h]))
		}
	}
	// completion: the trie reachable from the final root, node by node, against
	// the independent reference encoder
	want := map[string][]byte{} // disk key -> node blob (path scheme) / hash -> blob (hash scheme)
	addTrie := func(owner common.Hash, leaves []refmpt.KV) {
		_, nodes := refmpt.Nodes(leaves)
		for _, nd := range nodes {
			if nd.Embedded {
				continue
			}
			if rs.p.SchemeB == rawdb.PathScheme {
				var key []byte
				if owner == (common.Hash{}) {
					key = append(append([]byte{}, rawdb.TrieNodeAccountPrefix...), nd.Path...)
				} else {
					key = append(append(append([]byte{}, rawdb.TrieNodeStoragePrefix...), owner[:]...), nd.Path...)
				}
				want[string(key)] = nd.RLP
			} else {
				want[string(nd.Hash)] = nd.RLP
			}
		}
	}
	var accLeaves []refmpt.KV
	for _, a := range final.Accounts {
		accLeaves = append(accLeaves, refmpt.KV{K: a.Hash[:], V: a.Full})
		if len(a.Storage) > 0 {
			sl := make([]refmpt.KV, len(a.Storage))
			for i, s := range a.Storage {
				sl[i] = refmpt.KV{K: s.K, V: s.V}
			}
			addTrie(a.Hash, sl)
		}
	}
	addTrie(common.Hash{}, accLeaves)
	wantKeys := make([]string, 0, len(want))
	for k := range want {
		wantKeys = append(wantKeys, k)
	}
	sort.Strings(wantKeys)
	var missing, wrong []string
	for _, k := range wantKeys {
		got, _ := mem.Get([]byte(k))
		if len(got) == 0 {
			missing = append(missing, fmt.Sprintf("%x", k))
		} else if !bytes.Equal(got, want[k]) {
			wrong = append(wrong, fmt.Sprintf("%x", k))
		}
	}
	if len(missing)+len(wrong) > 0 {
		v := simcore.Violf("final-trie", "Sync returned nil but of the %d nodes of the target tries %d are missing and %d differ on Node B (keys: scheme %s; missing %v wrong %v)",
			len(wantKeys), len(missing), len(wrong), rs.p.SchemeB, head(missing, 6), head(wrong, 6))
		if !v2 && rs.p.SchemeB == rawdb.PathScheme && rs.powerLoss && len(wrong) == 0 {
			// see NOTES.md: the healer's "root already on disk" check predates the
			// range download that deletes boundary nodes
			v.Key = "final-trie:snap1-path-status-lost-after-heal"
		}
		return v
	}
	if rs.p.SchemeB == rawdb.PathScheme {
		extra := 0
		var first []byte
		for _, pfx := range [][]byte{rawdb.TrieNodeAccountPrefix, rawdb.TrieNodeStoragePrefix} {
			it := mem.NewIterator(pfx, nil)
			for it.Next() {
				k := it.Key()
				if pfx[0] == rawdb.TrieNodeAccountPrefix[0] {
					if len(k) > 1+64 || !isNibblePath(k[1:]) {
						continue
					}
				} else if len(k) < 1+32 || len(k) > 1+32+64 || !isNibblePath(k[33:]) {
					continue
				}
				if _, ok := want[string(k)]; !ok {
					if extra == 0 {
						first = common.CopyBytes(k)
					}
					extra++
				}
			}
			it.Release()
		}
		if extra > 0 {
			if v2 {
				return simcore.Violf("dangling-trie-node", "%d trie nodes outside the target trie remain on Node B after GenerateTrie, first key %x", extra, first)
			}
			if rs.moved {
				rs.res.Probe("dangling-path-nodes-after-snap1-with-pivot-move")
			} else {
				rs.res.Probe("dangling-path-nodes-after-snap1-single-root")
				if trace {
					fmt.Printf("DANGLING %d first=%x\n", extra, first)
				}
			}
		}
	}
	return nil
}

// flatDiff names the first differences between Node B's flat state and the state
// of the current pivot (diagnosis for a sync that cannot finish).
func (rs *runState) flatDiff() string {
	final := rs.w.Ref(rs.w.Header(rs.pivot).Root)
	mem := rs.kv.Mem()
	var out []string
	for _, a := range final.Accounts {
		if len(out) >= 3 {
			break
		}
		if blob := rawdb.ReadAccountSnapshot(rs.db, a.Hash); len(blob) > 0 {
			if got, err := types.FullAccount(blob); err == nil && (got.Nonce != a.Acc.Nonce || !got.Balance.Eq(a.Acc.Balance) || !bytes.Equal(got.CodeHash, a.Acc.CodeHash)) {
				out = append(out, fmt.Sprintf("account %x: Node B has nonce %d balance %v code %x, pivot state has nonce %d balance %v code %x", a.Hash[:6],
					got.Nonce, got.Balance, got.CodeHash[:4], a.Acc.Nonce, a.Acc.Balance, a.Acc.CodeHash[:4]))
			}
		}
		for _, sl := range a.Storage {
			got, _ := mem.Get(append(append(append([]byte{}, rawdb.SnapshotStoragePrefix...), a.Hash[:]...), sl.K...))
			if !bytes.Equal(got, sl.V) {
				out = append(out, fmt.Sprintf("slot %x/%x: Node B has %x, pivot state has %x", a.Hash[:6], sl.K[:6], got, sl.V))
				break
			}
		}
	}
	it := mem.NewIterator(rawdb.SnapshotStoragePrefix, nil)
	for it.Next() && len(out) < 4 {
		k := it.Key()
		if len(k) != 65 {
			continue
		}
		a := final.Account(common.BytesToHash(k[1:33]))
		if a == nil || a.Slot(common.BytesToHash(k[33:])) == nil {
			out = append(out, fmt.Sprintf("slot %x/%x = %x on Node B does not exist in the pivot state", k[1:7], k[33:39], it.Value()))
		}
	}
	it.Release()
	if len(out) == 0 {
		return ""
	}
	return fmt.Sprintf("; flat state vs pivot %d: %v", rs.pivot, out)
}

func head(s []string, n int) []string {
	if len(s) > n {
		return append(append([]string{}, s[:n]...), "...")
	}
	return s
}

func crypto256(b []byte) []byte {
	h := crypto.Keccak256(b)
	return h
}

// ---- Check plumbing

func DecodeC47(b []byte) (any, error) {
	p := &Plan{}
	err := json.Unmarshal(b, p)
	return p, err
}

// RunC47 executes a plan. Replaying a file (VERIF_REPLAY) tries up to four
// executions and reports the first violation, because the message sequence
// inside one execution is only perturbed, not decided.
func RunC47(t *testing.T, pl any) *simcore.Result {
	p := pl.(*Plan)
	if os.Getenv("VERIF_REPLAY") != "" {
		var res *simcore.Result
		for i := 0; i < 4; i++ {
			res = runC47Once(t, p)
			if res.Violation != nil {
				break
			}
		}
		return res
	}
	res := runC47Once(t, p)
	for i := 0; i < p.Confirm && res.Violation != nil; i++ {
		again := runC47Once(t, p)
		if again.Violation == nil || again.Violation.Oracle != res.Violation.Oracle {
			again.Violation = nil
			return again
		}
	}
	return res
}

func runC47Once(t *testing.T, p *Plan) *simcore.Result {
	prologue()
	res := simcore.NewResult()
	var rs *runState
	e0, w0 := logErrors.Load(), logWarns.Load()
	var harness *simcore.HarnessPanic
	dl := simsched.Bubble(t, func() {
		defer func() {
			if r := recover(); r != nil {
				if hp, ok := r.(simcore.HarnessPanic); ok {
					harness = &hp
					return
				}
				panic(r)
			}
		}()
		rs = runWorld(p, res)
	})
	if harness != nil {
		simcore.Harnessf("%s", harness.Msg)
	}
	if dl != "" {
		simcore.Harnessf("snapsim bubble: %s", dl)
	}
	if n := logErrors.Load() - e0; n > 0 {
		res.Probes["geth-log-error"] += int(n)
	}
	if n := logWarns.Load() - w0; n > 0 {
		res.Probes["geth-log-warn"] += int(n)
	}
	res.Violation = rs.viol
	nf := 0
	for _, c := range res.Faults {
		nf += c
	}
	res.NonTrivial = nf > 0
	res.SchedFP = uint64(rs.net.msgFP)
	// outcome-level determinism fingerprint: operations performed, final pivot,
	// completion, verdict
	o := rs.outcome.U64(uint64(rs.pivot)).U64(uint64(rs.opsDone))
	if rs.complete {
		o = o.U64(1)
	}
	if rs.viol != nil {
		o = o.String(rs.viol.Oracle)
	}
	res.LogHash = uint64(o)
	res.StateFP = uint64(simcore.NewHash().Bytes(rs.w.Header(rs.pivot).Root[:]).U64(uint64(p.Ver)).String(p.SchemeB))
	if trace {
		fmt.Printf("END complete=%v pivot=%d requests=%d delivered=%d sim=%v faults=%v probes=%v viol=%v\n", rs.complete, rs.pivot, rs.net.requests, rs.net.delivered, time.Duration(res.SimTimeNS), res.Faults, res.Probes, rs.viol)
	}
	return res
}

var _ = rlp.EncodeToBytes
