package snapsim

import (
	"encoding/json"
	"sort"

	"github.com/ethereum/go-ethereum/core/rawdb"

	"verifsim/simcore"
)

func genState(r *simcore.Rand, tier string, big bool) StatePlan {
	sp := StatePlan{Seed: r.Uint64()}
	sp.Plain = r.Range(8, 160)
	sp.Small = r.Range(4, 120)
	sp.SmallMax = r.Range(1, 6)
	nl := r.Pick(2, 4, 3, 1) // 0..3 large contracts
	for i := 0; i < nl; i++ {
		sp.Large = append(sp.Large, r.Range(40, 400))
	}
	if big {
		sp.Large = append(sp.Large, r.Range(1500, 4000))
	}
	sp.Skew = r.Bool(0.5)
	sp.CodePool = r.Range(1, 5)
	sp.Unique = r.Pick(1, 1, 1) * 30
	sp.NoStore = r.Range(0, 8)
	return sp
}

func genBlocks(r *simcore.Rand, n int, sp *StatePlan) []BlockPlan {
	nc := len(sp.Large) + sp.Small + sp.NoStore
	var out []BlockPlan
	for i := 0; i < n; i++ {
		var b BlockPlan
		nt := r.Range(0, 8)
		for j := 0; j < nt; j++ {
			tp := TxPlan{K: r.Pick(6, 2, 1), B: uint32(r.Uint64())}
			switch tp.K {
			case 0:
				// bias towards the large contracts (they are first)
				if len(sp.Large) > 0 && r.Bool(0.5) {
					tp.A = uint32(r.Intn(len(sp.Large)))
				} else {
					tp.A = uint32(r.Intn(max(1, nc)))
				}
				if r.Bool(0.3) {
					tp.V = 0 // clear
				} else {
					tp.V = r.Uint64() | 1
				}
			case 1:
				tp.A = uint32(r.Intn(nSenders))
				tp.V = r.Uint64()
			case 2:
				tp.A = uint32(r.Intn(nSenders))
			}
			b.Txs = append(b.Txs, tp)
		}
		b.Txs = append(b.Txs, genRedelegations(r)...)
		out = append(out, b)
	}
	return out
}

// genRedelegations: in about half of the blocks one authority is re-pointed two
// or three times (EIP-7702), so that the block's access list carries several code
// changes for one account.
func genRedelegations(r *simcore.Rand) []TxPlan {
	if !r.Bool(0.5) {
		return nil
	}
	var out []TxPlan
	a := uint32(r.Intn(nAuthorities))
	for n := r.Range(2, 3); n > 0; n-- {
		out = append(out, TxPlan{K: 3, A: a, B: uint32(r.Uint64())})
	}
	if r.Bool(0.3) {
		out = append(out, TxPlan{K: 3, A: uint32(r.Intn(nAuthorities)), B: uint32(r.Uint64())})
	}
	return out
}

var capChoices = []int{150, 400, 1200, 4000, 16000, 1 << 20}

// genSplitStorage builds the plan class "pivot moves while a split contract is
// partly downloaded": a contract whose storage the syncer splits into chunks
// (all first keys are tiny, every peer answers with a few slots only), at least
// two peers of different speed so that later chunks advance while earlier ones
// are pending, pivot moves / restart-moves placed inside the storage download,
// and blocks whose transactions rewrite and clear existing slots all over that
// contract (so the access lists of the moved-over blocks touch every chunk).
func genSplitStorage(r *simcore.Rand, p *Plan) {
	p.StoConc = []int{2, 4, 16}[r.Pick(1, 2, 3)]
	p.AccConc = []int{1, 2, 4}[r.Intn(3)]
	sp := StatePlan{Seed: r.Uint64(), Plain: r.Range(3, 25), Small: r.Range(1, 12), SmallMax: r.Range(1, 3), Skew: true,
		CodePool: r.Range(1, 3), Unique: 30, NoStore: r.Range(0, 2)}
	sp.Large = []int{r.Range(60, 220)}
	if r.Bool(0.3) {
		sp.Large = append(sp.Large, r.Range(40, 120))
	}
	p.State = sp
	nb := r.Range(3, 9)
	for i := 0; i < nb; i++ {
		var b BlockPlan
		for j := r.Range(3, 9); j > 0; j-- {
			tp := TxPlan{K: 0, A: uint32(r.Intn(len(sp.Large))), B: uint32(r.Uint64())}
			if tp.B%3 == 0 && r.Bool(0.8) {
				tp.B++ // mostly existing slots
			}
			if r.Bool(0.35) {
				tp.V = 0
			} else {
				tp.V = r.Uint64() | 1
			}
			if r.Bool(0.1) {
				tp = TxPlan{K: 1, A: uint32(r.Intn(nSenders)), B: uint32(r.Uint64()), V: r.Uint64()}
			}
			b.Txs = append(b.Txs, tp)
		}
		b.Txs = append(b.Txs, genRedelegations(r)...)
		p.Blocks = append(p.Blocks, b)
	}
	p.Pivot0 = r.Intn(2)
	np := r.Range(2, 4)
	for i := 0; i < np; i++ {
		pp := PeerPlan{Cap: []int{150, 250, 400}[r.Intn(3)]}
		if i == 0 || r.Bool(0.3) {
			pp.LatMin = r.Range(300, 900) // a slow peer keeps its chunk pending
		} else {
			pp.LatMin = r.Range(5, 80)
		}
		pp.LatMax = pp.LatMin + r.Range(0, 100)
		pp.W[aDeliver] = r.Range(60, 100)
		if r.Bool(0.4) {
			for a := aDrop; a < nActions; a++ {
				if r.Bool(0.3) {
					pp.W[a] = r.Range(1, 6)
				}
			}
		}
		p.Peers = append(p.Peers, pp)
	}
	est := estimateRequests(p)
	nmoves := r.Range(1, 3)
	var ats []int
	for i := 0; i < nmoves; i++ {
		ats = append(ats, est/8+r.Intn(est*3/4+1))
	}
	sort.Ints(ats)
	for _, at := range ats {
		op := Op{After: at, K: "move", N: r.Range(1, 3)}
		if r.Bool(0.3) {
			op.K = "restart-move"
		}
		p.Ops = append(p.Ops, op)
	}
	p.FaultStop = r.Range(est/4+5, 2*est+40)
	p.Concurrent = r.Pick(3, 2, 1) + 1
	p.Tape = r.Tape(300)
}

func GenC47(r *simcore.Rand, tier string) any {
	p := &Plan{Ver: 1 + r.Intn(2), Salt: r.Uint64()}
	if r.Bool(0.25) {
		// the split-storage class, mostly for the snap/2 syncer (access-list catch-up on partly fetched chunks)
		if r.Bool(0.75) {
			p.Ver = 2
		}
		schemes := []string{rawdb.HashScheme, rawdb.PathScheme}
		p.SchemeA = schemes[r.Intn(2)]
		p.SchemeB = schemes[r.Intn(2)]
		genSplitStorage(r, p)
		return p
	}
	schemes := []string{rawdb.HashScheme, rawdb.PathScheme}
	p.SchemeA = schemes[r.Intn(2)]
	p.SchemeB = schemes[r.Intn(2)]
	p.AccConc = []int{1, 2, 4, 16}[r.Intn(4)]
	p.StoConc = []int{1, 2, 16}[r.Intn(3)]
	p.State = genState(r, tier, r.Bool(0.04))
	nb := r.Pick(3, 2, 2, 2, 1) * 2
	if nb > 0 {
		nb += r.Intn(3)
	}
	p.Blocks = genBlocks(r, nb, &p.State)
	p.Pivot0 = r.Intn(min(nb, 2) + 1)
	np := r.Pick(3, 3, 2, 1, 1) + 1
	for i := 0; i < np; i++ {
		pp := PeerPlan{Cap: capChoices[r.Intn(len(capChoices))], LatMin: r.Range(1, 200)}
		pp.LatMax = pp.LatMin + r.Range(0, 600)
		pp.W[aDeliver] = r.Range(40, 100)
		faulty := r.Bool(0.7)
		for a := aDrop; a < nActions; a++ {
			if faulty && r.Bool(0.4) {
				pp.W[a] = r.Range(1, 12)
			}
		}
		pp.Evil = i > 0 && r.Bool(0.2)
		p.Peers = append(p.Peers, pp)
	}
	// operations, spread over the estimated length of the sync (in responses)
	est := estimateRequests(p)
	nops := r.Pick(3, 3, 2, 2, 1, 1)
	var ats []int
	for i := 0; i < nops; i++ {
		ats = append(ats, 1+r.Intn(est+est/5+2))
	}
	sort.Ints(ats)
	for i := 0; i < nops; i++ {
		op := Op{After: ats[i]}
		switch r.Pick(4, 2, 2, 1, 1, 1, 2) {
		case 0:
			op.K, op.N = "move", r.Range(1, 3)
		case 1:
			op.K = "restart"
		case 2:
			op.K, op.N = "restart-move", r.Range(1, 3)
		case 3:
			op.K, op.N = "drop", r.Intn(np)
		case 4:
			op.K, op.N = "join", r.Intn(np)
		case 5:
			op.K, op.N = "jump", r.Range(1, 90)
		case 6:
			op.K = "crash"
			switch r.Pick(3, 3, 2, 1) {
			case 1:
				op.N = r.Range(1, 6)
			case 2:
				op.N = -1
			case 3:
				op.N = -2
			}
		}
		p.Ops = append(p.Ops, op)
	}
	p.FaultStop = r.Range(est/4+5, 2*est+40)
	p.Concurrent = r.Pick(3, 2, 1, 1) + 1
	p.Tape = r.Tape(300)
	return p
}

// estimateRequests is a rough guess of how many responses a fault-free sync of
// the plan's state needs; only used to place operations inside the sync.
func estimateRequests(p *Plan) int {
	cap := 1 << 20
	for _, pp := range p.Peers {
		if pp.Cap < cap {
			cap = pp.Cap
		}
	}
	if cap > 64*1024 {
		cap = 64 * 1024
	}
	sp := &p.State
	contracts := len(sp.Large) + sp.Small + sp.NoStore
	accounts := sp.Plain + contracts + 9
	est := p.AccConc + accounts*110/cap
	for _, l := range sp.Large {
		est += 1 + l*75/cap
	}
	est += sp.Small * (1 + sp.SmallMax) * 75 / max(cap, 1024)
	est += contracts/8 + 4
	if p.Ver == 1 {
		est += p.AccConc * 3
	}
	return est
}

func clonePlan(p *Plan) *Plan {
	b, _ := json.Marshal(p)
	q := &Plan{}
	json.Unmarshal(b, q)
	return q
}

func ShrinkC47(pl any) []any {
	p := pl.(*Plan)
	var out []any
	add := func(f func(q *Plan)) {
		q := clonePlan(p)
		f(q)
		q.Confirm = 2
		out = append(out, q)
	}
	// fewer operations
	for _, ops := range simcore.ShrinkSlice(p.Ops) {
		ops := ops
		add(func(q *Plan) { q.Ops = ops })
	}
	// fewer peers
	if len(p.Peers) > 1 {
		for i := range p.Peers {
			i := i
			add(func(q *Plan) {
				q.Peers = append(q.Peers[:i:i], q.Peers[i+1:]...)
				for j := range q.Ops {
					if (q.Ops[j].K == "drop" || q.Ops[j].K == "join") && q.Ops[j].N >= len(q.Peers) {
						q.Ops[j].N = 0
					}
				}
			})
		}
	}
	// no faults at all / one fault kind less
	anyFault := false
	for i := range p.Peers {
		for a := aDrop; a < nActions; a++ {
			if p.Peers[i].W[a] > 0 {
				anyFault = true
			}
		}
	}
	if anyFault {
		add(func(q *Plan) {
			for i := range q.Peers {
				for a := aDrop; a < nActions; a++ {
					q.Peers[i].W[a] = 0
				}
			}
		})
		for a := aDrop; a < nActions; a++ {
			a := a
			has := false
			for i := range p.Peers {
				if p.Peers[i].W[a] > 0 {
					has = true
				}
			}
			if has {
				add(func(q *Plan) {
					for i := range q.Peers {
						q.Peers[i].W[a] = 0
					}
				})
			}
		}
	}
	// smaller state
	if p.State.Plain > 4 {
		add(func(q *Plan) { q.State.Plain /= 2 })
	}
	if p.State.Small > 1 {
		add(func(q *Plan) { q.State.Small /= 2 })
	}
	if len(p.State.Large) > 0 {
		add(func(q *Plan) { q.State.Large = q.State.Large[1:] })
		add(func(q *Plan) {
			for i := range q.State.Large {
				q.State.Large[i] = max(8, q.State.Large[i]/2)
			}
		})
	}
	if p.State.NoStore > 0 {
		add(func(q *Plan) { q.State.NoStore = 0 })
	}
	// fewer transactions
	for i := range p.Blocks {
		if len(p.Blocks[i].Txs) > 0 {
			i := i
			add(func(q *Plan) { q.Blocks[i].Txs = nil })
		}
	}
	if p.Concurrent > 1 {
		add(func(q *Plan) { q.Concurrent = 1 })
	}
	if p.AccConc > 1 {
		add(func(q *Plan) { q.AccConc = 1 })
	}
	if p.StoConc > 1 {
		add(func(q *Plan) { q.StoConc = 1 })
	}
	for _, t := range simcore.ShrinkTape(p.Tape) {
		t := t
		add(func(q *Plan) { q.Tape = t })
	}
	return out
}

func Checks() map[string]*simcore.Check {
	return map[string]*simcore.Check{
		"C47": {
			ID: "C47", Engine: "snapsim", Level: "exploration",
			Rule: "one run = one generated world: Node A (real BlockChain, Amsterdam from genesis, 20-400 accounts, 0-3 large and many small storage tries, shared/unique code, 0-10 further blocks of storage writes/clears, transfers and deployments) served through the real snap handlers to Node B (real snap/1 or snap/2 syncer on SimKV, hash or path scheme) by 1-5 simulated peers; every request gets a planned action keyed by (peer, kind, request content, attempt): deliver after latency / drop / deliver after the longest timeout / duplicate / legal truncation / empty / forged (13 variants, every forged value carries a marker) / peer leaves with the request in flight; operations: pivot moves, restarts on the same disk, peer drop/join, clock jumps, process-crash images (restarts on an image lacking the last writes are executed but only counted, not judged). Non-trivial = at least one fault or operation fired; distinct = distinct (message/decision sequence, final root) fingerprints.",
			Assumptions: []string{
				"the flat state of a snap/1 sync that saw a pivot move is only required to consist of verified entries (geth regenerates it from the trie in SnapSyncComplete); it is compared for equality when the pivot did not move, and always for snap/2",
				"Node A's own state is the reference, cross-checked per root against the independent refmpt root computation",
				"peers cannot answer another peer's request id (the real per-peer request tracker rejects that before the syncer sees it)",
			},
			Components: simcore.Components{
				Real: []string{"eth/protocols/snap syncer v1 (sync.go, gentrie.go) and v2 (syncv2.go, bal_apply.go)", "triedb.GenerateTrie", "trie.VerifyRangeProof", "trie.Sync / state.NewStateSync (healing)", "snap.ServiceGet*Query handlers", "core.BlockChain + pathdb/hashdb + snapshot tree (Node A)", "p2p/msgrate", "ethdb/memorydb under SimKV"},
				Stub: []string{"network and peers (simulated transport, plan-driven)", "clock (synctest bubble)", "eth/downloader (the harness calls Sync/cancel/Register/Unregister the way the downloader does)", "disk (SimKV over memorydb)"},
			},
			Perturbed: []string{
				"order in which the syncer's request goroutines call the peers (canonicalised by sorting on request content)",
				"peer chosen for a task among equally fast idle peers, hashes grouped into one bytecode/storage/trie-node request (Go map iteration inside the syncer): decisions follow the request content, the resulting message sequence differs between processes",
				"select among several ready channels in the syncer's event loop",
				"interleaving of concurrently delivered responses (plan knob 'concurrent')",
				"GenerateTrie partition workers, BlockChain-internal goroutines of Node A",
			},
			Runs: map[string]int{"quick": 2400, "thorough": 60000},
			Gen:  GenC47, Decode: DecodeC47, Run: RunC47, Shrink: ShrinkC47,
			ProbeNames: []string{"completed-and-compared", "forged-response-rejected", "answer-from-unregistered-peer", "answer-to-previous-syncer", "concurrent-deliveries", "peer-rejoined", "sync-cycle-completed"},
		},
		"C48": {
			ID: "C48", Engine: "snapsim", Level: "exploration",
			Rule: "one run = one generated Node A (real BlockChain, hash or path scheme, generated state as in C47, 2-8 further blocks, sometimes 125-140 more so that layers are flattened and roots go stale) and 20-60 generated requests against the real Service*Query handlers: account ranges and storage ranges with origins/limits at, just before, just after and between existing keys, zero, max, inverted and random, byte budgets 0..2x the soft limit and beyond, roots 0-3 blocks behind the head, far behind, unknown; storage requests for 1-40 accounts (contracts, plain accounts, unknown) with origin/limit present, absent or of malformed length; byte code requests mixing existing, unknown and empty-code hashes (up to 1100); trie node requests with existing node paths, key prefixes, over-long, raw malformed paths and zero-item sets; Node A imports blocks between requests (sometimes concurrently with one). In 15% of the runs a real snap/1 sync runs first and every answer the handlers give it is judged too. Non-trivial = at least one request answered; distinct = distinct answer-shape sequences.",
			Assumptions: []string{
				"Node A's state per root is the reference, cross-checked against the independent refmpt root computation; trie nodes are compared with refmpt's node encoder",
				"a storage request that lists an account without storage (or an unknown one) gets no list for it; the oracle aligns the returned lists with the requested accounts that have slots, as the handler does (a real client only lists accounts with a non-empty storage root)",
				"a trie path without a stand-alone node may be skipped or answered with an empty item; every non-empty item must be the node of a requested path, in request order",
				"the server must answer for roots at most 100 blocks behind its head; for older roots an empty answer is accepted as well",
			},
			Components: simcore.Components{
				Real: []string{"snap.ServiceGetAccountRangeQuery / StorageRanges / ByteCodes / TrieNodes", "core.BlockChain, pathdb / hashdb + snapshot tree iterators (Node A)", "trie.Prove, trie.VerifyRangeProof (the client's check)"},
				Stub: []string{"the requesting clients (generated requests)", "clock (synctest bubble)"},
			},
			Perturbed: []string{"block import running concurrently with a request (knob 'conc'): the interleaving inside Node A is not decided", "pathdb background flushing, snapshot generation"},
			Runs:      map[string]int{"quick": 2400, "thorough": 100000},
			Gen:       GenC48, Decode: DecodeC48, Run: RunC48, Shrink: ShrinkC48,
			ProbeNames: []string{"acc-answered", "sto-answered", "sto-multi-list-answer", "sto-proven-answer", "code-answered", "trie-answered", "unknown-root-request", "old-root-request", "inverted-range", "multi-account-storage-request", "import-concurrent-with-request", "trie-bad-request-error", "filler-blocks-imported", "syncer-requests-checked"},
		},
	}
}
