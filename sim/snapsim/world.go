// Package snapsim decides C47 (snap sync reconstructs exactly the target
// state) and C48 (snap protocol responses are valid for any request).
//
// Node A is a real core.BlockChain (Amsterdam from genesis, so blocks carry
// block access lists) serving through the real snap handlers; Node B is the real
// snap syncer (v1 with trie healing, v2 with access-list catch-up and
// GenerateTrie) on a simdisk.SimKV. Everything between them is a simulated
// transport owned by the plan.
package snapsim

import (
	"bytes"
	"crypto/ecdsa"
	"encoding/binary"
	"fmt"
	"math/big"
	"sort"
	"sync"

	"github.com/ethereum/go-ethereum/common"
	"github.com/ethereum/go-ethereum/consensus/beacon"
	"github.com/ethereum/go-ethereum/consensus/ethash"
	"github.com/ethereum/go-ethereum/core"
	"github.com/ethereum/go-ethereum/core/rawdb"
	"github.com/ethereum/go-ethereum/core/types"
	"github.com/ethereum/go-ethereum/crypto"
	"github.com/ethereum/go-ethereum/ethdb"
	"github.com/ethereum/go-ethereum/params"
	"github.com/ethereum/go-ethereum/rlp"
	"github.com/ethereum/go-ethereum/trie"
	"github.com/holiman/uint256"

	"verifsim/refmpt"
	"verifsim/simcore"
)

// StatePlan describes the genesis state of Node A. The state is a
// deterministic function of these numbers.
type StatePlan struct {
	Seed     uint64 `json:"seed"`
	Plain    int    `json:"plain"`     // externally owned accounts (balance/nonce only)
	Small    int    `json:"small"`     // contracts with 1..SmallMax slots
	SmallMax int    `json:"small_max"` // upper bound of slots in a small contract
	Large    []int  `json:"large"`     // slot counts of the large contracts
	Skew     bool   `json:"skew"`      // large contracts own a slot whose hashed key starts with 0x0000 (forces storage chunking)
	CodePool int    `json:"code_pool"` // number of distinct shared codes
	Unique   int    `json:"unique"`    // percent of contracts with a unique code
	NoStore  int    `json:"no_store"`  // contracts with code but without storage
}

// TxPlan is one generated transaction.
// K: 0 set slot (A contract, B slot selector, V value; V=0 clears), 1 transfer
// (A sender, B target selector, V wei), 2 deploy a new setter contract (B tag), 3 EIP-7702
// set-code transaction: authority A (a dedicated key that never sends itself)
// delegates to contract B (B%7 == 0: clears the delegation). Two of them for one
// authority in one block give that account two code changes in the block's access list.
type TxPlan struct {
	K int    `json:"k"`
	A uint32 `json:"a"`
	B uint32 `json:"b"`
	V uint64 `json:"v"`
}

type BlockPlan struct {
	Txs []TxPlan `json:"txs"`
}

// setterCode stores calldata[32:64] at slot calldata[0:32].
var setterCode = []byte{0x60, 0x20, 0x35, 0x60, 0x00, 0x35, 0x55, 0x00}

const nSenders = 3
const nAuthorities = 3

type contract struct {
	addr common.Address
	keys []common.Hash // slot keys in creation order (initial ones)
}

// World is Node A plus everything the harness knows about it.
type World struct {
	cfg       *params.ChainConfig
	gspec     *core.Genesis
	keys      []*ecdsa.PrivateKey
	senders   []common.Address
	authKeys  []*ecdsa.PrivateKey
	auths     []common.Address
	plain     []common.Address
	contracts []contract
	blocks    []*types.Block // generated chain (block i+1 at index i)
	genesis   *types.Block
	chain     *core.BlockChain
	db        ethdb.Database
	imported  int // number of generated blocks imported into chain
	multiCode []bool // block i+1 changes the code of one account more than once

	refs     map[common.Hash]*RefState // by state root
	keepRefs bool                      // build the reference of every imported block at import time (before it can go stale)
	refsUpTo int
}

func amsterdamConfig() *params.ChainConfig {
	cfg := *params.MergedTestChainConfig
	cfg.AmsterdamTime = new(uint64)
	return &cfg
}

// tinyKeys are slot keys whose keccak starts with two zero bytes; found once per
// process by a fixed, deterministic search. A "skew" contract owns all of them: the
// first (capped) storage answer then holds only keys below 0x0001.., the syncer's
// estimate of the remaining slots explodes and it splits the contract into
// storageConcurrency chunks although the contract is small.
const nTinyKeys = 10

var (
	tinyOnce sync.Once
	tinyKeys []common.Hash
)

func findTinyKeys() {
	tinyOnce.Do(func() {
		var k common.Hash
		copy(k[:], "snapsim-tiny")
		for i := uint64(0); len(tinyKeys) < nTinyKeys; i++ {
			binary.BigEndian.PutUint64(k[24:], i)
			h := crypto.Keccak256(k[:])
			if h[0] == 0 && h[1] == 0 {
				tinyKeys = append(tinyKeys, k)
			}
		}
	})
}

func randValue(r *simcore.Rand) common.Hash {
	n := r.Range(1, 32)
	b := r.Bytes(32)
	var v common.Hash
	copy(v[32-n:], b[:n])
	if v[32-n] == 0 {
		v[32-n] = 1
	}
	return v
}

func bigWei(gwei int64) *big.Int { return new(big.Int).Mul(big.NewInt(gwei), big.NewInt(1e9)) }

// buildGenesis derives the genesis specification from the plan.
func buildGenesis(sp *StatePlan) (*core.Genesis, []*ecdsa.PrivateKey, []common.Address, []common.Address, []contract, []*ecdsa.PrivateKey) {
	r := simcore.NewRand(sp.Seed ^ 0x5eed)
	cfg := amsterdamConfig()
	alloc := types.GenesisAlloc{
		params.BeaconRootsAddress:        {Nonce: 1, Code: params.BeaconRootsCode, Balance: common.Big0},
		params.HistoryStorageAddress:     {Nonce: 1, Code: params.HistoryStorageCode, Balance: common.Big0},
		params.WithdrawalQueueAddress:    {Nonce: 1, Code: params.WithdrawalQueueCode, Balance: common.Big0},
		params.ConsolidationQueueAddress: {Nonce: 1, Code: params.ConsolidationQueueCode, Balance: common.Big0},
		params.BuilderDepositAddress:     {Nonce: 1, Code: params.BuilderDepositCode, Balance: common.Big0},
		params.BuilderExitAddress:        {Nonce: 1, Code: params.BuilderExitCode, Balance: common.Big0},
	}
	var (
		keys    []*ecdsa.PrivateKey
		senders []common.Address
	)
	for i := 0; i < nSenders; i++ {
		kb := r.Bytes(32)
		kb[0] = 1 // keep it inside the curve order, never zero
		k, err := crypto.ToECDSA(kb)
		if err != nil {
			simcore.Harnessf("derive key: %v", err)
		}
		keys = append(keys, k)
		a := crypto.PubkeyToAddress(k.PublicKey)
		senders = append(senders, a)
		alloc[a] = types.Account{Balance: new(big.Int).Mul(big.NewInt(1e18), big.NewInt(1_000_000))}
	}
	// authorities of EIP-7702 delegations: derived from their own generator so that
	// the rest of the state does not depend on them
	ar := simcore.NewRand(sp.Seed ^ 0xa0740)
	var authKeys []*ecdsa.PrivateKey
	for i := 0; i < nAuthorities; i++ {
		kb := ar.Bytes(32)
		kb[0] = 2
		k, err := crypto.ToECDSA(kb)
		if err != nil {
			simcore.Harnessf("derive key: %v", err)
		}
		authKeys = append(authKeys, k)
		alloc[crypto.PubkeyToAddress(k.PublicKey)] = types.Account{Balance: big.NewInt(int64(1000 + i))}
	}
	var plain []common.Address
	for i := 0; i < sp.Plain; i++ {
		a := common.BytesToAddress(r.Bytes(20))
		plain = append(plain, a)
		acc := types.Account{Balance: new(big.Int).SetUint64(r.Uint64()>>uint(r.Intn(60)) + 1)}
		if r.Bool(0.3) {
			acc.Nonce = uint64(r.Intn(1000))
		}
		alloc[a] = acc
	}
	// shared code pool
	pool := make([][]byte, 0, sp.CodePool)
	for i := 0; i < sp.CodePool; i++ {
		c := append([]byte{}, setterCode...)
		c = append(c, byte(0xfe), byte(i))
		c = append(c, r.Bytes(r.Range(0, 40))...)
		pool = append(pool, c)
	}
	pickCode := func(tag int) []byte {
		if len(pool) == 0 || r.Intn(100) < sp.Unique {
			c := append([]byte{}, setterCode...)
			c = append(c, 0xfd)
			c = binary.BigEndian.AppendUint32(c, uint32(tag))
			return append(c, r.Bytes(r.Range(0, 60))...)
		}
		return pool[r.Intn(len(pool))]
	}
	var contracts []contract
	addContract := func(slots int, skew bool) {
		a := common.BytesToAddress(r.Bytes(20))
		c := contract{addr: a}
		st := make(map[common.Hash]common.Hash, slots)
		if skew && slots > 0 {
			findTinyKeys()
			for _, k := range tinyKeys {
				st[k] = randValue(r)
				c.keys = append(c.keys, k)
			}
		}
		for len(st) < slots {
			k := common.BytesToHash(r.Bytes(32))
			if _, ok := st[k]; ok {
				continue
			}
			st[k] = randValue(r)
			c.keys = append(c.keys, k)
		}
		acc := types.Account{Balance: big.NewInt(int64(r.Intn(1000))), Nonce: 1, Code: pickCode(len(contracts)), Storage: st}
		alloc[a] = acc
		contracts = append(contracts, c)
	}
	for _, n := range sp.Large {
		addContract(n, sp.Skew)
	}
	for i := 0; i < sp.Small; i++ {
		addContract(r.Range(1, max(1, sp.SmallMax)), false)
	}
	for i := 0; i < sp.NoStore; i++ {
		addContract(0, false)
	}
	gspec := &core.Genesis{Config: cfg, Alloc: alloc, GasLimit: 60_000_000, BaseFee: big.NewInt(params.InitialBaseFee)}
	return gspec, keys, senders, plain, contracts, authKeys
}

func newKeyFor(ci int, tag uint32) common.Hash {
	var b [12]byte
	copy(b[:], "newk")
	binary.BigEndian.PutUint32(b[4:], uint32(ci))
	binary.BigEndian.PutUint32(b[8:], tag)
	return crypto.Keccak256Hash(b[:])
}

// NewWorld builds the genesis, generates all blocks of the plan and starts Node A
// with the first `initial` blocks imported. Must be called inside the bubble.
func NewWorld(sp *StatePlan, blocks []BlockPlan, schemeA string, initial int) *World {
	gspec, keys, senders, plain, contracts, authKeys := buildGenesis(sp)
	w := &World{cfg: gspec.Config, gspec: gspec, keys: keys, senders: senders, plain: plain, contracts: contracts,
		refs: map[common.Hash]*RefState{}, authKeys: authKeys}
	for _, k := range authKeys {
		w.auths = append(w.auths, crypto.PubkeyToAddress(k.PublicKey))
	}
	engine := beacon.New(ethash.NewFaker())
	signer := types.LatestSigner(gspec.Config)
	deployed := 0
	_, gen, _ := core.GenerateChainWithGenesis(gspec, engine, len(blocks), func(i int, b *core.BlockGen) {
		price := new(big.Int).Mul(b.BaseFee(), big.NewInt(2))
		for ti, tp := range blocks[i].Txs {
			si := int(tp.A) % nSenders
			if tp.K != 1 {
				si = (int(tp.A) + ti) % nSenders
			}
			from := senders[si]
			var tx *types.Transaction
			switch tp.K {
			case 0:
				if len(w.contracts) == 0 {
					continue
				}
				ci := int(tp.A) % len(w.contracts)
				c := &w.contracts[ci]
				var key common.Hash
				if tp.B%3 == 0 || len(c.keys) == 0 {
					key = newKeyFor(ci, tp.B)
				} else {
					key = c.keys[int(tp.B/3)%len(c.keys)]
				}
				var val common.Hash
				binary.BigEndian.PutUint64(val[24:], tp.V)
				data := append(key.Bytes(), val.Bytes()...)
				tx = types.NewTx(&types.LegacyTx{Nonce: b.TxNonce(from), To: &c.addr, Gas: 1_000_000, GasPrice: price, Data: data})
			case 1:
				var to common.Address
				if tp.B%2 == 0 || len(w.plain) == 0 {
					var t [8]byte
					binary.BigEndian.PutUint32(t[:], tp.B)
					copy(t[4:], "xfer")
					to = common.BytesToAddress(crypto.Keccak256(t[:]))
				} else {
					to = w.plain[int(tp.B/2)%len(w.plain)]
				}
				tx = types.NewTx(&types.LegacyTx{Nonce: b.TxNonce(from), To: &to, Gas: 1_000_000, GasPrice: price, Value: new(big.Int).SetUint64(tp.V%1_000_000_007 + 1)})
			case 2:
				runtime := append([]byte{}, setterCode...)
				runtime = append(runtime, 0xfc)
				runtime = binary.BigEndian.AppendUint32(runtime, tp.B)
				init := []byte{0x60, byte(len(runtime)), 0x80, 0x60, 0x0b, 0x60, 0x00, 0x39, 0x60, 0x00, 0xf3}
				init = append(init, runtime...)
				nonce := b.TxNonce(from)
				tx = types.NewTx(&types.LegacyTx{Nonce: nonce, Gas: 2_000_000, GasPrice: price, Data: init})
				w.contracts = append(w.contracts, contract{addr: crypto.CreateAddress(from, nonce)})
				deployed++
			case 3:
				ai := int(tp.A) % nAuthorities
				var target common.Address
				if tp.B%7 != 0 && len(w.contracts) > 0 {
					target = w.contracts[int(tp.B)%len(w.contracts)].addr
				}
				auth, err := types.SignSetCode(w.authKeys[ai], types.SetCodeAuthorization{
					ChainID: *uint256.MustFromBig(gspec.Config.ChainID), Address: target, Nonce: b.TxNonce(w.auths[ai])})
				if err != nil {
					simcore.Harnessf("sign authorization: %v", err)
				}
				tx = types.NewTx(&types.SetCodeTx{ChainID: uint256.MustFromBig(gspec.Config.ChainID), Nonce: b.TxNonce(from), To: from,
					Value: new(uint256.Int), Gas: 500_000, GasFeeCap: uint256.MustFromBig(price), GasTipCap: uint256.NewInt(1),
					AuthList: []types.SetCodeAuthorization{auth}})
			default:
				continue
			}
			signed, err := types.SignTx(tx, signer, keys[si])
			if err != nil {
				simcore.Harnessf("sign: %v", err)
			}
			b.AddTx(signed)
		}
	})
	w.blocks = gen
	w.multiCode = make([]bool, len(gen))
	for i, blk := range gen {
		if al := blk.AccessList(); al != nil {
			for _, acc := range *al {
				if len(acc.CodeChanges) >= 2 {
					w.multiCode[i] = true
				}
			}
		}
	}
	cfg := &core.BlockChainConfig{
		TrieCleanLimit: 0,
		TrieDirtyLimit: 16,
		TrieTimeLimit:  5 * 60 * 1e9,
		StateScheme:    schemeA,
		SnapshotLimit:  16,
		SnapshotWait:   true,
		NoPrefetch:     true,
		TxLookupLimit:  -1,
		ArchiveMode:    schemeA == rawdb.HashScheme, // keep every state servable in hash mode
	}
	w.db = rawdb.NewMemoryDatabase()
	chain, err := core.NewBlockChain(w.db, gspec, engine, cfg)
	if err != nil {
		simcore.Harnessf("new blockchain: %v", err)
	}
	w.chain = chain
	w.genesis = chain.Genesis()
	w.Import(initial)
	return w
}

// Import makes Node A import generated blocks up to number n.
func (w *World) Import(n int) {
	if n > len(w.blocks) {
		n = len(w.blocks)
	}
	if !w.keepRefs {
		w.importRaw(n)
		return
	}
	// keep the reference of every state: import in steps small enough that no
	// state is flattened away before it was read
	for w.imported < n {
		w.importRaw(min(n, w.imported+64))
		w.buildRefs()
	}
}

func (w *World) importRaw(n int) {
	if n > len(w.blocks) {
		n = len(w.blocks)
	}
	if n <= w.imported {
		return
	}
	if _, err := w.chain.InsertChain(w.blocks[w.imported:n]); err != nil {
		simcore.Harnessf("node A failed to import its own chain: %v", err)
	}
	w.imported = n
}

func (w *World) buildRefs() {
	for ; w.refsUpTo <= w.imported; w.refsUpTo++ {
		w.Ref(w.Header(w.refsUpTo).Root)
	}
}

// RefAt returns the reference state of block n (n <= imported).
func (w *World) RefAt(n int) *RefState { return w.Ref(w.Header(n).Root) }

// RefByRoot returns the reference state for a root of the imported chain, nil if unknown.
func (w *World) RefByRoot(root common.Hash) *RefState {
	if r, ok := w.refs[root]; ok {
		return r
	}
	for i := w.imported; i >= 0; i-- {
		if w.Header(i).Root == root {
			return w.Ref(root)
		}
	}
	return nil
}

// Header returns the header of block number n of the generated chain.
func (w *World) Header(n int) *types.Header {
	if n == 0 {
		return w.genesis.Header()
	}
	return w.blocks[n-1].Header()
}

func (w *World) Stop() { w.chain.Stop() }

// ---- reference state

type KV struct{ K, V []byte }

type RefAccount struct {
	stoIdx  *nodeIndex
	Hash    common.Hash
	Full    []byte // consensus RLP
	Slim    []byte // snapshot RLP
	Acc     types.StateAccount
	Storage []KV // hashed key -> RLP value, sorted
}

// RefState is the content of one state root, extracted from Node A and
// cross-checked with the independent refmpt root computation.
type RefState struct {
	accIdx   *nodeIndex
	Root     common.Hash
	Accounts []*RefAccount // sorted by hash
	byHash   map[common.Hash]*RefAccount
	Codes    map[common.Hash][]byte
}

func (r *RefState) Account(h common.Hash) *RefAccount { return r.byHash[h] }

func (a *RefAccount) Slot(h common.Hash) []byte {
	i := sort.Search(len(a.Storage), func(i int) bool { return bytes.Compare(a.Storage[i].K, h[:]) >= 0 })
	if i < len(a.Storage) && bytes.Equal(a.Storage[i].K, h[:]) {
		return a.Storage[i].V
	}
	return nil
}

// Ref returns (building on first use) the reference content of a state root
// held by Node A.
func (w *World) Ref(root common.Hash) *RefState {
	if r, ok := w.refs[root]; ok {
		return r
	}
	tdb := w.chain.TrieDB()
	tr, err := trie.New(trie.StateTrieID(root), tdb)
	if err != nil {
		simcore.Harnessf("node A has no state %x: %v", root, err)
	}
	ref := &RefState{Root: root, byHash: map[common.Hash]*RefAccount{}, Codes: map[common.Hash][]byte{}}
	nit, err := tr.NodeIterator(nil)
	if err != nil {
		simcore.Harnessf("iterate state %x: %v", root, err)
	}
	it := trie.NewIterator(nit)
	var leaves []refmpt.KV
	for it.Next() {
		ra := &RefAccount{Hash: common.BytesToHash(it.Key), Full: common.CopyBytes(it.Value)}
		if err := rlp.DecodeBytes(ra.Full, &ra.Acc); err != nil {
			simcore.Harnessf("node A account %x undecodable: %v", it.Key, err)
		}
		ra.Slim = types.SlimAccountRLP(ra.Acc)
		leaves = append(leaves, refmpt.KV{K: ra.Hash[:], V: ra.Full})
		if ra.Acc.Root != types.EmptyRootHash {
			st, err := trie.New(trie.StorageTrieID(root, ra.Hash, ra.Acc.Root), tdb)
			if err != nil {
				simcore.Harnessf("node A storage trie %x/%x: %v", root, ra.Hash, err)
			}
			snit, err := st.NodeIterator(nil)
			if err != nil {
				simcore.Harnessf("iterate storage: %v", err)
			}
			sit := trie.NewIterator(snit)
			var sl []refmpt.KV
			for sit.Next() {
				ra.Storage = append(ra.Storage, KV{common.CopyBytes(sit.Key), common.CopyBytes(sit.Value)})
				sl = append(sl, refmpt.KV{K: common.CopyBytes(sit.Key), V: common.CopyBytes(sit.Value)})
			}
			if sit.Err != nil {
				simcore.Harnessf("iterate storage: %v", sit.Err)
			}
			if got := refmpt.Root(sl); !bytes.Equal(got, ra.Acc.Root[:]) {
				simcore.Harnessf("reference storage root mismatch for %x: refmpt %x, node A %x", ra.Hash, got, ra.Acc.Root)
			}
		}
		if ch := common.BytesToHash(ra.Acc.CodeHash); ch != types.EmptyCodeHash {
			code := rawdb.ReadCode(w.db, ch)
			if len(code) == 0 || crypto.Keccak256Hash(code) != ch {
				simcore.Harnessf("node A misses code %x", ch)
			}
			ref.Codes[ch] = code
		}
		ref.Accounts = append(ref.Accounts, ra)
		ref.byHash[ra.Hash] = ra
	}
	if it.Err != nil {
		simcore.Harnessf("iterate state: %v", it.Err)
	}
	if got := refmpt.Root(leaves); !bytes.Equal(got, root[:]) {
		simcore.Harnessf("reference state root mismatch: refmpt %x, node A %x", got, root)
	}
	w.refs[root] = ref
	return ref
}

func (r *RefState) String() string {
	slots := 0
	for _, a := range r.Accounts {
		slots += len(a.Storage)
	}
	return fmt.Sprintf("root %x: %d accounts, %d slots, %d codes", r.Root[:4], len(r.Accounts), slots, len(r.Codes))
}
