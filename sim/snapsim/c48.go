package snapsim

import (
	"bytes"
	"encoding/binary"
	"encoding/json"
	"fmt"
	"os"
	"sort"
	"strings"
	"testing"
	"testing/synctest"
	"time"

	"github.com/ethereum/go-ethereum/common"
	"github.com/ethereum/go-ethereum/core/rawdb"
	"github.com/ethereum/go-ethereum/core/types"
	"github.com/ethereum/go-ethereum/crypto"
	"github.com/ethereum/go-ethereum/eth/protocols/snap"
	"github.com/ethereum/go-ethereum/rlp"
	"github.com/ethereum/go-ethereum/trie"
	"github.com/ethereum/go-ethereum/trie/trienode"
	"github.com/holiman/uint256"

	"verifsim/refmpt"
	"verifsim/simcore"
	"verifsim/simsched"
)

// ---- symbolic requests (resolved against the world at run time)

// HashSel selects a 32-byte position in a sorted key list.
// M: 0 zero, 1 max, 2 key I (mod n) plus D, 3 pseudo-random from I, 4 between key I and I+1.
type HashSel struct {
	M int    `json:"m"`
	I uint32 `json:"i"`
	D int    `json:"d"`
}

// AccSel selects an account hash. M: 0 contract I, 1 plain account I, 2 unknown, 3 account I of the sorted state.
type AccSel struct {
	M int    `json:"m"`
	I uint32 `json:"i"`
}

// CodeSel: M 0 existing code I, 1 unknown hash, 2 the empty code hash.
type CodeSel struct {
	M int    `json:"m"`
	I uint32 `json:"i"`
}

// NibSel selects a trie path. M: 0 first L nibbles of key I of the trie, 1 path
// of existing node I, 2 raw (possibly malformed) compact bytes, 3 key I plus extra nibbles (over-long).
type NibSel struct {
	M   int    `json:"m"`
	I   uint32 `json:"i"`
	L   int    `json:"l"`
	Raw []byte `json:"raw,omitempty"`
}

type PathSel struct {
	Acc   *AccSel  `json:"acc,omitempty"` // nil: account trie
	Paths []NibSel `json:"paths"`
}

type Req48 struct {
	K         int       `json:"k"`    // kAccount, kStorage, kCode, kTrie
	Back      int       `json:"back"` // state root: this many blocks behind Node A's head; -1 unknown root
	Origin    HashSel   `json:"origin"`
	Limit     HashSel   `json:"limit"`
	HasOrigin bool      `json:"has_origin"` // storage: origin bytes present
	HasLimit  bool      `json:"has_limit"`
	Short     int       `json:"short"` // storage: origin/limit given with this many bytes cut off (malformed length)
	Bytes     uint64    `json:"bytes"`
	Accs      []AccSel  `json:"accs,omitempty"`
	Codes     []CodeSel `json:"codes,omitempty"`
	Paths     []PathSel `json:"paths,omitempty"`
	Import    int       `json:"import"` // Node A imports this many blocks first
	Conc      bool      `json:"conc"`   // ... concurrently with serving the request
}

type Plan48 struct {
	SchemeA string      `json:"scheme_a"`
	State   StatePlan   `json:"state"`
	Blocks  []BlockPlan `json:"blocks"`
	Filler  int         `json:"filler"` // extra empty blocks appended (layers get flattened, roots go stale)
	Pivot0  int         `json:"pivot0"`
	Reqs    []Req48     `json:"reqs"`
	Sync    bool        `json:"sync"` // first run a real snap/1 sync against Node A with the oracle on every answer
	SyncCap int         `json:"sync_cap"`
}

func hashAdd(h common.Hash, d int) common.Hash {
	x := new(uint256.Int).SetBytes(h[:])
	if d >= 0 {
		x.AddUint64(x, uint64(d))
	} else {
		x.SubUint64(x, uint64(-d))
	}
	return common.Hash(x.Bytes32())
}

func (s HashSel) resolve(keys []common.Hash) common.Hash {
	switch s.M {
	case 0:
		return common.Hash{}
	case 1:
		return common.MaxHash
	case 2:
		if len(keys) == 0 {
			return common.Hash{}
		}
		return hashAdd(keys[int(s.I)%len(keys)], s.D)
	case 4:
		if len(keys) < 2 {
			return common.Hash{}
		}
		i := int(s.I) % (len(keys) - 1)
		return midHash(keys[i], keys[i+1])
	default:
		var b [4]byte
		binary.BigEndian.PutUint32(b[:], s.I)
		return crypto.Keccak256Hash(b[:])
	}
}

func (w *World) resolveAcc(s AccSel, ref *RefState) common.Hash {
	switch s.M {
	case 0:
		if len(w.contracts) > 0 {
			return crypto.Keccak256Hash(w.contracts[int(s.I)%len(w.contracts)].addr[:])
		}
	case 1:
		if len(w.plain) > 0 {
			return crypto.Keccak256Hash(w.plain[int(s.I)%len(w.plain)][:])
		}
	case 3:
		if ref != nil && len(ref.Accounts) > 0 {
			return ref.Accounts[int(s.I)%len(ref.Accounts)].Hash
		}
	}
	var b [5]byte
	binary.BigEndian.PutUint32(b[:], s.I)
	return crypto.Keccak256Hash(b[:])
}

// ---- oracle helpers

func (r *RefState) keys() []common.Hash {
	out := make([]common.Hash, len(r.Accounts))
	for i, a := range r.Accounts {
		out[i] = a.Hash
	}
	return out
}

func (a *RefAccount) keys() []common.Hash {
	out := make([]common.Hash, len(a.Storage))
	for i, s := range a.Storage {
		out[i] = common.BytesToHash(s.K)
	}
	return out
}

func nibblesOf(b []byte) []byte {
	out := make([]byte, 0, 2*len(b))
	for _, c := range b {
		out = append(out, c>>4, c&15)
	}
	return out
}

// compactOf encodes a nibble path (without terminator) the way the snap
// protocol expects trie node paths.
func compactOf(nib []byte) []byte {
	buf := make([]byte, len(nib)/2+1)
	if len(nib)&1 == 1 {
		buf[0] = 1<<4 | nib[0]
		nib = nib[1:]
	}
	for i := 0; i+1 < len(nib); i += 2 {
		buf[1+i/2] = nib[i]<<4 | nib[i+1]
	}
	return buf
}

// hexOfCompact mirrors the decoding the server applies to a requested path.
func hexOfCompact(c []byte) []byte {
	if len(c) == 0 {
		return nil
	}
	base := append(nibblesOf(c), 16)
	if base[0] < 2 {
		base = base[:len(base)-1]
	}
	chop := 2 - base[0]&1
	return base[chop:]
}

// nodeIndex maps nibble paths of stand-alone (hash referenced) nodes to their encoding.
type nodeIndex struct {
	byPath map[string][]byte
	paths  []string // sorted
}

func buildIndex(leaves []refmpt.KV) *nodeIndex {
	idx := &nodeIndex{byPath: map[string][]byte{}}
	_, nodes := refmpt.Nodes(leaves)
	for _, n := range nodes {
		if n.Embedded {
			continue
		}
		idx.byPath[string(n.Path)] = n.RLP
		idx.paths = append(idx.paths, string(n.Path))
	}
	sort.Strings(idx.paths)
	return idx
}

func (r *RefState) accountIndex() *nodeIndex {
	if r.accIdx == nil {
		leaves := make([]refmpt.KV, len(r.Accounts))
		for i, a := range r.Accounts {
			leaves[i] = refmpt.KV{K: a.Hash[:], V: a.Full}
		}
		r.accIdx = buildIndex(leaves)
	}
	return r.accIdx
}

func (a *RefAccount) storageIndex() *nodeIndex {
	if a.stoIdx == nil {
		leaves := make([]refmpt.KV, len(a.Storage))
		for i, s := range a.Storage {
			leaves[i] = refmpt.KV{K: s.K, V: s.V}
		}
		a.stoIdx = buildIndex(leaves)
	}
	return a.stoIdx
}

func budgetOf(b uint64) uint64 {
	if b > snap.VerifSoftResponseLimit {
		return snap.VerifSoftResponseLimit
	}
	return b
}

func v48(oracle, format string, a ...any) *simcore.Violation {
	return &simcore.Violation{Oracle: oracle, Key: oracle, Msg: fmt.Sprintf(format, a...)}
}

// checkAccountRange judges one AccountRange answer. ref == nil: the root is not
// a state of Node A's chain.
func checkAccountRange(ref *RefState, mustServe bool, origin, limit common.Hash, reqBytes uint64, accs []*snap.AccountData, proof [][]byte) *simcore.Violation {
	desc := fmt.Sprintf("GetAccountRange(origin=%x limit=%x bytes=%d)", origin, limit, reqBytes)
	if ref == nil {
		if len(accs) != 0 || len(proof) != 0 {
			return v48("acc-unknown-root-answered", "%s for an unknown root returned %d accounts, %d proof nodes", desc, len(accs), len(proof))
		}
		return nil
	}
	if len(accs) == 0 && len(proof) == 0 {
		if mustServe {
			return v48("acc-refused-available-root", "%s: empty answer although root %x is a recent state of Node A", desc, ref.Root)
		}
		return nil
	}
	all := ref.Accounts
	i0 := sort.Search(len(all), func(i int) bool { return bytes.Compare(all[i].Hash[:], origin[:]) >= 0 })
	if i0+len(accs) > len(all) {
		return v48("acc-not-a-prefix", "%s returned %d accounts, only %d exist from the origin on", desc, len(accs), len(all)-i0)
	}
	if len(accs) == 0 && i0 < len(all) {
		return v48("acc-not-a-prefix", "%s returned no account although %x >= origin exists", desc, all[i0].Hash)
	}
	var (
		size uint64
		keys [][]byte
		vals [][]byte
	)
	for j, ad := range accs {
		want := all[i0+j]
		if ad.Hash != want.Hash {
			return v48("acc-not-a-prefix", "%s item %d is %x, the true range continues with %x", desc, j, ad.Hash, want.Hash)
		}
		if !bytes.Equal(ad.Body, want.Slim) {
			return v48("acc-wrong-value", "%s account %x: served %x, state has %x", desc, ad.Hash, ad.Body, want.Slim)
		}
		if j > 0 && bytes.Compare(accs[j-1].Hash[:], limit[:]) >= 0 {
			return v48("acc-beyond-limit", "%s continued after %x which is >= limit", desc, accs[j-1].Hash)
		}
		if j > 0 && size > budgetOf(reqBytes) {
			return v48("acc-over-budget", "%s: %d bytes were already served before item %d (budget %d)", desc, size, j, budgetOf(reqBytes))
		}
		size += uint64(common.HashLength + len(ad.Body))
		full, err := types.FullAccountRLP(ad.Body)
		if err != nil {
			return v48("acc-wrong-value", "%s account %x undecodable: %v", desc, ad.Hash, err)
		}
		keys = append(keys, common.CopyBytes(ad.Hash[:]))
		vals = append(vals, full)
	}
	more, err := trie.VerifyRangeProof(ref.Root, origin[:], keys, vals, proofSet(proof))
	if err != nil {
		return v48("acc-proof-rejected", "%s: the client's VerifyRangeProof rejects the answer (%d accounts, %d proof nodes): %v", desc, len(accs), len(proof), err)
	}
	if wantMore := i0+len(accs) < len(all); more != wantMore {
		return v48("acc-more-flag", "%s: proof says more=%v, the state says more=%v", desc, more, wantMore)
	}
	return nil
}

// checkStorageRanges judges one StorageRanges answer.
func checkStorageRanges(ref *RefState, mustServe bool, accounts []common.Hash, originB, limitB []byte, reqBytes uint64, slots [][]*snap.StorageData, proof [][]byte, res *simcore.Result) *simcore.Violation {
	desc := fmt.Sprintf("GetStorageRanges(%d accounts, first %x, origin=%x limit=%x bytes=%d)", len(accounts), first(accounts), originB, limitB, reqBytes)
	if ref == nil {
		if len(slots) != 0 || len(proof) != 0 {
			return v48("sto-unknown-root-answered", "%s for an unknown root returned %d slot lists, %d proof nodes", desc, len(slots), len(proof))
		}
		return nil
	}
	var origin common.Hash
	limit := common.MaxHash
	if len(originB) > 0 {
		origin = common.BytesToHash(originB)
	}
	if len(limitB) > 0 {
		limit = common.BytesToHash(limitB)
	}
	budget := budgetOf(reqBytes)
	hard := uint64(float64(budget) * (1 + snap.VerifStateLookupSlack))
	var (
		size       uint64
		li         = 0 // next slot list of the answer
		proven     = false
		wellFormed = true // every account so far exists and has storage
	)
	for ai, ah := range accounts {
		if li >= len(slots) {
			break
		}
		acc := ref.Account(ah)
		var all []KV
		if acc != nil {
			all = acc.Storage
		}
		o, l := common.Hash{}, common.MaxHash
		if ai == 0 {
			o, l = origin, limit
		}
		i0 := sort.Search(len(all), func(i int) bool { return bytes.Compare(all[i].K, o[:]) >= 0 })
		if i0 >= len(all) {
			// nothing to serve for this account: the server skips it without an entry
			wellFormed = false
			res.Probe("sto-account-without-slots-skipped")
			continue
		}
		if proven {
			return v48("sto-continued-after-proof", "%s: slot list %d follows a list that was cut and proven", desc, li)
		}
		list := slots[li]
		if li > 0 && size >= budget {
			return v48("sto-over-budget", "%s: a new account was opened after %d bytes (budget %d)", desc, size, budget)
		}
		if len(list) == 0 {
			return v48("sto-empty-list", "%s: slot list %d is empty", desc, li)
		}
		if i0+len(list) > len(all) {
			return v48("sto-not-a-prefix", "%s: list %d for account %x has %d slots, only %d exist from the origin on", desc, li, ah, len(list), len(all)-i0)
		}
		var keys, vals [][]byte
		for j, sd := range list {
			want := all[i0+j]
			if !bytes.Equal(sd.Hash[:], want.K) {
				return v48("sto-not-a-prefix", "%s: list %d item %d of account %x is %x, the true range continues with %x", desc, li, j, ah, sd.Hash, want.K)
			}
			if !bytes.Equal(sd.Body, want.V) {
				return v48("sto-wrong-value", "%s: slot %x/%x served %x, state has %x", desc, ah, sd.Hash, sd.Body, want.V)
			}
			if j > 0 && bytes.Compare(list[j-1].Hash[:], l[:]) >= 0 {
				return v48("sto-beyond-limit", "%s: list %d continued after %x which is >= limit", desc, li, list[j-1].Hash)
			}
			if !(li == 0 && j == 0) && size >= hard {
				return v48("sto-over-budget", "%s: %d bytes were already served before slot %d of list %d (hard limit %d)", desc, size, j, li, hard)
			}
			size += uint64(common.HashLength + len(sd.Body))
			keys = append(keys, common.CopyBytes(sd.Hash[:]))
			vals = append(vals, sd.Body)
		}
		complete := i0 == 0 && len(list) == len(all)
		last := li == len(slots)-1
		if !last {
			if !complete {
				key := "sto-partial-list-not-last"
				if ai == 0 && len(limitB) > 0 && origin == (common.Hash{}) {
					key = "sto-limit-zero-origin-unproven"
				}
				return &simcore.Violation{Oracle: "sto-partial-list-not-last", Key: key, Msg: fmt.Sprintf("%s: list %d (account %x) holds %d of %d slots but is followed by another account's list, so it carries no proof and the client cannot verify it", desc, li, ah, len(list), len(all))}
			}
			if _, err := trie.VerifyRangeProof(acc.Acc.Root, nil, keys, vals, nil); err != nil {
				return v48("sto-proof-rejected", "%s: complete list %d of account %x does not hash to its storage root: %v", desc, li, ah, err)
			}
		} else {
			if len(proof) == 0 {
				if !complete {
					key := "sto-partial-list-unproven"
					if ai == 0 && len(limitB) > 0 && origin == (common.Hash{}) {
						key = "sto-limit-zero-origin-unproven"
					}
					return &simcore.Violation{Oracle: "sto-partial-list-unproven", Key: key, Msg: fmt.Sprintf("%s: last list (account %x) holds %d of %d slots (from index %d) but no proof is attached", desc, ah, len(list), len(all), i0)}
				}
				if _, err := trie.VerifyRangeProof(acc.Acc.Root, nil, keys, vals, nil); err != nil {
					return v48("sto-proof-rejected", "%s: complete list %d of account %x does not hash to its storage root: %v", desc, li, ah, err)
				}
			} else {
				more, err := trie.VerifyRangeProof(acc.Acc.Root, o[:], keys, vals, proofSet(proof))
				if err != nil {
					return v48("sto-proof-rejected", "%s: the client's VerifyRangeProof rejects list %d of account %x (%d slots, %d proof nodes): %v", desc, li, ah, len(list), len(proof), err)
				}
				if wantMore := i0+len(list) < len(all); more != wantMore {
					return v48("sto-more-flag", "%s: proof says more=%v, the state says more=%v", desc, more, wantMore)
				}
				proven = true
			}
		}
		li++
	}
	if li < len(slots) {
		return v48("sto-extra-lists", "%s: %d slot lists returned, only %d can be attributed to requested accounts with storage", desc, len(slots), li)
	}
	if len(slots) == 0 && len(proof) > 0 {
		// an empty range of the first account, proven
		acc := ref.Account(first(accounts))
		if acc == nil || len(accounts) == 0 {
			return v48("sto-proof-rejected", "%s: proof without slots for an unknown account", desc)
		}
		more, err := trie.VerifyRangeProof(acc.Acc.Root, origin[:], nil, nil, proofSet(proof))
		if err != nil {
			return v48("sto-proof-rejected", "%s: the client's VerifyRangeProof rejects the empty-range proof: %v", desc, err)
		}
		if more {
			return v48("sto-more-flag", "%s: empty answer but the proof shows more slots", desc)
		}
	}
	if len(slots) == 0 && len(proof) == 0 && mustServe && reqBytes > 0 && wellFormed && len(accounts) > 0 {
		if acc := ref.Account(accounts[0]); acc != nil && len(acc.Storage) > 0 {
			i0 := sort.Search(len(acc.Storage), func(i int) bool { return bytes.Compare(acc.Storage[i].K, origin[:]) >= 0 })
			if i0 < len(acc.Storage) {
				return v48("sto-refused-available-root", "%s: empty answer although root %x is a recent state of Node A and slots exist", desc, ref.Root)
			}
		}
	}
	return nil
}

func proofSet(proof [][]byte) *trienode.ProofSet {
	l := make(trienode.ProofList, len(proof))
	for i, p := range proof {
		l[i] = p
	}
	return l.Set()
}

func first(h []common.Hash) common.Hash {
	if len(h) == 0 {
		return common.Hash{}
	}
	return h[0]
}

// checkByteCodes: the answer must be the existing requested codes, in request
// order, cut only by the byte budget or the lookup cap.
func checkByteCodes(known map[common.Hash][]byte, hashes []common.Hash, reqBytes uint64, codes [][]byte) *simcore.Violation {
	desc := fmt.Sprintf("GetByteCodes(%d hashes, bytes=%d)", len(hashes), reqBytes)
	if len(hashes) > snap.VerifMaxCodeLookups {
		hashes = hashes[:snap.VerifMaxCodeLookups]
	}
	var want [][]byte
	for _, h := range hashes {
		if h == types.EmptyCodeHash {
			want = append(want, []byte{})
		} else if c, ok := known[h]; ok {
			want = append(want, c)
		}
	}
	if len(codes) > len(want) {
		return v48("code-not-requested", "%s returned %d codes, only %d of the requested ones exist", desc, len(codes), len(want))
	}
	var size uint64
	for i, c := range codes {
		if !bytes.Equal(c, want[i]) {
			return v48("code-wrong", "%s item %d: served %d bytes (hash %x), expected the code with hash %x", desc, i, len(c), crypto.Keccak256(c), crypto.Keccak256(want[i]))
		}
		if i > 0 && size > budgetOf(reqBytes) {
			return v48("code-over-budget", "%s: %d bytes were already served before item %d", desc, size, i)
		}
		size += uint64(len(c))
	}
	if len(codes) < len(want) && size <= budgetOf(reqBytes) {
		return v48("code-missing", "%s returned %d of %d existing codes although only %d bytes (budget %d) were used", desc, len(codes), len(want), size, budgetOf(reqBytes))
	}
	return nil
}

type wantNode struct {
	blob []byte // nil: no stand-alone node at that path
}

// checkTrieNodes: every returned blob must be the node of a requested path, in
// request order; paths without a node may be skipped or answered with an empty item.
func checkTrieNodes(ref *RefState, paths []snap.TrieNodePathSet, reqBytes uint64, nodes [][]byte, herr error, res *simcore.Result) *simcore.Violation {
	desc := fmt.Sprintf("GetTrieNodes(%d path sets, bytes=%d)", len(paths), reqBytes)
	if ref == nil {
		if len(nodes) != 0 {
			return v48("trie-unknown-root-answered", "%s for an unknown root returned %d nodes", desc, len(nodes))
		}
		return nil
	}
	var want []wantNode
	for _, ps := range paths {
		switch len(ps) {
		case 0:
		case 1:
			want = append(want, wantNode{ref.accountIndex().byPath[string(hexOfCompact(ps[0]))]})
		default:
			acc := ref.Account(common.BytesToHash(ps[0]))
			for _, p := range ps[1:] {
				if acc == nil || len(acc.Storage) == 0 {
					want = append(want, wantNode{nil})
					continue
				}
				want = append(want, wantNode{acc.storageIndex().byPath[string(hexOfCompact(p))]})
			}
		}
	}
	ptr := 0
	var size uint64
	for i, blob := range nodes {
		if i > 0 && size > budgetOf(reqBytes) {
			// "Bytes: soft limit at which to stop returning data": the item that crosses the
			// limit is the last one, whatever path set it belongs to
			return v48("trie-over-budget", "%s: %d bytes were already served before item %d of %d (budget %d)", desc, size, i, len(nodes), budgetOf(reqBytes))
		}
		size += uint64(len(blob))
		found := false
		for ; ptr < len(want); ptr++ {
			if len(blob) == 0 && want[ptr].blob == nil {
				found = true
				res.Probe("trie-empty-placeholder")
			} else if len(blob) > 0 && bytes.Equal(blob, want[ptr].blob) {
				found = true
			}
			if found {
				ptr++
				break
			}
		}
		if !found {
			return v48("trie-node-not-requested", "%s: returned item %d (%d bytes, hash %x) is not the node of any remaining requested path (in order)", desc, i, len(blob), crypto.Keccak256(blob))
		}
	}
	_ = herr
	return nil
}

// ---- plan generation

func genHashSel(r *simcore.Rand) HashSel {
	switch r.Pick(3, 1, 6, 2, 2) {
	case 0:
		return HashSel{M: 0}
	case 1:
		return HashSel{M: 1}
	case 2:
		return HashSel{M: 2, I: uint32(r.Uint64()), D: r.Range(-2, 2)}
	case 3:
		return HashSel{M: 3, I: uint32(r.Uint64())}
	default:
		return HashSel{M: 4, I: uint32(r.Uint64())}
	}
}

func genBytes(r *simcore.Rand) uint64 {
	switch r.Pick(2, 4, 4, 2, 1, 1) {
	case 0:
		return 0
	case 1:
		return uint64(r.Range(1, 400))
	case 2:
		return uint64(r.Range(400, 20000))
	case 3:
		return uint64(r.Range(20000, 600000))
	case 4:
		return uint64(r.Range(snap.VerifSoftResponseLimit-10, 2*snap.VerifSoftResponseLimit))
	default:
		return r.Uint64()
	}
}

func genAccSel(r *simcore.Rand, contractBias bool) AccSel {
	w := []int{2, 2, 1, 3}
	if contractBias {
		w = []int{8, 1, 1, 2}
	}
	return AccSel{M: r.Pick(w...), I: uint32(r.Uint64())}
}

func genNibSel(r *simcore.Rand) NibSel {
	switch r.Pick(3, 9, 2, 1) {
	case 0:
		return NibSel{M: 0, I: uint32(r.Uint64()), L: r.Range(0, 64)}
	case 1:
		return NibSel{M: 1, I: uint32(r.Uint64())}
	case 2:
		return NibSel{M: 2, Raw: r.Bytes(40)[:r.Range(0, 34)]}
	default:
		return NibSel{M: 3, I: uint32(r.Uint64()), L: r.Range(1, 6)}
	}
}

func genReq48(r *simcore.Rand, nblocks int) Req48 {
	q := Req48{K: r.Pick(4, 5, 2, 3)}
	q.Back = r.Pick(6, 2, 1, 1, 2) // 0,1,2,3 blocks back, 4 -> special
	if q.Back == 4 {
		if r.Bool(0.5) {
			q.Back = -1
		} else {
			q.Back = r.Range(4, 200)
		}
	}
	q.Bytes = genBytes(r)
	if r.Bool(0.3) {
		q.Import = r.Range(1, 3)
		q.Conc = r.Bool(0.3)
	}
	switch q.K {
	case kAccount:
		q.Origin, q.Limit = genHashSel(r), genHashSel(r)
		if r.Bool(0.5) {
			q.Limit = HashSel{M: 1}
		}
	case kStorage:
		n := r.Pick(5, 3, 2, 1) + 1
		if n == 4 {
			n = r.Range(4, 40)
		}
		for i := 0; i < n; i++ {
			q.Accs = append(q.Accs, genAccSel(r, true))
		}
		q.HasOrigin, q.HasLimit = r.Bool(0.5), r.Bool(0.4)
		q.Origin, q.Limit = genHashSel(r), genHashSel(r)
		if r.Bool(0.05) {
			q.Short = r.Range(1, 31)
		}
	case kCode:
		n := r.Range(1, 12)
		if r.Bool(0.05) {
			n = r.Range(1000, 1100)
		}
		for i := 0; i < n; i++ {
			q.Codes = append(q.Codes, CodeSel{M: r.Pick(6, 2, 1), I: uint32(r.Uint64())})
		}
	case kTrie:
		n := r.Range(1, 6)
		if r.Bool(0.5) {
			// several path sets under a small budget: the limit is crossed before the last set
			n = r.Range(2, 12)
			q.Bytes = uint64(r.Pick(1, 2, 2, 1) * r.Range(1, 400))
		}
		for i := 0; i < n; i++ {
			ps := PathSel{}
			if r.Bool(0.5) {
				a := genAccSel(r, true)
				ps.Acc = &a
				for j := r.Range(0, 4); j >= 0; j-- {
					ps.Paths = append(ps.Paths, genNibSel(r))
				}
				if r.Bool(0.1) {
					ps.Paths = nil // storage set with the account only is an account-node request of 32 bytes
				}
			} else {
				ps.Paths = []NibSel{genNibSel(r)}
				if r.Bool(0.03) {
					ps.Paths = nil // zero-item path set: bad request
				}
			}
			q.Paths = append(q.Paths, ps)
		}
	}
	return q
}

func GenC48(r *simcore.Rand, tier string) any {
	p := &Plan48{}
	p.SchemeA = []string{rawdb.HashScheme, rawdb.PathScheme}[r.Intn(2)]
	p.State = genState(r, tier, false)
	if r.Bool(0.5) {
		// smaller worlds: more requests per second
		p.State.Plain = r.Range(3, 40)
		p.State.Small = r.Range(2, 30)
	}
	nb := r.Range(2, 8)
	p.Blocks = genBlocks(r, nb, &p.State)
	if r.Bool(0.08) {
		p.Filler = r.Range(125, 140)
	}
	p.Pivot0 = r.Range(0, min(nb, 4))
	nreq := r.Range(20, 60)
	for i := 0; i < nreq; i++ {
		p.Reqs = append(p.Reqs, genReq48(r, nb))
	}
	p.Sync = r.Bool(0.15)
	p.SyncCap = capChoices[r.Intn(4)]
	return p
}

func DecodeC48(b []byte) (any, error) {
	p := &Plan48{}
	err := json.Unmarshal(b, p)
	return p, err
}

func ShrinkC48(pl any) []any {
	p := pl.(*Plan48)
	var out []any
	clone := func() *Plan48 {
		b, _ := json.Marshal(p)
		q := &Plan48{}
		json.Unmarshal(b, q)
		return q
	}
	if p.Sync {
		q := clone()
		q.Sync = false
		out = append(out, q)
	}
	for _, rs := range simcore.ShrinkSlice(p.Reqs) {
		q := clone()
		q.Reqs = rs
		out = append(out, q)
	}
	if p.Filler > 0 {
		q := clone()
		q.Filler = 0
		out = append(out, q)
	}
	if p.State.Plain > 2 {
		q := clone()
		q.State.Plain /= 2
		out = append(out, q)
	}
	if p.State.Small > 1 {
		q := clone()
		q.State.Small /= 2
		out = append(out, q)
	}
	if len(p.State.Large) > 0 {
		q := clone()
		q.State.Large = q.State.Large[1:]
		out = append(out, q)
	}
	for i := range p.Blocks {
		if len(p.Blocks[i].Txs) > 0 {
			q := clone()
			q.Blocks[i].Txs = nil
			out = append(out, q)
		}
	}
	for i := range p.Reqs {
		rq := p.Reqs[i]
		if rq.Import > 0 {
			q := clone()
			q.Reqs[i].Import, q.Reqs[i].Conc = 0, false
			out = append(out, q)
		}
		if len(rq.Accs) > 1 {
			q := clone()
			q.Reqs[i].Accs = q.Reqs[i].Accs[:len(rq.Accs)/2]
			out = append(out, q)
		}
		if len(rq.Paths) > 1 {
			q := clone()
			q.Reqs[i].Paths = q.Reqs[i].Paths[:len(rq.Paths)/2]
			out = append(out, q)
		}
		if len(rq.Codes) > 1 {
			q := clone()
			q.Reqs[i].Codes = q.Reqs[i].Codes[:len(rq.Codes)/2]
			out = append(out, q)
		}
		if len(out) > 200 {
			break
		}
	}
	return out
}

// ---- the run

type run48 struct {
	p         *Plan48
	w         *World
	res       *simcore.Result
	viol      *simcore.Violation
	log       simcore.Hash64
	allCodes  map[common.Hash][]byte
	codesUpTo int
}

func (r *run48) noteCodes(ref *RefState) {
	for h, c := range ref.Codes {
		r.allCodes[h] = c
	}
}

// isKnown: recorded findings (known_findings.jsonl) plus, for development only,
// keys listed in VERIF_SNAPSIM_KNOWN.
func isKnown(key string) bool {
	if simcore.IsKnown(key) {
		return true
	}
	for _, k := range strings.Split(os.Getenv("VERIF_SNAPSIM_KNOWN"), ",") {
		if k != "" && k == key {
			return true
		}
	}
	return false
}

// callSafely runs a handler call and converts a panic into a violation.
func callSafely(name string, f func()) (v *simcore.Violation) {
	defer func() {
		if e := recover(); e != nil {
			if hp, ok := e.(simcore.HarnessPanic); ok {
				panic(hp)
			}
			v = &simcore.Violation{Oracle: "handler-panic", Key: "handler-panic:" + name, Msg: fmt.Sprintf("%s panicked: %v", name, e)}
		}
	}()
	f()
	return nil
}

func (r *run48) doReq(q *Req48, idx int) *simcore.Violation {
	w := r.w
	var importDone chan struct{}
	head := w.imported
	if q.Import > 0 && head < len(w.blocks) {
		target := head + q.Import
		if q.Conc {
			// the head moves while the request is served: states are addressed
			// relative to the head before the import
			importDone = make(chan struct{})
			go func() { defer close(importDone); w.importRaw(target) }()
			r.res.Probe("import-concurrent-with-request")
		} else {
			w.Import(target)
			head = w.imported
		}
	}
	defer func() {
		if importDone != nil {
			<-importDone
			w.buildRefs()
		}
	}()
	root, ref, must := r.refForAt(head, q.Back, uint32(idx))
	if ref == nil {
		r.res.Probe("unknown-root-request")
	} else if !must {
		r.res.Probe("old-root-request")
	}
	chain := w.chain
	switch q.K {
	case kAccount:
		var keys []common.Hash
		if ref != nil {
			keys = ref.keys()
		}
		origin, limit := q.Origin.resolve(keys), q.Limit.resolve(keys)
		if bytes.Compare(origin[:], limit[:]) > 0 {
			r.res.Probe("inverted-range")
		}
		var accs []*snap.AccountData
		var proof [][]byte
		if v := callSafely("ServiceGetAccountRangeQuery", func() {
			accs, proof = snap.ServiceGetAccountRangeQuery(chain, &snap.GetAccountRangePacket{ID: uint64(idx), Root: root, Origin: origin, Limit: limit, Bytes: q.Bytes})
		}); v != nil {
			return v
		}
		r.log = r.log.U64(uint64(len(accs))).U64(uint64(len(proof)))
		if len(accs) > 0 {
			r.res.Probe("acc-answered")
		}
		return checkAccountRange(ref, must, origin, limit, q.Bytes, accs, proof)
	case kStorage:
		var accounts []common.Hash
		for _, s := range q.Accs {
			accounts = append(accounts, w.resolveAcc(s, ref))
		}
		var keys []common.Hash
		if ref != nil && len(accounts) > 0 {
			if a := ref.Account(accounts[0]); a != nil {
				keys = a.keys()
			}
		}
		var ob, lb []byte
		if q.HasOrigin {
			h := q.Origin.resolve(keys)
			ob = h[:]
		}
		if q.HasLimit {
			h := q.Limit.resolve(keys)
			lb = h[:]
		}
		if q.Short > 0 {
			if len(ob) > 0 {
				ob = ob[:32-q.Short]
			}
			if len(lb) > 0 {
				lb = lb[:32-q.Short]
			}
			r.res.Probe("short-origin-bytes")
		}
		if len(accounts) > 1 {
			r.res.Probe("multi-account-storage-request")
		}
		var slots [][]*snap.StorageData
		var proof [][]byte
		if v := callSafely("ServiceGetStorageRangesQuery", func() {
			slots, proof = snap.ServiceGetStorageRangesQuery(chain, &snap.GetStorageRangesPacket{ID: uint64(idx), Root: root, Accounts: append([]common.Hash{}, accounts...),
				Origin: common.CopyBytes(ob), Limit: common.CopyBytes(lb), Bytes: q.Bytes})
		}); v != nil {
			return v
		}
		r.log = r.log.U64(uint64(len(slots))).U64(uint64(len(proof)))
		if len(slots) > 0 {
			r.res.Probe("sto-answered")
		}
		if len(slots) > 1 {
			r.res.Probe("sto-multi-list-answer")
		}
		if len(proof) > 0 {
			r.res.Probe("sto-proven-answer")
		}
		return checkStorageRanges(ref, must, accounts, ob, lb, q.Bytes, slots, proof, r.res)
	case kCode:
		var sorted []common.Hash
		for h := range r.allCodes {
			sorted = append(sorted, h)
		}
		sort.Slice(sorted, func(i, j int) bool { return bytes.Compare(sorted[i][:], sorted[j][:]) < 0 })
		var hashes []common.Hash
		for _, c := range q.Codes {
			switch {
			case c.M == 0 && len(sorted) > 0:
				hashes = append(hashes, sorted[int(c.I)%len(sorted)])
			case c.M == 2:
				hashes = append(hashes, types.EmptyCodeHash)
			default:
				var b [7]byte
				binary.BigEndian.PutUint32(b[:], c.I)
				hashes = append(hashes, crypto.Keccak256Hash(b[:]))
			}
		}
		var codes [][]byte
		if v := callSafely("ServiceGetByteCodesQuery", func() {
			codes = snap.ServiceGetByteCodesQuery(chain, &snap.GetByteCodesPacket{ID: uint64(idx), Hashes: append([]common.Hash{}, hashes...), Bytes: q.Bytes})
		}); v != nil {
			return v
		}
		r.log = r.log.U64(uint64(len(codes)))
		if len(codes) > 0 {
			r.res.Probe("code-answered")
		}
		return checkByteCodes(r.knownCodes(head), hashes, q.Bytes, codes)
	case kTrie:
		var sets []snap.TrieNodePathSet
		for _, ps := range q.Paths {
			var set snap.TrieNodePathSet
			var idx *nodeIndex
			var keys []common.Hash
			if ps.Acc != nil {
				ah := w.resolveAcc(*ps.Acc, ref)
				set = append(set, ah[:])
				if ref != nil {
					if a := ref.Account(ah); a != nil && len(a.Storage) > 0 {
						idx, keys = a.storageIndex(), a.keys()
					}
				}
			} else if ref != nil {
				idx, keys = ref.accountIndex(), ref.keys()
			}
			for _, ns := range ps.Paths {
				var enc []byte
				switch {
				case ns.M == 0 && len(keys) > 0:
					nib := nibblesOf(keys[int(ns.I)%len(keys)][:])
					enc = compactOf(nib[:min(ns.L, len(nib))])
				case ns.M == 1 && idx != nil && len(idx.paths) > 0:
					enc = compactOf([]byte(idx.paths[int(ns.I)%len(idx.paths)]))
				case ns.M == 3 && len(keys) > 0:
					nib := nibblesOf(keys[int(ns.I)%len(keys)][:])
					for k := 0; k < ns.L; k++ {
						nib = append(nib, byte(k&15))
					}
					enc = compactOf(nib)
				default:
					enc = ns.Raw
					if enc == nil {
						enc = []byte{}
					}
				}
				set = append(set, enc)
			}
			sets = append(sets, set)
		}
		enc, err := rlp.EncodeToRawList(sets)
		if err != nil {
			simcore.Harnessf("encode path sets: %v", err)
		}
		var nodes [][]byte
		var herr error
		if v := callSafely("ServiceGetTrieNodesQuery", func() {
			nodes, herr = snap.ServiceGetTrieNodesQuery(chain, &snap.GetTrieNodesPacket{ID: uint64(idx), Root: root, Paths: enc, Bytes: q.Bytes})
		}); v != nil {
			return v
		}
		r.log = r.log.U64(uint64(len(nodes)))
		if herr != nil {
			r.res.Probe("trie-bad-request-error")
		}
		if len(nodes) > 0 {
			r.res.Probe("trie-answered")
		}
		return checkTrieNodes(ref, sets, q.Bytes, nodes, herr, r.res)
	}
	return nil
}

func (r *run48) knownCodes(head int) map[common.Hash][]byte {
	// codes never disappear from Node A's disk: everything deployed up to the head is known
	for ; r.codesUpTo <= head; r.codesUpTo++ {
		r.noteCodes(r.w.RefAt(r.codesUpTo))
	}
	return r.allCodes
}

// refForAt resolves the root of a request: (root, reference state or nil if the
// root is not a state of the chain, must the server answer).
func (r *run48) refForAt(head, back int, salt uint32) (common.Hash, *RefState, bool) {
	if back < 0 {
		var b [6]byte
		binary.BigEndian.PutUint32(b[:], salt)
		return crypto.Keccak256Hash(b[:]), nil, false
	}
	n := head - back
	if n < 0 {
		n = 0
	}
	return r.w.Header(n).Root, r.w.RefAt(n), head-n <= 100
}

func runWorld48(p *Plan48, res *simcore.Result) *run48 {
	blocks := append([]BlockPlan{}, p.Blocks...)
	for i := 0; i < p.Filler; i++ {
		blocks = append(blocks, BlockPlan{})
	}
	r := &run48{p: p, res: res, log: simcore.NewHash(), allCodes: map[common.Hash][]byte{}}
	r.w = NewWorld(&p.State, blocks, p.SchemeA, p.Pivot0)
	defer r.w.Stop()
	r.w.keepRefs = true
	r.w.buildRefs()
	for i := 0; i <= r.w.imported; i++ {
		r.noteCodes(r.w.RefAt(i))
	}
	if p.Sync {
		if v := r.syncPhase(); v != nil {
			r.viol = v
			return r
		}
	}
	for i := range p.Reqs {
		if p.Filler > 0 && i == len(p.Reqs)/3 {
			// a long stretch of blocks: diff layers are flattened, old roots become stale
			r.w.Import(len(blocks))
			res.Probe("filler-blocks-imported")
		}
		if v := r.doReq(&p.Reqs[i], i); v != nil {
			if isKnown(v.Key) {
				res.KnownHit(v.Key)
				continue
			}
			v.Msg = fmt.Sprintf("request %d: %s", i, v.Msg)
			r.viol = v
			return r
		}
		res.Events++
	}
	return r
}

// syncPhase runs a real snap/1 sync with one honest (capped) peer against Node A
// and applies the serving-side oracle to every answer the handlers give it.
func (r *run48) syncPhase() *simcore.Violation {
	cp := &Plan{Ver: 1, SchemeA: r.p.SchemeA, SchemeB: rawdb.HashScheme, Peers: []PeerPlan{{Cap: r.p.SyncCap, LatMin: 5, LatMax: 50}}, FaultStop: 0, Concurrent: 1}
	cp.Peers[0].W[aDeliver] = 1
	rs := &runState{p: cp, res: r.res, tape: &simcore.TapeReader{}, outcome: simcore.NewHash(), w: r.w}
	rs.initDisk()
	rs.net = NewNet(r.w, r.res, 1, cp.Peers)
	rs.net.check48 = func(rq *request, a *answer) *simcore.Violation {
		ref := r.w.RefByRoot(rq.root)
		budget := uint64(rs.net.lastBudget)
		switch rq.kind {
		case kAccount:
			var accs []*snap.AccountData
			for i := range a.hashes {
				var acc types.StateAccount
				if err := rlp.DecodeBytes(a.bodies[i], &acc); err != nil {
					return v48("acc-wrong-value", "undecodable account served: %v", err)
				}
				accs = append(accs, &snap.AccountData{Hash: a.hashes[i], Body: types.SlimAccountRLP(acc)})
			}
			return checkAccountRange(ref, true, rq.origin, rq.limit, budget, accs, a.proof)
		case kStorage:
			var slots [][]*snap.StorageData
			for i := range a.shashes {
				var l []*snap.StorageData
				for j := range a.shashes[i] {
					l = append(l, &snap.StorageData{Hash: a.shashes[i][j], Body: a.sslots[i][j]})
				}
				slots = append(slots, l)
			}
			return checkStorageRanges(ref, true, rq.accounts, rq.sorigin, rq.slimit, budget, slots, a.proof, r.res)
		case kCode:
			return checkByteCodes(r.knownCodes(r.w.imported), rq.hashes, budget, a.blobs)
		case kTrie:
			return checkTrieNodes(ref, rq.paths, budget, a.blobs, nil, r.res)
		}
		return nil
	}
	rs.pivot = r.w.imported
	rs.writeHeaders(0, rs.pivot)
	rs.newSyncer()
	rs.net.faultsOn = false
	rs.startSync()
	rs.loop()
	if rs.done != nil {
		close(rs.cancel)
		<-rs.done
	}
	synctest.Wait()
	r.res.Probes["syncer-requests-checked"] += rs.net.requests
	if rs.net.viol != nil {
		return rs.net.viol
	}
	if rs.viol != nil && rs.viol.Oracle != "liveness" {
		// a failing sync is C47's business; here only the serving side is judged
		r.res.Probe("sync-phase-trouble:" + rs.viol.Oracle)
	}
	return nil
}

func RunC48(t *testing.T, pl any) *simcore.Result {
	p := pl.(*Plan48)
	prologue()
	res := simcore.NewResult()
	var r *run48
	var harness *simcore.HarnessPanic
	start := time.Now()
	dl := simsched.Bubble(t, func() {
		defer func() {
			if e := recover(); e != nil {
				if hp, ok := e.(simcore.HarnessPanic); ok {
					harness = &hp
					return
				}
				panic(e)
			}
		}()
		r = runWorld48(p, res)
	})
	_ = start
	if harness != nil {
		simcore.Harnessf("%s", harness.Msg)
	}
	if dl != "" {
		simcore.Harnessf("snapsim C48 bubble: %s", dl)
	}
	res.Violation = r.viol
	res.NonTrivial = res.Events > 0
	lh := r.log
	if r.viol != nil {
		lh = lh.String(r.viol.Oracle)
	}
	res.LogHash = uint64(lh)
	res.StateFP = uint64(lh)
	res.SchedFP = uint64(simcore.NewHash().U64(uint64(lh)).U64(p.State.Seed))
	if trace {
		fmt.Printf("END48 reqs=%d probes=%v viol=%v\n", res.Events, res.Probes, r.viol)
	}
	return res
}
