package refmpt

import (
	"bytes"
	"testing"

	"github.com/ethereum/go-ethereum/common"
	"github.com/ethereum/go-ethereum/core/rawdb"
	"github.com/ethereum/go-ethereum/trie"
	"github.com/ethereum/go-ethereum/triedb"
	"verifsim/simcore"
)

// Sanity of the reference against the implementation on the unchanged tree (a
// disagreement here on a clean tree means the reference is wrong).
func TestAgainstTrie(t *testing.T) {
	for seed := uint64(0); seed < 400; seed++ {
		r := simcore.NewRand(seed)
		n := r.Intn(60)
		m := map[string][]byte{}
		tr := trie.NewEmpty(triedb.NewDatabase(rawdb.NewMemoryDatabase(), nil))
		for i := 0; i < n; i++ {
			var k []byte
			if r.Bool(0.5) {
				k = r.Bytes(32)
			} else {
				k = make([]byte, r.Range(1, 3))
				for j := range k {
					k[j] = byte(r.Intn(3)) << 4
				}
			}
			v := r.Bytes(r.Range(1, 40))
			m[string(k)] = v
			tr.MustUpdate(k, v)
		}
		if got, want := common.BytesToHash(RootMap(m)), tr.Hash(); got != want {
			t.Fatalf("seed %d: ref %x trie %x", seed, got, want)
		}
	}
	if !bytes.Equal(EmptyRoot, common.HexToHash("56e81f171bcc55a6ff8345e692c0f86e5b48e01b996cadc001622fb5e363b421").Bytes()) {
		t.Fatal("empty root")
	}
}
