// Package refmpt is a specification-level Merkle-Patricia trie: root hash and node
// set of a key/value map, written for the oracles from the yellow-paper definition.
// It shares no code with go-ethereum's trie package (only Keccak-256).
package refmpt

import (
	"bytes"
	"sort"

	"golang.org/x/crypto/sha3"
)

func keccak(b []byte) []byte {
	h := sha3.NewLegacyKeccak256()
	h.Write(b)
	return h.Sum(nil)
}

// EmptyRoot is keccak(rlp("")).
var EmptyRoot = keccak([]byte{0x80})

type KV struct{ K, V []byte }

// Node describes one trie node: its path (nibbles from the root), its RLP
// encoding and whether it is stored on its own (len(rlp) >= 32 or the root) or
// embedded in its parent.
type Node struct {
	Path     []byte
	RLP      []byte
	Hash     []byte // keccak(RLP) if !Embedded
	Embedded bool
}

func nibbles(k []byte) []byte {
	n := make([]byte, 0, 2*len(k))
	for _, b := range k {
		n = append(n, b>>4, b&15)
	}
	return n
}

// hex-prefix encoding of a nibble path
func hp(nib []byte, leaf bool) []byte {
	flag := byte(0)
	if leaf {
		flag = 2
	}
	var out []byte
	if len(nib)%2 == 1 {
		out = append(out, (flag+1)<<4|nib[0])
		nib = nib[1:]
	} else {
		out = append(out, flag<<4)
	}
	for i := 0; i < len(nib); i += 2 {
		out = append(out, nib[i]<<4|nib[i+1])
	}
	return out
}

func rlpString(b []byte) []byte {
	if len(b) == 1 && b[0] < 0x80 {
		return []byte{b[0]}
	}
	return append(rlpLen(len(b), 0x80), b...)
}

func rlpLen(n int, base byte) []byte {
	if n < 56 {
		return []byte{base + byte(n)}
	}
	var be []byte
	for x := n; x > 0; x >>= 8 {
		be = append([]byte{byte(x)}, be...)
	}
	return append([]byte{base + 55 + byte(len(be))}, be...)
}

func rlpList(items ...[]byte) []byte {
	var body []byte
	for _, it := range items {
		body = append(body, it...)
	}
	return append(rlpLen(len(body), 0xc0), body...)
}

type entry struct {
	nib []byte
	val []byte
}

type builder struct {
	nodes []Node
	keep  bool
}

// ref returns the reference to a node encoding as it appears inside its parent.
func (b *builder) ref(enc []byte, path []byte) []byte {
	if len(enc) < 32 {
		if b.keep {
			b.nodes = append(b.nodes, Node{Path: append([]byte{}, path...), RLP: enc, Embedded: true})
		}
		return enc
	}
	h := keccak(enc)
	if b.keep {
		b.nodes = append(b.nodes, Node{Path: append([]byte{}, path...), RLP: enc, Hash: h})
	}
	return rlpString(h)
}

// build encodes the subtrie holding es (sorted, distinct, sharing the first
// `depth` nibbles) and returns its RLP encoding.
func (b *builder) build(es []entry, depth int, path []byte) []byte {
	if len(es) == 1 {
		return rlpList(rlpString(hp(es[0].nib[depth:], true)), rlpString(es[0].val))
	}
	// longest common prefix beyond depth
	first, last := es[0].nib, es[len(es)-1].nib
	cp := 0
	for depth+cp < len(first) && depth+cp < len(last) && first[depth+cp] == last[depth+cp] {
		cp++
	}
	if cp > 0 {
		childPath := append(append([]byte{}, path...), first[depth:depth+cp]...)
		child := b.build(es, depth+cp, childPath)
		return rlpList(rlpString(hp(first[depth:depth+cp], false)), b.ref(child, childPath))
	}
	// branch
	items := make([][]byte, 17)
	for i := range items {
		items[i] = []byte{0x80}
	}
	i := 0
	if len(es[0].nib) == depth {
		items[16] = rlpString(es[0].val)
		i = 1
	}
	for i < len(es) {
		nb := es[i].nib[depth]
		j := i
		for j < len(es) && es[j].nib[depth] == nb {
			j++
		}
		childPath := append(append([]byte{}, path...), nb)
		child := b.build(es[i:j], depth+1, childPath)
		items[nb] = b.ref(child, childPath)
		i = j
	}
	return rlpList(items...)
}

func prepare(kvs []KV) []entry {
	es := make([]entry, 0, len(kvs))
	for _, kv := range kvs {
		if len(kv.V) == 0 {
			continue // empty value = absent
		}
		es = append(es, entry{nib: nibbles(kv.K), val: kv.V})
	}
	sort.Slice(es, func(i, j int) bool { return bytes.Compare(es[i].nib, es[j].nib) < 0 })
	// distinct keys required; later duplicates win
	out := es[:0]
	for i, e := range es {
		if i+1 < len(es) && bytes.Equal(es[i+1].nib, e.nib) {
			continue
		}
		out = append(out, e)
	}
	return out
}

// Root returns the trie root of the map (entries with empty values are absent).
func Root(kvs []KV) []byte {
	es := prepare(kvs)
	if len(es) == 0 {
		return EmptyRoot
	}
	b := &builder{}
	return keccak(b.build(es, 0, nil))
}

// Nodes returns the root and every node of the trie (the root node has an empty
// path and is never embedded).
func Nodes(kvs []KV) ([]byte, []Node) {
	es := prepare(kvs)
	if len(es) == 0 {
		return EmptyRoot, nil
	}
	b := &builder{keep: true}
	enc := b.build(es, 0, nil)
	root := keccak(enc)
	b.nodes = append(b.nodes, Node{Path: []byte{}, RLP: enc, Hash: root})
	return root, b.nodes
}

// RootMap is Root over a Go map with string keys.
func RootMap(m map[string][]byte) []byte {
	kvs := make([]KV, 0, len(m))
	for k, v := range m {
		kvs = append(kvs, KV{[]byte(k), v})
	}
	return Root(kvs)
}
