package kvsim

import (
	"testing"

	"verifsim/simcore"
)

func TestWorker(t *testing.T) { simcore.RunWorker(t, Checks()) }
