// Package kvsim checks C23: the in-memory, Pebble and LevelDB key-value backends
// (and rawdb.NewTable prefix views over them) are observationally equivalent, and a
// batch becomes visible entirely or not at all.
//
// One operation sequence is applied in lock-step to the three real backends, each
// through its raw handle and through a table view, and to a sorted-map reference
// model; every return value and the full store content are compared after every
// step. pebble and leveldb run their own background threads: those are real
// threads outside any simulated scheduler (perturbed, not decided).
package kvsim

import (
	"bytes"
	"encoding/json"
	"fmt"
	"os"
	"sort"
	"strings"
	"sync"
	"sync/atomic"
	"testing"

	"github.com/ethereum/go-ethereum/core/rawdb"
	"github.com/ethereum/go-ethereum/ethdb"
	"github.com/ethereum/go-ethereum/ethdb/leveldb"
	"github.com/ethereum/go-ethereum/ethdb/memorydb"
	"github.com/ethereum/go-ethereum/ethdb/pebble"

	"verifsim/simcore"
)

// ---------------------------------------------------------------- plan

// Op is one step. V selects the view (0 raw, 1 table), S a batch or iterator slot.
// Key/Val keep the nil/empty distinction through JSON (null vs "").
type Op struct {
	K   string `json:"k"`
	V   int    `json:"v,omitempty"`
	S   int    `json:"s,omitempty"`
	TV  int    `json:"tv,omitempty"` // replay target view
	T   int    `json:"t,omitempty"`  // replay target batch slot
	N   int    `json:"n,omitempty"`  // inext: steps; atomic: keys per batch
	M   int    `json:"m,omitempty"`  // atomic: batches; mode in Mode
	Mo  int    `json:"mo,omitempty"` // atomic: 0 overwrite, 1 put/delete alternation, 2 range-delete + puts
	R   int    `json:"r,omitempty"`  // atomic: repetitions of the phase (set by the run that found a visibility violation, so that replays of this real-thread race try harder)
	Key []byte `json:"key"`          // key | range start | iterator prefix | atomic key base
	Val []byte `json:"val"`          // value | range end | iterator start
}

type Plan struct {
	Ops []Op `json:"ops"`
}

// views: 0 = the raw store, 1 = rawdb.NewTable(prefix 00), 2 = rawdb.NewTable(prefix ff).
// The alphabet has two adjacent symbols (00,01: the successor of a prefix is itself a
// key) and the maximal byte (ff: carry handling in upper bounds, MaximumKey hack).
var viewPrefix = [3]string{"", "\x00", "\xff"}

const nViews = 3

var alphabet = []byte{0x00, 0x01, 0xff}

type keyGen struct {
	r    *simcore.Rand
	pool [][]byte
}

func (g *keyGen) fresh(maxLen int) []byte {
	n := 0
	switch g.r.Pick(1, 5, 6, 5, 2) {
	case 0:
		n = 0
	case 1:
		n = 1
	case 2:
		n = 2
	case 3:
		n = 3
	case 4:
		n = 4
	}
	if n > maxLen {
		n = maxLen
	}
	k := make([]byte, n)
	for i := range k {
		k[i] = alphabet[g.r.Intn(3)]
	}
	return k
}

func (g *keyGen) key() []byte {
	if len(g.pool) > 0 && g.r.Bool(0.55) {
		return append([]byte{}, g.pool[g.r.Intn(len(g.pool))]...)
	}
	k := g.fresh(4)
	g.pool = append(g.pool, k)
	if len(g.pool) > 24 {
		g.pool = g.pool[1:]
	}
	return append([]byte{}, k...)
}

// bound: a range bound / iterator argument: nil, empty, or a key.
func (g *keyGen) bound(pNil float64) []byte {
	if g.r.Bool(pNil) {
		return nil
	}
	return g.key()
}

func gen(r *simcore.Rand, tier string) any {
	p := &Plan{}
	g := &keyGen{r: r}
	n := r.Range(25, 90)
	if tier == "thorough" {
		n = r.Range(25, 220)
	}
	// per-run swarm switches keep runs diverse: some runs never use a feature
	useEmptyKeyBatchDel := r.Bool(0.25)
	useTableReplay := r.Bool(0.5)
	ctr := 0
	val := func() []byte {
		if r.Bool(0.12) {
			if r.Bool(0.5) {
				return nil
			}
			return []byte{}
		}
		ctr++
		v := []byte{byte(ctr >> 8), byte(ctr)}
		if r.Bool(0.2) {
			v = append(v, bytes.Repeat([]byte{0xab}, r.Intn(40))...)
		}
		return v
	}
	view := func() int { return r.Pick(3, 2, 2) }
	for len(p.Ops) < n {
		switch r.Pick(14, 6, 6, 10, 4, 22, 8, 8, 3, 2, 1, 1) {
		case 0:
			p.Ops = append(p.Ops, Op{K: "put", V: view(), Key: g.key(), Val: val()})
		case 1:
			p.Ops = append(p.Ops, Op{K: "del", V: view(), Key: g.key()})
		case 2:
			p.Ops = append(p.Ops, Op{K: "delrange", V: view(), Key: g.bound(0.15), Val: g.bound(0.2)})
		case 3:
			p.Ops = append(p.Ops, Op{K: "get", V: view(), Key: g.key()})
		case 4:
			p.Ops = append(p.Ops, Op{K: "has", V: view(), Key: g.key()})
		case 5: // a burst of batch building
			v, s := view(), r.Intn(2)
			for k := r.Range(1, 5); k > 0; k-- {
				switch r.Pick(8, 4, 3, 2, 1) {
				case 0:
					p.Ops = append(p.Ops, Op{K: "bput", V: v, S: s, Key: g.key(), Val: val()})
				case 1:
					key := g.key()
					if len(key) == 0 && !useEmptyKeyBatchDel {
						key = []byte{alphabet[r.Intn(3)]}
					}
					p.Ops = append(p.Ops, Op{K: "bdel", V: v, S: s, Key: key})
				case 2:
					p.Ops = append(p.Ops, Op{K: "bdelrange", V: v, S: s, Key: g.bound(0.15), Val: g.bound(0.2)})
				case 3:
					p.Ops = append(p.Ops, Op{K: "bsize", V: v, S: s})
				case 4:
					p.Ops = append(p.Ops, Op{K: "breset", V: v, S: s})
				}
			}
			switch r.Pick(6, 2, 2, 1) {
			case 0:
				p.Ops = append(p.Ops, Op{K: "bwrite", V: v, S: s})
			case 1:
				if v != 0 && !useTableReplay {
					p.Ops = append(p.Ops, Op{K: "bwrite", V: v, S: s})
				} else {
					p.Ops = append(p.Ops, Op{K: "breplayb", V: v, S: s, TV: view(), T: r.Intn(2)})
				}
			case 2:
				if v != 0 && !useTableReplay {
					p.Ops = append(p.Ops, Op{K: "bwrite", V: v, S: s})
				} else {
					p.Ops = append(p.Ops, Op{K: "breplays", V: v, S: s, TV: view()})
				}
			case 3:
			}
		case 6:
			var prefix []byte
			if r.Bool(0.7) {
				prefix = g.fresh(2)
				if r.Bool(0.3) {
					prefix = nil
				}
			} else {
				prefix = g.key()
			}
			p.Ops = append(p.Ops, Op{K: "iopen", V: view(), S: r.Intn(4), Key: prefix, Val: g.bound(0.4)})
		case 7:
			if r.Bool(0.6) {
				p.Ops = append(p.Ops, Op{K: "inext", S: r.Intn(4), N: r.Range(1, 4)})
			} else {
				p.Ops = append(p.Ops, Op{K: "idrain", S: r.Intn(4)})
			}
		case 8:
			p.Ops = append(p.Ops, Op{K: "reopen"})
		case 9:
			p.Ops = append(p.Ops, Op{K: "atomic", V: view(), N: r.Range(2, 6), M: r.Range(3, 12), Mo: r.Intn(3), Key: g.fresh(2), Val: []byte{byte(r.Intn(256))}})
		case 10:
			p.Ops = append(p.Ops, Op{K: "compact"})
		case 11:
			p.Ops = append(p.Ops, Op{K: "sync"})
		}
	}
	return p
}

func decode(b []byte) (any, error) {
	p := &Plan{}
	return p, json.Unmarshal(b, p)
}

func shrink(pl any) []any {
	p := pl.(*Plan)
	var out []any
	for _, ops := range simcore.ShrinkSlice(p.Ops) {
		out = append(out, &Plan{Ops: ops})
	}
	return out
}

// ---------------------------------------------------------------- reference model

type store map[string][]byte

func (s store) clone() store {
	o := make(store, len(s))
	for k, v := range s {
		o[k] = v
	}
	return o
}

func (s store) sortedKeys() []string {
	ks := make([]string, 0, len(s))
	for k := range s {
		ks = append(ks, k)
	}
	sort.Strings(ks)
	return ks
}

// inRange: start <= k < end; nil start = before all keys, nil end = after all keys.
func inRange(k string, start, end []byte) bool {
	if start != nil && k < string(start) {
		return false
	}
	if end != nil && k >= string(end) {
		return false
	}
	return true
}

const (
	bPut byte = iota + 1
	bDel
	bRange
)

// bop is one batch entry in store-absolute keys.
type bop struct {
	kind     byte
	key, val []byte // bRange: key=start, val=end (nil = unbounded)
}

func applyOps(s store, ops []bop) store {
	o := s.clone()
	for _, op := range ops {
		switch op.kind {
		case bPut:
			o[string(op.key)] = append([]byte{}, op.val...)
		case bDel:
			delete(o, string(op.key))
		case bRange:
			for k := range o {
				if inRange(k, op.key, op.val) {
					delete(o, k)
				}
			}
		}
	}
	return o
}

// Deviations from the specification that the unchanged tree is known to have. Each
// is only ever used to *explain* an observed mismatch; an explained mismatch is
// reported under the cause's key (and skipped only if that key is a recorded finding).
const (
	causeMemEmptyDel  = "memorydb-batch-delete-empty-key-wipes-store"
	causeLdbEager     = "leveldb-batch-deleterange-resolved-at-call-time"
	causeTableReplay  = "table-batch-replay-fails-on-deleterange"
	causeLdbInverted  = "leveldb-batch-deleterange-inverted-range-panics"
	errReplayExpected = "does not implement DeleteRange"
)

// mbatch is the model of one batch slot of one backend: the entries by the
// specification, and the entries under that backend's known deviations.
type mbatch struct {
	real      ethdb.Batch
	view      int
	spec, alt []bop
	causes    map[string]bool // deviations that made alt differ from spec
	sizeExact bool            // no range entries so far: ValueSize is exactly predictable
	size      int
	lastSize  int
}

type miter struct {
	real ethdb.Iterator
	view int
	snap [][2][]byte // expected (view-relative key, value) sequence
	pos  int
	done bool
}

type backend struct {
	name    string
	dir     string
	kv      ethdb.KeyValueStore
	views   [nViews]ethdb.KeyValueStore
	exp     store
	batches map[[2]int]*mbatch
	iters   [4]*miter
}

type world struct {
	res *simcore.Result
	bs  []*backend
	log simcore.Hash64
	dir string
}

func abs(view int, k []byte) []byte {
	return append([]byte(viewPrefix[view]), k...)
}

// absRange maps a view-relative range to store-absolute bounds.
func absRange(view int, start, end []byte) ([]byte, []byte) {
	if view == 0 {
		return start, end
	}
	s := append([]byte(viewPrefix[view]), start...)
	var e []byte
	if end == nil {
		e = append([]byte(viewPrefix[view]), ethdb.MaximumKey...)
	} else {
		e = append([]byte(viewPrefix[view]), end...)
	}
	return s, e
}

func eqBytes(a, b []byte) bool { return bytes.Equal(a, b) } // nil and empty are the same observation

func (w *world) open(b *backend) {
	var err error
	switch b.name {
	case "memorydb":
		if b.kv == nil {
			b.kv = memorydb.New()
		}
	case "pebble":
		b.kv, err = pebble.New(b.dir, 16, 16, "", false)
	case "leveldb":
		b.kv, err = leveldb.New(b.dir, 16, 16, "", false)
	}
	if err != nil {
		simcore.Harnessf("open %s: %v", b.name, err)
	}
	b.views[0] = b.kv
	b.views[1] = rawdb.NewTable(rawdb.NewDatabase(b.kv), viewPrefix[1])
	b.views[2] = rawdb.NewTable(rawdb.NewDatabase(b.kv), viewPrefix[2])
}

func dump(kv ethdb.KeyValueStore) store {
	s := store{}
	it := kv.NewIterator(nil, nil)
	defer it.Release()
	for it.Next() {
		s[string(it.Key())] = append([]byte{}, it.Value()...)
	}
	return s
}

func diffStores(exp, got store) string {
	for _, k := range exp.sortedKeys() {
		v, ok := got[k]
		if !ok {
			return fmt.Sprintf("key %x is missing (expected value %x)", k, trunc(exp[k]))
		}
		if !eqBytes(v, exp[k]) {
			return fmt.Sprintf("key %x holds %x, expected %x", k, trunc(v), trunc(exp[k]))
		}
	}
	for _, k := range got.sortedKeys() {
		if _, ok := exp[k]; !ok {
			return fmt.Sprintf("key %x is present (value %x) but should not exist", k, trunc(got[k]))
		}
	}
	return ""
}

func trunc(b []byte) []byte {
	if len(b) > 10 {
		return b[:10]
	}
	return b
}

func viewName(v int) string {
	switch v {
	case 1:
		return "table00"
	case 2:
		return "tableff"
	}
	return "raw"
}

func (w *world) viol(b *backend, op string, view int, format string, a ...any) *simcore.Violation {
	return &simcore.Violation{Oracle: "diverges:" + op, Key: "diverges:" + b.name + ":" + viewName(view) + ":" + op,
		Msg: fmt.Sprintf("%s (%s view) %s: %s", b.name, viewName(view), op, fmt.Sprintf(format, a...))}
}

// explained handles a mismatch that a known deviation accounts for. It returns a
// violation unless every cause is a recorded finding.
func (w *world) explained(b *backend, causes map[string]bool, detail string) *simcore.Violation {
	names := make([]string, 0, len(causes))
	for c := range causes {
		names = append(names, c)
	}
	sort.Strings(names)
	for _, c := range names {
		if !simcore.IsKnown(c) {
			return &simcore.Violation{Oracle: "known-deviation", Key: c, Msg: fmt.Sprintf("%s: %s (behaviour matches the deviation %q exactly)", b.name, detail, c)}
		}
	}
	for _, c := range names {
		w.res.KnownHit(c)
	}
	return nil
}

// settle compares the backend's content with the specification's result; if it
// differs and the deviation model explains it exactly, the explanation is adopted.
func (w *world) settle(b *backend, op string, view int, specState, altState store, causes map[string]bool) *simcore.Violation {
	got := dump(b.kv)
	d := diffStores(specState, got)
	if d == "" {
		b.exp = specState
		return nil
	}
	if altState != nil && len(causes) > 0 && diffStores(altState, got) == "" {
		if v := w.explained(b, causes, fmt.Sprintf("after %s through the %s view: %s", op, viewName(view), d)); v != nil {
			return v
		}
		b.exp = altState
		return nil
	}
	return w.viol(b, op, view, "store content differs from the reference model: %s", d)
}

func (b *backend) batch(view, slot int) *mbatch {
	k := [2]int{view, slot}
	mb := b.batches[k]
	if mb == nil {
		var real ethdb.Batch
		if slot%2 == 1 {
			real = b.views[view].NewBatchWithSize(64) // the pre-sized constructor must behave the same
		} else {
			real = b.views[view].NewBatch()
		}
		mb = &mbatch{real: real, view: view, causes: map[string]bool{}, sizeExact: true}
		b.batches[k] = mb
	}
	return mb
}

func (mb *mbatch) reset() {
	mb.spec, mb.alt = nil, nil
	mb.causes = map[string]bool{}
	mb.sizeExact, mb.size, mb.lastSize = true, 0, 0
}

func hasRange(ops []bop) bool {
	for _, o := range ops {
		if o.kind == bRange {
			return true
		}
	}
	return false
}

// rel converts store-absolute batch entries of a batch of view v to the keys its
// Replay hands to the target (table batches strip their prefix).
func rel(view int, ops []bop) []bop {
	if view == 0 {
		return ops
	}
	out := make([]bop, len(ops))
	for i, o := range ops {
		out[i] = bop{kind: o.kind, key: o.key[len(viewPrefix[view]):], val: o.val}
		if o.kind == bRange {
			out[i].val = o.val[len(viewPrefix[view]):]
		}
	}
	return out
}

// into converts view-relative entries to store-absolute entries of a target view.
func into(view int, ops []bop) []bop {
	out := make([]bop, len(ops))
	for i, o := range ops {
		switch o.kind {
		case bRange:
			s, e := absRange(view, o.key, o.val)
			out[i] = bop{kind: bRange, key: s, val: e}
		default:
			out[i] = bop{kind: o.kind, key: abs(view, o.key), val: o.val}
		}
	}
	return out
}

// replayLists returns what a Replay of mb delivers by the specification and under the
// backend's deviations (altErr: the deviation model expects Replay to fail).
func (b *backend) replayLists(mb *mbatch) (spec, alt []bop, altErr bool, causes map[string]bool) {
	causes = map[string]bool{}
	for c := range mb.causes {
		causes[c] = true
	}
	spec = rel(mb.view, mb.spec)
	alt = rel(mb.view, mb.alt)
	if mb.view != 0 && hasRange(mb.alt) {
		// tableReplayer has no DeleteRange: the inner Replay stops at the first range entry
		for i, o := range alt {
			if o.kind == bRange {
				alt = alt[:i]
				break
			}
		}
		altErr = true
		causes[causeTableReplay] = true
	}
	return
}

func closeAll(b *backend) {
	for _, it := range b.iters {
		if it != nil {
			it.real.Release()
		}
	}
	b.iters = [4]*miter{}
	for _, mb := range b.batches {
		mb.real.Close()
	}
	b.batches = map[[2]int]*mbatch{}
}

// ---------------------------------------------------------------- run

func scratchDir() string {
	d := os.Getenv("VERIF_SCRATCH")
	if d == "" {
		d = "/dev/shm"
	}
	return d
}

func run(t *testing.T, pl any) *simcore.Result {
	p := pl.(*Plan)
	res := simcore.NewResult()
	dir, err := os.MkdirTemp(scratchDir(), "kv-")
	if err != nil {
		simcore.Harnessf("mkdtemp: %v", err)
	}
	defer os.RemoveAll(dir)
	w := &world{res: res, log: simcore.NewHash(), dir: dir}
	for _, n := range []string{"memorydb", "pebble", "leveldb"} {
		b := &backend{name: n, dir: dir + "/" + n, exp: store{}, batches: map[[2]int]*mbatch{}}
		w.open(b)
		w.bs = append(w.bs, b)
	}
	defer func() {
		for _, b := range w.bs {
			closeAll(b)
			b.kv.Close()
		}
	}()
	feat := map[string]bool{}
	for i, op := range p.Ops {
		w.log = w.log.String(op.K).U64(uint64(i))
		feat[op.K] = true
		if v := w.step(op); v != nil {
			v.Msg = fmt.Sprintf("step %d/%d %s: %s", i, len(p.Ops), opString(op), v.Msg)
			if v.Oracle == "batch-atomicity" && p.Ops[i].R == 0 {
				p.Ops[i].R = 25 // the replay file asks for up to 25 repetitions of this phase
			}
			return res.Fail(v)
		}
	}
	// final: everything still open drains as expected, content matches
	for s := 0; s < 4; s++ {
		if v := w.step(Op{K: "idrain", S: s}); v != nil {
			v.Msg = "final drain: " + v.Msg
			return res.Fail(v)
		}
	}
	for _, b := range w.bs {
		if v := w.settle(b, "end-of-run", 0, b.exp, nil, nil); v != nil {
			return res.Fail(v)
		}
	}
	res.Events = len(p.Ops)
	res.LogHash = uint64(w.log)
	fh := simcore.NewHash()
	ks := make([]string, 0, len(feat))
	for k := range feat {
		ks = append(ks, k)
	}
	sort.Strings(ks)
	for _, k := range ks {
		fh = fh.String(k)
	}
	for _, k := range w.bs[1].exp.sortedKeys() {
		fh = fh.String(k).Bytes(w.bs[1].exp[k])
	}
	res.StateFP = uint64(fh)
	res.NonTrivial = feat["bwrite"] && (feat["iopen"] || feat["delrange"] || feat["bdelrange"])
	return res
}

func opString(op Op) string {
	s := fmt.Sprintf("%s view=%s", op.K, viewName(op.V))
	switch op.K {
	case "put", "bput":
		s += fmt.Sprintf(" key=%s val=%s", bs(op.Key), bs(op.Val))
	case "del", "bdel", "get", "has":
		s += fmt.Sprintf(" key=%s", bs(op.Key))
	case "delrange", "bdelrange":
		s += fmt.Sprintf(" start=%s end=%s", bs(op.Key), bs(op.Val))
	case "iopen":
		s += fmt.Sprintf(" prefix=%s start=%s", bs(op.Key), bs(op.Val))
	case "breplayb", "breplays":
		s += fmt.Sprintf(" -> view=%s slot=%d", viewName(op.TV), op.T)
	case "atomic":
		s += fmt.Sprintf(" base=%s k=%d batches=%d mode=%d", bs(op.Key), op.N, op.M, op.Mo)
	}
	if strings.HasPrefix(op.K, "b") || strings.HasPrefix(op.K, "i") {
		s += fmt.Sprintf(" slot=%d", op.S)
	}
	return s
}

func bs(b []byte) string {
	if b == nil {
		return "nil"
	}
	return fmt.Sprintf("%x.", b)
}

func (w *world) step(op Op) *simcore.Violation {
	if op.V < 0 || op.V >= nViews || op.TV < 0 || op.TV >= nViews || op.S < 0 || op.S > 3 || op.T < 0 || op.T > 3 {
		return nil
	}
	res := w.res
	switch op.K {
	case "put", "del", "delrange":
		for _, b := range w.bs {
			h := b.views[op.V]
			var err error
			var ops []bop
			switch op.K {
			case "put":
				err = h.Put(op.Key, op.Val)
				ops = []bop{{kind: bPut, key: abs(op.V, op.Key), val: op.Val}}
			case "del":
				err = h.Delete(op.Key)
				ops = []bop{{kind: bDel, key: abs(op.V, op.Key)}}
			case "delrange":
				err = h.DeleteRange(op.Key, op.Val)
				s, e := absRange(op.V, op.Key, op.Val)
				ops = []bop{{kind: bRange, key: s, val: e}}
			}
			if err != nil {
				return w.viol(b, op.K, op.V, "returned error %v", err)
			}
			before := len(b.exp)
			if v := w.settle(b, op.K, op.V, applyOps(b.exp, ops), nil, nil); v != nil {
				return v
			}
			if op.K == "delrange" && b.name == "pebble" {
				if len(b.exp) < before {
					res.Probe("range-delete-removed-keys")
				}
				if op.Key != nil && op.Val != nil && bytes.Compare(op.Key, op.Val) >= 0 {
					res.Probe("range-delete-inverted-or-empty")
				}
			}
		}
	case "get", "has":
		for _, b := range w.bs {
			h := b.views[op.V]
			want, ok := b.exp[string(abs(op.V, op.Key))]
			if op.K == "get" {
				got, err := h.Get(op.Key)
				w.log = w.log.Bytes(got)
				if ok != (err == nil) {
					return w.viol(b, "get", op.V, "key %s: err=%v, but the key %s", bs(op.Key), err, map[bool]string{true: "exists", false: "does not exist"}[ok])
				}
				if ok && !eqBytes(got, want) {
					return w.viol(b, "get", op.V, "key %s: got %x want %x", bs(op.Key), trunc(got), trunc(want))
				}
				if ok && len(want) == 0 {
					res.Probe("get-empty-value")
				}
			} else {
				got, err := h.Has(op.Key)
				if err != nil || got != ok {
					return w.viol(b, "has", op.V, "key %s: got %v,%v want %v", bs(op.Key), got, err, ok)
				}
			}
			if len(op.Key) == 0 && ok && b.name == "pebble" {
				res.Probe("empty-key-read-hit")
			}
		}
	case "bput", "bdel", "bdelrange":
		for _, b := range w.bs {
			mb := b.batch(op.V, op.S)
			var err error
			switch op.K {
			case "bput":
				err = mb.real.Put(op.Key, op.Val)
				e := bop{kind: bPut, key: abs(op.V, op.Key), val: append([]byte{}, op.Val...)}
				mb.spec, mb.alt = append(mb.spec, e), append(mb.alt, e)
				mb.size += len(e.key) + len(op.Val)
			case "bdel":
				err = mb.real.Delete(op.Key)
				e := bop{kind: bDel, key: abs(op.V, op.Key)}
				mb.spec = append(mb.spec, e)
				if b.name == "memorydb" && len(e.key) == 0 {
					// memorydb's batch encodes "range deletion" as an entry with an empty key
					mb.alt = append(mb.alt, bop{kind: bRange})
					mb.causes[causeMemEmptyDel] = true
				} else {
					mb.alt = append(mb.alt, e)
				}
				mb.size += len(e.key)
			case "bdelrange":
				s, e := absRange(op.V, op.Key, op.Val)
				var pan any
				err, pan = safeDeleteRange(mb.real, op.Key, op.Val)
				if pan != nil {
					// goleveldb's iterator construction panics on a range whose start lies after its
					// limit once the store has table files; every other backend treats it as empty
					if b.name == "leveldb" && e != nil && bytes.Compare(s, e) > 0 {
						if v := w.explained(b, map[string]bool{causeLdbInverted: true}, fmt.Sprintf("Batch.DeleteRange(%s,%s) through the %s view panicked: %v", bs(op.Key), bs(op.Val), viewName(op.V), pan)); v != nil {
							return v
						}
						mb.spec = append(mb.spec, bop{kind: bRange, key: s, val: e}) // deletes nothing
						mb.sizeExact = false
						continue
					}
					panic(pan)
				}
				mb.spec = append(mb.spec, bop{kind: bRange, key: s, val: e})
				if b.name == "leveldb" {
					// leveldb's batch resolves the range against the store content right now
					n := 0
					for _, k := range b.exp.sortedKeys() {
						if inRange(k, s, e) {
							mb.alt = append(mb.alt, bop{kind: bDel, key: []byte(k)})
							n++
						}
					}
					mb.causes[causeLdbEager] = true
				} else {
					mb.alt = append(mb.alt, bop{kind: bRange, key: s, val: e})
				}
				mb.sizeExact = false
			}
			if err != nil {
				return w.viol(b, op.K, op.V, "returned error %v", err)
			}
		}
	case "bsize":
		for _, b := range w.bs {
			mb := b.batch(op.V, op.S)
			got := mb.real.ValueSize()
			w.log = w.log.U64(uint64(got))
			if mb.sizeExact && got != mb.size {
				return w.viol(b, "bsize", op.V, "ValueSize()=%d for a batch of puts/deletes whose keys+values total %d", got, mb.size)
			}
			if got < mb.lastSize {
				return w.viol(b, "bsize", op.V, "ValueSize() went down from %d to %d without Reset", mb.lastSize, got)
			}
			if len(mb.spec) == 0 && got != 0 {
				return w.viol(b, "bsize", op.V, "ValueSize()=%d for an empty batch", got)
			}
			mb.lastSize = got
		}
	case "breset":
		for _, b := range w.bs {
			mb := b.batch(op.V, op.S)
			mb.real.Reset()
			mb.reset()
			if got := mb.real.ValueSize(); got != 0 {
				return w.viol(b, "breset", op.V, "ValueSize()=%d after Reset", got)
			}
		}
	case "bwrite":
		for _, b := range w.bs {
			mb := b.batch(op.V, op.S)
			if err := mb.real.Write(); err != nil {
				return w.viol(b, "bwrite", op.V, "Write returned %v", err)
			}
			specState := applyOps(b.exp, mb.spec)
			altState := applyOps(b.exp, mb.alt)
			if v := w.settle(b, "bwrite", op.V, specState, altState, mb.causes); v != nil {
				return v
			}
			if b.name == "pebble" {
				if hasRange(mb.spec) {
					res.Probe("batch-with-range-delete-written")
				}
				if len(mb.spec) > 1 {
					res.Probe("multi-entry-batch-written")
				}
			}
			mb.real.Reset()
			mb.reset()
		}
	case "breplayb", "breplays":
		for _, b := range w.bs {
			src := b.batch(op.V, op.S)
			spec, alt, altErr, causes := b.replayLists(src)
			if op.K == "breplayb" {
				if op.TV == op.V && op.T == op.S {
					continue // a batch is not replayed into itself
				}
				dst := b.batch(op.TV, op.T)
				err := src.real.Replay(dst.real)
				if v := w.replayErr(b, op, err, altErr, causes); v != nil {
					return v
				}
				dst.spec = append(dst.spec, into(op.TV, spec)...)
				add := into(op.TV, alt)
				if b.name == "leveldb" {
					// the target leveldb batch resolves replayed ranges eagerly as well
					var ex []bop
					for _, o := range add {
						if o.kind != bRange {
							ex = append(ex, o)
							continue
						}
						for _, k := range b.exp.sortedKeys() {
							if inRange(k, o.key, o.val) {
								ex = append(ex, bop{kind: bDel, key: []byte(k)})
							}
						}
					}
					add = ex
				}
				if b.name == "memorydb" {
					for i, o := range add {
						if o.kind == bDel && len(o.key) == 0 {
							add[i] = bop{kind: bRange}
							causes[causeMemEmptyDel] = true
						}
					}
				}
				dst.alt = append(dst.alt, add...)
				for c := range causes {
					dst.causes[c] = true
				}
				dst.sizeExact = false
				if b.name == "pebble" {
					res.Probe("replay-into-batch")
				}
			} else {
				h := b.views[op.TV]
				err := src.real.Replay(h)
				if v := w.replayErr(b, op, err, altErr, causes); v != nil {
					return v
				}
				specState := applyOps(b.exp, into(op.TV, spec))
				altState := applyOps(b.exp, into(op.TV, alt))
				if v := w.settle(b, "breplays", op.V, specState, altState, causes); v != nil {
					return v
				}
				if b.name == "pebble" {
					res.Probe("replay-into-store")
				}
			}
		}
	case "iopen":
		for _, b := range w.bs {
			if old := b.iters[op.S]; old != nil {
				old.real.Release()
			}
			// the backends may append to the prefix slice they are given: hand out copies
			var pfx, st []byte
			if op.Key != nil {
				pfx = append(make([]byte, 0, len(op.Key)), op.Key...)
			}
			if op.Val != nil {
				st = append(make([]byte, 0, len(op.Val)), op.Val...)
			}
			it := &miter{real: b.views[op.V].NewIterator(pfx, st), view: op.V}
			full := string(abs(op.V, op.Key))
			lower := full + string(op.Val)
			strip := len(viewPrefix[op.V])
			for _, k := range b.exp.sortedKeys() {
				if strings.HasPrefix(k, full) && k >= lower {
					it.snap = append(it.snap, [2][]byte{[]byte(k[strip:]), b.exp[k]})
				}
			}
			b.iters[op.S] = it
			if b.name == "pebble" && len(it.snap) > 0 {
				res.Probe("iterator-nonempty")
			}
		}
	case "inext", "idrain":
		for _, b := range w.bs {
			it := b.iters[op.S]
			if it == nil {
				continue
			}
			n := op.N
			if op.K == "idrain" {
				n = len(it.snap) - it.pos + 1
			}
			for i := 0; i < n && !it.done; i++ {
				ok := it.real.Next()
				wantOK := it.pos < len(it.snap)
				if ok != wantOK {
					return w.viol(b, "iterator", it.view, "Next()=%v at position %d of %d expected entries", ok, it.pos, len(it.snap))
				}
				if !ok {
					it.done = true
					if it.real.Next() {
						return w.viol(b, "iterator", it.view, "Next() is true again after the iterator was exhausted")
					}
					if err := it.real.Error(); err != nil {
						return w.viol(b, "iterator", it.view, "Error()=%v after exhaustion", err)
					}
					if k, v := it.real.Key(), it.real.Value(); len(k) != 0 || len(v) != 0 {
						key := "iterator-not-nil-after-exhaustion:" + b.name
						if !simcore.IsKnown(key) {
							return &simcore.Violation{Oracle: "diverges:iterator", Key: key,
								Msg: fmt.Sprintf("%s (%s view): after the iterator is exhausted Key() returns %x and Value() %x (interface: nil if done; the other backends return nil)", b.name, viewName(it.view), k, trunc(v))}
						}
						res.KnownHit(key)
					}
					break
				}
				k, v := it.real.Key(), it.real.Value()
				w.log = w.log.Bytes(k).Bytes(v)
				e := it.snap[it.pos]
				if !eqBytes(k, e[0]) || !eqBytes(v, e[1]) {
					return w.viol(b, "iterator", it.view, "entry %d: got %x=%x, expected %x=%x (content as of NewIterator)", it.pos, k, trunc(v), e[0], trunc(e[1]))
				}
				it.pos++
				if b.name == "pebble" && diffStores(store{string(abs(it.view, e[0])): e[1]}, pick(b.exp, string(abs(it.view, e[0])))) != "" {
					res.Probe("iterator-entry-differs-from-current-store")
				}
			}
			if op.K == "idrain" {
				it.real.Release()
				it.real.Release() // Release may be called multiple times
				b.iters[op.S] = nil
			}
		}
	case "reopen":
		for _, b := range w.bs {
			// drain what is open first: the content as of NewIterator must still come out
			for s := range b.iters {
				if b.iters[s] != nil {
					if v := w.stepOne(b, Op{K: "idrain", S: s}); v != nil {
						return v
					}
				}
			}
			closeAll(b)
			if b.name == "memorydb" {
				continue
			}
			if err := b.kv.Close(); err != nil {
				return w.viol(b, "close", 0, "Close returned %v", err)
			}
			w.open(b)
			if v := w.settle(b, "reopen", 0, b.exp, nil, nil); v != nil {
				return v
			}
		}
		res.Probe("reopen")
	case "compact":
		for _, b := range w.bs {
			if err := b.kv.Compact(nil, nil); err != nil {
				return w.viol(b, "compact", 0, "Compact returned %v", err)
			}
			if v := w.settle(b, "compact", 0, b.exp, nil, nil); v != nil {
				return v
			}
		}
	case "sync":
		for _, b := range w.bs {
			if err := b.kv.SyncKeyValue(); err != nil {
				return w.viol(b, "sync", 0, "SyncKeyValue returned %v", err)
			}
		}
	case "atomic":
		for _, b := range w.bs {
			for r := 0; r < max(1, min(op.R, 100)); r++ {
				if v := w.atomic(b, op); v != nil {
					return v
				}
			}
		}
	}
	return nil
}

func safeDeleteRange(b ethdb.Batch, start, end []byte) (err error, pan any) {
	defer func() {
		if r := recover(); r != nil {
			pan = r
		}
	}()
	return b.DeleteRange(start, end), nil
}

func pick(s store, k string) store {
	if v, ok := s[k]; ok {
		return store{k: v}
	}
	return store{}
}

// stepOne runs an iterator step for one backend only.
func (w *world) stepOne(b *backend, op Op) *simcore.Violation {
	saved := w.bs
	w.bs = []*backend{b}
	defer func() { w.bs = saved }()
	return w.step(op)
}

func (w *world) replayErr(b *backend, op Op, err error, altErr bool, causes map[string]bool) *simcore.Violation {
	if err == nil {
		return nil
	}
	if altErr && strings.Contains(err.Error(), errReplayExpected) {
		return w.explained(b, map[string]bool{causeTableReplay: true}, fmt.Sprintf("Replay of a %s-view batch holding a range deletion returned %q", viewName(op.V), err))
	}
	return w.viol(b, op.K, op.V, "Replay returned %v", err)
}

// ---------------------------------------------------------------- batch visibility

var atomSuffix = [][]byte{{0x00, 0x00}, {0x00, 0x01}, {0x00, 0xff}, {0x01, 0x00}, {0x01, 0x01}, {0x01, 0xff}, {0xff, 0x00}, {0xff, 0x01}, {0xff, 0xff}}

// atomic: a writer commits M batches of N entries with values unique to (batch, key)
// while a reader on another thread takes snapshot iterators and ordered point reads.
// Every iterator observation must hold the N values of exactly one batch (or, in the
// put/delete mode, none at all); batches are never seen out of order.
func (w *world) atomic(b *backend, op Op) *simcore.Violation {
	res := w.res
	h := b.views[op.V]
	n := op.N
	if n < 2 {
		n = 2
	}
	if n > len(atomSuffix) {
		n = len(atomSuffix)
	}
	m := op.M
	if m < 1 {
		m = 1
	}
	if m > 40 {
		m = 40
	}
	salt := byte(0)
	if len(op.Val) > 0 {
		salt = op.Val[0]
	}
	base := append([]byte{}, op.Key...)
	if len(base) > 2 {
		base = base[:2]
	}
	keys := make([][]byte, n)
	idx := map[string]int{}
	for i := range keys {
		keys[i] = append(append([]byte{}, base...), atomSuffix[(i+int(salt))%len(atomSuffix)]...)
		idx[string(keys[i])] = i
	}
	value := func(g, i int) []byte { return []byte{0xA7, byte(g), byte(i), salt, 0x5c} }
	genOf := func(i int, v []byte) (int, bool) {
		if len(v) != 5 || v[0] != 0xA7 || int(v[2]) != i || v[3] != salt || v[4] != 0x5c {
			return 0, false
		}
		return int(v[1]), true
	}
	// the content the keys hold before the phase counts as generation 0 only if it is
	// from an earlier phase with the same salt; start clean instead
	pre := h.NewBatch()
	for _, k := range keys {
		pre.Delete(k)
	}
	if err := pre.Write(); err != nil {
		return w.viol(b, "atomic", op.V, "Write returned %v", err)
	}
	var preOps []bop
	for _, k := range keys {
		preOps = append(preOps, bop{kind: bDel, key: abs(op.V, k)})
	}
	b.exp = applyOps(b.exp, preOps)

	var (
		stop     atomic.Bool
		wg       sync.WaitGroup
		bad      atomic.Pointer[string]
		obs      atomic.Int64
		midSeen  atomic.Int64
		lastIter int // reader-only
	)
	fail := func(format string, a ...any) {
		s := fmt.Sprintf(format, a...)
		bad.CompareAndSwap(nil, &s)
	}
	wg.Add(1)
	go func() {
		defer wg.Done()
		for round := 0; !stop.Load() && bad.Load() == nil; round++ {
			if round%2 == 0 {
				var pfx []byte
				if base != nil {
					pfx = append(make([]byte, 0, len(base)), base...)
				}
				it := h.NewIterator(pfx, nil)
				seen := map[int]int{}
				cnt := 0
				for it.Next() {
					i, ok := idx[string(it.Key())]
					if !ok {
						continue
					}
					g, ok := genOf(i, it.Value())
					if !ok {
						fail("iterator returned value %x for key %x, which no batch wrote", it.Value(), it.Key())
						break
					}
					seen[g]++
					cnt++
				}
				it.Release()
				obs.Add(1)
				if len(seen) > 1 {
					fail("one iterator saw entries of %d different batches at once: %v (batch of %d keys)", len(seen), seen, n)
				} else if cnt != 0 && cnt != n {
					fail("one iterator saw %d of the %d entries of a batch: %v", cnt, n, seen)
				}
				for g := range seen {
					if g < lastIter {
						fail("iterator saw batch %d after batch %d had been visible", g, lastIter)
					}
					if g > 0 && g < m {
						midSeen.Add(1)
					}
					lastIter = g
				}
			} else if op.Mo != 1 {
				// ordered point reads: once a newer batch is visible for an earlier key,
				// every later read must be at least that new
				prev := -1
				for i, k := range keys {
					v, err := h.Get(k)
					if err != nil {
						if prev > 0 && op.Mo == 0 {
							fail("Get(%x) failed (%v) although batch %d was already visible", k, err, prev)
						}
						continue
					}
					g, ok := genOf(i, v)
					if !ok {
						fail("Get(%x) returned %x, which no batch wrote", k, v)
						break
					}
					if g < prev {
						fail("point reads in key order went back from batch %d to batch %d", prev, g)
					}
					prev = g
				}
				obs.Add(1)
			}
		}
	}()
	var werr error
	var ops []bop
	for g := 1; g <= m && werr == nil; g++ {
		bt := h.NewBatch()
		ops = ops[:0]
		del := op.Mo == 1 && g%2 == 0
		if op.Mo == 2 {
			lo := append(append([]byte{}, base...), 0x00)
			bt.DeleteRange(lo, nil)
			s, e := absRange(op.V, lo, nil)
			ops = append(ops, bop{kind: bRange, key: s, val: e})
		}
		for i, k := range keys {
			if del {
				bt.Delete(k)
				ops = append(ops, bop{kind: bDel, key: abs(op.V, k)})
			} else {
				bt.Put(k, value(g, i))
				ops = append(ops, bop{kind: bPut, key: abs(op.V, k), val: value(g, i)})
			}
		}
		werr = bt.Write()
		bt.Close()
		b.exp = applyOps(b.exp, ops)
	}
	stop.Store(true)
	wg.Wait()
	res.Probes["atomic-observations"] += int(obs.Load())
	res.Probes["atomic-midflight-batch-observed"] += int(midSeen.Load())
	if werr != nil {
		return w.viol(b, "atomic", op.V, "Write returned %v", werr)
	}
	if s := bad.Load(); s != nil {
		return &simcore.Violation{Oracle: "batch-atomicity", Key: "batch-atomicity:" + b.name + ":" + viewName(op.V),
			Msg: fmt.Sprintf("%s (%s view), %d batches of %d entries, mode %d: %s", b.name, viewName(op.V), m, n, op.Mo, *s)}
	}
	return w.settle(b, "atomic", op.V, b.exp, nil, nil)
}

// ---------------------------------------------------------------- registration

func Checks() map[string]*simcore.Check {
	return map[string]*simcore.Check{
		"C23": {
			ID: "C23", Engine: "kvsim", Level: "exploration",
			Rule: "plan = 25-90 (thorough: up to 220) operations drawn over a 3-symbol key alphabet {00,01,ff} with keys of length 0-4 reused from a pool, empty/nil values, nil/empty/inverted range bounds: Put/Delete/DeleteRange/Get/Has, batches in 2 slots per view (Put/Delete/DeleteRange/ValueSize/Reset/Write, Replay into another batch and into a store, across raw and table views), 4 iterator slots (prefix+start) opened at any time and advanced/drained later, clean close+reopen of pebble and leveldb, Compact, SyncKeyValue, and a two-thread batch-visibility phase. Each operation goes to memorydb, pebble.New(dir) and leveldb.New(dir), through the raw handle or rawdb.NewTable with prefix 00 or ff, and to a sorted-map reference model; every return value, every iterator entry (content as of NewIterator) and, after every mutation, the full store content are compared with the model for each backend. Non-trivial = run that wrote a batch and used an iterator or a range deletion; distinct = distinct (operation kinds used, final content) fingerprints.",
			Assumptions: []string{
				"nil and empty byte slices are the same observation for values and for Key()/Value() of an exhausted iterator",
				"Batch.ValueSize is an estimate: checked exactly only for batches of puts/deletes, otherwise only 0 when empty/reset and never decreasing",
				"a batch is Reset after Write and not used across a close/reopen; iterators are drained before a backend is closed",
				"no dirty restart of pebble/leveldb is simulated (their files are written behind no seam geth exposes)",
			},
			Components: simcore.Components{
				Real: []string{"ethdb/memorydb", "ethdb/pebble (pebble.New on a tmpfs directory, real pebble engine)", "ethdb/leveldb (leveldb.New on a tmpfs directory, real goleveldb engine)", "core/rawdb table wrapper (NewTable over NewDatabase)"},
				Stub: []string{"none: the reference model is the oracle, not a stub"}},
			Perturbed: []string{
				"pebble and leveldb run their own flush/compaction/metrics goroutines as real threads outside any synctest bubble; they are not gate-scheduled",
				"the batch-visibility phase runs one writer and one reader as real threads (GOMAXPROCS 2/4): interleavings are sampled by the Go scheduler, not decided by the plan",
			},
			Runs: map[string]int{"quick": 2400, "thorough": 200000},
			Gen:  gen, Decode: decode, Run: run, Shrink: shrink,
			ProbeNames: []string{"range-delete-removed-keys", "range-delete-inverted-or-empty", "get-empty-value", "empty-key-read-hit", "batch-with-range-delete-written",
				"multi-entry-batch-written", "replay-into-batch", "replay-into-store", "iterator-nonempty", "iterator-entry-differs-from-current-store", "reopen",
				"atomic-observations", "atomic-midflight-batch-observed"},
		},
	}
}
