package kvsim

import (
	"fmt"
	"os"
	"testing"

	"github.com/ethereum/go-ethereum/ethdb"
	"github.com/ethereum/go-ethereum/ethdb/leveldb"
	"github.com/ethereum/go-ethereum/ethdb/memorydb"
	"github.com/ethereum/go-ethereum/ethdb/pebble"
)

func dump(db ethdb.KeyValueStore) string {
	it := db.NewIterator(nil, nil)
	defer it.Release()
	s := ""
	for it.Next() {
		s += fmt.Sprintf("%q=%q ", it.Key(), it.Value())
	}
	return s
}

func TestProbe(t *testing.T) {
	d1, _ := os.MkdirTemp("/dev/shm", "kvp-")
	d2, _ := os.MkdirTemp("/dev/shm", "kvl-")
	defer os.RemoveAll(d1)
	defer os.RemoveAll(d2)
	p, err := pebble.New(d1, 16, 16, "", false)
	if err != nil {
		t.Fatal(err)
	}
	l, err := leveldb.New(d2, 16, 16, "", false)
	if err != nil {
		t.Fatal(err)
	}
	m := memorydb.New()
	for name, db := range map[string]ethdb.KeyValueStore{"pebble": p, "leveldb": l, "mem": m} {
		func() {
			defer func() {
				if r := recover(); r != nil {
					fmt.Println(name, "PANIC", r)
				}
			}()
			db.Put([]byte{}, []byte("empty"))
			db.Put([]byte("a"), []byte{})
			db.Put([]byte("b"), []byte("B"))
			db.Put([]byte("c"), []byte("C"))
			fmt.Println(name, "init", dump(db))
			fmt.Println(name, "inverted", db.DeleteRange([]byte("c"), []byte("b")), dump(db))
			fmt.Println(name, "emptyend", db.DeleteRange([]byte("b"), []byte{}), dump(db))
			fmt.Println(name, "equal", db.DeleteRange([]byte("b"), []byte("b")), dump(db))
			b := db.NewBatch()
			b.Delete([]byte{})
			fmt.Println(name, "batchdelempty", b.Write(), dump(db))
			v, err := db.Get([]byte("a"))
			fmt.Println(name, "get a", v == nil, len(v), err)
			h, err := db.Has([]byte("a"))
			fmt.Println(name, "has a", h, err)
			b = db.NewBatch()
			b.Put([]byte("x"), []byte("X"))
			b.DeleteRange([]byte("a"), nil)
			fmt.Println(name, "batch put+range", b.ValueSize(), b.Write(), dump(db))
			b.Reset()
			b.DeleteRange([]byte("c"), []byte("a"))
			fmt.Println(name, "batch inverted", b.Write(), dump(db))
			it := db.NewIterator(nil, nil)
			for it.Next() {
			}
			fmt.Println(name, "after exhaust", it.Next(), it.Key() == nil, it.Value() == nil, it.Error())
			it.Release()
		}()
	}
	p.Close()
	l.Close()
}
