package poolsim

import (
	"os"
	"testing"

	"github.com/ethereum/go-ethereum/crypto/kzg4844"
)

// TestGenKZG regenerates testdata/kzg_pool.bin (run from the package directory).
func TestGenKZG(t *testing.T) {
	if os.Getenv("POOLSIM_GENKZG") == "" {
		t.Skip("set POOLSIM_GENKZG=1 to regenerate")
	}
	var out []byte
	for i := 0; i < nBlobs; i++ {
		b := makeBlob(i)
		c, err := kzg4844.BlobToCommitment(b)
		if err != nil {
			t.Fatal(err)
		}
		pr, err := kzg4844.ComputeCellProofs(b)
		if err != nil {
			t.Fatal(err)
		}
		out = append(out, c[:]...)
		for _, p := range pr {
			out = append(out, p[:]...)
		}
	}
	if err := os.WriteFile(os.Getenv("POOLSIM_GENKZG"), out, 0o644); err != nil {
		t.Fatal(err)
	}
}
