package poolsim

import (
	"errors"
	"fmt"
	"io"
	"math"
	"math/big"
	"os"
	"path/filepath"
	"sort"
	"strings"
	"sync"
	"sync/atomic"
	"testing"
	"time"

	"github.com/ethereum/go-ethereum/common"
	"github.com/ethereum/go-ethereum/consensus/misc/eip1559"
	"github.com/ethereum/go-ethereum/consensus/misc/eip4844"
	"github.com/ethereum/go-ethereum/core/txpool"
	"github.com/ethereum/go-ethereum/core/txpool/blobpool"
	"github.com/ethereum/go-ethereum/core/types"
	"github.com/ethereum/go-ethereum/crypto/kzg4844"
	"github.com/ethereum/go-ethereum/rlp"
	"github.com/holiman/uint256"

	"verifsim/simcore"
)

var errInjected = errors.New("poolsim: injected I/O error (no space left on device)")

var bpRunSeq atomic.Uint64

type bpWorld struct {
	p     *BPPlan
	res   *simcore.Result
	chain *simChain
	pool  *blobpool.BlobPool
	root  string // scratch root of this run
	dir   string // live data directory
	image string // image directory (exists while an image is held)

	poolHead         *simBlock // the head the pool was last initialised / reset to
	signer           types.Signer
	txs              map[common.Hash]*types.Transaction // every transaction the harness created (with sidecar where it has one)
	limbo            map[common.Hash]uint64             // model: included-but-not-final pool transactions -> block number of inclusion
	limboResurrected map[common.Hash]bool               // pooled transactions offloaded while the limbo still tracked an older entry of them
	limboStale       map[common.Hash]bool               // limbo entries whose recorded block number is that of an abandoned block
	gasTip           uint64

	// store-event hook state (per operation)
	events     int
	imageAt    int
	imageTaken bool
	failPut    int
	puts       int
	faultFired bool

	knownTie bool // the recorded tip tie-break finding was hit in this run
	stop     bool // a recorded finding left the pool in a state not worth exploring further
	// heapClean: no operation since the heap was last rebuilt (Init, or a reset
	// whose fee move made reinit re-sort) can have left an account at a stale
	// position on the unchanged tree. Those operations are: an insertion that keeps
	// the account's fee-jump minima (no heap.Fix, the tip minimum may have moved:
	// the recorded finding) and a capacity drop (heap.Fix only for better fee jumps).
	heapClean bool

	liveQ, liveL map[uint64]blobpool.VerifStoreEntry // what the two stores hold, from the store events

	log simcore.Hash64
}

func (w *bpWorld) timing(k string, t0 time.Time) {
	if timingOn {
		w.res.Probes["wall-ms:"+k] += int(time.Since(t0).Milliseconds())
		w.res.Probes["wall-n:"+k]++
	}
}

var timingOn = os.Getenv("POOLSIM_TIMING") != ""

func (w *bpWorld) logf(format string, a ...any) {
	s := fmt.Sprintf(format, a...)
	w.log = w.log.String(s)
	if os.Getenv("VERIF_TRACE") != "" {
		fmt.Println(s)
	}
}

func copyDir(src, dst string) error {
	return filepath.Walk(src, func(path string, info os.FileInfo, err error) error {
		if err != nil {
			return err
		}
		rel, _ := filepath.Rel(src, path)
		target := filepath.Join(dst, rel)
		if info.IsDir() {
			return os.MkdirAll(target, 0o755)
		}
		in, err := os.Open(path)
		if err != nil {
			return err
		}
		defer in.Close()
		out, err := os.Create(target)
		if err != nil {
			return err
		}
		if _, err := io.Copy(out, in); err != nil {
			out.Close()
			return err
		}
		return out.Close()
	})
}

func (w *bpWorld) takeImage() {
	os.RemoveAll(w.image)
	if err := copyDir(w.dir, w.image); err != nil {
		simcore.Harnessf("image copy: %v", err)
	}
	w.imageTaken = true
	w.res.Fault("image-taken")
}

// hook observes every mutation of the two billy stores and keeps the harness'
// own record of what they hold (billy's iterator is too expensive to run after
// every operation; the record is compared with it at every reopening and at the
// end of the run).
func (w *bpWorld) hook(store, op string, phase int, e blobpool.VerifStoreEntry) error {
	if phase == 0 {
		if store == "queue" && op == "put" {
			w.puts++
			if w.failPut > 0 && w.puts == w.failPut {
				w.faultFired = true
				w.res.Fault("queue-put-error")
				return errInjected
			}
		}
		return nil
	}
	m := w.liveQ
	if store == "limbo" {
		m = w.liveL
	}
	if op == "put" {
		m[e.ID] = e
	} else {
		delete(m, e.ID)
	}
	w.events++
	w.res.Events++
	if w.imageAt > 0 && !w.imageTaken && w.events == w.imageAt {
		w.takeImage()
		w.res.Fault("crash-inside-operation:" + store + "-" + op)
	}
	return nil
}

// initStoreRecord starts the record from what Init indexed (the stores are not
// iterated here: billy allocates a slot-sized buffer per shelf for that, some
// 30 MB per pass).
func (w *bpWorld) initStoreRecord() {
	snap := w.pool.VerifSnapshot()
	w.liveQ, w.liveL = map[uint64]blobpool.VerifStoreEntry{}, map[uint64]blobpool.VerifStoreEntry{}
	for _, a := range snap.Accounts {
		for _, m := range a.Txs {
			w.liveQ[m.ID] = blobpool.VerifStoreEntry{ID: m.ID, Size: m.StorageSize, Hash: m.Hash}
		}
	}
	for _, e := range snap.Limbo {
		w.liveL[e.ID] = blobpool.VerifStoreEntry{ID: e.ID, Hash: e.TxHash, Block: e.Block}
	}
}

// verifyStores reads both stores through billy's own iterator and evaluates the
// store == index clauses on what is really there (done before every Close and at
// the end of the run; in between the record kept from the store events is used).
func (w *bpWorld) verifyStores() *simcore.Violation {
	q, l, err := w.pool.VerifLiveEntries()
	if err != nil {
		simcore.Harnessf("iterate stores: %v", err)
	}
	o := w.observe()
	o.queue, o.limbo = q, l
	if v := w.checkLive(o); v != nil {
		v.Msg = "reading the stores back through billy: " + v.Msg
		return v
	}
	// the pool agrees with the stores; the event record must, too
	if len(q) != len(w.liveQ) || len(l) != len(w.liveL) {
		simcore.Harnessf("store record out of step with billy: queue %d vs %d recorded, limbo %d vs %d recorded", len(q), len(w.liveQ), len(l), len(w.liveL))
	}
	for _, e := range q {
		if r, ok := w.liveQ[e.ID]; !ok || r.Hash != e.Hash {
			simcore.Harnessf("store record out of step with billy at queue id %d", e.ID)
		}
	}
	w.res.Probe("stores-read-back")
	return nil
}

func (w *bpWorld) openPool() {
	cfg := blobpool.Config{Datadir: w.dir, Datacap: uint64(w.p.Knobs.DatacapKB) * 1024, PriceBump: w.p.Knobs.PriceBump}
	pool := blobpool.New(cfg, w.chain, nil)
	head := w.chain.headBlock()
	if err := pool.Init(w.gasTip, head.block.Header(), txpool.NewReservationTracker().NewHandle(0)); err != nil {
		w.pool = nil
		panic(&bpInitError{err})
	}
	pool.VerifWrapStores(w.hook)
	w.pool = pool
	w.poolHead = head
	w.initStoreRecord()
	// Init builds the heap from scratch, but its capacity loop (drop) can leave a
	// stale tip order behind: the caller says whether that loop can have run
	w.heapClean = false
}

type bpInitError struct{ err error }

var (
	bpTemplateOnce sync.Once
	bpTemplateDir  string
)

// bpTemplate creates, once per process, the data directory an empty pool leaves
// behind after a clean Close.
func bpTemplate() string {
	bpTemplateOnce.Do(func() {
		dir := filepath.Join(scratchDir(), "bp-template")
		os.RemoveAll(dir)
		if err := os.MkdirAll(dir, 0o755); err != nil {
			simcore.Harnessf("mkdir: %v", err)
		}
		accts := accounts(1)
		chain := newSimChain(accts, []acctModel{{Balance: new(uint256.Int)}}, 30_000_000, feeUnit, 0)
		pool := blobpool.New(blobpool.Config{Datadir: dir, Datacap: 1 << 20, PriceBump: 100}, chain, nil)
		if err := pool.Init(1, chain.headBlock().block.Header(), txpool.NewReservationTracker().NewHandle(0)); err != nil {
			simcore.Harnessf("template pool: %v", err)
		}
		if err := pool.Close(); err != nil {
			simcore.Harnessf("template pool close: %v", err)
		}
		bpTemplateDir = dir
	})
	return bpTemplateDir
}

func blobFeeAt(c *simChain, h *types.Header) *uint256.Int {
	return uint256.MustFromBig(eip4844.CalcBlobFee(c.cfg, h))
}

// ---------------------------------------------------------------------------
// run
// ---------------------------------------------------------------------------

func runBP(t *testing.T, pl any) *simcore.Result {
	prologue()
	blobs()
	p := pl.(*BPPlan)
	res := simcore.NewResult()
	if len(p.Knobs.Accts) < 1 || len(p.Knobs.Accts) > 16 {
		simcore.Harnessf("plan with %d accounts", len(p.Knobs.Accts))
	}
	logErrs.reset()
	w := &bpWorld{p: p, res: res, txs: map[common.Hash]*types.Transaction{}, limbo: map[common.Hash]uint64{}, limboStale: map[common.Hash]bool{}, limboResurrected: map[common.Hash]bool{}, gasTip: p.Knobs.GasTip, log: simcore.NewHash()}
	w.root = filepath.Join(scratchDir(), fmt.Sprintf("bp-%d", bpRunSeq.Add(1)))
	os.RemoveAll(w.root)
	w.dir, w.image = filepath.Join(w.root, "live"), filepath.Join(w.root, "image")
	if err := os.MkdirAll(w.root, 0o755); err != nil {
		simcore.Harnessf("mkdir: %v", err)
	}
	// start from the data directory of a pool that has been opened and closed
	// once before (empty shelves, store version marker written)
	if err := copyDir(bpTemplate(), w.dir); err != nil {
		simcore.Harnessf("copy template: %v", err)
	}
	defer func() {
		if w.pool != nil {
			w.pool.Close()
		}
		os.RemoveAll(w.root)
	}()

	accts := accounts(len(p.Knobs.Accts))
	init := make([]acctModel, len(accts))
	for i, a := range p.Knobs.Accts {
		init[i] = acctModel{Nonce: a.Nonce, Balance: uint256.NewInt(a.Balance)}
	}
	w.chain = newSimChain(accts, init, 30_000_000, p.Knobs.BaseFee*feeUnit, uint64(p.Knobs.ExcessM)<<20)
	w.signer = types.LatestSigner(w.chain.cfg)

	var viol *simcore.Violation
	func() {
		defer func() {
			if r := recover(); r != nil {
				if ie, ok := r.(*bpInitError); ok {
					viol = simcore.Violf("reopen-fails", "BlobPool.Init failed: %v", ie.err)
					return
				}
				panic(r)
			}
		}()
		t0 := time.Now()
		w.openPool()
		w.heapClean = true // nothing on disk
		w.timing("first-open", t0)
		viol = w.run()
	}()
	for k, n := range logErrs.snapshot() {
		res.Probes["log-error:"+k] += n
	}
	res.LogHash = uint64(w.log)
	res.StateFP = uint64(w.log)
	res.NonTrivial = res.Probes["accepted"] >= 2 && (res.Reboots > 0 || res.Probes["limbo-entry-expected"] > 0 || res.Probes["evicted-for-capacity"] > 0)
	if viol != nil {
		res.Fail(viol)
	}
	return res
}

// bpObs is one observation of the pool at rest.
type bpObs struct {
	snap    *blobpool.VerifBPSnapshot
	queue   []blobpool.VerifStoreEntry
	limbo   []blobpool.VerifStoreEntry
	index   map[common.Hash]bool
	byAcct  map[common.Address][]blobpool.VerifMeta
	limboIx map[common.Hash]uint64 // limbo index: hash -> recorded block
	head    *simBlock
	final   uint64
}

func (w *bpWorld) observe() *bpObs {
	o := &bpObs{snap: w.pool.VerifSnapshot(), index: map[common.Hash]bool{}, byAcct: map[common.Address][]blobpool.VerifMeta{}, limboIx: map[common.Hash]uint64{}}
	for _, e := range w.liveQ {
		o.queue = append(o.queue, e)
	}
	for _, e := range w.liveL {
		o.limbo = append(o.limbo, e)
	}
	sort.Slice(o.queue, func(i, j int) bool { return o.queue[i].ID < o.queue[j].ID })
	sort.Slice(o.limbo, func(i, j int) bool { return o.limbo[i].ID < o.limbo[j].ID })
	for _, a := range o.snap.Accounts {
		o.byAcct[a.Addr] = a.Txs
		for _, m := range a.Txs {
			o.index[m.Hash] = true
		}
	}
	for _, e := range o.snap.Limbo {
		o.limboIx[e.TxHash] = e.Block
	}
	o.head = w.chain.headBlock()
	w.chain.mu.Lock()
	o.final = w.chain.final.number()
	w.chain.mu.Unlock()
	return o
}

func (w *bpWorld) makeTx(s *BPTx, model []acctModel, o *bpObs, nonceOverride *uint64) *types.Transaction {
	n := len(w.chain.accts)
	ai := ((s.Acct % n) + n) % n
	acct := w.chain.accts[ai]
	var nonce uint64
	if nonceOverride != nil {
		nonce = *nonceOverride
	} else {
		nn := int64(model[ai].Nonce) + int64(len(o.byAcct[acct.addr])) + int64(s.NonceOff)
		if nn < 0 {
			nn = 0
		}
		nonce = uint64(nn)
	}
	tip, feeCap, blobCap := s.Tip, s.FeeCap, s.BlobFeeCap
	if s.Repl && o != nil {
		for _, m := range o.byAcct[acct.addr] {
			if m.Nonce != nonce {
				continue
			}
			old := w.txs[m.Hash]
			if old == nil {
				break
			}
			bump := new(big.Int).SetUint64(100 + w.p.Knobs.PriceBump)
			thr := func(v *big.Int, d int) uint64 {
				x := new(big.Int).Mul(v, bump)
				x.Div(x, big.NewInt(100))
				x.Add(x, big.NewInt(int64(d)))
				if x.Sign() < 0 || !x.IsUint64() {
					return 0
				}
				return x.Uint64()
			}
			tip, feeCap, blobCap = thr(old.GasTipCap(), s.TipD), thr(old.GasFeeCap(), s.CapD), thr(old.BlobGasFeeCap(), s.BlobD)
			if s.Boost > 0 {
				m := uint64(1 + s.Boost)
				tip, feeCap, blobCap = tip*m, feeCap*m, blobCap*m
			}
			w.res.Probe("replacement-attempted")
		}
	}
	if blobCap == 0 {
		blobCap = 1
	}
	const gas = 21000
	nblobs := len(s.Blobs)
	if nblobs == 0 {
		nblobs = 1
	}
	value := new(big.Int).SetUint64(s.Value)
	if s.ValueBal != 0 {
		bal := model[ai].Balance.ToBig()
		v := new(big.Int).Mul(bal, big.NewInt(int64(s.ValueBal)))
		v.Div(v, big.NewInt(100))
		fee := new(big.Int).Mul(big.NewInt(gas), new(big.Int).SetUint64(feeCap))
		if !s.Plain {
			fee.Add(fee, new(big.Int).Mul(new(big.Int).SetUint64(uint64(nblobs)*131072), new(big.Int).SetUint64(blobCap)))
		}
		v.Sub(v, fee)
		if v.Sign() < 0 {
			v.SetUint64(0)
		}
		value = v
	}
	if s.Plain {
		to := sinkAddr
		tx, err := types.SignNewTx(acct.key, w.signer, &types.DynamicFeeTx{ChainID: w.chain.cfg.ChainID, Nonce: nonce,
			GasTipCap: new(big.Int).SetUint64(tip), GasFeeCap: new(big.Int).SetUint64(feeCap), Gas: gas, To: &to, Value: value})
		if err != nil {
			simcore.Harnessf("sign: %v", err)
		}
		w.txs[tx.Hash()] = tx
		return tx
	}
	bp := blobs()
	var (
		bl      []kzg4844.Blob
		commits []kzg4844.Commitment
		proofs  []kzg4844.Proof
		hashes  []common.Hash
	)
	for i := 0; i < nblobs; i++ {
		bi := 0
		if i < len(s.Blobs) {
			bi = ((s.Blobs[i] % nBlobs) + nBlobs) % nBlobs
		}
		it := bp[bi]
		bl = append(bl, *it.blob)
		commits = append(commits, it.commit)
		proofs = append(proofs, it.proofs...)
		hashes = append(hashes, it.vhash)
	}
	v256, _ := uint256.FromBig(value)
	tx, err := types.SignNewTx(acct.key, w.signer, &types.BlobTx{
		ChainID: uint256.MustFromBig(w.chain.cfg.ChainID), Nonce: nonce, GasTipCap: uint256.NewInt(tip), GasFeeCap: uint256.NewInt(feeCap),
		Gas: gas, To: sinkAddr, Value: v256, BlobFeeCap: uint256.NewInt(blobCap), BlobHashes: hashes,
		Sidecar: types.NewBlobTxSidecar(types.BlobSidecarVersion1, bl, commits, proofs),
	})
	if err != nil {
		simcore.Harnessf("sign: %v", err)
	}
	w.txs[tx.Hash()] = tx
	return tx
}

func bpErrClass(err error) string {
	if err == nil {
		return "ok"
	}
	if errors.Is(err, errInjected) {
		return "injected-io-error"
	}
	return errClass(err)
}

type bpInfo struct {
	txs       []*types.Transaction
	errs      []error
	discarded []*types.Transaction   // reorg: transactions of the abandoned blocks
	included  map[common.Hash]uint64 // head/reorg: hash -> block number on the adopted branch
	newHead   *simBlock
	restarted bool
	viol      *simcore.Violation
	opViol    *simcore.Violation // found while the operation was applied, reported after it
}

func (w *bpWorld) run() *simcore.Violation {
	o := w.observe()
	if v := w.checkLive(o); v != nil {
		return v
	}
	for i := range w.p.Ops {
		op := &w.p.Ops[i]
		B := o
		w.events, w.puts, w.imageTaken, w.faultFired = 0, 0, false, false
		w.imageAt, w.failPut = op.ImageAt, op.FailPut
		t0 := time.Now()
		info := w.apply(op, B)
		w.timing("op:"+op.Kind, t0)
		if info.viol != nil {
			info.viol.Msg = fmt.Sprintf("before op %d (%s): %s", i, op.Kind, info.viol.Msg)
			return info.viol
		}
		crash := op.ImageAt > 0
		if crash && !w.imageTaken {
			w.takeImage()
			w.res.Fault("crash-at-operation-boundary")
		}
		w.imageAt, w.failPut = 0, 0
		t0 = time.Now()
		A := w.observe()
		w.timing("observe", t0)
		var es []string
		for _, e := range info.errs {
			es = append(es, bpErrClass(e))
			w.res.Probe("add:" + bpErrClass(e))
			if e == nil {
				w.res.Probe("accepted")
			}
		}
		w.logf("op %d %s errs=%v head=%d final=%d pool={%s} limbo=%d stored=%d", i, op.Kind, es, A.head.number(), A.final, bpContent(A, w.chain.accts), len(A.limboIx), A.snap.Stored)
		// the model of what must sit in limbo changes with head operations: update
		// it (and evaluate the return-on-reorg clause) before looking at the pool
		v := w.checkOp(op, info, B, A)
		if v == nil {
			v = w.checkLive(A)
			if v != nil && v.Oracle == "nonce-gap" && info.newHead != nil {
				// recorded finding, live variant: a reinjected reorged-out transaction
				// below the new state nonce sits in front of the account's set when
				// recheck tests for a dangling first nonce
				for _, a := range w.chain.accts {
					ai := w.chain.byAddr[a.addr]
					next := info.newHead.model[ai].Nonce
					got := A.byAcct[a.addr]
					if len(got) == 0 || got[0].Nonce <= next {
						continue
					}
					stale := false
					for _, m := range B.byAcct[a.addr] {
						stale = stale || m.Nonce < next
					}
					for _, tx := range info.discarded {
						if from, _ := types.Sender(w.signer, tx); from == a.addr && tx.Nonce() < next {
							if _, in := B.limboIx[tx.Hash()]; in {
								stale = true
							}
						}
					}
					if stale {
						v.Key = "nonce-gap:stale-entry-hides-front-gap"
						v.Msg += " [a pooled or reinjected transaction of that account below the new state nonce was in front of the set when recheck tested for a dangling first nonce]"
					}
				}
				if v.Key != "nonce-gap" && simcore.IsKnown(v.Key) {
					w.res.KnownHit(v.Key)
					return nil
				}
			}
		}
		if v != nil {
			v.Msg = fmt.Sprintf("after op %d (%s): %s", i, op.Kind, v.Msg)
			return v
		}
		if v := (*simcore.Violation)(nil); v != nil {
			v.Msg = fmt.Sprintf("after op %d (%s): %s", i, op.Kind, v.Msg)
			return v
		}
		o = A
		if crash {
			t0 = time.Now()
			R, v := w.reboot(B, A)
			w.timing("reboot", t0)
			if v != nil {
				v.Msg = fmt.Sprintf("dirty restart from the image taken during op %d (%s, after store event %d of %d): %s", i, op.Kind, min(op.ImageAt, w.events), w.events, v.Msg)
				return v
			}
			w.logf("reboot after op %d pool={%s} limbo=%d", i, bpContent(R, w.chain.accts), len(R.limboIx))
			o = R
			if w.stop {
				return nil
			}
		}
	}
	return w.verifyStores()
}

func bpContent(o *bpObs, accts []*account) string {
	var sb strings.Builder
	for _, a := range accts {
		txs := o.byAcct[a.addr]
		if len(txs) == 0 {
			continue
		}
		fmt.Fprintf(&sb, "%x:", a.addr[:3])
		for _, m := range txs {
			fmt.Fprintf(&sb, "%d/%x,", m.Nonce, m.Hash[:4])
		}
		sb.WriteString(" ")
	}
	return sb.String()
}

func (w *bpWorld) apply(op *BPOp, B *bpObs) *bpInfo {
	info := &bpInfo{}
	switch op.Kind {
	case "add":
		for j := range op.Txs {
			info.txs = append(info.txs, w.makeTx(&op.Txs[j], B.head.model, B, nil))
		}
		// one Add per transaction: the eviction heap is looked at after every
		// single insertion (see checkHeapFixed)
		for _, tx := range info.txs {
			pre := w.pool.VerifSnapshot()
			err := w.pool.Add([]*types.Transaction{tx}, true)[0]
			info.errs = append(info.errs, err)
			if err == nil && info.opViol == nil {
				info.opViol = w.checkHeapFixed(pre, w.pool.VerifSnapshot(), tx, B.head)
			}
		}
	case "tip":
		w.pool.SetGasTip(new(big.Int).SetUint64(op.Tip))
		w.gasTip = op.Tip
	case "head", "reorg":
		w.applyHead(op, B, info)
	case "restart":
		if op.ImageAt == 0 {
			if v := w.verifyStores(); v != nil {
				info.viol = v
				return info
			}
			if err := w.pool.Close(); err != nil {
				simcore.Harnessf("close: %v", err)
			}
			w.pool = nil
			w.openPool()
			w.heapClean = B.snap.Stored <= uint64(w.p.Knobs.DatacapKB)*1024
			w.res.Reboots++
			w.res.Probe("clean-restart")
			info.restarted = true
		}
	default:
		simcore.Harnessf("unknown op kind %q", op.Kind)
	}
	return info
}

func (w *bpWorld) applyHead(op *BPOp, B *bpObs, info *bpInfo) {
	old := B.head
	parent := old
	w.chain.mu.Lock()
	final := w.chain.final
	w.chain.mu.Unlock()
	var abandoned []*types.Transaction
	var carried []BalEdit
	if op.Kind == "reorg" {
		d := max(op.Depth, 1)
		var chainTxs [][]*types.Transaction
		for j := 0; j < d && parent.parent != nil && parent.number() > final.number(); j++ {
			chainTxs = append(chainTxs, parent.block.Transactions())
			// funds credited in an abandoned block are credited again on the new
			// branch: balances only ever fall through the account's own transactions
			carried = append(carried, parent.credits...)
			parent = parent.parent
		}
		for j := len(chainTxs) - 1; j >= 0; j-- {
			abandoned = append(abandoned, chainTxs[j]...)
		}
		info.discarded = abandoned
	}
	info.included = map[common.Hash]uint64{}
	cur := parent
	n := len(w.chain.accts)
	blocks := op.Blocks
	if len(blocks) == 0 && len(carried) > 0 {
		blocks = []BPBlock{{BaseFee: parent.block.BaseFee().Uint64() / feeUnit, ExcessM: int(*parent.block.Header().ExcessBlobGas >> 20), GasUsedPct: 50}}
	}
	for bi := range blocks {
		bs := &blocks[bi]
		var cands, foreign []*types.Transaction
		for fi := range bs.Foreign {
			f := bs.Foreign[fi]
			ai := ((f.Acct % n) + n) % n
			nonce := cur.model[ai].Nonce
			for _, prev := range foreign {
				if from, _ := types.Sender(w.signer, prev); from == w.chain.accts[ai].addr && prev.Nonce() >= nonce {
					nonce = prev.Nonce() + 1
				}
			}
			f.Repl = false
			tx := w.makeTx(&f, cur.model, nil, &nonce)
			foreign = append(foreign, tx.WithoutBlobTxSidecar())
		}
		if bs.ForeignPre {
			cands = append(cands, foreign...)
		}
		for ci, tx := range abandoned {
			if bs.KeepOld&(1<<(uint(ci)%64)) != 0 {
				cands = append(cands, tx)
			}
		}
		for i, a := range w.chain.accts {
			if i >= len(bs.Include) || bs.Include[i] <= 0 {
				continue
			}
			metas := B.byAcct[a.addr]
			for k := 0; k < bs.Include[i] && k < len(metas); k++ {
				if tx := w.txs[metas[k].Hash]; tx != nil {
					cands = append(cands, tx.WithoutBlobTxSidecar())
				}
			}
		}
		if !bs.ForeignPre {
			cands = append(cands, foreign...)
		}
		env := blockEnv{GasUsedPct: bs.GasUsedPct, BaseFee: max(bs.BaseFee, 1) * feeUnit, ExcessBlobGas: uint64(bs.ExcessM) << 20}
		var credits []BalEdit
		for _, c := range bs.Credit {
			ai := ((c.Acct % n) + n) % n
			credits = append(credits, BalEdit{Acct: ai, Balance: c.Balance})
		}
		if bi == 0 {
			credits = append(credits, carried...)
		}
		cur = w.chain.buildCredit(cur, cands, credits, env)
	}
	if cur == old {
		return
	}
	// inclusion numbers on the adopted branch (from the common ancestor up)
	for b := cur; b != nil && b != parent; b = b.parent {
		for _, tx := range b.block.Transactions() {
			info.included[tx.Hash()] = b.number()
		}
	}
	if op.FinalAdv > 0 {
		target := min(cur.number(), final.number()+uint64(op.FinalAdv))
		f := cur
		for f.number() > target {
			f = f.parent
		}
		// finality never moves back and never leaves the canonical chain
		if f.number() >= final.number() {
			w.chain.setFinal(f)
		}
	}
	w.chain.setHead(cur)
	oh, nh := w.poolHead.block.Header(), cur.block.Header()
	w.pool.Reset(oh, nh)
	// a fee move of more than 0.01 jumps makes reinit rebuild the whole heap
	if math.Abs(refJumps(eip1559.CalcBaseFee(w.chain.cfg, oh), false)-refJumps(eip1559.CalcBaseFee(w.chain.cfg, nh), false)) > 0.03 ||
		math.Abs(refJumps(blobFeeAt(w.chain, oh).ToBig(), true)-refJumps(blobFeeAt(w.chain, nh).ToBig(), true)) > 0.03 {
		w.heapClean = true
	}
	w.poolHead = cur
	info.newHead = cur
}

// ---------------------------------------------------------------------------
// reference pieces
// ---------------------------------------------------------------------------

var (
	refLog1125 = math.Log(1.125)
	refLog117  = math.Log(1.125) * 4 / 3 // the documented ~1.17 blob fee step
)

func refJumps(fee *big.Int, blob bool) float64 {
	if fee.Sign() == 0 {
		return 0
	}
	f, _ := new(big.Float).SetInt(fee).Float64()
	if blob {
		return math.Log(f) / refLog117
	}
	return math.Log(f) / refLog1125
}

// refPrio1D: floor of the (negative) number of fee jumps to the current fee, or
// a positive number if the cap is above it.
func refPrio1D(cur, tx float64) (prio int, nearBoundary bool) {
	d := tx - cur
	near := math.Abs(d-math.Round(d)) < 0.03
	if d <= 0 {
		return int(math.Floor(d)), near
	}
	return int(math.Ceil(d)), near
}

func refPriority(baseJ, txBaseJ, blobJ, txBlobJ float64) (int, bool) {
	a, n1 := refPrio1D(baseJ, txBaseJ)
	b, n2 := refPrio1D(blobJ, txBlobJ)
	return min(0, a, b), (n1 && a <= 1) || (n2 && b <= 1)
}

// rtx is what the recovery/recheck model needs to know about a stored transaction.
type rtx struct {
	hash  common.Hash
	from  common.Address
	nonce uint64
	cost  *uint256.Int
	tip   *uint256.Int
	slot  uint32
}

// recheckModel is the documented clean-up of one account's transaction set
// against the chain state: drop everything if the set starts above the state
// nonce or ends below it, drop stale nonces, cut at the first gap, drop from the
// top while the cumulative cost exceeds the balance, keep at most 16.
func recheckModel(txs []rtx, stateNonce uint64, balance *uint256.Int) (kept []rtx, ambiguous bool) {
	if len(txs) == 0 {
		return nil, false
	}
	sort.SliceStable(txs, func(i, j int) bool { return txs[i].nonce < txs[j].nonce })
	for i := 1; i < len(txs); i++ {
		if txs[i].nonce == txs[i-1].nonce && txs[i].nonce >= stateNonce {
			return nil, true // which of two same-nonce entries survives is not specified
		}
	}
	if txs[0].nonce > stateNonce || txs[len(txs)-1].nonce < stateNonce {
		return nil, false
	}
	for len(txs) > 0 && txs[0].nonce < stateNonce {
		txs = txs[1:]
	}
	for i := 1; i < len(txs); i++ {
		if txs[i].nonce != txs[i-1].nonce+1 {
			txs = txs[:i]
			break
		}
	}
	spent := new(uint256.Int)
	for _, t := range txs {
		spent.Add(spent, t.cost)
	}
	for len(txs) > 0 && spent.Cmp(balance) > 0 {
		spent.Sub(spent, txs[len(txs)-1].cost)
		txs = txs[:len(txs)-1]
	}
	if len(txs) > blobpool.VerifMaxTxsPerAccount {
		txs = txs[:blobpool.VerifMaxTxsPerAccount]
	}
	return txs, false
}

func (w *bpWorld) rtxOf(tx *types.Transaction, slot uint32) rtx {
	from, _ := types.Sender(w.signer, tx)
	return rtx{hash: tx.Hash(), from: from, nonce: tx.Nonce(), cost: uint256.MustFromBig(tx.Cost()), tip: uint256.MustFromBig(tx.GasTipCap()), slot: slot}
}

// ---------------------------------------------------------------------------
// oracle: the pool at rest
// ---------------------------------------------------------------------------

func (w *bpWorld) checkLive(o *bpObs) *simcore.Violation {
	snap := o.snap
	model := o.head.model
	// --- index == lookup == store
	storeByHash := map[common.Hash]blobpool.VerifStoreEntry{}
	for _, e := range o.queue {
		if e.Bad {
			return simcore.Violf("store-corrupt-entry", "queue store entry %d does not decode", e.ID)
		}
		if prev, dup := storeByHash[e.Hash]; dup {
			return simcore.Violf("store-duplicate", "transaction %x is stored twice in the queue store (ids %d and %d)", e.Hash[:4], prev.ID, e.ID)
		}
		storeByHash[e.Hash] = e
	}
	for h := range o.index {
		id, ok := snap.Lookup[h]
		if !ok {
			return simcore.Violf("index-without-lookup", "indexed transaction %x is missing from the lookup table", h[:4])
		}
		e, ok := storeByHash[h]
		if !ok {
			return simcore.Violf("index-without-store", "indexed transaction %x (store id %d) is not in the on-disk store (%d entries, index %d)", h[:4], id, len(o.queue), len(o.index))
		}
		if e.ID != id {
			return simcore.Violf("index-store-id", "transaction %x is indexed under store id %d but stored under %d", h[:4], id, e.ID)
		}
		if !w.pool.Has(h) {
			return simcore.Violf("view-consistency", "Has(%x) is false for an indexed transaction", h[:4])
		}
	}
	for h := range snap.Lookup {
		if !o.index[h] {
			return simcore.Violf("lookup-without-index", "lookup entry %x has no index entry", h[:4])
		}
	}
	for h, e := range storeByHash {
		if !o.index[h] {
			return simcore.Violf("store-without-index", "on-disk store holds %x (id %d) which the index does not know (%d stored, %d indexed)", h[:4], e.ID, len(o.queue), len(o.index))
		}
	}
	// --- per account: contiguous from the state nonce, cumulative cost covered
	var stored uint64
	total := 0
	for _, acc := range snap.Accounts {
		ai, ok := w.chain.byAddr[acc.Addr]
		if !ok {
			return simcore.Violf("unknown-account", "pool tracks %x which never sent a transaction", acc.Addr[:4])
		}
		if len(acc.Txs) == 0 {
			return simcore.Violf("empty-account", "empty index entry kept for account %d", ai)
		}
		spent := new(uint256.Int)
		var minTip *uint256.Int
		minBase, minBlob := math.Inf(1), math.Inf(1)
		for i, m := range acc.Txs {
			total++
			if want := model[ai].Nonce + uint64(i); m.Nonce != want {
				return simcore.Violf("nonce-gap", "account %d: pooled transaction %d has nonce %d, expected %d (state nonce %d)", ai, i, m.Nonce, want, model[ai].Nonce)
			}
			tx := w.txs[m.Hash]
			if tx == nil {
				return simcore.Violf("unknown-transaction", "pool holds %x which nobody submitted", m.Hash[:4])
			}
			if from, _ := types.Sender(w.signer, tx); from != acc.Addr || tx.Nonce() != m.Nonce {
				return simcore.Violf("index-mismatch", "index entry %x is filed under account %d nonce %d but is nonce %d of %x", m.Hash[:4], ai, m.Nonce, tx.Nonce(), from[:4])
			}
			cost := uint256.MustFromBig(tx.Cost())
			if !cost.Eq(m.CostCap) {
				return simcore.Violf("cost-accounting", "transaction %x costs %v, the pool recorded %v", m.Hash[:4], cost, m.CostCap)
			}
			spent.Add(spent, cost)
			stored += uint64(m.StorageSize)
			if e := storeByHash[m.Hash]; e.Size != m.StorageSize {
				return simcore.Violf("storage-size", "transaction %x occupies a %d byte slot, the pool recorded %d", m.Hash[:4], e.Size, m.StorageSize)
			}
			// rolling eviction minima from the harness' own fee data
			tip := uint256.MustFromBig(tx.GasTipCap())
			if minTip == nil || tip.Lt(minTip) {
				minTip = tip
			}
			minBase = math.Min(minBase, refJumps(tx.GasFeeCap(), false))
			minBlob = math.Min(minBlob, refJumps(tx.BlobGasFeeCap(), true))
			if !m.EvictionExecTip.Eq(minTip) || math.Abs(m.EvictionExecFeeJumps-minBase) > 1e-6 || math.Abs(m.EvictionBlobFeeJumps-minBlob) > 1e-6 {
				return simcore.Violf("eviction-minima", "account %d nonce %d: rolling eviction values (tip %v, exec jumps %.4f, blob jumps %.4f) differ from the minima over the nonce sequence (tip %v, %.4f, %.4f)",
					ai, m.Nonce, m.EvictionExecTip, m.EvictionExecFeeJumps, m.EvictionBlobFeeJumps, minTip, minBase, minBlob)
			}
		}
		if spent.Cmp(model[ai].Balance) > 0 {
			return simcore.Violf("overdraft", "account %d: pooled transactions cost %v in total, balance at head %d is %v", ai, spent, o.head.number(), model[ai].Balance)
		}
		if acc.Spent == nil || !acc.Spent.Eq(spent) {
			return simcore.Violf("cost-accounting", "account %d: the pool tracks an expenditure of %v, its transactions cost %v", ai, acc.Spent, spent)
		}
	}
	if len(snap.SpentOnly) > 0 {
		return simcore.Violf("cost-accounting", "expenditure entries without index entries: %x", snap.SpentOnly)
	}
	if stored != snap.Stored {
		return simcore.Violf("stored-accounting", "pool counts %d stored bytes, its transactions occupy %d", snap.Stored, stored)
	}
	if sp, _ := w.pool.Stats(); sp != total {
		return simcore.Violf("view-consistency", "Stats() reports %d pooled transactions, the index holds %d", sp, total)
	}
	lazies, cnt := w.pool.Pending(txpool.PendingFilter{BlobTxs: true, BlobVersion: types.BlobSidecarVersion1})
	if cnt != total {
		return simcore.Violf("view-consistency", "Pending() returns %d transactions, the index holds %d", cnt, total)
	}
	for _, acc := range snap.Accounts {
		lz := lazies[acc.Addr]
		if len(lz) != len(acc.Txs) {
			return simcore.Violf("view-consistency", "Pending() returns %d transactions for %x, the index holds %d", len(lz), acc.Addr[:4], len(acc.Txs))
		}
		for i := range lz {
			if lz[i].Hash != acc.Txs[i].Hash {
				return simcore.Violf("view-consistency", "Pending()[%d] of %x is %x, the index has %x", i, acc.Addr[:4], lz[i].Hash[:4], acc.Txs[i].Hash[:4])
			}
		}
	}
	// --- eviction heap
	if v := w.checkHeap(o); v != nil {
		return v
	}
	// --- gapped buffer is disjoint from the index
	for _, hs := range snap.Gapped {
		for _, h := range hs {
			if o.index[h] {
				return simcore.Violf("gapped-and-indexed", "%x is both pooled and in the gapped buffer", h[:4])
			}
		}
	}
	// --- limbo: index == groups == store, expected entries retrievable
	limboStore := map[common.Hash]blobpool.VerifStoreEntry{}
	for _, e := range o.limbo {
		if e.Bad {
			return simcore.Violf("limbo-corrupt-entry", "limbo store entry %d does not decode", e.ID)
		}
		if _, dup := limboStore[e.Hash]; dup {
			return simcore.Violf("limbo-duplicate", "transaction %x is stored twice in the limbo store", e.Hash[:4])
		}
		limboStore[e.Hash] = e
	}
	if snap.LimboGroups != len(snap.Limbo) {
		return simcore.Violf("limbo-index", "limbo tracks %d transactions by hash but %d by block", len(snap.Limbo), snap.LimboGroups)
	}
	for _, e := range snap.Limbo {
		se, ok := limboStore[e.TxHash]
		if !ok || se.ID != e.ID {
			return simcore.Violf("limbo-index-without-store", "limbo index entry %x (id %d) is not in the limbo store", e.TxHash[:4], e.ID)
		}
		if e.Block == ^uint64(0) || se.Block != e.Block {
			return simcore.Violf("limbo-index", "limbo entry %x is indexed under block %d, stored with block %d", e.TxHash[:4], e.Block, se.Block)
		}
	}
	for h, e := range limboStore {
		if _, ok := o.limboIx[h]; !ok {
			return simcore.Violf("limbo-store-without-index", "limbo store holds %x (id %d) which the limbo index does not know", h[:4], e.ID)
		}
	}
	hs := make([]common.Hash, 0, len(w.limbo))
	for h := range w.limbo {
		hs = append(hs, h)
	}
	sort.Slice(hs, func(i, j int) bool { return hs[i].Cmp(hs[j]) < 0 })
	for _, h := range hs {
		blk := w.limbo[h]
		if blk <= o.final {
			continue
		}
		w.res.Probe("limbo-entry-expected")
		if _, ok := o.limboIx[h]; !ok {
			v := simcore.Violf("limbo-lost", "transaction %x was pooled when block %d included it; that block is not final (final %d, head %d) but its blobs are no longer in the limbo", h[:4], blk, o.final, o.head.number())
			if w.limboResurrected[h] {
				v.Key = "limbo-lost:push-refused-on-resurrected-entry"
				v.Msg += " [the limbo still tracked this hash from an earlier inclusion (entry resurrected by a crash image) when the pool offloaded it again; limbo.push refuses already tracked hashes, the old block number stayed and the entry was finalised by it]"
				if simcore.IsKnown(v.Key) {
					w.res.KnownHit(v.Key)
					delete(w.limbo, h)
					continue
				}
				return v
			}
			if w.limboStale[h] {
				v.Key = "limbo-lost:stale-block-after-reinclusion"
				v.Msg += " [a reorg moved the transaction to a block with a different number; the limbo kept the old number and finalised the entry by it]"
				if simcore.IsKnown(v.Key) {
					w.res.KnownHit(v.Key)
					delete(w.limbo, h)
					continue
				}
			}
			return v
		}
		found, carried, _, cells, err := w.pool.VerifLimboGet(h)
		if !found || err != nil || carried != h || cells == 0 {
			return simcore.Violf("limbo-unreadable", "limbo entry %x cannot be read back (found %v, carries %x, %d cells, err %v)", h[:4], found, carried[:4], cells, err)
		}
	}
	return nil
}

// heapKey is an account's documented eviction key: priority bucket first, then
// the minimum tip over its nonce sequence, both from the harness' fee data.
type heapKey struct {
	prio int
	near bool
	tip  *uint256.Int
	exec float64 // minimum fee-cap jumps
	blob float64 // minimum blob-fee-cap jumps
}

func (w *bpWorld) heapKeyOf(metas []blobpool.VerifMeta, baseJ, blobJ float64) heapKey {
	var minTip *uint256.Int
	minBase, minBlob := math.Inf(1), math.Inf(1)
	for _, m := range metas {
		tx := w.txs[m.Hash]
		tip := uint256.MustFromBig(tx.GasTipCap())
		if minTip == nil || tip.Lt(minTip) {
			minTip = tip
		}
		minBase = math.Min(minBase, refJumps(tx.GasFeeCap(), false))
		minBlob = math.Min(minBlob, refJumps(tx.BlobGasFeeCap(), true))
	}
	p, near := refPriority(baseJ, minBase, blobJ, minBlob)
	return heapKey{p, near, minTip, minBase, minBlob}
}

func keyLess(a, b heapKey) bool {
	if a.prio != b.prio {
		return a.prio < b.prio
	}
	return a.tip.Lt(b.tip)
}

// checkHeapFixed looks at the eviction heap right after one accepted insertion.
// The documented code re-establishes the position of the sender's account with
// heap.Push (first transaction of the account), or heap.Fix when the account's
// only transaction was replaced or when its minimum fee-cap / blob-fee-cap jumps
// moved by more than 0.001 in EITHER direction. heap.Fix compares with the
// current keys, so afterwards the account is not "less" than its parent and no
// child is "less" than it, whatever else is stale in the heap. (An insertion that
// leaves both minima where they were does not oblige a fix: that is the recorded
// tip tie-break finding and is not judged here.)
func (w *bpWorld) checkHeapFixed(pre, post *blobpool.VerifBPSnapshot, tx *types.Transaction, head *simBlock) *simcore.Violation {
	from, _ := types.Sender(w.signer, tx)
	idx := func(s *blobpool.VerifBPSnapshot) (map[common.Hash]bool, map[common.Address][]blobpool.VerifMeta) {
		set, by := map[common.Hash]bool{}, map[common.Address][]blobpool.VerifMeta{}
		for _, a := range s.Accounts {
			by[a.Addr] = a.Txs
			for _, m := range a.Txs {
				set[m.Hash] = true
			}
		}
		return set, by
	}
	preSet, preBy := idx(pre)
	postSet, postBy := idx(post)
	if !postSet[tx.Hash()] {
		if len(postSet) != len(preSet) {
			w.heapClean = false
		}
		return nil // gapped, or evicted straight away
	}
	// nothing but this insertion (and the transaction it replaced) may have changed
	for h := range postSet {
		if !preSet[h] && h != tx.Hash() {
			w.heapClean = false
			return nil // gapped transactions were promoted behind it
		}
	}
	for _, a := range pre.Accounts {
		for _, m := range a.Txs {
			if !postSet[m.Hash] && !(a.Addr == from && m.Nonce == tx.Nonce()) {
				w.heapClean = false
				return nil // the capacity loop dropped something
			}
		}
	}
	hd := head.block.Header()
	baseJ := refJumps(eip1559.CalcBaseFee(w.chain.cfg, hd), false)
	blobJ := refJumps(blobFeeAt(w.chain, hd).ToBig(), true)
	obliged := ""
	switch {
	case len(preBy[from]) == 0:
		obliged = "first transaction of the account (heap.Push)"
	case len(postBy[from]) == 1:
		obliged = "the account's only transaction was replaced"
	default:
		o, n := w.heapKeyOf(preBy[from], baseJ, blobJ), w.heapKeyOf(postBy[from], baseJ, blobJ)
		d := math.Max(math.Abs(o.exec-n.exec), math.Abs(o.blob-n.blob))
		switch {
		case d > 0.002:
			if n.exec > o.exec+0.002 || n.blob > o.blob+0.002 {
				w.res.Probe("heap-fix-obliged:minimum-raised")
			}
			obliged = fmt.Sprintf("the account's minimum fee jumps moved (exec %.3f -> %.3f, blob %.3f -> %.3f)", o.exec, n.exec, o.blob, n.blob)
		case d > 0.0005:
			w.heapClean = false
			return nil // too close to the 0.001 threshold to call
		}
	}
	if obliged == "" {
		w.res.Probe("heap-fix-not-obliged")
		w.heapClean = false
		return nil
	}
	w.res.Probe("heap-fix-obliged")
	pos := -1
	for i, a := range post.HeapAddrs {
		if a == from {
			pos = i
		}
	}
	if pos < 0 {
		return simcore.Violf("evict-heap-set", "account %x has pooled transactions but is not in the eviction heap", from[:4])
	}
	// The edge to the parent is right after Push/Fix whatever else is stale. The
	// edges to the children are examined by Fix at the account's old slot; if it
	// then moved up they rest on the rest of the heap being in order, so inside one
	// priority bucket they are judged only while nothing can be stale.
	check := func(upper, lower int, full bool) *simcore.Violation {
		ku, kl := w.heapKeyOf(postBy[post.HeapAddrs[upper]], baseJ, blobJ), w.heapKeyOf(postBy[post.HeapAddrs[lower]], baseJ, blobJ)
		if ku.near || kl.near {
			return nil
		}
		if !full && ku.prio == kl.prio {
			return nil
		}
		if keyLess(kl, ku) {
			v := simcore.Violf("evict-heap-order", "eviction heap after inserting %x (account %x nonce %d; %s): account %x (slot %d, priority %d, min tip %v) sits below %x (slot %d, priority %d, min tip %v) — the inserting account's position was not re-established",
				tx.Hash().Bytes()[:4], from[:4], tx.Nonce(), obliged, post.HeapAddrs[lower][:4], lower, kl.prio, kl.tip, post.HeapAddrs[upper][:4], upper, ku.prio, ku.tip)
			v.Key = "evict-heap-order:not-fixed-after-insertion"
			return v
		}
		return nil
	}
	if pos > 0 {
		if v := check((pos-1)/2, pos, true); v != nil {
			return v
		}
	}
	for _, c := range []int{2*pos + 1, 2*pos + 2} {
		if c < len(post.HeapAddrs) {
			if v := check(pos, c, w.heapClean); v != nil {
				return v
			}
		}
	}
	return nil
}

func (w *bpWorld) checkHeap(o *bpObs) *simcore.Violation {
	snap := o.snap
	if len(snap.HeapAddrs) != len(snap.Accounts) || len(snap.HeapIndex) != len(snap.HeapAddrs) {
		return simcore.Violf("evict-heap-set", "eviction heap has %d accounts (%d indexed), the pool %d", len(snap.HeapAddrs), len(snap.HeapIndex), len(snap.Accounts))
	}
	for i, a := range snap.HeapAddrs {
		if _, ok := o.byAcct[a]; !ok {
			return simcore.Violf("evict-heap-set", "eviction heap holds %x which has no pooled transactions", a[:4])
		}
		if snap.HeapIndex[a] != i {
			return simcore.Violf("evict-heap-index", "eviction heap slot %d holds %x but its index entry says %d", i, a[:4], snap.HeapIndex[a])
		}
	}
	// heap property under the documented priority, from the harness' fee data
	head := o.head.block.Header()
	baseJ := refJumps(eip1559.CalcBaseFee(w.chain.cfg, head), false)
	blobJ := refJumps(blobFeeAt(w.chain, head).ToBig(), true)
	type key struct {
		prio int
		near bool
		tip  *uint256.Int
	}
	keyOf := func(a common.Address) key {
		var minTip *uint256.Int
		minBase, minBlob := math.Inf(1), math.Inf(1)
		for _, m := range o.byAcct[a] {
			tx := w.txs[m.Hash]
			tip := uint256.MustFromBig(tx.GasTipCap())
			if minTip == nil || tip.Lt(minTip) {
				minTip = tip
			}
			minBase = math.Min(minBase, refJumps(tx.GasFeeCap(), false))
			minBlob = math.Min(minBlob, refJumps(tx.BlobGasFeeCap(), true))
		}
		p, near := refPriority(baseJ, minBase, blobJ, minBlob)
		return key{p, near, minTip}
	}
	keys := make([]key, len(snap.HeapAddrs))
	for i, a := range snap.HeapAddrs {
		keys[i] = keyOf(a)
	}
	for i := 1; i < len(keys); i++ {
		par := (i - 1) / 2
		c, p := keys[i], keys[par]
		if c.near || p.near {
			w.res.Probe("heap-compare-skipped-near-boundary")
			continue
		}
		w.res.Probe("heap-pair-compared")
		if c.prio < p.prio {
			return simcore.Violf("evict-heap-order", "eviction heap: account %x (slot %d, priority %d, min tip %v) sits below %x (slot %d, priority %d, min tip %v) at base fee %v / blob fee %v",
				snap.HeapAddrs[i][:4], i, c.prio, c.tip, snap.HeapAddrs[par][:4], par, p.prio, p.tip, eip1559.CalcBaseFee(w.chain.cfg, head), blobFeeAt(w.chain, head))
		}
		if c.prio == p.prio && c.tip.Lt(p.tip) {
			v := simcore.Violf("evict-heap-order", "eviction heap: account %x (slot %d, priority %d, min tip %v) sits below %x (slot %d, same priority, min tip %v)",
				snap.HeapAddrs[i][:4], i, c.prio, c.tip, snap.HeapAddrs[par][:4], par, p.tip)
			if w.heapClean {
				v.Msg += " [no insertion or capacity drop since the heap was last rebuilt can explain a stale position]"
				return v
			}
			v.Key = "evict-heap-order:tip-tiebreak"
			v.Msg += " [accounts in one priority bucket are ordered by their minimum tip; appending a transaction with a lower tip but unchanged fee-cap minima does not re-sort the heap]"
			if simcore.IsKnown(v.Key) {
				if !w.knownTie {
					w.knownTie = true
					w.res.KnownHit(v.Key)
				}
				continue
			}
			return v
		}
	}
	return nil
}

// ---------------------------------------------------------------------------
// oracle: what an operation must have done
// ---------------------------------------------------------------------------

func (w *bpWorld) checkOp(op *BPOp, info *bpInfo, B, A *bpObs) *simcore.Violation {
	if info.opViol != nil {
		return info.opViol
	}
	switch op.Kind {
	case "add":
		for j, tx := range info.txs {
			if info.errs[j] == nil && !A.index[tx.Hash()] {
				w.res.Probe("accepted-but-not-pooled(gapped-or-evicted)")
			}
		}
		if A.snap.Stored < B.snap.Stored || len(A.index) < len(B.index) {
			w.res.Probe("evicted-for-capacity")
		}
		for h := range B.index {
			if !A.index[h] {
				w.res.Probe("dropped-by-add")
				break
			}
		}
		if w.faultFired {
			w.res.Probe("put-error-survived")
		}
	case "restart":
		if !info.restarted {
			return nil
		}
		// clean restart: same contents, same limbo
		// Datacap is a soft cap: a reset may reinject beyond it, and Init then evicts
		// down to it ("evict anything above the current allowance")
		overCap := B.snap.Stored > uint64(w.p.Knobs.DatacapKB)*1024
		if overCap {
			w.res.Probe("clean-restart-over-capacity")
			if A.snap.Stored > uint64(w.p.Knobs.DatacapKB)*1024 {
				return simcore.Violf("clean-restart-contents", "pool stores %d bytes after reopening, capacity %d", A.snap.Stored, uint64(w.p.Knobs.DatacapKB)*1024)
			}
		}
		for _, a := range w.chain.accts {
			b, r := B.byAcct[a.addr], A.byAcct[a.addr]
			// Init re-applies the minimum tip: a reset reinjects reorged-out
			// transactions without looking at it, the restart then drops the first
			// one below it and everything behind
			for i, m := range b {
				if m.ExecTipCap.Lt(uint256.NewInt(w.gasTip)) {
					b = b[:i]
					w.res.Probe("clean-restart-tip-cut")
					break
				}
			}
			if len(b) != len(r) && !(overCap && len(r) < len(b)) {
				return simcore.Violf("clean-restart-contents", "account %x had %d pooled transactions before Close, %d after reopening", a.addr[:4], len(b), len(r))
			}
			b = b[:len(r)]
			for i := range b {
				if b[i].Hash != r[i].Hash {
					return simcore.Violf("clean-restart-contents", "account %x: transaction %d was %x before Close, %x after reopening", a.addr[:4], i, b[i].Hash[:4], r[i].Hash[:4])
				}
			}
		}
		if len(B.limboIx) != len(A.limboIx) {
			return simcore.Violf("clean-restart-limbo", "limbo held %d transactions before Close, %d after reopening", len(B.limboIx), len(A.limboIx))
		}
		for h, blk := range B.limboIx {
			if rb, ok := A.limboIx[h]; !ok || rb != blk {
				return simcore.Violf("clean-restart-limbo", "limbo entry %x (block %d) is missing or changed (block %d) after reopening", h[:4], blk, rb)
			}
		}
		return w.checkGet(A)
	case "head", "reorg":
		if info.newHead == nil {
			return nil
		}
		// model: pooled transactions that the adopted branch includes go to limbo
		for h := range B.index {
			if blk, ok := info.included[h]; ok {
				w.limbo[h] = blk
				// The limbo already tracked this transaction although it was pooled
				// (an entry deleted earlier and resurrected by billy in a crash
				// image): limbo.push refuses "already tracked" hashes, so the old
				// entry with its old block number stays and is finalised by it.
				if old, was := B.limboIx[h]; was && old != blk {
					w.limboStale[h] = true
					w.limboResurrected[h] = true
					w.res.Probe("limbo-push-onto-resurrected-entry")
				}
			}
		}
		// limbo entries re-included by the adopted branch now belong to that block
		for h := range w.limbo {
			if blk, ok := info.included[h]; ok {
				w.limbo[h] = blk
				// the pool keeps the number of the abandoned block for a transaction
				// that moved to another height (recorded finding, see checkLive)
				if old, was := B.limboIx[h]; was && old != blk {
					if now, still := A.limboIx[h]; !still || now != blk {
						w.limboStale[h] = true
						w.res.Probe("limbo-block-number-stale")
					}
				}
			}
		}
		// transactions of abandoned blocks that the adopted branch does not include
		// come back from limbo; whether they stay is the documented recheck
		lost := map[common.Address][]*types.Transaction{}
		for _, tx := range info.discarded {
			if _, re := info.included[tx.Hash()]; re {
				continue
			}
			if _, inLimbo := w.limbo[tx.Hash()]; !inLimbo {
				continue
			}
			if _, had := B.limboIx[tx.Hash()]; !had {
				continue
			}
			from, _ := types.Sender(w.signer, tx)
			lost[from] = append(lost[from], tx)
			delete(w.limbo, tx.Hash())
		}
		for _, a := range w.chain.accts {
			ltxs := lost[a.addr]
			if len(ltxs) == 0 {
				continue
			}
			ai := w.chain.byAddr[a.addr]
			var set []rtx
			for _, m := range B.byAcct[a.addr] {
				set = append(set, w.rtxOf(w.txs[m.Hash], m.StorageSize))
			}
			for _, tx := range ltxs {
				set = append(set, w.rtxOf(tx, 0))
			}
			kept, amb := recheckModel(set, info.newHead.model[ai].Nonce, info.newHead.model[ai].Balance)
			if amb || w.faultFired {
				w.res.Probe("reorg-return-ambiguous")
				continue
			}
			keptSet := map[common.Hash]bool{}
			for _, k := range kept {
				keptSet[k.hash] = true
			}
			for _, tx := range ltxs {
				if !keptSet[tx.Hash()] {
					w.res.Probe("reorged-out-tx-legitimately-dropped")
					continue
				}
				w.res.Probe("reorg-return-expected")
				if !A.index[tx.Hash()] {
					return simcore.Violf("reorg-no-return", "transaction %x (account %d nonce %d) sat in limbo, its block was reorged out and the new branch does not include it; the documented recheck keeps it (state nonce %d, balance %v) but it is not back in the pool",
						tx.Hash().Bytes()[:4], ai, tx.Nonce(), info.newHead.model[ai].Nonce, info.newHead.model[ai].Balance)
				}
			}
		}
		// finalised entries are no longer required
		for h, blk := range w.limbo {
			if blk <= A.final {
				delete(w.limbo, h)
				w.res.Probe("limbo-entry-finalised")
			}
		}
	}
	return nil
}

// checkGet reads one pooled transaction back through the public API and compares
// it with what was submitted (blobs are recovered from the stored cells).
func (w *bpWorld) checkGet(o *bpObs) *simcore.Violation {
	for _, a := range w.chain.accts {
		txs := o.byAcct[a.addr]
		if len(txs) == 0 {
			continue
		}
		h := txs[0].Hash
		got := w.pool.Get(h)
		want := w.txs[h]
		if got == nil || got.Hash() != h {
			return simcore.Violf("get-after-restart", "Get(%x) returns nothing (or another transaction) after the restart", h[:4])
		}
		gs, ws := got.BlobTxSidecar(), want.BlobTxSidecar()
		if gs == nil || len(gs.Blobs) != len(ws.Blobs) {
			return simcore.Violf("get-after-restart", "Get(%x) returns a transaction without its %d blobs", h[:4], len(ws.Blobs))
		}
		for i := range gs.Blobs {
			if gs.Blobs[i] != ws.Blobs[i] {
				return simcore.Violf("get-after-restart", "Get(%x): blob %d differs from the submitted one", h[:4], i)
			}
		}
		w.res.Probe("get-roundtrip")
		return nil
	}
	return nil
}

// ---------------------------------------------------------------------------
// dirty restart
// ---------------------------------------------------------------------------

func (w *bpWorld) reboot(B, A *bpObs) (*bpObs, *simcore.Violation) {
	// what a restarting node finds on disk
	imgQueue, imgLimbo, err := blobpool.VerifReadImage(w.image)
	if err != nil {
		simcore.Harnessf("read image: %v", err)
	}
	// the abandoned process: release its files (this touches only the live
	// directory, which is discarded)
	w.pool.Close()
	w.pool = nil
	os.RemoveAll(w.dir)
	if err := os.Rename(w.image, w.dir); err != nil {
		simcore.Harnessf("adopt image: %v", err)
	}
	w.openPool()
	w.res.Reboots++
	R := w.observe()

	// (D4) durability: whatever was pooled before and after the in-flight
	// operation was on disk at every instant in between
	imgHashes := map[common.Hash]bool{}
	for _, e := range imgQueue {
		if !e.Bad {
			imgHashes[e.Hash] = true
		}
	}
	for h := range B.index {
		if A.index[h] && !imgHashes[h] {
			return R, simcore.Violf("durability", "transaction %x was pooled before and after the interrupted operation but is not in the on-disk image", h[:4])
		}
	}
	imgLimboHashes := map[common.Hash]bool{}
	for _, e := range imgLimbo {
		if !e.Bad {
			imgLimboHashes[e.Hash] = true
		}
	}
	// what the image holds per account (transactions only, not the cell payload)
	model := R.head.model
	per := map[common.Address][]rtx{}
	seen := map[common.Hash]bool{}
	for _, e := range imgQueue {
		if e.Bad || seen[e.Hash] {
			continue
		}
		seen[e.Hash] = true
		// only the transaction is needed, not the cell payload behind it
		elems, err := rlp.SplitListValues(e.Data)
		if err != nil || len(elems) < 2 {
			simcore.Harnessf("decode image entry: %v", err)
		}
		content, _, err := rlp.SplitString(elems[0])
		if err != nil {
			simcore.Harnessf("decode image entry: %v", err)
		}
		stx := new(types.Transaction)
		if err := stx.UnmarshalBinary(content); err != nil {
			simcore.Harnessf("decode image transaction: %v", err)
		}
		r := w.rtxOf(stx, e.Size)
		per[r.from] = append(per[r.from], r)
	}
	// (D1) the reopened pool is consistent (limbo expectations are re-based first)
	newLimbo := map[common.Hash]uint64{}
	for h, blk := range w.limbo {
		if _, ok := R.limboIx[h]; ok {
			newLimbo[h] = blk
			continue
		}
		_, inB := B.limboIx[h]
		_, inA := A.limboIx[h]
		if inB && inA && blk > R.final {
			return R, simcore.Violf("limbo-lost", "limbo entry %x (block %d, not final) existed before and after the interrupted operation but is gone after the restart (in the image: %v)", h[:4], blk, imgLimboHashes[h])
		}
	}
	w.limbo = newLimbo
	if v := w.checkLive(R); v != nil {
		if v.Oracle == "nonce-gap" {
			// Recorded finding: recheck tests for a dangling first nonce BEFORE it
			// removes the entries below the state nonce, so a stale entry (here:
			// one billy resurrected) hides the gap behind it.
			for _, a := range w.chain.accts {
				ai := w.chain.byAddr[a.addr]
				got := R.byAcct[a.addr]
				if len(got) == 0 || got[0].Nonce <= model[ai].Nonce {
					continue
				}
				for _, e := range per[a.addr] {
					if e.nonce < model[ai].Nonce {
						v.Key = "nonce-gap:stale-entry-hides-front-gap"
						v.Msg += fmt.Sprintf(" [the image also holds nonce %d of that account, below the state nonce: recheck decides 'not dangling' on that entry, drops it, and never looks at the front again]", e.nonce)
					}
				}
			}
			if v.Key != "nonce-gap" && simcore.IsKnown(v.Key) {
				w.res.KnownHit(v.Key)
				w.stop = true // the pool now holds a dangling transaction: nothing more to learn from this run
				return R, nil
			}
		}
		return R, v
	}
	// (D2) nothing invented
	for h := range R.index {
		if !imgHashes[h] {
			return R, simcore.Violf("recovery-invented", "reopened pool holds %x which is not in the on-disk image", h[:4])
		}
	}
	for h := range R.limboIx {
		if !imgLimboHashes[h] {
			return R, simcore.Violf("recovery-invented", "reopened limbo holds %x which is not in the on-disk image", h[:4])
		}
	}
	// (D3) the reopened contents are the documented clean-up of the image
	expected := map[common.Address][]rtx{}
	ambiguous := map[common.Address]bool{}
	var expStored uint64
	exact := true
	for _, a := range w.chain.accts {
		ai := w.chain.byAddr[a.addr]
		kept, amb := recheckModel(per[a.addr], model[ai].Nonce, model[ai].Balance)
		if amb {
			exact = false
			ambiguous[a.addr] = true
			w.res.Probe("recovery-ambiguous-duplicate-nonce")
			continue
		}
		// Init applies the configured minimum tip: the first transaction below it
		// and everything after it are dropped
		tip := uint256.NewInt(w.gasTip)
		for i, k := range kept {
			if k.tip.Lt(tip) {
				kept = kept[:i]
				break
			}
		}
		expected[a.addr] = kept
		for _, k := range kept {
			expStored += uint64(k.slot)
		}
	}
	datacap := uint64(w.p.Knobs.DatacapKB) * 1024
	heapCleanAfter := exact && expStored <= datacap
	defer func() { w.heapClean = heapCleanAfter }()
	for _, a := range w.chain.accts {
		if ambiguous[a.addr] {
			continue
		}
		exp, got := expected[a.addr], R.byAcct[a.addr]
		if len(got) > len(exp) {
			return R, simcore.Violf("recovery-contents", "account %x: reopened pool holds %d transactions, the documented clean-up of the image leaves %d", a.addr[:4], len(got), len(exp))
		}
		for i := range got {
			if got[i].Hash != exp[i].hash {
				return R, simcore.Violf("recovery-contents", "account %x: reopened transaction %d is %x, the documented clean-up of the image gives %x", a.addr[:4], i, got[i].Hash[:4], exp[i].hash[:4])
			}
		}
		if len(got) < len(exp) {
			// only the capacity limit may cut more (from the top of an account)
			if exact && expStored <= datacap {
				return R, simcore.Violf("recovery-lost", "account %x: the image holds %d valid transactions (nonces %d..%d, all payable, %d bytes in total within the %d byte capacity) but the reopened pool kept %d",
					a.addr[:4], len(exp), exp[0].nonce, exp[len(exp)-1].nonce, expStored, datacap, len(got))
			}
			w.res.Probe("recovery-capacity-cut")
		}
	}
	if R.snap.Stored > datacap {
		return R, simcore.Violf("recovery-over-capacity", "reopened pool stores %d bytes, capacity %d", R.snap.Stored, datacap)
	}
	w.res.Probe("recovery-checked")
	if v := w.checkGet(R); v != nil {
		return R, v
	}
	return R, nil
}
