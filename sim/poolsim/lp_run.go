package poolsim

import (
	"errors"
	"fmt"
	"math/big"
	"os"
	"path/filepath"
	"runtime/debug"
	"sort"
	"strings"
	"sync"
	"testing"
	"testing/synctest"
	"time"

	"github.com/ethereum/go-ethereum/common"
	"github.com/ethereum/go-ethereum/core"
	"github.com/ethereum/go-ethereum/core/txpool"
	"github.com/ethereum/go-ethereum/core/txpool/legacypool"
	"github.com/ethereum/go-ethereum/core/txpool/locals"
	"github.com/ethereum/go-ethereum/core/types"
	"github.com/ethereum/go-ethereum/params"
	"github.com/holiman/uint256"

	"verifsim/simcore"
	"verifsim/simsched"
)

const feeUnit = 1000

var prologueOnce sync.Once

// prologue does the process-wide set-up outside any bubble.
func prologue() {
	prologueOnce.Do(func() {
		core.SenderCacher() // lazily started worker pool: must not be born inside a bubble
		simsched.Prologue()
		installLogHandler()
		// the blob pool's stores allocate slot-sized buffers by the dozen on every
		// open; a lazier collector saves a third of the wall time
		debug.SetGCPercent(400)
	})
}

func scratchDir() string {
	d := os.Getenv("VERIF_SCRATCH")
	if d == "" {
		d = filepath.Join("/dev/shm", fmt.Sprintf("poolsim-%d", os.Getpid()))
	}
	os.MkdirAll(d, 0o755)
	return d
}

// ---------------------------------------------------------------------------
// world
// ---------------------------------------------------------------------------

type lpWorld struct {
	p       *LPPlan
	res     *simcore.Result
	chain   *simChain
	pool    *legacypool.LegacyPool
	tp      *txpool.TxPool
	tracker *locals.TxTracker
	signer  types.Signer
	start   time.Time

	log simcore.Hash64

	// harness bookkeeping
	lastStimulus time.Time // last operation other than a clock advance
	limitsFresh  bool      // the last operation ended with a pool maintenance cycle
	tip          uint64
	asyncChoices int
	knownGap     map[int]bool // accounts whose pending list currently shows the recorded reorg gap
}

type content struct {
	pending map[common.Address][]*types.Transaction
	queued  map[common.Address][]*types.Transaction
}

func (c *content) find(addr common.Address, nonce uint64) (*types.Transaction, bool) {
	for _, tx := range c.pending[addr] {
		if tx.Nonce() == nonce {
			return tx, true
		}
	}
	for _, tx := range c.queued[addr] {
		if tx.Nonce() == nonce {
			return tx, false
		}
	}
	return nil, false
}

func (w *lpWorld) content() *content {
	p, q := w.tp.Content()
	return &content{pending: p, queued: q}
}

func errClass(err error) string {
	if err == nil {
		return "ok"
	}
	for _, s := range []struct {
		e error
		n string
	}{
		{txpool.ErrAlreadyKnown, "known"}, {txpool.ErrInvalidSender, "sender"}, {txpool.ErrUnderpriced, "underpriced"},
		{txpool.ErrReplaceUnderpriced, "replace-underpriced"}, {txpool.ErrTxGasPriceTooLow, "price-too-low"},
		{txpool.ErrAccountLimitExceeded, "account-limit"}, {txpool.ErrGasLimit, "gas-limit"}, {txpool.ErrNegativeValue, "negative"},
		{txpool.ErrOversizedData, "oversized"}, {txpool.ErrAlreadyReserved, "reserved"}, {txpool.ErrInflightTxLimitReached, "inflight-limit"},
		{legacypool.ErrTxPoolOverflow, "overflow"}, {legacypool.ErrOutOfOrderTxFromDelegated, "delegated-gapped"},
		{legacypool.ErrAuthorityReserved, "authority-reserved"}, {legacypool.ErrFutureReplacePending, "future-replace-pending"},
		{core.ErrNonceTooLow, "nonce-low"}, {core.ErrNonceTooHigh, "nonce-high"}, {core.ErrInsufficientFunds, "funds"}, {core.ErrIntrinsicGas, "intrinsic"},
		{core.ErrFloorDataGas, "floor-gas"}, {core.ErrTipAboveFeeCap, "tip-above-cap"}, {core.ErrGasLimitTooHigh, "gas-too-high"},
		{core.ErrTxTypeNotSupported, "type"},
	} {
		if errors.Is(err, s.e) {
			return s.n
		}
	}
	s := err.Error()
	if len(s) > 32 {
		s = s[:32]
	}
	return "other:" + s
}

// makeTx resolves a spec against the model of the current head and the pool
// content and signs the transaction.
func (w *lpWorld) makeTx(s *TxSpec, model []acctModel, cont *content, nonceOverride *uint64) *types.Transaction {
	n := len(w.chain.accts)
	ai := ((s.Acct % n) + n) % n
	acct := w.chain.accts[ai]
	var nonce uint64
	if nonceOverride != nil {
		nonce = *nonceOverride
	} else {
		nn := int64(model[ai].Nonce) + int64(s.NonceOff)
		if nn < 0 {
			nn = 0
		}
		nonce = uint64(nn)
	}
	tip, feeCap := s.Tip, s.FeeCap
	if s.Repl && cont != nil {
		if old, _ := cont.find(acct.addr, nonce); old != nil {
			bump := new(big.Int).SetUint64(100 + w.p.Knobs.PriceBump)
			thr := func(v *big.Int, d int) uint64 {
				x := new(big.Int).Mul(v, bump)
				x.Div(x, big.NewInt(100))
				x.Add(x, big.NewInt(int64(d)))
				if x.Sign() < 0 || !x.IsUint64() {
					return 0
				}
				return x.Uint64()
			}
			tip, feeCap = thr(old.GasTipCap(), s.TipDelta), thr(old.GasFeeCap(), s.CapDelta)
			w.res.Probe("replacement-attempted")
		}
	}
	typ := s.Type
	if typ == 0 || typ == 1 {
		// single gas price
		tip = feeCap
	}
	var data []byte
	if s.Data > 0 {
		data = make([]byte, s.Data)
		for i := range data {
			data[i] = byte(i*7 + s.Data)
		}
	}
	var auths []types.SetCodeAuthorization
	if typ == 3 {
		for _, a := range s.Auths {
			aj := ((a.Acct % n) + n) % n
			an := int64(model[aj].Nonce) + int64(a.NonceOff)
			if an < 0 {
				an = 0
			}
			target := delegTarget
			if a.Clear {
				target = common.Address{}
			}
			auth, err := types.SignSetCode(w.chain.accts[aj].key, types.SetCodeAuthorization{
				ChainID: *uint256.MustFromBig(w.chain.cfg.ChainID), Address: target, Nonce: uint64(an)})
			if err != nil {
				simcore.Harnessf("sign auth: %v", err)
			}
			auths = append(auths, auth)
		}
	}
	to := sinkAddr
	head := w.chain.headBlock().block.Header()
	rules := w.chain.cfg.Rules(head.Number, true, head.Time)
	// gas
	gas := s.Gas
	if gas == 0 {
		zero := new(uint256.Int)
		ig, err := core.IntrinsicGas(data, nil, auths, acct.addr, &to, zero, rules)
		if err != nil {
			ig = 21000
		}
		if fg, err := core.FloorDataGas(rules, acct.addr, &to, zero, data, nil); err == nil && fg > ig {
			ig = fg
		}
		g := int64(ig) + int64(s.GasDelta)
		if g < 0 {
			g = 0
		}
		gas = uint64(g)
	}
	// value
	value := new(big.Int).SetUint64(s.Value)
	if s.ValueBal != 0 {
		bal := model[ai].Balance.ToBig()
		v := new(big.Int).Mul(bal, big.NewInt(int64(s.ValueBal)))
		v.Div(v, big.NewInt(100))
		fee := new(big.Int).Mul(new(big.Int).SetUint64(gas), new(big.Int).SetUint64(feeCap))
		v.Sub(v, fee)
		if v.Sign() < 0 {
			v.SetUint64(0)
		}
		value = v
	}
	chainID := w.chain.cfg.ChainID
	var inner types.TxData
	switch typ {
	case 0:
		inner = &types.LegacyTx{Nonce: nonce, GasPrice: new(big.Int).SetUint64(feeCap), Gas: gas, To: &to, Value: value, Data: data}
	case 1:
		inner = &types.AccessListTx{ChainID: chainID, Nonce: nonce, GasPrice: new(big.Int).SetUint64(feeCap), Gas: gas, To: &to, Value: value, Data: data}
	case 2:
		inner = &types.DynamicFeeTx{ChainID: chainID, Nonce: nonce, GasTipCap: new(big.Int).SetUint64(tip), GasFeeCap: new(big.Int).SetUint64(feeCap), Gas: gas, To: &to, Value: value, Data: data}
	default:
		v, _ := uint256.FromBig(value)
		inner = &types.SetCodeTx{ChainID: uint256.MustFromBig(chainID), Nonce: nonce, GasTipCap: uint256.NewInt(tip), GasFeeCap: uint256.NewInt(feeCap), Gas: gas, To: to, Value: v, Data: data, AuthList: auths}
	}
	tx, err := types.SignNewTx(acct.key, w.signer, inner)
	if err != nil {
		simcore.Harnessf("sign tx: %v", err)
	}
	return tx
}

// ---------------------------------------------------------------------------
// run
// ---------------------------------------------------------------------------

func runLP(t *testing.T, pl any) *simcore.Result {
	prologue()
	p := pl.(*LPPlan)
	res := simcore.NewResult()
	if len(p.Knobs.Accts) < 1 || len(p.Knobs.Accts) > 16 {
		simcore.Harnessf("plan with %d accounts", len(p.Knobs.Accts))
	}
	var viol *simcore.Violation
	var hp *simcore.HarnessPanic
	var w *lpWorld
	logErrs.reset()
	wall0 := time.Now()
	defer func() {
		if os.Getenv("POOLSIM_TIMING") != "" {
			k := "wall-ms-serial"
			if p.Knobs.Async {
				k = "wall-ms-async"
			}
			res.Probes[k] += int(time.Since(wall0).Milliseconds())
			res.Probes[k+"-runs"]++
		}
	}()
	dl := simsched.Bubble(t, func() {
		defer func() {
			// a harness panic must leave the bubble as a value: goroutines of the
			// pool would otherwise keep the bubble from finishing.
			if r := recover(); r != nil {
				if h, ok := r.(simcore.HarnessPanic); ok {
					hp = &h
					if w != nil {
						w.shutdown()
					}
					return
				}
				if w != nil {
					w.shutdown()
				}
				panic(r)
			}
		}()
		w = newLPWorld(p, res)
		if p.Knobs.Async {
			viol = w.runAsync()
		} else {
			viol = w.runSerial()
		}
		res.SimTimeNS = int64(time.Since(w.start))
		w.shutdown()
	})
	if hp != nil {
		panic(*hp)
	}
	if dl != "" {
		simcore.Harnessf("poolsim C41 bubble: %s", dl)
	}
	for k, n := range logErrs.snapshot() {
		res.Probes["log-error:"+k] += n
	}
	if w != nil {
		for k, n := range w.chain.calls {
			res.Probes["seam:"+k] += n
		}
		res.LogHash = uint64(w.log)
		res.StateFP = uint64(w.log)
	}
	if w != nil && p.Knobs.Async {
		res.NonTrivial = res.Probes["accepted"] >= 3 && w.asyncChoices >= 2
	} else {
		res.NonTrivial = res.Probes["accepted"] >= 3 &&
			res.Probes["replacement-accepted"]+res.Probes["pool-full"]+res.Probes["pending-truncated"]+res.Probes["queue-truncated"]+
				res.Probes["lifetime-evicted"]+res.Probes["reorg-reinjected"]+res.Probes["demoted"]+res.Probes["included-removed"] >= 1
	}
	if viol != nil {
		res.Fail(viol)
	}
	return res
}

func newLPWorld(p *LPPlan, res *simcore.Result) *lpWorld {
	k := &p.Knobs
	accts := accounts(len(k.Accts))
	init := make([]acctModel, len(accts))
	for i, a := range k.Accts {
		init[i] = acctModel{Nonce: a.Nonce, Balance: uint256.NewInt(a.Balance), Deleg: a.Deleg}
	}
	w := &lpWorld{p: p, res: res, start: time.Now(), log: simcore.NewHash(), tip: k.PriceLimit}
	w.chain = newSimChain(accts, init, k.GasLimit, k.BaseFee*feeUnit, 0)
	w.signer = types.LatestSigner(w.chain.cfg)
	cfg := legacypool.Config{
		NoLocals: !k.Tracker, PriceLimit: k.PriceLimit, PriceBump: k.PriceBump,
		AccountSlots: k.AccountSlots, GlobalSlots: k.GlobalSlots, AccountQueue: k.AccountQueue, GlobalQueue: k.GlobalQueue,
		Lifetime: time.Duration(k.LifetimeS) * time.Second,
	}
	w.pool = legacypool.New(cfg, w.chain)
	tp, err := txpool.New(k.PriceLimit, w.chain, []txpool.SubPool{w.pool})
	if err != nil {
		simcore.Harnessf("txpool.New: %v", err)
	}
	w.tp = tp
	if k.Tracker {
		journal := filepath.Join(scratchDir(), "locals.rlp")
		os.Remove(journal)
		w.tracker = locals.New(journal, 2*time.Minute, w.chain.cfg, tp)
		if err := w.tracker.Start(); err != nil {
			simcore.Harnessf("tracker start: %v", err)
		}
	}
	synctest.Wait()
	w.lastStimulus = time.Now()
	w.limitsFresh = true
	return w
}

func (w *lpWorld) shutdown() {
	if w.tracker != nil {
		w.tracker.Stop()
		w.tracker = nil
	}
	if w.tp != nil {
		w.tp.Close()
		w.tp = nil
	}
}

func (w *lpWorld) logf(format string, a ...any) {
	s := fmt.Sprintf(format, a...)
	w.log = w.log.String(s)
	if os.Getenv("VERIF_TRACE") != "" {
		fmt.Printf("[%8.3fs] %s\n", time.Since(w.start).Seconds(), s)
	}
}

// snapshotBefore is what the oracle remembers from before an operation.
type before struct {
	cont    *content
	snap    *legacypool.VerifSnapshot
	model   []acctModel
	head    *simBlock
	pending map[common.Hash]bool
	queued  map[common.Hash]bool
}

func (w *lpWorld) observe() *before {
	b := &before{cont: w.content(), snap: w.pool.VerifSnapshot(), head: w.chain.headBlock(), pending: map[common.Hash]bool{}, queued: map[common.Hash]bool{}}
	b.model = b.head.model
	for _, txs := range b.cont.pending {
		for _, tx := range txs {
			b.pending[tx.Hash()] = true
		}
	}
	for _, txs := range b.cont.queued {
		for _, tx := range txs {
			b.queued[tx.Hash()] = true
		}
	}
	return b
}

func (w *lpWorld) runSerial() *simcore.Violation {
	if v := w.check(nil, nil, w.observe()); v != nil {
		return v
	}
	for i := range w.p.Ops {
		op := &w.p.Ops[i]
		time.Sleep(time.Millisecond) // distinct virtual instants for distinct operations
		pre := w.observe()
		info := w.apply(i, op, pre)
		synctest.Wait()
		post := w.observe()
		w.record(i, op, info, post)
		if v := w.check(op, info, post); v != nil {
			v.Msg = fmt.Sprintf("after op %d (%s): %s", i, op.Kind, v.Msg)
			return v
		}
	}
	return nil
}

// nonceWentBack reports whether some head announced by the operation (or by the
// concurrent round) gave the account a lower state nonce than the head before it:
// within one round a head advance followed by a reorg can take the nonce up and
// back, so comparing only the states before and after is not enough.
func (info *opInfo) nonceWentBack(ai int) bool {
	if info.pre == nil {
		return false
	}
	prev := info.pre.model[ai].Nonce
	for _, h := range info.heads {
		if n := h.model[ai].Nonce; n < prev {
			return true
		} else {
			prev = n
		}
	}
	return false
}

// opInfo is what an operation tells the oracle.
type opInfo struct {
	pre       *before
	txs       []*types.Transaction
	errs      []error
	local     []bool
	abandoned []*types.Transaction // reorg: transactions of the abandoned blocks, in chain order
	adopted   map[common.Hash]bool // head/reorg: transactions of the adopted blocks
	newHead   *simBlock
	advanced  time.Duration
	maint     bool                    // ended with a maintenance cycle (runReorg)
	dirty     map[common.Address]bool // add: senders of accepted transactions that replaced nothing
	events    int
	async     bool        // a round of concurrently issued operations (asynchronous configuration)
	heads     []*simBlock // every head announced by the operation (or round), in order
}

func (w *lpWorld) apply(i int, op *LPOp, pre *before) *opInfo {
	info := &opInfo{pre: pre}
	switch op.Kind {
	case "add":
		if len(op.Txs) == 0 {
			return info
		}
		var locs []*types.Transaction
		for j := range op.Txs {
			s := &op.Txs[j]
			tx := w.makeTx(s, pre.model, pre.cont, nil)
			info.txs = append(info.txs, tx)
			n := len(w.chain.accts)
			isLocal := w.tracker != nil && w.p.Knobs.Accts[((s.Acct%n)+n)%n].Local
			info.local = append(info.local, isLocal)
			if isLocal {
				locs = append(locs, tx)
			}
		}
		if len(locs) > 0 {
			w.tracker.TrackAll(locs)
		}
		info.errs = w.tp.Add(info.txs, true)
		// Add skips the maintenance request only when every transaction failed
		// the stateless checks (or was already known); an accepted transaction
		// or a state-level rejection proves that one ran.
		for _, err := range info.errs {
			switch errClass(err) {
			case "ok", "nonce-low", "funds", "inflight-limit", "delegated-gapped", "authority-reserved", "underpriced", "overflow",
				"replace-underpriced", "future-replace-pending", "reserved":
				info.maint = true
			}
		}
		w.lastStimulus = time.Now()
	case "tip":
		w.tp.SetGasTip(new(big.Int).SetUint64(op.Tip))
		w.tip = op.Tip
		w.lastStimulus = time.Now()
	case "head", "reorg":
		w.applyHead(op, pre, info)
		w.lastStimulus = time.Now()
	case "clock":
		d := time.Duration(op.Ms) * time.Millisecond
		if d <= 0 {
			d = time.Millisecond
		}
		time.Sleep(d)
		info.advanced = d
	default:
		simcore.Harnessf("unknown op kind %q", op.Kind)
	}
	return info
}

// poolPicks returns, per planned account, the first k pool-pending transactions.
func (w *lpWorld) poolPicks(cont *content, include []int) []*types.Transaction {
	var out []*types.Transaction
	for i, a := range w.chain.accts {
		if i >= len(include) || include[i] <= 0 {
			continue
		}
		txs := cont.pending[a.addr]
		k := include[i]
		if k > len(txs) {
			k = len(txs)
		}
		out = append(out, txs[:k]...)
	}
	return out
}

// buildBranch builds the blocks of a head/reorg operation on top of the current
// head (or of its Depth-th ancestor) and returns the heads to adopt and announce,
// in order.
func (w *lpWorld) buildBranch(op *LPOp, pre *before, info *opInfo) (steps []*simBlock) {
	parent := pre.head
	var abandoned []*types.Transaction
	if op.Kind == "reorg" {
		d := op.Depth
		if d < 1 {
			d = 1
		}
		var chainTxs [][]*types.Transaction
		for j := 0; j < d && parent.parent != nil; j++ {
			chainTxs = append(chainTxs, parent.block.Transactions())
			parent = parent.parent
		}
		for j := len(chainTxs) - 1; j >= 0; j-- {
			abandoned = append(abandoned, chainTxs[j]...)
		}
		info.abandoned = append(info.abandoned, abandoned...)
	}
	if info.adopted == nil {
		info.adopted = map[common.Hash]bool{}
	}
	cur := parent
	for bi := range op.Blocks {
		bs := &op.Blocks[bi]
		var cands []*types.Transaction
		var foreign []*types.Transaction
		for fi := range bs.Foreign {
			f := bs.Foreign[fi]
			n := len(w.chain.accts)
			ai := ((f.Acct % n) + n) % n
			nonce := cur.model[ai].Nonce
			// several foreign transactions of one account in one block: consecutive nonces
			for _, prev := range foreign {
				if from, _ := types.Sender(w.signer, prev); from == w.chain.accts[ai].addr && prev.Nonce() >= nonce {
					nonce = prev.Nonce() + 1
				}
			}
			f.Repl = false
			foreign = append(foreign, w.makeTx(&f, cur.model, nil, &nonce))
		}
		if bs.ForeignPre {
			cands = append(cands, foreign...)
		}
		for ci, tx := range abandoned {
			if bs.KeepOld&(1<<(uint(ci)%64)) != 0 {
				cands = append(cands, tx)
			}
		}
		cands = append(cands, w.poolPicks(pre.cont, bs.Include)...)
		if !bs.ForeignPre {
			cands = append(cands, foreign...)
		}
		env := blockEnv{GasLimit: bs.GasLimit, GasUsedPct: bs.GasUsedPct, BaseFee: bs.BaseFee * feeUnit}
		if env.BaseFee == 0 {
			env.BaseFee = feeUnit
		}
		if env.GasLimit != 0 && env.GasLimit < 100_000 {
			env.GasLimit = 100_000
		}
		cur = w.chain.build(cur, cands, bs.Edits, env)
		for _, tx := range cur.block.Transactions() {
			info.adopted[tx.Hash()] = true
		}
		if op.Events == 1 && bi < len(op.Blocks)-1 {
			steps = append(steps, cur)
		}
	}
	if cur != pre.head {
		steps = append(steps, cur)
	}
	return steps
}

func (w *lpWorld) applyHead(op *LPOp, pre *before, info *opInfo) {
	steps := w.buildBranch(op, pre, info)
	if len(steps) == 0 {
		return // nothing changed (reorg at genesis without new blocks)
	}
	for _, b := range steps {
		w.chain.setHead(b)
		w.chain.announce()
		synctest.Wait()
	}
	if err := w.tp.Sync(); err != nil {
		simcore.Harnessf("txpool.Sync: %v", err)
	}
	info.newHead = steps[len(steps)-1]
	info.heads = steps
	info.maint = true
	info.events = len(steps)
}

func hashesOf(m map[common.Address][]*types.Transaction, accts []*account) string {
	var sb strings.Builder
	for _, a := range accts {
		txs := m[a.addr]
		if len(txs) == 0 {
			continue
		}
		fmt.Fprintf(&sb, "%x:", a.addr[:3])
		for _, tx := range txs {
			fmt.Fprintf(&sb, "%d/%x,", tx.Nonce(), tx.Hash().Bytes()[:4])
		}
		sb.WriteString(" ")
	}
	return sb.String()
}

func (w *lpWorld) record(i int, op *LPOp, info *opInfo, post *before) {
	var es []string
	for _, e := range info.errs {
		es = append(es, errClass(e))
	}
	w.logf("op %d %s errs=%v head=%d p={%s} q={%s}", i, op.Kind, es, post.head.number(),
		hashesOf(post.cont.pending, w.chain.accts), hashesOf(post.cont.queued, w.chain.accts))
}

// ---------------------------------------------------------------------------
// oracle
// ---------------------------------------------------------------------------

func numSlots(tx *types.Transaction) int {
	return int((tx.Size() + legacypool.VerifTxSlotSize - 1) / legacypool.VerifTxSlotSize)
}

func (w *lpWorld) check(op *LPOp, info *opInfo, post *before) *simcore.Violation {
	k := &w.p.Knobs
	cont, snap, model := post.cont, post.snap, post.model
	accts := w.chain.accts
	res := w.res
	headGas := post.head.block.GasLimit()

	// --- (0) the public view and the internal lists describe the same sets
	wbPending := map[common.Address]*legacypool.VerifList{}
	wbQueued := map[common.Address]*legacypool.VerifList{}
	for i := range snap.Pending {
		wbPending[snap.Pending[i].Addr] = &snap.Pending[i]
	}
	for i := range snap.Queued {
		wbQueued[snap.Queued[i].Addr] = &snap.Queued[i]
	}
	sameList := func(kind string, pub map[common.Address][]*types.Transaction, wb map[common.Address]*legacypool.VerifList) *simcore.Violation {
		for addr, txs := range pub {
			l := wb[addr]
			if len(txs) == 0 && l == nil {
				continue
			}
			if l == nil || len(l.Hashes) != len(txs) {
				return simcore.Violf("view-consistency", "Content() %s list of %x has %d transactions, the internal list %v", kind, addr[:4], len(txs), l)
			}
			for i, tx := range txs {
				if l.Hashes[i] != tx.Hash() || l.Nonces[i] != tx.Nonce() {
					return simcore.Violf("view-consistency", "Content() %s[%d] of %x is nonce %d %x, the internal list has nonce %d %x", kind, i, addr[:4], tx.Nonce(), tx.Hash().Bytes()[:4], l.Nonces[i], l.Hashes[i][:4])
				}
			}
		}
		for addr, l := range wb {
			if len(l.Hashes) == 0 {
				return simcore.Violf("view-consistency", "empty internal %s list kept for %x", kind, addr[:4])
			}
			if len(pub[addr]) != len(l.Hashes) {
				return simcore.Violf("view-consistency", "internal %s list of %x has %d transactions, Content() shows %d", kind, addr[:4], len(l.Hashes), len(pub[addr]))
			}
		}
		return nil
	}
	if v := sameList("pending", cont.pending, wbPending); v != nil {
		return v
	}
	if v := sameList("queued", cont.queued, wbQueued); v != nil {
		return v
	}
	for addr := range cont.pending {
		if _, ok := w.chain.byAddr[addr]; !ok {
			return simcore.Violf("view-consistency", "pool holds transactions of %x which never sent any", addr[:4])
		}
	}
	for addr := range cont.queued {
		if _, ok := w.chain.byAddr[addr]; !ok {
			return simcore.Violf("view-consistency", "pool holds transactions of %x which never sent any", addr[:4])
		}
	}
	// Pending() and Stats() agree with Content()
	lazy, lazyCount := w.tp.Pending(txpool.PendingFilter{})
	np, nq := 0, 0
	for _, a := range accts {
		np += len(cont.pending[a.addr])
		nq += len(cont.queued[a.addr])
		lz := lazy[a.addr]
		if len(lz) != len(cont.pending[a.addr]) {
			return simcore.Violf("view-consistency", "Pending() has %d transactions for %x, Content() %d", len(lz), a.addr[:4], len(cont.pending[a.addr]))
		}
		for i, tx := range cont.pending[a.addr] {
			if lz[i].Hash != tx.Hash() {
				return simcore.Violf("view-consistency", "Pending()[%d] of %x is %x, Content() %x", i, a.addr[:4], lz[i].Hash[:4], tx.Hash().Bytes()[:4])
			}
		}
	}
	if lazyCount != np {
		return simcore.Violf("view-consistency", "Pending() count %d, Content() %d", lazyCount, np)
	}
	if sp, sq := w.tp.Stats(); sp != np || sq != nq {
		return simcore.Violf("stats", "Stats() = (%d pending, %d queued), Content() has (%d, %d)", sp, sq, np, nq)
	}

	// --- (1) pending: gap-free from the state nonce, every transaction payable
	gapNow := map[int]bool{}
	defer func() { w.knownGap = gapNow }()
	for ai, a := range accts {
		txs := cont.pending[a.addr]
		for i, tx := range txs {
			if want := model[ai].Nonce + uint64(i); tx.Nonce() != want {
				v := simcore.Violf("pending-nonce-gap", "account %d (%x): pending[%d] has nonce %d, expected %d (state nonce %d, pending nonces %v)",
					ai, a.addr[:4], i, tx.Nonce(), want, model[ai].Nonce, noncesOf(txs))
				// Specific key for the recorded finding: the gap is inside the list
				// (the front is the state nonce) and showed up in a head change that
				// moved this account's state nonce back, or is that same gap still open.
				inside := i > 0
				wentBack := info != nil && info.nonceWentBack(ai)
				if inside && (wentBack || w.knownGap[ai]) {
					v.Key = "pending-nonce-gap:after-state-nonce-went-back"
					v.Msg += " [the gap appeared when a reorg lowered this account's state nonce and a reinjected transaction was rejected]"
					if simcore.IsKnown(v.Key) {
						if !w.knownGap[ai] {
							res.KnownHit(v.Key)
						}
						gapNow[ai] = true
						break
					}
				}
				return v
			}
			if from, err := types.Sender(w.signer, tx); err != nil || from != a.addr {
				return simcore.Violf("pending-sender", "pending list of %x holds a transaction of %x", a.addr[:4], from[:4])
			}
			if tx.Cost().Cmp(model[ai].Balance.ToBig()) > 0 {
				return simcore.Violf("pending-unpayable", "account %d (%x): pending nonce %d costs %v, balance at head %d is %v",
					ai, a.addr[:4], tx.Nonce(), tx.Cost(), post.head.number(), model[ai].Balance)
			}
			if tx.Gas() > headGas {
				return simcore.Violf("pending-over-gaslimit", "account %d: pending nonce %d has gas %d, head gas limit %d", ai, tx.Nonce(), tx.Gas(), headGas)
			}
		}
		if l := wbPending[a.addr]; l != nil {
			if l.SumCost != nil && !l.SumCost.Eq(l.TotalCost) {
				return simcore.Violf("cost-accounting", "account %d (%x): pending list tracks total cost %v, its transactions cost %v", ai, a.addr[:4], l.TotalCost, l.SumCost)
			}
			if l.IndexLen != len(l.Hashes) {
				return simcore.Violf("list-index", "account %d: pending list has %d items but a nonce index of %d", ai, len(l.Hashes), l.IndexLen)
			}
		}
		if l := wbQueued[a.addr]; l != nil {
			if l.SumCost != nil && !l.SumCost.Eq(l.TotalCost) {
				return simcore.Violf("cost-accounting", "account %d (%x): queued list tracks total cost %v, its transactions cost %v", ai, a.addr[:4], l.TotalCost, l.SumCost)
			}
			if l.IndexLen != len(l.Hashes) {
				return simcore.Violf("list-index", "account %d: queued list has %d items but a nonce index of %d", ai, len(l.Hashes), l.IndexLen)
			}
		}
	}

	// --- (2) no hash both pending and queued, index == pending ∪ queued
	union := map[common.Hash]*types.Transaction{}
	slots := 0
	for _, a := range accts {
		for _, tx := range cont.pending[a.addr] {
			if union[tx.Hash()] != nil {
				return simcore.Violf("duplicate-hash", "%x appears twice in pending", tx.Hash().Bytes()[:4])
			}
			union[tx.Hash()] = tx
			slots += numSlots(tx)
		}
	}
	for _, a := range accts {
		for _, tx := range cont.queued[a.addr] {
			if post.pending[tx.Hash()] {
				return simcore.Violf("pending-and-queued", "%x (account %x nonce %d) is both pending and queued", tx.Hash().Bytes()[:4], a.addr[:4], tx.Nonce())
			}
			if union[tx.Hash()] != nil {
				return simcore.Violf("duplicate-hash", "%x appears twice in queued", tx.Hash().Bytes()[:4])
			}
			union[tx.Hash()] = tx
			slots += numSlots(tx)
		}
	}
	for h := range union {
		if _, ok := snap.All[h]; !ok {
			return simcore.Violf("index-missing", "%x is pending/queued but not in the lookup index (index %d entries, lists %d)", h[:4], len(snap.All), len(union))
		}
		if !w.tp.Has(h) {
			return simcore.Violf("index-missing", "%x is pending/queued but Has() denies it", h[:4])
		}
	}
	for h := range snap.All {
		if union[h] == nil {
			return simcore.Violf("index-extra", "lookup index holds %x which is neither pending nor queued (index %d entries, lists %d)", h[:4], len(snap.All), len(union))
		}
	}
	if snap.AllSlots != slots {
		return simcore.Violf("slot-accounting", "lookup slot counter %d, transactions occupy %d slots", snap.AllSlots, slots)
	}

	// --- (3) priced heaps minus stale entries == index
	priced := map[common.Hash]int{}
	for _, h := range snap.Urgent {
		priced[h]++
	}
	for _, h := range snap.Floating {
		priced[h]++
	}
	for h := range union {
		if priced[h] == 0 {
			return simcore.Violf("priced-missing", "%x is in the pool but in neither price heap (urgent %d, floating %d, index %d)", h[:4], len(snap.Urgent), len(snap.Floating), len(union))
		}
	}

	if op == nil {
		return nil
	}
	if info.async {
		return w.checkRound(info, post, union, np, nq)
	}
	pre := info.pre

	// --- (4) accepted replacements satisfied the bump on tip and fee cap
	if op.Kind == "add" {
		total := pre.snap.AllSlots
		for _, tx := range info.txs {
			total += numSlots(tx)
		}
		notFull := uint64(total) <= k.GlobalSlots+k.GlobalQueue
		if !notFull {
			res.Probe("pool-full")
		}
		prev := map[string]*types.Transaction{}
		key := func(a common.Address, n uint64) string { return fmt.Sprintf("%x/%d", a, n) }
		for _, a := range accts {
			for _, tx := range pre.cont.pending[a.addr] {
				prev[key(a.addr, tx.Nonce())] = tx
			}
			for _, tx := range pre.cont.queued[a.addr] {
				prev[key(a.addr, tx.Nonce())] = tx
			}
		}
		for j, tx := range info.txs {
			ec := errClass(info.errs[j])
			res.Probe("add:" + ec)
			if info.errs[j] != nil {
				continue
			}
			res.Probe("accepted")
			from, _ := types.Sender(w.signer, tx)
			kk := key(from, tx.Nonce())
			if old := prev[kk]; old != nil && old.Hash() != tx.Hash() && notFull {
				bump := big.NewInt(int64(100 + k.PriceBump))
				thr := func(v *big.Int) *big.Int { x := new(big.Int).Mul(v, bump); return x.Div(x, big.NewInt(100)) }
				okCap := tx.GasFeeCap().Cmp(thr(old.GasFeeCap())) >= 0 && tx.GasFeeCap().Cmp(old.GasFeeCap()) > 0
				okTip := tx.GasTipCap().Cmp(thr(old.GasTipCap())) >= 0 && tx.GasTipCap().Cmp(old.GasTipCap()) > 0
				if !okCap || !okTip {
					return simcore.Violf("replacement-bump", "account %x nonce %d: %x (tip %v, fee cap %v) was accepted in place of %x (tip %v, fee cap %v) with PriceBump %d%%",
						from[:4], tx.Nonce(), tx.Hash().Bytes()[:4], tx.GasTipCap(), tx.GasFeeCap(), old.Hash().Bytes()[:4], old.GasTipCap(), old.GasFeeCap(), k.PriceBump)
				}
				res.Probe("replacement-accepted")
			}
			if old := prev[kk]; old == nil {
				// certainly not a replacement: the sender is walked (and its queue
				// capped) by the maintenance cycle of this Add
				if info.dirty == nil {
					info.dirty = map[common.Address]bool{}
				}
				info.dirty[from] = true
			}
			prev[kk] = tx
		}
	}

	// --- (5) limits after a maintenance cycle
	if info.maint {
		w.limitsFresh = true
	} else if op.Kind == "tip" {
		// SetGasTip can demote pending transactions into the queue without a
		// maintenance cycle; the limits are re-established by the next one.
		w.limitsFresh = false
	}
	if w.limitsFresh {
		if uint64(nq) > k.GlobalQueue {
			return simcore.Violf("global-queue-limit", "%d queued transactions after maintenance, GlobalQueue %d", nq, k.GlobalQueue)
		}
		if uint64(np) > k.GlobalSlots {
			for ai, a := range accts {
				if uint64(len(cont.pending[a.addr])) > k.AccountSlots {
					return simcore.Violf("global-slots-limit", "%d pending transactions after maintenance (GlobalSlots %d) although account %d holds %d > AccountSlots %d",
						np, k.GlobalSlots, ai, len(cont.pending[a.addr]), k.AccountSlots)
				}
			}
			res.Probe("soft-pending-limit-exceeded-legally")
		}
	}
	if info.maint {
		// per-account queue cap: enforced when the account's queue is walked for
		// promotion; transactions demoted from pending afterwards are on top of it.
		for ai, a := range accts {
			capped := false
			if op.Kind == "head" || op.Kind == "reorg" {
				capped = true
			} else if op.Kind == "add" {
				capped = info.dirty[a.addr]
			}
			if !capped {
				continue
			}
			n := 0
			for _, tx := range cont.queued[a.addr] {
				if !pre.pending[tx.Hash()] {
					n++
				}
			}
			if uint64(n) > k.AccountQueue {
				return simcore.Violf("account-queue-limit", "account %d has %d queued transactions (not counting those just demoted from pending) after its queue was capped, AccountQueue %d", ai, n, k.AccountQueue)
			}
		}
	}

	// --- (6) lifetime
	evI := legacypool.VerifEvictionInterval()
	life := time.Duration(k.LifetimeS) * time.Second
	now := time.Now()
	for ai, a := range accts {
		if len(cont.queued[a.addr]) == 0 {
			continue
		}
		beat, ok := snap.Beats[a.addr]
		if !ok {
			return simcore.Violf("heartbeat-missing", "account %d has queued transactions but no heartbeat", ai)
		}
		if age := now.Sub(beat); age > life+evI {
			return simcore.Violf("lifetime", "account %d still has %d queued transactions %v after its last heartbeat (Lifetime %v, eviction interval %v)", ai, len(cont.queued[a.addr]), age, life, evI)
		}
	}
	if idle := now.Sub(w.lastStimulus); idle > life+evI && nq > 0 && w.tracker == nil {
		return simcore.Violf("lifetime", "%d transactions still queued %v after the last submission/head/tip change (Lifetime %v)", nq, idle, life)
	}

	// --- probes: what happened
	if op.Kind == "clock" {
		for h := range pre.queued {
			if union[h] == nil {
				res.Probe("lifetime-evicted")
				break
			}
		}
	}
	demoted := false
	for h := range pre.pending {
		if post.queued[h] {
			demoted = true
		}
	}
	if demoted {
		res.Probe("demoted")
	}
	if op.Kind == "add" {
		for h := range pre.pending {
			if union[h] == nil {
				res.Probe("pending-truncated")
				break
			}
		}
		for h := range pre.queued {
			if union[h] == nil {
				res.Probe("queue-truncated")
				break
			}
		}
	}
	if op.Kind == "head" || op.Kind == "reorg" {
		for h := range pre.pending {
			if info.adopted[h] && union[h] == nil {
				res.Probe("included-removed")
				break
			}
		}
		for _, tx := range info.abandoned {
			if !info.adopted[tx.Hash()] && union[tx.Hash()] != nil && !pre.pending[tx.Hash()] && !pre.queued[tx.Hash()] {
				res.Probe("reorg-reinjected")
				break
			}
		}
		if info.newHead != nil {
			for ai := range accts {
				if info.newHead.model[ai].Nonce < pre.model[ai].Nonce {
					res.Probe("state-nonce-went-back")
				}
				if info.newHead.model[ai].Deleg {
					res.Probe("delegated-account")
				}
			}
		}
		// --- (7) adopted transactions are gone from the pool
		for h := range info.adopted {
			if union[h] != nil {
				return simcore.Violf("included-still-pooled", "%x is part of the adopted chain but still in the pool", h[:4])
			}
		}
		if v := w.checkResurrect(op, info, post, union); v != nil {
			return v
		}
	}
	return nil
}

// checkResurrect: a transaction of an abandoned block that is not part of the
// adopted branch must be back in the pool when nothing the pool documents can
// keep it out: it is the sender's next nonce in the new head state, payable,
// above the pool's minimum tip, of an undelegated sender without pending
// authorisations, and the pool had room for every candidate.
func (w *lpWorld) checkResurrect(op *LPOp, info *opInfo, post *before, union map[common.Hash]*types.Transaction) *simcore.Violation {
	if op.Kind != "reorg" || info.newHead == nil || len(info.abandoned) == 0 || info.events != 1 {
		return nil
	}
	k := &w.p.Knobs
	pre := info.pre
	total := pre.snap.AllSlots
	var lost []*types.Transaction
	for _, tx := range info.abandoned {
		total += numSlots(tx)
		if !info.adopted[tx.Hash()] {
			lost = append(lost, tx)
		}
	}
	if uint64(total) > k.GlobalSlots+k.GlobalQueue {
		return nil
	}
	model := info.newHead.model
	gasLimit := info.newHead.block.GasLimit()
	// any set-code transaction around makes the in-flight limits apply in ways
	// that depend on arrival order: stay out of it.
	for _, tx := range info.abandoned {
		if tx.Type() == types.SetCodeTxType {
			return nil
		}
	}
	for _, txs := range [](map[common.Address][]*types.Transaction){pre.cont.pending, pre.cont.queued} {
		for _, l := range txs {
			for _, tx := range l {
				if tx.Type() == types.SetCodeTxType {
					return nil
				}
			}
		}
	}
	for _, tx := range lost {
		from, _ := types.Sender(w.signer, tx)
		ai := w.chain.byAddr[from]
		if model[ai].Deleg || tx.Nonce() != model[ai].Nonce {
			continue
		}
		if tx.Gas() > gasLimit || tx.GasTipCap().Cmp(new(big.Int).SetUint64(w.tip)) < 0 {
			continue
		}
		// the pool admits it only if the balance at the new head covers it on top
		// of what the account already has pending (before the stale ones are dropped)
		need := new(big.Int).Set(tx.Cost())
		for _, ptx := range pre.cont.pending[from] {
			need.Add(need, ptx.Cost())
		}
		if need.Cmp(model[ai].Balance.ToBig()) > 0 {
			continue
		}
		// a different transaction with the same nonce may legitimately hold the slot
		if other, _ := pre.cont.find(from, tx.Nonce()); other != nil && other.Hash() != tx.Hash() {
			continue
		}
		dup := false
		for _, o := range lost {
			if o != tx && o.Nonce() == tx.Nonce() {
				if of, _ := types.Sender(w.signer, o); of == from {
					dup = true
				}
			}
		}
		if dup {
			continue
		}
		w.res.Probe("resurrect-clause-evaluated")
		if union[tx.Hash()] == nil {
			return simcore.Violf("reorg-not-reinjected", "%x (account %d nonce %d, cost %v) was in an abandoned block, is not in the adopted branch, is the sender's next nonce at the new head (balance %v) and the pool had room (%d slots of %d), but it is not in the pool",
				tx.Hash().Bytes()[:4], ai, tx.Nonce(), tx.Cost(), model[ai].Balance, total, k.GlobalSlots+k.GlobalQueue)
		}
		if !post.pending[tx.Hash()] {
			return simcore.Violf("reorg-not-reinjected", "%x (account %d nonce %d) was reinjected after the reorg and is the sender's next nonce, but it is queued, not pending", tx.Hash().Bytes()[:4], ai, tx.Nonce())
		}
	}
	return nil
}

func noncesOf(txs []*types.Transaction) []uint64 {
	var out []uint64
	for _, tx := range txs {
		out = append(out, tx.Nonce())
	}
	return out
}

var _ = sort.Ints
var _ = params.GWei
