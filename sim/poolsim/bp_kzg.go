package poolsim

import (
	"crypto/sha256"
	_ "embed"
	"sync"

	"github.com/ethereum/go-ethereum/common"
	"github.com/ethereum/go-ethereum/crypto/kzg4844"

	"verifsim/simcore"
)

// A small fixed pool of blobs with valid commitments and cell proofs. Computing
// cell proofs costs about a second per blob, so they are pre-computed once
// (TestGenKZG, POOLSIM_GENKZG=1) and embedded; the pool under test verifies them
// with the real KZG code on every Add, a stale file shows up as harness trouble.

const nBlobs = 6

//go:embed testdata/kzg_pool.bin
var kzgPoolBin []byte

type blobItem struct {
	blob   *kzg4844.Blob
	commit kzg4844.Commitment
	proofs []kzg4844.Proof
	vhash  common.Hash
}

var (
	blobOnce sync.Once
	blobPool []*blobItem
)

func makeBlob(i int) *kzg4844.Blob {
	b := new(kzg4844.Blob)
	// field elements must stay below the modulus: keep the top byte of each zero
	for fe := 0; fe < 4096; fe += 97 {
		b[fe*32+1] = byte(i + 1)
		b[fe*32+31] = byte(fe)
	}
	return b
}

const kzgRec = 48 + kzg4844.CellProofsPerBlob*48

func blobs() []*blobItem {
	blobOnce.Do(func() {
		if len(kzgPoolBin) != nBlobs*kzgRec {
			simcore.Harnessf("testdata/kzg_pool.bin has %d bytes, want %d: regenerate with POOLSIM_GENKZG=1", len(kzgPoolBin), nBlobs*kzgRec)
		}
		for i := 0; i < nBlobs; i++ {
			rec := kzgPoolBin[i*kzgRec : (i+1)*kzgRec]
			it := &blobItem{blob: makeBlob(i)}
			copy(it.commit[:], rec[:48])
			for j := 0; j < kzg4844.CellProofsPerBlob; j++ {
				var p kzg4844.Proof
				copy(p[:], rec[48+j*48:])
				it.proofs = append(it.proofs, p)
			}
			it.vhash = kzg4844.CalcBlobHashV1(sha256.New(), &it.commit)
			blobPool = append(blobPool, it)
		}
	})
	return blobPool
}
