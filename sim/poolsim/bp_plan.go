package poolsim

import (
	"encoding/json"

	"verifsim/simcore"
)

// ---------------------------------------------------------------------------
// C42 plan
// ---------------------------------------------------------------------------

type BPAcct struct {
	Nonce   uint64 `json:"nonce"`
	Balance uint64 `json:"balance"`
}

type BPKnobs struct {
	Accts     []BPAcct `json:"accts"`
	DatacapKB int      `json:"datacap_kb"`
	PriceBump uint64   `json:"price_bump"`
	GasTip    uint64   `json:"gas_tip"`
	BaseFee   uint64   `json:"base_fee"` // fee units (x1000 wei)
	ExcessM   int      `json:"excess_m"` // excess blob gas of the genesis header, in 2^20
}

type BPTx struct {
	Acct int `json:"acct"`
	// nonce = state nonce + number of pooled transactions of the account + NonceOff:
	// 0 appends, negative values address an already pooled nonce (replacement),
	// positive values leave a gap.
	NonceOff   int    `json:"nonce_off"`
	Tip        uint64 `json:"tip"`
	FeeCap     uint64 `json:"fee_cap"`
	BlobFeeCap uint64 `json:"blob_fee_cap"`
	Blobs      []int  `json:"blobs"`
	Value      uint64 `json:"value"`
	ValueBal   int    `json:"value_bal,omitempty"` // cost of this transaction ~ balance*ValueBal/100
	Plain      bool   `json:"plain,omitempty"`     // foreign only: a dynamic-fee transaction without blobs
	// replacement: fees = bump thresholds of the replaced transaction + deltas
	Repl  bool `json:"repl,omitempty"`
	TipD  int  `json:"tip_d,omitempty"`
	CapD  int  `json:"cap_d,omitempty"`
	BlobD int  `json:"blob_d,omitempty"`
	Boost int  `json:"boost,omitempty"` // replacement: all three fees additionally multiplied by 1+Boost
}

type BPBlock struct {
	Include    []int     `json:"include,omitempty"`
	KeepOld    uint64    `json:"keep_old,omitempty"`
	Foreign    []BPTx    `json:"foreign,omitempty"`
	ForeignPre bool      `json:"foreign_pre,omitempty"`
	Credit     []BalEdit `json:"credit,omitempty"` // balance increases
	BaseFee    uint64    `json:"base_fee"`
	ExcessM    int       `json:"excess_m"`
	GasUsedPct int       `json:"gas_used_pct"`
}

type BPOp struct {
	Kind     string    `json:"kind"` // add | head | reorg | tip | restart
	Txs      []BPTx    `json:"txs,omitempty"`
	Blocks   []BPBlock `json:"blocks,omitempty"`
	Depth    int       `json:"depth,omitempty"`
	FinalAdv int       `json:"final_adv,omitempty"` // head/reorg: the finalized block advances by this many blocks (never past the new head)
	Tip      uint64    `json:"tip,omitempty"`
	// Crash: the data directory is imaged after the ImageAt-th store event (Put or
	// Delete on either billy store) of this operation, or at its end if it has
	// fewer; after the operation the pool is abandoned without Close and a new
	// pool is opened on the image. ImageAt 0 = no crash.
	ImageAt int `json:"image_at,omitempty"`
	// FailPut: the FailPut-th Put into the queue store during this operation
	// returns an I/O error (0 = none).
	FailPut int `json:"fail_put,omitempty"`
}

type BPPlan struct {
	Knobs BPKnobs `json:"knobs"`
	Ops   []BPOp  `json:"ops"`
}

func genBPTx(r *simcore.Rand, k *BPKnobs, serial *uint64, foreign bool) BPTx {
	*serial++
	t := BPTx{Acct: r.Intn(len(k.Accts))}
	t.NonceOff = []int{0, 0, 0, 0, 0, 0, -1, -1, -2, -2, -3, 1, 2}[r.Intn(13)]
	base := int(k.BaseFee)
	switch r.Pick(2, 5, 2) {
	case 0:
		t.Tip = uint64(max(0, int(k.GasTip/1000)+r.Range(-1, 1)))
	case 1:
		t.Tip = uint64(r.Range(1, 30))
	default:
		t.Tip = uint64(r.Range(20, 300))
	}
	switch r.Pick(3, 3, 3) {
	case 0: // far above the base fee
		t.FeeCap = t.Tip + uint64(base*r.Range(2, 20))
	case 1: // around it
		t.FeeCap = t.Tip + uint64(max(1, base+r.Range(-base/2, base)))
	default: // below: negative priority
		t.FeeCap = t.Tip + uint64(r.Range(0, max(1, base/2)))
	}
	t.Tip = t.Tip*1000 + *serial%1000
	t.FeeCap = t.FeeCap*1000 + *serial%1000
	switch r.Pick(3, 4, 2) {
	case 0:
		t.BlobFeeCap = uint64(r.Range(1, 8))
	case 1:
		t.BlobFeeCap = uint64(r.Range(5, 200))
	default:
		t.BlobFeeCap = uint64(r.Range(100, 5000))
	}
	nb := r.Pick(14, 3, 1) + 1
	for i := 0; i < nb; i++ {
		t.Blobs = append(t.Blobs, r.Intn(nBlobs))
	}
	switch r.Pick(6, 3, 1) {
	case 0:
		t.Value = uint64(r.Range(0, 1000))
	case 1:
		t.ValueBal = r.Range(10, 60)
	default:
		t.ValueBal = r.Range(95, 103)
	}
	if foreign {
		t.NonceOff = 0
		t.Plain = r.Bool(0.5)
		return t
	}
	if t.NonceOff < 0 || r.Bool(0.1) {
		t.Repl = true
		t.TipD, t.CapD, t.BlobD = r.Range(-1, 1), r.Range(-1, 1), r.Range(-1, 1)
		if r.Bool(0.6) {
			t.TipD, t.CapD, t.BlobD = r.Range(0, 2000), r.Range(0, 2000), r.Range(0, 50)
			// a replacement that lifts the account out of its priority bucket
			t.Boost = []int{0, 0, 1, 3, 9, 30}[r.Intn(6)]
		}
	}
	return t
}

func genBPBlock(r *simcore.Rand, k *BPKnobs, serial *uint64, reorg bool) BPBlock {
	n := len(k.Accts)
	b := BPBlock{GasUsedPct: r.Range(0, 100)}
	switch r.Pick(3, 3, 2) {
	case 0:
		b.BaseFee = k.BaseFee
	case 1:
		b.BaseFee = uint64(max(1, int(k.BaseFee)*r.Range(1, 30)/10))
	default:
		b.BaseFee = uint64(r.Range(1, 500))
	}
	switch r.Pick(3, 2, 2) {
	case 0:
		b.ExcessM = k.ExcessM
	case 1:
		b.ExcessM = r.Range(0, 12)
	default:
		b.ExcessM = r.Range(0, 40)
	}
	b.Include = make([]int, n)
	for i := range b.Include {
		if r.Bool(0.55) {
			b.Include[i] = r.Range(1, 3)
		}
	}
	if reorg {
		b.KeepOld = r.Uint64()
		if r.Bool(0.3) {
			b.KeepOld = 0
		}
	}
	nf := r.Pick(7, 2, 1)
	for i := 0; i < nf; i++ {
		b.Foreign = append(b.Foreign, genBPTx(r, k, serial, true))
	}
	b.ForeignPre = r.Bool(0.5)
	if r.Bool(0.3) {
		b.Credit = append(b.Credit, BalEdit{Acct: r.Intn(n), Balance: uint64(r.Range(1, 50)) * 1_000_000_000})
	}
	return b
}

func genBP(r *simcore.Rand, tier string) any {
	p := &BPPlan{}
	k := &p.Knobs
	na := r.Range(3, 5)
	for i := 0; i < na; i++ {
		a := BPAcct{}
		switch r.Pick(3, 2, 2) {
		case 0:
		case 1:
			a.Nonce = uint64(r.Range(1, 8))
		default:
			a.Nonce = uint64(r.Range(9, 120)) // large enough for the gapped-transaction allowance
		}
		switch r.Pick(1, 3, 4) {
		case 0:
			a.Balance = uint64(r.Range(0, 500_000_000))
		case 1:
			a.Balance = uint64(r.Range(1, 60)) * 1_000_000_000
		default:
			a.Balance = uint64(r.Range(1, 100)) * 100_000_000_000
		}
		k.Accts = append(k.Accts, a)
	}
	k.DatacapKB = []int{300, 600, 900, 1500, 2500, 4000}[r.Intn(6)]
	k.PriceBump = uint64([]int{100, 100, 50, 10}[r.Intn(4)])
	k.GasTip = uint64([]int{1, 1000, 3000}[r.Intn(3)])
	k.BaseFee = uint64(r.Range(2, 40))
	k.ExcessM = r.Range(0, 20)

	var serial uint64
	nops := r.Range(5, 16)
	// Eviction-order scenario (40% of the runs): every account first pools a
	// bottleneck transaction whose fee cap is some way below the base fee (a
	// negative priority bucket of its own) followed by a well priced one, so the
	// eviction heap holds several multi-transaction accounts in different buckets;
	// the random part then contains replacements of the bottlenecks that lift an
	// account out of its bucket, and further adds that overflow the pool.
	scenario := r.Bool(0.4)
	if scenario {
		k.GasTip = 1
		k.DatacapKB = []int{900, 1500, 2500, 4000}[r.Intn(4)]
		for i := range k.Accts {
			k.Accts[i].Balance = uint64(r.Range(20, 100)) * 100_000_000_000
			low := BPTx{Acct: i, Blobs: []int{r.Intn(nBlobs)}, Value: uint64(r.Range(0, 500))}
			serial++
			capUnits := max(2, int(k.BaseFee)*r.Range(3, 70)/100)
			low.FeeCap = uint64(capUnits)*1000 + serial%1000
			low.Tip = uint64(r.Range(1, capUnits))*1000 + serial%1000
			low.BlobFeeCap = uint64(r.Range(200, 5000))
			good := genBPTx(r, k, &serial, false)
			good.Acct, good.NonceOff, good.Repl, good.ValueBal = i, 0, false, 0
			good.FeeCap = (uint64(k.BaseFee)*uint64(r.Range(2, 20))+uint64(r.Range(20, 300)))*1000 + serial%1000
			good.Tip = uint64(r.Range(20, 300))*1000 + serial%1000
			good.BlobFeeCap = uint64(r.Range(200, 5000))
			good.Blobs = good.Blobs[:1]
			p.Ops = append(p.Ops, BPOp{Kind: "add", Txs: []BPTx{low, good}})
		}
	}
	for i := 0; i < nops; i++ {
		var op BPOp
		if scenario && r.Bool(0.3) {
			// replace an account's oldest pooled transaction (its bottleneck) by a much better priced one
			serial++
			t := genBPTx(r, k, &serial, false)
			t.NonceOff, t.Repl, t.ValueBal = -r.Range(2, 3), true, 0
			t.TipD, t.CapD, t.BlobD = r.Range(0, 2000), r.Range(0, 2000), r.Range(0, 50)
			t.Boost = []int{3, 9, 30, 100}[r.Intn(4)]
			p.Ops = append(p.Ops, BPOp{Kind: "add", Txs: []BPTx{t}})
			continue
		}
		switch r.Pick(45, 18, 14, 4, 8) {
		case 0:
			op.Kind = "add"
			nt := r.Pick(6, 3, 1) + 1
			for j := 0; j < nt; j++ {
				op.Txs = append(op.Txs, genBPTx(r, k, &serial, false))
			}
			if r.Bool(0.06) {
				op.FailPut = r.Range(1, nt)
			}
		case 1:
			op.Kind = "head"
			nb := r.Pick(6, 2) + 1
			for j := 0; j < nb; j++ {
				op.Blocks = append(op.Blocks, genBPBlock(r, k, &serial, false))
			}
			op.FinalAdv = r.Pick(7, 2, 1)
		case 2:
			op.Kind = "reorg"
			op.Depth = r.Pick(6, 3) + 1
			nb := op.Depth + r.Pick(2, 5, 2) - 1
			for j := 0; j < nb; j++ {
				op.Blocks = append(op.Blocks, genBPBlock(r, k, &serial, true))
			}
			op.FinalAdv = r.Pick(8, 1, 1)
		case 3:
			op.Kind = "tip"
			op.Tip = uint64([]int{1, 1000, 3000, 10000, 50000}[r.Intn(5)]) + uint64(r.Intn(3))
		default:
			op.Kind = "restart"
			if r.Bool(0.5) {
				op.ImageAt = 1
			}
		}
		// crash inside an operation: mostly after its first store events (an Add has
		// one to three, a reset up to a dozen)
		pc := 0.10
		if op.Kind == "head" || op.Kind == "reorg" {
			pc = 0.30
		}
		if op.Kind != "restart" && op.Kind != "tip" && r.Bool(pc) {
			op.ImageAt = []int{1, 1, 1, 2, 2, 3, 4, 6}[r.Intn(8)]
		}
		p.Ops = append(p.Ops, op)
	}
	return p
}

func decodeBP(b []byte) (any, error) {
	p := &BPPlan{}
	err := json.Unmarshal(b, p)
	return p, err
}

func cloneBP(p *BPPlan) *BPPlan {
	b, _ := json.Marshal(p)
	q := &BPPlan{}
	json.Unmarshal(b, q)
	return q
}

func shrinkBP(pl any) []any {
	p := pl.(*BPPlan)
	var out []any
	for _, ops := range simcore.ShrinkSlice(p.Ops) {
		q := cloneBP(p)
		q.Ops = append([]BPOp{}, ops...)
		out = append(out, cloneBP(q))
	}
	for i, op := range p.Ops {
		if len(op.Txs) > 1 {
			for j := range op.Txs {
				q := cloneBP(p)
				q.Ops[i].Txs = append(append([]BPTx{}, op.Txs[:j]...), op.Txs[j+1:]...)
				out = append(out, q)
			}
		}
		if len(op.Blocks) > 1 {
			q := cloneBP(p)
			q.Ops[i].Blocks = q.Ops[i].Blocks[:len(op.Blocks)-1]
			out = append(out, q)
		}
		for j, b := range op.Blocks {
			if len(b.Foreign) > 0 || len(b.Credit) > 0 {
				q := cloneBP(p)
				q.Ops[i].Blocks[j].Foreign, q.Ops[i].Blocks[j].Credit = nil, nil
				out = append(out, q)
			}
		}
		if op.ImageAt > 1 {
			q := cloneBP(p)
			q.Ops[i].ImageAt = op.ImageAt - 1
			out = append(out, q)
		}
		if op.ImageAt > 0 && i != len(p.Ops)-1 {
			q := cloneBP(p)
			q.Ops[i].ImageAt = 0
			out = append(out, q)
		}
		if op.FailPut > 0 {
			q := cloneBP(p)
			q.Ops[i].FailPut = 0
			out = append(out, q)
		}
		if len(out) > 300 {
			break
		}
	}
	return out
}
