package poolsim

import (
	"encoding/json"

	"verifsim/simcore"
)

// ---------------------------------------------------------------------------
// C41 plan: explicit knobs + operations. Values that refer to the live world
// (nonce offsets, "the k first pending transactions of account i", replacement
// fees derived from the transaction being replaced) are resolved at run time by
// deterministic rules from the harness' own model, so a plan replays without
// the generator.
// ---------------------------------------------------------------------------

type LPAcct struct {
	Nonce   uint64 `json:"nonce"`
	Balance uint64 `json:"balance"`
	Deleg   bool   `json:"deleg,omitempty"`
	Local   bool   `json:"local,omitempty"` // submissions go through the locals tracker as well
}

type LPKnobs struct {
	Accts        []LPAcct `json:"accts"`
	GlobalSlots  uint64   `json:"global_slots"`
	AccountSlots uint64   `json:"account_slots"`
	GlobalQueue  uint64   `json:"global_queue"`
	AccountQueue uint64   `json:"account_queue"`
	PriceLimit   uint64   `json:"price_limit"`
	PriceBump    uint64   `json:"price_bump"`
	LifetimeS    int      `json:"lifetime_s"`
	GasLimit     uint64   `json:"gas_limit"`
	BaseFee      uint64   `json:"base_fee"`
	Tracker      bool     `json:"tracker"` // run the real locals.TxTracker (resubmission loop, journal rotation)
	Async        bool     `json:"async"`   // asynchronous configuration: concurrent adds/heads, gated chain seam
}

type AuthSpec struct {
	Acct     int  `json:"acct"`
	NonceOff int  `json:"nonce_off"` // relative to the authority's state nonce
	Clear    bool `json:"clear,omitempty"`
}

type TxSpec struct {
	Acct     int        `json:"acct"`
	NonceOff int        `json:"nonce_off"` // nonce = state nonce at the current head + NonceOff (clamped at 0)
	Type     int        `json:"type"`      // 0 legacy, 1 access list, 2 dynamic fee, 3 set code
	Tip      uint64     `json:"tip"`
	FeeCap   uint64     `json:"fee_cap"`
	Gas      uint64     `json:"gas"`       // 0 = exactly what the transaction needs
	GasDelta int        `json:"gas_delta"` // added to the needed gas when Gas == 0
	Value    uint64     `json:"value"`
	ValueBal int        `json:"value_bal,omitempty"` // if != 0: value = balance*ValueBal/100 - worst-case fee (around the balance)
	Data     int        `json:"data,omitempty"`      // bytes of calldata
	Auths    []AuthSpec `json:"auths,omitempty"`
	// Replacement mode: if the pool holds a transaction of this account at the
	// resolved nonce, fees are the bump thresholds of that one plus the deltas.
	Repl     bool `json:"repl,omitempty"`
	TipDelta int  `json:"tip_delta,omitempty"`
	CapDelta int  `json:"cap_delta,omitempty"`
}

type BalEdit struct {
	Acct    int    `json:"acct"`
	Balance uint64 `json:"balance"`
}

type BlockSpec struct {
	Include    []int     `json:"include,omitempty"`     // per account: how many of its pool-pending transactions to include
	KeepOld    uint64    `json:"keep_old,omitempty"`    // reorg: bit i set = candidate i of the abandoned branch's transactions is re-included
	Foreign    []TxSpec  `json:"foreign,omitempty"`     // transactions the pool never saw
	ForeignPre bool      `json:"foreign_pre,omitempty"` // foreign transactions go before the pool's (they win same-nonce conflicts)
	Edits      []BalEdit `json:"edits,omitempty"`
	BaseFee    uint64    `json:"base_fee"`
	GasLimit   uint64    `json:"gas_limit,omitempty"`
	GasUsedPct int       `json:"gas_used_pct"`
}

type LPOp struct {
	Kind   string      `json:"kind"` // add | tip | head | reorg | clock
	Txs    []TxSpec    `json:"txs,omitempty"`
	Tip    uint64      `json:"tip,omitempty"`
	Blocks []BlockSpec `json:"blocks,omitempty"`
	Depth  int         `json:"depth,omitempty"`  // reorg: how many blocks of the current branch are abandoned
	Events int         `json:"events,omitempty"` // head/reorg: 0 = one event for the final head, 1 = one event per block
	Ms     int64       `json:"ms,omitempty"`     // clock advance
}

type LPPlan struct {
	Knobs LPKnobs  `json:"knobs"`
	Ops   []LPOp   `json:"ops"`
	Tape  []uint16 `json:"tape,omitempty"`
}

func genFees(r *simcore.Rand, k *LPKnobs, serial *uint64) (tip, cap uint64) {
	// fees around the pool minimum and the base fee; the low digits are a serial
	// number so that two transactions never tie on price (ties make the pool's
	// eviction choice depend on Go map order).
	*serial++
	base := k.BaseFee
	switch r.Pick(2, 5, 2, 1) {
	case 0: // around the price limit
		tip = uint64(max(0, int(k.PriceLimit/1000)+r.Range(-1, 1)))
	case 1:
		tip = uint64(r.Range(1, 40))
	case 2:
		tip = uint64(r.Range(30, 400))
	default:
		tip = 0
	}
	switch r.Pick(5, 3, 1) {
	case 0:
		cap = tip + uint64(r.Range(0, int(base)*2+10))
	case 1:
		cap = tip
	default:
		if tip > 0 {
			cap = tip - 1 // tip above fee cap: must be rejected
		}
	}
	tip = tip*1000 + *serial%1000
	cap = cap*1000 + *serial%1000
	return
}

func genTx(r *simcore.Rand, k *LPKnobs, serial *uint64, foreign bool) TxSpec {
	n := len(k.Accts)
	t := TxSpec{Acct: r.Intn(n)}
	t.NonceOff = []int{-1, 0, 0, 0, 0, 1, 1, 1, 2, 2, 3, 4, 5, 6}[r.Intn(14)]
	t.Type = r.Pick(3, 1, 5, 1)
	t.Tip, t.FeeCap = genFees(r, k, serial)
	switch r.Pick(12, 2, 1, 1) {
	case 0:
		t.GasDelta = 0
	case 1:
		t.GasDelta = r.Range(1, 30000)
	case 2:
		t.GasDelta = -r.Range(1, 200) // below intrinsic gas
	default:
		t.Gas = k.GasLimit + uint64(r.Range(0, 2)) - 1 // around the block gas limit
	}
	switch r.Pick(6, 3, 2) {
	case 0:
		t.Value = uint64(r.Range(0, 1000))
	case 1:
		t.ValueBal = r.Range(20, 99)
	default:
		t.ValueBal = r.Range(99, 103)
	}
	switch r.Pick(30, 3, 1, 1) {
	case 0:
	case 1:
		t.Data = r.Range(1, 300)
	case 2:
		t.Data = r.Range(33, 70) * 1024 // 2-3 slots
	default:
		t.Data = 128*1024 - 200 + r.Range(0, 400) // around the 128 KiB limit
	}
	if t.Type == 3 {
		na := r.Range(0, 2)
		if na == 0 && r.Bool(0.8) {
			na = 1
		}
		for i := 0; i < na; i++ {
			t.Auths = append(t.Auths, AuthSpec{Acct: r.Intn(n), NonceOff: r.Pick(6, 2, 1), Clear: r.Bool(0.2)})
		}
	}
	if !foreign && r.Bool(0.3) {
		t.Repl = true
		t.TipDelta = r.Range(-1, 1)
		t.CapDelta = r.Range(-1, 1)
		if r.Bool(0.25) {
			t.TipDelta += r.Range(0, 3000)
			t.CapDelta += r.Range(0, 3000)
		}
	}
	return t
}

func genBlock(r *simcore.Rand, k *LPKnobs, serial *uint64, reorg bool) BlockSpec {
	n := len(k.Accts)
	b := BlockSpec{GasUsedPct: r.Range(0, 100)}
	switch r.Pick(3, 2, 1) {
	case 0:
		b.BaseFee = k.BaseFee
	case 1:
		b.BaseFee = uint64(r.Range(1, 60))
	default:
		b.BaseFee = uint64(r.Range(1, 400))
	}
	if r.Bool(0.15) {
		b.GasLimit = k.GasLimit/2 + uint64(r.Intn(int(k.GasLimit)))
	}
	b.Include = make([]int, n)
	for i := range b.Include {
		if r.Bool(0.55) {
			b.Include[i] = r.Range(1, 4)
		}
	}
	if reorg {
		b.KeepOld = r.Uint64()
		if r.Bool(0.2) {
			b.KeepOld = 0
		} else if r.Bool(0.2) {
			b.KeepOld = ^uint64(0)
		}
	}
	nf := r.Pick(6, 3, 1)
	for i := 0; i < nf; i++ {
		f := genTx(r, k, serial, true)
		f.NonceOff = 0
		if r.Bool(0.8) {
			f.GasDelta, f.Gas = 0, 0
			f.Data = 0
		}
		b.Foreign = append(b.Foreign, f)
	}
	b.ForeignPre = r.Bool(0.5)
	ne := r.Pick(5, 3, 1)
	for i := 0; i < ne; i++ {
		var bal uint64
		switch r.Pick(2, 3, 2) {
		case 0:
			bal = uint64(r.Range(0, 50_000_000))
		case 1:
			bal = uint64(r.Range(0, 60)) * 100_000_000
		default:
			bal = uint64(r.Range(1, 100)) * 10_000_000_000
		}
		b.Edits = append(b.Edits, BalEdit{Acct: r.Intn(n), Balance: bal})
	}
	return b
}

func genLP(r *simcore.Rand, tier string) any {
	p := &LPPlan{}
	k := &p.Knobs
	na := r.Range(3, 6)
	for i := 0; i < na; i++ {
		a := LPAcct{}
		if r.Bool(0.4) {
			a.Nonce = uint64(r.Range(1, 12))
		}
		switch r.Pick(1, 3, 4) {
		case 0:
			a.Balance = uint64(r.Range(0, 50_000_000))
		case 1:
			a.Balance = uint64(r.Range(1, 60)) * 100_000_000
		default:
			a.Balance = uint64(r.Range(1, 100)) * 10_000_000_000
		}
		a.Deleg = r.Bool(0.12)
		k.Accts = append(k.Accts, a)
	}
	k.GlobalSlots = uint64(r.Range(4, 16))
	k.AccountSlots = uint64(r.Range(1, 4))
	k.GlobalQueue = uint64(r.Range(2, 12))
	k.AccountQueue = uint64(r.Range(1, 5))
	k.PriceLimit = uint64([]int{1, 1000, 5000, 20000}[r.Intn(4)])
	k.PriceBump = uint64([]int{10, 10, 1, 25, 100}[r.Intn(5)])
	k.LifetimeS = []int{90, 300, 600, 3600}[r.Intn(4)]
	k.GasLimit = uint64([]int{300_000, 1_000_000, 8_000_000, 30_000_000}[r.Intn(4)])
	k.BaseFee = uint64(r.Range(1, 30))
	k.Tracker = r.Bool(0.3)
	if k.Tracker {
		for i := range k.Accts {
			k.Accts[i].Local = r.Bool(0.4)
		}
	}
	k.Async = r.Bool(0.25)

	var serial uint64
	nops := r.Range(8, 60)
	if tier == "thorough" && r.Bool(0.2) {
		nops = r.Range(40, 60)
	}
	for i := 0; i < nops; i++ {
		var op LPOp
		switch r.Pick(60, 5, 14, 8, 9) {
		case 0:
			op.Kind = "add"
			nt := 1
			if r.Bool(0.3) {
				nt = r.Range(2, 6)
			}
			var burst *TxSpec
			for j := 0; j < nt; j++ {
				t := genTx(r, k, &serial, false)
				// bursts from one account with consecutive nonces fill pending lists
				if burst != nil && r.Bool(0.6) {
					t.Acct, t.NonceOff, t.Repl = burst.Acct, burst.NonceOff+1, false
					t.Data, t.Gas, t.GasDelta, t.ValueBal = 0, 0, 0, 0
				}
				op.Txs = append(op.Txs, t)
				burst = &op.Txs[len(op.Txs)-1]
			}
		case 1:
			op.Kind = "tip"
			op.Tip = uint64([]int{1, 1000, 2000, 5000, 20000, 100000}[r.Intn(6)]) + uint64(r.Intn(3))
		case 2:
			op.Kind = "head"
			nb := r.Pick(6, 2, 1) + 1
			for j := 0; j < nb; j++ {
				op.Blocks = append(op.Blocks, genBlock(r, k, &serial, false))
			}
			op.Events = r.Pick(2, 1)
		case 3:
			op.Kind = "reorg"
			op.Depth = r.Pick(5, 3, 1) + 1
			nb := op.Depth + r.Pick(2, 5, 2) - 1
			if nb < 0 {
				nb = 0
			}
			for j := 0; j < nb; j++ {
				op.Blocks = append(op.Blocks, genBlock(r, k, &serial, true))
			}
			op.Events = r.Pick(3, 1)
		default:
			op.Kind = "clock"
			switch r.Pick(3, 3, 2) {
			case 0:
				op.Ms = int64(r.Range(1, 59_000))
			case 1:
				op.Ms = int64(r.Range(60, 600)) * 1000
			default:
				op.Ms = int64(k.LifetimeS)*1000 + int64(r.Range(-61_000, 130_000))
				if op.Ms < 1 {
					op.Ms = 1
				}
			}
		}
		p.Ops = append(p.Ops, op)
	}
	if k.Async {
		p.Tape = r.Tape(600)
	}
	return p
}

func decodeLP(b []byte) (any, error) {
	p := &LPPlan{}
	err := json.Unmarshal(b, p)
	return p, err
}

func cloneLP(p *LPPlan) *LPPlan {
	b, _ := json.Marshal(p)
	q := &LPPlan{}
	json.Unmarshal(b, q)
	return q
}

func shrinkLP(pl any) []any {
	p := pl.(*LPPlan)
	var out []any
	for _, ops := range simcore.ShrinkSlice(p.Ops) {
		q := cloneLP(p)
		q.Ops = append([]LPOp{}, ops...)
		out = append(out, cloneLP(q))
	}
	if p.Knobs.Async {
		q := cloneLP(p)
		q.Knobs.Async = false
		q.Tape = nil
		out = append(out, q)
	}
	if p.Knobs.Tracker {
		q := cloneLP(p)
		q.Knobs.Tracker = false
		out = append(out, q)
	}
	// simplify single operations: batches to single transactions, multi-block to one block
	for i, op := range p.Ops {
		if len(op.Txs) > 1 {
			for j := range op.Txs {
				q := cloneLP(p)
				q.Ops[i].Txs = append(append([]TxSpec{}, op.Txs[:j]...), op.Txs[j+1:]...)
				out = append(out, q)
			}
		}
		if len(op.Blocks) > 1 {
			q := cloneLP(p)
			q.Ops[i].Blocks = q.Ops[i].Blocks[:len(op.Blocks)-1]
			if q.Ops[i].Depth > len(q.Ops[i].Blocks)+1 {
				q.Ops[i].Depth = len(q.Ops[i].Blocks) + 1
			}
			out = append(out, q)
		}
		for j, b := range op.Blocks {
			if len(b.Foreign) > 0 || len(b.Edits) > 0 {
				q := cloneLP(p)
				q.Ops[i].Blocks[j].Foreign = nil
				q.Ops[i].Blocks[j].Edits = nil
				out = append(out, q)
			}
		}
		if len(out) > 400 {
			break
		}
	}
	for _, t := range simcore.ShrinkTape(p.Tape) {
		q := cloneLP(p)
		q.Tape = t
		out = append(out, q)
	}
	return out
}
