package poolsim

import (
	"crypto/ecdsa"
	"encoding/binary"
	"math/big"
	"sync"

	"github.com/ethereum/go-ethereum/common"
	"github.com/ethereum/go-ethereum/core"
	"github.com/ethereum/go-ethereum/core/state"
	"github.com/ethereum/go-ethereum/core/tracing"
	"github.com/ethereum/go-ethereum/core/types"
	"github.com/ethereum/go-ethereum/crypto"
	"github.com/ethereum/go-ethereum/event"
	"github.com/ethereum/go-ethereum/params"
	"github.com/ethereum/go-ethereum/trie"
	"github.com/holiman/uint256"

	"verifsim/simcore"
)

// ---------------------------------------------------------------------------
// Simulated chain: the seam behind legacypool.BlockChain / txpool.BlockChain /
// blobpool.BlockChain. A tree of blocks whose states are real state.StateDBs on
// an in-memory database; the harness keeps a plain model of the planned accounts
// next to every block so that the oracles never ask the code under test what the
// chain state is.
// ---------------------------------------------------------------------------

type account struct {
	key  *ecdsa.PrivateKey
	addr common.Address
}

var (
	acctOnce sync.Once
	acctPool []*account
)

// accounts returns n deterministic accounts (same keys in every process).
func accounts(n int) []*account {
	acctOnce.Do(func() {
		for i := 0; i < 16; i++ {
			var seed [8]byte
			binary.BigEndian.PutUint64(seed[:], uint64(0x706f6f6c73696d00)+uint64(i))
			k, err := crypto.ToECDSA(crypto.Keccak256(seed[:]))
			if err != nil {
				simcore.Harnessf("account key: %v", err)
			}
			acctPool = append(acctPool, &account{key: k, addr: crypto.PubkeyToAddress(k.PublicKey)})
		}
	})
	return acctPool[:n]
}

// acctModel is the harness' own record of one planned account at one block.
type acctModel struct {
	Nonce   uint64
	Balance *uint256.Int
	Deleg   bool
}

type simBlock struct {
	block   *types.Block
	parent  *simBlock
	model   []acctModel // indexed by planned account
	credits []BalEdit   // balance credits applied in this block (blob pool runs)
}

func (b *simBlock) number() uint64 { return b.block.NumberU64() }

func copyModel(m []acctModel) []acctModel {
	out := make([]acctModel, len(m))
	for i := range m {
		out[i] = acctModel{Nonce: m[i].Nonce, Balance: new(uint256.Int).Set(m[i].Balance), Deleg: m[i].Deleg}
	}
	return out
}

type simChain struct {
	mu      sync.Mutex
	cfg     *params.ChainConfig
	sdb     state.Database
	blocks  map[common.Hash]*simBlock
	genesis *simBlock
	head    *simBlock
	final   *simBlock
	feed    event.Feed
	accts   []*account
	byAddr  map[common.Address]int
	salt    uint64

	// gate, if set, is called at the entry of every seam method the pools use
	// (asynchronous configuration: the tape orders these against other actors).
	gate func(label string)
	// seam call counters (evidence)
	calls map[string]int
}

func chainConfig() *params.ChainConfig {
	cpy := *params.MergedTestChainConfig
	return &cpy
}

var delegTarget = common.HexToAddress("0x00000000000000000000000000000000000042aa")
var sinkAddr = common.HexToAddress("0x000000000000000000000000000000000000d00d")

// newSimChain builds the genesis block with the planned accounts.
func newSimChain(accts []*account, init []acctModel, gasLimit, baseFee, excessBlobGas uint64) *simChain {
	c := &simChain{
		cfg:    chainConfig(),
		sdb:    state.NewDatabaseForTesting(),
		blocks: make(map[common.Hash]*simBlock),
		accts:  accts,
		byAddr: make(map[common.Address]int),
		calls:  make(map[string]int),
	}
	for i, a := range accts {
		c.byAddr[a.addr] = i
	}
	st, err := state.New(types.EmptyRootHash, c.sdb)
	if err != nil {
		simcore.Harnessf("genesis state: %v", err)
	}
	model := copyModel(init)
	for i, a := range accts {
		st.SetNonce(a.addr, model[i].Nonce, tracing.NonceChangeUnspecified)
		st.SetBalance(a.addr, model[i].Balance, tracing.BalanceChangeUnspecified)
		if model[i].Deleg {
			st.SetCode(a.addr, types.AddressToDelegation(delegTarget), tracing.CodeChangeUnspecified)
		}
	}
	root, err := st.Commit(c.cfg.Rules(common.Big0, true, 0), 0)
	if err != nil {
		simcore.Harnessf("genesis commit: %v", err)
	}
	var zero uint64
	excess := excessBlobGas
	h := &types.Header{
		Number: big.NewInt(0), GasLimit: gasLimit, GasUsed: gasLimit / 2, Time: 0,
		BaseFee: new(big.Int).SetUint64(baseFee), Difficulty: new(big.Int), Root: root,
		ExcessBlobGas: &excess, BlobGasUsed: &zero,
	}
	g := &simBlock{block: types.NewBlock(h, nil, nil, trie.NewStackTrie(nil)), model: model}
	c.blocks[g.block.Hash()] = g
	c.genesis, c.head, c.final = g, g, g
	return c
}

// blockEnv are the header knobs of a block to build.
type blockEnv struct {
	GasLimit      uint64
	GasUsedPct    int
	BaseFee       uint64
	ExcessBlobGas uint64
}

// applyTx applies the chain-level effect of an included transaction to the
// working model (no EVM: nonce bump, worst-case cost, 7702 delegations). It
// returns false (and changes nothing) if the transaction cannot be part of a
// valid block on top of the working state.
func (c *simChain) applyTx(work []acctModel, tx *types.Transaction, signer types.Signer) bool {
	from, err := types.Sender(signer, tx)
	if err != nil {
		return false
	}
	i, ok := c.byAddr[from]
	if !ok {
		return false
	}
	if tx.Nonce() != work[i].Nonce {
		return false
	}
	cost, of := uint256.FromBig(tx.Cost())
	if of || work[i].Balance.Cmp(cost) < 0 {
		return false
	}
	work[i].Nonce++
	work[i].Balance = new(uint256.Int).Sub(work[i].Balance, cost)
	for _, auth := range tx.SetCodeAuthorizations() {
		a, err := auth.Authority()
		if err != nil {
			continue
		}
		j, ok := c.byAddr[a]
		if !ok || auth.Nonce != work[j].Nonce {
			continue
		}
		work[j].Nonce++
		work[j].Deleg = auth.Address != (common.Address{})
	}
	return true
}

// build creates (but does not adopt) a child of parent containing those of the
// candidate transactions that are valid in order, then the balance edits.
func (c *simChain) build(parent *simBlock, cands []*types.Transaction, edits []BalEdit, env blockEnv) *simBlock {
	return c.buildX(parent, cands, edits, false, env)
}

// buildCredit is build with edits that add to the balance instead of setting it.
func (c *simChain) buildCredit(parent *simBlock, cands []*types.Transaction, credits []BalEdit, env blockEnv) *simBlock {
	return c.buildX(parent, cands, credits, true, env)
}

func (c *simChain) buildX(parent *simBlock, cands []*types.Transaction, edits []BalEdit, credit bool, env blockEnv) *simBlock {
	c.mu.Lock()
	defer c.mu.Unlock()

	signer := types.LatestSigner(c.cfg)
	work := copyModel(parent.model)
	var txs []*types.Transaction
	seen := map[common.Hash]bool{}
	for _, tx := range cands {
		if seen[tx.Hash()] {
			continue
		}
		if c.applyTx(work, tx, signer) {
			seen[tx.Hash()] = true
			txs = append(txs, tx)
		}
	}
	for _, e := range edits {
		if e.Acct >= 0 && e.Acct < len(work) {
			if credit {
				work[e.Acct].Balance = new(uint256.Int).Add(work[e.Acct].Balance, uint256.NewInt(e.Balance))
			} else {
				work[e.Acct].Balance = uint256.NewInt(e.Balance)
			}
		}
	}
	st, err := state.New(parent.block.Root(), c.sdb)
	if err != nil {
		simcore.Harnessf("state at parent: %v", err)
	}
	for i, a := range c.accts {
		old := parent.model[i]
		if old.Nonce != work[i].Nonce {
			st.SetNonce(a.addr, work[i].Nonce, tracing.NonceChangeUnspecified)
		}
		if !old.Balance.Eq(work[i].Balance) {
			st.SetBalance(a.addr, work[i].Balance, tracing.BalanceChangeUnspecified)
		}
		if old.Deleg != work[i].Deleg {
			if work[i].Deleg {
				st.SetCode(a.addr, types.AddressToDelegation(delegTarget), tracing.CodeChangeUnspecified)
			} else {
				st.SetCode(a.addr, nil, tracing.CodeChangeUnspecified)
			}
		}
	}
	num := parent.number() + 1
	tm := parent.block.Time() + 12
	root, err := st.Commit(c.cfg.Rules(new(big.Int).SetUint64(num), true, tm), num)
	if err != nil {
		simcore.Harnessf("commit block %d: %v", num, err)
	}
	c.salt++
	var extra [8]byte
	binary.BigEndian.PutUint64(extra[:], c.salt)
	gl := env.GasLimit
	if gl == 0 {
		gl = parent.block.GasLimit()
	}
	ebg := env.ExcessBlobGas
	var bgu uint64
	h := &types.Header{
		ParentHash: parent.block.Hash(), Number: new(big.Int).SetUint64(num), GasLimit: gl,
		GasUsed: gl / 100 * uint64(env.GasUsedPct), Time: tm, BaseFee: new(big.Int).SetUint64(env.BaseFee),
		Difficulty: new(big.Int), Root: root, Extra: extra[:], ExcessBlobGas: &ebg, BlobGasUsed: &bgu,
	}
	b := &simBlock{block: types.NewBlock(h, &types.Body{Transactions: txs}, nil, trie.NewStackTrie(nil)), parent: parent, model: work}
	if credit {
		b.credits = append([]BalEdit{}, edits...)
	}
	c.blocks[b.block.Hash()] = b
	return b
}

// setHead adopts b as the canonical head (no event).
func (c *simChain) setHead(b *simBlock) {
	c.mu.Lock()
	c.head = b
	c.mu.Unlock()
}

func (c *simChain) setFinal(b *simBlock) {
	c.mu.Lock()
	c.final = b
	c.mu.Unlock()
}

func (c *simChain) headBlock() *simBlock {
	c.mu.Lock()
	defer c.mu.Unlock()
	return c.head
}

// announce sends the chain head event for the current head.
func (c *simChain) announce() {
	c.feed.Send(core.ChainHeadEvent{Header: c.headBlock().block.Header()})
}

func (c *simChain) seam(label string) {
	c.mu.Lock()
	c.calls[label]++
	g := c.gate
	c.mu.Unlock()
	if g != nil {
		g(label)
	}
}

// ---- the seam interfaces

func (c *simChain) Config() *params.ChainConfig { return c.cfg }

func (c *simChain) CurrentBlock() *types.Header {
	c.seam("CurrentBlock")
	return c.headBlock().block.Header()
}

func (c *simChain) CurrentFinalBlock() *types.Header {
	c.seam("CurrentFinalBlock")
	c.mu.Lock()
	defer c.mu.Unlock()
	if c.final == nil {
		return nil
	}
	return c.final.block.Header()
}

func (c *simChain) Genesis() *types.Block { return c.genesis.block }

func (c *simChain) GetBlock(hash common.Hash, number uint64) *types.Block {
	c.seam("GetBlock")
	c.mu.Lock()
	defer c.mu.Unlock()
	b := c.blocks[hash]
	if b == nil || b.number() != number {
		return nil
	}
	return b.block
}

func (c *simChain) StateAt(header *types.Header) (*state.StateDB, error) {
	c.seam("StateAt")
	return state.New(header.Root, c.sdb)
}

func (c *simChain) SubscribeChainHeadEvent(ch chan<- core.ChainHeadEvent) event.Subscription {
	return c.feed.Subscribe(ch)
}
