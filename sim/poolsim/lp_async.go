package poolsim

import (
	"fmt"
	"math/big"
	"testing/synctest"
	"time"

	"github.com/ethereum/go-ethereum/common"
	"github.com/ethereum/go-ethereum/core/types"

	"verifsim/simcore"
	"verifsim/simsched"
)

// Asynchronous configuration: consecutive operations are issued concurrently
// (Add with sync=false, head events, SetGasTip) as scheduler-owned actors, and
// every call of the pools into the chain seam (StateAt, GetBlock, CurrentBlock)
// is a gate as well, so the tape decides where the reset goroutine's state reads
// fall relative to further submissions and head events. The runReorg goroutine
// holds the pool lock while parked at the seam: quiescence is detected lock-aware
// (ModePoll). Invariants are evaluated at the quiescence point after each round.

const roundMax = 4

func (w *lpWorld) runAsync() *simcore.Violation {
	if v := w.check(nil, nil, w.observe()); v != nil {
		return v
	}
	tape := &simcore.TapeReader{T: w.p.Tape}
	var fp simcore.Hash64 = simcore.NewHash()
	steps, choices := 0, 0
	ops := w.p.Ops
	for i := 0; i < len(ops); {
		time.Sleep(time.Millisecond)
		if ops[i].Kind == "clock" {
			pre := w.observe()
			info := w.apply(i, &ops[i], pre)
			synctest.Wait()
			post := w.observe()
			w.record(i, &ops[i], info, post)
			if v := w.check(&ops[i], info, post); v != nil {
				v.Msg = fmt.Sprintf("after op %d (%s): %s", i, ops[i].Kind, v.Msg)
				return v
			}
			i++
			continue
		}
		// collect a round
		j := i
		for j < len(ops) && j-i < roundMax && ops[j].Kind != "clock" {
			j++
		}
		pre := w.observe()
		info := &opInfo{pre: pre, async: true, adopted: map[common.Hash]bool{}}
		// the rest of the tape drives this round's scheduler
		rest := w.p.Tape
		if tape.Used() < len(rest) {
			rest = rest[tape.Used():]
		} else {
			rest = nil
		}
		sched := simsched.New(rest, simsched.ModePoll)
		sched.MaxSteps = 5000
		// everything that needs the harness model is prepared before the actors start
		type addAct struct {
			idx int
			txs []*types.Transaction
		}
		var adds []addAct
		var heads []*simBlock
		var tips []struct {
			idx int
			tip uint64
		}
		headPre := pre
		for k := i; k < j; k++ {
			op := &ops[k]
			switch op.Kind {
			case "add":
				var txs []*types.Transaction
				for t := range op.Txs {
					txs = append(txs, w.makeTx(&op.Txs[t], pre.model, pre.cont, nil))
				}
				if len(txs) > 0 {
					adds = append(adds, addAct{k, txs})
					info.txs = append(info.txs, txs...)
				}
			case "tip":
				tips = append(tips, struct {
					idx int
					tip uint64
				}{k, op.Tip})
			case "head", "reorg":
				// chained on whatever the previous head operation of this round built
				hp := *headPre
				if len(heads) > 0 {
					hp.head = heads[len(heads)-1]
					hp.model = hp.head.model
				}
				heads = append(heads, w.buildBranch(op, &hp, info)...)
			}
		}
		w.chain.mu.Lock()
		w.chain.gate = func(label string) { sched.Gate("seam:" + label) }
		w.chain.mu.Unlock()
		for _, a := range adds {
			a := a
			sched.Go(fmt.Sprintf("A%02d", a.idx), func() {
				w.tp.Add(a.txs, false)
			})
		}
		for _, tp := range tips {
			tp := tp
			sched.Go(fmt.Sprintf("T%02d", tp.idx), func() {
				w.tp.SetGasTip(new(big.Int).SetUint64(tp.tip))
				w.tip = tp.tip
			})
		}
		if len(heads) > 0 {
			sched.Go("H", func() {
				for n, b := range heads {
					if n > 0 {
						sched.Gate(fmt.Sprintf("H:head:%d", n))
					}
					w.chain.setHead(b)
					w.chain.announce()
				}
			})
		}
		if len(adds)+len(tips)+len(heads) > 0 {
			sched.Run()
		}
		w.chain.mu.Lock()
		w.chain.gate = nil
		w.chain.mu.Unlock()
		if sched.Err != nil {
			simcore.Harnessf("poolsim async scheduler: %v", sched.Err)
		}
		steps += sched.Steps()
		choices += sched.Choices()
		fp = fp.U64(sched.FP())
		// advance the shared tape by what this round consumed
		for n := 0; n < sched.Steps(); n++ {
			tape.Next(1)
		}
		synctest.Wait()
		if err := w.tp.Sync(); err != nil {
			simcore.Harnessf("txpool.Sync: %v", err)
		}
		synctest.Wait()
		w.lastStimulus = time.Now()
		if len(heads) > 0 {
			info.newHead = heads[len(heads)-1]
			info.heads = heads
		}
		info.maint = true
		post := w.observe()
		w.logf("round %d-%d sched=%x head=%d p={%s} q={%s}", i, j-1, sched.FP(), post.head.number(),
			hashesOf(post.cont.pending, w.chain.accts), hashesOf(post.cont.queued, w.chain.accts))
		if v := w.check(&LPOp{Kind: "round"}, info, post); v != nil {
			v.Msg = fmt.Sprintf("after the concurrent round of ops %d..%d: %s", i, j-1, v.Msg)
			return v
		}
		w.res.Probe("async-round")
		i = j
	}
	w.res.SchedFP = uint64(fp)
	w.res.Events += steps
	if choices >= 2 {
		w.res.Probe("async-real-choices")
	}
	w.asyncChoices = choices
	return nil
}

// checkRound: the clauses that do not need an exact before/after pairing.
func (w *lpWorld) checkRound(info *opInfo, post *before, union map[common.Hash]*types.Transaction, np, nq int) *simcore.Violation {
	k := &w.p.Knobs
	cont := post.cont
	// the round ended with Sync(): a full reset and maintenance cycle
	w.limitsFresh = true
	if uint64(nq) > k.GlobalQueue {
		return simcore.Violf("global-queue-limit", "%d queued transactions after maintenance, GlobalQueue %d", nq, k.GlobalQueue)
	}
	if uint64(np) > k.GlobalSlots {
		for ai, a := range w.chain.accts {
			if uint64(len(cont.pending[a.addr])) > k.AccountSlots {
				return simcore.Violf("global-slots-limit", "%d pending transactions after maintenance (GlobalSlots %d) although account %d holds %d > AccountSlots %d",
					np, k.GlobalSlots, ai, len(cont.pending[a.addr]), k.AccountSlots)
			}
		}
	}
	for ai, a := range w.chain.accts {
		if len(cont.queued[a.addr]) > 0 {
			if _, ok := post.snap.Beats[a.addr]; !ok {
				return simcore.Violf("heartbeat-missing", "account %d has queued transactions but no heartbeat", ai)
			}
		}
	}
	// transactions of the adopted chain are gone
	if info.newHead != nil {
		for b := info.newHead; b != nil && b.number() > info.pre.head.number()-min(info.pre.head.number(), 4); b = b.parent {
			for _, tx := range b.block.Transactions() {
				if union[tx.Hash()] != nil {
					return simcore.Violf("included-still-pooled", "%x is part of the adopted chain (block %d) but still in the pool", tx.Hash().Bytes()[:4], b.number())
				}
			}
		}
	}
	for _, tx := range info.txs {
		if union[tx.Hash()] != nil {
			w.res.Probe("accepted")
		}
	}
	return nil
}
