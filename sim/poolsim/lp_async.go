package poolsim

import "verifsim/simcore"

func (w *lpWorld) runAsync() *simcore.Violation { return w.runSerial() }
