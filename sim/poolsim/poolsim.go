// Package poolsim runs the real transaction pools of go-ethereum against a
// simulated chain: C41 (legacypool.LegacyPool behind txpool.TxPool, virtual
// clock) and C42 (blobpool.BlobPool with its billy stores on tmpfs, clean and
// dirty restarts).
package poolsim

import (
	"context"
	"fmt"
	"log/slog"
	"sort"
	"strings"
	"sync"

	"github.com/ethereum/go-ethereum/log"

	"verifsim/simcore"
)

// ---- root logger: log.Error lines of the tree under test are counted as
// probes (they mark "should never happen" branches), log.Crit becomes a panic.

type errCounter struct {
	mu sync.Mutex
	m  map[string]int
}

var logErrs = &errCounter{m: map[string]int{}}

func (c *errCounter) reset() {
	c.mu.Lock()
	c.m = map[string]int{}
	c.mu.Unlock()
}

func (c *errCounter) add(k string) {
	c.mu.Lock()
	c.m[k]++
	c.mu.Unlock()
}

func (c *errCounter) snapshot() map[string]int {
	c.mu.Lock()
	defer c.mu.Unlock()
	out := map[string]int{}
	for k, v := range c.m {
		out[k] = v
	}
	return out
}

func (c *errCounter) keys() []string {
	m := c.snapshot()
	var ks []string
	for k := range m {
		ks = append(ks, k)
	}
	sort.Strings(ks)
	return ks
}

type logHandler struct{}

func (logHandler) Enabled(_ context.Context, l slog.Level) bool { return l >= log.LevelError }
func (logHandler) Handle(_ context.Context, r slog.Record) error {
	if r.Level >= log.LevelCrit {
		var sb strings.Builder
		sb.WriteString(r.Message)
		r.Attrs(func(a slog.Attr) bool {
			sb.WriteString(" " + a.Key + "=" + fmt.Sprint(a.Value.Any()))
			return true
		})
		fmt.Println("CRIT-LOG " + sb.String())
		panic("log.Crit: " + sb.String())
	}
	logErrs.add(r.Message)
	return nil
}
func (h logHandler) WithAttrs([]slog.Attr) slog.Handler { return h }
func (h logHandler) WithGroup(string) slog.Handler      { return h }

func installLogHandler() { log.SetDefault(log.NewLogger(logHandler{})) }

func Checks() map[string]*simcore.Check {
	return map[string]*simcore.Check{
		"C41": {
			ID: "C41", Engine: "poolsim", Level: "exploration",
			Rule: "plan = 3-6 accounts (planned balances, nonces, 7702 delegations), small pool limits (GlobalSlots 4-16, AccountSlots 1-4, GlobalQueue 2-12, AccountQueue 1-5, PriceBump 1-100%, Lifetime 90s-1h) and 8-60 operations on the real LegacyPool behind the real TxPool inside a synctest bubble: Add (batches, nonces from state-1 to state+6, legacy/access-list/1559/set-code, fees around the pool minimum, replacements at the exact bump threshold -1/0/+1 on tip and fee cap separately, values around the balance, 1-4 slot and oversized payloads), SetGasTip, head advance by 1-3 blocks including pool and foreign transactions and balance edits, reorg of depth 1-3 to a sibling branch that re-includes a planned subset of the abandoned transactions, virtual clock advances up to beyond Lifetime. All invariants are evaluated after every operation at quiescence. Non-trivial = at least 3 accepted transactions and at least one of: replacement accepted, pool-full path, truncation, lifetime eviction, reorg reinjection, demotion, inclusion removal. distinct = distinct event-log hashes.",
			Assumptions: []string{
				"block effects are modelled without an EVM: an included transaction bumps the sender nonce, costs gas*feeCap+value, and applies its 7702 authorisations; blocks only contain transactions valid in sequence",
				"executability is what the pool documents: every pending transaction is individually payable (cost <= balance, gas <= head gas limit); the pool does not promise that the cumulative cost of a pending list is covered (promotion from the queue checks transactions one by one), so that is not asserted",
				"per-account queue cap: asserted for accounts whose queue was walked by the maintenance cycle of the operation (senders of accepted non-replacing transactions; every account after a reset), not counting transactions demoted from pending in the same cycle, which the code caps at the account's next promotion",
				"Go map iteration order inside the pool is not controlled; fees carry a serial number so that price ties (whose resolution depends on map order) do not arise, heartbeat ties within one operation can still make the queue truncation victim differ between two executions of one plan",
			},
			Components: simcore.Components{
				Real: []string{"core/txpool/legacypool LegacyPool incl. scheduleReorgLoop, runReorg, loop (eviction ticker), list, queue, noncer, pricedList, lookup", "core/txpool TxPool (head event loop, Sync, reservation tracker), validation.go", "core/txpool/locals TxTracker (30% of runs)", "core/state StateDB on an in-memory database", "core.SenderCacher"},
				Stub: []string{"chain (legacypool.BlockChain / txpool.BlockChain): block tree with planned heads, reorgs and states", "clock (synctest bubble)", "submitters"}},
			Perturbed: []string{"map iteration order and select choice inside the pool (not seedable)"},
			Runs:      map[string]int{"quick": 3000, "thorough": 150000},
			Gen:       genLP, Decode: decodeLP, Run: runLP, Shrink: shrinkLP,
			ProbeNames: []string{"accepted", "replacement-accepted", "pool-full", "pending-truncated", "queue-truncated", "lifetime-evicted",
				"reorg-reinjected", "demoted", "included-removed", "resurrect-clause-evaluated", "state-nonce-went-back", "delegated-account",
				"add:inflight-limit", "add:replace-underpriced", "add:underpriced", "add:funds", "add:nonce-low", "soft-pending-limit-exceeded-legally"},
		},
		"C42": {
			ID: "C42", Engine: "poolsim", Level: "fault_enumeration",
			Rule: "plan = 3-5 accounts, Datacap 300 KiB-4 MiB (1-14 one-blob transactions), PriceBump 10-100%, 6-22 operations on the real BlobPool with its two billy stores under /dev/shm: Add of real version-1 blob transactions (1-3 blobs from a fixed pool with valid commitments and cell proofs, KZG-verified by the pool), replacements at the bump thresholds -1/0/+1 on tip, fee cap and blob fee cap, gapped nonces, head advance of 1-2 blocks including pooled, foreign blob and plain transactions with base-fee / blob-fee jumps, reorgs of depth 1-2 that re-include a planned subset, finality advances, SetGasTip, clean Close+reopen, and crash restarts: the data directory is imaged after the k-th store event (Put/Delete on queue or limbo store, k planned) of an operation or at its end, the process state is dropped without Close and a new pool is opened on the image (process-crash model at store-operation granularity); in 6% of Add operations one queue-store Put returns an injected I/O error. evaluations = runs; reboots = clean + dirty reopenings, each checked. Non-trivial = at least 2 accepted transactions and at least one of: a reboot, a limbo expectation evaluated, a capacity eviction. distinct = distinct event-log hashes.",
			Assumptions: []string{
				"billy is third-party code behind no geth seam: its files are copied between its calls; tearing inside a billy write (power loss) is out of scope",
				"a crashed pool is reopened on the current chain head with the same configuration and minimum tip",
				"billy does not journal deletions, so a crash image may hold entries the pool had deleted; the reopened contents are compared with the documented clean-up (recheck rules, minimum tip, capacity) of what the image physically holds; where two entries of one account share a nonce the survivor is unspecified and only the structural invariants are asserted for that account",
				"balances only decrease through the account's own included transactions (Reset rechecks only the senders of included or reorged-out transactions)",
				"eviction-heap order is compared pairwise (heap property) under the documented priority; pairs whose fee distance is within 0.03 jumps of a bucket boundary are skipped (the pool does not re-sort for fee moves below 0.01 jumps)",
			},
			Components: simcore.Components{
				Real: []string{"core/txpool/blobpool BlobPool (Init, Add/addLocked, Reset/reorg/recheck/reinject/offload, SetGasTip, drop, Close), limbo, evictHeap, priority, lookup, slotter, conversion queue", "core/txpool validation (incl. KZG cell proof verification)", "github.com/holiman/billy on tmpfs", "core/state StateDB on an in-memory database"},
				Stub: []string{"chain (blobpool.BlockChain incl. CurrentFinalBlock): block tree with planned heads, reorgs, finality", "store observer/fault injector around the two billy handles", "address reserver handle (real tracker, single pool)"}},
			Perturbed: []string{"map iteration order inside the pool", "wall-clock time (gapped-buffer lifetime of one minute is never reached)"},
			Runs:      map[string]int{"quick": 320, "thorough": 12000},
			Gen:       genBP, Decode: decodeBP, Run: runBP, Shrink: shrinkBP,
			ProbeNames: []string{"accepted", "limbo-entry-expected", "limbo-entry-finalised", "reorg-return-expected", "evicted-for-capacity", "clean-restart", "recovery-checked",
				"recovery-capacity-cut", "recovery-ambiguous-duplicate-nonce", "heap-pair-compared", "replacement-attempted", "get-roundtrip", "put-error-survived"},
		},
	}
}
