package simcore

import (
	"bufio"
	"encoding/json"
	"fmt"
	"os"
	"runtime/debug"
	"sort"
	"strconv"
	"strings"
	"testing"
	"time"
)

// Violation is what an oracle reports. Oracle is the violation class used by
// minimisation ("same class persists"); Key identifies the failing call site /
// input class for matching against known_findings.jsonl.
type Violation struct {
	Oracle string `json:"oracle"`
	Key    string `json:"key"`
	Msg    string `json:"msg"`
}

func (v *Violation) Error() string { return v.Oracle + ": " + v.Msg }

// Violf builds a violation whose key is the oracle id.
func Violf(oracle, format string, a ...any) *Violation {
	return &Violation{Oracle: oracle, Key: oracle, Msg: fmt.Sprintf(format, a...)}
}

// Result is what one simulated run reports back.
type Result struct {
	Violation  *Violation
	Faults     map[string]int // fault kind -> times it actually fired
	Probes     map[string]int // rare-branch probes hit
	SchedFP    uint64         // fingerprint of the released-gate sequence (0 = no schedule)
	StateFP    uint64         // fingerprint of the model states visited
	LogHash    uint64         // hash of the full event log: determinism fingerprint
	NonTrivial bool           // by the check's stated rule
	SimTimeNS  int64          // simulated time covered
	Events     int            // seam events
	Reboots    int            // crash states materialised and rebooted
	Inconcl    int            // inconclusive sub-checks (e.g. porcupine Unknown); never reported
	Known      map[string]int // known findings hit (and skipped) inside this run
}

// process-wide set of known-finding keys of the property being checked, so that an
// engine can keep exploring a run past a recorded finding.
var knownKeys map[string]string

func IsKnown(key string) bool { _, ok := knownKeys[key]; return ok }

func (r *Result) KnownHit(key string) {
	if r.Known == nil {
		r.Known = map[string]int{}
	}
	r.Known[key]++
}

func NewResult() *Result {
	return &Result{Faults: map[string]int{}, Probes: map[string]int{}}
}

func (r *Result) Fault(kind string) { r.Faults[kind]++ }
func (r *Result) Probe(name string) { r.Probes[name]++ }
func (r *Result) Fail(v *Violation) *Result {
	if r.Violation == nil {
		r.Violation = v
	}
	return r
}

type Components struct {
	Real []string `json:"real"`
	Stub []string `json:"stub"`
}

// Check is one property's simulated check.
type Check struct {
	ID          string
	Engine      string
	Level       string // exploration | fault_enumeration
	Rule        string
	Assumptions []string
	Components  Components
	Perturbed   []string       // parts explored by perturbation only (no decided interleaving)
	Runs        map[string]int // tier -> total runs over all workers
	Gen         func(r *Rand, tier string) any
	Decode      func(b []byte) (any, error)
	Run         func(t *testing.T, plan any) *Result
	Shrink      func(plan any) []any // candidate simpler plans, most aggressive first
	ProbeNames  []string             // probes expected to be reached (reported under unreached when zero)
}

type replayFile struct {
	Property  string          `json:"property"`
	Engine    string          `json:"engine"`
	Seed      uint64          `json:"seed"`
	Run       uint64          `json:"run"`
	RunSeed   uint64          `json:"run_seed"`
	Oracle    string          `json:"oracle"`
	Key       string          `json:"key"`
	Msg       string          `json:"msg"`
	Minimised bool            `json:"minimised"`
	Shrinks   int             `json:"shrink_steps"`
	Replayed  string          `json:"replayed,omitempty"`
	Plan      json.RawMessage `json:"plan"`
}

type workerReport struct {
	Property   string            `json:"property"`
	Tier       string            `json:"tier"`
	Seed       uint64            `json:"seed"`
	Worker     int               `json:"worker"`
	Runs       int               `json:"runs"`
	NonTrivial []string          `json:"nontrivial_fps"`
	SchedFPs   []string          `json:"sched_fps"`
	StateFPs   []string          `json:"state_fps"`
	Faults     map[string]int    `json:"faults"`
	Probes     map[string]int    `json:"probes"`
	SimTimeS   float64           `json:"sim_time_s"`
	Events     int               `json:"events"`
	Reboots    int               `json:"reboots"`
	Inconcl    int               `json:"inconclusive"`
	Samples    []json.RawMessage `json:"samples"`
	Known      map[string]int    `json:"known_hits"`
	KnownWhat  map[string]string `json:"known_what"`
	Violation  *replayFile       `json:"violation,omitempty"`
	ReplayPath string            `json:"replay_path,omitempty"`
	WallS      float64           `json:"wall_s"`
	LogHashes  map[string]string `json:"log_hashes,omitempty"`
	Check      struct {
		Level       string     `json:"level"`
		Engine      string     `json:"engine"`
		Rule        string     `json:"rule"`
		Assumptions []string   `json:"assumptions"`
		Components  Components `json:"components"`
		Perturbed   []string   `json:"perturbed"`
		ProbeNames  []string   `json:"probe_names"`
	} `json:"check"`
}

func envInt(name string, def int) int {
	if s := os.Getenv(name); s != "" {
		if v, err := strconv.Atoi(s); err == nil {
			return v
		}
	}
	return def
}

func envU64(name string, def uint64) uint64 {
	if s := os.Getenv(name); s != "" {
		if v, err := strconv.ParseUint(s, 10, 64); err == nil {
			return v
		}
		if v, err := strconv.ParseInt(s, 10, 64); err == nil {
			return uint64(v)
		}
	}
	return def
}

// SafeRun executes one plan and turns a panic on the calling goroutine into a
// violation of class "panic".
func SafeRun(t *testing.T, c *Check, plan any) (res *Result) {
	defer func() {
		if r := recover(); r != nil {
			if hp, ok := r.(HarnessPanic); ok {
				panic(hp)
			}
			st := string(debug.Stack())
			site := panicSite(st)
			res = NewResult()
			res.Violation = &Violation{Oracle: "panic", Key: "panic:" + site, Msg: fmt.Sprintf("%v\n%s", r, trimStack(st))}
		}
	}()
	res = c.Run(t, plan)
	if res == nil {
		res = NewResult()
	}
	return res
}

// HarnessPanic marks trouble in the harness itself (exit 2, never a violation).
type HarnessPanic struct{ Msg string }

func Harnessf(format string, a ...any) { panic(HarnessPanic{fmt.Sprintf(format, a...)}) }

func trimStack(s string) string {
	lines := strings.Split(s, "\n")
	if len(lines) > 40 {
		lines = lines[:40]
	}
	return strings.Join(lines, "\n")
}

// panicSite returns the first go-ethereum frame below the panic call.
func panicSite(st string) string {
	lines := strings.Split(st, "\n")
	seenPanic := false
	for _, l := range lines {
		if strings.HasPrefix(l, "panic(") {
			seenPanic = true
			continue
		}
		if seenPanic && strings.Contains(l, "go-ethereum") && !strings.HasPrefix(l, "\t") {
			if i := strings.LastIndex(l, "("); i > 0 {
				return l[:i]
			}
			return l
		}
	}
	return "unknown"
}

type knownEntry struct {
	Property string `json:"property"`
	Status   string `json:"status"`
	Key      string `json:"key"`
	What     string `json:"what"`
}

func loadKnown(path, prop string) map[string]string {
	out := map[string]string{}
	if path == "" {
		return out
	}
	f, err := os.Open(path)
	if err != nil {
		return out
	}
	defer f.Close()
	sc := bufio.NewScanner(f)
	sc.Buffer(make([]byte, 1<<20), 1<<20)
	for sc.Scan() {
		line := strings.TrimSpace(sc.Text())
		if line == "" || strings.HasPrefix(line, "#") {
			continue
		}
		var e knownEntry
		if json.Unmarshal([]byte(line), &e) != nil {
			continue
		}
		if e.Property == prop && e.Status == "known" {
			out[e.Key] = e.What
		}
	}
	return out
}

func writeJSON(path string, v any) {
	b, err := json.MarshalIndent(v, "", " ")
	if err != nil {
		Harnessf("marshal %s: %v", path, err)
	}
	tmp := path + ".tmp"
	if err := os.WriteFile(tmp, b, 0o644); err != nil {
		Harnessf("write %s: %v", tmp, err)
	}
	if err := os.Rename(tmp, path); err != nil {
		Harnessf("rename %s: %v", path, err)
	}
}

func hex64(v uint64) string { return strconv.FormatUint(v, 16) }

// RunWorker is the body of every engine's TestWorker. It is driven by
// environment variables set by bin/vcheck (see that file for the protocol).
func RunWorker(t *testing.T, checks map[string]*Check) {
	prop := os.Getenv("VERIF_PROP")
	c := checks[prop]
	if c == nil {
		if prop == "" {
			t.Skip("VERIF_PROP not set: not running under bin/vcheck")
		}
		fmt.Printf("HARNESS unknown property %q for this engine\n", prop)
		os.Exit(2)
	}
	tier := os.Getenv("VERIF_TIER")
	if tier == "" {
		tier = "quick"
	}
	seed := envU64("VERIF_SEED", 1)
	worker := envInt("VERIF_WORKER", 0)
	nworkers := envInt("VERIF_NWORKERS", 1)
	total := envInt("VERIF_RUNS", c.Runs[tier])
	budget := time.Duration(envInt("VERIF_BUDGET_S", 120)) * time.Second
	out := os.Getenv("VERIF_OUT")
	cur := os.Getenv("VERIF_CUR")
	replayDir := os.Getenv("VERIF_REPLAY_DIR")
	if replayDir == "" {
		replayDir = "/verif/replays"
	}
	detlog := os.Getenv("VERIF_DETLOG") != ""
	known := loadKnown(os.Getenv("VERIF_KNOWN"), prop)
	knownKeys = known

	defer func() {
		if r := recover(); r != nil {
			if hp, ok := r.(HarnessPanic); ok {
				fmt.Printf("HARNESS %s\n", hp.Msg)
				os.Exit(2)
			}
			panic(r)
		}
	}()

	rep := &workerReport{Property: prop, Tier: tier, Seed: seed, Worker: worker,
		Faults: map[string]int{}, Probes: map[string]int{}, Known: map[string]int{}, KnownWhat: map[string]string{}}
	rep.Check.Level, rep.Check.Engine, rep.Check.Rule = c.Level, c.Engine, c.Rule
	rep.Check.Assumptions, rep.Check.Components, rep.Check.Perturbed = c.Assumptions, c.Components, c.Perturbed
	rep.Check.ProbeNames = c.ProbeNames
	if detlog {
		rep.LogHashes = map[string]string{}
	}
	start := time.Now()

	// Replay mode: one plan from a file.
	if rp := os.Getenv("VERIF_REPLAY"); rp != "" {
		b, err := os.ReadFile(rp)
		if err != nil {
			Harnessf("read replay: %v", err)
		}
		var rf replayFile
		if err := json.Unmarshal(b, &rf); err != nil {
			Harnessf("decode replay: %v", err)
		}
		plan, err := c.Decode(rf.Plan)
		if err != nil {
			Harnessf("decode plan: %v", err)
		}
		if cur != "" {
			os.WriteFile(cur, b, 0o644)
		}
		res := SafeRun(t, c, plan)
		rep.Runs = 1
		for k, n := range res.Known {
			rep.Known[k] += n
			rep.KnownWhat[k] = known[k]
		}
		if res.Violation != nil {
			v := rf
			v.Oracle, v.Key, v.Msg = res.Violation.Oracle, res.Violation.Key, res.Violation.Msg
			if what, ok := known[v.Key]; ok {
				rep.Known[v.Key]++
				rep.KnownWhat[v.Key] = what
			} else {
				rep.Violation = &v
				rep.ReplayPath = rp
			}
		}
		rep.WallS = time.Since(start).Seconds()
		if out != "" {
			writeJSON(out, rep)
		}
		return
	}

	nt := map[uint64]bool{}
	sfp := map[uint64]bool{}
	stfp := map[uint64]bool{}
	const fpCap = 400000
	for r := uint64(worker); r < uint64(total); r += uint64(nworkers) {
		if time.Since(start) > budget {
			break
		}
		rs := RunSeed(seed, r)
		plan := c.Gen(NewRand(rs), tier)
		pb, err := json.Marshal(plan)
		if err != nil {
			Harnessf("marshal plan: %v", err)
		}
		if cur != "" {
			rf := replayFile{Property: prop, Engine: c.Engine, Seed: seed, Run: r, RunSeed: rs, Oracle: "process-died", Key: "process-died", Plan: pb}
			b, _ := json.Marshal(rf)
			os.WriteFile(cur, b, 0o644)
		}
		res := SafeRun(t, c, plan)
		rep.Runs++
		for k, v := range res.Faults {
			rep.Faults[k] += v
		}
		for k, v := range res.Probes {
			rep.Probes[k] += v
		}
		rep.SimTimeS += float64(res.SimTimeNS) / 1e9
		rep.Events += res.Events
		rep.Reboots += res.Reboots
		rep.Inconcl += res.Inconcl
		for k, n := range res.Known {
			rep.Known[k] += n
			rep.KnownWhat[k] = known[k]
		}
		if res.NonTrivial && len(nt) < fpCap {
			nt[uint64(NewHash().U64(res.SchedFP).U64(res.StateFP))] = true
		}
		if res.SchedFP != 0 && len(sfp) < fpCap {
			sfp[res.SchedFP] = true
		}
		if res.StateFP != 0 && len(stfp) < fpCap {
			stfp[res.StateFP] = true
		}
		if detlog {
			rep.LogHashes[strconv.FormatUint(r, 10)] = hex64(res.LogHash)
		}
		if len(rep.Samples) < 2 && (res.NonTrivial || rep.Runs > 20) && len(pb) < 6000 {
			rep.Samples = append(rep.Samples, pb)
		}
		if v := res.Violation; v != nil {
			if what, ok := known[v.Key]; ok {
				rep.Known[v.Key]++
				rep.KnownWhat[v.Key] = what
				continue
			}
			// minimise, keeping the violation class and staying off known findings
			shrinkBudget := 45 * time.Second
			if tier == "thorough" {
				shrinkBudget = 240 * time.Second
			}
			mplan, mv, steps := Minimise(t, c, plan, v, known, shrinkBudget)
			mpb, _ := json.Marshal(mplan)
			rf := &replayFile{Property: prop, Engine: c.Engine, Seed: seed, Run: r, RunSeed: rs,
				Oracle: mv.Oracle, Key: mv.Key, Msg: mv.Msg, Minimised: steps > 0, Shrinks: steps, Plan: mpb}
			path := fmt.Sprintf("%s/%s-%d.json", replayDir, prop, rs)
			os.MkdirAll(replayDir, 0o755)
			writeJSON(path, rf)
			rep.Violation = rf
			rep.ReplayPath = path
			break
		}
	}
	if len(rep.Samples) == 0 {
		// always show at least one actual case
		plan := c.Gen(NewRand(RunSeed(seed, uint64(worker))), tier)
		if pb, err := json.Marshal(plan); err == nil {
			if len(pb) > 20000 {
				pb, _ = json.Marshal(map[string]any{"truncated_plan_bytes": len(pb), "head": string(pb[:4000])})
			}
			rep.Samples = append(rep.Samples, pb)
		}
	}
	rep.NonTrivial = fpList(nt)
	rep.SchedFPs = fpList(sfp)
	rep.StateFPs = fpList(stfp)
	rep.WallS = time.Since(start).Seconds()
	if out != "" {
		writeJSON(out, rep)
	} else {
		b, _ := json.Marshal(rep)
		fmt.Println(string(b))
	}
}

func fpList(m map[uint64]bool) []string {
	out := make([]string, 0, len(m))
	for k := range m {
		out = append(out, hex64(k))
	}
	sort.Strings(out)
	return out
}

// Minimise greedily applies the check's Shrink candidates while the same
// violation class (oracle id) persists and the violation is not a known
// finding. Returns the smallest plan found, its violation and the number of
// accepted steps.
func Minimise(t *testing.T, c *Check, plan any, v *Violation, known map[string]string, budget time.Duration) (any, *Violation, int) {
	if c.Shrink == nil {
		return plan, v, 0
	}
	deadline := time.Now().Add(budget)
	steps := 0
	execs := 0
	for progress := true; progress && time.Now().Before(deadline); {
		progress = false
		for _, cand := range c.Shrink(plan) {
			if time.Now().After(deadline) || execs > 4000 {
				break
			}
			execs++
			res := SafeRun(t, c, cand)
			if res.Violation != nil && res.Violation.Oracle == v.Oracle && res.Violation.Key == v.Key {
				if _, isKnown := known[res.Violation.Key]; isKnown {
					continue
				}
				plan, v = cand, res.Violation
				steps++
				progress = true
				break
			}
		}
	}
	return plan, v, steps
}

// ShrinkSlice yields candidate slices with chunks removed (ddmin style: halves,
// quarters, ..., single elements), most aggressive first.
func ShrinkSlice[T any](xs []T) [][]T {
	var out [][]T
	n := len(xs)
	if n == 0 {
		return out
	}
	for chunk := n; chunk >= 1; chunk /= 2 {
		for start := 0; start < n; start += chunk {
			end := start + chunk
			if end > n {
				end = n
			}
			cand := make([]T, 0, n-(end-start))
			cand = append(cand, xs[:start]...)
			cand = append(cand, xs[end:]...)
			out = append(out, cand)
			if len(out) > 64 {
				return out
			}
		}
		if chunk == 1 {
			break
		}
	}
	return out
}

// ShrinkTape yields simpler tapes: all zero, truncated, zeroed halves.
func ShrinkTape(t []uint16) [][]uint16 {
	var out [][]uint16
	if len(t) == 0 {
		return out
	}
	allZero := true
	for _, v := range t {
		if v != 0 {
			allZero = false
		}
	}
	if allZero {
		out = append(out, t[:len(t)/2])
		return out
	}
	out = append(out, make([]uint16, len(t)))
	out = append(out, append([]uint16{}, t[:len(t)/2]...))
	for chunk := len(t) / 2; chunk >= 1; chunk /= 2 {
		for start := 0; start < len(t); start += chunk {
			end := min(start+chunk, len(t))
			nz := false
			for _, v := range t[start:end] {
				if v != 0 {
					nz = true
				}
			}
			if !nz {
				continue
			}
			cand := append([]uint16{}, t...)
			for i := start; i < end; i++ {
				cand[i] = 0
			}
			out = append(out, cand)
			if len(out) > 48 {
				return out
			}
		}
	}
	return out
}
