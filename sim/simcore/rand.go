// Package simcore holds what every simulated check shares: the single PRNG all
// simulator choices are derived from, the worker loop, result/violation records,
// plan minimisation and the per-worker report that bin/vcheck merges into the
// evidence file.
package simcore

import (
	"encoding/binary"
	"math/bits"
)

// SplitMix is the splitmix64 mixing function; used to derive per-run seeds from
// (VERIF_SEED, run index) and as the state transition of Rand.
func SplitMix(x uint64) uint64 {
	x += 0x9e3779b97f4a7c15
	x = (x ^ (x >> 30)) * 0xbf58476d1ce4e5b9
	x = (x ^ (x >> 27)) * 0x94d049bb133111eb
	return x ^ (x >> 31)
}

// RunSeed derives the seed of run r from the batch seed.
func RunSeed(seed uint64, r uint64) uint64 {
	return SplitMix(SplitMix(seed) ^ SplitMix(r*0x9e3779b97f4a7c15+0x1234567))
}

// Rand is the only source of simulator randomness. It is deliberately tiny and
// has no global state; logging paths never touch it.
type Rand struct{ s uint64 }

func NewRand(seed uint64) *Rand { return &Rand{s: seed} }

func (r *Rand) Uint64() uint64 {
	r.s += 0x9e3779b97f4a7c15
	x := r.s
	x = (x ^ (x >> 30)) * 0xbf58476d1ce4e5b9
	x = (x ^ (x >> 27)) * 0x94d049bb133111eb
	return x ^ (x >> 31)
}

// Intn returns a value in [0,n). n<=0 yields 0.
func (r *Rand) Intn(n int) int {
	if n <= 1 {
		return 0
	}
	hi, _ := bits.Mul64(r.Uint64(), uint64(n))
	return int(hi)
}

// Range returns a value in [lo,hi] (inclusive).
func (r *Rand) Range(lo, hi int) int {
	if hi <= lo {
		return lo
	}
	return lo + r.Intn(hi-lo+1)
}

// Bool is true with probability p.
func (r *Rand) Bool(p float64) bool {
	return float64(r.Uint64()>>11)/float64(1<<53) < p
}

func (r *Rand) Float() float64 { return float64(r.Uint64()>>11) / float64(1<<53) }

func (r *Rand) Bytes(n int) []byte {
	b := make([]byte, n)
	for i := 0; i < n; i += 8 {
		var w [8]byte
		binary.LittleEndian.PutUint64(w[:], r.Uint64())
		copy(b[i:], w[:])
	}
	return b
}

// Fork returns an independent generator derived from this one.
func (r *Rand) Fork() *Rand { return NewRand(SplitMix(r.Uint64())) }

// Tape draws n schedule choices (raw 16-bit values; consumers reduce mod k).
func (r *Rand) Tape(n int) []uint16 {
	t := make([]uint16, n)
	for i := range t {
		// bias towards small values so that shrinking to zero is a small step
		v := r.Uint64()
		if v&3 == 0 {
			t[i] = 0
		} else {
			t[i] = uint16(v >> 16)
		}
	}
	return t
}

// Pick chooses an index according to integer weights.
func (r *Rand) Pick(weights ...int) int {
	tot := 0
	for _, w := range weights {
		tot += w
	}
	x := r.Intn(tot)
	for i, w := range weights {
		if x < w {
			return i
		}
		x -= w
	}
	return len(weights) - 1
}

// Tape consumption: choice = tape[i] mod k; an exhausted tape yields 0.
type TapeReader struct {
	T   []uint16
	pos int
}

func (t *TapeReader) Next(k int) int {
	if k <= 1 {
		// still consume so that positions stay aligned between plans
		if t.pos < len(t.T) {
			t.pos++
		}
		return 0
	}
	if t.pos >= len(t.T) {
		return 0
	}
	v := int(t.T[t.pos]) % k
	t.pos++
	return v
}

func (t *TapeReader) Used() int { return t.pos }

// FNV-1a 64 for fingerprints.
type Hash64 uint64

func NewHash() Hash64 { return 0xcbf29ce484222325 }
func (h Hash64) Bytes(b []byte) Hash64 {
	for _, c := range b {
		h ^= Hash64(c)
		h *= 0x100000001b3
	}
	return h
}
func (h Hash64) String(s string) Hash64 { return h.Bytes([]byte(s)) }
func (h Hash64) U64(v uint64) Hash64 {
	var w [8]byte
	binary.LittleEndian.PutUint64(w[:], v)
	return h.Bytes(w[:])
}
