// Package hashdbsim checks property C21: garbage collection of the hash-scheme
// node database (triedb/hashdb) never drops live nodes. The real hashdb.Database
// runs on a simdisk.SimKV; node sets come from the real trie package; the oracle
// is a multiset of live root references plus, for every live root, the complete
// node set computed by refmpt (independent of the trie package).
package hashdbsim

import (
	"bytes"
	"encoding/json"
	"fmt"
	"os"
	"sort"
	"strings"
	"testing"

	"github.com/ethereum/go-ethereum/common"
	"github.com/ethereum/go-ethereum/core/rawdb"
	"github.com/ethereum/go-ethereum/core/types"
	"github.com/ethereum/go-ethereum/rlp"
	"github.com/ethereum/go-ethereum/trie"
	"github.com/ethereum/go-ethereum/trie/trienode"
	"github.com/ethereum/go-ethereum/triedb/hashdb"
	"github.com/holiman/uint256"

	"verifsim/refmpt"
	"verifsim/simcore"
	"verifsim/simdisk"
)

// ---------------------------------------------------------------- plan

// Op is one step.
//
//	upd    derive a new state from parent P (index into the live roots, P<0: the
//	       empty state): NA account changes and NS slot changes on one account,
//	       all drawn from S; CP: make one account's storage equal to another's;
//	       RW: additionally rewrite one untouched key with a temporary value and
//	       back inside the same trie session (re-declares existing nodes).
//	       Then Update(root,parent) + Reference(root, metaroot).
//	ref    Reference(root R, metaroot) once more
//	deref  Dereference(root R)
//	cap    Cap(L permille of the current Size)
//	commit Commit(root R)
//
// F>0 (fault configuration only): the F-th batch write inside the op fails.
type Op struct {
	K  string `json:"k"`
	P  int    `json:"p,omitempty"`
	R  int    `json:"r,omitempty"`
	S  uint64 `json:"s,omitempty"`
	NA int    `json:"na,omitempty"`
	NS int    `json:"ns,omitempty"`
	CP bool   `json:"cp,omitempty"`
	RW bool   `json:"rw,omitempty"`
	L  int    `json:"l,omitempty"`
	F  int    `json:"f,omitempty"`
}

type Plan struct {
	Clean  int  `json:"clean"`  // clean cache bytes (0: none)
	Scale  int  `json:"scale"`  // SimKV batch size inflation (forces intermediate batch writes)
	Faulty bool `json:"faulty"` // fault configuration
	Ops    []Op `json:"ops"`
}

func gen(r *simcore.Rand, tier string) any {
	p := &Plan{Faulty: r.Bool(0.35)}
	if r.Bool(0.3) {
		p.Clean = 1 << 20
	}
	p.Scale = []int{1, 1, 300, 1000, 4000}[r.Intn(5)]
	n := r.Range(6, 40)
	if tier == "thorough" {
		n = r.Range(6, 90)
	}
	rw := r.Bool(0.25) // runs that re-declare existing nodes
	for len(p.Ops) < n {
		op := Op{S: r.Uint64()}
		k := r.Pick(9, 1, 5, 3, 2)
		if len(p.Ops) < 2 {
			k = 0
		}
		switch k {
		case 0:
			op.K = "upd"
			op.P = r.Intn(8)
			if r.Bool(0.08) {
				op.P = -1
			}
			op.NA = r.Pick(3, 5, 3, 1)
			if r.Bool(0.7) {
				op.NS = r.Range(1, 5)
			}
			op.CP = r.Bool(0.25)
			op.RW = rw && r.Bool(0.4)
		case 1:
			op.K = "ref"
			op.R = r.Intn(8)
		case 2:
			op.K = "deref"
			op.R = r.Intn(8)
		case 3:
			op.K = "cap"
			op.L = []int{0, 0, 200, 500, 800, 950, 1000, 1500}[r.Intn(8)]
		case 4:
			op.K = "commit"
			op.R = r.Intn(8)
		}
		if p.Faulty && (op.K == "cap" || op.K == "commit") && r.Bool(0.5) {
			op.F = r.Range(1, 4)
		}
		p.Ops = append(p.Ops, op)
	}
	// most runs end by dropping every reference
	if r.Bool(0.7) {
		for i := 0; i < 12; i++ {
			p.Ops = append(p.Ops, Op{K: "deref", R: r.Intn(8)})
		}
	}
	return p
}

func decode(b []byte) (any, error) {
	p := &Plan{}
	return p, json.Unmarshal(b, p)
}

func shrink(pl any) []any {
	p := pl.(*Plan)
	var out []any
	mk := func(f func(q *Plan)) {
		b, _ := json.Marshal(p)
		q := &Plan{}
		json.Unmarshal(b, q)
		f(q)
		out = append(out, q)
	}
	for _, ops := range simcore.ShrinkSlice(p.Ops) {
		ops := ops
		mk(func(q *Plan) { q.Ops = ops })
	}
	if p.Clean != 0 {
		mk(func(q *Plan) { q.Clean = 0 })
	}
	if p.Scale != 1 {
		mk(func(q *Plan) { q.Scale = 1 })
	}
	for i, op := range p.Ops {
		i, op := i, op
		if op.F != 0 {
			mk(func(q *Plan) { q.Ops[i].F = 0 })
		}
		if op.RW {
			mk(func(q *Plan) { q.Ops[i].RW = false })
		}
		if op.CP {
			mk(func(q *Plan) { q.Ops[i].CP = false })
		}
		if op.NA > 0 {
			mk(func(q *Plan) { q.Ops[i].NA = op.NA - 1 })
		}
		if op.NS > 0 {
			mk(func(q *Plan) { q.Ops[i].NS = op.NS - 1 })
		}
	}
	return out
}

// ---------------------------------------------------------------- key pools

func key32(b0, b1, b30, b31 byte) []byte {
	k := make([]byte, 32)
	k[0], k[1], k[30], k[31] = b0, b1, b30, b31
	return k
}

// account keys: shared prefixes of several lengths so that branches, extensions
// and deep leaves appear with a dozen keys
var acctKeys = [][]byte{
	key32(0x00, 0x00, 0, 0x01), key32(0x00, 0x00, 0, 0x02), key32(0x00, 0x10, 0, 0x03), key32(0x01, 0x00, 0, 0x04),
	key32(0x10, 0x00, 0, 0x05), key32(0x11, 0x00, 0, 0x06), key32(0x1f, 0x00, 0, 0x07), key32(0x20, 0x00, 0, 0x08),
	key32(0xa0, 0x00, 0, 0x09), key32(0xa0, 0x0f, 0, 0x0a), key32(0xff, 0x00, 0, 0x0b), key32(0xff, 0xff, 0xff, 0xff),
}

// slot keys: two pairs differ only in the last nibble (tiny leaves embedded in
// their parent), the rest spreads over the top branch
var slotKeys = [][]byte{
	key32(0x00, 0x00, 0, 0x10), key32(0x00, 0x00, 0, 0x11), key32(0x30, 0x00, 0, 0x01), key32(0x30, 0x00, 0, 0x02),
	key32(0x31, 0x00, 0, 0x03), key32(0x80, 0x00, 0, 0x04), key32(0x80, 0x80, 0, 0x05), key32(0xf0, 0x00, 0, 0x06),
}

var slotVals = [][]byte{
	{0x01}, {0x02}, {0x7f}, {0x81, 0xff}, {0x83, 1, 2, 3},
	append([]byte{0xa0}, bytes.Repeat([]byte{0xab}, 32)...), // a full 32-byte word, RLP encoded
	bytes.Repeat([]byte{0xcd}, 32),                          // exactly 32 raw bytes (looks like a hash reference)
}

// ---------------------------------------------------------------- model

type acct struct {
	nonce uint64
	slots map[int][]byte // slot key index -> value
}

type state struct {
	accts map[int]*acct // account key index -> account
	root  common.Hash
	nodes map[common.Hash][]byte // every stored node reachable from root (refmpt)
	refs  int
}

func (s *state) clone() *state {
	n := &state{accts: map[int]*acct{}}
	for k, a := range s.accts {
		c := &acct{nonce: a.nonce, slots: map[int][]byte{}}
		for sk, v := range a.slots {
			c.slots[sk] = v
		}
		n.accts[k] = c
	}
	return n
}

func sortedKeys[V any](m map[int]V) []int {
	ks := make([]int, 0, len(m))
	for k := range m {
		ks = append(ks, k)
	}
	sort.Ints(ks)
	return ks
}

func slotKVs(a *acct) []refmpt.KV {
	var kvs []refmpt.KV
	for _, sk := range sortedKeys(a.slots) {
		kvs = append(kvs, refmpt.KV{K: slotKeys[sk], V: a.slots[sk]})
	}
	return kvs
}

func accountRLP(nonce uint64, sroot []byte) []byte {
	b, err := rlp.EncodeToBytes(&types.StateAccount{Nonce: nonce, Balance: new(uint256.Int), Root: common.BytesToHash(sroot), CodeHash: types.EmptyCodeHash.Bytes()})
	if err != nil {
		simcore.Harnessf("encode account: %v", err)
	}
	return b
}

// seal computes root and the complete node set of the state with refmpt.
func (s *state) seal() {
	s.nodes = map[common.Hash][]byte{}
	var kvs []refmpt.KV
	for _, ak := range sortedKeys(s.accts) {
		a := s.accts[ak]
		sroot, nodes := refmpt.Nodes(slotKVs(a))
		for _, n := range nodes {
			if !n.Embedded {
				s.nodes[common.BytesToHash(n.Hash)] = n.RLP
			}
		}
		kvs = append(kvs, refmpt.KV{K: acctKeys[ak], V: accountRLP(a.nonce, sroot)})
	}
	root, nodes := refmpt.Nodes(kvs)
	for _, n := range nodes {
		if !n.Embedded {
			s.nodes[common.BytesToHash(n.Hash)] = n.RLP
		}
	}
	s.root = common.BytesToHash(root)
}

// ---------------------------------------------------------------- world

type world struct {
	p      *Plan
	kv     *simdisk.SimKV
	db     *hashdb.Database
	states map[common.Hash]*state
	order  []common.Hash // creation order of every state ever made
	res    *simcore.Result
	log    simcore.Hash64
	fp     simcore.Hash64
	block  uint64

	sh         *shadow
	sharedDrop bool
	knownLeak  bool
	faultFired bool
}

func (w *world) live() []*state {
	var out []*state
	for _, h := range w.order {
		if s := w.states[h]; s.refs > 0 {
			out = append(out, s)
		}
	}
	return out
}

func viol(oracle, format string, a ...any) *simcore.Violation {
	return simcore.Violf(oracle, format, a...)
}

var emptyState = func() *state {
	s := &state{accts: map[int]*acct{}}
	s.seal()
	return s
}()

func short(h common.Hash) string { return fmt.Sprintf("%x", h[:4]) }

// update builds the child state through the real trie package on top of the
// database under test and hands the node set to Update + Reference.
func (w *world) update(opi int, op Op) *simcore.Violation {
	live := w.live()
	parent := emptyState
	if op.P >= 0 && len(live) > 0 {
		parent = live[op.P%len(live)]
	}
	r := simcore.NewRand(op.S)
	child := parent.clone()
	touched := map[int]bool{}       // accounts whose leaf is rewritten
	var storageAcct = -1            // the one account whose storage changes in this block
	slotChanges := map[int][]byte{} // slot index -> new value (nil: delete)

	for i := 0; i < op.NA; i++ {
		ak := r.Intn(len(acctKeys))
		a := child.accts[ak]
		switch {
		case a == nil:
			child.accts[ak] = &acct{nonce: uint64(r.Range(1, 3)), slots: map[int][]byte{}}
		case r.Bool(0.15) && len(a.slots) == 0:
			delete(child.accts, ak)
		default:
			a.nonce += uint64(r.Range(1, 2))
		}
		touched[ak] = true
	}
	if op.NS > 0 || op.CP {
		// pick the storage account among existing ones (create one if none)
		ks := sortedKeys(child.accts)
		if len(ks) == 0 {
			ak := r.Intn(len(acctKeys))
			child.accts[ak] = &acct{nonce: 1, slots: map[int][]byte{}}
			ks = []int{ak}
		}
		storageAcct = ks[r.Intn(len(ks))]
		a := child.accts[storageAcct]
		if op.CP && len(ks) > 1 {
			// make a's storage equal to another account's storage
			src := child.accts[ks[r.Intn(len(ks))]]
			for sk := range slotKeys {
				want, have := src.slots[sk], a.slots[sk]
				if !bytes.Equal(want, have) {
					slotChanges[sk] = want
				}
			}
		}
		for i := 0; i < op.NS; i++ {
			sk := r.Intn(len(slotKeys))
			if _, ok := a.slots[sk]; ok && r.Bool(0.3) {
				slotChanges[sk] = nil
			} else {
				slotChanges[sk] = slotVals[r.Intn(len(slotVals))]
			}
		}
		for sk, v := range slotChanges {
			if v == nil {
				delete(a.slots, sk)
			} else {
				a.slots[sk] = v
			}
		}
		touched[storageAcct] = true
	}
	child.seal()

	// ---- real side
	merged := trienode.NewMergedNodeSet()
	missing := func(what string, err error) *simcore.Violation {
		return viol("live-node-unreadable", "op %d: %s on top of live root %s failed: %v", opi, what, short(parent.root), err)
	}
	sroots := map[int]common.Hash{}
	if storageAcct >= 0 {
		old := types.EmptyRootHash
		if pa := parent.accts[storageAcct]; pa != nil {
			old = common.BytesToHash(refmpt.Root(slotKVs(pa)))
		}
		owner := common.BytesToHash(acctKeys[storageAcct])
		st, err := trie.New(trie.StorageTrieID(parent.root, owner, old), w.db)
		if err != nil {
			return missing("opening a storage trie", err)
		}
		for _, sk := range sortedKeys(slotChanges) {
			v := slotChanges[sk]
			if v == nil {
				err = st.Delete(slotKeys[sk])
			} else {
				err = st.Update(slotKeys[sk], v)
			}
			if err != nil {
				return missing("a storage trie update", err)
			}
		}
		if op.RW {
			// rewrite an untouched slot with a temporary value and back
			if pa := parent.accts[storageAcct]; pa != nil {
				for _, sk := range sortedKeys(pa.slots) {
					if _, ch := slotChanges[sk]; !ch {
						if err := st.Update(slotKeys[sk], []byte{0x55, 0x55}); err != nil {
							return missing("a storage trie update", err)
						}
						if err := st.Update(slotKeys[sk], pa.slots[sk]); err != nil {
							return missing("a storage trie update", err)
						}
						w.res.Probe("rewrite-storage-slot")
						break
					}
				}
			}
		}
		sroot, set := st.Commit(false)
		if a := child.accts[storageAcct]; a != nil {
			if want := common.BytesToHash(refmpt.Root(slotKVs(a))); want != sroot {
				simcore.Harnessf("storage root of the trie package %x differs from the reference %x (not this property)", sroot, want)
			}
		}
		sroots[storageAcct] = sroot
		if set != nil {
			if err := merged.Merge(set); err != nil {
				simcore.Harnessf("merge: %v", err)
			}
		}
	}
	at, err := trie.New(trie.StateTrieID(parent.root), w.db)
	if err != nil {
		return missing("opening the account trie", err)
	}
	for _, ak := range sortedKeys(touched) {
		a := child.accts[ak]
		if a == nil {
			if parent.accts[ak] != nil {
				if err := at.Delete(acctKeys[ak]); err != nil {
					return missing("an account trie delete", err)
				}
			}
			continue
		}
		sroot := refmpt.Root(slotKVs(a))
		if err := at.Update(acctKeys[ak], accountRLP(a.nonce, sroot)); err != nil {
			return missing("an account trie update", err)
		}
	}
	if op.RW {
		for _, ak := range sortedKeys(parent.accts) {
			if !touched[ak] {
				pa := parent.accts[ak]
				val := accountRLP(pa.nonce, refmpt.Root(slotKVs(pa)))
				if err := at.Update(acctKeys[ak], accountRLP(pa.nonce+77, refmpt.Root(slotKVs(pa)))); err != nil {
					return missing("an account trie update", err)
				}
				if err := at.Update(acctKeys[ak], val); err != nil {
					return missing("an account trie update", err)
				}
				w.res.Probe("rewrite-account")
				break
			}
		}
	}
	root, set := at.Commit(true)
	if root != child.root {
		simcore.Harnessf("account trie root of the trie package %x differs from the reference %x (not this property)", root, child.root)
	}
	if set != nil {
		if err := merged.Merge(set); err != nil {
			simcore.Harnessf("merge: %v", err)
		}
	}
	// how many declared nodes are already on disk / already dirty (sharing measures)
	for _, owner := range []common.Hash{common.BytesToHash(acctKeys[max(storageAcct, 0)]), {}} {
		if s := merged.Sets[owner]; s != nil {
			for _, n := range s.Nodes {
				if n.IsDeleted() {
					continue
				}
				if w.db.VerifDirty(n.Hash) {
					w.res.Probe("update-redeclares-dirty-node")
				} else if len(rawdb.ReadLegacyTrieNode(w.kv, n.Hash)) > 0 {
					w.res.Probe("update-reinserts-flushed-node")
				}
			}
		}
	}
	if trace {
		fmt.Printf("  update on %s: touched %v storageAcct %d slotChanges %v\n", short(parent.root), sortedKeys(touched), storageAcct, sortedKeys(slotChanges))
		for _, ak := range sortedKeys(touched) {
			fmt.Printf("    acct %d parent %+v child %+v\n", ak, parent.accts[ak], child.accts[ak])
		}
		for owner, set := range merged.Sets {
			set.ForEachWithOrder(func(path string, n *trienode.Node) {
				fmt.Printf("    set %s path %x hash %s deleted %v len %d\n", short(owner), path, short(n.Hash), n.IsDeleted(), len(n.Blob))
			})
		}
	}
	w.block++
	if err := w.db.Update(root, parent.root, w.block, merged); err != nil {
		return viol("update-error", "op %d: Update(%s on %s) failed: %v", opi, short(root), short(parent.root), err)
	}
	w.db.Reference(root, common.Hash{})
	w.sh.update(merged, storageAcct)
	w.sh.reference(root, common.Hash{})
	if ex := w.states[root]; ex != nil {
		ex.refs++
		if ex.refs > 1 {
			w.res.Probe("root-referenced-twice")
		}
	} else {
		child.refs = 1
		w.states[root] = child
		w.order = append(w.order, root)
	}
	w.logf("upd", uint64(opi))
	w.log = w.log.Bytes(root[:])
	return nil
}

func (w *world) logf(kind string, vals ...uint64) {
	w.log = w.log.String(kind)
	for _, v := range vals {
		w.log = w.log.U64(v)
	}
}

// withFault arms the F-th write unit from now on, runs fn, disarms, and reports
// whether the injected error fired.
func (w *world) withFault(f int, fn func() error) (err error, fired bool) {
	if f > 0 && w.p.Faulty {
		base := int(w.kv.Writes.Load() + w.kv.Fired.Load())
		w.kv.FailWriteAt = map[int]error{base + f: simdisk.ErrIO}
	}
	before := w.kv.Fired.Load()
	err = fn()
	w.kv.FailWriteAt = nil
	return err, w.kv.Fired.Load() > before
}

func (w *world) apply(opi int, op Op) *simcore.Violation {
	live := w.live()
	switch op.K {
	case "upd":
		return w.update(opi, op)
	case "ref":
		if len(live) == 0 {
			return nil
		}
		s := live[op.R%len(live)]
		w.db.Reference(s.root, common.Hash{})
		w.sh.reference(s.root, common.Hash{})
		s.refs++
		w.res.Probe("root-referenced-twice")
		w.logf("ref", uint64(opi))
	case "deref":
		if len(live) == 0 {
			return nil
		}
		s := live[op.R%len(live)]
		if s.refs == 1 {
			// does another live root share a node with it?
			for _, o := range live {
				if o == s {
					continue
				}
				for h := range s.nodes {
					if _, ok := o.nodes[h]; ok {
						w.sharedDrop = true
						w.res.Probe("dropped-root-shares-nodes-with-live-root")
						break
					}
				}
				if w.sharedDrop {
					break
				}
			}
		}
		w.db.Dereference(s.root)
		w.sh.dereference(s.root)
		s.refs--
		w.logf("deref", uint64(opi))
	case "cap":
		_, size := w.db.Size()
		limit := common.StorageSize(float64(size) * float64(op.L) / 1000)
		before := len(w.kv.Log)
		err, fired := w.withFault(op.F, func() error { return w.db.Cap(limit) })
		if fired {
			w.res.Fault("cap-batch-write-error")
			w.faultFired = true
			if err == nil {
				return viol("error-swallowed", "op %d: a batch write inside Cap(%v) failed but Cap returned nil", opi, limit)
			}
		} else if err != nil {
			return viol("spurious-error", "op %d: Cap(%v) failed without an injected fault: %v", opi, limit, err)
		}
		_, after := w.db.Size()
		switch {
		case after == 0 && size > 0 && err == nil:
			w.res.Probe("cap-flushed-everything")
		case after < size:
			w.res.Probe("cap-flushed-partially")
		}
		if len(w.kv.Log)-before > 1 {
			w.res.Probe("cap-several-batches")
		}
		w.logf("cap", uint64(opi), uint64(after))
	case "commit":
		if len(w.order) == 0 {
			return nil
		}
		// any root ever made, live ones preferred
		var root common.Hash
		if len(live) > 0 && op.S%4 != 0 {
			root = live[op.R%len(live)].root
		} else {
			root = w.order[op.R%len(w.order)]
		}
		before := len(w.kv.Log)
		err, fired := w.withFault(op.F, func() error { return w.db.Commit(root, false) })
		if fired {
			w.res.Fault("commit-batch-write-error")
			w.faultFired = true
			if err == nil {
				return viol("error-swallowed", "op %d: a batch write inside Commit(%s) failed but Commit returned nil", opi, short(root))
			}
		} else if err != nil {
			return viol("spurious-error", "op %d: Commit(%s) failed without an injected fault: %v", opi, short(root), err)
		}
		if len(w.kv.Log)-before > 1 {
			w.res.Probe("commit-several-batches")
		}
		if len(w.kv.Log) > before {
			w.res.Probe("commit-wrote-nodes")
		}
		w.logf("commit", uint64(opi))
	}
	return nil
}

// check is the oracle, evaluated after every operation.
func (w *world) check(opi int, op Op) *simcore.Violation {
	live := w.live()
	// 1. every node reachable from a live root is readable with the right content
	union := map[common.Hash][]byte{}
	for _, s := range live {
		reader, err := w.db.NodeReader(s.root)
		if err != nil {
			return viol("live-root-unavailable", "op %d (%s): live root %s (%d references) is not available: %v", opi, op.K, short(s.root), s.refs, err)
		}
		hs := make([]common.Hash, 0, len(s.nodes))
		for h := range s.nodes {
			hs = append(hs, h)
		}
		sort.Slice(hs, func(i, j int) bool { return bytes.Compare(hs[i][:], hs[j][:]) < 0 })
		for _, h := range hs {
			if _, seen := union[h]; seen {
				continue
			}
			want := s.nodes[h]
			union[h] = want
			got, _ := reader.Node(common.Hash{}, nil, h)
			if len(got) == 0 {
				return viol("live-node-lost", "op %d (%s): node %s reachable from live root %s (%d references) is neither in memory nor on disk", opi, op.K, short(h), short(s.root), s.refs)
			}
			if !bytes.Equal(got, want) {
				return viol("live-node-wrong", "op %d (%s): node %s reachable from live root %s reads back %d bytes that differ from its %d-byte encoding", opi, op.K, short(h), short(s.root), len(got), len(want))
			}
		}
	}
	// 2. white box: reported size, and nothing cached that only dropped roots reach
	st := w.db.VerifState()
	if trace {
		fmt.Printf("op %d %+v\n  live:", opi, op)
		for _, s := range live {
			fmt.Printf(" %s(x%d,%d nodes)", short(s.root), s.refs, len(s.nodes))
		}
		fmt.Printf("\n  flush-list:")
		for _, h := range w.db.VerifFlushList(10000) {
			n := findNode(st.Nodes, h)
			mark := ""
			if _, ok := union[h]; !ok {
				mark = "!"
			}
			fmt.Printf(" %s%s(p%d,e%d)", mark, short(h), n.Parents, len(n.External))
		}
		fmt.Printf("\n  disk writes so far: %d\n", len(w.kv.Log))
	}
	var recomputed uint64
	for _, n := range st.Nodes {
		recomputed += uint64(common.HashLength+len(n.Blob)) + uint64(len(n.External)*common.HashLength) + uint64(st.CachedNodeSize)
	}
	diffs, size := w.db.Size()
	if uint64(size) != recomputed || diffs != 0 {
		return viol("size-mismatch", "op %d (%s): Size() reports (%d, %d) bytes, the %d cached nodes with their external references and metadata amount to %d", opi, op.K, uint64(diffs), uint64(size), len(st.Nodes), recomputed)
	}
	// 2b. a parents counter larger than every reference that could exist (each cached node
	// refers to at most 17 children, plus external links, plus the model's root references)
	// has wrapped or was never backed by references: the node is uncollectable.
	refBound := uint64(17*len(st.Nodes)) + st.ChildrenSize/common.HashLength
	for _, s := range live {
		refBound += uint64(s.refs)
	}
	for _, n := range st.Nodes {
		if uint64(n.Parents) > refBound {
			return viol("refcount-implausible", "op %d (%s): cached node %s counts %d parents; %d cached nodes, their external links and all root references together cannot hold more than %d references: it can never be collected", opi, op.K, short(n.Hash), n.Parents, len(st.Nodes), refBound)
		}
	}
	// 2c. the reference-counting model of the unchanged algorithm follows Cap/Commit by
	// observation (they only remove entries) and is compared below to classify leftovers
	if op.K == "cap" || op.K == "commit" {
		w.sh.retain(st.Nodes)
	}
	shadowDiff := w.sh.diff(st.Nodes)
	if shadowDiff != "" {
		w.res.Probe("refcounts-deviate-from-unchanged-algorithm")
	}
	var leftover []hashdb.VerifNode
	persisted := 0
	for _, n := range st.Nodes {
		if _, ok := union[n.Hash]; !ok {
			leftover = append(leftover, n)
			if len(rawdb.ReadLegacyTrieNode(w.kv.Mem(), n.Hash)) > 0 {
				persisted++
			}
			continue
		}
		for _, c := range n.External {
			if cn := findNode(st.Nodes, c); cn != nil && cn.Parents >= 2 {
				w.res.Probe("storage-root-shared-by-accounts")
			}
		}
	}
	if len(leftover) > 0 {
		n := leftover[0]
		what := "no root is referenced any more"
		if len(live) > 0 {
			what = fmt.Sprintf("%d roots are still referenced, none reaches it", len(live))
		}
		v := viol("dropped-node-still-cached", "op %d (%s): node %s (%d bytes, %d parents) is still in the dirty cache although %s (%d such nodes, %d of them already on disk)", opi, op.K, short(n.Hash), len(n.Blob), n.Parents, what, len(leftover), persisted)
		if shadowDiff != "" {
			v.Msg += "; reference counters deviate from the unchanged algorithm: " + shadowDiff
		}
		if persisted == len(leftover) && shadowDiff == "" {
			// every leftover was written to disk before and every cached node carries exactly the
			// parents counter the unchanged reference-counting algorithm produces for this
			// history: the recorded cause (a flushed node declared again under a parent that is
			// still cached, or linked from an older parent that Cap then evicts)
			v.Key = "dropped-node-still-cached:reinserted-after-flush"
		}
		if !isKnown(v.Key) {
			return v
		}
		if !w.knownLeak {
			w.knownLeak = true
			w.res.KnownHit(v.Key)
		}
	}
	if len(live) == 0 {
		if len(w.order) > 0 {
			w.res.Probe("all-references-dropped")
		}
	}
	w.fp = w.fp.String(op.K).U64(uint64(len(live))).U64(uint64(len(st.Nodes)))
	w.log = w.log.U64(uint64(size)).U64(uint64(len(st.Nodes)))
	return nil
}

// rlpItems splits the payload of an RLP list into its items (raw encodings).
// ok is false on anything malformed.
func rlpSplit(b []byte) (payload []byte, isList bool, rest []byte, ok bool) {
	if len(b) == 0 {
		return nil, false, nil, false
	}
	c := b[0]
	var off, n int
	switch {
	case c < 0x80:
		return b[:1], false, b[1:], true
	case c < 0xb8:
		off, n = 1, int(c-0x80)
	case c < 0xc0:
		l := int(c - 0xb7)
		if len(b) < 1+l {
			return nil, false, nil, false
		}
		for _, x := range b[1 : 1+l] {
			n = n<<8 | int(x)
		}
		off = 1 + l
	case c < 0xf8:
		off, n, isList = 1, int(c-0xc0), true
	default:
		l := int(c - 0xf7)
		if len(b) < 1+l {
			return nil, false, nil, false
		}
		for _, x := range b[1 : 1+l] {
			n = n<<8 | int(x)
		}
		off, isList = 1+l, true
	}
	if n < 0 || len(b) < off+n {
		return nil, false, nil, false
	}
	return b[off : off+n], isList, b[off+n:], true
}

// childHashes lists the hash references inside an encoded trie node (with
// multiplicity), descending into embedded nodes. Written for the oracle from the
// node format: branch = 17 items, leaf/extension = 2 items with a hex-prefix key
// whose flag 0x20 marks a leaf.
func childHashes(enc []byte) []common.Hash {
	payload, isList, _, ok := rlpSplit(enc)
	if !ok || !isList {
		return nil
	}
	type item struct {
		body []byte
		raw  []byte
		list bool
	}
	var items []item
	for rest := payload; len(rest) > 0; {
		body, l, r, ok := rlpSplit(rest)
		if !ok {
			return nil
		}
		items = append(items, item{body, rest[:len(rest)-len(r)], l})
		rest = r
	}
	var out []common.Hash
	ref := func(it item) {
		if it.list {
			out = append(out, childHashes(it.raw)...)
		} else if len(it.body) == 32 {
			out = append(out, common.BytesToHash(it.body))
		}
	}
	switch len(items) {
	case 17:
		for _, it := range items[:16] {
			ref(it)
		}
	case 2:
		if key := items[0].body; len(key) > 0 && key[0]&0x20 == 0 {
			ref(items[1]) // extension: the value is a node reference
		}
	}
	return out
}

// shadow is the reference-counting bookkeeping of the unchanged hashdb algorithm
// (insert / reference / dereference as documented in database.go), kept by the
// harness from the same node sets. It is NOT an oracle of the property; it only
// decides whether a leftover node is the recorded finding (counters exactly as
// the unchanged algorithm produces them) or something else. Cap and Commit only
// remove entries, so the shadow follows them by observation.
type shNode struct {
	children []common.Hash
	external map[common.Hash]bool
	parents  uint32
}

type shadow struct{ nodes map[common.Hash]*shNode }

func (s *shadow) insert(h common.Hash, blob []byte) {
	if _, ok := s.nodes[h]; ok {
		return
	}
	n := &shNode{children: childHashes(blob)}
	for _, c := range n.children {
		if cn := s.nodes[c]; cn != nil {
			cn.parents++
		}
	}
	s.nodes[h] = n
}

func (s *shadow) reference(child, parent common.Hash) {
	n := s.nodes[child]
	if n == nil {
		return
	}
	if parent == (common.Hash{}) {
		n.parents++
		return
	}
	p := s.nodes[parent]
	if p == nil {
		return
	}
	if p.external[child] {
		return
	}
	if p.external == nil {
		p.external = map[common.Hash]bool{}
	}
	p.external[child] = true
	n.parents++
}

func (s *shadow) dereference(h common.Hash) {
	n := s.nodes[h]
	if n == nil {
		return
	}
	if n.parents > 0 {
		n.parents--
	}
	if n.parents == 0 {
		delete(s.nodes, h)
		for c := range n.external {
			s.dereference(c)
		}
		for _, c := range n.children {
			s.dereference(c)
		}
	}
}

// update mirrors Database.Update: storage set first, then the account set, each
// bottom-up; then one external link per collected account leaf.
func (s *shadow) update(merged *trienode.MergedNodeSet, storageAcct int) {
	var owners []common.Hash
	for o := range merged.Sets {
		if o != (common.Hash{}) {
			owners = append(owners, o)
		}
	}
	if len(owners) > 1 {
		simcore.Harnessf("more than one storage node set in one Update")
	}
	if _, ok := merged.Sets[common.Hash{}]; ok {
		owners = append(owners, common.Hash{})
	}
	for _, o := range owners {
		merged.Sets[o].ForEachWithOrder(func(path string, n *trienode.Node) {
			if !n.IsDeleted() {
				s.insert(n.Hash, n.Blob)
			}
		})
	}
	if set := merged.Sets[common.Hash{}]; set != nil {
		for _, l := range set.Leaves {
			var acc types.StateAccount
			if err := rlp.DecodeBytes(l.Blob, &acc); err != nil {
				simcore.Harnessf("decode account leaf: %v", err)
			}
			if acc.Root != types.EmptyRootHash {
				s.reference(acc.Root, l.Parent)
			}
		}
	}
}

// retain drops every shadow entry that left the dirty cache (Cap / Commit).
func (s *shadow) retain(cached []hashdb.VerifNode) {
	for h := range s.nodes {
		if findNode(cached, h) == nil {
			delete(s.nodes, h)
		}
	}
}

// diff describes the first disagreement between the dirty cache and the shadow.
func (s *shadow) diff(cached []hashdb.VerifNode) string {
	for _, n := range cached {
		sn := s.nodes[n.Hash]
		if sn == nil {
			return fmt.Sprintf("node %s (%d parents) is cached, the unchanged algorithm has collected it", short(n.Hash), n.Parents)
		}
		if sn.parents != n.Parents {
			return fmt.Sprintf("node %s counts %d parents, the unchanged algorithm counts %d", short(n.Hash), n.Parents, sn.parents)
		}
	}
	if len(s.nodes) != len(cached) {
		hs := make([]common.Hash, 0, len(s.nodes))
		for h := range s.nodes {
			if findNode(cached, h) == nil {
				hs = append(hs, h)
			}
		}
		sort.Slice(hs, func(i, j int) bool { return bytes.Compare(hs[i][:], hs[j][:]) < 0 })
		return fmt.Sprintf("node %s is not cached, the unchanged algorithm keeps it (%d parents)", short(hs[0]), s.nodes[hs[0]].parents)
	}
	return ""
}

var trace = os.Getenv("VERIF_TRACE") != ""

// isKnown: recorded findings are skipped (and counted) so that exploration goes on.
// HASHDBSIM_KNOWN (comma separated keys) is a development aid.
func isKnown(key string) bool {
	if simcore.IsKnown(key) {
		return true
	}
	for _, k := range strings.Split(os.Getenv("HASHDBSIM_KNOWN"), ",") {
		if k != "" && k == key {
			return true
		}
	}
	return false
}

func findNode(nodes []hashdb.VerifNode, h common.Hash) *hashdb.VerifNode {
	i := sort.Search(len(nodes), func(i int) bool { return bytes.Compare(nodes[i].Hash[:], h[:]) >= 0 })
	if i < len(nodes) && nodes[i].Hash == h {
		return &nodes[i]
	}
	return nil
}

func run(t *testing.T, pl any) *simcore.Result {
	p := pl.(*Plan)
	res := simcore.NewResult()
	kv := simdisk.NewSimKV(nil)
	if p.Scale > 1 {
		kv.ValueSizeScale = p.Scale
	}
	db := hashdb.New(rawdb.NewDatabase(kv), &hashdb.Config{CleanCacheSize: p.Clean})
	defer db.Close()
	w := &world{p: p, kv: kv, db: db, states: map[common.Hash]*state{}, sh: &shadow{nodes: map[common.Hash]*shNode{}}, res: res, log: simcore.NewHash(), fp: simcore.NewHash()}
	finish := func(v *simcore.Violation) *simcore.Result {
		for _, u := range kv.Log {
			w.log = w.log.U64(u.Seq).U64(uint64(u.Kind))
			for _, o := range u.Batch {
				w.log = w.log.Bytes(o.Key).Bytes(o.Val)
			}
		}
		res.LogHash = uint64(w.log)
		res.StateFP = uint64(w.fp)
		res.Events = len(kv.Log)
		res.NonTrivial = w.sharedDrop || w.faultFired
		if v != nil {
			res.Fail(v)
		}
		return res
	}
	for opi, op := range p.Ops {
		if v := w.apply(opi, op); v != nil {
			return finish(v)
		}
		if v := w.check(opi, op); v != nil {
			return finish(v)
		}
	}
	return finish(nil)
}

func Checks() map[string]*simcore.Check {
	return map[string]*simcore.Check{"C21": {
		ID: "C21", Engine: "hashdbsim", Level: "exploration",
		Rule: "plan = 6-40 (thorough: 6-90) operations on one real hashdb.Database over a SimKV: Update+Reference of a state derived from a live root (0-3 account changes over 12 keys with shared prefixes, 0-5 slot changes on one account over 8 slot keys and 7 values incl. embedded leaves and 32-byte values, 'make this account's storage equal to that account's' for shared storage roots, optional rewrite of an untouched key inside the trie session), extra Reference, Dereference in random order, Cap at 0-150% of the current Size, Commit of a live or dropped root; knobs: clean cache on/off, batch-size inflation 1-4000 (several batch writes per Cap/Commit). 35% of the plans are the fault configuration: the 1st-4th batch write inside a Cap/Commit fails. After every operation: each node of every live root (refmpt node set) is read through NodeReader and compared; Size() is recomputed from the cached contents; every cached node must be reachable from a live root; no parents counter may exceed the references that could exist. Non-trivial = a root was dropped while another live root shared nodes with it, or an injected write error fired; distinct = distinct sequences of (op, live roots, cached nodes).",
		Assumptions: []string{
			"every Update is followed by Reference(root, metaroot) as core.BlockChain does; roots that were never referenced are not modelled",
			"one Update carries at most one storage-trie node set: with several, hashdb.Update inserts them in Go map order, which the simulator cannot seed (flush order would differ between executions of one plan)",
			"after an injected batch-write error the failing call must return the error; every oracle clause stays in force (nothing may be uncached that was not written)",
			"nodes on disk are never judged as garbage (the hash scheme does not delete from disk)",
		},
		Components: simcore.Components{
			Real: []string{"triedb/hashdb.Database (Update, Reference, Dereference, Cap, Commit, cleaner, NodeReader, Size)", "trie.Trie and its committer (node sets, leaf collection)", "trie.ForGatherChildren", "core/rawdb legacy trie node accessors", "fastcache clean cache (when enabled)"},
			Stub: []string{"disk: simdisk.SimKV over memorydb (op log, batch size inflation, injected batch write errors)", "the state layer (StateDB, blockchain GC policy) is replaced by the plan"}},
		Runs: map[string]int{"quick": 30000, "thorough": 800000},
		Gen:  gen, Decode: decode, Run: run, Shrink: shrink,
		ProbeNames: []string{"dropped-root-shares-nodes-with-live-root", "storage-root-shared-by-accounts", "root-referenced-twice", "cap-flushed-partially", "cap-flushed-everything", "cap-several-batches",
			"commit-wrote-nodes", "commit-several-batches", "update-redeclares-dirty-node", "update-reinserts-flushed-node", "all-references-dropped", "rewrite-account", "rewrite-storage-slot"},
	}}
}
