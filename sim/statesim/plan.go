package statesim

import (
	"encoding/json"

	"github.com/ethereum/go-ethereum/common"
	"github.com/holiman/uint256"

	"verifsim/simcore"
)

// Op is one planned step inside a transaction. Its arguments are selectors that
// are resolved against the model state when it is executed (an op whose
// precondition does not hold is skipped), so that any sub-sequence of a plan
// is again a valid plan: shrinking never fabricates an illegal API use.
type Op struct {
	K string `json:"k"`
	A int    `json:"a,omitempty"` // address index
	B int    `json:"b,omitempty"` // second address index (beneficiary, recipient, delegate)
	S int    `json:"s,omitempty"` // slot index
	V uint64 `json:"v,omitempty"` // value / amount / getter selector
	R bool   `json:"r,omitempty"` // "restore": use the value the item had at tx start
}

type ALEntry struct {
	A int   `json:"a"`
	S []int `json:"s,omitempty"`
}

type Tx struct {
	Sender int       `json:"sender"`
	Dst    int       `json:"dst"` // -1 = contract creation tx (no destination)
	AL     []ALEntry `json:"al,omitempty"`
	Ops    []Op      `json:"ops"`
	Root   bool      `json:"root,omitempty"` // IntermediateRoot after this tx (pre-Byzantium style receipt root)
}

type Block struct {
	Rules    int  `json:"rules"`
	Txs      []Tx `json:"txs"`
	Prefetch bool `json:"prefetch,omitempty"`
	// system-call scopes (executed from Cancun rules on): Pre under block access
	// index 0 before the transactions, Post under index len(Txs)+1 after them
	Pre  []Tx `json:"pre,omitempty"`
	Post []Tx `json:"post,omitempty"`
	// C14
	CopyAt  int  `json:"copy_at"`  // Copy() after this many txs of the block (-1 = never)
	CopyMid int  `json:"copy_mid"` // >= 0: Copy() inside tx CopyAt, before its op CopyMid or at the next point of call depth 0; CopyTxs[0] then continues that tx on the copy
	CopyTxs []Tx `json:"copy_txs,omitempty"`
	Flush   bool `json:"flush,omitempty"`  // push everything to disk after the commit (no restart)
	Reopen  int  `json:"reopen,omitempty"` // 0 no, 1 clean restart via journal, 2 clean restart after full flush
}

type Plan struct {
	Prop   string   `json:"prop"`
	Scheme string   `json:"scheme"` // hash | path
	Snap   bool     `json:"snap"`   // hash scheme: legacy snapshot tree attached (flat reader)
	Cache  bool     `json:"cache"`  // clean caches enabled
	Gated  bool     `json:"gated"`  // disk reads are scheduler gates (prefetcher interleaving decided by the tape)
	Blocks []Block  `json:"blocks"`
	Tape   []uint16 `json:"tape,omitempty"`
}

// ---- the small universe

const (
	NA = 7 // addresses; index 0 is the transaction sender (an EOA whose nonce only grows)
	NS = 5 // storage slots
)

var (
	addrs    [NA]common.Address
	slots    [NS]common.Hash
	coinbase = common.HexToAddress("0xc01ba5e000000000000000000000000000000001")
	precomp  = []common.Address{common.BytesToAddress([]byte{1}), common.BytesToAddress([]byte{2})}
)

// Addresses and slot keys are chosen by search so that their Keccak images share
// nibble prefixes: the secure tries then contain extension nodes and nested
// branches that collapse and split as entries come and go.
func init() {
	want := []string{"", "", "3", "3", "3a", "3a", "7"} // required hex prefix of keccak(addr)
	n := uint64(0)
	for i := range addrs {
		for {
			n++
			var a common.Address
			a[0] = 0x5a
			for j := 0; j < 8; j++ {
				a[19-j] = byte(n >> (8 * j))
			}
			if hasNibblePrefix(keccak(a[:]), want[i]) {
				addrs[i] = a
				break
			}
		}
	}
	wantS := []string{"", "c", "c", "c4", "c4"}
	n = 0
	for i := range slots {
		for {
			var s common.Hash
			for j := 0; j < 8; j++ {
				s[31-j] = byte(n >> (8 * j))
			}
			n++
			if hasNibblePrefix(keccak(s[:]), wantS[i]) {
				slots[i] = s
				break
			}
		}
	}
}

func hasNibblePrefix(h []byte, p string) bool {
	const hexd = "0123456789abcdef"
	for i := 0; i < len(p); i++ {
		nib := h[i/2] >> 4
		if i%2 == 1 {
			nib = h[i/2] & 15
		}
		if hexd[nib] != p[i] {
			return false
		}
	}
	return true
}

func mod(i, n int) int {
	i %= n
	if i < 0 {
		i += n
	}
	return i
}

func addrOf(i int) common.Address { return addrs[mod(i, NA)] }
func slotOf(i int) common.Hash    { return slots[mod(i, NS)] }

// amount resolves a value selector to a balance amount.
func amount(v uint64) *uint256.Int {
	small := []uint64{0, 0, 1, 1, 2, 3, 7, 100, 255, 256, 65535, 1 << 32}
	k := v % 16
	if int(k) < len(small) {
		return uint256.NewInt(small[k])
	}
	x := uint256.NewInt(1)
	switch k {
	case 12:
		x.Lsh(x, 64)
	case 13:
		x.Lsh(x, 128)
		x.AddUint64(x, 5)
	case 14:
		x.Lsh(x, 200)
	default:
		x.Lsh(x, 250)
		x.SubUint64(x, 1)
	}
	return x
}

// slotValue resolves a value selector to a storage word. The pool covers the RLP
// boundaries (single byte < 0x80, 0x80, 55/56-byte strings do not apply to words,
// full 32 bytes) and zero (deletion).
func slotValue(v uint64) common.Hash {
	var h common.Hash
	switch v % 10 {
	case 0, 1:
		// zero
	case 2:
		h[31] = 1
	case 3:
		h[31] = 0x7f
	case 4:
		h[31] = 0x80
	case 5:
		h[30], h[31] = 1, 0
	case 6:
		h[0] = 0x80 // full 32-byte word
	case 7:
		for i := range h {
			h[i] = 0xff
		}
	default:
		x := simcore.SplitMix(v)
		for i := 0; i < 8; i++ {
			h[8+i] = byte(x >> (8 * i))
			h[24+i] = byte(v >> (8 * i))
		}
	}
	return h
}

var codePool = [][]byte{
	{0x00},
	{0x60, 0x01, 0x60, 0x00, 0x55, 0x00},
	func() []byte {
		b := make([]byte, 70)
		for i := range b {
			b[i] = byte(0x5b + i%3)
		}
		return b
	}(),
	{0xfe},
}

func codeOf(v uint64) []byte { return codePool[v%uint64(len(codePool))] }

func delegation(a common.Address) []byte {
	return append([]byte{0xef, 0x01, 0x00}, a[:]...)
}

func isDelegation(code []byte) bool {
	return len(code) == 23 && code[0] == 0xef && code[1] == 0x01 && code[2] == 0x00
}

func nonceDelta(v uint64) uint64 {
	d := []uint64{0, 1, 1, 1, 2, 5, 1 << 32}
	return d[v%uint64(len(d))]
}

// ---- generation

// gatedShare is the fraction of plans whose disk reads are scheduler gates.
var gatedShare = 0.04

type genCfg struct {
	prop                      string
	maxBlocks, maxTxs, maxOps int
}

func Decode(b []byte) (any, error) {
	p := &Plan{}
	err := json.Unmarshal(b, p)
	return p, err
}

func clonePlan(p *Plan) *Plan {
	b, _ := json.Marshal(p)
	q := &Plan{}
	json.Unmarshal(b, q)
	return q
}

func genFor(prop string) func(r *simcore.Rand, tier string) any {
	return func(r *simcore.Rand, tier string) any { return Gen(r, prop) }
}

// Gen draws a complete plan. It runs the reference model alongside so that most
// generated operations meet their preconditions (the executor would skip the
// others anyway).
func Gen(r *simcore.Rand, prop string) *Plan {
	p := &Plan{Prop: prop}
	if r.Bool(0.5) {
		p.Scheme = "path"
	} else {
		p.Scheme = "hash"
		p.Snap = r.Bool(0.5)
	}
	p.Cache = r.Bool(0.3)
	if r.Bool(gatedShare) {
		p.Gated = true
		p.Tape = r.Tape(600)
	}
	var nblocks int
	switch prop {
	case "C14":
		nblocks = r.Range(2, 6)
	case "C15":
		nblocks = r.Range(1, 3)
	default:
		nblocks = r.Range(1, 4)
	}
	// fork progression: non-decreasing rule sets
	rules := r.Intn(4)
	if prop == "C15" {
		rules = RAmsterdam
		if nblocks > 1 && r.Bool(0.3) {
			rules = r.Range(REIP158, RCancun) // a pre-Amsterdam prefix builds the starting state
		}
	}
	g := &exec{m: NewModel()}
	for b := 0; b < nblocks; b++ {
		if b > 0 && rules < RAmsterdam {
			if prop == "C15" && b == nblocks-1 {
				rules = RAmsterdam
			} else if prop == "C15" {
				if r.Bool(0.5) {
					rules = RAmsterdam
				}
			} else if r.Bool(0.3) {
				rules = r.Range(rules, RAmsterdam)
			}
		}
		if eff := EffectiveRules(rules, g.m.World()); eff != rules {
			if prop == "C15" {
				// cannot reach Amsterdam from here: start over with a state built under later rules
				return Gen(r, prop)
			}
			rules = eff
		}
		blk := Block{Rules: rules, CopyAt: -1, CopyMid: -1, Prefetch: r.Bool(0.4)}
		ntx := r.Range(0, 5)
		if r.Bool(0.8) && ntx == 0 {
			ntx = 1
		}
		g.m.BeginBlock(rules)
		before := g.m.World().copy()
		// Scenario (pre-Cancun): a contract with committed storage clears all its slots
		// in one transaction, an intermediate root is computed, and a later transaction
		// of the same block self-destructs it; later blocks tend to re-create it.
		clearTx, killTx, victim := -1, -1, -1
		if rules < RCancun && ntx >= 2 && r.Bool(0.35) {
			var c []int
			for i := 1; i < NA; i++ {
				if acc := before[addrs[i]]; acc != nil && len(acc.Stor) > 0 && len(acc.Code) > 0 {
					c = append(c, i)
				}
			}
			if len(c) > 0 {
				victim = c[r.Intn(len(c))]
				clearTx = r.Intn(ntx - 1)
				killTx = r.Range(clearTx+1, ntx-1)
			}
		}
		pSys := 0.3
		if prop == "C15" {
			pSys = 0.5
		}
		if rules >= RCancun && r.Bool(pSys) {
			for k := r.Range(1, 2); k > 0; k-- {
				blk.Pre = append(blk.Pre, genSys(r, g, prop, 0))
			}
		}
		copyAt := -1
		if prop == "C14" && r.Bool(0.45) {
			copyAt = r.Intn(ntx + 1)
		}
		var fork *exec
		mid := copyAt >= 0 && copyAt < ntx && r.Bool(0.4)
		for t := 0; t < ntx; t++ {
			if t == clearTx {
				g.post = []Op{{K: "clear", A: victim}}
				g.forceRoot = true
			}
			if t == killTx {
				g.post = []Op{{K: "destruct", A: victim, B: r.Intn(NA)}}
			}
			if t == copyAt && !mid {
				fork = &exec{m: g.m.Fork()}
			}
			if t == copyAt && mid {
				blk.CopyMid = r.Intn(8)
				tx := genTxMid(r, g, prop, t, blk.CopyMid, func() {
					// the copy continues this transaction with its own operations
					fork = &exec{m: g.m.Fork()}
					cont := Tx{Sender: 0, Dst: -1}
					genOps(r, fork, prop, &cont)
					fork.endTx(&cont)
					blk.CopyTxs = append(blk.CopyTxs, cont)
				})
				blk.Txs = append(blk.Txs, tx)
				continue
			}
			blk.Txs = append(blk.Txs, genTx(r, g, prop, t))
		}
		if copyAt == ntx {
			fork = &exec{m: g.m.Fork()}
		}
		if rules >= RCancun && r.Bool(pSys) {
			for k := r.Range(1, 3); k > 0; k-- {
				blk.Post = append(blk.Post, genSys(r, g, prop, uint32(ntx+1)))
			}
		}
		if fork != nil {
			blk.CopyAt = copyAt
			nct := r.Range(0, 3)
			for t := 0; t < nct; t++ {
				blk.CopyTxs = append(blk.CopyTxs, genTx(r, fork, prop, copyAt+len(blk.CopyTxs)))
			}
		}
		for i := 1; i < NA; i++ {
			if acc := before[addrs[i]]; acc != nil && len(acc.Stor) > 0 && g.m.World()[addrs[i]] == nil {
				g.ghost = append(g.ghost, i)
			}
		}
		if prop == "C14" {
			blk.Flush = r.Bool(0.2)
			if r.Bool(0.5) || b == nblocks-1 {
				blk.Reopen = r.Range(1, 2)
			}
		} else {
			blk.Flush = r.Bool(0.15)
			if r.Bool(0.1) {
				blk.Reopen = r.Range(1, 2)
			}
		}
		p.Blocks = append(p.Blocks, blk)
	}
	return p
}

func genTx(r *simcore.Rand, g *exec, prop string, ti int) Tx {
	return genTxMid(r, g, prop, ti, -1, nil)
}

// genTxMid generates one transaction; if midAt >= 0, onMid is called at the
// point where the executor will take a mid-transaction copy (before the first
// operation with index >= midAt at call depth 0, else after the last frame has
// been closed).
func genTxMid(r *simcore.Rand, g *exec, prop string, ti int, midAt int, onMid func()) Tx {
	tx := Tx{Sender: 0, Dst: r.Range(-1, NA-1)}
	rules := g.m.rules
	if rules >= REIP158 && r.Bool(0.3) {
		n := r.Range(1, 2)
		for i := 0; i < n; i++ {
			e := ALEntry{A: r.Intn(NA)}
			for j := r.Intn(3); j > 0; j-- {
				e.S = append(e.S, r.Intn(NS))
			}
			tx.AL = append(tx.AL, e)
		}
	}
	g.beginTx(&tx, 0, ti)
	genOpsMid(r, g, prop, &tx, midAt, onMid)
	if rules == RPre158 {
		tx.Root = r.Bool(0.6)
	} else {
		tx.Root = r.Bool(0.15)
	}
	if g.forceRoot {
		tx.Root, g.forceRoot = true, false
	}
	g.endTx(&tx)
	return tx
}

// genSys generates one system-call scope.
func genSys(r *simcore.Rand, g *exec, prop string, idx uint32) Tx {
	tx := Tx{Sender: 0, Dst: r.Intn(NA)}
	g.beginSys(&tx, idx)
	genOps(r, g, prop, &tx)
	tx.Root = r.Bool(0.1)
	g.endTx(&tx)
	return tx
}

func genOps(r *simcore.Rand, g *exec, prop string, tx *Tx) { genOpsMid(r, g, prop, tx, -1, nil) }

func genOpsMid(r *simcore.Rand, g *exec, prop string, tx *Tx, midAt int, onMid func()) {
	nops := r.Range(0, 12)
	if r.Bool(0.35) {
		nops = r.Range(10, 40)
	}
	sweepy := prop != "C15" // in C15 runs full sweeps inside a tx would make every item a recorded read
	var lastStore *Op
	mid := func() {
		if midAt >= 0 && len(tx.Ops) >= midAt && g.m.Depth() == 0 {
			midAt = -1
			onMid()
		}
	}
	for i := 0; i < nops; i++ {
		mid()
		op := genOp(r, g, prop, lastStore)
		if !g.do(op) {
			continue
		}
		tx.Ops = append(tx.Ops, op)
		if op.K == "sstore" && !op.R {
			o := op
			lastStore = &o
		}
		if (op.K == "revert" || op.K == "keep") && sweepy && r.Bool(0.7) {
			mid()
			sw := Op{K: "sweep"}
			g.do(sw)
			tx.Ops = append(tx.Ops, sw)
		}
	}
	for g.m.Depth() > 0 {
		mid()
		op := Op{K: "keep"}
		if r.Bool(0.4) {
			op.K = "revert"
		}
		g.do(op)
		tx.Ops = append(tx.Ops, op)
	}
	if midAt >= 0 {
		midAt = 0
		mid()
	}
	for _, op := range g.post {
		if g.do(op) {
			tx.Ops = append(tx.Ops, op)
		}
	}
	g.post = nil
}

// pickAddr prefers addresses satisfying ok.
func pickAddr(r *simcore.Rand, ok func(a common.Address) bool) int {
	var c []int
	for i := 0; i < NA; i++ {
		if ok(addrs[i]) {
			c = append(c, i)
		}
	}
	if len(c) == 0 || r.Bool(0.1) {
		return r.Intn(NA)
	}
	return c[r.Intn(len(c))]
}

func genOp(r *simcore.Rand, g *exec, prop string, lastStore *Op) Op {
	m := g.m
	rules := m.rules
	exists := func(a common.Address) bool { return m.acct(a) != nil }
	op := Op{A: r.Intn(NA), B: r.Intn(NA), S: r.Intn(NS), V: r.Uint64() >> 8}
	wAL, wT, wSnap, wRev := 0, 0, 6, 0
	if rules >= REIP158 {
		wAL = 3
	}
	if rules >= RCancun {
		wT = 4
	}
	if m.Depth() >= 5 {
		wSnap = 0
	}
	if m.Depth() > 0 {
		wRev = 7
	}
	wRestore := 0
	if lastStore != nil {
		wRestore = 4
	}
	switch r.Pick(
		7,        // 0 add
		5,        // 1 sub
		2,        // 2 setbal
		3,        // 3 nonce
		4,        // 4 code
		14,       // 5 sstore
		wT,       // 6 tstore
		2,        // 7 newacct
		7,        // 8 create
		5,        // 9 destruct
		5,        // 10 transfer
		2,        // 11 refund+
		1,        // 12 refund-
		2,        // 13 log
		wAL,      // 14 al
		wSnap,    // 15 snap
		wRev,     // 16 revert/keep
		12,       // 17 get
		wRestore, // 18 restore a slot to its tx-start value
		2,        // 19 touch
		1,        // 20 clear all slots
	) {
	case 0:
		op.K = "add"
	case 1:
		op.K = "sub"
		op.A = pickAddr(r, exists)
	case 2:
		op.K = "setbal"
		op.R = r.Bool(0.3)
	case 3:
		op.K = "nonce"
	case 4:
		op.K = "code"
		op.A = pickAddr(r, func(a common.Address) bool {
			acc := m.acct(a)
			return acc != nil && m.cur.newContract[a] && len(acc.Code) == 0
		})
		if r.Bool(0.3) {
			op.A = r.Intn(NA)
		}
	case 5:
		op.K = "sstore"
		op.A = pickAddr(r, m.CanStore)
		if !m.CanStore(addrOf(op.A)) {
			op.K = "create"
			op.A = pickAddr(r, m.CanCreate)
		}
	case 6:
		op.K = "tstore"
	case 7:
		op.K = "newacct"
		op.A = pickAddr(r, func(a common.Address) bool { return !exists(a) })
	case 8:
		op.K = "create"
		op.A = pickAddr(r, m.CanCreate)
		if len(g.ghost) > 0 && r.Bool(0.6) {
			// re-create an address whose previous incarnation had storage
			if i := g.ghost[r.Intn(len(g.ghost))]; m.CanCreate(addrs[i]) {
				op.A = i
			}
		}
	case 9:
		op.K = "destruct"
		op.A = pickAddr(r, func(a common.Address) bool {
			acc := m.acct(a)
			if acc == nil {
				return false
			}
			if rules >= RCancun {
				return m.cur.newContract[a]
			}
			return len(acc.Code) != 0 || m.cur.newContract[a]
		})
		if r.Bool(0.2) {
			op.B = op.A
		}
	case 10:
		op.K = "transfer"
		op.A = pickAddr(r, exists)
	case 11:
		op.K = "refund+"
	case 12:
		op.K = "refund-"
	case 13:
		op.K = "log"
	case 14:
		if r.Bool(0.5) {
			op.K = "aladdr"
		} else {
			op.K = "alslot"
		}
	case 15:
		op.K = "snap"
	case 16:
		if r.Bool(0.55) {
			op.K = "revert"
		} else {
			op.K = "keep"
		}
	case 17:
		op.K = "get"
		op.V = uint64(r.Intn(numGetters))
		if r.Bool(0.7) {
			op.A = pickAddr(r, exists)
		}
	case 18:
		op = *lastStore
		op.R = true
	case 19:
		op.K = "add"
		op.V = 0
	case 20:
		op.K = "clear"
		op.A = pickAddr(r, func(a common.Address) bool {
			acc := m.acct(a)
			return acc != nil && len(acc.Stor) > 0 && m.CanStore(a)
		})
	}
	return op
}

// ---- shrinking

func Shrink(pl any) []any {
	p := pl.(*Plan)
	var out []any
	add := func(q *Plan) { out = append(out, q) }
	// drop trailing / leading blocks
	for n := len(p.Blocks) / 2; n >= 1; n /= 2 {
		if len(p.Blocks)-n >= 1 {
			q := clonePlan(p)
			q.Blocks = q.Blocks[:len(q.Blocks)-n]
			add(q)
		}
	}
	for i := range p.Blocks {
		if len(p.Blocks) > 1 {
			q := clonePlan(p)
			q.Blocks = append(q.Blocks[:i], q.Blocks[i+1:]...)
			add(q)
		}
	}
	for bi := range p.Blocks {
		b := &p.Blocks[bi]
		if b.CopyAt >= 0 {
			q := clonePlan(p)
			q.Blocks[bi].CopyAt, q.Blocks[bi].CopyMid, q.Blocks[bi].CopyTxs = -1, -1, nil
			add(q)
			if b.CopyMid >= 0 {
				q = clonePlan(p)
				q.Blocks[bi].CopyMid = -1
				add(q)
			}
		}
		for _, s := range simcore.ShrinkSlice(b.Txs) {
			q := clonePlan(p)
			q.Blocks[bi].Txs = s
			if q.Blocks[bi].CopyAt > len(s) {
				q.Blocks[bi].CopyAt = len(s)
			}
			add(q)
		}
		for _, s := range simcore.ShrinkSlice(b.CopyTxs) {
			q := clonePlan(p)
			q.Blocks[bi].CopyTxs = s
			add(q)
		}
		for _, s := range simcore.ShrinkSlice(b.Pre) {
			q := clonePlan(p)
			q.Blocks[bi].Pre = s
			add(q)
		}
		for _, s := range simcore.ShrinkSlice(b.Post) {
			q := clonePlan(p)
			q.Blocks[bi].Post = s
			add(q)
		}
		for ti := range b.Pre {
			for _, s := range simcore.ShrinkSlice(b.Pre[ti].Ops) {
				q := clonePlan(p)
				q.Blocks[bi].Pre[ti].Ops = s
				add(q)
			}
		}
		for ti := range b.Post {
			for _, s := range simcore.ShrinkSlice(b.Post[ti].Ops) {
				q := clonePlan(p)
				q.Blocks[bi].Post[ti].Ops = s
				add(q)
			}
		}
		if b.Prefetch || b.Flush || b.Reopen != 0 {
			q := clonePlan(p)
			q.Blocks[bi].Prefetch = false
			add(q)
			q = clonePlan(p)
			q.Blocks[bi].Flush = false
			add(q)
			if bi != len(p.Blocks)-1 || p.Prop != "C14" {
				q = clonePlan(p)
				q.Blocks[bi].Reopen = 0
				add(q)
			}
		}
	}
	for bi := range p.Blocks {
		for ti := range p.Blocks[bi].Txs {
			tx := &p.Blocks[bi].Txs[ti]
			for _, s := range simcore.ShrinkSlice(tx.Ops) {
				q := clonePlan(p)
				q.Blocks[bi].Txs[ti].Ops = s
				add(q)
			}
			if len(tx.AL) > 0 || tx.Root {
				q := clonePlan(p)
				q.Blocks[bi].Txs[ti].AL = nil
				q.Blocks[bi].Txs[ti].Root = false
				add(q)
			}
		}
		for ti := range p.Blocks[bi].CopyTxs {
			for _, s := range simcore.ShrinkSlice(p.Blocks[bi].CopyTxs[ti].Ops) {
				q := clonePlan(p)
				q.Blocks[bi].CopyTxs[ti].Ops = s
				add(q)
			}
		}
	}
	if p.Cache || p.Snap || p.Gated {
		q := clonePlan(p)
		q.Cache = false
		add(q)
		q = clonePlan(p)
		q.Gated = false
		add(q)
		q = clonePlan(p)
		q.Snap = false
		add(q)
	}
	return out
}
