package statesim

import (
	"bytes"
	"encoding/binary"
	"fmt"

	"github.com/ethereum/go-ethereum/common"
	"github.com/ethereum/go-ethereum/core/state"
	"github.com/ethereum/go-ethereum/core/types"
	"github.com/ethereum/go-ethereum/core/types/bal"
	"github.com/ethereum/go-ethereum/params"
	"github.com/holiman/uint256"
)

// exec interprets plan operations on the model and, when st is set, on the
// real StateDB in lock step, comparing everything the API returns. The
// generator uses it with st == nil, so generation and execution cannot drift.
//
// The call sequences of the composite operations (transfer, create,
// destruct, code) are the ones the EVM and the state transition make
// (core/vm/evm.go, core/vm/instructions.go, core/state_transition.go): the
// model states the StateDB contract as its user exercises it.
type exec struct {
	m    *Model
	st   *state.StateDB
	run  *runner
	name string
	revs []int // StateDB revision ids of the open frames

	// generator only
	post      []Op  // operations to append to the next transaction after its frames are closed
	forceRoot bool  // the next transaction is followed by an IntermediateRoot
	ghost     []int // addresses whose account was removed while it had committed storage
}

const numGetters = 15

func rulesOf(r int) params.Rules {
	var p params.Rules
	p.IsHomestead, p.IsEIP150 = true, true
	if r >= REIP158 {
		p.IsEIP155, p.IsEIP158 = true, true
		p.IsByzantium, p.IsConstantinople, p.IsPetersburg, p.IsIstanbul = true, true, true, true
		p.IsBerlin, p.IsEIP2929, p.IsLondon, p.IsMerge, p.IsShanghai = true, true, true, true, true
	}
	if r >= RCancun {
		p.IsCancun, p.IsPrague = true, true
	}
	if r >= RAmsterdam {
		p.IsOsaka, p.IsAmsterdam = true, true
	}
	return p
}

func txHash(blk, ti int) common.Hash {
	var b [16]byte
	binary.BigEndian.PutUint64(b[:8], uint64(blk)+1)
	binary.BigEndian.PutUint64(b[8:], uint64(ti)+1)
	return common.BytesToHash(keccak(b[:]))
}

func (x *exec) sut() bool { return x.st != nil }

// ---- comparisons (SUT mode only)

func (x *exec) eqU(what string, got, want *uint256.Int) {
	x.run.obs(got.Bytes())
	if got.Cmp(want) != 0 {
		x.run.failf("getter", "%s: %s: StateDB says %s, model says %s", x.name, what, got, want)
	}
}
func (x *exec) eqN(what string, got, want uint64) {
	x.run.obsU(got)
	if got != want {
		x.run.failf("getter", "%s: %s: StateDB says %d, model says %d", x.name, what, got, want)
	}
}
func (x *exec) eqB(what string, got, want bool) {
	if got {
		x.run.obsU(1)
	} else {
		x.run.obsU(0)
	}
	if got != want {
		x.run.failf("getter", "%s: %s: StateDB says %v, model says %v", x.name, what, got, want)
	}
}
func (x *exec) eqH(what string, got, want common.Hash) {
	x.run.obs(got[:])
	if got != want {
		x.run.failf("getter", "%s: %s: StateDB says %x, model says %x", x.name, what, got, want)
	}
}
func (x *exec) eqBytes(what string, got, want []byte) {
	x.run.obs(got)
	if !bytes.Equal(got, want) {
		x.run.failf("getter", "%s: %s: StateDB says %x, model says %x", x.name, what, got, want)
	}
}

// ---- primitive calls, model and StateDB in lock step

func (x *exec) exist(a common.Address) bool {
	w := x.m.Exist(a)
	if x.sut() {
		x.eqB(fmt.Sprintf("Exist(%x)", a[18:]), x.st.Exist(a), w)
	}
	return w
}
func (x *exec) getBalance(a common.Address) *uint256.Int {
	w := x.m.Balance(a)
	if x.sut() {
		x.eqU(fmt.Sprintf("GetBalance(%x)", a[18:]), x.st.GetBalance(a), w)
	}
	return new(uint256.Int).Set(w)
}
func (x *exec) getNonce(a common.Address) uint64 {
	w := x.m.Nonce(a)
	if x.sut() {
		x.eqN(fmt.Sprintf("GetNonce(%x)", a[18:]), x.st.GetNonce(a), w)
	}
	return w
}
func (x *exec) getCode(a common.Address) []byte {
	w := x.m.Code(a)
	if x.sut() {
		x.eqBytes(fmt.Sprintf("GetCode(%x)", a[18:]), x.st.GetCode(a), w)
	}
	return w
}
func (x *exec) getCodeHash(a common.Address) {
	w := x.m.CodeHash(a)
	if x.sut() {
		x.eqH(fmt.Sprintf("GetCodeHash(%x)", a[18:]), x.st.GetCodeHash(a), w)
	}
}
func (x *exec) getCodeSize(a common.Address) {
	w := len(x.m.Code(a))
	if x.sut() {
		x.eqN(fmt.Sprintf("GetCodeSize(%x)", a[18:]), uint64(x.st.GetCodeSize(a)), uint64(w))
	}
}
func (x *exec) getState(a common.Address, k common.Hash) {
	w := x.m.State(a, k)
	if x.sut() {
		x.eqH(fmt.Sprintf("GetState(%x,%x)", a[18:], k[28:]), x.st.GetState(a, k), w)
	}
}
func (x *exec) getCommitted(a common.Address, k common.Hash) {
	w := x.m.CommittedState(a, k)
	if x.sut() {
		x.eqH(fmt.Sprintf("GetCommittedState(%x,%x)", a[18:], k[28:]), x.st.GetCommittedState(a, k), w)
	}
}
func (x *exec) getBoth(a common.Address, k common.Hash) {
	wc := x.m.CommittedState(a, k)
	wv := x.m.State(a, k)
	if x.sut() {
		v, c := x.st.GetStateAndCommittedState(a, k)
		x.eqH(fmt.Sprintf("GetStateAndCommittedState(%x,%x).current", a[18:], k[28:]), v, wv)
		x.eqH(fmt.Sprintf("GetStateAndCommittedState(%x,%x).committed", a[18:], k[28:]), c, wc)
	}
}
func (x *exec) empty(a common.Address) {
	w := x.m.Empty(a)
	if x.sut() {
		x.eqB(fmt.Sprintf("Empty(%x)", a[18:]), x.st.Empty(a), w)
	}
}
func (x *exec) hasSD(a common.Address) {
	w := x.m.HasSelfDestructed(a)
	if x.sut() {
		x.eqB(fmt.Sprintf("HasSelfDestructed(%x)", a[18:]), x.st.HasSelfDestructed(a), w)
	}
}
func (x *exec) isNew(a common.Address) bool {
	w := x.m.IsNewContract(a)
	if x.sut() {
		x.eqB(fmt.Sprintf("IsNewContract(%x)", a[18:]), x.st.IsNewContract(a), w)
	}
	return w
}
func (x *exec) getTransient(a common.Address, k common.Hash) {
	w := x.m.Transient(a, k)
	if x.sut() {
		x.eqH(fmt.Sprintf("GetTransientState(%x,%x)", a[18:], k[28:]), x.st.GetTransientState(a, k), w)
	}
}
func (x *exec) getRefund() {
	if x.sut() {
		x.eqN("GetRefund", x.st.GetRefund(), x.m.Refund())
	}
}
func (x *exec) alQuery(a common.Address, k common.Hash) {
	if x.sut() {
		x.eqB(fmt.Sprintf("AddressInAccessList(%x)", a[18:]), x.st.AddressInAccessList(a), x.m.AddressInAL(a))
		ga, gs := x.st.SlotInAccessList(a, k)
		wa, ws := x.m.SlotInAL(a, k)
		x.eqB(fmt.Sprintf("SlotInAccessList(%x,%x).addr", a[18:], k[28:]), ga, wa)
		x.eqB(fmt.Sprintf("SlotInAccessList(%x,%x).slot", a[18:], k[28:]), gs, ws)
	}
}

func (x *exec) addBalance(a common.Address, v *uint256.Int) {
	w := x.m.AddBalance(a, v)
	if x.sut() {
		g := x.st.AddBalance(a, v, 0)
		x.eqU(fmt.Sprintf("AddBalance(%x,%s) previous balance", a[18:], v), &g, w)
	}
}
func (x *exec) subBalance(a common.Address, v *uint256.Int) {
	w := x.m.SubBalance(a, v)
	if x.sut() {
		g := x.st.SubBalance(a, v, 0)
		x.eqU(fmt.Sprintf("SubBalance(%x,%s) previous balance", a[18:], v), &g, w)
	}
}
func (x *exec) setBalance(a common.Address, v *uint256.Int) {
	x.m.SetBalance(a, v)
	if x.sut() {
		x.st.SetBalance(a, new(uint256.Int).Set(v), 0)
	}
}
func (x *exec) setNonce(a common.Address, n uint64) {
	x.m.SetNonce(a, n)
	if x.sut() {
		x.st.SetNonce(a, n, 0)
	}
}
func (x *exec) setCode(a common.Address, code []byte) {
	w := x.m.SetCode(a, code)
	if x.sut() {
		g := x.st.SetCode(a, append([]byte{}, code...), 0)
		x.eqBytes(fmt.Sprintf("SetCode(%x) previous code", a[18:]), g, w)
	}
}
func (x *exec) setState(a common.Address, k, v common.Hash) {
	w := x.m.SetState(a, k, v)
	if x.sut() {
		g := x.st.SetState(a, k, v)
		x.eqH(fmt.Sprintf("SetState(%x,%x) previous value", a[18:], k[28:]), g, w)
	}
}
func (x *exec) createAccount(a common.Address) {
	x.m.CreateAccount(a)
	if x.sut() {
		x.st.CreateAccount(a)
	}
}
func (x *exec) createContract(a common.Address) {
	x.m.CreateContract(a)
	if x.sut() {
		x.st.CreateContract(a)
	}
}
func (x *exec) selfDestruct(a common.Address) {
	x.m.SelfDestruct(a)
	if x.sut() {
		x.st.SelfDestruct(a)
	}
}
func (x *exec) addAddressToAL(a common.Address) {
	x.m.AddAddressToAL(a)
	if x.sut() {
		x.st.AddAddressToAccessList(a)
	}
}

// checkAccount reads back the account-level getters of an address the
// operation has just accessed (no new access is introduced).
func (x *exec) checkAccount(a common.Address) {
	if !x.sut() {
		// keep the model's access tracking identical in generator mode
		x.m.touchAddr(a)
		return
	}
	x.exist(a)
	x.getBalance(a)
	x.getNonce(a)
	x.getCodeHash(a)
	x.empty(a)
	x.hasSD(a)
}

// sweep compares every getter over the whole universe.
func (x *exec) sweep() {
	for i := 0; i < NA; i++ {
		a := addrs[i]
		if !x.sut() {
			x.m.touchAddr(a)
			acc := x.m.acct(a)
			for j := 0; j < NS; j++ {
				x.m.touchSlot(a, slots[j], acc != nil)
			}
			continue
		}
		x.exist(a)
		x.getBalance(a)
		x.getNonce(a)
		x.getCode(a)
		x.getCodeHash(a)
		x.getCodeSize(a)
		x.empty(a)
		x.hasSD(a)
		if x.m.rules >= RCancun {
			x.isNew(a)
		}
		for j := 0; j < NS; j++ {
			x.getBoth(a, slots[j])
			x.getState(a, slots[j])
			x.getTransient(a, slots[j])
			x.alQuery(a, slots[j])
		}
	}
	x.getRefund()
	x.checkLogs()
}

func (x *exec) checkLogs() {
	if !x.sut() {
		return
	}
	got := x.st.Logs()
	want := x.m.Logs()
	if len(got) != len(want) {
		x.run.failf("getter", "%s: Logs(): StateDB has %d logs, model has %d", x.name, len(got), len(want))
	}
	for i, l := range got {
		w := want[i]
		tag := uint64(0)
		if len(l.Data) == 8 {
			tag = binary.BigEndian.Uint64(l.Data)
		}
		if l.Address != w.Addr || tag != w.Tag || l.TxHash != w.TxHash || l.TxIndex != w.TxIndex || l.Index != w.Index {
			x.run.failf("getter", "%s: Logs()[%d] = {addr %x tag %d tx %x txIndex %d index %d}, model {addr %x tag %d tx %x txIndex %d index %d}",
				x.name, i, l.Address[18:], tag, l.TxHash[:4], l.TxIndex, l.Index, w.Addr[18:], w.Tag, w.TxHash[:4], w.TxIndex, w.Index)
		}
	}
	x.run.obsU(uint64(len(got)))
}

// ---- transaction boundaries

func (x *exec) beginTx(tx *Tx, blk, ti int) {
	h := txHash(blk, ti)
	sender := addrOf(tx.Sender)
	var dst *common.Address
	if tx.Dst >= 0 {
		d := addrOf(tx.Dst)
		dst = &d
	}
	var alA []common.Address
	var alS []slotKey
	var list types.AccessList
	for _, e := range tx.AL {
		t := types.AccessTuple{Address: addrOf(e.A)}
		alA = append(alA, addrOf(e.A))
		for _, s := range e.S {
			t.StorageKeys = append(t.StorageKeys, slotOf(s))
			alS = append(alS, slotKey{addrOf(e.A), slotOf(s)})
		}
		list = append(list, t)
	}
	x.m.SetTxContext(h, ti, uint32(ti+1))
	x.m.Prepare(sender, coinbase, dst, precomp, alA, alS)
	if x.sut() {
		x.st.SetTxContext(h, ti, uint32(ti+1))
		x.st.Prepare(rulesOf(x.m.rules), sender, coinbase, dst, precomp, list)
	}
	// the state transition bumps the sender's nonce first
	n := x.getNonce(sender)
	x.setNonce(sender, n+1)
}

// beginSys opens a system-call scope the way core/state_processor.go does
// (ProcessBeaconBlockRoot, ProcessParentBlockHash, processRequestsSystemCall):
// Prepare with zero sender and coinbase, SetTxContext(zero hash, 0, index), warm
// the called contract. No nonce bump, no value transfer.
func (x *exec) beginSys(tx *Tx, idx uint32) {
	target := addrOf(tx.Dst)
	x.m.Prepare(common.Address{}, common.Address{}, nil, nil, nil, nil)
	x.m.SetTxContext(common.Hash{}, 0, idx)
	if x.sut() {
		x.st.Prepare(rulesOf(x.m.rules), common.Address{}, common.Address{}, nil, nil, nil)
		x.st.SetTxContext(common.Hash{}, 0, idx)
	}
	x.addAddressToAL(target)
}

// endTx closes any frame the plan left open, finalises and returns the
// per-transaction access list the StateDB handed out.
func (x *exec) endTx(tx *Tx) *bal.ConstructionBlockAccessList {
	for x.m.Depth() > 0 {
		x.do(Op{K: "keep"})
	}
	var list *bal.ConstructionBlockAccessList
	if x.sut() {
		list = x.st.Finalise(rulesOf(x.m.rules))
	}
	x.m.Finalise()
	return list
}

// ---- operations

// do executes one planned operation; false means its precondition did not hold
// and nothing was done.
func (x *exec) do(op Op) bool {
	m := x.m
	a, b, k := addrOf(op.A), addrOf(op.B), slotOf(op.S)
	rules := m.rules
	switch op.K {
	case "add":
		v := amount(op.V)
		if acc := m.acct(a); acc != nil && acc.Bal.BitLen() > 252 {
			return false
		}
		x.addBalance(a, v)
		x.checkAccount(a)
	case "sub":
		v := amount(op.V)
		cur := new(uint256.Int)
		if acc := m.acct(a); acc != nil {
			cur = acc.Bal
		}
		if v.Cmp(cur) > 0 {
			v = new(uint256.Int).Set(cur)
		}
		x.subBalance(a, v)
		x.checkAccount(a)
	case "setbal":
		v := amount(op.V)
		if op.R {
			v = new(uint256.Int)
			if c := m.committed[a]; c != nil {
				v.Set(c.Bal)
			}
		}
		x.setBalance(a, v)
		x.checkAccount(a)
	case "nonce":
		cur := uint64(0)
		if acc := m.acct(a); acc != nil {
			cur = acc.Nonce
		}
		if cur > 1<<62 {
			return false
		}
		x.setNonce(a, cur+nonceDelta(op.V))
		x.checkAccount(a)
	case "code":
		acc := m.acct(a)
		switch {
		case acc != nil && m.cur.newContract[a] && len(acc.Code) == 0:
			// contract deployment: the init code's return value becomes the code
			x.setCode(a, codeOf(op.V))
		case rules >= RCancun && op.A != 0 && (acc == nil || len(acc.Code) == 0 || isDelegation(acc.Code)) && !m.cur.newContract[a]:
			// EIP-7702 authorisation: validate (reads code and nonce), bump the nonce, set or clear the delegation
			x.getCode(a)
			n := x.getNonce(a)
			if n > 1<<62 {
				return false
			}
			x.exist(a)
			x.setNonce(a, n+1)
			if op.V%4 == 0 {
				x.setCode(a, nil)
			} else {
				x.setCode(a, delegation(b))
			}
		default:
			return false
		}
		x.checkAccount(a)
		x.getCode(a)
		x.getCodeSize(a)
	case "sstore":
		if !m.CanStore(a) {
			return false
		}
		v := slotValue(op.V)
		if op.R {
			v = common.Hash{}
			if c := m.committed[a]; c != nil {
				v = c.Stor[k]
			}
		}
		x.setState(a, k, v)
		x.getState(a, k)
		x.checkAccount(a)
	case "tstore":
		if rules < RCancun {
			return false
		}
		v := slotValue(op.V)
		m.SetTransient(a, k, v)
		if x.sut() {
			x.st.SetTransientState(a, k, v)
		}
		x.getTransient(a, k)
	case "newacct":
		if x.m.acct(a) != nil {
			return false
		}
		x.exist(a)
		x.createAccount(a)
		x.checkAccount(a)
	case "create":
		if op.A == 0 || !m.CanCreate(a) {
			return false
		}
		if rules >= REIP158 {
			x.addAddressToAL(a)
		}
		x.getCodeHash(a)
		x.getNonce(a)
		if !x.exist(a) {
			x.createAccount(a)
		}
		x.createContract(a)
		if rules >= REIP158 {
			x.setNonce(a, 1)
		}
		x.checkAccount(a)
	case "destruct":
		acc := m.acct(a)
		if op.A == 0 || acc == nil || !(len(acc.Code) != 0 || m.cur.newContract[a]) || isDelegation(acc.Code) {
			return false
		}
		bal := x.getBalance(a)
		if t := m.acct(b); t != nil && t.Bal.BitLen() > 252 {
			return false
		}
		if rules < RCancun {
			if a != b {
				x.addBalance(b, bal)
			}
			x.subBalance(a, bal)
			x.selfDestruct(a)
		} else {
			isNew := x.isNew(a)
			if isNew {
				if a != b {
					x.addBalance(b, bal)
					x.subBalance(a, bal)
				} else if rules < RAmsterdam {
					x.subBalance(a, bal)
				}
				x.selfDestruct(a)
			} else if a != b {
				x.subBalance(a, bal)
				x.addBalance(b, bal)
			}
		}
		x.checkAccount(a)
		if a != b {
			x.checkAccount(b)
		}
	case "transfer":
		acc := m.acct(a)
		if acc == nil {
			return false
		}
		v := amount(op.V)
		if v.Cmp(acc.Bal) > 0 {
			v = new(uint256.Int).Set(acc.Bal)
		}
		if t := m.acct(b); t != nil && t.Bal.BitLen() > 252 {
			return false
		}
		if !x.exist(b) {
			if rules >= REIP158 && v.IsZero() {
				return true // calling a non-existing account with no value does nothing
			}
			x.createAccount(b)
		}
		x.subBalance(a, v)
		x.addBalance(b, v)
		x.checkAccount(a)
		x.checkAccount(b)
	case "refund+":
		g := op.V % 1000
		m.AddRefund(g)
		if x.sut() {
			x.st.AddRefund(g)
		}
		x.getRefund()
	case "refund-":
		g := op.V % 1000
		if g > m.Refund() {
			g = m.Refund()
		}
		m.SubRefund(g)
		if x.sut() {
			x.st.SubRefund(g)
		}
		x.getRefund()
	case "log":
		tag := op.V % 1000
		m.AddLog(a, tag)
		if x.sut() {
			var d [8]byte
			binary.BigEndian.PutUint64(d[:], tag)
			x.st.AddLog(&types.Log{Address: a, Data: d[:]})
		}
	case "aladdr":
		if rules < REIP158 {
			return false
		}
		x.addAddressToAL(a)
		x.alQuery(a, k)
	case "alslot":
		if rules < REIP158 {
			return false
		}
		m.AddSlotToAL(a, k)
		if x.sut() {
			x.st.AddSlotToAccessList(a, k)
		}
		x.alQuery(a, k)
	case "snap":
		if m.Depth() >= 6 {
			return false
		}
		m.Snapshot()
		if x.sut() {
			x.revs = append(x.revs, x.st.Snapshot())
		}
	case "revert":
		if m.Depth() == 0 {
			return false
		}
		m.Revert()
		if x.sut() {
			n := len(x.revs) - 1
			x.st.RevertToSnapshot(x.revs[n])
			x.revs = x.revs[:n]
			x.run.res.Probe("frame-reverted")
		}
	case "keep":
		if m.Depth() == 0 {
			return false
		}
		m.Keep()
		if x.sut() {
			x.revs = x.revs[:len(x.revs)-1]
		}
	case "get":
		switch op.V % numGetters {
		case 0:
			x.getBalance(a)
		case 1:
			x.getNonce(a)
		case 2:
			x.getCode(a)
		case 3:
			x.getCodeHash(a)
		case 4:
			x.getCodeSize(a)
		case 5:
			x.getState(a, k)
		case 6:
			x.getCommitted(a, k)
		case 7:
			x.exist(a)
		case 8:
			x.empty(a)
		case 9:
			x.hasSD(a)
		case 10:
			x.getTransient(a, k)
		case 11:
			x.getRefund()
		case 12:
			x.alQuery(a, k)
		case 13:
			x.getBoth(a, k)
		case 14:
			if rules >= RCancun {
				x.isNew(a)
			} else {
				x.checkLogs()
			}
		}
	case "clear":
		// a contract zeroes all of its storage (the classic clean-up before SELFDESTRUCT)
		if !m.CanStore(a) {
			return false
		}
		for j := 0; j < NS; j++ {
			if acc := m.acct(a); acc != nil && acc.Stor[slots[j]] != (common.Hash{}) {
				x.setState(a, slots[j], common.Hash{})
			}
		}
		x.checkAccount(a)
	case "sweep":
		x.sweep()
	default:
		return false
	}
	return true
}
