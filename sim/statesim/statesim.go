package statesim

import (
	"verifsim/simcore"
)

var realParts = []string{
	"core/state StateDB, stateObject, journal, accessList, transientStorage, triePrefetcher, StateUpdate, MPTDatabase, CodeDB, readers (flat, trie, multi)",
	"trie StateTrie / committer / hasher, trie/trienode",
	"triedb with hashdb and pathdb (layer tree, buffer, flat state, journal in the key-value store)",
	"core/state/snapshot Tree (hash scheme flat reader, journal, Cap)",
	"core/types/bal (construction list, Merge, encoding object, Validate, RLP, Hash)",
	"ethdb/memorydb under SimKV",
}

var stubParts = []string{
	"disk: simdisk.SimKV (real memorydb + op log + read gates)",
	"the EVM and state transition: the harness issues their StateDB call sequences (transfer, create, SELFDESTRUCT variants, EIP-7702 authorisation, nonce bump) from the plan",
}

const ruleCommon = "plan = 1-6 blocks x 0-5 transactions x 0-40 operations over 7 addresses x 5 slots (chosen so that their Keccak images share nibble prefixes), rule set per block non-decreasing in {pre-EIP-158, EIP-158..Shanghai, Cancun/Prague with EIP-6780/7702/1153, Amsterdam}; operations: Add/Sub/SetBalance, SetNonce, SetCode (deployment, EIP-7702 set/clear), SetState, SetTransientState, CreateAccount, contract creation, SELFDESTRUCT (legacy / 6780 / Amsterdam), value transfer, zero-value touch, refunds, logs, access-list adds, nested Snapshot/RevertToSnapshot (depth <= 6), sampled getters and full sweeps; knobs: hash or path scheme, legacy snapshot tree, clean caches, prefetcher per block, IntermediateRoot after a tx, flush to disk, clean restart. Operations are resolved against the reference model when executed and skipped if their precondition (the EVM's own guard) does not hold. "

func Checks() map[string]*simcore.Check {
	assume := []string{
		"the StateDB is driven the way the EVM and state transition drive it: CreateAccount only after Exist returned false; contract creation only at an address with nonce 0, no code and no storage; SetState only on an account that has code or is being created; SetCode only as deployment on a fresh contract or as EIP-7702 set/clear after reading the code; nonces never decrease; SELFDESTRUCT only from an account with code or under creation; address 0x03 (RIPEMD quirk) is not used",
		"one StateDB per block (a new one is opened at the committed root), as the block processor does",
		"goroutine interleavings of the prefetcher and of the root/commit worker groups are perturbed (free-running, GOMAXPROCS 2/4), not decided, except in gated runs where every disk read is a scheduler gate",
	}
	mk := func(id, rule string, runs map[string]int, probes []string) *simcore.Check {
		return &simcore.Check{
			ID: id, Engine: "statesim", Level: "exploration",
			Rule:        ruleCommon + rule,
			Assumptions: assume,
			Components:  simcore.Components{Real: realParts, Stub: stubParts},
			Perturbed:   []string{"prefetcher subfetcher goroutines vs main goroutine (ungated runs)", "errgroup workers in IntermediateRoot/commit", "Go map iteration order inside StateDB (journal.mutations, mutations, stateObjects)"},
			Runs:        runs,
			Gen:         genFor(id), Decode: Decode, Run: Run, Shrink: Shrink,
			ProbeNames: probes,
		}
	}
	return map[string]*simcore.Check{
		"C13": mk("C13", "Oracle: every value the API returns (getters, previous values of setters, logs, refund, access list, transient storage) equals the model's; every IntermediateRoot and Commit root equals refmpt over the model. Non-trivial = at least one reverted frame and >= 2 transactions; distinct = distinct sequences of committed roots.",
			map[string]int{"quick": 16000, "thorough": 800000},
			[]string{"frame-reverted", "empty-deleted-eip158", "empty-kept-pre158", "destructed-at-finalise", "destructed-with-prior-storage", "amsterdam-destruct-balance-kept", "intermediate-root-mid-block", "prefetcher-started", "read-via-trie-reader"}),
		"C14": mk("C14", "C14 adds 2-6 blocks with Copy() between transactions or inside a transaction at call depth 0 (original and copy get different suffixes, advanced alternately operation by operation, and are swept against their own models after every transaction of either), commit of the copy as a sibling state, flush, and clean restarts (journal or full flush) onto a fresh triedb/snapshot tree over the same SimKV. Oracle: Commit root == preceding IntermediateRoot == model root; the committed root opened through the default reader, the trie reader alone and the flat reader alone returns exactly the model's accounts, code and storage (plus absent keys); after a full flush the flat key space on disk equals the model. Non-trivial as C13.",
			map[string]int{"quick": 5000, "thorough": 250000},
			[]string{"frame-reverted", "copy-taken", "copy-committed-sibling", "restart-hash-1", "restart-hash-2", "restart-path-1", "restart-path-2", "read-via-flat-reader-hash", "read-via-flat-reader-path", "read-via-trie-reader", "flat-disk-compared", "destructed-with-prior-storage", "destructed-after-storage-cleared-in-block"}),
		"C15": mk("C15", "C15 runs Amsterdam blocks (optionally after a pre-Amsterdam prefix that builds the starting state), few in-transaction sweeps, and system-call scopes driven like core/state_processor.go does (Prepare with zero sender, SetTxContext(zero hash, 0, index), warm target, operations, Finalise): 1-2 pre-execution scopes under block access index 0 and 1-3 post-execution scopes under index txCount+1, several scopes sharing an index and merged in order. Oracle per transaction index: listed accounts == addresses named by any call of the tx (reverted frames included); balance/nonce/code change recorded iff the model value differs between tx start and end, with the post value, under exactly that index; storage writes == slots whose model value differs; reads: accessed-and-unchanged slots listed, nothing unaccessed listed, no slot both read and written. Block level: merged list in encoding form is sorted and duplicate-free, equals the model's expectation, Validate passes, RLP decode(encode(x)) re-encodes to the same bytes and the same hash.",
			map[string]int{"quick": 16000, "thorough": 800000},
			[]string{"frame-reverted", "bal-balance-change", "bal-code-change", "bal-storage-write", "bal-storage-read", "bal-account-removed", "bal-block-list-checked", "amsterdam-destruct-balance-kept", "system-scope-pre", "system-scope-post"}),
	}
}
