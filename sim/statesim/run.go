package statesim

import (
	"bytes"
	"context"
	"fmt"
	"log/slog"
	"os"
	"sort"
	"sync"
	"testing"
	"time"

	"github.com/ethereum/go-ethereum/common"
	"github.com/ethereum/go-ethereum/core/rawdb"
	"github.com/ethereum/go-ethereum/core/state"
	"github.com/ethereum/go-ethereum/core/state/snapshot"
	"github.com/ethereum/go-ethereum/core/types/bal"
	"github.com/ethereum/go-ethereum/ethdb"
	"github.com/ethereum/go-ethereum/log"
	"github.com/ethereum/go-ethereum/triedb"
	"github.com/ethereum/go-ethereum/triedb/hashdb"
	"github.com/ethereum/go-ethereum/triedb/pathdb"

	"verifsim/simcore"
	"verifsim/simdisk"
	"verifsim/simsched"
)

// ---- process-wide log handler: log.Crit becomes a panic (instead of
// os.Exit), error-level messages are counted per run.

type logHandler struct{}

var (
	logMu   sync.Mutex
	errLogs map[string]int
)

func (logHandler) Enabled(_ context.Context, l slog.Level) bool { return l >= slog.LevelError }
func (logHandler) Handle(_ context.Context, r slog.Record) error {
	if r.Level >= log.LevelCrit {
		var attrs string
		r.Attrs(func(a slog.Attr) bool { attrs += " " + a.String(); return true })
		panic("CRIT-LOG " + r.Message + attrs)
	}
	logMu.Lock()
	if errLogs != nil {
		errLogs[r.Message]++
	}
	logMu.Unlock()
	if trace {
		var attrs string
		r.Attrs(func(a slog.Attr) bool { attrs += " " + a.String(); return true })
		fmt.Println("geth-error-log:", r.Message, attrs)
	}
	return nil
}
func (h logHandler) WithAttrs([]slog.Attr) slog.Handler { return h }
func (h logHandler) WithGroup(string) slog.Handler      { return h }

var trace = os.Getenv("VERIF_TRACE") != ""

var prologue sync.Once

func processPrologue() {
	prologue.Do(func() {
		log.SetDefault(log.NewLogger(logHandler{}))
		simsched.Prologue()
	})
}

// ---- the world: real triedb / snapshot tree / code db over the simulated disk

type world struct {
	kv    *simdisk.SimKV
	disk  ethdb.Database
	tdb   *triedb.Database
	snaps *snapshot.Tree
	sdb   *state.MPTDatabase
}

func openWorld(kv *simdisk.SimKV, p *Plan, root common.Hash) *world {
	w := &world{kv: kv, disk: rawdb.NewDatabase(kv)}
	cache := 0
	if p.Cache {
		cache = 1 << 20
	}
	if p.Scheme == "path" {
		w.tdb = triedb.NewDatabase(w.disk, &triedb.Config{PathDB: &pathdb.Config{
			TrieCleanSize: cache, StateCleanSize: cache, WriteBufferSize: 4 << 20,
			TrienodeHistory: -1, NoAsyncFlush: true, NoAsyncGeneration: true,
		}})
	} else {
		w.tdb = triedb.NewDatabase(w.disk, &triedb.Config{HashDB: &hashdb.Config{CleanCacheSize: cache}})
		if p.Snap {
			s, err := snapshot.New(snapshot.Config{CacheSize: 1, AsyncBuild: false}, w.disk, w.tdb, root)
			if err != nil {
				simcore.Harnessf("snapshot.New: %v", err)
			}
			w.snaps = s
		}
	}
	w.sdb = state.NewMPTDatabase(w.tdb, state.NewCodeDB(w.disk))
	if w.snaps != nil {
		w.sdb.WithSnapshot(w.snaps)
	}
	return w
}

// flush pushes every layer of root's chain to the disk.
func (w *world) flush(root common.Hash) error {
	if err := w.tdb.Commit(root, false); err != nil {
		return fmt.Errorf("triedb.Commit: %w", err)
	}
	if w.snaps != nil {
		if err := w.snaps.Cap(root, 0); err != nil {
			return fmt.Errorf("snapshot.Cap: %w", err)
		}
	}
	return nil
}

// shutdown is a clean stop as the node performs it: persist what is needed to
// come back at root, then close.
func (w *world) shutdown(root common.Hash, full, onDisk bool) error {
	if w.tdb.Scheme() == rawdb.PathScheme {
		if full {
			if err := w.tdb.Commit(root, false); err != nil {
				return fmt.Errorf("triedb.Commit: %w", err)
			}
		}
		if err := w.tdb.Journal(root); err != nil {
			return fmt.Errorf("triedb.Journal: %w", err)
		}
	} else {
		if !onDisk {
			if err := w.tdb.Commit(root, false); err != nil {
				return fmt.Errorf("triedb.Commit: %w", err)
			}
		}
		if w.snaps != nil {
			if full {
				if err := w.snaps.Cap(root, 0); err != nil {
					return fmt.Errorf("snapshot.Cap: %w", err)
				}
			}
			if _, err := w.snaps.Journal(root); err != nil {
				return fmt.Errorf("snapshot.Journal: %w", err)
			}
		}
	}
	return w.close()
}

func (w *world) close() error {
	if w.snaps != nil {
		w.snaps.Release()
		w.snaps = nil
	}
	if w.tdb != nil {
		err := w.tdb.Close()
		w.tdb = nil
		return err
	}
	return nil
}

// ---- runner

type violPanic struct{ v *simcore.Violation }

type runner struct {
	p     *Plan
	res   *simcore.Result
	lh    simcore.Hash64
	sfp   simcore.Hash64
	w     *world
	kv    *simdisk.SimKV
	m     *Model
	root  common.Hash
	disk  common.Hash // root known to be completely on disk
	where string
	nobs  int
}

func (r *runner) obs(b []byte)  { r.lh = r.lh.Bytes(b).U64(uint64(len(b))); r.nobs++ }
func (r *runner) obsU(v uint64) { r.lh = r.lh.U64(v); r.nobs++ }

func (r *runner) failf(oracle, format string, a ...any) {
	v := simcore.Violf(oracle, "[%s] "+format, append([]any{r.where}, a...)...)
	panic(violPanic{v})
}

func Run(t *testing.T, pl any) (res *simcore.Result) {
	processPrologue()
	p := pl.(*Plan)
	r := &runner{p: p, res: simcore.NewResult(), lh: simcore.NewHash(), sfp: simcore.NewHash()}
	logMu.Lock()
	errLogs = map[string]int{}
	logMu.Unlock()
	defer func() {
		if r.w != nil {
			r.w.close()
		}
		// observable event log only; the gate sequence of gated runs is reported
		// separately (SchedFP) because Go map iteration order inside the StateDB
		// (journal.mutations, mutations) decides in which order reads are issued
		r.res.LogHash = uint64(r.lh)
		r.res.StateFP = uint64(r.sfp)
		r.res.Events = r.nobs
		logMu.Lock()
		for msg, n := range errLogs {
			r.res.Probes["geth-error-log: "+msg] += n
		}
		errLogs = nil
		logMu.Unlock()
		if e := recover(); e != nil {
			if vp, ok := e.(violPanic); ok {
				res = r.res.Fail(vp.v)
				return
			}
			panic(e)
		}
	}()
	if p.Gated {
		var inner any
		t0 := time.Now()
		defer func() {
			if trace {
				fmt.Printf("gated run: %d gate steps, %d with a choice, %v wall\n", r.res.Probes["gate-steps"], r.res.Probes["schedule-choices"], time.Since(t0))
			}
		}()
		dl := simsched.Bubble(t, func() {
			defer func() { inner = recover() }()
			r.gated()
		})
		if inner != nil {
			panic(inner)
		}
		if dl != "" {
			simcore.Harnessf("statesim: bubble deadlock: %s", dl)
		}
	} else {
		r.body()
	}
	return r.res
}

// gated runs the body as the only harness actor of a gate scheduler: every
// SimKV read of any goroutine (main, prefetcher subfetchers, root and commit
// workers) is released in the order the tape dictates.
func (r *runner) gated() {
	s := simsched.New(r.p.Tape, simsched.ModePoll)
	r.kv = simdisk.NewSimKV(nil)
	r.kv.Sched = s
	r.kv.GateReads = true
	var inner any
	s.Go("main", func() {
		defer func() { inner = recover() }()
		r.body()
	})
	s.Run()
	r.res.SchedFP = s.FP()
	r.res.Probes["gate-steps"] += s.Steps()
	if s.Choices() > 0 {
		r.res.Probe("schedule-choice")
		r.res.Probes["schedule-choices"] += s.Choices()
	}
	if inner != nil {
		panic(inner)
	}
	if s.Err != nil {
		simcore.Harnessf("statesim scheduler: %v", s.Err)
	}
}

func (r *runner) body() {
	p := r.p
	// the world is closed where it was opened (inside the bubble in gated runs)
	defer func() {
		if r.w != nil {
			w := r.w
			r.w = nil
			w.close()
		}
	}()
	if r.kv == nil {
		r.kv = simdisk.NewSimKV(nil)
	}
	r.root = common.BytesToHash(World{}.Root().Bytes())
	r.disk = r.root
	if len(p.Blocks) == 0 {
		return
	}
	r.w = openWorld(r.kv, p, r.root)
	r.m = NewModel()
	reverts := 0
	for bi := range p.Blocks {
		r.runBlock(bi, &p.Blocks[bi])
	}
	reverts = r.res.Probes["frame-reverted"]
	ntx := 0
	for _, b := range p.Blocks {
		ntx += len(b.Txs)
	}
	r.res.NonTrivial = reverts >= 1 && ntx >= 2
	// final read-back of the last committed state through a fresh StateDB
	r.where = "final"
	r.verifyAll("final", r.root, r.m.World(), p.Blocks[len(p.Blocks)-1].Rules)
}

func (r *runner) newState(root common.Hash) *state.StateDB {
	st, err := state.New(root, r.w.sdb)
	if err != nil {
		r.failf("open-state", "state.New(%x) on a committed root failed: %v", root, err)
	}
	return st
}

// checkErr: a database error memoised in the StateDB means some read failed.
func (r *runner) checkErr(x *exec) {
	if err := x.st.Error(); err != nil {
		r.failf("statedb-error", "%s: StateDB.Error() = %v", x.name, err)
	}
}

func (r *runner) runBlock(bi int, blk *Block) {
	r.where = fmt.Sprintf("block %d", bi)
	if eff := EffectiveRules(blk.Rules, r.m.World()); eff != blk.Rules {
		b := *blk
		b.Rules = eff
		blk = &b
		r.res.Probe("rules-clamped-eip7610")
	}
	rules := rulesOf(blk.Rules)
	parent := r.root
	st := r.newState(parent)
	r.m.BeginBlock(blk.Rules)
	main := &exec{m: r.m, st: st, run: r, name: "main"}
	if blk.Prefetch {
		st.StartPrefetcher("verif", nil)
		r.res.Probe("prefetcher-started")
	}
	defer st.StopPrefetcher()

	var bx *balBlock
	if blk.Rules >= RAmsterdam {
		bx = newBalBlock()
	}
	var cp *exec
	var cpBx *balBlock
	fork := func() {
		cp = &exec{m: r.m.Fork(), st: st.Copy(), run: r, name: "copy"}
		if bx != nil {
			cpBx = bx.copy()
		}
		r.res.Probe("copy-taken")
		r.where = fmt.Sprintf("block %d after Copy", bi)
		cp.sweep()
		main.sweep()
	}
	both := func() {
		if cp == nil {
			return
		}
		w := r.where
		r.where = w + " (independence sweep)"
		main.sweep()
		cp.sweep()
		r.where = w
	}
	// pre-execution system calls: block access index 0
	if blk.Rules >= RCancun {
		for k := range blk.Pre {
			r.sysScope(main, bi, k, &blk.Pre[k], 0, bx, "pre-")
		}
	}
	ci := 0
	for ti := range blk.Txs {
		midPending := ti == blk.CopyAt && blk.CopyMid >= 0
		if ti == blk.CopyAt && !midPending {
			fork()
		}
		mt := &txRun{x: main, tx: &blk.Txs[ti], bi: bi, ti: ti, bx: bx}
		r.txBegin(mt)
		var ct *txRun
		if cp != nil && ci < len(blk.CopyTxs) {
			ct = &txRun{x: cp, tx: &blk.CopyTxs[ci], bi: bi, ti: blk.CopyAt + ci, bx: cpBx, tag: "copy-"}
			r.txBegin(ct)
			ci++
		}
		// Copy() in the middle of a transaction, at call depth 0: the copy continues
		// the same transaction with its own operations.
		midFork := func() {
			midPending = false
			r.where = fmt.Sprintf("block %d tx %d Copy before op %d", bi, ti, mt.next)
			cp = &exec{m: r.m.Fork(), st: st.Copy(), run: r, name: "copy"}
			if bx != nil {
				cpBx = bx.copy()
			}
			r.res.Probe("copy-taken-mid-tx")
			cont := &Tx{}
			if len(blk.CopyTxs) > 0 {
				cont = &blk.CopyTxs[0]
				ci = 1
			}
			ct = &txRun{x: cp, tx: cont, bi: bi, ti: ti, bx: cpBx, tag: "copy-"}
		}
		for {
			if midPending && mt.next >= blk.CopyMid && main.m.Depth() == 0 {
				midFork()
			}
			a := ct != nil && r.txStep(ct)
			b := r.txStep(mt)
			if !a && !b {
				if midPending {
					for main.m.Depth() > 0 {
						main.do(Op{K: "keep"})
					}
					midFork()
					continue
				}
				break
			}
		}
		if ct != nil {
			r.txEnd(ct)
		}
		r.txEnd(mt)
		both()
	}
	if blk.CopyAt >= len(blk.Txs) && blk.CopyAt >= 0 && cp == nil {
		fork()
	}
	// post-execution system calls: block access index txCount+1 (original only)
	if blk.Rules >= RCancun {
		for k := range blk.Post {
			r.sysScope(main, bi, k, &blk.Post[k], uint32(len(blk.Txs)+1), bx, "post-")
			both()
		}
	}
	for cp != nil && ci < len(blk.CopyTxs) {
		ct := &txRun{x: cp, tx: &blk.CopyTxs[ci], bi: bi, ti: blk.CopyAt + ci, bx: cpBx, tag: "copy-"}
		r.txBegin(ct)
		for r.txStep(ct) {
		}
		r.txEnd(ct)
		ci++
		both()
	}

	// block end: IntermediateRoot, Commit, both equal to the model's root
	r.where = fmt.Sprintf("block %d commit", bi)
	want := r.m.World().Root()
	ir := st.IntermediateRoot(rules)
	r.checkErr(main)
	r.obs(ir[:])
	if ir != want {
		r.failf("root", "IntermediateRoot before Commit = %x, model root = %x\n%s", ir, want, dumpWorld(r.m.World()))
	}
	root, err := st.Commit(rules, uint64(bi+1))
	if err != nil {
		r.failf("commit-error", "Commit failed: %v", err)
	}
	if root != ir {
		r.failf("commit-root", "Commit returned %x, the preceding IntermediateRoot was %x", root, ir)
	}
	r.sfp = r.sfp.Bytes(root[:])
	r.root = root
	if bx != nil {
		r.checkBlockBAL(bx, len(blk.Txs), "main")
	}
	if cp != nil {
		r.where = fmt.Sprintf("block %d copy commit", bi)
		cwant := cp.m.World().Root()
		cir := cp.st.IntermediateRoot(rules)
		r.checkErr(cp)
		if cir != cwant {
			r.failf("copy-root", "IntermediateRoot of the copy = %x, its model root = %x", cir, cwant)
		}
		if cwant != root && cwant != parent {
			croot, err := cp.st.Commit(rules, uint64(bi+1))
			if err != nil {
				r.failf("commit-error", "Commit of the copy failed: %v", err)
			}
			if croot != cwant {
				r.failf("commit-root", "Commit of the copy returned %x, model root %x", croot, cwant)
			}
			r.verifyAll("copy-committed", croot, cp.m.World(), blk.Rules)
			r.res.Probe("copy-committed-sibling")
		}
		if cpBx != nil {
			r.checkBlockBAL(cpBx, blk.CopyAt+len(blk.CopyTxs), "copy")
		}
	}
	if blk.Flush && root != r.disk {
		r.where = fmt.Sprintf("block %d flush", bi)
		if err := r.w.flush(root); err != nil {
			r.failf("flush-error", "%v", err)
		}
		r.disk = root
		r.res.Probe("flushed")
		r.checkFlat("after flush")
	}
	if blk.Reopen != 0 {
		r.where = fmt.Sprintf("block %d clean restart", bi)
		w := r.w
		r.w = nil
		full := blk.Reopen == 2 && root != r.disk
		if err := w.shutdown(root, full, root == r.disk); err != nil {
			r.failf("shutdown-error", "%v", err)
		}
		if full {
			r.disk = root
		}
		r.w = openWorld(r.kv, r.p, root)
		r.res.Probe(fmt.Sprintf("restart-%s-%d", r.p.Scheme, blk.Reopen))
		r.res.Reboots++
		if root == r.disk {
			r.checkFlat("after full flush and restart")
		}
	}
	if r.p.Prop == "C14" || blk.Reopen != 0 {
		r.verifyAll(r.where, root, r.m.World(), blk.Rules)
	}
}

// txRun is one transaction being executed on one StateDB; two of them (original
// and copy) can be advanced alternately, operation by operation.
type txRun struct {
	x      *exec
	tx     *Tx
	bi, ti int
	bx     *balBlock
	tag    string
	next   int
	sys    bool   // system-call scope: no sender, no nonce bump, planned block access index
	idx    uint32 // block access index (tx index + 1 for transactions)
}

func (r *runner) txBegin(t *txRun) {
	r.where = fmt.Sprintf("block %d %stx %d begin", t.bi, t.tag, t.ti)
	if t.sys {
		t.x.beginSys(t.tx, t.idx)
		return
	}
	t.idx = uint32(t.ti + 1)
	t.x.beginTx(t.tx, t.bi, t.ti)
}

// sysScope runs one system-call scope (pre- or post-execution) on x under the
// given block access index.
func (r *runner) sysScope(x *exec, bi, k int, tx *Tx, idx uint32, bx *balBlock, tag string) {
	t := &txRun{x: x, tx: tx, bi: bi, ti: k, bx: bx, tag: tag, sys: true, idx: idx}
	r.txBegin(t)
	for r.txStep(t) {
	}
	r.txEnd(t)
	r.res.Probe("system-scope-" + tag[:len(tag)-1])
}

// txStep executes the next planned operation; false when none is left.
func (r *runner) txStep(t *txRun) bool {
	if t.next >= len(t.tx.Ops) {
		return false
	}
	op := t.tx.Ops[t.next]
	r.where = fmt.Sprintf("block %d %stx %d op %d %+v", t.bi, t.tag, t.ti, t.next, op)
	t.next++
	if !t.x.do(op) {
		r.res.Probe("op-skipped")
	} else {
		r.res.Probe("op:" + op.K)
	}
	return true
}

func (r *runner) txEnd(t *txRun) {
	x, tx, bi, ti, bx, tag := t.x, t.tx, t.bi, t.ti, t.bx, t.tag
	if !t.sys {
		t.idx = uint32(t.ti + 1)
	}
	r.where = fmt.Sprintf("block %d %stx %d end", bi, tag, ti)
	w0 := x.m.committed // world at tx start
	for x.m.Depth() > 0 {
		x.do(Op{K: "keep"})
	}
	track, accA, accLo, accHi := x.m.track, x.m.accAddr, x.m.accSlotLo, x.m.accSlotHi
	r.probeTx(x.m)
	list := x.endTx(tx)
	r.checkErr(x)
	w1 := x.m.World()
	if x.m.rules >= RAmsterdam {
		if !track {
			simcore.Harnessf("model did not track accesses under Amsterdam rules")
		}
		r.checkTxBAL(list, w0, w1, accA, accLo, accHi, t.idx, bx)
	} else if list != nil {
		r.failf("bal-pre-amsterdam", "Finalise returned an access list before Amsterdam")
	}
	if tx.Root {
		want := w1.Root()
		got := x.st.IntermediateRoot(rulesOf(x.m.rules))
		r.checkErr(x)
		r.obs(got[:])
		if got != want {
			r.failf("root", "%s: IntermediateRoot = %x, model root = %x\n%s", x.name, got, want, dumpWorld(w1))
		}
		r.res.Probe("intermediate-root-mid-block")
	}
}

// probeTx counts the rare situations the workload is meant to reach (from the
// model, just before finalisation).
func (r *runner) probeTx(m *Model) {
	for a := range m.cur.dirty {
		acc := m.cur.world[a]
		if acc == nil {
			continue
		}
		switch {
		case m.cur.destructed[a] && m.rules >= RAmsterdam && !acc.Bal.IsZero():
			r.res.Probe("amsterdam-destruct-balance-kept")
		case m.cur.destructed[a]:
			r.res.Probe("destructed-at-finalise")
			if c := m.committed[a]; c != nil && len(c.Stor) > 0 {
				r.res.Probe("destructed-with-prior-storage")
			}
			if b, c := m.blockStart[a], m.committed[a]; b != nil && len(b.Stor) > 0 && c != nil && len(c.Stor) == 0 {
				// storage on disk, all slots zeroed by an earlier tx of this block
				r.res.Probe("destructed-after-storage-cleared-in-block")
			}
		case m.rules >= REIP158 && acc.empty():
			r.res.Probe("empty-deleted-eip158")
		case m.rules < REIP158 && acc.empty():
			r.res.Probe("empty-kept-pre158")
		}
	}
}

// verifyAll opens the committed root through every available reader on the
// current triedb and compares all accounts, code and storage with the model.
func (r *runner) verifyAll(label string, root common.Hash, w World, rules int) {
	save := r.where
	// read-back is single-threaded (no prefetcher, no workers with pending reads):
	// nothing to schedule, so its disk reads are not gates
	gate := r.kv.GateReads
	r.kv.GateReads = false
	defer func() { r.where = save; r.kv.GateReads = gate }()
	check := func(name string, st *state.StateDB) {
		r.where = label + " via " + name
		vm := NewModel()
		vm.cur.world = w.copy()
		vm.BeginBlock(rules)
		x := &exec{m: vm, st: st, run: r, name: name}
		x.sweep()
		// keys outside the universe must be absent
		other := common.HexToAddress("0x00000000000000000000000000000000000f00d1")
		x.exist(other)
		x.getBalance(other)
		var ks common.Hash
		ks[0] = 0xee
		for i := 0; i < NA; i++ {
			x.getState(addrs[i], ks)
		}
		r.checkErr(x)
		got := st.IntermediateRoot(rulesOf(rules))
		if got != root {
			r.failf("reopen-root", "untouched state opened at %x reports root %x", root, got)
		}
	}
	st, err := state.New(root, r.w.sdb)
	if err != nil {
		r.failf("open-state", "%s: state.New(%x) failed: %v", label, root, err)
	}
	check("default-reader", st)
	flat, tr, err := r.w.sdb.VerifSplitReaders(root)
	if err != nil {
		r.failf("open-state", "%s: trie reader for %x failed: %v", label, root, err)
	}
	st, _ = state.NewWithReader(root, r.w.sdb, tr)
	check("trie-reader", st)
	r.res.Probe("read-via-trie-reader")
	if flat != nil {
		st, _ = state.NewWithReader(root, r.w.sdb, flat)
		check("flat-reader", st)
		r.res.Probe("read-via-flat-reader-" + r.p.Scheme)
	}
}

// checkFlat compares the flat account/storage key space on the disk with the
// model. Only meaningful right after everything has been pushed to the disk.
func (r *runner) checkFlat(when string) {
	hasFlat := r.p.Scheme == "path" || r.p.Snap
	want := map[string][]byte{}
	if hasFlat {
		for addr, acc := range r.m.World() {
			ah := keccak(addr[:])
			want[string(append([]byte("a"), ah...))] = acc.SlimRLP()
			for k, v := range acc.Stor {
				want[string(append(append([]byte("o"), ah...), keccak(k[:])...))] = rlpBytes(trimZeros(v[:]))
			}
		}
	}
	got := map[string][]byte{}
	for _, pfx := range []string{"a", "o"} {
		keys, vals := simdisk.DumpMem(r.kv.Mem(), []byte(pfx))
		for i, k := range keys {
			if (pfx == "a" && len(k) == 33) || (pfx == "o" && len(k) == 65) {
				got[string(k)] = vals[i]
			}
		}
	}
	var ks []string
	for k := range want {
		ks = append(ks, k)
	}
	for k := range got {
		if _, ok := want[k]; !ok {
			ks = append(ks, k)
		}
	}
	sort.Strings(ks)
	for _, k := range ks {
		g, gok := got[k]
		w, wok := want[k]
		switch {
		case !gok:
			r.failf("flat-disk", "%s: flat entry %x is missing on disk (model value %x)", when, k, w)
		case !wok:
			r.failf("flat-disk", "%s: flat entry %x = %x is on disk but the model has no such account/slot", when, k, g)
		case !bytes.Equal(g, w):
			r.failf("flat-disk", "%s: flat entry %x = %x on disk, model says %x", when, k, g, w)
		}
	}
	r.res.Probe("flat-disk-compared")
}

func dumpWorld(w World) string {
	var b bytes.Buffer
	for _, a := range w.addrs() {
		acc := w[a]
		fmt.Fprintf(&b, "  %x: nonce %d balance %s code %x", a[18:], acc.Nonce, acc.Bal, acc.Code)
		var ks []common.Hash
		for k := range acc.Stor {
			ks = append(ks, k)
		}
		sort.Slice(ks, func(i, j int) bool { return bytes.Compare(ks[i][:], ks[j][:]) < 0 })
		for _, k := range ks {
			v := acc.Stor[k]
			fmt.Fprintf(&b, " [%x]=%x", k[28:], trimZeros(v[:]))
		}
		b.WriteByte('\n')
	}
	return b.String()
}

var _ = bal.NewConstructionBlockAccessList
