// Package statesim checks go-ethereum's core/state.StateDB against a small
// reference model of Ethereum accounts (C13), across commit / clean restart /
// Copy (C14) and for the EIP-7928 per-transaction access lists (C15).
//
// model.go is the oracle: a world of accounts {nonce, balance, code, storage},
// call frames as deep copies, per-transaction finalisation under four rule
// sets, and state roots computed with refmpt over a hand-written RLP encoding.
// It shares no code with core/state or trie (only uint256 arithmetic, the
// common.Address/Hash array types and Keccak-256).
package statesim

import (
	"bytes"
	"sort"

	"github.com/ethereum/go-ethereum/common"
	"github.com/holiman/uint256"
	"golang.org/x/crypto/sha3"

	"verifsim/refmpt"
)

// Rule sets, in fork order.
const (
	RPre158    = 0 // before EIP-158/161: empty accounts are never deleted, no access lists
	REIP158    = 1 // EIP-158 .. Shanghai: touched empty accounts deleted, legacy SELFDESTRUCT
	RCancun    = 2 // Cancun/Prague: EIP-6780 (destruct only contracts created in the same tx), EIP-1153, EIP-7702
	RAmsterdam = 3 // Amsterdam: as Cancun plus balance-preserving self-destruct and EIP-7928 access lists
)

func keccak(b []byte) []byte {
	h := sha3.NewLegacyKeccak256()
	h.Write(b)
	return h.Sum(nil)
}

var emptyCodeHash = keccak(nil)

// ---- minimal RLP (encoder only, written for the oracle)

func rlpLen(n int, base byte) []byte {
	if n < 56 {
		return []byte{base + byte(n)}
	}
	var be []byte
	for x := n; x > 0; x >>= 8 {
		be = append([]byte{byte(x)}, be...)
	}
	return append([]byte{base + 55 + byte(len(be))}, be...)
}

func rlpBytes(b []byte) []byte {
	if len(b) == 1 && b[0] < 0x80 {
		return []byte{b[0]}
	}
	return append(rlpLen(len(b), 0x80), b...)
}

func trimZeros(b []byte) []byte {
	for len(b) > 0 && b[0] == 0 {
		b = b[1:]
	}
	return b
}

func rlpUint(v uint64) []byte {
	var be [8]byte
	for i := 0; i < 8; i++ {
		be[7-i] = byte(v >> (8 * i))
	}
	return rlpBytes(trimZeros(be[:]))
}

func rlpList(items ...[]byte) []byte {
	var body []byte
	for _, it := range items {
		body = append(body, it...)
	}
	return append(rlpLen(len(body), 0xc0), body...)
}

// ---- accounts

type Account struct {
	Nonce uint64
	Bal   *uint256.Int
	Code  []byte
	Stor  map[common.Hash]common.Hash // non-zero values only
}

func newAccount() *Account {
	return &Account{Bal: new(uint256.Int), Stor: map[common.Hash]common.Hash{}}
}

func (a *Account) copy() *Account {
	c := &Account{Nonce: a.Nonce, Bal: new(uint256.Int).Set(a.Bal), Code: a.Code, Stor: make(map[common.Hash]common.Hash, len(a.Stor))}
	for k, v := range a.Stor {
		c.Stor[k] = v
	}
	return c
}

func (a *Account) empty() bool { return a.Nonce == 0 && a.Bal.IsZero() && len(a.Code) == 0 }

type World map[common.Address]*Account

func (w World) copy() World {
	c := make(World, len(w))
	for k, v := range w {
		c[k] = v.copy()
	}
	return c
}

func (w World) addrs() []common.Address {
	out := make([]common.Address, 0, len(w))
	for a := range w {
		out = append(out, a)
	}
	sort.Slice(out, func(i, j int) bool { return bytes.Compare(out[i][:], out[j][:]) < 0 })
	return out
}

// StorageRoot is the root of the account's storage trie: secure keys
// keccak(slot), values RLP(big-endian value without leading zeros).
func (a *Account) StorageRoot() []byte {
	kvs := make([]refmpt.KV, 0, len(a.Stor))
	for k, v := range a.Stor {
		kvs = append(kvs, refmpt.KV{K: keccak(k[:]), V: rlpBytes(trimZeros(v[:]))})
	}
	return refmpt.Root(kvs)
}

func (a *Account) CodeHash() []byte {
	if len(a.Code) == 0 {
		return emptyCodeHash
	}
	return keccak(a.Code)
}

// RLP is the consensus ("full") account encoding [nonce, balance, storageRoot, codeHash].
func (a *Account) RLP() []byte {
	return rlpList(rlpUint(a.Nonce), rlpBytes(a.Bal.Bytes()), rlpBytes(a.StorageRoot()), rlpBytes(a.CodeHash()))
}

// SlimRLP is the flat-state ("slim") encoding: empty storage root and empty
// code hash are encoded as empty strings.
func (a *Account) SlimRLP() []byte {
	root := a.StorageRoot()
	if bytes.Equal(root, refmpt.EmptyRoot) {
		root = nil
	}
	ch := a.CodeHash()
	if bytes.Equal(ch, emptyCodeHash) {
		ch = nil
	}
	return rlpList(rlpUint(a.Nonce), rlpBytes(a.Bal.Bytes()), rlpBytes(root), rlpBytes(ch))
}

// Root is the state root of the world.
func (w World) Root() common.Hash {
	kvs := make([]refmpt.KV, 0, len(w))
	for addr, a := range w {
		kvs = append(kvs, refmpt.KV{K: keccak(addr[:]), V: a.RLP()})
	}
	return common.BytesToHash(refmpt.Root(kvs))
}

// ---- transaction scope

type slotKey struct {
	A common.Address
	K common.Hash
}

type LogRec struct {
	Addr    common.Address
	Tag     uint64
	TxHash  common.Hash
	TxIndex uint
	Index   uint
}

// scope is everything a revert restores.
type scope struct {
	world       World
	transient   map[slotKey]common.Hash
	alAddr      map[common.Address]bool
	alSlot      map[slotKey]bool
	refund      uint64
	nlogs       int
	destructed  map[common.Address]bool
	newContract map[common.Address]bool
	dirty       map[common.Address]bool // accounts touched or mutated by a surviving operation of this tx
}

func cpSet[K comparable](m map[K]bool) map[K]bool {
	c := make(map[K]bool, len(m))
	for k, v := range m {
		c[k] = v
	}
	return c
}

func (s *scope) copy() scope {
	c := scope{world: s.world.copy(), refund: s.refund, nlogs: s.nlogs,
		alAddr: cpSet(s.alAddr), alSlot: cpSet(s.alSlot), destructed: cpSet(s.destructed),
		newContract: cpSet(s.newContract), dirty: cpSet(s.dirty),
		transient: make(map[slotKey]common.Hash, len(s.transient))}
	for k, v := range s.transient {
		c.transient[k] = v
	}
	return c
}

// Model is the reference state. Frames are deep copies of the scope.
type Model struct {
	cur        scope
	frames     []scope
	committed  World // world at the start of the current transaction
	blockStart World // world at the start of the current block
	logs       []LogRec
	rules      int
	thash      common.Hash
	txIndex    int
	balIndex   uint32

	// EIP-7928 access tracking of the current transaction (not undone by reverts).
	track     bool
	accAddr   map[common.Address]bool
	accSlotLo map[slotKey]bool // slot accessed while its account existed
	accSlotHi map[slotKey]bool // slot passed to any storage accessor
}

func NewModel() *Model {
	m := &Model{}
	m.cur = scope{world: World{}, transient: map[slotKey]common.Hash{}, alAddr: map[common.Address]bool{}, alSlot: map[slotKey]bool{},
		destructed: map[common.Address]bool{}, newContract: map[common.Address]bool{}, dirty: map[common.Address]bool{}}
	m.committed = World{}
	return m
}

// Fork returns an independent deep copy (StateDB.Copy counterpart).
func (m *Model) Fork() *Model {
	c := *m
	c.cur = m.cur.copy()
	c.frames = nil
	for i := range m.frames {
		c.frames = append(c.frames, m.frames[i].copy())
	}
	c.committed = m.committed.copy()
	c.logs = append([]LogRec{}, m.logs...)
	c.accAddr = cpSet(m.accAddr)
	c.accSlotLo = cpSet(m.accSlotLo)
	c.accSlotHi = cpSet(m.accSlotHi)
	return &c
}

func (m *Model) World() World { return m.cur.world }
func (m *Model) Depth() int   { return len(m.frames) }

func (m *Model) acct(a common.Address) *Account { return m.cur.world[a] }

func (m *Model) touchAddr(a common.Address) {
	if m.track {
		m.accAddr[a] = true
	}
}

func (m *Model) touchSlot(a common.Address, k common.Hash, exists bool) {
	if m.track {
		m.accSlotHi[slotKey{a, k}] = true
		if exists {
			m.accSlotLo[slotKey{a, k}] = true
		}
	}
}

// getOrNew mirrors the documented "retrieve or create" behaviour of the setters.
func (m *Model) getOrNew(a common.Address) *Account {
	m.touchAddr(a)
	if acc := m.cur.world[a]; acc != nil {
		return acc
	}
	acc := newAccount()
	m.cur.world[a] = acc
	m.cur.dirty[a] = true
	return acc
}

// ---- block / transaction boundaries

// BeginBlock resets what a freshly opened StateDB does not carry over.
func (m *Model) BeginBlock(rules int) {
	m.rules = rules
	m.logs = nil
	m.cur.nlogs = 0
	m.cur.refund = 0
	m.cur.transient = map[slotKey]common.Hash{}
	m.cur.alAddr = map[common.Address]bool{}
	m.cur.alSlot = map[slotKey]bool{}
	m.cur.destructed = map[common.Address]bool{}
	m.cur.newContract = map[common.Address]bool{}
	m.cur.dirty = map[common.Address]bool{}
	m.frames = nil
	m.committed = m.cur.world.copy()
	m.blockStart = m.committed
	m.track = false
}

func (m *Model) SetTxContext(h common.Hash, ti int, balIndex uint32) {
	m.thash, m.txIndex, m.balIndex = h, ti, balIndex
}

// Prepare: EIP-2929 rules reset the access list and warm sender, destination,
// precompiles, the tx access list and (Shanghai) the coinbase; transient
// storage is always reset; Amsterdam opens the access-tracking scope.
func (m *Model) Prepare(sender, coinbase common.Address, dst *common.Address, pre []common.Address, alAddrs []common.Address, alSlots []slotKey) {
	if m.rules >= REIP158 {
		m.cur.alAddr = map[common.Address]bool{}
		m.cur.alSlot = map[slotKey]bool{}
		m.cur.alAddr[sender] = true
		if dst != nil {
			m.cur.alAddr[*dst] = true
		}
		for _, a := range pre {
			m.cur.alAddr[a] = true
		}
		for _, a := range alAddrs {
			m.cur.alAddr[a] = true
		}
		for _, s := range alSlots {
			m.cur.alAddr[s.A] = true
			m.cur.alSlot[s] = true
		}
		m.cur.alAddr[coinbase] = true
	}
	m.cur.transient = map[slotKey]common.Hash{}
	if m.rules >= RAmsterdam {
		m.track = true
		m.accAddr = map[common.Address]bool{}
		m.accSlotLo = map[slotKey]bool{}
		m.accSlotHi = map[slotKey]bool{}
	}
}

// Finalise ends the transaction: self-destructed and (EIP-158) touched empty
// accounts are removed, refund and tx flags are cleared, reverting across the
// boundary becomes impossible.
func (m *Model) Finalise() {
	w := m.cur.world
	for a := range m.cur.dirty {
		acc := w[a]
		if acc == nil {
			continue
		}
		switch {
		case m.cur.destructed[a]:
			if m.rules >= RAmsterdam && !acc.Bal.IsZero() {
				n := newAccount()
				n.Bal.Set(acc.Bal)
				w[a] = n
			} else {
				delete(w, a)
			}
		case m.rules >= REIP158 && acc.empty():
			delete(w, a)
		}
	}
	m.cur.destructed = map[common.Address]bool{}
	m.cur.newContract = map[common.Address]bool{}
	m.cur.dirty = map[common.Address]bool{}
	m.cur.refund = 0
	m.frames = nil
	m.committed = w.copy()
	m.track = false
}

// ---- frames

func (m *Model) Snapshot() { m.frames = append(m.frames, m.cur.copy()) }

// Revert restores the innermost open frame.
func (m *Model) Revert() {
	n := len(m.frames) - 1
	m.cur = m.frames[n]
	m.frames = m.frames[:n]
	m.logs = m.logs[:m.cur.nlogs]
}

// Keep closes the innermost frame keeping its effects.
func (m *Model) Keep() { m.frames = m.frames[:len(m.frames)-1] }

// ---- reads

func (m *Model) Exist(a common.Address) bool { m.touchAddr(a); return m.acct(a) != nil }
func (m *Model) Empty(a common.Address) bool {
	m.touchAddr(a)
	acc := m.acct(a)
	return acc == nil || acc.empty()
}
func (m *Model) Balance(a common.Address) *uint256.Int {
	m.touchAddr(a)
	if acc := m.acct(a); acc != nil {
		return acc.Bal
	}
	return new(uint256.Int)
}
func (m *Model) Nonce(a common.Address) uint64 {
	m.touchAddr(a)
	if acc := m.acct(a); acc != nil {
		return acc.Nonce
	}
	return 0
}
func (m *Model) Code(a common.Address) []byte {
	m.touchAddr(a)
	if acc := m.acct(a); acc != nil {
		return acc.Code
	}
	return nil
}

// CodeHash: zero hash for a missing account, keccak("") for one without code.
func (m *Model) CodeHash(a common.Address) common.Hash {
	m.touchAddr(a)
	if acc := m.acct(a); acc != nil {
		return common.BytesToHash(acc.CodeHash())
	}
	return common.Hash{}
}
func (m *Model) State(a common.Address, k common.Hash) common.Hash {
	m.touchAddr(a)
	acc := m.acct(a)
	m.touchSlot(a, k, acc != nil)
	if acc != nil {
		return acc.Stor[k]
	}
	return common.Hash{}
}

// CommittedState is the slot's value at the start of the current transaction.
func (m *Model) CommittedState(a common.Address, k common.Hash) common.Hash {
	m.touchAddr(a)
	acc := m.acct(a)
	m.touchSlot(a, k, acc != nil)
	if acc == nil {
		return common.Hash{}
	}
	if c := m.committed[a]; c != nil {
		return c.Stor[k]
	}
	return common.Hash{}
}
func (m *Model) Transient(a common.Address, k common.Hash) common.Hash {
	return m.cur.transient[slotKey{a, k}]
}
func (m *Model) HasSelfDestructed(a common.Address) bool {
	m.touchAddr(a)
	return m.acct(a) != nil && m.cur.destructed[a]
}
func (m *Model) IsNewContract(a common.Address) bool {
	m.touchAddr(a)
	return m.acct(a) != nil && m.cur.newContract[a]
}
func (m *Model) Refund() uint64                    { return m.cur.refund }
func (m *Model) Logs() []LogRec                    { return m.logs }
func (m *Model) AddressInAL(a common.Address) bool { return m.cur.alAddr[a] }
func (m *Model) SlotInAL(a common.Address, k common.Hash) (bool, bool) {
	return m.cur.alAddr[a], m.cur.alSlot[slotKey{a, k}]
}

// CanStore: storage is written only in the context of an executing contract:
// an account that has code (including an EIP-7702 delegation) or is being
// created in this transaction.
func (m *Model) CanStore(a common.Address) bool {
	acc := m.acct(a)
	return acc != nil && (len(acc.Code) != 0 || m.cur.newContract[a])
}

// CanCreate is the address-collision rule of contract creation: nonce 0, no
// code, no storage (the account may exist with a balance).
func (m *Model) CanCreate(a common.Address) bool {
	acc := m.acct(a)
	return acc == nil || (acc.Nonce == 0 && len(acc.Code) == 0 && len(acc.Stor) == 0 && !m.cur.destructed[a])
}

// ---- writes (each returns what the API returns)

func (m *Model) AddBalance(a common.Address, v *uint256.Int) *uint256.Int {
	acc := m.getOrNew(a)
	prev := new(uint256.Int).Set(acc.Bal)
	if v.IsZero() {
		if acc.empty() {
			m.cur.dirty[a] = true // EIP-161 touch
		}
		return prev
	}
	acc.Bal = new(uint256.Int).Add(acc.Bal, v)
	m.cur.dirty[a] = true
	return prev
}

func (m *Model) SubBalance(a common.Address, v *uint256.Int) *uint256.Int {
	acc := m.getOrNew(a)
	prev := new(uint256.Int).Set(acc.Bal)
	if v.IsZero() {
		return prev
	}
	acc.Bal = new(uint256.Int).Sub(acc.Bal, v)
	m.cur.dirty[a] = true
	return prev
}

func (m *Model) SetBalance(a common.Address, v *uint256.Int) {
	acc := m.getOrNew(a)
	acc.Bal = new(uint256.Int).Set(v)
	m.cur.dirty[a] = true
}

func (m *Model) SetNonce(a common.Address, n uint64) {
	acc := m.getOrNew(a)
	acc.Nonce = n
	m.cur.dirty[a] = true
}

func (m *Model) SetCode(a common.Address, code []byte) []byte {
	acc := m.getOrNew(a)
	prev := acc.Code
	acc.Code = append([]byte{}, code...)
	m.cur.dirty[a] = true
	return prev
}

func (m *Model) SetState(a common.Address, k, v common.Hash) common.Hash {
	acc := m.getOrNew(a)
	m.touchSlot(a, k, true)
	prev := acc.Stor[k]
	if prev == v {
		return prev
	}
	if v == (common.Hash{}) {
		delete(acc.Stor, k)
	} else {
		acc.Stor[k] = v
	}
	m.cur.dirty[a] = true
	return prev
}

func (m *Model) SetTransient(a common.Address, k, v common.Hash) {
	if v == (common.Hash{}) {
		delete(m.cur.transient, slotKey{a, k})
	} else {
		m.cur.transient[slotKey{a, k}] = v
	}
}

// CreateAccount: only for an address that does not exist (the EVM checks Exist first).
func (m *Model) CreateAccount(a common.Address) {
	m.cur.world[a] = newAccount()
	m.cur.dirty[a] = true
}

func (m *Model) CreateContract(a common.Address) {
	m.touchAddr(a)
	m.cur.newContract[a] = true
}

func (m *Model) SelfDestruct(a common.Address) {
	m.touchAddr(a)
	if m.acct(a) == nil {
		return
	}
	m.cur.destructed[a] = true
	m.cur.dirty[a] = true
}

func (m *Model) AddRefund(g uint64) { m.cur.refund += g }
func (m *Model) SubRefund(g uint64) { m.cur.refund -= g }

func (m *Model) AddLog(a common.Address, tag uint64) {
	m.logs = append(m.logs, LogRec{Addr: a, Tag: tag, TxHash: m.thash, TxIndex: uint(m.txIndex), Index: uint(len(m.logs))})
	m.cur.nlogs = len(m.logs)
}

func (m *Model) AddAddressToAL(a common.Address) { m.cur.alAddr[a] = true }
func (m *Model) AddSlotToAL(a common.Address, k common.Hash) {
	m.cur.alAddr[a] = true
	m.cur.alSlot[slotKey{a, k}] = true
}

// HasNoncelessStorage reports whether some account has nonce 0, no code and
// non-empty storage (the EIP-7610 class: creatable only before EIP-158 by init
// code that stores and returns no code).
func (w World) HasNoncelessStorage() bool {
	for _, acc := range w {
		if acc.Nonce == 0 && len(acc.Code) == 0 && len(acc.Stor) > 0 {
			return true
		}
	}
	return false
}

// EffectiveRules clamps a planned rule set: Cancun and later are only entered
// when no EIP-7610-class account exists. From Cancun on the implementation
// refuses to wipe storage of a removed account ("unexpected storage wiping"),
// relying on the fact that on the real chain such accounts can never become
// empty; a world that contains one and lets it be drained or touched is
// outside the operating assumptions of the code under test.
func EffectiveRules(planned int, w World) int {
	if planned >= RCancun && w.HasNoncelessStorage() {
		return REIP158
	}
	return planned
}
