package statesim

import (
	"bytes"
	"fmt"
	"sort"

	"github.com/ethereum/go-ethereum/common"
	"github.com/ethereum/go-ethereum/core/types/bal"
	"github.com/ethereum/go-ethereum/rlp"
	"github.com/holiman/uint256"

	"verifsim/simcore"
)

// C15 oracle. For one transaction the expectation is the net difference of the
// model world between the start of the transaction and the state after its
// finalisation, plus the set of addresses and slots any API call of the
// transaction named (reverted frames included: accesses survive, changes do
// not).

type balAcct struct {
	bal    map[uint32]*uint256.Int
	nonce  map[uint32]uint64
	code   map[uint32][]byte
	writes map[common.Hash]map[uint32]common.Hash
	lo, hi map[common.Hash]bool // slots that must / may be listed as reads
}

func newBalAcct() *balAcct {
	return &balAcct{bal: map[uint32]*uint256.Int{}, nonce: map[uint32]uint64{}, code: map[uint32][]byte{},
		writes: map[common.Hash]map[uint32]common.Hash{}, lo: map[common.Hash]bool{}, hi: map[common.Hash]bool{}}
}

// balBlock accumulates the model's expectation and the lists the StateDB
// returned, for one block.
type balBlock struct {
	exp map[common.Address]*balAcct
	got *bal.ConstructionBlockAccessList
}

func newBalBlock() *balBlock {
	return &balBlock{exp: map[common.Address]*balAcct{}, got: bal.NewConstructionBlockAccessList()}
}

func (b *balBlock) acct(a common.Address) *balAcct {
	if b.exp[a] == nil {
		b.exp[a] = newBalAcct()
	}
	return b.exp[a]
}

func (b *balBlock) copy() *balBlock {
	c := &balBlock{exp: map[common.Address]*balAcct{}, got: b.got.Copy()}
	for a, e := range b.exp {
		n := newBalAcct()
		for i, v := range e.bal {
			n.bal[i] = v.Clone()
		}
		for i, v := range e.nonce {
			n.nonce[i] = v
		}
		for i, v := range e.code {
			n.code[i] = v
		}
		for s, m := range e.writes {
			n.writes[s] = map[uint32]common.Hash{}
			for i, v := range m {
				n.writes[s][i] = v
			}
		}
		for s := range e.lo {
			n.lo[s] = true
		}
		for s := range e.hi {
			n.hi[s] = true
		}
		c.exp[a] = n
	}
	return c
}

func sortedAddrs[V any](m map[common.Address]V) []common.Address {
	out := make([]common.Address, 0, len(m))
	for a := range m {
		out = append(out, a)
	}
	sort.Slice(out, func(i, j int) bool { return bytes.Compare(out[i][:], out[j][:]) < 0 })
	return out
}

func sortedHashes[V any](m map[common.Hash]V) []common.Hash {
	out := make([]common.Hash, 0, len(m))
	for a := range m {
		out = append(out, a)
	}
	sort.Slice(out, func(i, j int) bool { return bytes.Compare(out[i][:], out[j][:]) < 0 })
	return out
}

func balOf(w World, a common.Address) *uint256.Int {
	if acc := w[a]; acc != nil {
		return acc.Bal
	}
	return new(uint256.Int)
}
func nonceOf(w World, a common.Address) uint64 {
	if acc := w[a]; acc != nil {
		return acc.Nonce
	}
	return 0
}
func codeOfW(w World, a common.Address) []byte {
	if acc := w[a]; acc != nil {
		return acc.Code
	}
	return nil
}
func slotOfW(w World, a common.Address, k common.Hash) common.Hash {
	if acc := w[a]; acc != nil {
		return acc.Stor[k]
	}
	return common.Hash{}
}

func (r *runner) checkTxBAL(got *bal.ConstructionBlockAccessList, w0, w1 World, accA map[common.Address]bool, accLo, accHi map[slotKey]bool, idx uint32, bx *balBlock) {
	if got == nil {
		r.failf("bal-missing", "Finalise under Amsterdam rules returned no access list although Prepare opened the transaction scope")
	}
	// every address whose state differs must have been accessed (model sanity)
	all := map[common.Address]bool{}
	for a := range w0 {
		all[a] = true
	}
	for a := range w1 {
		all[a] = true
	}
	for a := range accA {
		all[a] = true
	}
	// the set of listed accounts
	for _, a := range sortedAddrs(got.Accounts) {
		if !accA[a] {
			r.failf("bal-accounts", "tx index %d: account %x is listed but no call of the transaction named it", idx, a[18:])
		}
	}
	for _, a := range sortedAddrs(accA) {
		if got.Accounts[a] == nil {
			r.failf("bal-accounts", "tx index %d: account %x was accessed by the transaction but is not listed", idx, a[18:])
		}
	}
	for _, a := range sortedAddrs(all) {
		g := got.Accounts[a]
		if g == nil {
			g = bal.NewConstructionAccountAccess()
		}
		// balance
		b0, b1 := balOf(w0, a), balOf(w1, a)
		if b0.Cmp(b1) != 0 {
			v, ok := g.BalanceChanges[idx]
			if !ok || len(g.BalanceChanges) != 1 || v.Cmp(b1) != 0 {
				r.failf("bal-balance", "tx index %d: balance of %x went %s -> %s but the list records %s", idx, a[18:], b0, b1, fmtU(g.BalanceChanges))
			}
			r.res.Probe("bal-balance-change")
			if !accA[a] {
				simcore.Harnessf("statesim model inconsistency: balance of %x changed without an access", a)
			}
			bx.acct(a).bal[idx] = b1.Clone()
		} else if len(g.BalanceChanges) != 0 {
			r.failf("bal-balance", "tx index %d: balance of %x is %s before and after the transaction but the list records %s", idx, a[18:], b0, fmtU(g.BalanceChanges))
		}
		// nonce
		n0, n1 := nonceOf(w0, a), nonceOf(w1, a)
		if n0 != n1 {
			v, ok := g.NonceChanges[idx]
			if !ok || len(g.NonceChanges) != 1 || v != n1 {
				r.failf("bal-nonce", "tx index %d: nonce of %x went %d -> %d but the list records %v", idx, a[18:], n0, n1, g.NonceChanges)
			}
			bx.acct(a).nonce[idx] = n1
		} else if len(g.NonceChanges) != 0 {
			r.failf("bal-nonce", "tx index %d: nonce of %x is %d before and after the transaction but the list records %v", idx, a[18:], n0, g.NonceChanges)
		}
		// code
		c0, c1 := codeOfW(w0, a), codeOfW(w1, a)
		if !bytes.Equal(c0, c1) {
			v, ok := g.CodeChange[idx]
			if !ok || len(g.CodeChange) != 1 || !bytes.Equal(v, c1) {
				r.failf("bal-code", "tx index %d: code of %x went %x -> %x but the list records %x", idx, a[18:], c0, c1, g.CodeChange)
			}
			r.res.Probe("bal-code-change")
			bx.acct(a).code[idx] = c1
		} else if len(g.CodeChange) != 0 {
			r.failf("bal-code", "tx index %d: code of %x is unchanged (%x) but the list records %x", idx, a[18:], c0, g.CodeChange)
		}
		// storage writes: exactly the slots whose value differs
		slotsU := map[common.Hash]bool{}
		if acc := w0[a]; acc != nil {
			for k := range acc.Stor {
				slotsU[k] = true
			}
		}
		if acc := w1[a]; acc != nil {
			for k := range acc.Stor {
				slotsU[k] = true
			}
		}
		for k := range g.StorageWrites {
			slotsU[k] = true
		}
		written := map[common.Hash]bool{}
		for _, k := range sortedHashes(slotsU) {
			v0, v1 := slotOfW(w0, a, k), slotOfW(w1, a, k)
			gw := g.StorageWrites[k]
			if v0 != v1 {
				v, ok := gw[idx]
				if !ok || len(gw) != 1 || v != v1 {
					r.failf("bal-storage-write", "tx index %d: slot %x of %x went %x -> %x but the list records %x", idx, k[28:], a[18:], trimZeros(v0[:]), trimZeros(v1[:]), gw)
				}
				written[k] = true
				if bx.acct(a).writes[k] == nil {
					bx.acct(a).writes[k] = map[uint32]common.Hash{}
				}
				bx.acct(a).writes[k][idx] = v1
				r.res.Probe("bal-storage-write")
			} else if gw != nil {
				r.failf("bal-storage-write", "tx index %d: slot %x of %x holds %x before and after the transaction but the list records a write %x", idx, k[28:], a[18:], trimZeros(v0[:]), gw)
			}
		}
		// storage reads: every other accessed slot, nothing that was not accessed
		for _, k := range sortedHashes(g.StorageReads) {
			if written[k] {
				r.failf("bal-storage-read", "tx index %d: slot %x of %x is listed both as read and as write", idx, k[28:], a[18:])
			}
			if !accHi[slotKey{a, k}] {
				r.failf("bal-storage-read", "tx index %d: slot %x of %x is listed as read but no call of the transaction named it", idx, k[28:], a[18:])
			}
		}
		for sk := range accHi {
			if sk.A != a {
				continue
			}
			if !written[sk.K] {
				bx.acct(a).hi[sk.K] = true
			}
			if accLo[sk] && !written[sk.K] {
				bx.acct(a).lo[sk.K] = true
				if _, ok := g.StorageReads[sk.K]; !ok {
					r.failf("bal-storage-read", "tx index %d: slot %x of %x was accessed (and not changed) but is not listed as read", idx, sk.K[28:], a[18:])
				}
				r.res.Probe("bal-storage-read")
			}
		}
		if accA[a] {
			bx.acct(a) // listed at block level even when nothing changed
		}
	}
	// net-change situations worth counting
	for _, a := range sortedAddrs(accA) {
		if w0[a] != nil && w1[a] == nil {
			r.res.Probe("bal-account-removed")
		}
	}
	bx.got.Merge(got)
}

func fmtU(m map[uint32]*uint256.Int) string {
	var ks []int
	for k := range m {
		ks = append(ks, int(k))
	}
	sort.Ints(ks)
	s := "{"
	for _, k := range ks {
		s += fmt.Sprintf("%d:%s ", k, m[uint32(k)])
	}
	return s + "}"
}

// checkBlockBAL: the merged block list in its encoding form is sorted and
// duplicate-free, equals the model's expectation, validates, and round-trips
// through RLP with a stable hash.
func (r *runner) checkBlockBAL(bx *balBlock, ntx int, who string) {
	enc := bx.got.ToEncodingObj()
	r.checkEncoded(enc, bx, who+" block list")
	if err := enc.Validate(30_000_000, ntx); err != nil {
		r.failf("bal-validate", "%s: Validate rejects the list built during execution: %v", who, err)
	}
	blob, err := rlp.EncodeToBytes(enc)
	if err != nil {
		r.failf("bal-rlp", "%s: encoding failed: %v", who, err)
	}
	var dec bal.BlockAccessList
	if err := rlp.DecodeBytes(blob, &dec); err != nil {
		r.failf("bal-rlp", "%s: decoding the encoded list failed: %v", who, err)
	}
	r.checkEncoded(&dec, bx, who+" decoded block list")
	blob2, err := rlp.EncodeToBytes(&dec)
	if err != nil || !bytes.Equal(blob, blob2) {
		r.failf("bal-rlp", "%s: re-encoding the decoded list gives different bytes (err %v)", who, err)
	}
	h1, h2 := enc.Hash(), dec.Hash()
	if h1 != h2 || h1 != common.BytesToHash(keccak(blob)) {
		r.failf("bal-hash", "%s: hash %x, hash after round trip %x, keccak(rlp) %x", who, h1, h2, keccak(blob))
	}
	if err := dec.Validate(30_000_000, ntx); err != nil {
		r.failf("bal-validate", "%s: Validate rejects the decoded list: %v", who, err)
	}
	r.obs(h1[:])
	r.res.Probe("bal-block-list-checked")
}

func (r *runner) checkEncoded(enc *bal.BlockAccessList, bx *balBlock, what string) {
	want := sortedAddrs(bx.exp)
	if len(*enc) != len(want) {
		r.failf("bal-encoded", "%s has %d accounts, the model expects %d", what, len(*enc), len(want))
	}
	for i := range *enc {
		acc := &(*enc)[i]
		if acc.Address != want[i] {
			r.failf("bal-encoded", "%s: account %d is %x, expected %x (sorted, duplicate-free)", what, i, acc.Address, want[i])
		}
		e := bx.exp[want[i]]
		// storage changes
		ws := sortedHashes(e.writes)
		if len(acc.StorageChanges) != len(ws) {
			r.failf("bal-encoded", "%s: %x has %d changed slots, expected %d", what, acc.Address[18:], len(acc.StorageChanges), len(ws))
		}
		for j, sc := range acc.StorageChanges {
			if sc.Slot.Bytes32() != [32]byte(ws[j]) {
				r.failf("bal-encoded", "%s: %x changed slot %d is %x, expected %x (sorted)", what, acc.Address[18:], j, sc.Slot.Bytes32(), ws[j])
			}
			var idxs []int
			for k := range e.writes[ws[j]] {
				idxs = append(idxs, int(k))
			}
			sort.Ints(idxs)
			if len(sc.SlotChanges) != len(idxs) {
				r.failf("bal-encoded", "%s: %x slot %x has %d writes, expected %d", what, acc.Address[18:], ws[j][28:], len(sc.SlotChanges), len(idxs))
			}
			for k, w := range sc.SlotChanges {
				ev := e.writes[ws[j]][uint32(idxs[k])]
				if int(w.BlockAccessIndex) != idxs[k] || w.PostValue.Bytes32() != [32]byte(ev) {
					r.failf("bal-encoded", "%s: %x slot %x write %d is (index %d, %x), expected (index %d, %x)", what, acc.Address[18:], ws[j][28:], k, w.BlockAccessIndex, w.PostValue.Bytes32(), idxs[k], ev)
				}
			}
		}
		// storage reads: sorted, unique, lo <= reads <= hi, disjoint from writes
		var prev *uint256.Int
		seen := map[common.Hash]bool{}
		for _, s := range acc.StorageReads {
			if prev != nil && prev.Cmp(s) >= 0 {
				r.failf("bal-encoded", "%s: %x storage reads are not strictly ascending", what, acc.Address[18:])
			}
			prev = s
			k := common.Hash(s.Bytes32())
			seen[k] = true
			if _, w := e.writes[k]; w {
				r.failf("bal-encoded", "%s: %x slot %x is both read and written", what, acc.Address[18:], k[28:])
			}
			if !e.hi[k] {
				r.failf("bal-encoded", "%s: %x slot %x listed as read but never accessed", what, acc.Address[18:], k[28:])
			}
		}
		for _, k := range sortedHashes(e.lo) {
			if _, w := e.writes[k]; !w && !seen[k] {
				r.failf("bal-encoded", "%s: %x slot %x was accessed and not written in the block but is not listed as read", what, acc.Address[18:], k[28:])
			}
		}
		// balance / nonce / code
		var bi []int
		for k := range e.bal {
			bi = append(bi, int(k))
		}
		sort.Ints(bi)
		if len(acc.BalanceChanges) != len(bi) {
			r.failf("bal-encoded", "%s: %x has %d balance changes, expected %d", what, acc.Address[18:], len(acc.BalanceChanges), len(bi))
		}
		for k, c := range acc.BalanceChanges {
			if int(c.BlockAccessIndex) != bi[k] || c.PostBalance.Cmp(e.bal[uint32(bi[k])]) != 0 {
				r.failf("bal-encoded", "%s: %x balance change %d is (index %d, %s), expected (index %d, %s)", what, acc.Address[18:], k, c.BlockAccessIndex, c.PostBalance, bi[k], e.bal[uint32(bi[k])])
			}
		}
		var ni []int
		for k := range e.nonce {
			ni = append(ni, int(k))
		}
		sort.Ints(ni)
		if len(acc.NonceChanges) != len(ni) {
			r.failf("bal-encoded", "%s: %x has %d nonce changes, expected %d", what, acc.Address[18:], len(acc.NonceChanges), len(ni))
		}
		for k, c := range acc.NonceChanges {
			if int(c.BlockAccessIndex) != ni[k] || c.PostNonce != e.nonce[uint32(ni[k])] {
				r.failf("bal-encoded", "%s: %x nonce change %d is (index %d, %d), expected (index %d, %d)", what, acc.Address[18:], k, c.BlockAccessIndex, c.PostNonce, ni[k], e.nonce[uint32(ni[k])])
			}
		}
		var cidx []int
		for k := range e.code {
			cidx = append(cidx, int(k))
		}
		sort.Ints(cidx)
		if len(acc.CodeChanges) != len(cidx) {
			r.failf("bal-encoded", "%s: %x has %d code changes, expected %d", what, acc.Address[18:], len(acc.CodeChanges), len(cidx))
		}
		for k, c := range acc.CodeChanges {
			if int(c.BlockAccessIndex) != cidx[k] || !bytes.Equal(c.NewCode, e.code[uint32(cidx[k])]) {
				r.failf("bal-encoded", "%s: %x code change %d is (index %d, %x), expected (index %d, %x)", what, acc.Address[18:], k, c.BlockAccessIndex, c.NewCode, cidx[k], e.code[uint32(cidx[k])])
			}
		}
	}
}
