// Package minersim decides C36: every block the block builder hands out (empty
// and full payloads, at any instant of the rebuild loop, for any pool contents
// and payload attributes) is accepted by block import on an independent node.
//
// Real code: miner.Miner (BuildPayload, background rebuild loop, Resolve /
// ResolveFull / ResolveEmpty, BuildTestingPayload), txpool.TxPool with legacypool
// and blobpool, core.BlockChain twice (builder node, validator node),
// beacon/engine payload <-> block conversion. Simulator-owned: both disks
// (SimKV), the clock (synctest bubble: recommit timer, payload lifetime and pool
// timers are virtual), the instants of every pool mutation, head change and
// Resolve, and two latency seams that give a build a duration in virtual time
// (resolving a lazy pool transaction, consensus Finalize), so that planned
// instants fall inside a build.
package minersim

import (
	"context"
	"crypto/ecdsa"
	"crypto/sha256"
	"encoding/json"
	"errors"
	"fmt"
	"log/slog"
	"math/big"
	"os"
	"regexp"
	"sort"
	"strings"
	"sync"
	"testing"
	"testing/synctest"
	"time"

	"github.com/ethereum/go-ethereum/beacon/engine"
	"github.com/ethereum/go-ethereum/common"
	"github.com/ethereum/go-ethereum/consensus"
	"github.com/ethereum/go-ethereum/consensus/beacon"
	"github.com/ethereum/go-ethereum/consensus/ethash"
	"github.com/ethereum/go-ethereum/core"
	"github.com/ethereum/go-ethereum/core/rawdb"
	"github.com/ethereum/go-ethereum/core/txpool"
	"github.com/ethereum/go-ethereum/core/txpool/blobpool"
	"github.com/ethereum/go-ethereum/core/txpool/legacypool"
	"github.com/ethereum/go-ethereum/core/types"
	"github.com/ethereum/go-ethereum/core/types/bal"
	"github.com/ethereum/go-ethereum/core/vm"
	"github.com/ethereum/go-ethereum/crypto"
	"github.com/ethereum/go-ethereum/crypto/kzg4844"
	"github.com/ethereum/go-ethereum/log"
	"github.com/ethereum/go-ethereum/miner"
	"github.com/ethereum/go-ethereum/params"
	"github.com/holiman/uint256"

	"verifsim/simcore"
	"verifsim/simdisk"
	"verifsim/simsched"
)

// ---- plan

const (
	nAccounts = 8 // account 7 is reserved for competing blocks
	gwei      = 1_000_000_000
)

type TxSpec struct {
	From     int    `json:"from"`
	Kind     string `json:"kind"` // xfer revert burn count selfd create fwd deleg big data wreq creq
	Type     string `json:"type"` // legacy al dyn blob setcode
	To       int    `json:"to,omitempty"`
	NonceGap int    `json:"gap,omitempty"`
	Gas      uint64 `json:"gas"`
	FeeCap   uint64 `json:"feecap"` // wei
	Tip      uint64 `json:"tip"`    // wei
	Value    uint64 `json:"value,omitempty"`
	Blobs    int    `json:"blobs,omitempty"`
	BlobFee  uint64 `json:"blobfee,omitempty"`
	Data     int    `json:"data,omitempty"` // calldata length (non-zero bytes)
	Auth     int    `json:"auth,omitempty"` // setcode: authority account
	AuthBad  bool   `json:"auth_bad,omitempty"`
}

type Event struct {
	At   int64    `json:"at"`   // microseconds after BuildPayload returned
	Kind string   `json:"kind"` // add replace head tip extra
	Txs  []TxSpec `json:"txs,omitempty"`
	N    uint64   `json:"n,omitempty"`
}

type Withdrawal struct {
	To     int    `json:"to"`     // account index, or 100+k = contract k
	Amount uint64 `json:"amount"` // gwei
}

type Slot struct {
	Pre         []TxSpec     `json:"pre,omitempty"`
	TimeDelta   uint64       `json:"dt"`
	Recipient   int          `json:"recipient"`
	Random      byte         `json:"random"`
	Withdrawals []Withdrawal `json:"withdrawals,omitempty"`
	BeaconRoot  byte         `json:"beacon_root"`
	TargetGas   uint64       `json:"target_gas,omitempty"` // Amsterdam: 0 = not given
	Sibling     bool         `json:"sibling,omitempty"`    // build on the previous slot's parent again
	Events      []Event      `json:"events,omitempty"`
	ResolveAt   int64        `json:"resolve_at"`
	ResolveFull bool         `json:"resolve_full,omitempty"`
	LateAt      int64        `json:"late_at,omitempty"` // second Resolve this long after the first (0 = none)
}

type Plan struct {
	Fork       string `json:"fork"`   // cancun prague osaka amsterdam, or a transition "cancun>prague" ...
	Scheme     string `json:"scheme"` // hash | path
	GasLimit   uint64 `json:"gas_limit"`
	GasCeil    uint64 `json:"gas_ceil"`
	RecommitUS int64  `json:"recommit_us"`
	MinTip     uint64 `json:"min_tip"`
	LazyUS     int64  `json:"lazy_us"`     // virtual latency of resolving one pool transaction
	FinalizeUS int64  `json:"finalize_us"` // virtual latency of consensus Finalize
	MaxBlobs   int    `json:"max_blobs,omitempty"`
	BlobPool   bool   `json:"blob_pool,omitempty"` // run the blob pool too (its disk store makes a run ~0.8 s slower)
	Extra      string `json:"extra,omitempty"`
	Slots      []Slot `json:"slots"`
}

var forks = []string{"cancun", "prague", "osaka", "amsterdam", "cancun>prague", "prague>osaka", "osaka>amsterdam"}

func hasPrague(f string) bool { return f != "cancun" }

func genTx(r *simcore.Rand, fork string, blobs bool, baseFee uint64, gasLimit uint64) TxSpec {
	t := TxSpec{From: r.Intn(nAccounts - 1)}
	kinds := []string{"xfer", "revert", "burn", "count", "selfd", "create", "fwd", "deleg", "big", "data", "wreq", "creq"}
	t.Kind = kinds[r.Pick(6, 2, 2, 4, 1, 1, 2, 2, 1, 2, 2, 1)]
	if (t.Kind == "wreq" || t.Kind == "creq") && !hasPrague(fork) {
		t.Kind = "count"
	}
	switch r.Pick(2, 1, 4, 2, 2) {
	case 0:
		t.Type = "legacy"
	case 1:
		t.Type = "al"
	case 2:
		t.Type = "dyn"
	case 3:
		if !blobs {
			t.Type = "dyn"
			break
		}
		t.Type = "blob"
		t.Blobs = r.Pick(4, 2, 1, 1) + 1
		if r.Bool(0.1) {
			t.Blobs = r.Range(5, 7)
		}
		t.BlobFee = []uint64{1, 10, 1000, 1_000_000}[r.Pick(1, 2, 3, 2)]
	default:
		if hasPrague(fork) {
			t.Type = "setcode"
			t.Auth = r.Intn(nAccounts - 1)
			t.AuthBad = r.Bool(0.15)
		} else {
			t.Type = "dyn"
		}
	}
	t.To = r.Intn(nAccounts)
	switch t.Kind {
	case "xfer":
		t.Gas = 21000
		if t.Type == "setcode" || t.Type == "al" {
			t.Gas = 100000
		}
		t.Value = uint64(r.Intn(1000)) * gwei
		if r.Bool(0.05) {
			t.Value = 5_000_000_000 * gwei // more than a poor account has
		}
	case "wreq", "creq":
		// EIP-7002 withdrawal request / EIP-7251 consolidation request to the predeploy: the
		// block then carries consensus-layer requests (header requestsHash, envelope requests)
		t.Gas = []uint64{500_000, 1_500_000}[r.Pick(3, 1)]
		t.Value = gwei // covers the request fee
		if r.Bool(0.1) {
			t.Value = 0 // fee not paid: the predeploy reverts, no request
		}
	case "data":
		// a transfer with calldata and a gas limit near the intrinsic cost: what is enough under
		// one rule set (16 gas per byte) may be below the calldata floor of the next (EIP-7623)
		t.Kind = "xfer"
		t.Data = r.Range(1, 300)
		t.Gas = 21000 + 16*uint64(t.Data) + uint64(r.Intn(30*t.Data+1))
		if t.Type == "setcode" || t.Type == "al" {
			t.Gas += 30000
		}
	case "burn":
		t.Gas = uint64(r.Range(30, 400)) * 1000
	case "big":
		t.Gas = gasLimit - uint64(r.Intn(int(gasLimit/3)))
		if r.Bool(0.3) {
			t.Gas = gasLimit + uint64(r.Intn(100000))
		}
		t.Kind = "burn"
	default:
		t.Gas = uint64(r.Range(60, 300)) * 1000
		if r.Bool(0.1) {
			t.Gas = uint64(r.Range(21, 40)) * 1000 // likely out of gas
		}
		if r.Bool(0.3) {
			t.Value = uint64(r.Intn(100)) * gwei
		}
	}
	// fees relative to the current base fee
	switch r.Pick(1, 1, 5, 2) {
	case 0:
		t.FeeCap = baseFee / 2 // below the base fee: stays in the pool, never included
	case 1:
		t.FeeCap = baseFee + uint64(r.Intn(3))
	case 2:
		t.FeeCap = baseFee*2 + uint64(r.Intn(gwei))
	default:
		t.FeeCap = baseFee * 20
	}
	switch r.Pick(1, 2, 3, 3) {
	case 0:
		t.Tip = 0
	case 1:
		t.Tip = uint64(r.Range(1, 3))
	case 2:
		t.Tip = uint64(r.Range(1, 5)) * gwei / 10
	default:
		t.Tip = uint64(r.Range(1, 30)) * gwei
	}
	if t.Tip > t.FeeCap {
		t.Tip = t.FeeCap
	}
	if r.Bool(0.04) {
		t.NonceGap = r.Range(1, 3)
	}
	return t
}

func genTxs(r *simcore.Rand, n int, fork string, blobs bool, gasLimit uint64) []TxSpec {
	var out []TxSpec
	for i := 0; i < n; i++ {
		out = append(out, genTx(r, fork, blobs, params.InitialBaseFee, gasLimit))
	}
	return out
}

func Gen(r *simcore.Rand, tier string) any {
	p := &Plan{}
	p.Fork = forks[r.Pick(3, 3, 3, 4, 2, 1, 2)]
	p.Scheme = []string{"hash", "path"}[r.Intn(2)]
	// blob transactions are only includable from Osaka on (the pool of this tree keeps
	// version-1 sidecars only and the builder asks for version 0 before Osaka)
	p.BlobPool = (strings.HasSuffix(p.Fork, "osaka") || strings.HasSuffix(p.Fork, "amsterdam")) && r.Bool(0.35)
	p.GasLimit = []uint64{600_000, 2_000_000, 10_000_000, 30_000_000}[r.Pick(2, 3, 3, 2)]
	p.GasCeil = []uint64{600_000, 2_000_000, 10_000_000, 36_000_000}[r.Pick(1, 2, 3, 3)]
	p.RecommitUS = []int64{2_000, 50_000, 1_000_000, 2_000_000}[r.Pick(2, 2, 2, 3)]
	p.MinTip = []uint64{1, gwei / 10, gwei}[r.Pick(3, 2, 1)]
	p.LazyUS = []int64{0, 37, 333, 1709}[r.Pick(2, 2, 3, 2)]
	p.FinalizeUS = []int64{0, 113, 2003}[r.Pick(3, 2, 1)]
	if r.Bool(0.2) {
		p.MaxBlobs = r.Range(1, 3)
	}
	if r.Bool(0.3) {
		p.Extra = "minersim"
	}
	nslots := r.Range(1, 4)
	for s := 0; s < nslots; s++ {
		sl := Slot{TimeDelta: uint64(r.Range(1, 20)), Recipient: r.Intn(nAccounts + 2), Random: byte(r.Intn(256)), BeaconRoot: byte(r.Intn(256))}
		sl.Pre = genTxs(r, r.Pick(1, 2, 3, 2)*r.Range(1, 8), p.Fork, p.BlobPool, p.GasLimit)
		nw := r.Pick(3, 3, 2, 1)
		for i := 0; i < nw; i++ {
			w := Withdrawal{To: r.Intn(nAccounts), Amount: uint64(r.Intn(5000))}
			if r.Bool(0.3) {
				w.To = 100 + r.Intn(6)
			}
			if r.Bool(0.1) {
				w.Amount = 0
			}
			sl.Withdrawals = append(sl.Withdrawals, w)
		}
		if r.Bool(0.5) {
			sl.TargetGas = []uint64{600_000, 5_000_000, 30_000_000, 60_000_000}[r.Intn(4)]
		}
		sl.Sibling = s > 0 && r.Bool(0.15)
		// instants: relative to the rebuild loop
		rc := p.RecommitUS
		instants := func() int64 {
			switch r.Pick(1, 2, 3, 1, 2, 2, 1) {
			case 0:
				return 0 // together with the first build
			case 1:
				return int64(r.Range(1, 50)) * max(p.LazyUS, 7) // inside the first build if it takes time
			case 2:
				return rc*int64(r.Range(0, 3)) + int64(r.Range(1, int(rc)-1)) // between rebuilds
			case 3:
				return rc * int64(r.Range(1, 3)) // exactly at a recommit tick
			case 4:
				return rc*int64(r.Range(1, 3)) + int64(r.Range(1, 40))*max(p.LazyUS, 3) // inside a rebuild
			case 5:
				return rc*int64(r.Range(3, 6)) + 1 // after several rebuilds
			default:
				if rc < 1_000_000 {
					return rc*int64(r.Range(6, 30)) + 1 // many rebuilds
				}
				return 12_000_000 + int64(r.Range(1, 1000)) // after the payload's life time
			}
		}
		sl.ResolveAt = instants()
		if sl.ResolveAt > 40*rc && rc < 1_000_000 {
			sl.ResolveAt = 40*rc + 1 // bound the number of rebuilds per payload
		}
		sl.ResolveFull = r.Bool(0.25)
		if r.Bool(0.25) {
			sl.LateAt = int64(r.Range(1, 3)) * rc
		}
		nev := r.Pick(3, 3, 2, 1)
		for i := 0; i < nev; i++ {
			ev := Event{At: instants()}
			if ev.At > 11_000_000 {
				ev.At = rc / 2
			}
			switch r.Pick(5, 2, 2, 1, 1) {
			case 0:
				ev.Kind = "add"
				ev.Txs = genTxs(r, r.Range(1, 8), p.Fork, p.BlobPool, p.GasLimit)
			case 1:
				ev.Kind = "replace"
				ev.N = uint64(r.Range(1, 3))
			case 2:
				ev.Kind = "head"
				ev.N = uint64(r.Range(0, 3)) // pending transactions to take into the competing block
			case 3:
				ev.Kind = "tip"
				ev.N = []uint64{1, gwei / 10, gwei, 5 * gwei}[r.Intn(4)]
			default:
				ev.Kind = "extra"
				ev.N = uint64(r.Intn(33))
			}
			sl.Events = append(sl.Events, ev)
		}
		sort.SliceStable(sl.Events, func(i, j int) bool { return sl.Events[i].At < sl.Events[j].At })
		p.Slots = append(p.Slots, sl)
	}
	return p
}

func Decode(b []byte) (any, error) {
	p := &Plan{}
	err := json.Unmarshal(b, p)
	return p, err
}

func clonePlan(p *Plan) *Plan {
	b, _ := json.Marshal(p)
	q := &Plan{}
	json.Unmarshal(b, q)
	return q
}

func Shrink(pl any) []any {
	p := pl.(*Plan)
	var out []any
	if len(p.Slots) > 1 {
		for i := range p.Slots {
			q := clonePlan(p)
			q.Slots = append(q.Slots[:i], q.Slots[i+1:]...)
			out = append(out, q)
		}
	}
	for i, sl := range p.Slots {
		for _, ev := range simcore.ShrinkSlice(sl.Events) {
			q := clonePlan(p)
			q.Slots[i].Events = ev
			out = append(out, q)
		}
		for _, pre := range simcore.ShrinkSlice(sl.Pre) {
			q := clonePlan(p)
			q.Slots[i].Pre = pre
			out = append(out, q)
		}
		for j, ev := range sl.Events {
			if len(ev.Txs) > 1 {
				for _, txs := range simcore.ShrinkSlice(ev.Txs) {
					if len(txs) == 0 {
						continue
					}
					q := clonePlan(p)
					q.Slots[i].Events[j].Txs = txs
					out = append(out, q)
				}
			}
		}
		if len(sl.Withdrawals) > 0 {
			q := clonePlan(p)
			q.Slots[i].Withdrawals = nil
			out = append(out, q)
		}
		if sl.LateAt != 0 {
			q := clonePlan(p)
			q.Slots[i].LateAt = 0
			out = append(out, q)
		}
		if sl.Sibling {
			q := clonePlan(p)
			q.Slots[i].Sibling = false
			out = append(out, q)
		}
	}
	if p.FinalizeUS != 0 {
		q := clonePlan(p)
		q.FinalizeUS = 0
		out = append(out, q)
	}
	if p.MaxBlobs != 0 {
		q := clonePlan(p)
		q.MaxBlobs = 0
		out = append(out, q)
	}
	if strings.Contains(p.Fork, ">") {
		q := clonePlan(p)
		q.Fork = p.Fork[strings.Index(p.Fork, ">")+1:]
		out = append(out, q)
	}
	return out
}

// ---- world

var (
	keys  []*ecdsa.PrivateKey
	addrs []common.Address

	contracts = []struct {
		addr common.Address
		code []byte
	}{
		{common.HexToAddress("0x00000000000000000000000000000000c0de0001"), common.FromHex("5f5ffd")},                   // revert
		{common.HexToAddress("0x00000000000000000000000000000000c0de0002"), common.FromHex("5b5f56")},                   // burn all gas
		{common.HexToAddress("0x00000000000000000000000000000000c0de0003"), common.FromHex("5f54600101805f555f5fa100")}, // counter + log
		{common.HexToAddress("0x00000000000000000000000000000000c0de0004"), common.FromHex("33ff")},                     // selfdestruct to caller
		{common.HexToAddress("0x00000000000000000000000000000000c0de0005"), common.FromHex("5f5f5ff000")},               // create an empty contract
		{common.HexToAddress("0x00000000000000000000000000000000c0de0006"), common.FromHex("5f5f5f5f34415af100")},       // forward value to coinbase
	}

	blobOnce     sync.Once
	testBlobs    []kzg4844.Blob
	testCommits  []kzg4844.Commitment
	testProofsV0 []kzg4844.Proof
	testProofsV1 [][]kzg4844.Proof
)

func init() {
	for i := 0; i < nAccounts; i++ {
		h := sha256.Sum256([]byte(fmt.Sprintf("minersim account %d", i)))
		k, err := crypto.ToECDSA(h[:])
		if err != nil {
			panic(err)
		}
		keys = append(keys, k)
		addrs = append(addrs, crypto.PubkeyToAddress(k.PublicKey))
	}
}

// Prologue computes the blob material once per process (outside any bubble).
func Prologue() {
	blobOnce.Do(func() {
		for i := 0; i < 3; i++ {
			var b kzg4844.Blob
			b[1], b[33] = byte(i+1), byte(7*i+3)
			c, err := kzg4844.BlobToCommitment(&b)
			if err != nil {
				panic(err)
			}
			p0, err := kzg4844.ComputeBlobProof(&b, c)
			if err != nil {
				panic(err)
			}
			p1, err := kzg4844.ComputeCellProofs(&b)
			if err != nil {
				panic(err)
			}
			testBlobs = append(testBlobs, b)
			testCommits = append(testCommits, c)
			testProofsV0 = append(testProofsV0, p0)
			testProofsV1 = append(testProofsV1, p1)
		}
	})
}

func u64(v uint64) *uint64 { return &v }

func chainConfig(fork string, genesisTime uint64) *params.ChainConfig {
	cfg := *params.AllEthashProtocolChanges
	cfg.TerminalTotalDifficulty = common.Big0
	cfg.MergeNetsplitBlock = common.Big0
	cfg.BlobScheduleConfig = params.DefaultBlobSchedule
	zero := u64(0)
	later := u64(genesisTime + 12) // transition forks activate a few blocks in
	cfg.ShanghaiTime, cfg.CancunTime = zero, zero
	set := func(name string, at *uint64) {
		switch name {
		case "prague":
			cfg.PragueTime = at
		case "osaka":
			cfg.PragueTime = nz(cfg.PragueTime, zero)
			cfg.OsakaTime = at
		case "amsterdam":
			cfg.PragueTime = nz(cfg.PragueTime, zero)
			cfg.OsakaTime = nz(cfg.OsakaTime, zero)
			cfg.AmsterdamTime = at
		}
	}
	if i := strings.Index(fork, ">"); i >= 0 {
		set(fork[:i], zero)
		set(fork[i+1:], later)
	} else {
		set(fork, zero)
	}
	return &cfg
}

func nz(a, b *uint64) *uint64 {
	if a != nil {
		return a
	}
	return b
}

func genesisSpec(p *Plan) *core.Genesis {
	const genesisTime = 9000
	cfg := chainConfig(p.Fork, genesisTime)
	alloc := types.GenesisAlloc{
		params.BeaconRootsAddress:          {Balance: common.Big0, Code: params.BeaconRootsCode},
		params.HistoryStorageAddress:       {Nonce: 1, Code: params.HistoryStorageCode, Balance: common.Big0},
		params.WithdrawalQueueAddress:      {Nonce: 1, Code: params.WithdrawalQueueCode, Balance: common.Big0},
		params.ConsolidationQueueAddress:   {Nonce: 1, Code: params.ConsolidationQueueCode, Balance: common.Big0},
		params.BuilderDepositAddress:       {Nonce: 1, Code: params.BuilderDepositCode, Balance: common.Big0},
		params.BuilderExitAddress:          {Nonce: 1, Code: params.BuilderExitCode, Balance: common.Big0},
		params.DeterministicFactoryAddress: {Nonce: 1, Code: params.DeterministicFactoryCode, Balance: common.Big0},
	}
	rich := new(big.Int).Mul(big.NewInt(1000), big.NewInt(params.Ether))
	for i, a := range addrs {
		bal := rich
		if i == 5 {
			bal = new(big.Int).Mul(big.NewInt(3), big.NewInt(params.Ether/100)) // a poor account: 0.03 ether
		}
		alloc[a] = types.Account{Balance: bal}
	}
	for _, c := range contracts {
		alloc[c.addr] = types.Account{Balance: big.NewInt(1), Code: c.code, Nonce: 1}
	}
	return &core.Genesis{
		Config:     cfg,
		Alloc:      alloc,
		ExtraData:  []byte("minersim genesis"),
		Timestamp:  genesisTime,
		GasLimit:   p.GasLimit,
		BaseFee:    big.NewInt(params.InitialBaseFee),
		Difficulty: big.NewInt(0),
	}
}

// latEngine is the consensus seam handed to the miner only: Finalize takes
// virtual time (after the block has been filled, before it is assembled).
type latEngine struct {
	consensus.Engine
	d time.Duration
}

func (e *latEngine) Finalize(chain consensus.ChainHeaderReader, header *types.Header, state vm.StateDB, body *types.Body, idx uint32, b *bal.ConstructionBlockAccessList) {
	if e.d > 0 {
		time.Sleep(e.d)
	}
	e.Engine.Finalize(chain, header, state, body, idx, b)
}

// latPool is the pool seam: a SubPool that delegates everything to the real
// pool; the lazy transactions it hands to the block builder resolve to exactly
// the transaction the real pool would have delivered, after a virtual delay.
type latPool struct {
	txpool.SubPool
	d time.Duration
	w *world
}

type latResolver struct {
	tx    *types.Transaction
	inner txpool.LazyResolver
	d     time.Duration
	w     *world
}

func (r *latResolver) Get(hash common.Hash) *types.Transaction {
	if r.d > 0 {
		time.Sleep(r.d)
	}
	if r.tx != nil {
		return r.tx
	}
	tx := r.inner.Get(hash)
	if tx == nil {
		r.w.probe("lazy-tx-evicted-before-resolve")
	}
	return tx
}

func (p *latPool) Pending(filter txpool.PendingFilter) (map[common.Address][]*txpool.LazyTransaction, int) {
	m, n := p.SubPool.Pending(filter)
	if p.d <= 0 {
		return m, n
	}
	for _, list := range m {
		for _, lz := range list {
			lz.Pool = &latResolver{tx: lz.Tx, inner: lz.Pool, d: p.d, w: p.w}
			lz.Tx = nil
		}
	}
	return m, n
}

type backend struct {
	chain *core.BlockChain
	pool  *txpool.TxPool
}

func (b *backend) BlockChain() *core.BlockChain { return b.chain }
func (b *backend) TxPool() *txpool.TxPool       { return b.pool }

type world struct {
	p   *Plan
	res *simcore.Result

	cfg       *params.ChainConfig
	builder   *core.BlockChain
	validator *core.BlockChain
	pool      *txpool.TxPool
	legacy    *legacypool.LegacyPool
	miner     *miner.Miner
	signer    types.Signer

	mu     sync.Mutex
	obs    simcore.Hash64
	racy   bool
	viol   *simcore.Violation
	logs   []string
	hNonce uint64 // nonce of the reserved account (competing blocks)
}

func (w *world) probe(name string) {
	w.mu.Lock()
	w.res.Probe(name)
	w.mu.Unlock()
}

func (w *world) fail(v *simcore.Violation) {
	w.mu.Lock()
	if w.viol == nil {
		w.viol = v
	}
	w.mu.Unlock()
}

func (w *world) failed() bool {
	w.mu.Lock()
	defer w.mu.Unlock()
	return w.viol != nil
}

func (w *world) observe(format string, a ...any) {
	s := fmt.Sprintf(format, a...)
	w.mu.Lock()
	if !w.racy {
		w.obs = w.obs.String(s).String("\n")
	}
	w.mu.Unlock()
	if trace {
		fmt.Println("OBS", time.Now().UnixMicro()%100_000_000, s)
	}
}

var trace = os.Getenv("VERIF_TRACE") != ""

// ---- log capture (probes from the builder's own log lines)

type logCapture struct{ w *world }

var logProbes = map[string]string{
	"Skipping transaction with low nonce":       "builder-skipped-low-nonce",
	"Transaction failed, account skipped":       "builder-tx-failed-account-skipped",
	"Ignoring evicted transaction":              "builder-ignored-evicted-tx",
	"Not enough gas left for transaction":       "builder-tx-does-not-fit-gas",
	"Not enough gas for further transactions":   "builder-block-gas-exhausted",
	"Not enough blob space left for transaction": "builder-tx-does-not-fit-blobs",
	"Not enough blob space for further blob transactions": "builder-blob-space-exhausted",
	"Block building is interrupted":             "builder-fill-interrupted-by-timeout",
	"Error while generating work":               "builder-generate-error",
}

func (h *logCapture) Enabled(_ context.Context, l slog.Level) bool { return true }
func (h *logCapture) Handle(_ context.Context, r slog.Record) error {
	if name, ok := logProbes[r.Message]; ok {
		h.w.probe(name)
		if name == "builder-generate-error" || trace {
			var sb strings.Builder
			sb.WriteString(r.Message)
			r.Attrs(func(a slog.Attr) bool {
				sb.WriteString(" " + a.Key + "=" + a.Value.String())
				return true
			})
			h.w.mu.Lock()
			if len(h.w.logs) < 30 {
				h.w.logs = append(h.w.logs, sb.String())
			}
			h.w.mu.Unlock()
			if trace {
				fmt.Println("LOG", sb.String())
			}
		}
	}
	if r.Message == "Stopping work on payload" {
		r.Attrs(func(a slog.Attr) bool {
			if a.Key == "reason" {
				h.w.probe("payload-loop-ended-by-" + a.Value.String())
			}
			return true
		})
	}
	if r.Level >= log.LevelCrit {
		var sb strings.Builder
		sb.WriteString(r.Message)
		r.Attrs(func(a slog.Attr) bool {
			sb.WriteString(" " + a.Key + "=" + a.Value.String())
			return true
		})
		fmt.Println("CRIT-LOG " + sb.String())
		panic("CRIT-LOG " + sb.String())
	}
	if r.Level >= slog.LevelError {
		var sb strings.Builder
		sb.WriteString("ERROR " + r.Message)
		r.Attrs(func(a slog.Attr) bool {
			sb.WriteString(" " + a.Key + "=" + a.Value.String())
			return true
		})
		h.w.mu.Lock()
		if len(h.w.logs) < 30 {
			h.w.logs = append(h.w.logs, sb.String())
		}
		h.w.mu.Unlock()
	}
	return nil
}
func (h *logCapture) WithAttrs([]slog.Attr) slog.Handler { return h }
func (h *logCapture) WithGroup(string) slog.Handler      { return h }

// ---- transactions

func (w *world) contract(kind string) common.Address {
	switch kind {
	case "revert":
		return contracts[0].addr
	case "burn":
		return contracts[1].addr
	case "count":
		return contracts[2].addr
	case "selfd":
		return contracts[3].addr
	case "create":
		return contracts[4].addr
	case "fwd":
		return contracts[5].addr
	case "wreq":
		return params.WithdrawalQueueAddress
	case "creq":
		return params.ConsolidationQueueAddress
	}
	return common.Address{}
}

func sidecar(version byte, n int, off int) *types.BlobTxSidecar {
	var (
		blobs   []kzg4844.Blob
		commits []kzg4844.Commitment
		proofs  []kzg4844.Proof
	)
	for i := 0; i < n; i++ {
		k := (off + i) % len(testBlobs)
		blobs = append(blobs, testBlobs[k])
		commits = append(commits, testCommits[k])
		if version == types.BlobSidecarVersion0 {
			proofs = append(proofs, testProofsV0[k])
		} else {
			proofs = append(proofs, testProofsV1[k]...)
		}
	}
	return types.NewBlobTxSidecar(version, blobs, commits, proofs)
}

// makeTx signs the transaction a spec describes; the nonce is the pool's next
// nonce of the sender plus the planned gap.
func (w *world) makeTx(t TxSpec, nonce uint64) (*types.Transaction, error) {
	var to common.Address
	switch t.Kind {
	case "xfer":
		to = addrs[t.To%nAccounts]
	case "deleg":
		to = addrs[t.To%nAccounts] // an account that may carry a delegation
	default:
		to = w.contract(t.Kind)
	}
	value := new(big.Int).SetUint64(t.Value)
	feeCap, tip := new(big.Int).SetUint64(t.FeeCap), new(big.Int).SetUint64(t.Tip)
	var data []byte
	for i := 0; i < t.Data; i++ {
		data = append(data, byte(i%250+1))
	}
	switch t.Kind {
	case "wreq": // validator pubkey (48) + amount (8)
		data = common.FromHex("b917cfdc0d25b72d55cf94db328e1629b7f4fde2c30cdacf873b664416f76a0c7f7cc50c9f72a3cb84be88144cde91250000000000000d80")
		data[47] = byte(nonce)
	case "creq": // source pubkey (48) + target pubkey (48)
		data = common.FromHex("b917cfdc0d25b72d55cf94db328e1629b7f4fde2c30cdacf873b664416f76a0c7f7cc50c9f72a3cb84be88144cde9125b9812f7d0b1f2f969b52bbb2d316b0c2fa7c9dba85c428c5e6c27766bcc4b0c6e874702ff1eb1c7024b08524a9771601")
		data[47] = byte(nonce)
	}
	var inner types.TxData
	switch t.Type {
	case "legacy":
		inner = &types.LegacyTx{Nonce: nonce, To: &to, Gas: t.Gas, GasPrice: feeCap, Value: value, Data: data}
	case "al":
		inner = &types.AccessListTx{ChainID: w.cfg.ChainID, Nonce: nonce, To: &to, Gas: t.Gas, GasPrice: feeCap, Value: value, Data: data,
			AccessList: types.AccessList{{Address: contracts[2].addr, StorageKeys: []common.Hash{{}}}}}
	case "dyn":
		inner = &types.DynamicFeeTx{ChainID: w.cfg.ChainID, Nonce: nonce, To: &to, Gas: t.Gas, GasFeeCap: feeCap, GasTipCap: tip, Value: value, Data: data}
	case "blob":
		if !w.p.BlobPool {
			inner = &types.DynamicFeeTx{ChainID: w.cfg.ChainID, Nonce: nonce, To: &to, Gas: t.Gas, GasFeeCap: feeCap, GasTipCap: tip, Value: value, Data: data}
			break
		}
		// the pool of this tree only takes cell-proof (version 1) sidecars, whatever the fork
		sc := sidecar(types.BlobSidecarVersion1, t.Blobs, int(nonce))
		inner = &types.BlobTx{ChainID: uint256.MustFromBig(w.cfg.ChainID), Nonce: nonce, To: to, Gas: t.Gas,
			GasFeeCap: uint256.MustFromBig(feeCap), GasTipCap: uint256.MustFromBig(tip), Value: uint256.MustFromBig(value),
			BlobFeeCap: uint256.NewInt(t.BlobFee), BlobHashes: sc.BlobHashes(), Sidecar: sc}
	case "setcode":
		ak := keys[t.Auth%nAccounts]
		aaddr := addrs[t.Auth%nAccounts]
		anonce := w.pool.PoolNonce(aaddr)
		if t.Auth%nAccounts == t.From%nAccounts {
			anonce = nonce + 1
		}
		if t.AuthBad {
			anonce += 5
		}
		auth, err := types.SignSetCode(ak, types.SetCodeAuthorization{ChainID: *uint256.MustFromBig(w.cfg.ChainID), Address: contracts[2].addr, Nonce: anonce})
		if err != nil {
			return nil, err
		}
		inner = &types.SetCodeTx{ChainID: uint256.MustFromBig(w.cfg.ChainID), Nonce: nonce, To: to, Gas: t.Gas,
			GasFeeCap: uint256.MustFromBig(feeCap), GasTipCap: uint256.MustFromBig(tip), Value: uint256.MustFromBig(value), Data: data,
			AuthList: []types.SetCodeAuthorization{auth}}
	default:
		return nil, fmt.Errorf("unknown tx type %q", t.Type)
	}
	return types.SignNewTx(keys[t.From%nAccounts], w.signer, inner)
}

func (w *world) addTxs(specs []TxSpec) {
	for _, t := range specs {
		from := addrs[t.From%nAccounts]
		nonce := w.pool.PoolNonce(from) + uint64(t.NonceGap)
		tx, err := w.makeTx(t, nonce)
		if err != nil {
			simcore.Harnessf("minersim: making tx %+v: %v", t, err)
		}
		errs := w.pool.Add([]*types.Transaction{tx}, true)
		// the builder breaks fee ties by first-seen time: give every transaction its own
		// virtual instant (as on a real node), else the order follows Go's map iteration
		time.Sleep(time.Microsecond)
		if errs[0] != nil {
			w.probe("pool-rejected")
			if trace {
				p, q := w.pool.ContentFrom(from)
				fmt.Println("POOL reject", t.Type, t.Kind, errs[0], "from", t.From, "nonce", nonce, "gap", t.NonceGap, "pending", len(p), "queued", len(q), "statenonce", w.stateNonce(from))
			}
		} else {
			w.probe("pool-accepted-" + t.Type)
		}
	}
}

func (w *world) stateNonce(a common.Address) uint64 {
	st, err := w.builder.State()
	if err != nil {
		return 0
	}
	return st.GetNonce(a)
}

// replace bumps the fees of the newest pending transaction of up to n accounts.
func (w *world) replace(n uint64) {
	pending, _ := w.pool.Content()
	var froms []common.Address
	for a := range pending {
		froms = append(froms, a)
	}
	sort.Slice(froms, func(i, j int) bool { return froms[i].Cmp(froms[j]) < 0 })
	for _, a := range froms {
		if n == 0 {
			break
		}
		txs := pending[a]
		if len(txs) == 0 {
			continue
		}
		old := txs[len(txs)-1]
		if old.Type() == types.BlobTxType || old.Type() == types.SetCodeTxType {
			continue
		}
		idx := -1
		for i, x := range addrs {
			if x == a {
				idx = i
			}
		}
		if idx < 0 {
			continue
		}
		feeCap := new(big.Int).Mul(old.GasFeeCap(), big.NewInt(2))
		tip := new(big.Int).Mul(old.GasTipCap(), big.NewInt(2))
		if tip.Sign() == 0 {
			tip = big.NewInt(2)
		}
		if tip.Cmp(feeCap) > 0 {
			feeCap = tip
		}
		to := addrs[(idx+1)%nAccounts]
		tx, err := types.SignNewTx(keys[idx], w.signer, &types.DynamicFeeTx{ChainID: w.cfg.ChainID, Nonce: old.Nonce(), To: &to, Gas: 21000, GasFeeCap: feeCap, GasTipCap: tip, Value: big.NewInt(1)})
		if err != nil {
			simcore.Harnessf("minersim: replacement: %v", err)
		}
		if errs := w.pool.Add([]*types.Transaction{tx}, true); errs[0] == nil {
			w.probe("pool-replaced")
		}
		time.Sleep(time.Microsecond)
		n--
	}
}

// ---- the oracle: import on the validator node

func derefU64(p *uint64) uint64 {
	if p == nil {
		return 0
	}
	return *p
}

var hexRun = regexp.MustCompile(`(0x)?[0-9a-fA-F]{8,}`)

// errClass turns an error into a stable key: hashes and numbers are dropped.
func errClass(err error) string {
	s := hexRun.ReplaceAllString(err.Error(), "H")
	var sb strings.Builder
	for _, c := range s {
		if c >= '0' && c <= '9' {
			continue
		}
		sb.WriteRune(c)
		if sb.Len() > 80 {
			break
		}
	}
	return sb.String()
}

func (w *world) judge(what string, env *engine.ExecutionPayloadEnvelope, beaconRoot *common.Hash) *types.Block {
	if env == nil {
		return nil
	}
	var vhashes []common.Hash
	if env.BlobsBundle != nil {
		hasher := sha256.New()
		for _, c := range env.BlobsBundle.Commitments {
			var commit kzg4844.Commitment
			copy(commit[:], c)
			vhashes = append(vhashes, kzg4844.CalcBlobHashV1(hasher, &commit))
		}
	}
	requests := env.Requests
	if requests == nil && w.cfg.IsPrague(new(big.Int).SetUint64(env.ExecutionPayload.Number), env.ExecutionPayload.Timestamp) {
		requests = [][]byte{}
	}
	block, err := engine.ExecutableDataToBlock(*env.ExecutionPayload, vhashes, beaconRoot, requests)
	if err != nil {
		v := simcore.Violf("payload-not-a-block", "%s: the resolved payload does not convert back into its block: %v", what, err)
		v.Key = "payload-not-a-block:" + errClass(err)
		w.fail(v)
		return nil
	}
	// what eth/catalyst newPayload checks: the header's requests hash is the hash of the
	// envelope's requests (also implied by the block hash check above; kept explicit)
	if rh := block.Header().RequestsHash; rh != nil {
		if got := types.CalcRequestsHash(requests); got != *rh {
			w.fail(simcore.Violf("payload-not-a-block", "%s: header requestsHash %x != hash of the envelope's executionRequests %x", what, *rh, got))
			return nil
		}
	}
	if len(requests) > 0 {
		w.probe("payloads-with-requests")
	}
	if w.validator.HasBlock(block.Hash(), block.NumberU64()) {
		w.probe("payload-identical-to-earlier-one")
		w.observe("%s -> block %d %x (already imported)", what, block.NumberU64(), block.Hash().Bytes()[:6])
		return block
	}
	if _, err := w.validator.InsertChain(types.Blocks{block}); err != nil {
		v := simcore.Violf("import-rejected", "%s: block %d (%d txs, gas used %d, blob gas %v, parent %x) built by the miner was rejected by InsertChain on the validator node: %v",
			what, block.NumberU64(), len(block.Transactions()), block.GasUsed(), derefU64(block.BlobGasUsed()), block.ParentHash().Bytes()[:6], err)
		v.Key = "import-rejected:" + errClass(err)
		w.fail(v)
		return nil
	}
	if !w.validator.HasState(block.Root()) {
		w.fail(simcore.Violf("import-no-state", "%s: block %d imported but its state root is not available on the validator", what, block.NumberU64()))
		return nil
	}
	w.probe("blocks-imported")
	ntx := len(block.Transactions())
	if ntx > 0 {
		w.probe("blocks-imported-nonempty")
	}
	var nblob, nsetcode int
	for _, tx := range block.Transactions() {
		if tx.Type() == types.BlobTxType {
			nblob++
		}
		if tx.Type() == types.SetCodeTxType {
			nsetcode++
		}
	}
	if nblob > 0 {
		w.probe("blocks-with-blob-txs")
	}
	if nsetcode > 0 {
		w.probe("blocks-with-setcode-txs")
	}
	if rs := w.validator.GetReceiptsByHash(block.Hash()); rs != nil {
		for _, r := range rs {
			if r.Status == types.ReceiptStatusFailed {
				w.probe("included-tx-failed-receipt")
				break
			}
		}
	}
	if block.GasUsed()+21000 > block.GasLimit() {
		w.probe("block-full")
	}
	if len(block.Withdrawals()) > 0 {
		w.probe("blocks-with-withdrawals")
	}
	w.observe("%s -> block %d %x txs=%d gas=%d", what, block.NumberU64(), block.Hash().Bytes()[:6], ntx, block.GasUsed())
	if trace {
		for i, tx := range block.Transactions() {
			from, _ := types.Sender(w.signer, tx)
			tip, _ := tx.EffectiveGasTip(block.BaseFee())
			fmt.Printf("TX %d %x from %x nonce %d tip %v time %d\n", i, tx.Hash().Bytes()[:4], from[:3], tx.Nonce(), tip, tx.Time().UnixMicro()%100_000_000)
		}
	}
	return block
}

// adopt makes a block the head of the builder node the way the engine API does.
func (w *world) adopt(block *types.Block) {
	if !w.builder.HasBlock(block.Hash(), block.NumberU64()) {
		if _, err := w.builder.InsertBlockWithoutSetHead(context.Background(), block, false); err != nil {
			v := simcore.Violf("import-rejected", "builder node rejected its own block %d: %v", block.NumberU64(), err)
			v.Key = "import-rejected-by-builder:" + errClass(err)
			w.fail(v)
			return
		}
	}
	if _, err := w.builder.SetCanonical(block); err != nil {
		simcore.Harnessf("minersim: SetCanonical: %v", err)
	}
	synctest.Wait() // pool reset done
}

func (w *world) args(sl *Slot, parent *types.Header) *miner.BuildPayloadArgs {
	a := &miner.BuildPayloadArgs{
		Parent:    parent.Hash(),
		Timestamp: parent.Time + max(sl.TimeDelta, 1),
		Random:    common.Hash{0x52, sl.Random},
		Version:   engine.PayloadV3,
	}
	switch {
	case sl.Recipient < nAccounts:
		a.FeeRecipient = addrs[sl.Recipient]
	case sl.Recipient == nAccounts:
		a.FeeRecipient = contracts[5].addr
	default:
		a.FeeRecipient = common.Address{}
	}
	a.Withdrawals = types.Withdrawals{}
	for i, wd := range sl.Withdrawals {
		to := addrs[wd.To%nAccounts]
		if wd.To >= 100 {
			to = contracts[(wd.To-100)%len(contracts)].addr
		}
		a.Withdrawals = append(a.Withdrawals, &types.Withdrawal{Index: parent.Number.Uint64()*16 + uint64(i), Validator: uint64(i + 1), Address: to, Amount: wd.Amount})
	}
	br := common.Hash{0xbe, sl.BeaconRoot}
	a.BeaconRoot = &br
	if w.cfg.IsAmsterdam(new(big.Int).Add(parent.Number, common.Big1), a.Timestamp) {
		sn := parent.Number.Uint64() + 100
		a.SlotNum = &sn
		if sl.TargetGas != 0 {
			tg := sl.TargetGas
			a.TargetGasLimit = &tg
		}
	}
	return a
}

// competingBlock lets the builder produce a sibling/child with exact contents and
// makes it the head of the builder node (a head change while a build is in flight).
func (w *world) competingBlock(n uint64, beacon byte) {
	head := w.builder.CurrentBlock()
	sl := &Slot{TimeDelta: 3, Recipient: 6, Random: 0xcc, BeaconRoot: beacon}
	a := w.args(sl, head)
	var txs []*types.Transaction
	pending, _ := w.legacy.Content()
	var froms []common.Address
	for f := range pending {
		froms = append(froms, f)
	}
	sort.Slice(froms, func(i, j int) bool { return froms[i].Cmp(froms[j]) < 0 })
	for _, f := range froms {
		if uint64(len(txs)) >= n {
			break
		}
		if len(pending[f]) > 0 {
			tx := pending[f][0]
			if tx.GasFeeCapIntCmp(new(big.Int).Mul(head.BaseFee, big.NewInt(2))) >= 0 && tx.Gas() < head.GasLimit/4 {
				txs = append(txs, tx)
			}
		}
	}
	block, env, err := w.miner.BuildTestingPayload(a, txs, len(txs) == 0, []byte("competitor"))
	if err != nil {
		// the chosen pool transactions need not be executable in this exact order
		block, env, err = w.miner.BuildTestingPayload(a, nil, true, []byte("competitor"))
		if err != nil {
			w.probe("competitor-build-failed")
			return
		}
	}
	_ = block
	b := w.judge("competing block (BuildTestingPayload)", env, a.BeaconRoot)
	if b == nil {
		return
	}
	w.probe("head-changed-during-build")
	w.adopt(b)
}

func (w *world) runSlot(si int, sl *Slot, parent *types.Header) (next *types.Header) {
	w.addTxs(sl.Pre)
	synctest.Wait()
	a := w.args(sl, parent)
	payload, err := w.miner.BuildPayload(context.Background(), a, false)
	if err != nil {
		v := simcore.Violf("build-failed", "slot %d: BuildPayload on parent %d with valid attributes failed: %v", si, parent.Number.Uint64(), err)
		v.Key = "build-failed:" + errClass(err)
		w.fail(v)
		return nil
	}
	t0 := time.Now()
	sleepTo := func(us int64) {
		if d := time.Until(t0.Add(time.Duration(us) * time.Microsecond)); d > 0 {
			time.Sleep(d)
		}
	}
	rc := w.p.RecommitUS
	tie := func(at int64) bool { return at == 0 || at%rc == 0 }
	// the empty payload is available at once and must be importable too
	empty := w.judge(fmt.Sprintf("slot %d empty payload", si), payload.ResolveEmpty(), a.BeaconRoot)
	if empty == nil {
		payload.Resolve()
		return nil
	}
	for _, ev := range sl.Events {
		if ev.At >= sl.ResolveAt {
			break
		}
		if tie(ev.At) {
			w.mu.Lock()
			w.racy = true
			w.mu.Unlock()
		}
		sleepTo(ev.At)
		switch ev.Kind {
		case "add":
			w.addTxs(ev.Txs)
		case "replace":
			w.replace(ev.N)
		case "head":
			w.competingBlock(ev.N, sl.BeaconRoot+1)
		case "tip":
			w.miner.SetGasTip(new(big.Int).SetUint64(ev.N))
		case "extra":
			w.miner.SetExtra([]byte(strings.Repeat("x", int(ev.N))))
		}
		w.probe("event-" + ev.Kind)
		if w.failed() {
			payload.Resolve()
			return nil
		}
	}
	if tie(sl.ResolveAt) {
		w.mu.Lock()
		w.racy = true
		w.mu.Unlock()
	}
	sleepTo(sl.ResolveAt)
	var env *engine.ExecutionPayloadEnvelope
	if sl.ResolveFull {
		env = payload.ResolveFull()
		if env == nil {
			w.probe("resolve-full-nil")
			env = payload.Resolve()
		}
	} else {
		env = payload.Resolve()
	}
	full, _, _, _ := payload.FullBlockAndReceipts()
	if full == nil {
		w.probe("resolved-before-first-full-build")
	} else {
		w.probe("resolved-full")
	}
	block := w.judge(fmt.Sprintf("slot %d payload resolved at +%dus", si, sl.ResolveAt), env, a.BeaconRoot)
	if block == nil {
		return nil
	}
	if sl.LateAt > 0 {
		time.Sleep(time.Duration(sl.LateAt) * time.Microsecond)
		late := w.judge(fmt.Sprintf("slot %d payload resolved again %dus later", si, sl.LateAt), payload.Resolve(), a.BeaconRoot)
		if late == nil {
			return nil
		}
		if late.Hash() != block.Hash() {
			w.probe("second-resolve-differs")
		}
	}
	w.adopt(block)
	return block.Header()
}

func Run(t *testing.T, pl any) *simcore.Result {
	p := pl.(*Plan)
	res := simcore.NewResult()
	w := &world{p: p, res: res, obs: simcore.NewHash()}
	if p.RecommitUS <= 0 {
		p.RecommitUS = 1000
	}
	oldLog := log.Root()
	log.SetDefault(log.NewLogger(&logCapture{w}))
	defer log.SetDefault(oldLog)
	scratch, err := os.MkdirTemp(os.Getenv("VERIF_SCRATCH"), "minersim-blob-*")
	if err != nil {
		simcore.Harnessf("scratch dir: %v", err)
	}
	defer os.RemoveAll(scratch)

	dl := simsched.Bubble(t, func() {
		start := time.Now()
		gspec := genesisSpec(p)
		w.cfg = gspec.Config
		w.signer = types.LatestSigner(w.cfg)
		eng := beacon.New(ethash.NewFaker())
		mk := func() *core.BlockChain {
			db := rawdb.NewDatabase(simdisk.NewSimKV(nil))
			cfg := core.DefaultConfig()
			if p.Scheme == "hash" {
				cfg = cfg.WithStateScheme(rawdb.HashScheme)
				cfg.ArchiveMode = true
			} else {
				cfg = cfg.WithStateScheme(rawdb.PathScheme)
			}
			bc, err := core.NewBlockChain(db, gspec, eng, cfg)
			if err != nil {
				simcore.Harnessf("NewBlockChain: %v", err)
			}
			return bc
		}
		w.builder, w.validator = mk(), mk()
		lcfg := legacypool.DefaultConfig
		lcfg.Journal = ""
		lcfg.NoLocals = true
		w.legacy = legacypool.New(lcfg, w.builder)
		lat := time.Duration(p.LazyUS) * time.Microsecond
		subpools := []txpool.SubPool{&latPool{SubPool: w.legacy, d: lat, w: w}}
		if p.BlobPool {
			bcfg := blobpool.DefaultConfig
			bcfg.Datadir = scratch
			subpools = append(subpools, &latPool{SubPool: blobpool.New(bcfg, w.builder, w.legacy.HasPendingAuth), d: lat, w: w})
		}
		pool, err := txpool.New(lcfg.PriceLimit, w.builder, subpools)
		if err != nil {
			simcore.Harnessf("txpool.New: %v", err)
		}
		w.pool = pool
		mcfg := miner.Config{
			GasCeil:          p.GasCeil,
			GasPrice:         new(big.Int).SetUint64(p.MinTip),
			Recommit:         time.Duration(p.RecommitUS) * time.Microsecond,
			MaxBlobsPerBlock: p.MaxBlobs,
			ExtraData:        []byte(p.Extra),
		}
		w.miner = miner.New(&backend{w.builder, pool}, mcfg, &latEngine{Engine: eng, d: time.Duration(p.FinalizeUS) * time.Microsecond})

		parent := w.builder.CurrentBlock()
		var prevParent *types.Header
		for si := range p.Slots {
			sl := &p.Slots[si]
			if sl.Sibling && prevParent != nil {
				parent = prevParent
				w.probe("built-on-non-head-parent")
			}
			next := w.runSlot(si, sl, parent)
			if next == nil || w.failed() {
				break
			}
			prevParent = parent
			parent = w.builder.CurrentBlock()
		}
		// let every payload loop run out, then stop everything
		time.Sleep(13 * time.Second)
		w.pool.Close()
		w.builder.Stop()
		w.validator.Stop()
		res.SimTimeNS = int64(time.Since(start))
	})
	if w.viol != nil {
		if len(w.logs) > 0 {
			w.viol.Msg += "\nbuilder log: " + strings.Join(w.logs, " | ")
		}
		res.Fail(w.viol)
	}
	if dl != "" && res.Violation == nil {
		simcore.Harnessf("minersim: bubble deadlock: %s", dl)
	}
	res.Events = res.Probes["blocks-imported"]
	res.NonTrivial = res.Probes["blocks-imported-nonempty"] > 0
	res.StateFP = uint64(w.obs)
	res.LogHash = uint64(w.obs)
	return res
}

func Checks() map[string]*simcore.Check {
	return map[string]*simcore.Check{"C36": {
		ID: "C36", Engine: "minersim", Level: "exploration",
		Rule: "plans = rule set (Cancun, Prague, Osaka, Amsterdam from genesis, or a fork boundary a few blocks in) x state scheme x gas limit/ceiling x Recommit (2 ms - 2 s virtual) x miner tip floor x 1-4 slots; per slot: 1-24 generated pool transactions (legacy, access-list, dynamic-fee, blob, set-code; transfers, reverting, out-of-gas, storage+log, selfdestruct, create, value forwarding to the coinbase, calls to delegated accounts, more gas than fits, fee cap below the base fee, tip below the floor, nonce gaps, unaffordable value), random payload attributes (timestamp, fee recipient incl. a contract and the zero address, withdrawals to accounts and contracts, beacon root, Amsterdam slot number / target gas limit), 0-3 events at planned virtual instants while the rebuild loop runs (pool adds, replacements, a competing head block made of pending transactions, tip floor / extra data changes) and the virtual instant and kind of Resolve (with the first build, inside a build, between rebuilds, exactly at a recommit tick, after several, after the 12 s life time; Resolve or ResolveFull; optionally a second Resolve later). Non-trivial = at least one imported block carried transactions; distinct = distinct observation logs (block hashes, tx counts, gas).",
		Assumptions: []string{
			"import = engine.ExecutableDataToBlock (the conversion NewPayload performs) + BlockChain.InsertChain on a second node with its own disk and the same genesis; the full eth.Ethereum / ConsensusAPI.NewPayload wrapper is not instantiated",
			"a build gets a duration in virtual time only through the two latency seams (lazy transaction resolution, consensus Finalize); state reads cost no virtual time",
		},
		Components: simcore.Components{
			Real: []string{"miner.Miner (BuildPayload, rebuild loop, Resolve/ResolveFull/ResolveEmpty, BuildTestingPayload, generateWork, fillTransactions, commitTransactions)", "core/txpool.TxPool + legacypool + blobpool (billy store in scratch dir)", "core.BlockChain x2 (builder, validator), state processor, block validator", "beacon/engine BlockToExecutableData / ExecutableDataToBlock", "consensus/beacon over ethash faker"},
			Stub: []string{"disks (SimKV over memorydb)", "clock (synctest bubble)", "transaction senders, consensus client (payload attributes, Resolve instants, head changes)", "latency seams: SubPool wrapper delaying lazy transaction resolution, Engine wrapper delaying Finalize"},
		},
		Perturbed: []string{
			"actions planned for the same virtual instant as a recommit tick (Resolve at exactly k*Recommit, at +0) race with the builder goroutine in real time; such slots are excluded from the determinism fingerprint",
			"state prefetcher and trie hashing goroutines inside one build",
		},
		Runs:       map[string]int{"quick": 2400, "thorough": 30000},
		Gen:        Gen, Decode: Decode, Run: Run, Shrink: Shrink,
		ProbeNames: []string{"blocks-imported", "blocks-imported-nonempty", "blocks-with-blob-txs", "blocks-with-setcode-txs", "blocks-with-withdrawals", "payloads-with-requests", "included-tx-failed-receipt", "block-full", "resolved-before-first-full-build", "resolved-full", "head-changed-during-build", "built-on-non-head-parent", "builder-tx-failed-account-skipped", "builder-skipped-low-nonce", "builder-tx-does-not-fit-gas", "builder-block-gas-exhausted", "builder-tx-does-not-fit-blobs", "builder-fill-interrupted-by-timeout", "payload-loop-ended-by-delivery", "payload-loop-ended-by-timeout", "pool-rejected", "pool-replaced", "event-add", "event-replace", "event-head", "event-tip", "event-extra"},
	}}
}

var _ = errors.New
