package minersim

import (
	"testing"

	"github.com/ethereum/go-ethereum/core"

	"verifsim/simcore"
)

func TestWorker(t *testing.T) {
	core.SenderCacher() // process-wide goroutine pool: force it before the first bubble
	Prologue()          // blob commitments and proofs, once per process
	simcore.RunWorker(t, Checks())
}
