// Package simsched decides who runs next. Real goroutines are parked at gates
// (calls into simulator-owned seams) and released one at a time in the order the
// plan's tape dictates, inside a testing/synctest bubble (virtual clock).
//
// Quiescence ("everybody who can move has moved and is parked or blocked") is
// detected either with synctest.Wait (ModeWait: engines whose gates are never
// reached with a lock held) or lock-aware from a goroutine dump (ModePoll:
// a goroutine blocked on a sync.Mutex held by a parked goroutine is not durably
// blocked for synctest, so Wait would hang).
package simsched

import (
	"bytes"
	"fmt"
	"runtime"
	"sort"
	"strings"
	"sync"
	"testing"
	"testing/synctest"
	"time"

	"verifsim/simcore"
)

type Mode int

const (
	ModeWait Mode = iota
	ModePoll
)

type waiter struct {
	label string
	seq   uint64
	ch    chan struct{}
}

type Sched struct {
	mode    Mode
	tape    *simcore.TapeReader
	mu      sync.Mutex
	parked  []*waiter
	active  bool
	arrive  chan struct{}
	actors  int
	arrSeq  uint64
	fp      simcore.Hash64
	steps   int
	maxPark int
	multi   int // steps at which >= 2 goroutines were runnable (a real choice)
	Trace   []string
	KeepLog bool
	// OnStep, if set, runs on the scheduler goroutine at every quiescent point
	// (all other goroutines parked or blocked): invariants go here.
	OnStep func() error
	Err    error
	// MaxSteps bounds a run.
	MaxSteps int
}

// process-wide real-time ticker living outside any bubble (ModePoll only).
var (
	tickOnce sync.Once
	tick     chan struct{}
)

// Prologue must be called outside any bubble before the first ModePoll use.
func Prologue() {
	tickOnce.Do(func() {
		tick = make(chan struct{}, 1)
		go func() {
			for {
				time.Sleep(50 * time.Microsecond)
				select {
				case tick <- struct{}{}:
				default:
				}
			}
		}()
	})
}

func New(tape []uint16, mode Mode) *Sched {
	if mode == ModePoll {
		if tick == nil {
			simcore.Harnessf("simsched.Prologue not called before a ModePoll scheduler")
		}
	}
	return &Sched{mode: mode, tape: &simcore.TapeReader{T: tape}, arrive: make(chan struct{}, 1),
		fp: simcore.NewHash(), MaxSteps: 200000}
}

func (s *Sched) poke() {
	select {
	case s.arrive <- struct{}{}:
	default:
	}
}

// Go starts a harness-owned actor. Run returns once all actors have exited.
func (s *Sched) Go(name string, f func()) {
	s.mu.Lock()
	s.actors++
	// Gates park from the first actor on (not only from Run on): otherwise an actor
	// goroutine that starts running before Run is called would pass its gates
	// unscheduled, and how far it gets would depend on GOMAXPROCS.
	s.active = true
	s.mu.Unlock()
	go func() {
		defer func() {
			s.mu.Lock()
			s.actors--
			s.mu.Unlock()
			s.poke()
		}()
		s.Gate(name + ":start")
		f()
	}()
}

// Gate parks the calling goroutine until the scheduler releases it. Before the
// first Go and after Run has returned (set-up, tear-down, crash reboots) it is a
// no-op. Between the first Go and Run the calling (main) goroutine must not
// reach a gate itself: nobody would release it.
func (s *Sched) Gate(label string) {
	if s == nil {
		return
	}
	s.mu.Lock()
	if !s.active {
		s.mu.Unlock()
		return
	}
	s.arrSeq++
	w := &waiter{label: label, seq: s.arrSeq, ch: make(chan struct{})}
	s.parked = append(s.parked, w)
	s.mu.Unlock()
	s.poke()
	<-w.ch
}

// Active reports whether gates currently park.
func (s *Sched) Active() bool {
	s.mu.Lock()
	defer s.mu.Unlock()
	return s.active
}

func (s *Sched) FP() uint64     { return uint64(s.fp) }
func (s *Sched) Steps() int     { return s.steps }
func (s *Sched) Choices() int   { return s.multi }
func (s *Sched) MaxParked() int { return s.maxPark }

// Run schedules until every actor started with Go has exited. Gates reached by
// non-actor goroutines (SUT background work) are scheduled as well; when the
// actors are done the remaining parked goroutines are released and gating is
// switched off.
func (s *Sched) Run() {
	s.mu.Lock()
	s.active = true
	s.mu.Unlock()
	defer s.stop()
	for {
		s.quiesce()
		if s.OnStep != nil && s.Err == nil {
			if err := s.OnStep(); err != nil {
				s.Err = err
			}
		}
		s.mu.Lock()
		if s.actors == 0 || s.Err != nil {
			s.mu.Unlock()
			return
		}
		n := len(s.parked)
		if n == 0 {
			s.mu.Unlock()
			// Everybody is blocked on something the simulator does not own (a
			// timer, typically): block durably so the bubble's clock advances.
			<-s.arrive
			continue
		}
		if n > s.maxPark {
			s.maxPark = n
		}
		sort.SliceStable(s.parked, func(i, j int) bool {
			if s.parked[i].label != s.parked[j].label {
				return s.parked[i].label < s.parked[j].label
			}
			return s.parked[i].seq < s.parked[j].seq
		})
		if n > 1 {
			s.multi++
		}
		k := s.tape.Next(n)
		w := s.parked[k]
		s.parked = append(s.parked[:k], s.parked[k+1:]...)
		s.steps++
		s.fp = s.fp.String(w.label).U64(uint64(n))
		if s.KeepLog {
			s.Trace = append(s.Trace, fmt.Sprintf("%d/%d %s", k, n, w.label))
		}
		steps := s.steps
		s.mu.Unlock()
		close(w.ch)
		if steps > s.MaxSteps {
			s.Err = fmt.Errorf("step bound %d exceeded", s.MaxSteps)
			return
		}
	}
}

func (s *Sched) stop() {
	s.mu.Lock()
	s.active = false
	rest := s.parked
	s.parked = nil
	s.mu.Unlock()
	for _, w := range rest {
		close(w.ch)
	}
}

func (s *Sched) quiesce() {
	if s.mode == ModeWait {
		synctest.Wait()
		return
	}
	s.pollQuiescent()
}

var dumpBuf = make([]byte, 1<<20)

// pollQuiescent returns when every other goroutine of this bubble is in a
// state that cannot change without the scheduler acting.
func (s *Sched) pollQuiescent() {
	patience := 0
	for i := 0; ; i++ {
		n := runtime.Stack(dumpBuf, true)
		for n == len(dumpBuf) {
			dumpBuf = make([]byte, 2*len(dumpBuf))
			n = runtime.Stack(dumpBuf, true)
		}
		q, soft := analyse(dumpBuf[:n])
		if q && !soft {
			return
		}
		if q && soft {
			// only non-durable channel waits remain: give outside goroutines a
			// little real time, then accept.
			patience++
			if patience > 20 {
				return
			}
		} else {
			patience = 0
		}
		if i < 2 {
			runtime.Gosched()
		} else {
			<-tick
		}
	}
}

// analyse parses a runtime.Stack(all) dump. The first goroutine is the caller
// (running); its bubble tag selects the goroutines to look at. quiescent is
// true when all of them are blocked; soft is true when some are blocked on
// non-bubble channels (could be woken from outside).
func analyse(dump []byte) (quiescent, soft bool) {
	bubble := ""
	first := true
	quiescent = true
	for len(dump) > 0 {
		nl := bytes.IndexByte(dump, '\n')
		var line []byte
		if nl < 0 {
			line, dump = dump, nil
		} else {
			line, dump = dump[:nl], dump[nl+1:]
		}
		if !bytes.HasPrefix(line, []byte("goroutine ")) || !bytes.HasSuffix(line, []byte("]:")) {
			continue
		}
		lb := bytes.IndexByte(line, '[')
		if lb < 0 {
			continue
		}
		inner := string(line[lb+1 : len(line)-2])
		bi := strings.Index(inner, "synctest bubble ")
		if first {
			first = false
			if bi < 0 {
				simcore.Harnessf("scheduler is not inside a synctest bubble: %s", line)
			}
			bubble = inner[bi:]
			continue
		}
		if bi < 0 || inner[bi:] != bubble {
			continue
		}
		state := inner
		if c := strings.IndexByte(state, ','); c >= 0 {
			state = state[:c]
		}
		switch {
		case strings.Contains(state, "(durable)"):
		case strings.HasPrefix(state, "sync."):
			// sync.Mutex.Lock, sync.RWMutex.(R)Lock, sync.WaitGroup.Wait, sync.Cond.Wait.
			// The bare wait reason "semacquire" is NOT counted: it is also the state of a
			// goroutine waiting for a runtime-internal semaphore (e.g. starting a GC
			// cycle), which runtime system goroutines release without the scheduler.
		case state == "chan receive", state == "chan send", state == "select", state == "chan receive (nil chan)", state == "select (no cases)":
			soft = true
		default:
			// running, runnable, syscall, IO wait, GC ..., sleep, etc.
			return false, false
		}
	}
	return quiescent, soft
}

// GoID returns the current goroutine's id (parsed from its stack header). Used to give
// gates reached through package-level hooks an actor-specific label.
func GoID() uint64 {
	var buf [64]byte
	n := runtime.Stack(buf[:], false)
	// "goroutine 123 [running]:"
	var id uint64
	for _, c := range buf[len("goroutine "):n] {
		if c < '0' || c > '9' {
			break
		}
		id = id*10 + uint64(c-'0')
	}
	return id
}

// Bubble runs f inside a synctest bubble and converts the bubble's deadlock
// panic into an error string ("" = clean).
func Bubble(t *testing.T, f func()) (deadlock string) {
	defer func() {
		if r := recover(); r != nil {
			if msg, ok := r.(string); ok && strings.HasPrefix(msg, "deadlock:") {
				deadlock = msg
				return
			}
			if err, ok := r.(error); ok && strings.HasPrefix(err.Error(), "deadlock:") {
				deadlock = err.Error()
				return
			}
			panic(r)
		}
	}()
	synctest.Test(t, func(t *testing.T) { f() })
	return ""
}
