module verifsim

go 1.26

require (
	github.com/anishathalye/porcupine v1.3.0
	github.com/ethereum/go-ethereum v0.0.0
)

replace github.com/ethereum/go-ethereum => /repo
