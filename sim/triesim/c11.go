package triesim

import (
	"bytes"
	"context"
	"encoding/json"
	"errors"
	"fmt"
	"log/slog"
	"sort"
	"strings"
	"sync"
	"sync/atomic"
	"testing"
	"time"

	"github.com/ethereum/go-ethereum/common"
	"github.com/ethereum/go-ethereum/core/rawdb"
	"github.com/ethereum/go-ethereum/core/types"
	"github.com/ethereum/go-ethereum/crypto"
	"github.com/ethereum/go-ethereum/ethdb"
	"github.com/ethereum/go-ethereum/log"
	"github.com/ethereum/go-ethereum/rlp"
	"github.com/ethereum/go-ethereum/trie"
	"github.com/ethereum/go-ethereum/triedb"
	"github.com/holiman/uint256"

	"verifsim/refmpt"
	"verifsim/simcore"
	"verifsim/simdisk"
	"verifsim/simsched"
)

// ---- log.Crit -> panic (process-wide, installed once)

type critHandler struct{}

func (critHandler) Enabled(_ context.Context, l slog.Level) bool { return l >= log.LevelCrit }
func (critHandler) Handle(_ context.Context, r slog.Record) error {
	if r.Level >= log.LevelCrit {
		var sb strings.Builder
		sb.WriteString(r.Message)
		r.Attrs(func(a slog.Attr) bool {
			sb.WriteString(" " + a.Key + "=" + fmt.Sprint(a.Value.Any()))
			return true
		})
		fmt.Println("CRIT-LOG " + sb.String())
		panic("CRIT-LOG " + sb.String())
	}
	return nil
}
func (h critHandler) WithAttrs([]slog.Attr) slog.Handler { return h }
func (h critHandler) WithGroup(string) slog.Handler      { return h }

var prologueOnce sync.Once

func prologue() {
	prologueOnce.Do(func() { log.SetDefault(log.NewLogger(critHandler{})) })
}

// ---- plan

type Slot struct {
	H HB `json:"h"`
	V HB `json:"v"`
}

type Acct11 struct {
	Hash    HB     `json:"hash"`
	Nonce   uint64 `json:"nonce"`
	Balance uint64 `json:"balance"`
	Code    HB     `json:"code,omitempty"` // code hash; empty = EmptyCodeHash
	Slots   []Slot `json:"slots,omitempty"`
	// Stale: 0 flat root is the correct storage root; 1 a random wrong root; 2 the
	// empty root although there is storage / a non-empty root although there is none.
	Stale int `json:"stale,omitempty"`
	Junk  HB  `json:"junk,omitempty"` // the wrong root for Stale=1
}

type Dangling struct {
	Acct  HB     `json:"acct"`
	Slots []Slot `json:"slots"`
}

type Plan11 struct {
	Scheme    string     `json:"scheme"`
	Accounts  []Acct11   `json:"accounts"`
	Dangling  []Dangling `json:"dangling,omitempty"`
	WrongRoot bool       `json:"wrong_root,omitempty"` // GenerateTrie is given a root that is not the state's root
	Scale     int        `json:"scale"`                // Batch.ValueSize() inflation (flushIfFull with tiny states)
	FailWrite int        `json:"fail_write,omitempty"` // n-th Batch.Write of the run fails (disk full)
	CancelAt  int        `json:"cancel_at,omitempty"`  // cancel channel closed at this scheduler step
	SleepAt   []int      `json:"sleep_at,omitempty"`   // scheduler steps at which 31 virtual seconds pass (progress ticker)
	Gated     bool       `json:"gated"`
	Tape      []uint16   `json:"tape"`
}

func genHashIn(r *simcore.Rand, nib int, near []byte) HB {
	h := HB(r.Bytes(32))
	if near != nil {
		// share a prefix with an existing hash of the partition
		pl := r.Pick(3, 3, 2, 1)
		n := []int{1, r.Range(1, 4), r.Range(8, 30), 31}[pl]
		copy(h[:n], near[:n])
		if r.Bool(0.3) {
			h[n] = near[n] ^ byte(1<<uint(r.Intn(8)))
		}
		if n == 31 && h[31]>>4 == near[31]>>4 {
			// keccak-keyed accounts never share 63 nibbles: a leaf at depth 64 is what
			// trie.ResolvePath and rawdb.ResolveAccountTrieNodeKey rule out by design
			h[31] ^= 0x10 << uint(r.Intn(4))
		}
	}
	h[0] = byte(nib)<<4 | h[0]&0x0f
	if near == nil {
		switch r.Pick(40, 1, 1) {
		case 1: // exactly the partition's first hash
			for i := range h {
				h[i] = 0
			}
			h[0] = byte(nib) << 4
			if nib == 0 {
				// the all-zero hash is geth's marker for "account trie" (rawdb.WriteTrieNode):
				// not a possible account hash
				h[31] = 1
			}
		case 2: // exactly the partition's last hash
			for i := range h {
				h[i] = 0xff
			}
			h[0] = byte(nib)<<4 | 0x0f
		}
	}
	return h
}

// k63 is the first 63 nibbles of a hash: account hashes of one state must differ
// in them (see genHashIn).
func k63(h []byte) string { return string(h[:31]) + string([]byte{h[31] >> 4}) }

func genSlots(r *simcore.Rand, n int) []Slot {
	var out []Slot
	seen := map[string]bool{}
	for len(out) < n {
		h := r.Bytes(32)
		if len(out) > 0 && r.Bool(0.4) {
			o := out[r.Intn(len(out))].H
			pl := []int{1, r.Range(1, 6), r.Range(10, 31)}[r.Intn(3)]
			copy(h[:pl], o[:pl])
		}
		// slot hashes of one account differ within their first 63 nibbles (keccak): a
		// storage leaf at inner depth 64 has sync path length 128, which trie.Sync rules out
		// ("depth >= 128 will never happen": its priority int64(128)<<56 overflows)
		if seen[string(h)] || seen[k63(h)] {
			continue
		}
		seen[string(h)] = true
		seen[k63(h)] = true
		v := r.Bytes(r.Range(1, 32))
		if v[0] == 0 {
			v[0] = 1
		}
		if r.Bool(0.3) {
			v = v[:1]
		}
		out = append(out, Slot{h, v})
	}
	return out
}

func Gen11(r *simcore.Rand, tier string) any {
	p := &Plan11{Scheme: rawdb.HashScheme}
	if r.Bool(0.6) {
		p.Scheme = rawdb.PathScheme
	}
	// which partitions are populated
	var parts []int
	switch r.Pick(1, 4, 3, 3, 5) {
	case 0: // empty state
	case 1: // a single partition
		parts = []int{r.Intn(16)}
	case 2: // two partitions
		a := r.Intn(16)
		b := (a + 1 + r.Intn(15)) % 16
		parts = []int{a, b}
	case 3: // all sixteen
		for i := 0; i < 16; i++ {
			parts = append(parts, i)
		}
	default:
		for i := 0; i < 16; i++ {
			if r.Bool(0.4) {
				parts = append(parts, i)
			}
		}
	}
	total := 0
	if len(parts) > 0 {
		switch r.Pick(3, 5, 3, 1) {
		case 0:
			total = len(parts) // one account per populated partition (single account alone when 1 partition)
		case 1:
			total = r.Range(len(parts), len(parts)+12)
		case 2:
			total = r.Range(len(parts), 60)
		default:
			total = r.Range(60, 200)
		}
	}
	seen := map[string]bool{}
	byPart := map[int][]HB{}
	for i := 0; i < total; i++ {
		nib := parts[i%len(parts)]
		if i >= len(parts) {
			nib = parts[r.Intn(len(parts))]
		}
		var near []byte
		if l := byPart[nib]; len(l) > 0 && r.Bool(0.5) {
			near = l[r.Intn(len(l))]
		}
		h := genHashIn(r, nib, near)
		if seen[string(h)] || seen[k63(h)] {
			continue
		}
		seen[string(h)] = true
		seen[k63(h)] = true
		byPart[nib] = append(byPart[nib], h)
		a := Acct11{Hash: h, Nonce: uint64(r.Intn(5)), Balance: uint64(r.Intn(1000))}
		if r.Bool(0.3) {
			a.Code = r.Bytes(32)
		}
		ns := 0
		switch r.Pick(5, 4, 2, 1) {
		case 1:
			ns = r.Range(1, 3)
		case 2:
			ns = r.Range(4, 16)
		case 3:
			ns = r.Range(17, 40)
		}
		a.Slots = genSlots(r, ns)
		if r.Bool(0.3) {
			a.Stale = 1 + r.Intn(2)
			a.Junk = r.Bytes(32)
		}
		p.Accounts = append(p.Accounts, a)
	}
	// dangling storage: before/between/after accounts of populated partitions and in empty ones
	nd := 0
	if r.Bool(0.6) {
		nd = r.Range(1, 6)
	}
	for i := 0; i < nd; i++ {
		nib := r.Intn(16)
		var near []byte
		if l := byPart[nib]; len(l) > 0 && r.Bool(0.6) {
			near = l[r.Intn(len(l))]
		}
		h := genHashIn(r, nib, near)
		if r.Bool(0.1) {
			h = bytes.Repeat([]byte{0}, 32)
		} else if r.Bool(0.1) {
			h = bytes.Repeat([]byte{0xff}, 32)
		}
		if seen[string(h)] {
			continue
		}
		seen[string(h)] = true
		p.Dangling = append(p.Dangling, Dangling{Acct: h, Slots: genSlots(r, r.Range(1, 5))})
	}
	p.WrongRoot = r.Bool(0.12)
	p.Scale = []int{1, 1, 40, 300, 2000, 40000}[r.Intn(6)]
	entries := len(p.Accounts)
	for _, a := range p.Accounts {
		entries += len(a.Slots)
	}
	if entries > 250 && p.Scale > 300 {
		// every flush reopens two snapshot iterators (O(state) each on memorydb)
		p.Scale = 300
	}
	p.Gated = r.Bool(0.9)
	if p.Gated {
		if r.Bool(0.2) {
			p.FailWrite = r.Range(1, 12)
			if p.Scale > 1 {
				p.FailWrite = r.Range(1, 60)
			}
		}
		if r.Bool(0.15) {
			p.CancelAt = r.Range(1, 400)
		}
		if r.Bool(0.2) {
			p.SleepAt = []int{r.Range(1, 100)}
		}
		p.Tape = r.Tape(1500)
	}
	return p
}

func Decode11(b []byte) (any, error) {
	p := &Plan11{}
	err := json.Unmarshal(b, p)
	return p, err
}

func Shrink11(pl any) []any {
	p := pl.(*Plan11)
	var out []any
	for _, as := range simcore.ShrinkSlice(p.Accounts) {
		q := clonePlan(p)
		q.Accounts = as
		out = append(out, q)
	}
	for _, ds := range simcore.ShrinkSlice(p.Dangling) {
		q := clonePlan(p)
		q.Dangling = ds
		out = append(out, q)
	}
	for i, a := range p.Accounts {
		if len(a.Slots) > 0 {
			for _, ss := range simcore.ShrinkSlice(a.Slots) {
				q := clonePlan(p)
				q.Accounts[i].Slots = ss
				out = append(out, q)
				if len(out) > 500 {
					break
				}
			}
		}
		if a.Stale != 0 {
			q := clonePlan(p)
			q.Accounts[i].Stale = 0
			out = append(out, q)
		}
	}
	if p.FailWrite > 0 {
		q := clonePlan(p)
		q.FailWrite = 0
		out = append(out, q)
	}
	if p.CancelAt > 0 {
		q := clonePlan(p)
		q.CancelAt = 0
		out = append(out, q)
	}
	if len(p.SleepAt) > 0 {
		q := clonePlan(p)
		q.SleepAt = nil
		out = append(out, q)
	}
	if p.Scale > 1 {
		q := clonePlan(p)
		q.Scale = 1
		out = append(out, q)
	}
	if p.Gated {
		for _, t := range simcore.ShrinkTape(p.Tape) {
			q := clonePlan(p)
			q.Tape = t
			out = append(out, q)
		}
	}
	return out
}

// ---- the gated database handed to GenerateTrie

// genDB wraps the ethdb.Database over SimKV. Every NewIterator, Iterator.Next,
// Batch.Write and direct Put parks at a gate labelled with the partition the
// calling goroutine works for, so that the set of parked labels (one per
// unfinished partition) and hence the tape's choice is independent of the Go
// scheduler. The partition of a goroutine is learnt from its first call, which is
// always NewIterator(SnapshotAccountPrefix, rangeStart).
type genDB struct {
	ethdb.Database
	s      *simsched.Sched
	mu     sync.Mutex
	who    map[uint64]string
	writes int // Batch.Write calls so far
	failAt int
	fired  bool
	res    *simcore.Result
	seen   map[string]bool
}

func (d *genDB) gate(w, op string) {
	if d.s != nil {
		d.s.Gate(w + ":" + op)
	}
}

func (d *genDB) ident(prefix, start []byte) string {
	id := goid()
	d.mu.Lock()
	defer d.mu.Unlock()
	if w, ok := d.who[id]; ok {
		return w
	}
	if bytes.Equal(prefix, rawdb.SnapshotAccountPrefix) && len(start) == 32 && start[0]&0x0f == 0 && bytes.Equal(start[1:], make([]byte, 31)) {
		w := fmt.Sprintf("p%02d", start[0]>>4)
		if !d.seen[w] {
			d.seen[w] = true
			d.who[id] = w
			return w
		}
	}
	// a goroutine the harness does not know: label by what it asks for
	w := "g:" + hashHex(append(append([]byte{}, prefix...), start...))
	d.who[id] = w
	return w
}

func (d *genDB) register(name string) {
	d.mu.Lock()
	d.who[goid()] = name
	d.mu.Unlock()
}

func (d *genDB) NewIterator(prefix, start []byte) ethdb.Iterator {
	w := d.ident(prefix, start)
	kind := string(prefix[:1])
	d.gate(w, "iter."+kind)
	return &genIter{Iterator: d.Database.NewIterator(prefix, start), d: d, w: w, op: "next." + kind}
}

type genIter struct {
	ethdb.Iterator
	d     *genDB
	w, op string
}

func (it *genIter) Next() bool {
	it.d.gate(it.w, it.op)
	return it.Iterator.Next()
}

func (d *genDB) NewBatch() ethdb.Batch {
	return &genBatch{Batch: d.Database.NewBatch(), d: d, w: d.ident(nil, nil)}
}
func (d *genDB) NewBatchWithSize(n int) ethdb.Batch {
	return &genBatch{Batch: d.Database.NewBatchWithSize(n), d: d, w: d.ident(nil, nil)}
}

type genBatch struct {
	ethdb.Batch
	d *genDB
	w string
}

func (b *genBatch) Write() error {
	b.d.gate(b.w, "write")
	b.d.mu.Lock()
	b.d.writes++
	fail := b.d.failAt > 0 && b.d.writes == b.d.failAt
	if fail {
		b.d.fired = true
	}
	b.d.mu.Unlock()
	if fail {
		return simdisk.ErrDiskFull
	}
	return b.Batch.Write()
}

func (d *genDB) Put(k, v []byte) error {
	d.gate(d.ident(nil, nil), "put")
	return d.Database.Put(k, v)
}

func (d *genDB) Delete(k []byte) error {
	d.gate(d.ident(nil, nil), "del")
	return d.Database.Delete(k)
}

// ---- reference state

type refAcct struct {
	hash      common.Hash
	flat      []byte // slim RLP as planted (possibly stale root)
	corrected []byte // slim RLP with the right storage root
	full      []byte // full RLP with the right storage root: the account trie value
	root      common.Hash
	slots     model
	stale     bool
}

type refState struct {
	accts    []*refAcct
	dangling map[string][]byte // flat storage key suffix (acct+slot) -> value
	root     common.Hash
}

func buildRef(p *Plan11) *refState {
	rs := &refState{dangling: map[string][]byte{}}
	am := model{}
	for _, a := range p.Accounts {
		ra := &refAcct{hash: common.BytesToHash(a.Hash), slots: model{}}
		for _, s := range a.Slots {
			ra.slots.set(s.H, s.V)
		}
		ra.root = ra.slots.root()
		code := types.EmptyCodeHash.Bytes()
		if len(a.Code) == 32 {
			code = a.Code
		}
		flatRoot := ra.root
		switch a.Stale {
		case 1:
			flatRoot = common.BytesToHash(a.Junk)
		case 2:
			if ra.root == types.EmptyRootHash {
				flatRoot = common.BytesToHash(a.Junk)
			} else {
				flatRoot = types.EmptyRootHash
			}
		}
		ra.stale = flatRoot != ra.root
		mk := func(root common.Hash) types.StateAccount {
			return types.StateAccount{Nonce: a.Nonce, Balance: uint256.NewInt(a.Balance), Root: root, CodeHash: code}
		}
		ra.flat = types.SlimAccountRLP(mk(flatRoot))
		ra.corrected = types.SlimAccountRLP(mk(ra.root))
		fa := mk(ra.root)
		full, err := rlp.EncodeToBytes(&fa)
		if err != nil {
			simcore.Harnessf("encode account: %v", err)
		}
		ra.full = full
		am.set(ra.hash[:], full)
		rs.accts = append(rs.accts, ra)
	}
	sort.Slice(rs.accts, func(i, j int) bool { return bytes.Compare(rs.accts[i].hash[:], rs.accts[j].hash[:]) < 0 })
	for _, d := range p.Dangling {
		for _, s := range d.Slots {
			rs.dangling[string(d.Acct)+string(s.H)] = s.V
		}
	}
	rs.root = am.root()
	return rs
}

func (rs *refState) accountModel() model {
	am := model{}
	for _, a := range rs.accts {
		am.set(a.hash[:], a.full)
	}
	return am
}

// flat dumps
func dumpFlat(mem ethdb.Iteratee) (accts, slots map[string][]byte) {
	accts, slots = map[string][]byte{}, map[string][]byte{}
	it := mem.NewIterator(rawdb.SnapshotAccountPrefix, nil)
	for it.Next() {
		if len(it.Key()) == 1+32 {
			accts[string(it.Key()[1:])] = append([]byte{}, it.Value()...)
		}
	}
	it.Release()
	it = mem.NewIterator(rawdb.SnapshotStoragePrefix, nil)
	for it.Next() {
		if len(it.Key()) == 1+64 {
			slots[string(it.Key()[1:])] = append([]byte{}, it.Value()...)
		}
	}
	it.Release()
	return
}

// checkPartial: after a failed or cancelled run nothing but the sanctioned
// corrections may have happened to the flat state. Returns the number of
// accounts still stale and dangling slots still present.
func (rs *refState) checkPartial(mem ethdb.Iteratee) (stale, dangling int, v *simcore.Violation) {
	accts, slots := dumpFlat(mem)
	if len(accts) != len(rs.accts) {
		return 0, 0, simcore.Violf("flat-state-damaged", "after an aborted run the flat state holds %d accounts, the planted state has %d", len(accts), len(rs.accts))
	}
	want := 0
	for _, a := range rs.accts {
		got, ok := accts[string(a.hash[:])]
		switch {
		case !ok:
			return 0, 0, simcore.Violf("flat-state-damaged", "after an aborted run account %x is missing from the flat state", a.hash)
		case bytes.Equal(got, a.corrected):
		case bytes.Equal(got, a.flat):
			stale++
		default:
			return 0, 0, simcore.Violf("flat-state-damaged", "after an aborted run account %x holds %x, neither the planted nor the corrected encoding", a.hash, got)
		}
		for sk, sv := range a.slots {
			want++
			if g, ok := slots[string(a.hash[:])+sk]; !ok || !bytes.Equal(g, sv) {
				return 0, 0, simcore.Violf("flat-state-damaged", "after an aborted run slot %x of account %x is %x, planted %x", []byte(sk), a.hash, g, sv)
			}
		}
	}
	for k, vv := range slots {
		acct := k[:32]
		if dv, ok := rs.dangling[k]; ok {
			if !bytes.Equal(dv, vv) {
				return 0, 0, simcore.Violf("flat-state-damaged", "after an aborted run dangling slot %x changed value", []byte(k))
			}
			dangling++
			continue
		}
		found := false
		for _, a := range rs.accts {
			if string(a.hash[:]) == acct {
				_, found = a.slots[k[32:]]
				break
			}
		}
		if !found {
			return 0, 0, simcore.Violf("flat-state-damaged", "after an aborted run the flat state holds an unknown slot %x", []byte(k))
		}
	}
	return stale, dangling, nil
}

// checkSuccess judges the disk after GenerateTrie returned nil.
func (rs *refState) checkSuccess(p *Plan11, kv *simdisk.SimKV, res *simcore.Result) *simcore.Violation {
	mem := kv.Mem()
	// (2) flat state == corrected model
	accts, slots := dumpFlat(mem)
	wantSlots := 0
	for _, a := range rs.accts {
		got, ok := accts[string(a.hash[:])]
		if !ok {
			return simcore.Violf("flat-account-missing", "account %x vanished from the flat state", a.hash)
		}
		if !bytes.Equal(got, a.corrected) {
			if a.stale && bytes.Equal(got, a.flat) {
				return simcore.Violf("stale-root-not-rewritten", "account %x still carries its stale storage root after generation (expected root %x)", a.hash, a.root)
			}
			return simcore.Violf("flat-account-wrong", "account %x is %x after generation, expected %x", a.hash, got, a.corrected)
		}
		for sk, sv := range a.slots {
			wantSlots++
			if g, ok := slots[string(a.hash[:])+sk]; !ok || !bytes.Equal(g, sv) {
				return simcore.Violf("flat-slot-damaged", "slot %x of account %x is %x after generation, planted %x", []byte(sk), a.hash, g, sv)
			}
		}
	}
	if len(accts) != len(rs.accts) {
		return simcore.Violf("flat-account-extra", "flat state holds %d accounts after generation, expected %d", len(accts), len(rs.accts))
	}
	if len(slots) != wantSlots {
		for _, k := range sortedKeys(slots) {
			if _, ok := rs.dangling[k]; ok {
				return simcore.Violf("dangling-storage-left", "dangling slot %x of non-existent account %x survived generation (%d slots on disk, %d belong to accounts)", []byte(k[32:]), []byte(k[:32]), len(slots), wantSlots)
			}
		}
		return simcore.Violf("flat-slot-extra", "flat state holds %d slots after generation, expected %d", len(slots), wantSlots)
	}
	// (4) node store
	want := map[string][]byte{}
	byHash := map[string][]byte{}
	addTrie := func(owner common.Hash, m model) {
		_, st := refStore(m)
		for pth, blob := range st {
			want[pathKey(owner, []byte(pth))] = blob
			byHash[string(crypto.Keccak256(blob))] = blob
		}
	}
	addTrie(common.Hash{}, rs.accountModel())
	for _, a := range rs.accts {
		addTrie(a.hash, a.slots)
	}
	if p.Scheme == rawdb.PathScheme {
		if d := diffStores(dumpPathNodes(mem), want, describePathKey); d != "" {
			return simcore.Violf("node-store-mismatch", "path scheme, after successful generation: %s", d)
		}
	} else {
		for _, h := range sortedKeys(byHash) {
			got, _ := mem.Get([]byte(h))
			if !bytes.Equal(got, byHash[h]) {
				return simcore.Violf("node-store-mismatch", "hash scheme, after successful generation: node %x of the canonical trie is not on disk", []byte(h))
			}
		}
	}
	// (3) open at R and read everything back through the real node database
	if len(rs.accts) > 0 {
		tdb := newTrieDB(rawdb.NewDatabase(kv), p.Scheme)
		defer tdb.Close()
		leaves, err := readTrie(trie.StateTrieID(rs.root), tdb)
		if err != nil {
			return simcore.Violf("generated-trie-unreadable", "opening/iterating the account trie at root %x failed: %v", rs.root, err)
		}
		if d := cmpLeaves(leaves, rs.accountModel()); d != "" {
			return simcore.Violf("generated-trie-content", "account trie at root %x: %s", rs.root, d)
		}
		for _, a := range rs.accts {
			if len(a.slots) == 0 {
				continue
			}
			leaves, err := readTrie(trie.StorageTrieID(rs.root, a.hash, a.root), tdb)
			if err != nil {
				return simcore.Violf("generated-trie-unreadable", "opening/iterating the storage trie of %x at root %x failed: %v", a.hash, a.root, err)
			}
			if d := cmpLeaves(leaves, a.slots); d != "" {
				return simcore.Violf("generated-trie-content", "storage trie of %x: %s", a.hash, d)
			}
		}
	}
	return nil
}

type genOutcome struct {
	stats triedb.GenerateStats
	err   error
	class string
	steps int
}

func classify(err error) string {
	switch {
	case err == nil:
		return "ok"
	case errors.Is(err, triedb.ErrCancelled):
		return "cancelled"
	case strings.Contains(err.Error(), "state root mismatch"):
		return "root-mismatch"
	case errors.Is(err, simdisk.ErrDiskFull):
		return "write-error"
	case errors.Is(err, context.Canceled):
		return "ctx-cancelled"
	default:
		return "error"
	}
}

func Run11(t *testing.T, pl any) *simcore.Result {
	prologue()
	p := pl.(*Plan11)
	res := simcore.NewResult()
	var viol *simcore.Violation
	lg := simcore.NewHash()
	var sfp uint64
	var choices int
	dl := simsched.Bubble(t, func() { viol, lg, sfp, choices = run11(p, res) })
	if dl != "" {
		simcore.Harnessf("triesim C11: bubble deadlock: %s", dl)
	}
	if viol != nil {
		res.Fail(viol)
	}
	res.StateFP = uint64(lg)
	res.LogHash = uint64(lg.U64(sfp))
	if choices > 0 {
		res.SchedFP = sfp
	}
	res.NonTrivial = choices >= 2 || len(res.Faults) > 0
	return res
}

func run11(p *Plan11, res *simcore.Result) (*simcore.Violation, simcore.Hash64, uint64, int) {
	rs := buildRef(p)
	lg := simcore.NewHash().Bytes(rs.root[:]).String(p.Scheme)
	kv := simdisk.NewSimKV(nil)
	// plant the flat state
	{
		b := kv.NewBatch()
		for _, a := range rs.accts {
			rawdb.WriteAccountSnapshot(b, a.hash, a.flat)
			for sk, sv := range a.slots {
				rawdb.WriteStorageSnapshot(b, a.hash, common.BytesToHash([]byte(sk)), sv)
			}
		}
		for k, v := range rs.dangling {
			rawdb.WriteStorageSnapshot(b, common.BytesToHash([]byte(k[:32])), common.BytesToHash([]byte(k[32:])), v)
		}
		if err := b.Write(); err != nil {
			simcore.Harnessf("plant flat state: %v", err)
		}
	}
	kv.ValueSizeScale = p.Scale
	wantStale, wantDangling := 0, len(rs.dangling)
	for _, a := range rs.accts {
		if a.stale {
			wantStale++
		}
	}
	populated := map[byte]bool{}
	for _, a := range rs.accts {
		populated[a.hash[0]>>4] = true
	}
	switch len(populated) {
	case 0:
		res.Probe("empty-state")
	case 1:
		if len(rs.accts) == 1 {
			res.Probe("single-account-fold")
		} else {
			res.Probe("single-partition-fold")
		}
	case 16:
		res.Probe("all-16-partitions")
	}

	target := rs.root
	if p.WrongRoot {
		target = crypto.Keccak256Hash(rs.root[:])
	}

	// ---- run 1: scheduled, with the planned faults
	db := &genDB{Database: rawdb.NewDatabase(kv), who: map[uint64]string{}, seen: map[string]bool{}, failAt: p.FailWrite, res: res}
	cancel := make(chan struct{})
	cancelled := false
	var out genOutcome
	var sfp uint64
	choices := 0
	start := time.Now()
	var prog atomic.Uint64
	var genDone atomic.Bool
	if p.Gated {
		s := simsched.New(p.Tape, simsched.ModeWait)
		db.s = s
		step := 0
		s.OnStep = func() error {
			step++
			if p.CancelAt > 0 && step == p.CancelAt && !cancelled && !genDone.Load() {
				cancelled = true
				close(cancel)
			}
			for _, at := range p.SleepAt {
				if at == step {
					time.Sleep(31 * time.Second)
				}
			}
			return nil
		}
		s.Go("gen", func() {
			db.register("main")
			out.stats, out.err = triedb.GenerateTrieWithProgress(db, p.Scheme, target, cancel, &prog)
			genDone.Store(true)
		})
		s.Run()
		if s.Err != nil {
			simcore.Harnessf("triesim C11 scheduler: %v", s.Err)
		}
		sfp, choices = s.FP(), s.Choices()
		res.Events += s.Steps()
		if s.MaxParked() >= 2 {
			res.Probe("partitions-interleaved")
		}
	} else {
		out.stats, out.err = triedb.GenerateTrieWithProgress(db, p.Scheme, target, cancel, &prog)
	}
	res.SimTimeNS = int64(time.Since(start))
	if res.SimTimeNS >= int64(30*time.Second) {
		res.Probe("progress-ticker-period-elapsed")
	}
	out.class = classify(out.err)
	lg = lg.String(out.class)
	if db.fired {
		res.Fault("batch-write-disk-full")
	}
	if cancelled {
		res.Fault("cancel-closed")
	}
	if db.writes > 16 {
		res.Probe("mid-run-batch-flush")
	}

	// ---- judge run 1
	faulty := db.fired || cancelled
	switch {
	case out.err == nil:
		if p.WrongRoot {
			return simcore.Violf("wrong-root-accepted", "GenerateTrie succeeded although the expected root %x differs from the state's root %x", target, rs.root), lg, sfp, choices
		}
		if db.fired {
			return simcore.Violf("write-error-swallowed", "a Batch.Write failed (disk full) but GenerateTrie reported success"), lg, sfp, choices
		}
		// (cancel raced with completion: success must be a full success)
		if v := rs.checkSuccess(p, kv, res); v != nil {
			return v, lg, sfp, choices
		}
		if out.stats.Scanned != int64(len(rs.accts)) || out.stats.Updated != int64(wantStale) || out.stats.Deleted != int64(wantDangling) {
			return simcore.Violf("stats-mismatch", "GenerateStats %+v, expected Scanned=%d Updated=%d Deleted=%d", out.stats, len(rs.accts), wantStale, wantDangling), lg, sfp, choices
		}
		if prog.Load() != 100 {
			return simcore.Violf("progress-not-100", "progress is %d after a successful generation", prog.Load()), lg, sfp, choices
		}
		if wantStale > 0 {
			res.Probe("stale-root-rewritten")
		}
		if wantDangling > 0 {
			res.Probe("dangling-storage-deleted")
		}
		lg = lg.U64(uint64(out.stats.Scanned)).U64(uint64(out.stats.Updated)).U64(uint64(out.stats.Deleted))
		return nil, lg, sfp, choices
	case !faulty:
		if !p.WrongRoot {
			return simcore.Violf("generate-failed", "GenerateTrie failed without any injected fault and with the correct expected root %x: %v", target, out.err), lg, sfp, choices
		}
		if out.class != "root-mismatch" {
			return simcore.Violf("wrong-root-other-error", "GenerateTrie was given a wrong expected root and failed with %q instead of the root-mismatch error", out.err), lg, sfp, choices
		}
		res.Probe("root-mismatch-reported")
	default:
		// injected fault: any error is acceptable for a write error; for cancel alone the
		// error must be ErrCancelled (or the root mismatch when the root was wrong anyway)
		if cancelled && !db.fired && out.class != "cancelled" && !(p.WrongRoot && out.class == "root-mismatch") {
			return simcore.Violf("cancel-wrong-error", "cancel was closed; GenerateTrie returned %q instead of ErrCancelled", out.err), lg, sfp, choices
		}
	}

	// ---- the run failed: flat state only sanctioned changes, then a fault-free run completes the job
	stale2, dang2, v := rs.checkPartial(kv.Mem())
	if v != nil {
		return v, lg, sfp, choices
	}
	db2 := &genDB{Database: rawdb.NewDatabase(kv), who: map[uint64]string{}, seen: map[string]bool{}, res: res}
	var prog2 atomic.Uint64
	st2, err2 := triedb.GenerateTrieWithProgress(db2, p.Scheme, rs.root, make(chan struct{}), &prog2)
	if err2 != nil {
		return simcore.Violf("rerun-failed", "after an aborted run (%s) a fault-free GenerateTrie on the same disk failed: %v", out.class, err2), lg, sfp, choices
	}
	if v := rs.checkSuccess(p, kv, res); v != nil {
		v.Msg = "second, fault-free run after an aborted run (" + out.class + "): " + v.Msg
		return v, lg, sfp, choices
	}
	if st2.Scanned != int64(len(rs.accts)) || st2.Updated != int64(stale2) || st2.Deleted != int64(dang2) {
		return simcore.Violf("stats-mismatch", "second run: GenerateStats %+v, expected Scanned=%d Updated=%d Deleted=%d", st2, len(rs.accts), stale2, dang2), lg, sfp, choices
	}
	res.Probe("rerun-after-abort")
	lg = lg.U64(uint64(st2.Scanned))
	return nil, lg, sfp, choices
}

var _ = refmpt.EmptyRoot
