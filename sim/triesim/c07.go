package triesim

import (
	"bytes"
	"encoding/json"
	"fmt"
	"sort"
	"testing"

	"github.com/ethereum/go-ethereum/common"
	"github.com/ethereum/go-ethereum/core/rawdb"
	"github.com/ethereum/go-ethereum/core/types"
	"github.com/ethereum/go-ethereum/crypto"
	"github.com/ethereum/go-ethereum/trie"
	"github.com/ethereum/go-ethereum/trie/trienode"
	"github.com/ethereum/go-ethereum/triedb"

	"verifsim/simcore"
	"verifsim/simdisk"
)

// TrieGen is what one generation does to one trie: the entries are applied in
// order (V=-1 deletes), optionally through UpdateBatch, optionally with a
// Hash() call after the first half.
type TrieGen struct {
	E       []BE     `json:"e"`
	Batch   bool     `json:"batch,omitempty"`
	PreHash bool     `json:"prehash,omitempty"`
	DelAPI  bool     `json:"del_api,omitempty"` // deletions through Delete instead of the empty-value Update
	Copy    *CopyGen `json:"copy,omitempty"`
}

// CopyGen: before entry number At of the trie's modification list (At == len: after
// the last one) the harness optionally reads every pool key (Warm), takes
// Trie.Copy(), applies E to the copy, checks the copy's root (and, with Commit, the
// copy's own node set) and drops the copy. The original goes on and its commit is
// judged as always: a copy must not leak anything into it.
type CopyGen struct {
	At     int  `json:"at"`
	Warm   bool `json:"warm,omitempty"`
	E      []BE `json:"e"`
	Commit bool `json:"commit,omitempty"`
}

type Gen07 struct {
	Tries []TrieGen `json:"tries"` // index 0: account trie, 1..: storage tries
	Flush bool      `json:"flush"`
	Cold  bool      `json:"cold"`
}

type Plan07 struct {
	Scheme   string  `json:"scheme"`
	KeySpace string  `json:"keyspace"`
	Keys     []HB    `json:"keys"`
	Vals     []HB    `json:"vals"`
	Owners   []HB    `json:"owners"` // storage trie owners (32 bytes each)
	Links    []HB    `json:"links"`  // account-trie key holding the storage root of owner i (outside the key pool)
	Gens     []Gen07 `json:"gens"`
}

func genTrieGen(r *simcore.Rand, nk, nv int, live map[int]bool, first bool) TrieGen {
	var g TrieGen
	liveList := func() []int {
		var l []int
		for k := range live {
			l = append(l, k)
		}
		sort.Ints(l)
		return l
	}
	add := func(k, v int) {
		g.E = append(g.E, BE{k, v})
		if v < 0 {
			delete(live, k)
		} else {
			live[k] = true
		}
	}
	start := make(map[int]bool, len(live))
	for k := range live {
		start[k] = true
	}
	mode := r.Pick(6, 2, 2, 3, 2, 1)
	if first {
		mode = r.Pick(6, 0, 0, 0, 3, 0)
	}
	switch mode {
	case 0: // random modifications
		n := r.Range(1, 40)
		pdel := []float64{0.1, 0.3, 0.6}[r.Intn(3)]
		for i := 0; i < n; i++ {
			if ll := liveList(); len(ll) > 0 && r.Bool(pdel) {
				add(ll[r.Intn(len(ll))], -1)
			} else {
				add(r.Intn(nk), r.Intn(nv))
			}
		}
	case 1: // delete everything
		for _, k := range liveList() {
			add(k, -1)
		}
	case 2: // delete everything and insert a different set
		ll := liveList()
		for i := len(ll) - 1; i > 0; i-- {
			j := r.Intn(i + 1)
			ll[i], ll[j] = ll[j], ll[i]
		}
		for _, k := range ll {
			add(k, -1)
		}
		n := r.Range(1, 30)
		for i := 0; i < n; i++ {
			add(r.Intn(nk), r.Intn(nv))
		}
	case 3: // single-key flips: insert one absent key / remove one present key (branch <-> extension)
		n := r.Range(1, 3)
		for i := 0; i < n; i++ {
			if ll := liveList(); len(ll) > 0 && r.Bool(0.5) {
				add(ll[r.Intn(len(ll))], -1)
			} else {
				add(r.Intn(nk), r.Intn(nv))
			}
		}
	case 4: // many updates: the committer's parallel branch (> 100 uncommitted updates)
		n := r.Range(101, 300)
		for i := 0; i < n; i++ {
			if r.Bool(0.15) {
				add(r.Intn(nk), -1)
			} else {
				add(r.Intn(nk), r.Intn(nv))
			}
		}
	default: // nothing
	}
	g.Batch = r.Bool(0.2)
	g.PreHash = r.Bool(0.3)
	g.DelAPI = r.Bool(0.5)
	if r.Bool(0.35) {
		// a copy that is modified (mostly structure-changing deletions) and dropped
		c := &CopyGen{At: len(g.E), Warm: r.Bool(0.7), Commit: r.Bool(0.4)}
		if r.Bool(0.5) {
			c.At = r.Intn(len(g.E) + 1)
		}
		at := start
		for _, e := range g.E[:c.At] {
			if e.V < 0 {
				delete(at, e.K)
			} else {
				at[e.K] = true
			}
		}
		var ll []int
		for k := range at {
			ll = append(ll, k)
		}
		sort.Ints(ll)
		n := r.Range(1, 12)
		if r.Bool(0.15) {
			n = len(ll) // delete (almost) everything in the copy
		}
		for i := 0; i < n; i++ {
			if len(ll) > 0 && r.Bool(0.8) {
				j := r.Intn(len(ll))
				c.E = append(c.E, BE{ll[j], -1})
				ll = append(ll[:j], ll[j+1:]...)
			} else {
				c.E = append(c.E, BE{r.Intn(nk), r.Intn(nv)})
			}
		}
		g.Copy = c
	}
	return g
}

func Gen07f(r *simcore.Rand, tier string) any {
	p := &Plan07{Scheme: rawdb.HashScheme}
	if r.Bool(0.6) {
		p.Scheme = rawdb.PathScheme
	}
	p.KeySpace = []string{"short", "wide", "fixed3", "long"}[r.Pick(4, 2, 1, 4)]
	p.Keys = genKeys(r, p.KeySpace)
	p.Vals = genVals(r)
	ns := r.Pick(2, 3, 2) // 0..2 storage tries
	for i := 0; i < ns; i++ {
		p.Owners = append(p.Owners, r.Bytes(32))
		var link HB
		switch p.KeySpace {
		case "long":
			link = r.Bytes(32)
			if r.Bool(0.5) {
				copy(link[:r.Range(1, 31)], p.Keys[r.Intn(len(p.Keys))])
			}
		default:
			// longer than any pool key, sharing a pool key as prefix
			base := p.Keys[r.Intn(len(p.Keys))]
			link = append(append(HB{}, base...), make([]byte, 4-len(base))...)
			link[3] = byte(0xe0 + i)
		}
		p.Links = append(p.Links, link)
	}
	nk, nv := len(p.Keys), len(p.Vals)
	lives := make([]map[int]bool, 1+ns)
	for i := range lives {
		lives[i] = map[int]bool{}
	}
	ngen := r.Range(1, 6)
	for g := 0; g < ngen; g++ {
		gen := Gen07{Flush: r.Bool(0.75)}
		gen.Cold = gen.Flush && r.Bool(0.6)
		wipe := r.Bool(0.08) && g > 0 // the whole state is deleted
		for t := 0; t <= ns; t++ {
			if wipe {
				var tg TrieGen
				for k := range lives[t] {
					tg.E = append(tg.E, BE{k, -1})
				}
				sort.Slice(tg.E, func(i, j int) bool { return tg.E[i].K < tg.E[j].K })
				lives[t] = map[int]bool{}
				gen.Tries = append(gen.Tries, tg)
				continue
			}
			if t > 0 && r.Bool(0.3) {
				gen.Tries = append(gen.Tries, TrieGen{})
				continue
			}
			gen.Tries = append(gen.Tries, genTrieGen(r, nk, nv, lives[t], g == 0))
		}
		p.Gens = append(p.Gens, gen)
	}
	return p
}

func Decode07(b []byte) (any, error) {
	p := &Plan07{}
	err := json.Unmarshal(b, p)
	return p, err
}

func Shrink07(pl any) []any {
	p := pl.(*Plan07)
	var out []any
	// drop trailing generations, then leading ones are needed as history: only cut the tail
	for n := 1; n < len(p.Gens); n++ {
		q := clonePlan(p)
		q.Gens = q.Gens[:n]
		out = append(out, q)
	}
	// drop storage tries
	for i := len(p.Owners) - 1; i >= 0; i-- {
		q := clonePlan(p)
		q.Owners = append(q.Owners[:i], q.Owners[i+1:]...)
		q.Links = append(q.Links[:i], q.Links[i+1:]...)
		for g := range q.Gens {
			if len(q.Gens[g].Tries) > i+1 {
				q.Gens[g].Tries = append(q.Gens[g].Tries[:i+1], q.Gens[g].Tries[i+2:]...)
			}
		}
		out = append(out, q)
	}
	for g := range p.Gens {
		for t := range p.Gens[g].Tries {
			tg := p.Gens[g].Tries[t]
			for _, e := range simcore.ShrinkSlice(tg.E) {
				q := clonePlan(p)
				q.Gens[g].Tries[t].E = e
				out = append(out, q)
				if len(out) > 600 {
					return out
				}
			}
			if tg.Copy != nil {
				q := clonePlan(p)
				q.Gens[g].Tries[t].Copy = nil
				out = append(out, q)
				for _, e := range simcore.ShrinkSlice(tg.Copy.E) {
					if len(e) == 0 {
						continue
					}
					q := clonePlan(p)
					q.Gens[g].Tries[t].Copy.E = e
					out = append(out, q)
				}
				if tg.Copy.Warm || tg.Copy.Commit {
					q := clonePlan(p)
					q.Gens[g].Tries[t].Copy.Warm, q.Gens[g].Tries[t].Copy.Commit = false, false
					out = append(out, q)
				}
			}
			if tg.Batch || tg.PreHash {
				q := clonePlan(p)
				q.Gens[g].Tries[t].Batch, q.Gens[g].Tries[t].PreHash = false, false
				out = append(out, q)
			}
		}
		if p.Gens[g].Cold {
			q := clonePlan(p)
			q.Gens[g].Cold = false
			out = append(out, q)
		}
	}
	return out
}

// applyNodeSet applies a committed node set to the path-keyed node store of the
// trie it was committed from, checking the recorded previous values on the way.
func applyNodeSet(where string, old map[string][]byte, set *trienode.NodeSet, res *simcore.Result) (map[string][]byte, *simcore.Violation) {
	applied := make(map[string][]byte, len(old))
	for k, v := range old {
		applied[k] = v
	}
	if set == nil {
		return applied, nil
	}
	for _, path := range sortedKeys(set.Nodes) {
		n := set.Nodes[path]
		origin := set.Origins[path]
		prev := old[path]
		if !bytes.Equal(origin, prev) {
			kind := "written"
			if n.IsDeleted() {
				kind = "deleted"
			}
			return nil, simcore.Violf("prev-value-mismatch", "%s: node %s at path %x records previous value %x, the original store holds %x there", where, kind, []byte(path), origin, prev)
		}
		if n.IsDeleted() {
			if len(prev) == 0 {
				return nil, simcore.Violf("delete-of-absent-node", "%s: node set deletes path %x which the original store does not hold", where, []byte(path))
			}
			delete(applied, path)
			res.Probe("nodeset-deletion")
			continue
		}
		if crypto.Keccak256Hash(n.Blob) != n.Hash {
			return nil, simcore.Violf("nodeset-hash-mismatch", "%s: node at path %x carries hash %x but its blob hashes to %x", where, []byte(path), n.Hash, crypto.Keccak256Hash(n.Blob))
		}
		applied[path] = n.Blob
	}
	return applied, nil
}

type trie07 struct {
	owner common.Hash
	m     model
	store map[string][]byte // canonical path -> blob of the committed trie
	root  common.Hash
}

func Run07(t *testing.T, pl any) *simcore.Result {
	p := pl.(*Plan07)
	res := simcore.NewResult()
	lg := simcore.NewHash()
	kv := simdisk.NewSimKV(nil)
	tdb := newTrieDB(rawdb.NewDatabase(kv), p.Scheme)
	defer func() { tdb.Close() }()
	path := p.Scheme == rawdb.PathScheme

	tries := []*trie07{{m: model{}, store: map[string][]byte{}, root: types.EmptyRootHash}}
	for _, o := range p.Owners {
		tries = append(tries, &trie07{owner: common.BytesToHash(o), m: model{}, store: map[string][]byte{}, root: types.EmptyRootHash})
	}
	stateRoot := types.EmptyRootHash
	diskRoot := types.EmptyRootHash
	live := map[common.Hash]bool{stateRoot: true}
	var block uint64

	key := func(i int) []byte { return p.Keys[i] }
	val := func(i int) []byte {
		if i < 0 {
			return nil
		}
		return p.Vals[i]
	}
	fail := func(v *simcore.Violation) *simcore.Result {
		res.Fail(v)
		res.LogHash = uint64(lg)
		return res
	}

	for gi, gen := range p.Gens {
		merged := trienode.NewMergedNodeSet()
		// storage tries first, then the account trie (which receives the storage roots)
		order := []int{}
		for i := 1; i < len(tries); i++ {
			order = append(order, i)
		}
		order = append(order, 0)
		newRoots := make([]common.Hash, len(tries))
		newStores := make([]map[string][]byte, len(tries))
		for _, ti := range order {
			tt := tries[ti]
			where := fmt.Sprintf("generation %d trie %d (owner %x)", gi, ti, tt.owner[:4])
			var id *trie.ID
			if ti == 0 {
				id = trie.StateTrieID(stateRoot)
			} else {
				id = trie.StorageTrieID(stateRoot, tt.owner, tt.root)
			}
			tr, err := trie.New(id, tdb)
			if err != nil {
				return fail(simcore.Violf("reopen-failed", "%s: opening the trie at root %x (state %x) failed: %v", where, tt.root, stateRoot, err))
			}
			var tg TrieGen
			if ti < len(gen.Tries) {
				tg = gen.Tries[ti]
			}
			entries := append([]BE{}, tg.E...)
			type kvp struct{ k, v []byte }
			var list []kvp
			for _, e := range entries {
				list = append(list, kvp{key(e.K), val(e.V)})
			}
			if ti == 0 {
				// link the storage roots into the account trie, as the state does
				for si := 1; si < len(tries); si++ {
					lk := p.Links[si-1]
					if newRoots[si] == types.EmptyRootHash {
						if _, ok := tt.m[string(lk)]; ok {
							list = append(list, kvp{lk, nil})
						}
					} else if !bytes.Equal(tt.m[string(lk)], newRoots[si][:]) {
						list = append(list, kvp{lk, newRoots[si].Bytes()})
					}
				}
			}
			if len(list) > 100 {
				res.Probe("parallel-committer")
			}
			// Trie.Copy at the planned point
			copyAt := -1
			if tg.Copy != nil {
				copyAt = min(tg.Copy.At, len(list))
				if tg.Batch && len(list) > 0 {
					if 2*copyAt <= len(list) {
						copyAt = 0
					} else {
						copyAt = len(list)
					}
				}
			}
			doCopy := func(at int) *simcore.Violation {
				if at != copyAt {
					return nil
				}
				cg := tg.Copy
				if cg.Warm {
					for _, k := range p.Keys {
						if _, err := tr.Get(k); err != nil {
							return simcore.Violf("op-error", "%s: Get(%x) before Copy failed: %v", where, []byte(k), err)
						}
					}
				}
				cm := tt.m.clone()
				for _, e := range list[:at] {
					cm.set(e.k, e.v)
				}
				cp := tr.Copy()
				for i, e := range cg.E {
					k, v := key(e.K), val(e.V)
					var err error
					if len(v) == 0 && i%2 == 0 {
						err = cp.Delete(k)
					} else {
						err = cp.Update(k, v)
					}
					if err != nil {
						return simcore.Violf("op-error", "%s: update of %x on the copy failed: %v", where, k, err)
					}
					cm.set(k, v)
				}
				cwant, cstore := refStore(cm)
				if h := cp.Hash(); h != cwant {
					return simcore.Violf("copy-root-mismatch", "%s: root of the modified copy %x, root of its key/value set %x", where, h, cwant)
				}
				if cg.Commit {
					croot, cset := cp.Commit(false)
					if croot != cwant {
						return simcore.Violf("copy-root-mismatch", "%s: Commit of the copy returned %x, expected %x", where, croot, cwant)
					}
					capplied, v := applyNodeSet(where+" (copy)", tt.store, cset, res)
					if v != nil {
						return v
					}
					if d := diffStores(capplied, cstore, func(k string) string { return fmt.Sprintf("path %x", []byte(k)) }); d != "" {
						return simcore.Violf("nodeset-apply-mismatch", "%s: node set committed by the copy, applied to the original trie's node store: %s", where, d)
					}
					res.Probe("copy-committed")
				}
				res.Probe("copy-dropped")
				return nil
			}
			if tg.Batch && len(list) > 0 {
				if v := doCopy(0); v != nil {
					return fail(v)
				}
				ks := make([][]byte, len(list))
				vs := make([][]byte, len(list))
				for i, e := range list {
					ks[i], vs[i] = e.k, e.v
				}
				if err := tr.UpdateBatch(ks, vs); err != nil {
					return fail(simcore.Violf("op-error", "%s: UpdateBatch failed: %v", where, err))
				}
				if v := doCopy(len(list)); v != nil {
					return fail(v)
				}
			} else {
				for i, e := range list {
					if v := doCopy(i); v != nil {
						return fail(v)
					}
					var err error
					if len(e.v) == 0 && tg.DelAPI {
						err = tr.Delete(e.k)
					} else {
						err = tr.Update(e.k, e.v)
					}
					if err != nil {
						return fail(simcore.Violf("op-error", "%s: update of %x failed: %v", where, e.k, err))
					}
					if tg.PreHash && i == len(list)/2 {
						tr.Hash()
					}
				}
				if v := doCopy(len(list)); v != nil {
					return fail(v)
				}
			}
			for _, e := range list {
				tt.m.set(e.k, e.v)
			}
			root, set := tr.Commit(false)
			lg = lg.Bytes(root[:])
			wantRoot, wantStore := refStore(tt.m)
			if root != wantRoot {
				return fail(simcore.Violf("commit-root-mismatch", "%s: Commit returned root %x, root of the key/value set is %x (%d entries)", where, root, wantRoot, len(tt.m)))
			}
			if set != nil && set.Owner != tt.owner {
				return fail(simcore.Violf("nodeset-owner", "%s: node set owner %x", where, set.Owner))
			}
			applied, v := applyNodeSet(where, tt.store, set, res)
			if v != nil {
				return fail(v)
			}
			if d := diffStores(applied, wantStore, func(k string) string { return fmt.Sprintf("path %x", []byte(k)) }); d != "" {
				return fail(simcore.Violf("nodeset-apply-mismatch", "%s: applying the committed node set to the original trie's node store does not give the new trie's nodes: %s", where, d))
			}
			if len(tt.m) == 0 && len(tt.store) > 0 {
				res.Probe("trie-emptied")
			}
			if set != nil {
				if err := merged.Merge(set); err != nil {
					simcore.Harnessf("merge node set: %v", err)
				}
			}
			newRoots[ti], newStores[ti] = root, wantStore
		}
		newState := newRoots[0]
		if newState != stateRoot {
			if path && live[newState] {
				res.Probe("root-revisited")
			} else {
				block++
				if err := tdb.Update(newState, stateRoot, block, merged, triedb.NewStateSet()); err != nil {
					return fail(simcore.Violf("triedb-update", "generation %d: triedb.Update(%x <- %x) failed: %v", gi, newState, stateRoot, err))
				}
				live[newState] = true
			}
		}
		for i, tt := range tries {
			tt.root, tt.store = newRoots[i], newStores[i]
		}
		stateRoot = newState
		flushed := false
		if gen.Flush {
			if path {
				if stateRoot != diskRoot {
					if err := tdb.Commit(stateRoot, false); err != nil {
						return fail(simcore.Violf("triedb-commit", "generation %d: triedb.Commit(%x) failed: %v", gi, stateRoot, err))
					}
					diskRoot = stateRoot
					live = map[common.Hash]bool{stateRoot: true}
				}
				flushed = true
			} else {
				for _, tt := range tries {
					if tt.root == types.EmptyRootHash {
						continue
					}
					if err := tdb.Commit(tt.root, false); err != nil {
						return fail(simcore.Violf("triedb-commit", "generation %d: triedb.Commit(%x) failed: %v", gi, tt.root, err))
					}
				}
				flushed = true
			}
			res.Probe("flushed-to-disk")
		}
		if gen.Cold && flushed && (!path || stateRoot == diskRoot) {
			tdb.Close()
			tdb = newTrieDB(rawdb.NewDatabase(kv), p.Scheme)
			live = map[common.Hash]bool{stateRoot: true}
			res.Probe("cold-restart")
		}
		// (2) the new root reads exactly the new contents
		for ti, tt := range tries {
			where := fmt.Sprintf("generation %d trie %d (owner %x)", gi, ti, tt.owner[:4])
			var id *trie.ID
			if ti == 0 {
				id = trie.StateTrieID(stateRoot)
			} else {
				id = trie.StorageTrieID(stateRoot, tt.owner, tt.root)
			}
			tr, err := trie.New(id, tdb)
			if err != nil {
				return fail(simcore.Violf("reopen-failed", "%s: opening the committed trie at root %x failed: %v", where, tt.root, err))
			}
			for _, k := range p.Keys {
				got, err := tr.Get(k)
				if err != nil {
					return fail(simcore.Violf("read-after-commit", "%s: Get(%x) on the committed trie failed: %v", where, []byte(k), err))
				}
				if !bytes.Equal(got, tt.m[string(k)]) {
					return fail(simcore.Violf("read-after-commit", "%s: Get(%x) on the committed trie = %x, expected %x", where, []byte(k), got, tt.m[string(k)]))
				}
			}
			leaves, err := iterLeaves(tr)
			if err != nil {
				return fail(simcore.Violf("read-after-commit", "%s: iterating the committed trie failed: %v", where, err))
			}
			if d := cmpLeaves(leaves, tt.m); d != "" {
				return fail(simcore.Violf("read-after-commit", "%s: %s", where, d))
			}
		}
		// (3) the disk after a flush
		if flushed {
			if path {
				want := map[string][]byte{}
				for _, tt := range tries {
					for pth, blob := range tt.store {
						want[pathKey(tt.owner, []byte(pth))] = blob
					}
				}
				got := dumpPathNodes(kv.Mem())
				if d := diffStores(got, want, describePathKey); d != "" {
					return fail(simcore.Violf("disk-nodes-mismatch", "generation %d (path scheme, after flush): %s", gi, d))
				}
				res.Probe("path-disk-compared")
			} else {
				for ti, tt := range tries {
					for _, pth := range sortedKeys(tt.store) {
						blob := tt.store[pth]
						h := crypto.Keccak256(blob)
						got, _ := kv.Mem().Get(h)
						if !bytes.Equal(got, blob) {
							return fail(simcore.Violf("disk-nodes-mismatch", "generation %d (hash scheme, after flush): node %x (trie %d path %x) is not on disk", gi, h, ti, []byte(pth)))
						}
					}
				}
				res.Probe("hash-disk-compared")
			}
		}
		for _, tt := range tries {
			lg = tt.m.fp(lg)
		}
	}
	// (5) streaming builder nodes == nodes committed by a regular trie built from scratch
	for ti, tt := range tries {
		kvs := tt.m.kvs()
		if len(kvs) == 0 || !prefixFree(kvs) {
			continue
		}
		stack := map[string][]byte{}
		var dup string
		st := trie.NewStackTrie(func(path []byte, hash common.Hash, blob []byte) {
			if _, ok := stack[string(path)]; ok {
				dup = fmt.Sprintf("%x", path)
			}
			if crypto.Keccak256Hash(blob) != hash {
				dup = fmt.Sprintf("hash of %x", path)
			}
			stack[string(path)] = append([]byte{}, blob...)
		})
		if k, err := feedStack(st, kvs); err != nil {
			return fail(simcore.Violf("stacktrie-update", "trie %d: StackTrie.Update(%x): %v", ti, k, err))
		}
		sroot := st.Hash()
		if dup != "" {
			return fail(simcore.Violf("stacktrie-node-callback", "trie %d: StackTrie reported node %s twice or with a wrong hash", ti, dup))
		}
		fresh := trie.NewEmpty(newTrieDB(rawdb.NewMemoryDatabase(), rawdb.HashScheme))
		for _, kv := range kvs {
			fresh.Update(kv.K, kv.V)
		}
		froot, fset := fresh.Commit(false)
		regular := map[string][]byte{}
		if fset != nil {
			for pth, n := range fset.Nodes {
				if !n.IsDeleted() {
					regular[pth] = n.Blob
				}
			}
		}
		if sroot != froot || sroot != tt.root {
			return fail(simcore.Violf("stacktrie-root-mismatch", "trie %d: StackTrie root %x, regular trie root %x, expected %x", ti, sroot, froot, tt.root))
		}
		if d := diffStores(stack, regular, func(k string) string { return fmt.Sprintf("path %x", []byte(k)) }); d != "" {
			return fail(simcore.Violf("stacktrie-nodes-mismatch", "trie %d: nodes emitted by StackTrie differ from the nodes committed by the regular trie: %s", ti, d))
		}
		if d := diffStores(stack, tt.store, func(k string) string { return fmt.Sprintf("path %x", []byte(k)) }); d != "" {
			return fail(simcore.Violf("stacktrie-nodes-mismatch", "trie %d: nodes emitted by StackTrie differ from the canonical node set: %s", ti, d))
		}
		res.Probe("stacktrie-nodes-compared")
	}
	res.LogHash = uint64(lg)
	res.StateFP = uint64(lg)
	res.NonTrivial = len(p.Gens) >= 2
	return res
}
