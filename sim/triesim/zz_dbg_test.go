package triesim

import (
	"fmt"
	"os"
	"sort"
	"strconv"
	"testing"
	"time"

	"verifsim/simcore"
)

func TestSlow(t *testing.T) {
	seed, _ := strconv.ParseUint(os.Getenv("DBG_SEED"), 10, 64)
	from, _ := strconv.Atoi(os.Getenv("DBG_FROM"))
	to, _ := strconv.Atoi(os.Getenv("DBG_TO"))
	step, _ := strconv.Atoi(os.Getenv("DBG_STEP"))
	c := Checks()[os.Getenv("DBG_PROP")]
	type rec struct {
		r int
		d time.Duration
	}
	var recs []rec
	for r := from; r < to; r += step {
		plan := c.Gen(simcore.NewRand(simcore.RunSeed(seed, uint64(r))), "quick")
		t0 := time.Now()
		res := c.Run(t, plan)
		d := time.Since(t0)
		recs = append(recs, rec{r, d})
		if d > 2*time.Second {
			fmt.Println("slow", r, d, res.Events)
		}
	}
	sort.Slice(recs, func(i, j int) bool { return recs[i].d > recs[j].d })
	for _, x := range recs[:5] {
		fmt.Println(x.r, x.d)
	}
}
