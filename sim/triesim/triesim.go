package triesim

import "verifsim/simcore"

func Checks() map[string]*simcore.Check {
	return map[string]*simcore.Check{
		"C06": check06(),
	}
}

func check06() *simcore.Check {
	return &simcore.Check{
		ID: "C06", Engine: "triesim", Level: "exploration",
		Rule: "plans = a key pool (1-3 byte keys over 4 symbols incl. keys that are prefixes of others / 2-byte keys over all 16 first nibbles / fixed 3-byte keys / 32-byte keys with long shared prefixes), 3-7 values (tiny to 70 bytes) and 10-80 operations (Update, empty-value Update, Delete, UpdateBatch of 1-96 entries incl. whole-first-nibble wipes, fan-out over all nibbles, all-but-one deletions and repeated keys, Prefetch, Hash, Get, full iteration, Commit + triedb.Update [+ flush to the simulated disk] [+ cold restart] + reopen) on a real trie over real hashdb/pathdb over SimKV; in gated plans every node read of the goroutines of UpdateBatch/Prefetch parks at a gate and the tape picks who reads next. Non-trivial = the scheduler had a real choice (>=2 parked readers) at >=2 steps, or the injected missing-node fault fired. Distinct = distinct (released-gate sequence, operation/root log) fingerprints.",
		Assumptions: []string{
			"interleavings of UpdateBatch goroutines between two node reads (shared opTracer/prevalueTracer maps, both mutex protected) are not decided; perturbed by GOMAXPROCS only",
			"hasher/committer parallelism (>=100 unhashed / >100 uncommitted updates) has no seam and is perturbed only",
			"the empty key is not part of the key pools",
		},
		Components: simcore.Components{
			Real: []string{"trie.Trie (Update, Delete, UpdateBatch, Prefetch, Get, Hash, Commit)", "trie.StackTrie", "trie NodeIterator", "triedb.Database", "triedb/hashdb", "triedb/pathdb (layers, buffer flush)", "core/rawdb accessors", "ethdb/memorydb under SimKV"},
			Stub: []string{"disk: simdisk.SimKV", "node-store seam: gate in front of triedb NodeReader.Node", "clock (synctest bubble)"},
		},
		Perturbed: []string{"UpdateBatch goroutines between node reads", "parallel hasher/committer"},
		Runs:      map[string]int{"quick": 16000, "thorough": 800000},
		Gen:       Gen06, Decode: Decode06, Run: Run06, Shrink: Shrink06,
		ProbeNames: []string{"batch-goroutines-interleaved", "batch-above-threshold", "batch-below-threshold", "batch-16-nibble-fanout",
			"batch-with-deletions", "batch-collapses-root", "stacktrie-compared", "full-iteration", "flushed-to-disk", "cold-restart", "root-revisited"},
	}
}
