package triesim

import "verifsim/simcore"

func Checks() map[string]*simcore.Check {
	return map[string]*simcore.Check{
		"C06": check06(),
		"C07": check07(),
		"C11": check11(),
		"C12": check12(),
	}
}

func check06() *simcore.Check {
	return &simcore.Check{
		ID: "C06", Engine: "triesim", Level: "exploration",
		Rule: "plans = a key pool (1-3 byte keys over 4 symbols incl. keys that are prefixes of others / 2-byte keys over all 16 first nibbles / fixed 3-byte keys / 32-byte keys with long shared prefixes), 3-7 values (1-4, 20-31, 32-70 or 301-600 bytes; StackTrie is fed like types.DeriveSha does, through one reused and immediately overwritten key/value buffer) and 10-80 operations (Update, empty-value Update, Delete, UpdateBatch of 1-96 entries incl. whole-first-nibble wipes, fan-out over all nibbles, all-but-one deletions and repeated keys, Prefetch, Hash, Get, full iteration, Trie.Copy modified and dropped, Commit + triedb.Update [+ flush to the simulated disk] [+ cold restart] + reopen) on a real trie over real hashdb/pathdb over SimKV; in gated plans every node read of the goroutines of UpdateBatch/Prefetch parks at a gate and the tape picks who reads next. Non-trivial = the scheduler had a real choice (>=2 parked readers) at >=2 steps, or the injected missing-node fault fired. Distinct = distinct (released-gate sequence, operation/root log) fingerprints.",
		Assumptions: []string{
			"interleavings of UpdateBatch goroutines between two node reads (shared opTracer/prevalueTracer maps, both mutex protected) are not decided; perturbed by GOMAXPROCS only",
			"hasher/committer parallelism (>=100 unhashed / >100 uncommitted updates) has no seam and is perturbed only",
			"the empty key is not part of the key pools",
		},
		Components: simcore.Components{
			Real: []string{"trie.Trie (Update, Delete, UpdateBatch, Prefetch, Get, Hash, Commit)", "trie.StackTrie", "trie NodeIterator", "triedb.Database", "triedb/hashdb", "triedb/pathdb (layers, buffer flush)", "core/rawdb accessors", "ethdb/memorydb under SimKV"},
			Stub: []string{"disk: simdisk.SimKV", "node-store seam: gate in front of triedb NodeReader.Node", "clock (synctest bubble)"},
		},
		Perturbed: []string{"UpdateBatch goroutines between node reads", "parallel hasher/committer"},
		Runs:      map[string]int{"quick": 16000, "thorough": 1500000},
		Gen:       Gen06, Decode: Decode06, Run: Run06, Shrink: Shrink06,
		ProbeNames: []string{"batch-goroutines-interleaved", "batch-above-threshold", "batch-below-threshold", "batch-16-nibble-fanout",
			"batch-with-deletions", "batch-collapses-root", "stacktrie-compared", "full-iteration", "flushed-to-disk", "cold-restart", "root-revisited", "copy-dropped"},
	}
}

func check07() *simcore.Check {
	return &simcore.Check{
		ID: "C07", Engine: "triesim", Level: "exploration",
		Rule: "plans = key pool (as C06), an account trie plus 0-2 storage tries (owner != 0, their roots linked into the account trie), 1-6 commit generations; per generation and trie a modification list (random edits, delete everything, delete everything and insert a different set, single-key flips, 101-300 updates for the parallel committer, nothing; sequential or UpdateBatch, Delete or empty-value Update, optional Hash() half way; in 35% a Trie.Copy() taken at a planned point, optionally after reading every key, modified with mostly deletions, root-checked, optionally committed, and dropped), then Commit -> triedb.Update (hashdb or pathdb on SimKV) [-> flush to disk] [-> cold restart]. Non-trivial = at least two generations (a committed trie is modified and re-committed). Distinct = distinct (roots, contents) logs.",
		Assumptions: []string{
			"the parallel committer's goroutines have no seam; perturbed by GOMAXPROCS only",
			"the path-scheme disk is compared only after a full flush (it lags the layers by design)",
			"hash scheme: presence of every canonical node is checked, leftovers of older generations are legitimate there",
		},
		Components: simcore.Components{
			Real: []string{"trie.Trie.Commit, committer, opTracer, PrevalueTracer", "trie/trienode NodeSet/MergedNodeSet", "trie.StackTrie with OnTrieNode", "triedb.Database.Update/Commit", "triedb/hashdb", "triedb/pathdb (diff layers, buffer, flush)", "core/rawdb trie-node accessors"},
			Stub: []string{"disk: simdisk.SimKV"},
		},
		Perturbed: []string{"parallel committer goroutines"},
		Runs:      map[string]int{"quick": 12000, "thorough": 1000000},
		Gen:       Gen07f, Decode: Decode07, Run: Run07, Shrink: Shrink07,
		ProbeNames: []string{"nodeset-deletion", "parallel-committer", "trie-emptied", "flushed-to-disk", "cold-restart", "path-disk-compared", "hash-disk-compared", "stacktrie-nodes-compared", "root-revisited", "copy-dropped", "copy-committed"},
	}
}

func check11() *simcore.Check {
	return &simcore.Check{
		ID: "C11", Engine: "triesim", Level: "exploration",
		Rule: "plans = a flat state written with rawdb.WriteAccountSnapshot/WriteStorageSnapshot: 0-200 accounts whose hashes are placed into 0, 1, 2, a random subset or all 16 first-nibble partitions (single account alone, single partition with several accounts, hashes sharing long prefixes, hashes equal to a partition's first/last hash), 0-40 slots each, stale storage roots (random, empty-vs-non-empty), dangling storage of non-existent accounts before/between/after accounts and in empty partitions, correct or wrong expected root, both schemes, Batch.ValueSize inflated by 1-40000 (mid-account, mid-storage, dangling flushes and iterator reopen), optionally the n-th Batch.Write failing (disk full), the cancel channel closed at a planned scheduler step, 31 virtual seconds passing at a planned step. Real triedb.GenerateTrieWithProgress runs as a scheduler actor; each of its partition goroutines parks at every NewIterator, Iterator.Next, Batch.Write and the tape picks which partition proceeds. Non-trivial = a real scheduling choice at >=2 steps or an injected fault fired. Distinct = distinct (released-gate sequence, outcome log) fingerprints.",
		Assumptions: []string{
			"Batch.ValueSize inflation is legal for a backend (documented as approximate); memorydb iterators are snapshots taken at creation, like pebble's",
			"only Batch.Write is failed: direct Put/Delete failures end in log.Crit by rawdb convention and are outside the property",
			"the disk starts without trie nodes (generation on a store that already holds an unrelated trie is not exercised)",
			"after an aborted run the second run is not gated (its outcome does not depend on the schedule in a correct implementation; its result is still checked in full)",
		},
		Components: simcore.Components{
			Real: []string{"triedb.GenerateTrie/GenerateTrieWithProgress, generatePartition, assembleRoot, tickProgress", "trie.PartialStackTrie, trie.StackTrie, trie.MountPartitionRoot, trie.AssembleBranch", "triedb/internal HoldableIterator", "core/rawdb snapshot and trie-node accessors, KeyLengthIterator", "golang.org/x/sync/errgroup", "triedb/pathdb and hashdb readers (read-back)"},
			Stub: []string{"disk: simdisk.SimKV under a gate wrapper (ethdb.Database)", "clock: synctest bubble (30 s progress ticker)", "caller: cancel channel"},
		},
		Perturbed: []string{"interleavings of partition goroutines between two database calls (they share only atomic counters)"},
		Runs:      map[string]int{"quick": 6000, "thorough": 400000},
		Gen:       Gen11, Decode: Decode11, Run: Run11, Shrink: Shrink11,
		ProbeNames: []string{"empty-state", "single-account-fold", "single-partition-fold", "all-16-partitions", "partitions-interleaved", "mid-run-batch-flush",
			"stale-root-rewritten", "dangling-storage-deleted", "root-mismatch-reported", "rerun-after-abort", "progress-ticker-period-elapsed"},
	}
}

func check12() *simcore.Check {
	return &simcore.Check{
		ID: "C12", Engine: "triesim", Level: "exploration",
		Rule: "plans = a source state of 1-150 accounts (hashes sharing prefixes), 0-5 storage tries of 0-60 slots some shared by several accounts, 0-3 codes some shared; destination pre-populated with nothing / complete random subtries (with the storage and code below them) / path scheme: the complete node set of a different state derived from the target / all code; a list of 5-400 requester actions (Missing(n) with n in {1,2,3,5,8,16,64,unlimited}, answer an arbitrary in-flight request, answer again something already answered, answer with an undecodable blob, Commit to the disk, restart with a new Sync object on the same disk), then a drain phase in which every request is answered once. In 60% of the plans trie.Sync's per-depth throttle (maxFetchesPerDepth, 16384 in the shipped tree) is set to 1-64 through the overlay tunable so that Missing() throttles with small states; 20% of the states are storage heavy (every account has a 17-48 slot storage trie). Real state.NewStateSync/trie.Sync; the peer serves nodes from a refmpt-built node set. The concurrent local presence checks inside ProcessNode park at gates and are released by the tape. Non-trivial = at least two requests were issued. Distinct = distinct (gate sequence, deliveries/restarts/commits, root) fingerprints.",
		Assumptions: []string{
			"by contract the caller matches a response to its request by hash before ProcessNode (snap.Syncer does); blobs that decode but hash differently are therefore not delivered here, only undecodable ones",
			"responses addressed to a dropped Sync object are dropped with it (not replayed into the new one)",
			"pre-populated subtries are complete (a present node implies its whole subtrie, storage and code), as the sync's own commit order guarantees",
			"path scheme: unreachable leftovers of the planted other state that the sync never touches are outside the property; only what the sync writes or deletes is judged, plus completeness of the target",
		},
		Components: simcore.Components{
			Real: []string{"trie.Sync (Missing, ProcessNode, ProcessCode, Commit, children, hasNode, membatch)", "core/state.NewStateSync", "common/prque", "core/rawdb trie-node and code accessors", "triedb hashdb/pathdb + trie iterator (read-back)"},
			Stub: []string{"disk: simdisk.SimKV behind a gated reader", "network/peer: requester loop with reorder, duplication, batching, undecodable answers, restart", "clock: synctest bubble"},
		},
		Perturbed: []string{},
		Runs:      map[string]int{"quick": 8000, "thorough": 1000000},
		Gen:       Gen12, Decode: Decode12, Run: Run12, Shrink: Shrink12,
		ProbeNames: []string{"concurrent-presence-checks", "pre-complete-subtrie", "pre-variant-state", "pre-all-code", "inconsistent-node-deleted", "completed-after-restart", "leaf-callback", "storage-tries-synced", "code-synced", "missing-throttled"},
	}
}
