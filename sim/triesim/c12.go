package triesim

import (
	"bytes"
	"encoding/hex"
	"encoding/json"
	"fmt"
	"sort"
	"testing"

	"github.com/ethereum/go-ethereum/common"
	"github.com/ethereum/go-ethereum/core/rawdb"
	"github.com/ethereum/go-ethereum/core/state"
	"github.com/ethereum/go-ethereum/core/types"
	"github.com/ethereum/go-ethereum/crypto"
	"github.com/ethereum/go-ethereum/ethdb"
	"github.com/ethereum/go-ethereum/rlp"
	"github.com/ethereum/go-ethereum/trie"
	"github.com/holiman/uint256"

	"verifsim/refmpt"
	"verifsim/simcore"
	"verifsim/simdisk"
	"verifsim/simsched"
)

// ---- plan

type Acct12 struct {
	Hash    HB     `json:"hash"`
	Nonce   uint64 `json:"nonce"`
	Balance uint64 `json:"balance"`
	Stor    int    `json:"stor"` // index into Storages, -1 none
	Code    int    `json:"code"` // index into Codes, -1 none
}

// Act is one step of the simulated requester/peer loop.
//
//	fetch   call Missing(N) (0 = unlimited) and put what it returns in flight
//	deliver answer the in-flight request number Pick (mod #in flight, sorted by path/hash)
//	dup     deliver again something that was already delivered
//	bad     answer an in-flight node request with an undecodable blob (the request stays in flight)
//	commit  Sync.Commit into a batch and write it to the disk
//	restart drop the Sync object with everything uncommitted and in flight; create a new one on the same disk
type Act struct {
	T    string `json:"t"`
	N    int    `json:"n,omitempty"`
	Pick uint16 `json:"pick,omitempty"`
}

// Pre describes what the destination holds before the sync starts.
//
//	none      nothing
//	subtries  complete subtries of the target (with the storage tries and code of the accounts below them)
//	variant   path scheme: the complete node set and code of a different state derived from the
//	          target (nodes at the same paths with other hashes: the inconsistent -> delete branch)
//	codes     all code
type Pre struct {
	Mode string  `json:"mode"`
	Seed uint64  `json:"seed"`
	Prob float64 `json:"prob"`
}

type Plan12 struct {
	Scheme   string   `json:"scheme"`
	Accounts []Acct12 `json:"accounts"`
	Storages [][]Slot `json:"storages"`
	Codes    []HB     `json:"codes"`
	Pre      Pre      `json:"pre"`
	OnLeaf   bool     `json:"on_leaf"` // pass a leaf callback to NewStateSync
	Acts     []Act    `json:"acts"`
	DrainN   int      `json:"drain_n"` // Missing(n) used while draining after the last act
	// MaxFetches > 0 sets trie.Sync's per-depth throttle (maxFetchesPerDepth, 16384 in the
	// shipped tree, a variable under the verif overlay) for this run; 0 leaves the default.
	MaxFetches int      `json:"max_fetches,omitempty"`
	Tape       []uint16 `json:"tape"` // order of the concurrent local-presence checks inside ProcessNode
}

func Gen12(r *simcore.Rand, tier string) any {
	p := &Plan12{Scheme: rawdb.HashScheme}
	if r.Bool(0.55) {
		p.Scheme = rawdb.PathScheme
	}
	ns := r.Intn(6)
	for i := 0; i < ns; i++ {
		n := 0
		switch r.Pick(1, 4, 3, 1) {
		case 1:
			n = r.Range(1, 4)
		case 2:
			n = r.Range(5, 20)
		case 3:
			n = r.Range(21, 60)
		}
		p.Storages = append(p.Storages, genSlots(r, n))
	}
	nc := r.Intn(4)
	for i := 0; i < nc; i++ {
		p.Codes = append(p.Codes, r.Bytes(r.Range(1, 60)))
	}
	na := 1
	switch r.Pick(2, 5, 3, 1) {
	case 1:
		na = r.Range(2, 12)
	case 2:
		na = r.Range(13, 50)
	case 3:
		na = r.Range(51, 150)
	}
	// storage-heavy states: every account has storage and the storage tries are wide, so that
	// many storage nodes of one depth (sync path length 64+k) are outstanding at once
	heavy := r.Bool(0.2)
	if heavy {
		p.Storages = nil
		ns = r.Range(1, 3)
		for i := 0; i < ns; i++ {
			p.Storages = append(p.Storages, genSlots(r, r.Range(17, 48)))
		}
		na = r.Range(4, 24)
	}
	seen := map[string]bool{}
	var hashes []HB
	for len(p.Accounts) < na {
		var near []byte
		if len(hashes) > 0 && r.Bool(0.3) {
			near = hashes[r.Intn(len(hashes))]
		}
		nib := r.Intn(16)
		if near != nil {
			nib = int(near[0] >> 4)
		}
		h := genHashIn(r, nib, near)
		if seen[string(h)] || seen[k63(h)] || bytes.Equal(h, make([]byte, 32)) {
			continue
		}
		seen[string(h)] = true
		seen[k63(h)] = true
		hashes = append(hashes, h)
		a := Acct12{Hash: h, Nonce: uint64(r.Intn(4)), Balance: uint64(r.Intn(1000)), Stor: -1, Code: -1}
		if ns > 0 && (heavy || r.Bool(0.5)) {
			a.Stor = r.Intn(ns)
		}
		if nc > 0 && r.Bool(0.5) {
			a.Code = r.Intn(nc)
		}
		p.Accounts = append(p.Accounts, a)
	}
	switch r.Pick(4, 4, 3, 1) {
	case 0:
		p.Pre = Pre{Mode: "none"}
	case 1:
		p.Pre = Pre{Mode: "subtries", Seed: r.Uint64(), Prob: []float64{0.02, 0.1, 0.3}[r.Intn(3)]}
	case 2:
		if p.Scheme == rawdb.PathScheme {
			p.Pre = Pre{Mode: "variant", Seed: r.Uint64(), Prob: []float64{0.05, 0.2, 0.5}[r.Intn(3)]}
		} else {
			p.Pre = Pre{Mode: "subtries", Seed: r.Uint64(), Prob: 0.2}
		}
	default:
		p.Pre = Pre{Mode: "codes"}
	}
	p.OnLeaf = r.Bool(0.5)
	// requester behaviour for this run
	wFetch, wDeliver, wDup, wBad, wCommit, wRestart := 25, 50, 0, 0, 10, 0
	if r.Bool(0.5) {
		wDup = 6
	}
	if r.Bool(0.4) {
		wBad = 4
	}
	if r.Bool(0.3) {
		wRestart = 2
	}
	if r.Bool(0.2) {
		wCommit = 40 // commit after (almost) every node
	} else if r.Bool(0.2) {
		wCommit = 1 // large batches
	}
	fetchN := []int{0, 1, 2, 3, 8, 64}[r.Intn(6)]
	nacts := r.Range(5, 400)
	for i := 0; i < nacts; i++ {
		switch r.Pick(wFetch, wDeliver, wDup, wBad, wCommit, wRestart) {
		case 0:
			n := fetchN
			if r.Bool(0.2) {
				n = []int{0, 1, 2, 5, 16}[r.Intn(5)]
			}
			p.Acts = append(p.Acts, Act{T: "fetch", N: n})
		case 1:
			p.Acts = append(p.Acts, Act{T: "deliver", Pick: uint16(r.Intn(1 << 16))})
		case 2:
			p.Acts = append(p.Acts, Act{T: "dup", Pick: uint16(r.Intn(1 << 16))})
		case 3:
			p.Acts = append(p.Acts, Act{T: "bad", Pick: uint16(r.Intn(1 << 16)), N: r.Intn(4)})
		case 4:
			p.Acts = append(p.Acts, Act{T: "commit"})
		default:
			p.Acts = append(p.Acts, Act{T: "restart"})
		}
	}
	p.DrainN = []int{0, 1, 4, 32}[r.Intn(4)]
	if r.Bool(0.6) {
		p.MaxFetches = []int{1, 2, 3, r.Range(4, 16), r.Range(17, 64)}[r.Intn(5)]
	}
	p.Tape = r.Tape(1200)
	return p
}

func Decode12(b []byte) (any, error) {
	p := &Plan12{}
	err := json.Unmarshal(b, p)
	return p, err
}

func Shrink12(pl any) []any {
	p := pl.(*Plan12)
	var out []any
	for _, as := range simcore.ShrinkSlice(p.Acts) {
		q := clonePlan(p)
		q.Acts = as
		out = append(out, q)
	}
	for _, as := range simcore.ShrinkSlice(p.Accounts) {
		if len(as) == 0 {
			continue
		}
		q := clonePlan(p)
		q.Accounts = as
		out = append(out, q)
	}
	for i := range p.Storages {
		for _, ss := range simcore.ShrinkSlice(p.Storages[i]) {
			q := clonePlan(p)
			q.Storages[i] = ss
			out = append(out, q)
			if len(out) > 400 {
				break
			}
		}
	}
	if p.Pre.Mode != "none" {
		q := clonePlan(p)
		q.Pre = Pre{Mode: "none"}
		out = append(out, q)
	}
	if p.MaxFetches > 0 {
		q := clonePlan(p)
		q.MaxFetches = 0
		out = append(out, q)
	}
	if p.OnLeaf {
		q := clonePlan(p)
		q.OnLeaf = false
		out = append(out, q)
	}
	for _, t := range simcore.ShrinkTape(p.Tape) {
		q := clonePlan(p)
		q.Tape = t
		out = append(out, q)
	}
	return out
}

// ---- source state (the simulated peer) built with refmpt only

type srcState struct {
	scheme  string
	root    common.Hash
	acctM   model            // account hash -> full account RLP
	storM   map[string]model // account hash -> slots (accounts with storage)
	codes   map[common.Hash][]byte
	nodes   map[string][]byte // sync path (owner nibbles ++ inner path) -> blob, non-embedded nodes
	hashes  map[string]common.Hash
	diskKey map[string]string // sync path -> database key of that node under the scheme
	byKey   map[string][]byte // database key -> blob (hash scheme: shared nodes collapse)
}

func ownerNibbles(h common.Hash) []byte {
	out := make([]byte, 64)
	for i, b := range h {
		out[2*i], out[2*i+1] = b>>4, b&15
	}
	return out
}

type acctSpec struct {
	hash    common.Hash
	nonce   uint64
	balance uint64
	slots   []Slot
	code    []byte
}

func buildSrc(scheme string, accts []acctSpec) *srcState {
	s := &srcState{scheme: scheme, acctM: model{}, storM: map[string]model{}, codes: map[common.Hash][]byte{},
		nodes: map[string][]byte{}, hashes: map[string]common.Hash{}, diskKey: map[string]string{}, byKey: map[string][]byte{}}
	add := func(owner common.Hash, isAcct bool, m model) common.Hash {
		root, ns := refmpt.Nodes(m.kvs())
		for _, n := range ns {
			if n.Embedded {
				continue
			}
			sp := string(n.Path)
			var key string
			if !isAcct {
				sp = string(ownerNibbles(owner)) + sp
			}
			h := common.BytesToHash(n.Hash)
			if scheme == rawdb.PathScheme {
				if isAcct {
					key = string(rawdb.TrieNodeAccountPrefix) + string(n.Path)
				} else {
					key = string(rawdb.TrieNodeStoragePrefix) + string(owner[:]) + string(n.Path)
				}
			} else {
				key = string(h[:])
			}
			s.nodes[sp] = n.RLP
			s.hashes[sp] = h
			s.diskKey[sp] = key
			s.byKey[key] = n.RLP
		}
		return common.BytesToHash(root)
	}
	for _, a := range accts {
		sroot := types.EmptyRootHash
		if len(a.slots) > 0 {
			m := model{}
			for _, sl := range a.slots {
				m.set(sl.H, sl.V)
			}
			s.storM[string(a.hash[:])] = m
			sroot = add(a.hash, false, m)
		}
		ch := types.EmptyCodeHash
		if len(a.code) > 0 {
			ch = crypto.Keccak256Hash(a.code)
			s.codes[ch] = a.code
		}
		acc := types.StateAccount{Nonce: a.nonce, Balance: uint256.NewInt(a.balance), Root: sroot, CodeHash: ch[:]}
		full, err := rlp.EncodeToBytes(&acc)
		if err != nil {
			simcore.Harnessf("encode account: %v", err)
		}
		s.acctM.set(a.hash[:], full)
	}
	s.root = add(common.Hash{}, true, s.acctM)
	return s
}

func specsOf(p *Plan12) []acctSpec {
	var out []acctSpec
	for _, a := range p.Accounts {
		sp := acctSpec{hash: common.BytesToHash(a.Hash), nonce: a.Nonce, balance: a.Balance}
		if a.Stor >= 0 && a.Stor < len(p.Storages) {
			sp.slots = p.Storages[a.Stor]
		}
		if a.Code >= 0 && a.Code < len(p.Codes) {
			sp.code = p.Codes[a.Code]
		}
		out = append(out, sp)
	}
	return out
}

func codeKey(h common.Hash) string { return string(rawdb.CodePrefix) + string(h[:]) }

// plantSubtrie writes the node at sync path sp, everything below it, and for
// account leaves below it their storage tries and code.
func (s *srcState) plantSubtrie(w ethdb.KeyValueWriter, sp string) {
	for _, q := range sortedKeys(s.nodes) {
		if len(q) >= len(sp) && q[:len(sp)] == sp {
			w.Put([]byte(s.diskKey[q]), s.nodes[q])
		}
	}
	if len(sp) >= 64 {
		return // inside a storage trie
	}
	for ak := range s.acctM {
		an := string(ownerNibbles(common.BytesToHash([]byte(ak))))
		if len(an) >= len(sp) && an[:len(sp)] == sp {
			// account below the planted node: storage trie and code come with it
			for _, q := range sortedKeys(s.nodes) {
				if len(q) >= 64 && q[:64] == an {
					w.Put([]byte(s.diskKey[q]), s.nodes[q])
				}
			}
			var acc types.StateAccount
			rlp.DecodeBytes(s.acctM[ak], &acc)
			ch := common.BytesToHash(acc.CodeHash)
			if c, ok := s.codes[ch]; ok {
				w.Put([]byte(codeKey(ch)), c)
			}
		}
	}
}

// fetchCounters renders the non-zero per-depth counters in depth order.
func fetchCounters(s *trie.Sync) string {
	m := s.VerifFetches()
	var ds []int
	for d, n := range m {
		if n != 0 {
			ds = append(ds, d)
		}
	}
	sort.Ints(ds)
	out := ""
	for _, d := range ds {
		out += fmt.Sprintf(" %d:%d", d, m[d])
	}
	return "[" + out + " ]"
}

// ---- gated local reads

type gatedReader struct {
	kv *simdisk.SimKV
	s  *simsched.Sched
	n  int
}

func (g *gatedReader) Has(key []byte) (bool, error) {
	g.s.Gate("has:" + hex.EncodeToString(key))
	return g.kv.Has(key)
}
func (g *gatedReader) Get(key []byte) ([]byte, error) {
	g.s.Gate("get:" + hex.EncodeToString(key))
	return g.kv.Get(key)
}

// ---- run

type inflight struct {
	code bool
	path string      // node: sync path
	hash common.Hash // node hash / code hash
}

func (f inflight) key() string {
	if f.code {
		return "c" + string(f.hash[:])
	}
	return "n" + f.path
}

func Run12(t *testing.T, pl any) *simcore.Result {
	prologue()
	p := pl.(*Plan12)
	if p.MaxFetches > 0 {
		// process-global knob: one world per process at a time
		old := trie.VerifSetMaxFetchesPerDepth(p.MaxFetches)
		defer trie.VerifSetMaxFetchesPerDepth(old)
	}
	res := simcore.NewResult()
	var viol *simcore.Violation
	var lg simcore.Hash64
	var sfp uint64
	dl := simsched.Bubble(t, func() {
		s := simsched.New(p.Tape, simsched.ModeWait)
		s.Go("requester", func() { viol, lg = run12(p, res, s) })
		s.Run()
		if s.Err != nil {
			simcore.Harnessf("triesim C12 scheduler: %v", s.Err)
		}
		sfp = s.FP()
		if s.Choices() > 0 {
			res.Probe("concurrent-presence-checks")
			res.SchedFP = sfp
		}
	})
	if dl != "" {
		simcore.Harnessf("triesim C12: bubble deadlock: %s", dl)
	}
	if viol != nil {
		res.Fail(viol)
	}
	res.StateFP = uint64(lg)
	res.LogHash = uint64(lg.U64(sfp))
	res.NonTrivial = res.Events >= 2
	return res
}

func run12(p *Plan12, res *simcore.Result, sched *simsched.Sched) (*simcore.Violation, simcore.Hash64) {
	lg := simcore.NewHash()
	src := buildSrc(p.Scheme, specsOf(p))
	kv := simdisk.NewSimKV(nil)
	path := p.Scheme == rawdb.PathScheme

	// ---- what the destination holds beforehand
	planted := map[string][]byte{}
	{
		pr := simcore.NewRand(p.Pre.Seed)
		b := kv.NewBatch()
		switch p.Pre.Mode {
		case "subtries":
			for _, sp := range sortedKeys(src.nodes) {
				if sp != "" && pr.Bool(p.Pre.Prob) {
					src.plantSubtrie(b, sp)
					res.Probe("pre-complete-subtrie")
				}
			}
		case "codes":
			for h, c := range src.codes {
				b.Put([]byte(codeKey(h)), c)
			}
			res.Probe("pre-all-code")
		case "variant":
			specs := specsOf(p)
			var vs []acctSpec
			for _, a := range specs {
				switch {
				case pr.Bool(p.Pre.Prob / 2): // account absent in the variant
					continue
				case pr.Bool(p.Pre.Prob):
					a.balance += 1 + uint64(pr.Intn(5))
				case pr.Bool(p.Pre.Prob) && len(a.slots) > 0:
					sl := append([]Slot{}, a.slots...)
					switch pr.Intn(3) {
					case 0:
						sl = sl[:len(sl)-1]
					case 1:
						sl[pr.Intn(len(sl))].V = HB{byte(1 + pr.Intn(200))}
					default:
						sl = append(sl, genSlots(pr, 1+pr.Intn(3))...)
					}
					a.slots = sl
				}
				vs = append(vs, a)
			}
			for i, n := 0, pr.Intn(4); i < n; i++ {
				vs = append(vs, acctSpec{hash: common.BytesToHash(genHashIn(pr, pr.Intn(16), nil)), nonce: 9, balance: 9})
			}
			seen := map[string]bool{}
			var uniq []acctSpec
			for _, a := range vs {
				if !seen[k63(a.hash[:])] && a.hash != (common.Hash{}) {
					seen[k63(a.hash[:])] = true
					uniq = append(uniq, a)
				}
			}
			variant := buildSrc(p.Scheme, uniq)
			for k, blob := range variant.byKey {
				b.Put([]byte(k), blob)
			}
			for h, c := range variant.codes {
				b.Put([]byte(codeKey(h)), c)
			}
			res.Probe("pre-variant-state")
		}
		if err := b.Write(); err != nil {
			simcore.Harnessf("plant: %v", err)
		}
		ks, vs := simdisk.DumpMem(kv.Mem(), nil)
		for i := range ks {
			planted[string(ks[i])] = vs[i]
		}
	}
	baseLog := kv.LogLen()

	reader := &gatedReader{kv: kv, s: sched}
	var onLeaf func(keys [][]byte, leaf []byte) error
	leaves := 0
	if p.OnLeaf {
		onLeaf = func(keys [][]byte, leaf []byte) error { leaves++; return nil }
	}
	var sync *trie.Sync
	var returned map[string]bool
	var fl []inflight
	var delivered []inflight
	createDiskAt := map[string][]byte{}
	newSync := func() {
		createDiskAt = map[string][]byte{}
		ks, vs := simdisk.DumpMem(kv.Mem(), nil)
		for i := range ks {
			createDiskAt[string(ks[i])] = vs[i]
		}
		sync = state.NewStateSync(src.root, reader, onLeaf, p.Scheme)
		returned = map[string]bool{}
		fl = nil
		delivered = nil
	}
	newSync()

	deliveries, restarts, commits := 0, 0, 0
	fetch := func(n int) *simcore.Violation {
		paths, hashes, codes := sync.Missing(n)
		if n > 0 && len(paths)+len(codes) > n {
			return simcore.Violf("missing-exceeds-max", "Missing(%d) returned %d items", n, len(paths)+len(codes))
		}
		for i, sp := range paths {
			want, ok := src.hashes[sp]
			if !ok {
				return simcore.Violf("request-not-in-target", "Missing returned node path %x (hash %x) which is not a node of the target trie", []byte(sp), hashes[i])
			}
			if want != hashes[i] {
				return simcore.Violf("request-not-in-target", "Missing returned node path %x with hash %x, the target node there has hash %x", []byte(sp), hashes[i], want)
			}
			if returned["n"+sp] {
				return simcore.Violf("request-twice", "node path %x was returned twice by Missing of one Sync object", []byte(sp))
			}
			returned["n"+sp] = true
			// nothing that was already complete locally is requested
			if blob, ok := createDiskAt[src.diskKey[sp]]; ok && bytes.Equal(blob, src.nodes[sp]) {
				return simcore.Violf("request-for-present-node", "Missing returned node path %x (hash %x) although the destination already held that node when the Sync object was created", []byte(sp), want)
			}
			fl = append(fl, inflight{path: sp, hash: want})
		}
		for _, h := range codes {
			if _, ok := src.codes[h]; !ok {
				return simcore.Violf("request-not-in-target", "Missing returned code hash %x which no target account references", h)
			}
			if returned["c"+string(h[:])] {
				return simcore.Violf("request-twice", "code %x was returned twice by Missing of one Sync object", h)
			}
			returned["c"+string(h[:])] = true
			if _, ok := createDiskAt[codeKey(h)]; ok {
				return simcore.Violf("request-for-present-node", "Missing returned code %x although the destination already held it when the Sync object was created", h)
			}
			fl = append(fl, inflight{code: true, hash: h})
		}
		sort.Slice(fl, func(i, j int) bool { return fl[i].key() < fl[j].key() })
		if got := len(paths) + len(codes); sync.VerifQueueLen() > 0 && (n == 0 || got < n) {
			res.Probe("missing-throttled")
		}
		res.Events += len(paths) + len(codes)
		return nil
	}
	deliver := func(i int) *simcore.Violation {
		f := fl[i]
		fl = append(fl[:i], fl[i+1:]...)
		deliveries++
		var err error
		if f.code {
			err = sync.ProcessCode(trie.CodeSyncResult{Hash: f.hash, Data: src.codes[f.hash]})
		} else {
			err = sync.ProcessNode(trie.NodeSyncResult{Path: f.path, Data: src.nodes[f.path]})
		}
		if err != nil {
			return simcore.Violf("delivery-rejected", "correct answer to request %x (hash %x, code=%v) was rejected: %v", []byte(f.path), f.hash, f.code, err)
		}
		delivered = append(delivered, f)
		return nil
	}
	commit := func() {
		b := kv.NewBatch()
		if err := sync.Commit(b); err != nil {
			simcore.Harnessf("Sync.Commit: %v", err)
		}
		if err := b.Write(); err != nil {
			simcore.Harnessf("batch write: %v", err)
		}
		commits++
	}

	for _, a := range p.Acts {
		if sync.Pending() == 0 {
			break
		}
		switch a.T {
		case "fetch":
			if v := fetch(a.N); v != nil {
				return v, lg
			}
		case "deliver":
			if len(fl) == 0 {
				if v := fetch(p.DrainN); v != nil {
					return v, lg
				}
			}
			if len(fl) > 0 {
				if v := deliver(int(a.Pick) % len(fl)); v != nil {
					return v, lg
				}
			}
		case "dup":
			if len(delivered) > 0 {
				f := delivered[int(a.Pick)%len(delivered)]
				if f.code {
					sync.ProcessCode(trie.CodeSyncResult{Hash: f.hash, Data: src.codes[f.hash]})
				} else {
					sync.ProcessNode(trie.NodeSyncResult{Path: f.path, Data: src.nodes[f.path]})
				}
				res.Fault("duplicate-response")
			}
		case "bad":
			var cand []inflight
			for _, f := range fl {
				if !f.code {
					cand = append(cand, f)
				}
			}
			if len(cand) > 0 {
				f := cand[int(a.Pick)%len(cand)]
				good := src.nodes[f.path]
				var bad []byte
				switch a.N {
				case 0:
					bad = good[:len(good)/2] // truncated
				case 1:
					bad = []byte{0xc1, 0x80} // a one-element list: neither short nor full node
				case 2:
					bad = append([]byte{0xf9, 0xff, 0xff}, good...) // list header longer than the input
				default:
					bad = []byte{}
				}
				err := sync.ProcessNode(trie.NodeSyncResult{Path: f.path, Data: bad})
				if err == nil {
					return simcore.Violf("undecodable-accepted", "an undecodable blob %x for node path %x was accepted by ProcessNode", bad, []byte(f.path)), lg
				}
				res.Fault("undecodable-response")
			}
		case "commit":
			commit()
		case "restart":
			newSync()
			restarts++
			res.Fault("requester-restart")
		}
	}
	// ---- drain: every request is eventually answered once
	bound := 2*(len(src.nodes)+len(src.codes)) + 16
	drained := 0
	for sync.Pending() > 0 {
		if len(fl) == 0 {
			if v := fetch(p.DrainN); v != nil {
				return v, lg
			}
			if len(fl) == 0 {
				return simcore.Violf("sync-stuck", "Pending()=%d but Missing returns nothing and nothing is in flight (after %d deliveries, %d restarts; %d requests still queued, per-depth in-flight counters %v, limit %d)", sync.Pending(), deliveries, restarts, sync.VerifQueueLen(), fetchCounters(sync), p.MaxFetches), lg
			}
		}
		if v := deliver(0); v != nil {
			return v, lg
		}
		drained++
		if drained > bound {
			return simcore.Violf("sync-not-terminating", "sync still pending after %d deliveries in the drain phase (target has %d nodes and %d codes)", drained, len(src.nodes), len(src.codes)), lg
		}
		if drained%7 == 0 {
			commit()
		}
	}
	commit()
	lg = lg.U64(uint64(deliveries)).U64(uint64(restarts)).U64(uint64(commits))

	// ---- everything written must be a target node/code; deletions only of planted non-target nodes
	for _, op := range kv.Snapshot()[baseLog:] {
		units := []simdisk.KVOp{op}
		if op.Kind == simdisk.OpBatch {
			units = op.Batch
		}
		for _, u := range units {
			k := string(u.Key)
			switch u.Kind {
			case simdisk.OpPut:
				if len(k) == 33 && k[0] == rawdb.CodePrefix[0] {
					h := common.BytesToHash([]byte(k[1:]))
					if c, ok := src.codes[h]; !ok || !bytes.Equal(c, u.Val) {
						return simcore.Violf("foreign-write", "sync wrote code %x which is not code of the target (or with wrong content)", h), lg
					}
					continue
				}
				blob, ok := src.byKey[k]
				if !ok {
					return simcore.Violf("foreign-write", "sync wrote database key %x (value %x) which is not a node of the target trie", []byte(k), u.Val), lg
				}
				if !bytes.Equal(blob, u.Val) {
					return simcore.Violf("foreign-write", "sync wrote key %x with value %x, the target node there is %x", []byte(k), u.Val, blob), lg
				}
			case simdisk.OpDelete:
				if !path {
					return simcore.Violf("foreign-delete", "hash scheme: sync deleted key %x", []byte(k)), lg
				}
				pb, was := planted[k]
				if !was {
					return simcore.Violf("foreign-delete", "sync deleted key %x which was never planted as an inconsistent node", []byte(k)), lg
				}
				if tb, ok := src.byKey[k]; ok && bytes.Equal(tb, pb) {
					return simcore.Violf("foreign-delete", "sync deleted key %x which held the correct target node", []byte(k)), lg
				}
				res.Probe("inconsistent-node-deleted")
			default:
				return simcore.Violf("foreign-write", "unexpected write kind %d by the sync", u.Kind), lg
			}
		}
	}
	// ---- termination: every target node and code on disk
	for _, sp := range sortedKeys(src.nodes) {
		got, _ := kv.Mem().Get([]byte(src.diskKey[sp]))
		if !bytes.Equal(got, src.nodes[sp]) {
			return simcore.Violf("target-node-missing", "sync terminated (Pending()==0) but target node at path %x (hash %x) is not on disk (found %x)", []byte(sp), src.hashes[sp], got), lg
		}
	}
	for h, c := range src.codes {
		got, _ := kv.Mem().Get([]byte(codeKey(h)))
		if !bytes.Equal(got, c) {
			return simcore.Violf("target-code-missing", "sync terminated but code %x is not on disk", h), lg
		}
	}
	// ---- read the state back through the real trie code
	if len(src.acctM) > 0 {
		tdb := newTrieDB(rawdb.NewDatabase(kv), p.Scheme)
		defer tdb.Close()
		got, err := readTrie(trie.StateTrieID(src.root), tdb)
		if err != nil {
			return simcore.Violf("synced-state-unreadable", "account trie at %x: %v", src.root, err), lg
		}
		if d := cmpLeaves(got, src.acctM); d != "" {
			return simcore.Violf("synced-state-content", "account trie: %s", d), lg
		}
		for _, ak := range sortedKeys(src.storM) {
			var acc types.StateAccount
			rlp.DecodeBytes(src.acctM[ak], &acc)
			got, err := readTrie(trie.StorageTrieID(src.root, common.BytesToHash([]byte(ak)), acc.Root), tdb)
			if err != nil {
				return simcore.Violf("synced-state-unreadable", "storage trie of %x: %v", []byte(ak), err), lg
			}
			if d := cmpLeaves(got, src.storM[ak]); d != "" {
				return simcore.Violf("synced-state-content", "storage trie of %x: %s", []byte(ak), d), lg
			}
		}
	}
	if restarts > 0 {
		res.Probe("completed-after-restart")
	}
	if p.OnLeaf && leaves > 0 {
		res.Probe("leaf-callback")
	}
	if len(src.storM) > 0 {
		res.Probe("storage-tries-synced")
	}
	if len(src.codes) > 0 {
		res.Probe("code-synced")
	}
	lg = lg.Bytes(src.root[:])
	return nil, lg
}
