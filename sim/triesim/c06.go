package triesim

import (
	"bytes"
	"encoding/json"
	"errors"
	"fmt"
	"sort"
	"sync/atomic"
	"testing"

	"github.com/ethereum/go-ethereum/common"
	"github.com/ethereum/go-ethereum/core/rawdb"
	"github.com/ethereum/go-ethereum/core/types"
	"github.com/ethereum/go-ethereum/trie"
	"github.com/ethereum/go-ethereum/trie/trienode"
	"github.com/ethereum/go-ethereum/triedb"

	"verifsim/refmpt"
	"verifsim/simcore"
	"verifsim/simdisk"
	"verifsim/simsched"
)

// ---- plan

// BE is one batch entry: key index into Plan.Keys, value index into Plan.Vals (-1 = empty value = deletion).
type BE struct {
	K int `json:"k"`
	V int `json:"v"`
}

// Op06 kinds: upd (Update k v; v=-1 is the empty-value deletion), del (Delete k), batch
// (UpdateBatch), hash, get, iter, commit (Commit + triedb.Update [+flush] [+cold restart] + reopen),
// prefetch (Trie.Prefetch of the listed keys), copy (Trie.Copy, modified by B, root-checked,
// [committed], dropped; Cold = read every key first).
type Op06 struct {
	T     string `json:"t"`
	K     int    `json:"k,omitempty"`
	V     int    `json:"v,omitempty"`
	B     []BE   `json:"b,omitempty"`
	Flush bool   `json:"flush,omitempty"`
	Cold  bool   `json:"cold,omitempty"`
}

type Plan06 struct {
	Scheme   string   `json:"scheme"`
	KeySpace string   `json:"keyspace"`
	Keys     []HB     `json:"keys"`
	Vals     []HB     `json:"vals"`
	Ops      []Op06   `json:"ops"`
	Gated    bool     `json:"gated"`   // node reads of UpdateBatch/Prefetch goroutines are scheduled by the tape
	FailAt   int      `json:"fail_at"` // >0: the n-th node read that reaches the disk during a trie operation reports "not found"
	Tape     []uint16 `json:"tape"`
}

func genKeys(r *simcore.Rand, space string) []HB {
	var all []HB
	switch space {
	case "short":
		// all strings of length 1..3 over four symbols: maximal prefix sharing, keys
		// that are prefixes of other keys (values in a branch's 17th slot), tiny nodes.
		syms := []byte{0x10, 0x11, 0x21, 0x3f}
		var rec func(pfx []byte, d int)
		rec = func(pfx []byte, d int) {
			if d > 0 {
				all = append(all, append(HB{}, pfx...))
			}
			if d == 3 {
				return
			}
			for _, s := range syms {
				rec(append(append([]byte{}, pfx...), s), d+1)
			}
		}
		rec(nil, 0)
	case "wide":
		// two-byte keys covering all 16 first nibbles
		for n := 0; n < 16; n++ {
			for _, lo := range []byte{0, 1} {
				for _, b2 := range []byte{0x00, 0x01, 0x10} {
					all = append(all, HB{byte(n)<<4 | lo, b2})
				}
			}
		}
	case "fixed3":
		syms := []byte{0x10, 0x11, 0x21, 0x3f, 0xa0}
		for _, a := range syms {
			for _, b := range syms {
				for _, c := range syms[:4] {
					all = append(all, HB{a, b, c})
				}
			}
		}
	default: // long: 32-byte keys with a few long shared prefixes
		nseed := r.Range(2, 5)
		seeds := make([][]byte, nseed)
		for i := range seeds {
			seeds[i] = r.Bytes(32)
			if i > 0 && r.Bool(0.5) {
				// share the first nibble or byte with an earlier seed
				copy(seeds[i][:1], seeds[r.Intn(i)][:1])
				if r.Bool(0.5) {
					seeds[i][0] ^= 0x01
				}
			}
		}
		n := r.Range(24, 110)
		seen := map[string]bool{}
		for len(all) < n {
			k := r.Bytes(32)
			s := seeds[r.Intn(nseed)]
			var pl int
			switch r.Pick(3, 3, 2, 1) {
			case 0:
				pl = r.Range(0, 2)
			case 1:
				pl = r.Range(1, 8)
			case 2:
				pl = r.Range(20, 31)
			default:
				pl = 31
			}
			copy(k[:pl], s[:pl])
			if r.Bool(0.3) && pl < 32 {
				// differ in the low nibble only at the split point
				k[pl] = s[pl] ^ byte(1+r.Intn(15))
			}
			if !seen[string(k)] {
				seen[string(k)] = true
				all = append(all, k)
			}
		}
		return all
	}
	// random subset, at least 8 keys
	n := r.Range(8, len(all))
	for i := len(all) - 1; i > 0; i-- {
		j := r.Intn(i + 1)
		all[i], all[j] = all[j], all[i]
	}
	all = all[:n]
	sort.Slice(all, func(i, j int) bool { return bytes.Compare(all[i], all[j]) < 0 })
	return all
}

func genVals(r *simcore.Rand) []HB {
	n := r.Range(3, 7)
	vals := make([]HB, n)
	for i := range vals {
		var l int
		switch r.Pick(4, 3, 3, 3) {
		case 0:
			l = r.Range(1, 4) // embedded leaves
		case 1:
			l = r.Range(20, 31)
		case 2:
			l = r.Range(32, 70)
		default:
			l = r.Range(301, 600) // beyond the stack trie's pooled value buffers (300 bytes)
		}
		vals[i] = r.Bytes(l)
		if vals[i][0] == 0 && r.Bool(0.5) {
			vals[i][0] = 1
		}
	}
	return vals
}

func firstNibble(k []byte) int { return int(k[0] >> 4) }

func Gen06(r *simcore.Rand, tier string) any {
	p := &Plan06{Scheme: rawdb.HashScheme}
	if r.Bool(0.5) {
		p.Scheme = rawdb.PathScheme
	}
	p.KeySpace = []string{"short", "wide", "fixed3", "long"}[r.Pick(3, 3, 1, 3)]
	p.Keys = genKeys(r, p.KeySpace)
	p.Vals = genVals(r)
	p.Gated = r.Bool(0.7)
	nk, nv := len(p.Keys), len(p.Vals)

	live := map[int]bool{} // key index -> present (generator's own model, to aim deletions)
	liveList := func() []int {
		var l []int
		for k := range live {
			l = append(l, k)
		}
		sort.Ints(l)
		return l
	}
	apply := func(k, v int) {
		if v < 0 {
			delete(live, k)
		} else {
			live[k] = true
		}
	}
	nops := r.Range(10, 80)
	// start with a bulk load in most runs so that the root is a branch early
	if r.Bool(0.8) {
		var b []BE
		n := r.Range(4, min(nk, 60))
		for i := 0; i < n; i++ {
			e := BE{r.Intn(nk), r.Intn(nv)}
			b = append(b, e)
			apply(e.K, e.V)
		}
		p.Ops = append(p.Ops, Op06{T: "batch", B: b})
		if r.Bool(0.6) {
			p.Ops = append(p.Ops, Op06{T: "commit", Flush: true, Cold: r.Bool(0.5)})
		}
	}
	for len(p.Ops) < nops {
		if r.Bool(0.05) {
			// Trie.Copy: the copy gets its own (mostly deleting) updates and is dropped
			var b []BE
			ll := liveList()
			n := r.Range(1, 10)
			for i := 0; i < n; i++ {
				if len(ll) > 0 && r.Bool(0.8) {
					j := r.Intn(len(ll))
					b = append(b, BE{ll[j], -1})
					ll = append(ll[:j], ll[j+1:]...)
				} else {
					b = append(b, BE{r.Intn(nk), r.Intn(nv)})
				}
			}
			p.Ops = append(p.Ops, Op06{T: "copy", B: b, Flush: r.Bool(0.4), Cold: r.Bool(0.6)})
			continue
		}
		switch r.Pick(22, 10, 30, 8, 8, 4, 12, 3) {
		case 0:
			v := r.Intn(nv)
			if r.Bool(0.1) {
				v = -1
			}
			k := r.Intn(nk)
			p.Ops = append(p.Ops, Op06{T: "upd", K: k, V: v})
			apply(k, v)
		case 1:
			k := r.Intn(nk)
			if ll := liveList(); len(ll) > 0 && r.Bool(0.8) {
				k = ll[r.Intn(len(ll))]
			}
			p.Ops = append(p.Ops, Op06{T: "del", K: k})
			apply(k, -1)
		case 2:
			var b []BE
			switch r.Pick(5, 4, 2, 1, 1) {
			case 0: // random mix
				n := r.Range(1, 96)
				if r.Bool(0.3) {
					n = r.Range(1, 6) // around the parallel threshold
				}
				pdel := []float64{0, 0.2, 0.5, 0.9}[r.Intn(4)]
				for i := 0; i < n; i++ {
					e := BE{r.Intn(nk), r.Intn(nv)}
					if r.Bool(pdel) {
						e.V = -1
						if ll := liveList(); len(ll) > 0 && r.Bool(0.7) {
							e.K = ll[r.Intn(len(ll))]
						}
					}
					b = append(b, e)
				}
			case 1: // wipe whole first-nibble groups (root child collapse, survivors<2 fallback)
				nibs := map[int]bool{}
				for _, k := range liveList() {
					nibs[firstNibble(p.Keys[k])] = true
				}
				var nl []int
				for n := range nibs {
					nl = append(nl, n)
				}
				sort.Ints(nl)
				keep := r.Intn(3) // number of groups left alone
				for i := len(nl) - 1; i > 0; i-- {
					j := r.Intn(i + 1)
					nl[i], nl[j] = nl[j], nl[i]
				}
				wipe := map[int]bool{}
				for i, n := range nl {
					if i >= keep {
						wipe[n] = true
					}
				}
				for _, k := range liveList() {
					if wipe[firstNibble(p.Keys[k])] {
						if r.Bool(0.93) {
							b = append(b, BE{k, -1})
						}
					} else if r.Bool(0.3) {
						b = append(b, BE{k, r.Intn(nv)})
					}
				}
				// shuffle
				for i := len(b) - 1; i > 0; i-- {
					j := r.Intn(i + 1)
					b[i], b[j] = b[j], b[i]
				}
			case 2: // fan-out: one update per first nibble available in the pool
				seen := map[int]bool{}
				for k := range p.Keys {
					n := firstNibble(p.Keys[k])
					if !seen[n] || r.Bool(0.1) {
						seen[n] = true
						b = append(b, BE{k, r.Intn(nv)})
					}
				}
			case 3: // delete all but one or two keys
				ll := liveList()
				spare := r.Range(0, 2)
				for i := len(ll) - 1; i > 0; i-- {
					j := r.Intn(i + 1)
					ll[i], ll[j] = ll[j], ll[i]
				}
				for i, k := range ll {
					if i >= spare {
						b = append(b, BE{k, -1})
					}
				}
			default: // same key several times in one batch
				n := r.Range(4, 12)
				ks := []int{r.Intn(nk), r.Intn(nk), r.Intn(nk)}
				for i := 0; i < n; i++ {
					e := BE{ks[r.Intn(3)], r.Intn(nv)}
					if r.Bool(0.3) {
						e.V = -1
					}
					b = append(b, e)
				}
				for i := 0; i < 3; i++ {
					b = append(b, BE{r.Intn(nk), r.Intn(nv)})
				}
			}
			if len(b) == 0 {
				b = append(b, BE{r.Intn(nk), r.Intn(nv)})
			}
			for _, e := range b {
				apply(e.K, e.V)
			}
			p.Ops = append(p.Ops, Op06{T: "batch", B: b})
		case 3:
			p.Ops = append(p.Ops, Op06{T: "hash"})
		case 4:
			p.Ops = append(p.Ops, Op06{T: "get", K: r.Intn(nk)})
		case 5:
			p.Ops = append(p.Ops, Op06{T: "iter"})
		case 6:
			fl := r.Bool(0.8)
			p.Ops = append(p.Ops, Op06{T: "commit", Flush: fl, Cold: fl && r.Bool(0.5)})
		default:
			var b []BE
			n := r.Range(1, 40)
			for i := 0; i < n; i++ {
				b = append(b, BE{K: r.Intn(nk)})
			}
			p.Ops = append(p.Ops, Op06{T: "prefetch", B: b})
		}
	}
	if r.Bool(0.25) {
		p.FailAt = r.Range(1, 40)
	}
	if p.Gated {
		p.Tape = r.Tape(600)
	}
	return p
}

func Decode06(b []byte) (any, error) {
	p := &Plan06{}
	err := json.Unmarshal(b, p)
	return p, err
}

func Shrink06(pl any) []any {
	p := pl.(*Plan06)
	var out []any
	for _, ops := range simcore.ShrinkSlice(p.Ops) {
		q := clonePlan(p)
		q.Ops = ops
		out = append(out, q)
	}
	for i, op := range p.Ops {
		if op.T == "batch" && len(op.B) > 1 {
			for _, b := range simcore.ShrinkSlice(op.B) {
				if len(b) == 0 {
					continue
				}
				q := clonePlan(p)
				q.Ops[i].B = b
				out = append(out, q)
				if len(out) > 400 {
					break
				}
			}
		}
		if op.T == "commit" && op.Cold {
			q := clonePlan(p)
			q.Ops[i].Cold = false
			out = append(out, q)
		}
	}
	if p.Gated {
		q := clonePlan(p)
		q.Gated = false
		q.Tape = nil
		out = append(out, q)
		for _, t := range simcore.ShrinkTape(p.Tape) {
			q := clonePlan(p)
			q.Tape = t
			out = append(out, q)
		}
	}
	if p.FailAt > 0 {
		q := clonePlan(p)
		q.FailAt = 0
		out = append(out, q)
	}
	return out
}

// ---- run

// world06 is one simulated trie world: SimKV disk, real triedb, trie under test and
// its sequential twin.
type world06 struct {
	p        *Plan06
	res      *simcore.Result
	kv       *simdisk.SimKV
	tdb      *triedb.Database
	gdb      *gatedNodeDB
	sched    atomic.Pointer[simsched.Sched]
	reads    atomic.Int64
	tr       *trie.Trie
	twin     *trie.Trie
	root     common.Hash // last committed root
	diskRoot common.Hash
	live     map[common.Hash]bool // roots the path database currently has a layer for
	block    uint64
	m        model // current contents
	cm       model // contents at the last commit
	armed    atomic.Bool
	dreads   atomic.Int64 // disk reads of trie nodes while armed
	fired    atomic.Bool
	tapeAt   int
	log      simcore.Hash64
	sfp      simcore.Hash64
	choice   int
}

func isTrieNodeKey(scheme string, key []byte) bool {
	if scheme == rawdb.PathScheme {
		return isPathNodeKey(key)
	}
	return len(key) == common.HashLength
}

func (w *world06) open() *simcore.Violation {
	w.gdb = &gatedNodeDB{inner: w.tdb, sched: &w.sched, reads: &w.reads}
	var err error
	w.tr, err = trie.New(trie.TrieID(w.root), w.gdb)
	if err != nil {
		return simcore.Violf("reopen-failed", "opening the trie at the committed root %x failed: %v", w.root, err)
	}
	w.twin, err = trie.New(trie.TrieID(w.root), w.tdb)
	if err != nil {
		return simcore.Violf("reopen-failed", "opening the twin trie at the committed root %x failed: %v", w.root, err)
	}
	return nil
}

// sut runs one operation of the trie under test with the read fault armed. If
// concurrent is set the operation runs as a scheduler actor and the node reads
// of its goroutines are released by the tape.
func (w *world06) sut(concurrent bool, f func() error) error {
	w.armed.Store(true)
	defer w.armed.Store(false)
	if !concurrent || !w.p.Gated {
		return f()
	}
	var tape []uint16
	if w.tapeAt < len(w.p.Tape) {
		tape = w.p.Tape[w.tapeAt:]
	}
	s := simsched.New(tape, simsched.ModeWait)
	w.sched.Store(s)
	var err error
	s.Go("op", func() { err = f() })
	s.Run()
	w.sched.Store(nil)
	if s.Err != nil {
		simcore.Harnessf("triesim C06 scheduler: %v", s.Err)
	}
	w.tapeAt += s.Steps()
	w.sfp = w.sfp.U64(s.FP())
	w.choice += s.Choices()
	w.res.Events += s.Steps()
	if s.MaxParked() >= 2 {
		w.res.Probe("batch-goroutines-interleaved")
	}
	return err
}

// faulted handles the outcome of an operation under the injected read fault.
// Returns (true, nil) when the fault fired and was reported properly.
func (w *world06) faulted(what string, err error) (bool, *simcore.Violation) {
	if !w.fired.Load() || w.res.Faults["node-read-missing"] > 0 {
		return false, nil
	}
	// the fault fired during this operation
	w.res.Fault("node-read-missing")
	if err == nil {
		// The only way to survive a missing node is not to need it: the read was
		// issued but its result unused. The trie does not do speculative reads in
		// these operations, so a nil error means the failure was swallowed.
		return true, simcore.Violf("missing-node-swallowed", "%s: a node read reported 'not found' but the operation returned no error", what)
	}
	var mne *trie.MissingNodeError
	if !errors.As(err, &mne) {
		return true, simcore.Violf("missing-node-error-type", "%s: a node read reported 'not found'; the operation returned %T %v instead of a MissingNodeError", what, err, err)
	}
	// discard the trie: reopen at the last committed root
	w.m = w.cm.clone()
	if v := w.open(); v != nil {
		return true, v
	}
	w.log = w.log.String("fault-reopen")
	return true, nil
}

func (w *world06) checkRoot(where string, got common.Hash) *simcore.Violation {
	want := w.m.root()
	if got != want {
		return simcore.Violf("root-mismatch", "%s: trie root %x, root of the key/value set %x (%d entries, scheme %s, keyspace %s)", where, got, want, len(w.m), w.p.Scheme, w.p.KeySpace)
	}
	kvs := w.m.kvs()
	if prefixFree(kvs) {
		st := trie.NewStackTrie(nil)
		if k, err := feedStack(st, kvs); err != nil {
			return simcore.Violf("stacktrie-update", "%s: StackTrie.Update(%x) failed: %v", where, k, err)
		}
		if sh := st.Hash(); sh != want {
			return simcore.Violf("stacktrie-root-mismatch", "%s: StackTrie root %x, root of the key/value set %x (%d entries)", where, sh, want, len(kvs))
		}
		w.res.Probe("stacktrie-compared")
	}
	if th := w.twin.Hash(); th != want {
		return simcore.Violf("twin-root-mismatch", "%s: sequential twin root %x, expected %x", where, th, want)
	}
	return nil
}

func Run06(t *testing.T, pl any) *simcore.Result {
	p := pl.(*Plan06)
	res := simcore.NewResult()
	var viol *simcore.Violation
	w := &world06{p: p, res: res, m: model{}, cm: model{}, root: types.EmptyRootHash, diskRoot: types.EmptyRootHash, live: map[common.Hash]bool{types.EmptyRootHash: true}, log: simcore.NewHash(), sfp: simcore.NewHash()}
	dl := simsched.Bubble(t, func() { viol = w.run() })
	if dl != "" {
		simcore.Harnessf("triesim C06: bubble deadlock: %s", dl)
	}
	if viol != nil {
		res.Fail(viol)
	}
	res.LogHash = uint64(w.log.U64(uint64(w.sfp)))
	res.StateFP = uint64(w.log)
	if w.choice > 0 {
		res.SchedFP = uint64(w.sfp)
	}
	res.NonTrivial = w.choice >= 2 || res.Faults["node-read-missing"] > 0
	return res
}

func (w *world06) key(i int) []byte { return w.p.Keys[i] }
func (w *world06) val(i int) []byte {
	if i < 0 {
		return nil
	}
	return w.p.Vals[i]
}

func (w *world06) run() *simcore.Violation {
	p := w.p
	w.kv = simdisk.NewSimKV(nil)
	if p.FailAt > 0 {
		w.kv.FailGet = func(key []byte) bool {
			if !w.armed.Load() || w.fired.Load() || !isTrieNodeKey(p.Scheme, key) {
				return false
			}
			if int(w.dreads.Add(1)) == p.FailAt {
				w.fired.Store(true)
				return true
			}
			return false
		}
	}
	disk := rawdb.NewDatabase(w.kv)
	w.tdb = newTrieDB(disk, p.Scheme)
	defer func() { w.tdb.Close() }()
	if v := w.open(); v != nil {
		return v
	}
	for i, op := range p.Ops {
		where := fmt.Sprintf("op %d (%s)", i, op.T)
		w.log = w.log.String(op.T)
		switch op.T {
		case "upd":
			k, v := w.key(op.K), w.val(op.V)
			err := w.sut(false, func() error { return w.tr.Update(k, v) })
			if f, viol := w.faulted(where, err); f {
				if viol != nil {
					return viol
				}
				continue
			}
			if err != nil {
				return simcore.Violf("op-error", "%s: Update(%x) failed without an injected fault: %v", where, k, err)
			}
			w.m.set(k, v)
			w.twin.Update(k, v)
		case "del":
			k := w.key(op.K)
			err := w.sut(false, func() error { return w.tr.Delete(k) })
			if f, viol := w.faulted(where, err); f {
				if viol != nil {
					return viol
				}
				continue
			}
			if err != nil {
				return simcore.Violf("op-error", "%s: Delete(%x) failed without an injected fault: %v", where, k, err)
			}
			w.m.set(k, nil)
			w.twin.Delete(k)
		case "batch":
			keys := make([][]byte, len(op.B))
			vals := make([][]byte, len(op.B))
			nibs := map[int]bool{}
			dels := 0
			for j, e := range op.B {
				keys[j], vals[j] = w.key(e.K), w.val(e.V)
				nibs[firstNibble(keys[j])] = true
				if e.V < 0 {
					dels++
				}
			}
			err := w.sut(true, func() error { return w.tr.UpdateBatch(keys, vals) })
			if f, viol := w.faulted(where, err); f {
				if viol != nil {
					return viol
				}
				continue
			}
			if err != nil {
				return simcore.Violf("op-error", "%s: UpdateBatch(%d entries) failed without an injected fault: %v", where, len(keys), err)
			}
			for j := range keys {
				w.m.set(keys[j], vals[j])
				w.twin.Update(keys[j], vals[j])
			}
			if len(keys) >= 4 {
				w.res.Probe("batch-above-threshold")
			} else {
				w.res.Probe("batch-below-threshold")
			}
			if len(nibs) == 16 {
				w.res.Probe("batch-16-nibble-fanout")
			}
			if dels > 0 && len(keys) >= 4 {
				w.res.Probe("batch-with-deletions")
			}
			if len(w.m) <= 1 && dels > 0 {
				w.res.Probe("batch-collapses-root")
			}
		case "prefetch":
			var keys [][]byte
			for _, e := range op.B {
				keys = append(keys, w.key(e.K))
			}
			err := w.sut(true, func() error { return w.tr.Prefetch(keys) })
			if f, viol := w.faulted(where, err); f {
				if viol != nil {
					return viol
				}
				continue
			}
			if err != nil {
				return simcore.Violf("op-error", "%s: Prefetch failed without an injected fault: %v", where, err)
			}
		case "hash":
			got := w.tr.Hash()
			w.log = w.log.Bytes(got[:])
			if v := w.checkRoot(where, got); v != nil {
				return v
			}
		case "get":
			k := w.key(op.K)
			var got []byte
			err := w.sut(false, func() error { var e error; got, e = w.tr.Get(k); return e })
			if f, viol := w.faulted(where, err); f {
				if viol != nil {
					return viol
				}
				if len(got) != 0 {
					return simcore.Violf("value-with-error", "%s: Get(%x) returned a value together with an error", where, k)
				}
				continue
			}
			if err != nil {
				return simcore.Violf("op-error", "%s: Get(%x) failed without an injected fault: %v", where, k, err)
			}
			if !bytes.Equal(got, w.m[string(k)]) {
				return simcore.Violf("get-mismatch", "%s: Get(%x) = %x, key/value set holds %x", where, k, got, w.m[string(k)])
			}
		case "iter":
			var got []refmpt.KV
			err := w.sut(false, func() error {
				l, e := iterLeaves(w.tr)
				got = l
				return e
			})
			if f, viol := w.faulted(where, err); f {
				if viol != nil {
					return viol
				}
				continue
			}
			if err != nil {
				return simcore.Violf("op-error", "%s: iteration failed without an injected fault: %v", where, err)
			}
			if d := cmpLeaves(got, w.m); d != "" {
				return simcore.Violf("iteration-mismatch", "%s: %s", where, d)
			}
			w.res.Probe("full-iteration")
		case "copy":
			// Cold: read every pool key first (the copy inherits the resolved nodes and
			// the recorded previous values); Flush: the copy is committed before it is dropped.
			if op.Cold {
				err := w.sut(false, func() error {
					for i := range p.Keys {
						if _, e := w.tr.Get(w.key(i)); e != nil {
							return e
						}
					}
					return nil
				})
				if f, viol := w.faulted(where, err); f {
					if viol != nil {
						return viol
					}
					continue
				}
				if err != nil {
					return simcore.Violf("op-error", "%s: Get before Copy failed without an injected fault: %v", where, err)
				}
			}
			cp := w.tr.Copy()
			cm := w.m.clone()
			for j, e := range op.B {
				k, v := w.key(e.K), w.val(e.V)
				var err error
				if len(v) == 0 && j%2 == 0 {
					err = cp.Delete(k)
				} else {
					err = cp.Update(k, v)
				}
				if err != nil {
					return simcore.Violf("op-error", "%s: update of %x on the copy failed: %v", where, k, err)
				}
				cm.set(k, v)
			}
			want := cm.root()
			if h := cp.Hash(); h != want {
				return simcore.Violf("copy-root-mismatch", "%s: root of the modified copy %x, root of its key/value set %x", where, h, want)
			}
			if op.Flush {
				if r, _ := cp.Commit(false); r != want {
					return simcore.Violf("copy-root-mismatch", "%s: Commit of the copy returned %x, expected %x", where, r, want)
				}
			}
			w.res.Probe("copy-dropped")
		case "commit":
			if v := w.commit(where, op); v != nil {
				return v
			}
		default:
			simcore.Harnessf("unknown op %q", op.T)
		}
	}
	// end of run: root, every key of the pool, full iteration
	got := w.tr.Hash()
	w.log = w.log.Bytes(got[:])
	if v := w.checkRoot("end of run", got); v != nil {
		return v
	}
	w.armed.Store(false)
	for i := range p.Keys {
		k := w.key(i)
		got, err := w.tr.Get(k)
		if err != nil {
			return simcore.Violf("op-error", "end of run: Get(%x) failed: %v", k, err)
		}
		if !bytes.Equal(got, w.m[string(k)]) {
			return simcore.Violf("get-mismatch", "end of run: Get(%x) = %x, key/value set holds %x", k, got, w.m[string(k)])
		}
	}
	leaves, err := iterLeaves(w.tr)
	if err != nil {
		return simcore.Violf("op-error", "end of run: iteration failed: %v", err)
	}
	if d := cmpLeaves(leaves, w.m); d != "" {
		return simcore.Violf("iteration-mismatch", "end of run: %s", d)
	}
	w.log = w.m.fp(w.log)
	return nil
}

func (w *world06) commit(where string, op Op06) *simcore.Violation {
	root, nodes := w.tr.Commit(false)
	w.log = w.log.Bytes(root[:])
	// the twin is still usable for the root comparison
	if v := w.checkRoot(where, root); v != nil {
		return v
	}
	path := w.p.Scheme == rawdb.PathScheme
	if nodes != nil && root != w.root {
		if path && w.live[root] {
			// pathdb keeps the existing layer for a root it already has (same root,
			// same contents): nothing to add.
			w.res.Probe("root-revisited")
		} else {
			w.block++
			if err := w.tdb.Update(root, w.root, w.block, trienode.NewWithNodeSet(nodes), triedb.NewStateSet()); err != nil {
				return simcore.Violf("triedb-update", "%s: triedb.Update(%x <- %x) failed: %v", where, root, w.root, err)
			}
			w.live[root] = true
		}
	}
	if op.Flush && (!path || root != w.diskRoot) {
		if err := w.tdb.Commit(root, false); err != nil {
			return simcore.Violf("triedb-commit", "%s: triedb.Commit(%x) failed: %v", where, root, err)
		}
		w.diskRoot = root
		w.live = map[common.Hash]bool{root: true}
		w.res.Probe("flushed-to-disk")
	}
	if op.Cold && (!path || root == w.diskRoot) {
		w.tdb.Close()
		w.tdb = newTrieDB(rawdb.NewDatabase(w.kv), w.p.Scheme)
		w.live = map[common.Hash]bool{root: true}
		w.res.Probe("cold-restart")
	}
	w.root = root
	w.cm = w.m.clone()
	if v := w.open(); v != nil {
		return v
	}
	// the reopened trie must read the committed contents (checked lazily by the
	// following operations and the end-of-run sweep)
	return nil
}
