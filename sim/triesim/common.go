// Package triesim holds the simulated checks for the trie layer: C06 (root and
// contents depend only on the key/value set), C07 (commit node sets), C11 (trie
// generation from flat state) and C12 (trie synchronisation). The system under
// test is the real trie / triedb / rawdb code on a simulated disk (simdisk.SimKV);
// roots and node sets are judged against verifsim/refmpt, which shares no code
// with go-ethereum's trie package.
package triesim

import (
	"bytes"
	"encoding/hex"
	"encoding/json"
	"fmt"
	"runtime"
	"sort"
	"strconv"
	"sync/atomic"

	"github.com/ethereum/go-ethereum/common"
	"github.com/ethereum/go-ethereum/core/rawdb"
	"github.com/ethereum/go-ethereum/ethdb"
	"github.com/ethereum/go-ethereum/trie"
	"github.com/ethereum/go-ethereum/triedb"
	"github.com/ethereum/go-ethereum/triedb/database"
	"github.com/ethereum/go-ethereum/triedb/hashdb"
	"github.com/ethereum/go-ethereum/triedb/pathdb"

	"verifsim/refmpt"
	"verifsim/simcore"
	"verifsim/simsched"
)

// HB is a byte string that travels as hex in plans (readable replay files).
type HB []byte

func (h HB) MarshalJSON() ([]byte, error) { return json.Marshal(hex.EncodeToString(h)) }
func (h *HB) UnmarshalJSON(b []byte) error {
	var s string
	if err := json.Unmarshal(b, &s); err != nil {
		return err
	}
	v, err := hex.DecodeString(s)
	*h = v
	return err
}

func clonePlan[T any](p *T) *T {
	b, err := json.Marshal(p)
	if err != nil {
		simcore.Harnessf("clone plan: %v", err)
	}
	q := new(T)
	if err := json.Unmarshal(b, q); err != nil {
		simcore.Harnessf("clone plan: %v", err)
	}
	return q
}

// ---- model helpers

type model map[string][]byte

func (m model) clone() model {
	c := make(model, len(m))
	for k, v := range m {
		c[k] = v
	}
	return c
}

func (m model) set(k, v []byte) {
	if len(v) == 0 {
		delete(m, string(k))
	} else {
		m[string(k)] = append([]byte{}, v...)
	}
}

// kvs returns the entries in ascending key order.
func (m model) kvs() []refmpt.KV {
	out := make([]refmpt.KV, 0, len(m))
	for k, v := range m {
		out = append(out, refmpt.KV{K: []byte(k), V: v})
	}
	sort.Slice(out, func(i, j int) bool { return bytes.Compare(out[i].K, out[j].K) < 0 })
	return out
}

func (m model) root() common.Hash { return common.BytesToHash(refmpt.Root(m.kvs())) }

// fp is an order-independent-by-construction fingerprint (entries are sorted).
func (m model) fp(h simcore.Hash64) simcore.Hash64 {
	for _, kv := range m.kvs() {
		h = h.Bytes(kv.K).Bytes([]byte{0xff}).Bytes(kv.V)
	}
	return h
}

// prefixFree reports whether no key of the (sorted) list is a prefix of another.
func prefixFree(kvs []refmpt.KV) bool {
	for i := 0; i+1 < len(kvs); i++ {
		if bytes.HasPrefix(kvs[i+1].K, kvs[i].K) {
			return false
		}
	}
	return true
}

// refStore returns the nodes that a node store holds for the trie of m, keyed
// by nibble path (non-embedded nodes only; the root is always stored).
func refStore(m model) (common.Hash, map[string][]byte) {
	root, nodes := refmpt.Nodes(m.kvs())
	st := make(map[string][]byte, len(nodes))
	for _, n := range nodes {
		if !n.Embedded {
			st[string(n.Path)] = n.RLP
		}
	}
	return common.BytesToHash(root), st
}

// feedStack inserts the sorted entries into a StackTrie the way types.DeriveSha
// does: every key and value is encoded into ONE reused buffer that is overwritten
// as soon as Update has returned ("the supplied key value pair is copied and
// managed internally, they are safe to be modified after this method returns").
func feedStack(st *trie.StackTrie, kvs []refmpt.KV) ([]byte, error) {
	vbuf := make([]byte, 0, 1024)
	kbuf := make([]byte, 0, 64)
	for _, kv := range kvs {
		kbuf = append(kbuf[:0], kv.K...)
		vbuf = append(vbuf[:0], kv.V...)
		if err := st.Update(kbuf, vbuf); err != nil {
			return kv.K, err
		}
		for i := range kbuf {
			kbuf[i] = ^kbuf[i]
		}
		for i := range vbuf {
			vbuf[i] = ^vbuf[i]
		}
	}
	return nil, nil
}

func sortedKeys[V any](m map[string]V) []string {
	ks := make([]string, 0, len(m))
	for k := range m {
		ks = append(ks, k)
	}
	sort.Strings(ks)
	return ks
}

// ---- trie database on a simulated disk

func newTrieDB(disk ethdb.Database, scheme string) *triedb.Database {
	if scheme == rawdb.PathScheme {
		return triedb.NewDatabase(disk, &triedb.Config{PathDB: &pathdb.Config{
			TrieCleanSize: 0, StateCleanSize: 0, WriteBufferSize: 1 << 20,
			TrienodeHistory: -1, SnapshotNoBuild: true, NoAsyncFlush: true, NoAsyncGeneration: true,
		}})
	}
	return triedb.NewDatabase(disk, &triedb.Config{HashDB: &hashdb.Config{CleanCacheSize: 0}})
}

// gatedNodeDB is the node-store seam: every NodeReader.Node call of the trie
// under test parks at a scheduler gate labelled with (owner, path) before it is
// served by the real triedb reader (which ends in SimKV.Get for nodes on disk).
// The label is the full path, so two goroutines of one UpdateBatch (distinct first
// nibbles) never share a label.
type gatedNodeDB struct {
	inner database.NodeDatabase
	sched *atomic.Pointer[simsched.Sched]
	reads *atomic.Int64
}

func (g *gatedNodeDB) NodeReader(root common.Hash) (database.NodeReader, error) {
	r, err := g.inner.NodeReader(root)
	if err != nil {
		return nil, err
	}
	return &gatedNodeReader{r, g}, nil
}

type gatedNodeReader struct {
	inner database.NodeReader
	g     *gatedNodeDB
}

func (r *gatedNodeReader) Node(owner common.Hash, path []byte, hash common.Hash) ([]byte, error) {
	if s := r.g.sched.Load(); s != nil {
		s.Gate("node:" + hex.EncodeToString(owner[:4]) + ":" + hex.EncodeToString(path))
	}
	r.g.reads.Add(1)
	return r.inner.Node(owner, path, hash)
}

// ---- reading a trie back (oracle side, ungated)

// readTrie iterates all leaves of the trie and returns them in iteration order.
func readTrie(id *trie.ID, db database.NodeDatabase) ([]refmpt.KV, error) {
	tr, err := trie.New(id, db)
	if err != nil {
		return nil, err
	}
	return iterLeaves(tr)
}

func iterLeaves(tr *trie.Trie) ([]refmpt.KV, error) {
	it, err := tr.NodeIterator(nil)
	if err != nil {
		return nil, err
	}
	var out []refmpt.KV
	for it.Next(true) {
		if it.Leaf() {
			out = append(out, refmpt.KV{K: append([]byte{}, it.LeafKey()...), V: append([]byte{}, it.LeafBlob()...)})
		}
	}
	return out, it.Error()
}

// cmpLeaves compares an iteration result with the model: same entries, strictly
// ascending key order. Returns "" when equal.
func cmpLeaves(got []refmpt.KV, m model) string {
	want := m.kvs()
	for i := 0; i < len(got) && i < len(want); i++ {
		if !bytes.Equal(got[i].K, want[i].K) {
			return fmt.Sprintf("entry %d: iterated key %x, expected key %x (iterated %d entries, model has %d)", i, got[i].K, want[i].K, len(got), len(want))
		}
		if !bytes.Equal(got[i].V, want[i].V) {
			return fmt.Sprintf("key %x: iterated value %x, expected %x", got[i].K, got[i].V, want[i].V)
		}
	}
	if len(got) != len(want) {
		if len(got) > len(want) {
			return fmt.Sprintf("iteration yields %d entries, model has %d; first extra key %x", len(got), len(want), got[len(want)].K)
		}
		return fmt.Sprintf("iteration yields %d entries, model has %d; first missing key %x", len(got), len(want), want[len(got)].K)
	}
	return ""
}

// ---- disk dumps

// dumpPathNodes returns the path-scheme trie node key space of a store:
// "A"+path and "O"+owner+path entries, keyed by the raw database key.
func dumpPathNodes(db ethdb.Iteratee) map[string][]byte {
	out := map[string][]byte{}
	for _, pfx := range [][]byte{rawdb.TrieNodeAccountPrefix, rawdb.TrieNodeStoragePrefix} {
		it := db.NewIterator(pfx, nil)
		for it.Next() {
			if isPathNodeKey(it.Key()) {
				out[string(it.Key())] = append([]byte{}, it.Value()...)
			}
		}
		it.Release()
	}
	return out
}

// isPathNodeKey recognises "A"+nibbles and "O"+owner+nibbles with up to 64
// nibbles. (rawdb.ResolveAccountTrieNodeKey excludes 64-nibble paths because
// keccak-keyed leaves never sit that deep; tries over chosen keys that differ in
// the last nibble only do have such nodes and pathdb stores them.)
func isPathNodeKey(key []byte) bool {
	var path []byte
	switch {
	case len(key) >= 1 && key[0] == rawdb.TrieNodeAccountPrefix[0]:
		path = key[1:]
	case len(key) >= 1+common.HashLength && key[0] == rawdb.TrieNodeStoragePrefix[0]:
		path = key[1+common.HashLength:]
	default:
		return false
	}
	if len(path) > 2*common.HashLength {
		return false
	}
	for _, c := range path {
		if c > 15 {
			return false
		}
	}
	return true
}

func pathKey(owner common.Hash, path []byte) string {
	if owner == (common.Hash{}) {
		return string(rawdb.TrieNodeAccountPrefix) + string(path)
	}
	return string(rawdb.TrieNodeStoragePrefix) + string(owner[:]) + string(path)
}

func describePathKey(k string) string {
	b := []byte(k)
	if len(b) > 0 && b[0] == rawdb.TrieNodeAccountPrefix[0] {
		return fmt.Sprintf("account-trie path %x", b[1:])
	}
	if len(b) >= 1+common.HashLength && b[0] == rawdb.TrieNodeStoragePrefix[0] {
		return fmt.Sprintf("storage-trie owner %x.. path %x", b[1:5], b[1+common.HashLength:])
	}
	return fmt.Sprintf("key %x", b)
}

// diffStores compares two path->blob (or key->blob) maps; "" when equal.
func diffStores(got, want map[string][]byte, describe func(string) string) string {
	for _, k := range sortedKeys(want) {
		g, ok := got[k]
		if !ok {
			return "missing node at " + describe(k)
		}
		if !bytes.Equal(g, want[k]) {
			return fmt.Sprintf("node at %s differs: stored %x, canonical %x", describe(k), g, want[k])
		}
	}
	for _, k := range sortedKeys(got) {
		if _, ok := want[k]; !ok {
			return fmt.Sprintf("stale node at %s (blob %x) is not part of the canonical trie", describe(k), got[k])
		}
	}
	return ""
}

// ---- goroutine identity (C11: map the 16 partition goroutines to stable labels)

func goid() uint64 {
	var buf [64]byte
	n := runtime.Stack(buf[:], false)
	// "goroutine 123 ["
	b := buf[:n]
	b = b[len("goroutine "):]
	i := bytes.IndexByte(b, ' ')
	if i < 0 {
		simcore.Harnessf("cannot parse goroutine id from %q", buf[:n])
	}
	id, err := strconv.ParseUint(string(b[:i]), 10, 64)
	if err != nil {
		simcore.Harnessf("cannot parse goroutine id from %q", buf[:n])
	}
	return id
}

func hashHex(b []byte) string {
	if len(b) > 6 {
		b = b[:6]
	}
	return hex.EncodeToString(b)
}
