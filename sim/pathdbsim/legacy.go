package pathdbsim

import (
	"bytes"
	"fmt"
	"runtime"
	"sort"
	"testing"

	"github.com/ethereum/go-ethereum/common"
	"github.com/ethereum/go-ethereum/core/rawdb"
	"github.com/ethereum/go-ethereum/core/state/snapshot"
	"github.com/ethereum/go-ethereum/core/types"
	"github.com/ethereum/go-ethereum/ethdb"
	"github.com/ethereum/go-ethereum/triedb"

	"verifsim/simcore"
	"verifsim/simdisk"
)

// The second, small world of C22: the legacy snapshot tree
// (core/state/snapshot.Tree) on a SimKV, driven by the same per-root full-state
// model. Single-threaded: the point here are the layer stacks (creations,
// deletions, destructs and re-creations overlapping across layers), the cached
// sorted key lists of the diff layers (iterate, add layers / Cap, iterate again)
// and iterators that are opened, partially drained, and drained further after
// the tree has changed.
//
// Legacy ops (Plan.Legacy):
//
//	upd    new transition on parent P (0 = tip, n = n-th live root)
//	lcap   Tree.Cap(T-th live root, P layers); P == 0 flattens everything to disk
//	read   one fresh iterator (R.Kind 4-7), drained completely
//	lopen  open iterator R into slot T and drain P entries
//	ldrain drain slot T to the end and judge it
//	ljournal Tree.Journal(T-th healthy live root), Release, reload with snapshot.New
//	       on the same store: only the journaled chain survives

func genLegacy(r *simcore.Rand, tier string, p *Plan) {
	p.Legacy = true
	p.K.Indexing, p.K.NoAsyncFlush = false, true
	n := r.Range(10, 60)
	if tier == "thorough" {
		n = r.Range(10, 250)
	}
	ph := Phase{}
	for i := 0; i < n; i++ {
		switch r.Pick(10, 4, 8, 4, 4, 2) {
		case 0:
			op := Op{K: "upd", M: genMuts(r, &p.K)}
			if r.Bool(0.1) {
				op.P = 1 + r.Intn(64)
			}
			ph.Ops = append(ph.Ops, op)
		case 1:
			ph.Ops = append(ph.Ops, Op{K: "lcap", T: r.Intn(64), P: r.Pick(2, 5, 4, 3, 2)})
		case 2:
			rd := genRead(r, &p.K, true)
			ph.Ops = append(ph.Ops, Op{K: "read", R: &rd})
		case 3:
			rd := genRead(r, &p.K, true)
			ph.Ops = append(ph.Ops, Op{K: "lopen", R: &rd, T: r.Intn(4), P: r.Intn(5)})
		case 4:
			ph.Ops = append(ph.Ops, Op{K: "ldrain", T: r.Intn(4)})
		case 5:
			ph.Ops = append(ph.Ops, Op{K: "ljournal", T: r.Pick(3, 1) * r.Intn(64)})
		}
	}
	for s := 0; s < 4; s++ {
		ph.Ops = append(ph.Ops, Op{K: "ldrain", T: s})
	}
	p.Phases = []Phase{ph}
	p.Tape = nil
}

type heldIter struct {
	rd      Read
	st      *state
	acct    int
	want    [][2][]byte
	got     [][2][]byte
	next    func() bool
	cur     func() ([]byte, []byte)
	fin     func() error
	release func()
	epoch   int
	orphan  bool
}

type lworld struct {
	rn     *runner
	tree   *snapshot.Tree
	kv     *simdisk.SimKV
	diskdb ethdb.Database
	tdb    *triedb.Database
	parent map[common.Hash]common.Hash // live diff layers -> parent root
	disk   common.Hash
	// genDisk: the disk layer is still the one the initial generation produced
	genDisk bool
	orphan  map[common.Hash]bool // live layers whose parent pointer leads to pre-flatten objects
	epoch   int                  // tree changes
	slots  [4]*heldIter
}

func (lw *lworld) liveRoots() []common.Hash {
	var out []common.Hash
	for _, s := range lw.rn.m.order {
		if _, ok := lw.parent[s.root]; ok || s.root == lw.disk {
			out = append(out, s.root)
		}
	}
	return out
}

func (lw *lworld) live(root common.Hash) bool {
	_, ok := lw.parent[root]
	return ok || root == lw.disk
}

func (lw *lworld) selLive(sel int) common.Hash {
	var lr []common.Hash
	for _, r := range lw.liveRoots() {
		if !lw.orphan[r] { // mutations never build on / cap through orphan-linked layers
			lr = append(lr, r)
		}
	}
	if sel <= 0 {
		return lr[len(lr)-1]
	}
	return lr[(sel-1)%len(lr)]
}

func (lw *lworld) selAny(sel int) *state {
	if sel&1 == 1 {
		lr := lw.liveRoots()
		return lw.rn.m.states[lr[(sel>>1)%len(lr)]]
	}
	return lw.rn.m.order[(sel>>1)%len(lw.rn.m.order)]
}

// flatDiff is the argument pair of Tree.Update for parent -> child.
func flatDiff(p, c *state) (map[common.Hash][]byte, map[common.Hash]map[common.Hash][]byte) {
	accounts := map[common.Hash][]byte{}
	storage := map[common.Hash]map[common.Hash][]byte{}
	for i := 0; i < maxAccounts; i++ {
		if !bytes.Equal(p.slim[i], c.slim[i]) {
			accounts[uniAddrHash[i]] = c.slim[i]
		}
		for j := 0; j < maxSlots; j++ {
			if bytes.Equal(p.slot[i][j], c.slot[i][j]) {
				continue
			}
			if storage[uniAddrHash[i]] == nil {
				storage[uniAddrHash[i]] = map[common.Hash][]byte{}
			}
			storage[uniAddrHash[i]][uniKeyHash[j]] = c.slot[i][j]
		}
	}
	return accounts, storage
}

// capModel mirrors snapshot.Tree.Cap for small layers (the accumulator layer
// never reaches its memory limit, so it stays an in-memory diff layer unless the
// disk layer is still the one produced by the initial generation).
//
// Let diff be the layer `n-1` below root and P its parent. Cap flattens P and
// every diff layer below it into one layer with P's root; the layers below P go
// stale, and everything hanging off them is removed. Every descendant of P stays
// in the tree: those below `diff` healthy (diff is re-linked), the OTHER children
// of P with their subtrees still pointing at the pre-flatten object of P, whose
// parent is stale ("orphan": the legacy twin of pathdb's stale-parent-link).
func (lw *lworld) capModel(root common.Hash, n int) (expectErr bool) {
	if root == lw.disk {
		return true
	}
	if n == 0 {
		lw.disk, lw.genDisk = root, false
		lw.parent = map[common.Hash]common.Hash{}
		lw.orphan = map[common.Hash]bool{}
		lw.epoch++
		return false
	}
	diff := root
	for i := 0; i < n-1; i++ {
		p := lw.parent[diff]
		if p == lw.disk {
			return false
		}
		diff = p
	}
	P := lw.parent[diff]
	if P == lw.disk {
		return false
	}
	persist := lw.genDisk // the generated disk layer keeps its cancel channel: cap always merges into disk then
	if lw.parent[P] == lw.disk && !persist {
		return false // nothing below to flatten into
	}
	stale := map[common.Hash]bool{}
	for a := lw.parent[P]; a != lw.disk; a = lw.parent[a] {
		stale[a] = true
	}
	keep := map[common.Hash]common.Hash{}
	orphan := map[common.Hash]bool{}
	for x, px := range lw.parent {
		if x == P {
			continue
		}
		viaDiff, underP, bad := false, false, stale[x]
		for c := x; !bad && c != lw.disk; c = lw.parent[c] {
			if c == diff {
				viaDiff = true
			}
			if c == P {
				underP = true
				break
			}
			if stale[c] {
				bad = true
			}
		}
		switch {
		case bad:
		case underP:
			keep[x] = px
			if !viaDiff || lw.orphan[x] {
				orphan[x] = true
			}
		case !persist: // hangs off the (unchanged) disk layer through another branch
			keep[x] = px
			if lw.orphan[x] {
				orphan[x] = true
			}
		}
	}
	if persist {
		lw.disk, lw.genDisk = P, false
	} else {
		keep[P] = lw.disk
	}
	lw.parent, lw.orphan = keep, orphan
	lw.epoch++
	return false
}

func (lw *lworld) checkLayers(when string) *simcore.Violation {
	got := lw.tree.VerifLayerRoots()
	want := lw.liveRoots()
	if len(got) != len(want) {
		return simcore.Violf("legacy-layer-set", "%s: the snapshot tree holds %d layers, the Cap policy gives %d", when, len(got), len(want))
	}
	for _, r := range want {
		disk, ok := got[r]
		if !ok {
			return simcore.Violf("legacy-layer-set", "%s: layer %x (state #%d) is missing from the snapshot tree", when, r[:4], lw.rn.m.states[r].idx)
		}
		if disk != (r == lw.disk) {
			return simcore.Violf("legacy-layer-set", "%s: layer %x disk=%v, expected disk=%v", when, r[:4], disk, r == lw.disk)
		}
	}
	return nil
}

// open creates the iterator described by rd (fresh model expectation included).
func (lw *lworld) open(rd Read) (*heldIter, error) {
	st := lw.selAny(rd.Root)
	k := &lw.rn.p.K
	h := &heldIter{rd: rd, st: st, acct: rd.A % k.Accounts, epoch: lw.epoch, orphan: lw.orphan[st.root]}
	root := st.root
	switch rd.Kind {
	case 4, 6:
		seek := seekHash(rd.Seek, false)
		hs, vs := st.sortedAccounts(seek)
		for i := range hs {
			h.want = append(h.want, [2][]byte{hs[i][:], vs[i]})
		}
		var it snapshot.AccountIterator
		var err error
		if rd.Kind == 4 {
			it, err = lw.tree.AccountIterator(root, seek)
		} else {
			it, err = lw.tree.VerifBinaryAccountIterator(root, seek)
		}
		if err != nil {
			return h, err
		}
		h.next, h.fin, h.release = it.Next, it.Error, it.Release
		h.cur = func() ([]byte, []byte) { x := it.Hash(); return x[:], common.CopyBytes(it.Account()) }
	default:
		seek := seekHash(rd.Seek, true)
		hs, vs := st.sortedSlots(h.acct, seek)
		for i := range hs {
			h.want = append(h.want, [2][]byte{hs[i][:], vs[i]})
		}
		var it snapshot.StorageIterator
		var err error
		if rd.Kind == 5 {
			it, err = lw.tree.StorageIterator(root, uniAddrHash[h.acct], seek)
		} else {
			it, err = lw.tree.VerifBinaryStorageIterator(root, uniAddrHash[h.acct], seek)
		}
		if err != nil {
			return h, err
		}
		h.next, h.fin, h.release = it.Next, it.Error, it.Release
		h.cur = func() ([]byte, []byte) { x := it.Hash(); return x[:], common.CopyBytes(it.Slot()) }
	}
	return h, nil
}

// drain advances the iterator by up to n entries (n < 0: to the end); returns true at the end.
func (h *heldIter) drain(n int) bool {
	for i := 0; n < 0 || i < n; i++ {
		if !h.next() {
			return true
		}
		k, v := h.cur()
		if len(v) == 0 && h.fin() != nil {
			return true // value accessor reported a stale stack
		}
		h.got = append(h.got, [2][]byte{common.CopyBytes(k), v})
		if len(h.got) > 4*maxAccounts {
			return true
		}
	}
	return false
}

// judge compares what the iterator delivered with the model; ended: it reported exhaustion.
func (lw *lworld) judge(h *heldIter, ended bool) *simcore.Violation {
	v := lw.judgeInner(h, ended)
	if v != nil && (h.orphan || lw.orphan[h.st.root]) {
		// the iterated layer hangs off the pre-flatten object of a flattened layer:
		// its stack contains stale layers whose entries are dropped silently
		return lw.rn.keyed(v.Oracle, "legacy-stale-parent-link:iterator", false,
			"%s\n(the iterated root is a fork child of a layer that Tree.Cap flattened: diffLayer.flatten marks only the lower layer stale and returns a new object; other children of the flattened layer stay in Tree.layers with their parent pointer on the old object, whose parent is stale)", v.Msg)
	}
	if v != nil && lw.epoch != h.epoch && h.rd.Kind <= 5 && v.Oracle != "iterator-failed" {
		// a layer of the iterated stack was flattened while the merged iterator was
		// open: diffAccountIterator/diffStorageIterator.Next notice the stale layer
		// and stop with ErrSnapshotStale, but fastIterator.next treats that as
		// "exhausted", drops the sub-iterator without looking at its Error() and
		// goes on with the rest: entries are skipped instead of the iteration failing
		return lw.rn.keyed(v.Oracle, "legacy-fast-iterator-skips-stale-layer", false,
			"%s\n(a layer of the stack went stale while the iterator was open; the merged iterator dropped its sub-iterator silently and kept going: its entries are skipped, and for keys that also exist in a lower layer the lower, older value is delivered instead)", v.Msg)
	}
	return v
}

func (lw *lworld) judgeInner(h *heldIter, ended bool) *simcore.Violation {
	kindName :=[...]string{"", "", "", "", "account-iterator", "storage-iterator", "binary-account-iterator", "binary-storage-iterator"}[h.rd.Kind]
	changed := lw.epoch != h.epoch
	where := fmt.Sprintf("legacy snapshot %s at state #%d root %x (account %d, seek=%d, tree changed since open=%v)", kindName, h.st.idx, h.st.root[:4], h.acct, h.rd.Seek, changed)
	if changed && h.rd.Kind >= 6 {
		// Not judged. The binary iterator is a test-only helper of the tree under
		// test (no production caller) without a staleness protocol of its own: its
		// sub-iterators end silently when a lower layer goes stale, and its values are
		// loaded through the layer OBJECT it captured at open. diffLayer.flatten does
		// not mark the upper (merged-down) layer stale and may alias that layer's
		// per-account storage map into the accumulator ("overwrite blindly"), so a
		// later flatten writes newer slot values into the captured object: a held
		// binary iterator can then deliver a newer state's value without any error
		// (seen: findings/C22-legacy-binary-held-wrong-value-*.json). The property
		// speaks about iterators over a stack of layers, not about a test helper kept
		// open across tree mutations; what it delivered before the change was judged
		// when it was delivered.
		lw.rn.probe("legacy-binary-iterator-held-across-tree-change-not-judged")
		return nil
	}
	for i, g := range h.got {
		if i >= len(h.want) {
			return simcore.Violf("iterator-extra-entry", "%s: entry %d (%x) beyond the %d entries of the state", where, i, g[0][:4], len(h.want))
		}
		if !eq(g[0], h.want[i][0]) {
			return simcore.Violf("iterator-wrong-sequence", "%s: entry %d has hash %x, expected %x (ascending live entries from the seek position)", where, i, g[0][:4], h.want[i][0][:4])
		}
		if !eq(g[1], h.want[i][1]) {
			return simcore.Violf("iterator-wrong-value", "%s: entry %d (%x) has value %x, the state holds %x", where, i, g[0][:4], g[1], h.want[i][1])
		}
	}
	if !ended {
		return nil
	}
	if err := h.fin(); err != nil {
		if !changed {
			return simcore.Violf("iterator-failed", "%s: iteration failed after %d entries although no layer changed during it: %v", where, len(h.got), err)
		}
		lw.rn.probe("iterator-failed-on-stale-base")
		return nil
	}
	if len(h.got) != len(h.want) {
		return simcore.Violf("iterator-incomplete", "%s: iteration ended without error after %d of %d entries", where, len(h.got), len(h.want))
	}
	lw.rn.probe("iterator-complete")
	if len(h.want) > 0 {
		lw.rn.probe("iterator-nonempty")
	}
	if changed {
		lw.rn.probe("legacy-iterator-survived-tree-change")
	}
	return nil
}

func (lw *lworld) doOp(op Op) *simcore.Violation {
	rn := lw.rn
	switch op.K {
	case "upd":
		parent := lw.selLive(op.P)
		pst := rn.m.states[parent]
		c := pst.c.clone()
		rn.applyMuts(c, op.M)
		child := rn.m.addState(c)
		if lw.live(child.root) {
			return nil
		}
		accounts, storage := flatDiff(pst, child)
		var err error
		if v := guard("legacy-update", func() { err = lw.tree.Update(child.root, parent, accounts, storage) }); v != nil {
			return v
		}
		if err != nil {
			return simcore.Violf("update-failed", "snapshot Tree.Update(#%d on live #%d) failed: %v", child.idx, pst.idx, err)
		}
		lw.parent[child.root] = parent
		lw.epoch++
		rn.logf("M", "upd #%d on #%d", child.idx, pst.idx)
		return lw.checkLayers("after Update")
	case "lcap":
		root := lw.selLive(op.T)
		before := len(lw.parent)
		expectErr := lw.capModel(root, op.P)
		var err error
		if v := guard("legacy-cap", func() { err = lw.tree.Cap(root, op.P) }); v != nil {
			return v
		}
		rn.logf("M", "cap #%d layers=%d err=%v", rn.m.states[root].idx, op.P, err != nil)
		if expectErr != (err != nil) {
			return simcore.Violf("cap-outcome", "snapshot Tree.Cap(#%d, %d) returned %v, expected error=%v", rn.m.states[root].idx, op.P, err, expectErr)
		}
		if len(lw.parent) != before {
			if op.P == 0 {
				rn.probe("commit")
			} else {
				rn.probe("flatten")
			}
		}
		return lw.checkLayers("after Cap")
	case "ljournal":
		root := lw.selLive(op.T)
		for i, h := range lw.slots { // iterators of the old tree die with it
			if h != nil {
				h.release()
				lw.slots[i] = nil
			}
		}
		var err error
		if v := guard("legacy-journal", func() { _, err = lw.tree.Journal(root) }); v != nil {
			return v
		}
		if err != nil {
			return simcore.Violf("journal-failed", "snapshot Tree.Journal(#%d) failed: %v", rn.m.states[root].idx, err)
		}
		lw.tree.Release()
		var tree *snapshot.Tree
		if v := guard("legacy-reload", func() {
			tree, err = snapshot.New(snapshot.Config{CacheSize: 1, NoBuild: true}, lw.diskdb, lw.tdb, root)
		}); v != nil {
			return v
		}
		if err != nil {
			return simcore.Violf("legacy-journal-reload-failed", "snapshot.New on the journal just written for #%d failed: %v", rn.m.states[root].idx, err)
		}
		lw.tree = tree
		keep := map[common.Hash]common.Hash{}
		for c := root; c != lw.disk; c = lw.parent[c] {
			keep[c] = lw.parent[c]
		}
		lw.parent, lw.orphan, lw.genDisk = keep, map[common.Hash]bool{}, false
		lw.epoch++
		rn.probe("legacy-journal-reload")
		if len(keep) > 0 {
			rn.probe("legacy-journal-reload-with-diff-layers")
		}
		rn.logf("M", "journal+reload #%d layers=%d", rn.m.states[root].idx, len(keep)+1)
		return lw.checkLayers("after Journal + reload")
	case "read":
		h, err := lw.open(*op.R)
		live := lw.live(h.st.root)
		if err != nil {
			if live {
				return simcore.Violf("live-root-unreadable", "legacy snapshot iterator (kind %d) at live state #%d could not be opened: %v", op.R.Kind, h.st.idx, err)
			}
			rn.probe("dropped-root-refused")
			return nil
		}
		defer h.release()
		if !live {
			return simcore.Violf("dropped-root-readable", "a legacy snapshot iterator was handed out for root %x (state #%d) which is not in the tree", h.st.root[:4], h.st.idx)
		}
		h.drain(-1)
		v := lw.judge(h, true)
		rn.logf("M", "iter #%d kind=%d seek=%d -> %d entries", h.st.idx, op.R.Kind, op.R.Seek, len(h.got))
		return v
	case "lopen":
		s := op.T % len(lw.slots)
		if old := lw.slots[s]; old != nil {
			old.release()
			lw.slots[s] = nil
		}
		h, err := lw.open(*op.R)
		live := lw.live(h.st.root)
		if err != nil {
			if live {
				return simcore.Violf("live-root-unreadable", "legacy snapshot iterator (kind %d) at live state #%d could not be opened: %v", op.R.Kind, h.st.idx, err)
			}
			return nil
		}
		if !live {
			h.release()
			return simcore.Violf("dropped-root-readable", "a legacy snapshot iterator was handed out for root %x (state #%d) which is not in the tree", h.st.root[:4], h.st.idx)
		}
		ended := h.drain(op.P)
		if v := lw.judge(h, ended); v != nil {
			h.release()
			return v
		}
		if ended {
			h.release()
			return nil
		}
		lw.slots[s] = h
		rn.probe("legacy-iterator-held")
		return nil
	case "ldrain":
		s := op.T % len(lw.slots)
		h := lw.slots[s]
		if h == nil {
			return nil
		}
		lw.slots[s] = nil
		defer h.release()
		h.drain(-1)
		v := lw.judge(h, true)
		rn.logf("M", "drain #%d kind=%d -> %d entries", h.st.idx, h.rd.Kind, len(h.got))
		return v
	}
	return nil // other op kinds do not exist in the legacy world
}

// runLegacy executes a legacy-snapshot plan of C22.
func runLegacy(t *testing.T, p *Plan) *simcore.Result {
	prologue()
	runtime.GC()
	res := simcore.NewResult()
	rn := newRunner(p, nil, res)
	kv := simdisk.NewSimKV(nil)
	lw := &lworld{rn: rn, kv: kv, parent: map[common.Hash]common.Hash{}, orphan: map[common.Hash]bool{}, disk: types.EmptyRootHash, genDisk: true}
	disk := rawdb.NewDatabase(kv)
	lw.diskdb = disk
	if v := guard("legacy-open", func() {
		tdb := triedb.NewDatabase(disk, nil)
		lw.tdb = tdb
		tree, err := snapshot.New(snapshot.Config{CacheSize: 1}, disk, tdb, types.EmptyRootHash)
		if err != nil {
			simcore.Harnessf("snapshot.New on an empty store: %v", err)
		}
		lw.tree = tree
	}); v != nil {
		return res.Fail(v)
	}
	defer func() { lw.tree.Release() }()
	var viol *simcore.Violation
	for _, ph := range p.Phases {
		for _, op := range ph.Ops {
			var v *simcore.Violation
			if gv := guard("legacy-op", func() { v = lw.doOp(op) }); gv != nil {
				v = gv
			}
			if v != nil {
				viol = v
				break
			}
		}
		if viol != nil {
			break
		}
		// end of phase: every root ever produced, all four iterator kinds
		for i := range rn.m.order {
			for kind := 4; kind <= 7 && viol == nil; kind++ {
				for a := 0; a < p.K.Accounts && viol == nil; a++ {
					if kind%2 == 0 && a > 0 {
						break
					}
					rd := Read{Root: 2 * i, Kind: kind, A: a}
					viol = lw.doOp(Op{K: "read", R: &rd})
				}
			}
		}
	}
	for _, h := range lw.slots {
		if h != nil {
			h.release()
		}
	}
	res.Events = int(kv.Reads.Load() + kv.Writes.Load())
	sfp := simcore.NewHash()
	for _, s := range rn.m.order {
		sfp = sfp.Bytes(s.root[:])
	}
	lr := lw.liveRoots()
	sort.Slice(lr, func(a, b int) bool { return bytes.Compare(lr[a][:], lr[b][:]) < 0 })
	for _, r := range lr {
		sfp = sfp.Bytes(r[:4])
	}
	res.StateFP = uint64(sfp.String("legacy"))
	res.LogHash = uint64(rn.logs["M"])
	res.NonTrivial = res.Probes["iterator-nonempty"] > 0 && res.Probes["flatten"]+res.Probes["commit"] > 0
	if viol != nil {
		res.Fail(viol)
	}
	return res
}
