package pathdbsim

import (
	"bytes"
	"fmt"
	"os"
	"path/filepath"
	"runtime"
	"sort"
	"strconv"
	"strings"
	"testing"
	"time"

	"github.com/ethereum/go-ethereum/common"
	"github.com/ethereum/go-ethereum/core/rawdb"
	"github.com/ethereum/go-ethereum/core/types"
	"github.com/ethereum/go-ethereum/crypto"
	"github.com/ethereum/go-ethereum/ethdb/memorydb"
	"github.com/ethereum/go-ethereum/rlp"

	"verifsim/simcore"
	"verifsim/simdisk"
	"verifsim/simos"
	"verifsim/simsched"
)

// genC20: commit/flush/rollback/journal histories whose every disk event is
// recorded, to be cut everywhere afterwards.
func genC20(r *simcore.Rand, tier string) any {
	p := &Plan{Check: "C20", K: genKnobs(r), CutSeed: r.Uint64(), Draws: 1, MaxCuts: 40}
	p.K.Indexing = false
	p.K.MaxDiff = r.Range(2, 6)
	p.K.Accounts = r.Range(3, 8)
	p.K.NoAsyncFlush = r.Bool(0.5)
	if r.Bool(0.5) {
		// make "batch grew beyond IdealBatchSize" paths fire with tiny states
		p.K.ValueScale = []int{300, 3000, 30000}[r.Intn(3)]
	}
	if r.Bool(0.4) {
		switch {
		case r.Bool(0.1):
			p.K.TrienodeHistory = int64(r.Range(2, 12))
		case p.K.StateHistory == 0 || r.Bool(0.3):
			p.K.TrienodeHistory = 0
		default:
			p.K.TrienodeHistory = int64(p.K.StateHistory) + int64(r.Intn(3))
		}
	}
	total := r.Range(5, 40)
	if tier == "thorough" {
		total = r.Range(5, 80)
		// every cut of short runs, at most 600 (sampled as in the quick tier) of long
		// ones: a run must stay well inside the worker's watchdog
		p.MaxCuts, p.Draws = 600, 2
	}
	nph := r.Pick(3, 4, 2) + 1
	for i := 0; i < nph; i++ {
		ph := Phase{}
		for n := total/nph + 1; n > 0; n-- {
			switch r.Pick(14, 2, 2) {
			case 0:
				op := Op{K: "upd", M: genMuts(r, &p.K)}
				if r.Bool(0.07) {
					op.P = 1 + r.Intn(64)
				}
				ph.Ops = append(ph.Ops, op)
			case 1:
				ph.Ops = append(ph.Ops, Op{K: "commit", T: r.Intn(64)})
			case 2:
				ph.Ops = append(ph.Ops, Op{K: "recover", T: r.Intn(1 << 10)})
			}
		}
		if i < nph-1 || r.Bool(0.5) {
			ph.End = "journal"
		}
		p.Phases = append(p.Phases, ph)
	}
	if !p.K.NoAsyncFlush {
		p.Tape = r.Tape(1500)
	}
	return p
}

// devKnown: keys treated as recorded findings when PDB_ASSUME_KNOWN is set
// (development aid only; the real list is /verif/known_findings.jsonl).
var devKnown = map[string]bool{
	"power-loss:reboot-open-crit:freezer-torn-metadata":                           true,
	"process-crash:reboot-open-crit:trienode-history-cannot-follow-rollback":      true,
	"power-loss:reboot-open-crit:trienode-history-cannot-follow-rollback":         true,
	"power-loss:recoverable-mismatch:state-id-mapping-missing":                    true,
	"power-loss:reboot-open-crit:history-tail-beyond-persisted-state":             true,
	"power-loss:reboot-open-crit:journal-ahead-of-truncated-history":              true,
	"process-crash:reboot-open-crit:journal-ahead-of-truncated-history":           true,
	"power-loss:reboot-open-crit:freezer-non-prunable-tail":                       true,
	"process-crash:stale-journal-after-rollback":                                  true,
	"power-loss:stale-journal-after-rollback":                                     true,
	"process-crash:crash-freezer-tail-beyond-head":                                true,
	"power-loss:crash-freezer-tail-beyond-head":                                   true,
	"process-crash:stale-journal-over-rewritten-history":                          true,
	"power-loss:stale-journal-over-rewritten-history":                             true,
	"power-loss:reboot-open-crit:freezer-virtual-tail-beyond-recovered-head":      true,
	"process-crash:reboot-open-crit:freezer-virtual-tail-beyond-recovered-head":   true,
}

var procStart = time.Now()

// overBudget reports whether the worker's wall-clock budget (plus a margin) is
// used up: a long crash enumeration then stops after the current cut instead of
// running into the driver's watchdog.
func overBudget() bool {
	b, err := strconv.Atoi(os.Getenv("VERIF_BUDGET_S"))
	if err != nil || b <= 0 || os.Getenv("VERIF_REPLAY") != "" {
		return false
	}
	return time.Since(procStart) > time.Duration(b)*time.Second+30*time.Second
}

// runCrash executes a C20 plan. The tree under test iterates maps (freezer
// tables, batch contents) in Go's random order, so event sequence numbers may
// shift between executions: a replay treats the recorded cut as a hint and falls
// back to enumerating every cut of a few re-executions.
func runCrash(t *testing.T, pl any) *simcore.Result {
	p := pl.(*Plan)
	res := runCrashOnce(t, p)
	if p.OnlyCut == 0 || res.Violation != nil {
		return res
	}
	for attempt := 0; attempt < 3; attempt++ {
		q := *p
		q.OnlyCut, q.OnlyDraw, q.MaxCuts = 0, 0, 0
		r2 := runCrashOnce(t, &q)
		res.Reboots += r2.Reboots
		if r2.Violation != nil {
			return r2
		}
	}
	return res
}

func runCrashOnce(t *testing.T, p *Plan) *simcore.Result {
	prologue()
	runtime.GC()
	res := simcore.NewResult()
	var (
		rn    *runner
		w     *world
		sched *simsched.Sched
		stuck string
	)
	defer func() {
		if w != nil {
			w.destroy()
		}
	}()
	body := func() {
		w = newWorld(p.K, true)
		if v := guard("open", func() { w.open() }); v != nil {
			res.Fail(v)
			return
		}
		rn = newRunner(p, w, res)
		useSched := p.needsSched()
		if useSched {
			sched = simsched.New(p.Tape, simsched.ModePoll)
			sched.MaxSteps = 60000
		}
		for pi := range p.Phases {
			ph := &p.Phases[pi]
			if useSched {
				w.setSched(sched, true, true, true)
				rn.scheduled = true
				sched.Go("M", func() {
					for _, op := range ph.Ops {
						sched.Gate("M:op")
						if rn.failed() {
							return
						}
						if v := rn.doOp(op); v != nil {
							rn.fail(v)
							return
						}
					}
				})
				sched.Run()
				rn.scheduled = false
				if sched.Err != nil {
					stuck = sched.Err.Error()
					return
				}
			} else {
				for _, op := range ph.Ops {
					if rn.failed() {
						break
					}
					if v := rn.doOp(op); v != nil {
						rn.fail(v)
						break
					}
				}
			}
			if rn.failed() {
				break
			}
			if v := rn.quiescentChecks(); v != nil {
				rn.fail(v)
				break
			}
			if rn.failed() {
				break
			}
			if v := rn.endPhase(ph.End); v != nil {
				rn.fail(v)
				break
			}
		}
		var err error
		if v := guard("close", func() { err = w.closeDB() }); v != nil {
			rn.fail(v)
		} else if err != nil && !rn.failed() {
			rn.fail(simcore.Violf("close-failed", "Close failed: %v", err))
		}
	}
	if p.needsSched() {
		if dl := simsched.Bubble(t, body); dl != "" {
			if rn != nil && rn.viol != nil {
				return res.Fail(rn.viol)
			}
			return res.Fail(simcore.Violf("deadlock", "the simulated world deadlocked: %s", dl))
		}
	} else {
		body()
	}
	if stuck != "" {
		simcore.Harnessf("pathdbsim scheduler: %s", stuck)
	}
	if rn == nil {
		return res
	}
	if sched != nil {
		res.SchedFP = sched.FP()
	}
	if rn.viol != nil {
		return res.Fail(rn.viol)
	}
	simos.Install(nil)

	// ---- the recorded disk history
	kvLog := w.kv.Snapshot()
	events := append([]simos.Event{}, w.rec.Events...)
	full := simdisk.Replay(w.root, events, len(events))
	if err := full.VerifyAgainstDisk(func(p string) bool { return filepath.Base(p) == "FLOCK" }); err != nil {
		simcore.Harnessf("simos model diverged from the real files (unmapped file-system call?): %v", err)
	}
	maxSeq := w.clock.Now()
	res.Events = len(kvLog) + len(events)

	// ---- cuts
	var cuts []uint64
	hint := p.OnlyCut > 0 && p.OnlyCut-1 <= maxSeq
	cr := simcore.NewRand(p.CutSeed)
	switch {
	case hint && os.Getenv("VERIF_REPLAY_FULL") == "":
		cuts = []uint64{p.OnlyCut - 1}
	case p.MaxCuts > 0 && int(maxSeq)+1 > p.MaxCuts:
		pick := map[uint64]bool{}
		// half of the sample sits right before / right after a key-value unit
		for i := 0; i < p.MaxCuts/2 && len(kvLog) > 0; i++ {
			u := kvLog[cr.Intn(len(kvLog))].Seq
			if cr.Bool(0.5) && u > 0 {
				u--
			}
			pick[u] = true
		}
		for len(pick) < p.MaxCuts {
			pick[uint64(cr.Intn(int(maxSeq)+1))] = true
		}
		for c := range pick {
			cuts = append(cuts, c)
		}
		sort.Slice(cuts, func(a, b int) bool { return cuts[a] < cuts[b] })
	default:
		for c := uint64(0); c <= maxSeq; c++ {
			cuts = append(cuts, c)
		}
	}

	fsm := simdisk.NewFSModel(w.root)
	applied := 0
	stats := map[string]int{}
	for ci, c := range cuts {
		if ci%50 == 49 {
			// the collector is off during scheduled worlds (see prologue); crash
			// reboots that fail half-way through pathdb.New leave freezer files open
			// whose descriptors are only closed by their finalizers
			runtime.GC()
		}
		if overBudget() {
			res.Faults["cuts-skipped-over-budget"] += len(cuts) - ci
			cuts = cuts[:ci]
			break
		}
		for applied < len(events) && events[applied].Seq <= c {
			fsm.Apply(&events[applied])
			applied++
		}
		for d := 0; d <= p.Draws; d++ {
			if hint && len(cuts) == 1 && d != p.OnlyDraw {
				continue
			}
			dr := simcore.NewRand(simcore.RunSeed(p.CutSeed, c*16+uint64(d)))
			mode := simdisk.ProcessCrash
			lose := 0
			if d > 0 {
				mode = simdisk.PowerLoss
				if un := simdisk.UnsyncedUnits(kvLog, c); un > 0 && dr.Bool(0.7) {
					lose = 1 + dr.Intn(min(un, 4))
				}
			}
			mem, lost := simdisk.MaterialiseKV(kvLog, c, lose)
			if lost > 0 {
				stats["kv-units-lost"] += lost
			}
			img := fsm.CrashImage(mode, dr, stats)
			res.Reboots++
			v := rn.reboot(fsm, img, mem, c, d)
			if v == nil {
				continue
			}
			modeName := "process-crash"
			if d > 0 {
				modeName = "power-loss"
			}
			v.Key = modeName + ":" + v.Key
			v.Msg = fmt.Sprintf("cut after event seq %d of %d, %s (draw %d, %d key-value units lost); last events before the cut: %s\n%s", c, maxSeq, modeName, d, lost, describeCut(kvLog, events, c, w.root), v.Msg)
			if simcore.IsKnown(v.Key) || (os.Getenv("PDB_ASSUME_KNOWN") != "" && devKnown[v.Key]) {
				res.KnownHit(v.Key)
				continue
			}
			if p.OnlyCut == 0 {
				p.OnlyCut, p.OnlyDraw = c+1, d
			}
			for k, n := range stats {
				res.Faults[k] += n
			}
			return res.Fail(v)
		}
	}
	for k, n := range stats {
		res.Faults[k] += n
	}
	res.Faults["crash-cut"] += len(cuts)
	res.NonTrivial = res.Reboots > 2 && res.Probes["flatten"]+res.Probes["commit"] > 0
	sfp := simcore.NewHash()
	for _, s := range rn.m.order {
		sfp = sfp.Bytes(s.root[:])
	}
	res.StateFP = uint64(sfp.U64(uint64(len(rn.m.canon))))
	res.LogHash = diskLogHash(kvLog, events, w.root)
	return res
}

// diskLogHash fingerprints the recorded disk history independently of the order
// in which the tree under test walks its maps: key-value units in order with
// sorted content, file events as per-file sequences.
func diskLogHash(kvLog []simdisk.KVOp, events []simos.Event, root string) uint64 {
	h := simcore.NewHash()
	for _, op := range kvLog {
		if string(op.Key) == "TrieJournal" {
			// the journal serialises maps in iteration order: only its size is stable
			h = h.U64(uint64(op.Kind)).Bytes(op.Key).U64(uint64(len(op.Val)))
			continue
		}
		h = h.U64(uint64(op.Kind)).Bytes(op.Key).Bytes(op.Val)
		if op.Kind == simdisk.OpBatch {
			var items []string
			for _, b := range op.Batch {
				items = append(items, string(b.Key)+"\x00"+string(b.Val))
			}
			sort.Strings(items)
			for _, it := range items {
				h = h.String(it)
			}
		}
	}
	per := map[string]simcore.Hash64{}
	for _, e := range events {
		p := e.Path[len(root):]
		x, ok := per[p]
		if !ok {
			x = simcore.NewHash()
		}
		if strings.HasPrefix(p, "/journal/") {
			// journal file: written in map iteration order, only sizes are stable
			per[p] = x + simcore.Hash64(uint64(e.Kind)*1000003+uint64(len(e.Data)))
			continue
		}
		per[p] = x.U64(uint64(e.Kind)).U64(uint64(e.Off)).Bytes(e.Data)
	}
	paths := make([]string, 0, len(per))
	for p := range per {
		paths = append(paths, p)
	}
	sort.Strings(paths)
	for _, p := range paths {
		h = h.String(p).U64(uint64(per[p]))
	}
	return uint64(h)
}

func describeCut(kvLog []simdisk.KVOp, events []simos.Event, c uint64, root string) string {
	type ev struct {
		seq uint64
		s   string
	}
	var all []ev
	for _, op := range kvLog {
		if op.Seq > c || op.Seq+6 < c {
			continue
		}
		s := ""
		switch op.Kind {
		case simdisk.OpPut:
			s = fmt.Sprintf("kv put %s (%d bytes)", keyName(op.Key), len(op.Val))
		case simdisk.OpDelete:
			s = "kv delete " + keyName(op.Key)
		case simdisk.OpBatch:
			s = fmt.Sprintf("kv batch of %d ops", len(op.Batch))
			for _, b := range op.Batch {
				if string(b.Key) == "LastStateID" {
					s += fmt.Sprintf(" (persistent state id := %x)", b.Val)
				}
			}
		case simdisk.OpSync:
			s = "kv sync"
		case simdisk.OpDeleteRange:
			s = "kv delete range " + keyName(op.Key)
		}
		all = append(all, ev{op.Seq, s})
	}
	for _, e := range events {
		if e.Seq > c || e.Seq+6 < c {
			continue
		}
		all = append(all, ev{e.Seq, fmt.Sprintf("file %s %s off=%d len=%d %s", e.Kind, e.Path[len(root):], e.Off, len(e.Data), trimRoot(e.To, root))})
	}
	sort.Slice(all, func(a, b int) bool { return all[a].seq < all[b].seq })
	s := ""
	for _, e := range all {
		s += fmt.Sprintf("\n   #%d %s", e.seq, e.s)
	}
	return s
}

func trimRoot(p, root string) string {
	if len(p) >= len(root) && p[:len(root)] == root {
		return p[len(root):]
	}
	return p
}

func keyName(k []byte) string {
	printable := true
	for _, c := range k {
		if c < 32 || c > 126 {
			printable = false
		}
	}
	if printable {
		return string(k)
	}
	if len(k) > 6 {
		return fmt.Sprintf("%c:%x..", k[0], k[1:6])
	}
	return fmt.Sprintf("%x", k)
}

// journalInImage decodes (version, disk root) of the journal present in a crash image.
func (rn *runner) journalInImage(mem *memorydb.Database, newRoot string) (present bool, diskRoot common.Hash) {
	var blob []byte
	if rn.p.K.JournalFile {
		b, err := os.ReadFile(filepath.Join(newRoot, "journal", "merkle.journal"))
		if err == nil {
			blob = b
		}
	}
	if blob == nil {
		blob = rawdb.ReadTrieJournal(mem)
	}
	if len(blob) == 0 {
		return false, common.Hash{}
	}
	s := rlp.NewStream(bytes.NewReader(blob), 0)
	if _, err := s.Uint64(); err != nil {
		return false, common.Hash{}
	}
	if err := s.Decode(&diskRoot); err != nil {
		return false, common.Hash{}
	}
	return true, diskRoot
}

// reboot materialises one crash state, reopens the database on it with the real
// pathdb.New and judges the six clauses of the crash property.
func (rn *runner) reboot(fsm *simdisk.FSModel, img map[string][]byte, mem *memorydb.Database, cut uint64, draw int) *simcore.Violation {
	kvRoot0 := types.EmptyRootHash
	if blob := rawdb.ReadAccountTrieNode(mem, nil); len(blob) > 0 {
		kvRoot0 = crypto.Keccak256Hash(blob)
	}
	v := rn.rebootInner(fsm, img, mem, cut, draw)
	if v == nil {
		return nil
	}
	// Classified by the IMAGE, not by the error text: if a power-loss image holds,
	// for any freezer table .meta file, a content that is none of the contents the
	// file can have when each unsynced mutation is applied completely or not at
	// all, the metadata file is torn (the freezer's recorded C24 finding). A torn
	// extending rewrite may still decode, to garbage (flush offset / virtual tail),
	// and then surfaces as a missing data file, a negative truncate, hidden items...
	if draw > 0 {
		var paths []string
		for p := range img {
			if strings.HasSuffix(p, ".meta") && strings.Contains(p, "/ancient/") {
				paths = append(paths, p)
			}
		}
		sort.Strings(paths)
		for _, p := range paths {
			whole := false
			for _, w := range fsm.WholeWriteStates(p) {
				if bytes.Equal(w, img[p]) {
					whole = true
					break
				}
			}
			if !whole {
				v.Msg += fmt.Sprintf("\n(torn freezer metadata in the image: %s holds %x, which is none of its whole-write states; symptom above, cause = the freezer's torn .meta rewrite)", trimRoot(p, fsm.Root), img[p])
				v.Key = "reboot-open-crit:freezer-torn-metadata"
				return v
			}
		}
	}
	// Stale journal: the last clean Journal() before the cut is still on disk, and
	// since then a Recover rolled the disk layer back below the journaled disk
	// layer id without changing the persisted root (rollback inside the write
	// buffer). pathdb.New accepts that journal again (it only compares the disk
	// root) although the histories it sits on have been truncated / rewritten.
	// Whatever goes wrong then is one finding.
	// Candidates: the last journal completed before the cut; after a power loss
	// also any earlier one (the unsynced put of a later journal may be lost).
	var cands []*journalRec
	for i := range rn.journals {
		if rn.journals[i].endSeq <= cut {
			if draw == 0 {
				cands = cands[:0]
			}
			cands = append(cands, &rn.journals[i])
		}
	}
	for _, jr := range cands {
		if jr.kvRoot != kvRoot0 {
			continue
		}
		for _, r := range rn.recovers {
			if r.seq >= jr.endSeq && r.seq < cut && r.k < jr.diskID {
				v.Msg += fmt.Sprintf("\n(stale journal: the journal of the clean shutdown at seq %d (disk layer id %d) is still on disk; Recover to id %d started at seq %d rolled back below it)", jr.endSeq, jr.diskID, r.k, r.seq)
				v.Key = "stale-journal-after-rollback"
				return v
			}
		}
	}
	return v
}

func (rn *runner) rebootInner(fsm *simdisk.FSModel, img map[string][]byte, mem *memorydb.Database, cut uint64, draw int) (v *simcore.Violation) {
	newRoot, err := os.MkdirTemp(scratchDir(), "pdbc-")
	if err != nil {
		simcore.Harnessf("mkdtemp: %v", err)
	}
	defer os.RemoveAll(newRoot)
	if err := fsm.WriteImage(img, newRoot); err != nil {
		simcore.Harnessf("write image: %v", err)
	}
	base := rn

	// ---- clause 2 (before the database touches the image): the persisted state
	// is a state the model produced with that id, and the raw key spaces hold
	// exactly that state (complete trie, flat state equal).
	pid := uint64(0)
	if b, err := mem.Get([]byte("LastStateID")); err == nil && len(b) == 8 {
		pid = uint64(b[0])<<56 | uint64(b[1])<<48 | uint64(b[2])<<40 | uint64(b[3])<<32 | uint64(b[4])<<24 | uint64(b[5])<<16 | uint64(b[6])<<8 | uint64(b[7])
	}
	kvRoot := types.EmptyRootHash
	if blob := rawdb.ReadAccountTrieNode(mem, nil); len(blob) > 0 {
		kvRoot = crypto.Keccak256Hash(blob)
	}
	if !base.pairs[pid][kvRoot] {
		return simcore.Violf("crash-unknown-disk-state", "the key-value store holds trie root %x with persistent state id %d; no state with that root was ever flattened at that id", kvRoot[:4], pid)
	}
	st := base.m.states[kvRoot]
	if d := rawDiskDiff(mem, func(p []byte) ([][]byte, [][]byte) { return simdisk.DumpMem(mem, p) }, st); d != "" {
		return simcore.Violf("crash-disk-image", "the key-value store at persistent state id %d (state #%d root %x) is not that state: %s", pid, st.idx, kvRoot[:4], d)
	}
	jPresent, jRoot := base.journalInImage(mem, newRoot)

	// ---- clause 1: it opens
	k2 := base.p.K
	k2.NoAsyncFlush = true
	p2 := *base.p
	p2.K = k2
	w2 := worldOn(k2, newRoot, simdisk.FromMem(mem, &simdisk.Clock{}))
	defer func() {
		if w2.db != nil {
			if cv := guard("reboot-close", func() { w2.db.Close() }); cv != nil && v == nil {
				v = cv
			}
			w2.db = nil
		}
	}()
	if ov := guard("reboot-open", func() { w2.open() }); ov != nil {
		ov.Msg = "the database does not reopen on the crash state: " + ov.Msg
		switch {
		case strings.Contains(ov.Msg, "failed to decode metadata"):
			// the freezer's own crash defect (recorded under C24: a torn table
			// metadata file after power loss) seen through pathdb.New
			ov.Key = "reboot-open-crit:freezer-torn-metadata"
		case strings.Contains(ov.Msg, "typ=trienode err=history head truncation out of range"):
			// restart side of "recover-below-trienode-tail": a Recover below the
			// trienode history tail was in progress or had failed
			ov.Key = "reboot-open-crit:trienode-history-cannot-follow-rollback"
		case strings.Contains(ov.Msg, "typ=state err=history head truncation out of range"):
			// the key-value store fell back (lost unsynced units) to a persistent state
			// id below the state history tail: tail truncation trusted an id that was
			// not durable yet
			ov.Key = "reboot-open-crit:history-tail-beyond-persisted-state"
		case strings.Contains(ov.Msg, "gap between state"):
			// a journal from an earlier clean shutdown still matches the persisted
			// disk root, but a rollback inside the write buffer has meanwhile truncated
			// the histories below the journaled disk layer id
			ov.Key = "reboot-open-crit:journal-ahead-of-truncated-history"
		case strings.Contains(ov.Msg, "non-prunable freezer table"):
			ov.Key = "reboot-open-crit:freezer-non-prunable-tail" // C24 finding seen through pathdb
		}
		return ov
	}
	res := base.res
	rr := newRunner(&p2, w2, res)
	rr.trace = false
	// the model as far as the crash state is concerned: every state ever produced,
	// the canonical chain below the loaded disk layer, the loaded layers
	rr.m.states = make(map[common.Hash]*state, len(base.m.states))
	for r, s := range base.m.states {
		rr.m.states[r] = s
	}
	rr.m.order = append([]*state{}, base.m.order...)
	rr.salt = base.salt + 1000
	for r := range base.everCanon {
		rr.everCanon[r] = true
	}

	info := w2.db.VerifDisk()
	layers := w2.db.VerifLayers()
	// ---- clause 4: layers above the persisted state come from a journal written for it
	if !base.pairs[info.ID][info.Root] {
		return simcore.Violf("crash-unknown-disk-layer", "after reopen the disk layer is root %x id %d; no state with that root was ever flattened at that id", info.Root[:4], info.ID)
	}
	canon := make([]canonEntry, info.ID+1)
	r := info.Root
	for i := info.ID; ; i-- {
		canon[i] = canonEntry{r}
		if i == 0 {
			break
		}
		pr, ok := base.parentOf[r]
		if !ok {
			return simcore.Violf("crash-unknown-disk-layer", "disk layer root %x id %d: no chain of accepted transitions leads to it (stuck at id %d)", info.Root[:4], info.ID, i)
		}
		r = pr
	}
	if canon[0].root != types.EmptyRootHash || info.ID < pid || canon[pid].root != kvRoot {
		return simcore.Violf("crash-disk-layer-not-on-persisted-state", "disk layer root %x id %d does not descend from the persisted state root %x id %d", info.Root[:4], info.ID, kvRoot[:4], pid)
	}
	lm := map[common.Hash]*lay{}
	for _, l := range layers {
		if l.Disk {
			lm[l.Root] = &lay{root: l.Root, parent: l.Root, id: l.ID, disk: true}
			continue
		}
		if base.m.states[l.Root] == nil || base.parentOf[l.Root] != l.Parent {
			return simcore.Violf("crash-unknown-layer", "after reopen a layer root %x on parent %x exists; the model never made that transition", l.Root[:4], l.Parent[:4])
		}
		lm[l.Root] = &lay{root: l.Root, parent: l.Parent, id: l.ID}
	}
	loaded := len(layers) > 1 || info.ID > pid
	if loaded {
		res.Probe("journal-loaded-after-crash")
		if !jPresent || jRoot != kvRoot {
			return simcore.Violf("crash-journal-mismatch", "layers above the persisted state were restored (%d layers, disk layer id %d > persisted id %d) but the crash state holds no journal written for disk root %x (journal present=%v for root %x)", len(layers), info.ID, pid, kvRoot[:4], jPresent, jRoot[:4])
		}
		ok := false
		for _, jr := range base.journals {
			if jr.startSeq > cut || jr.kvRoot != kvRoot || jr.diskID != info.ID || len(jr.chain) != len(layers) || jr.chain[0] != info.Root {
				continue
			}
			all := true
			for _, c := range jr.chain {
				if lm[c] == nil {
					all = false
				}
			}
			if all {
				ok = true
			}
		}
		if !ok {
			return simcore.Violf("crash-journal-half-loaded", "the %d restored layers (disk layer %x id %d) are not the content of any journal the run wrote for disk root %x before the cut", len(layers), info.Root[:4], info.ID, kvRoot[:4])
		}
	} else {
		res.Probe("journal-absent-or-discarded-after-crash")
		if draw == 0 && len(base.journals) > 0 {
			// process crash after the last clean Journal() completed with nothing
			// written since: the journal must be used
			last := base.journals[len(base.journals)-1]
			for _, jr := range base.journals {
				if jr.endSeq <= cut {
					last = jr
				}
			}
			if last.endSeq <= cut && last.endSeq == maxSeqBefore(base, cut) && last.kvRoot == kvRoot && (len(last.chain) > 1 || last.diskID > pid) {
				return simcore.Violf("crash-journal-lost", "a clean Journal() of %d layers for disk root %x completed right before the cut, nothing was written afterwards, yet no layer was restored", len(last.chain), kvRoot[:4])
			}
		}
	}
	rr.m.layers, rr.m.base, rr.m.canon = lm, info.Root, canon
	rr.lives = map[common.Hash][]*life{}
	for r := range lm {
		rr.lives[r] = []*life{{born: true}}
	}
	// ---- clause 3: histories aligned with the state
	stail, shead, _, ttail, thead, tok := w2.db.VerifHistory()
	if shead != info.ID {
		return simcore.Violf("crash-history-misaligned", "state history head %d after reopen, disk layer id %d (persisted id %d)", shead, info.ID, pid)
	}
	if tok && thead != info.ID {
		return simcore.Violf("crash-history-misaligned", "trienode history head %d (tail %d) after reopen, disk layer id %d", thead, ttail, info.ID)
	}
	if stail > shead {
		// the freezer itself came back inconsistent (storesim/C24 territory): e.g. a
		// table emptied by an interrupted TruncateHead(0) is taken for a newly added
		// table and "aligned" by hiding every item of the group
		return &simcore.Violation{Oracle: "crash-freezer-inconsistent", Key: "crash-freezer-tail-beyond-head",
			Msg: fmt.Sprintf("state history freezer reopened with tail %d beyond head %d (persisted id %d)", stail, shead, pid)}
	}
	if stail > pid && draw > 0 {
		// same root cause as the log.Crit variant (tail truncation trusted a
		// persistent state id that was not durable), seen when a journal lifts the
		// disk layer above the tail so that the open itself succeeds
		return &simcore.Violation{Oracle: "crash-history-tail-beyond-state", Key: "reboot-open-crit:history-tail-beyond-persisted-state",
			Msg: fmt.Sprintf("state history tail %d is beyond the persisted state id %d (the flush that made a higher id persistent was lost with the unsynced key-value units): the histories that lead back to the persisted state are gone", stail, pid)}
	}
	if stail > pid {
		return simcore.Violf("crash-history-tail-beyond-state", "state history tail %d is beyond the persisted state id %d: the history that leads to the persisted state is gone", stail, pid)
	}
	if lim := base.p.K.StateHistory; lim > 0 && base.maxIDEver > lim && stail > base.maxIDEver-lim {
		return simcore.Violf("crash-history-overpruned", "state history tail %d, but at most %d-%d items may ever have been pruned", stail, base.maxIDEver, lim)
	}
	// ---- clauses 2/4 continued: every restored layer reads as the model's state,
	// every other root is refused
	if v := rr.checkTree("after reopen"); v != nil {
		return v
	}
	if v := rr.sweepAll("M"); v != nil {
		v.Msg = "after reopen on the crash state: " + v.Msg
		return v
	}
	// ---- clause 6: rollback still works, new states are accepted
	v, rec := rr.checkRecoverable()
	if v != nil {
		v.Msg = "after reopen on the crash state: " + v.Msg
		return v
	}
	if len(rec) > 0 {
		cr := simcore.NewRand(simcore.RunSeed(base.p.CutSeed, cut*32+uint64(draw)+7))
		first := rec[cr.Intn(len(rec))]
		for _, tgt := range []*state{first, rec[len(rec)-1]} {
			if rr.failed() {
				break
			}
			if id, ok := rr.m.canonicalID(tgt.root); !ok || id >= rr.m.diskID() {
				continue
			}
			if v := rr.recoverOne(tgt); v != nil {
				v.Msg = "after reopen on the crash state: " + v.Msg
				if loaded && v.Oracle == "recover-failed" && strings.Contains(v.Msg, "unexpected state history") {
					// same root cause as journal-ahead-of-truncated-history: the stale
					// journal's layers sit on histories that a later fork has rewritten
					v.Key = "stale-journal-over-rewritten-history"
				}
				return v
			}
		}
		res.Probe("rollback-after-crash")
	}
	if !rr.failed() {
		for i := 0; i < 2; i++ {
			if v := rr.doOp(Op{K: "upd", M: []Mut{{K: 1, A: 1 + i, S: i}, {K: 3, A: 2}}}); v != nil {
				v.Msg = "new transition after reopen on the crash state: " + v.Msg
				return v
			}
		}
		if v := rr.doOp(Op{K: "commit", T: 0}); v != nil {
			v.Msg = "commit after reopen on the crash state: " + v.Msg
			return v
		}
	}
	if rr.viol != nil {
		return rr.viol
	}
	if pid > 0 {
		res.Probe("rebooted-nonempty")
	} else {
		res.Probe("rebooted-empty")
	}
	return nil
}

// maxSeqBefore returns the highest recorded sequence number <= cut.
func maxSeqBefore(rn *runner, cut uint64) uint64 {
	var m uint64
	for _, op := range rn.w.kv.Log {
		if op.Seq <= cut && op.Seq > m {
			m = op.Seq
		}
	}
	for _, e := range rn.w.rec.Events {
		if e.Seq <= cut && e.Seq > m {
			m = e.Seq
		}
	}
	return m
}
