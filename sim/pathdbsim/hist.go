package pathdbsim

import (
	"fmt"
	"time"

	"github.com/ethereum/go-ethereum/common"
	"github.com/ethereum/go-ethereum/crypto"

	"verifsim/simcore"
)

// genC18: canonical histories with history limits (tail pruning), rollbacks
// followed by different forks, restarts with a partially built index, and
// historical reads by the main actor and by reader actors while the background
// indexer runs.
func genC18(r *simcore.Rand, tier string) any {
	p := &Plan{Check: "C18", K: genKnobs(r)}
	p.K.Indexing = true
	p.TinyTrie = r.Bool(0.1)
	p.K.MaxDiff = r.Range(2, 6)
	p.K.Accounts = r.Range(3, 8)
	p.K.NoAsyncFlush = r.Bool(0.5)
	p.K.TrienodeHistory = -1
	if r.Bool(0.3) {
		if p.K.StateHistory == 0 || r.Bool(0.4) {
			p.K.TrienodeHistory = 0
		} else {
			p.K.TrienodeHistory = int64(p.K.StateHistory) + int64(r.Intn(3))
		}
	}
	total := r.Range(6, 40)
	if tier == "thorough" {
		total = r.Range(6, 150)
	}
	nph := r.Pick(5, 3, 1) + 1
	withReaders := r.Bool(0.6)
	for i := 0; i < nph; i++ {
		ph := Phase{}
		for n := total/nph + 1; n > 0; n-- {
			switch r.Pick(14, 1, 1, 5) {
			case 0:
				op := Op{K: "upd", M: genMuts(r, &p.K)}
				if r.Bool(0.05) {
					op.P = 1 + r.Intn(64)
				}
				ph.Ops = append(ph.Ops, op)
			case 1:
				ph.Ops = append(ph.Ops, Op{K: "commit", T: r.Intn(64)})
			case 2:
				ph.Ops = append(ph.Ops, Op{K: "recover", T: r.Intn(1 << 10)})
			case 3:
				rd := genHRead(r, &p.K)
				ph.Ops = append(ph.Ops, Op{K: "hread", R: &rd})
			}
		}
		if withReaders {
			for j := r.Range(1, 2); j > 0; j-- {
				var script []Read
				for q := r.Range(3, 15); q > 0; q-- {
					script = append(script, genHRead(r, &p.K))
				}
				ph.Readers = append(ph.Readers, script)
			}
		}
		if i < nph-1 || r.Bool(0.3) {
			ph.End = "journal"
		}
		p.Phases = append(p.Phases, ph)
	}
	p.Tape = r.Tape(3000)
	return p
}

// historic read kinds: 8 account, 9 slot, 10 everything at the root
func genHRead(r *simcore.Rand, k *Knobs) Read {
	return Read{Root: r.Intn(1 << 12), Kind: 8 + r.Pick(4, 4, 1), A: r.Intn(k.Accounts), S: r.Intn(k.Slots)}
}

// historicReadable: the model's view of which roots the historical reader must
// serve: canonical, strictly below the disk layer, history still retained.
func (rn *runner) historicReadable(root common.Hash, tail uint64) (uint64, bool) {
	return rn.modelRecoverable(root, tail)
}

// hread performs one historical read and judges it. quiescent: no mutation is in
// flight and the indexer has been given time to finish: refusals of readable
// roots are then violations (bounded liveness).
func (rn *runner) hread(actor string, rd Read, quiescent bool) *simcore.Violation {
	rn.mu.Lock()
	st := rn.selAny(rd.Root)
	rn.tick++
	doneAtInv, recAtInv := rn.opDone, rn.recStarted
	db := rn.w.db
	rn.mu.Unlock()
	k := &rn.p.K
	a, s := rd.A%k.Accounts, rd.S%k.Slots

	type obs struct {
		what      string
		got, want []byte
		err       error
	}
	var (
		openErr          error
		out              []obs
		tail             uint64
		sIdx, sInit      bool
		tIdx, tInit      bool
		nodeOpenErr      error
		nodesRead, nodes int
	)
	v := guard("historic-read", func() {
		tail, _, _, _, _, _ = db.VerifHistory()
		sIdx, sInit, tIdx, tInit = db.VerifIndexerState()
		hr, err := db.HistoricReader(st.root)
		if openErr = err; err != nil {
			return
		}
		acct := func(i int) {
			b, err := hr.AccountRLP(uniAddr[i])
			out = append(out, obs{fmt.Sprintf("account %d", i), b, st.slim[i], err})
		}
		slot := func(i, j int) {
			b, err := hr.Storage(uniAddr[i], uniKey[j])
			out = append(out, obs{fmt.Sprintf("slot %d/%d", i, j), b, st.slot[i][j], err})
		}
		switch rd.Kind {
		case 8:
			acct(a)
		case 9:
			slot(a, s)
		default:
			for i := 0; i < k.Accounts; i++ {
				acct(i)
				for j := 0; j < k.Slots; j++ {
					slot(i, j)
				}
			}
			if k.TrienodeHistory >= 0 && tIdx {
				nr, err := db.HistoricNodeReader(st.root)
				if nodeOpenErr = err; err != nil {
					return
				}
				for _, n := range st.nodeList() {
					nodes++
					b, err := nr.Node(n.owner, []byte(n.path), crypto.Keccak256Hash(n.blob))
					out = append(out, obs{fmt.Sprintf("node %x:%x", n.owner[:2], n.path), b, n.blob, err})
					if err == nil {
						nodesRead++
					}
				}
			}
		}
	})
	rn.mu.Lock()
	defer rn.mu.Unlock()
	rn.tick++
	if v != nil {
		return v
	}
	if tail > 0 {
		rn.probe("history-tail-pruned")
	}
	overlapped := rn.opStarted != doneAtInv
	recovered := rn.recStarted != recAtInv || rn.recStarted != rn.recDone
	id, readable := rn.historicReadable(st.root, tail)
	where := fmt.Sprintf("%s historical read at state #%d root %x (canonical id %d, readable=%v, tail %d, disk layer id %d, indexer inited=%v)", actor, st.idx, st.root[:4], id, readable, tail, rn.m.diskID(), sInit)
	if !sIdx {
		return simcore.Violf("indexer-missing", "%s: state indexing is enabled but the database has no state indexer", where)
	}
	if recovered && !quiescent {
		// a rollback overlapped: the handle may legitimately see the new branch
		rn.logf(actor, "hread #%d kind=%d skipped (rollback overlapped)", st.idx, rd.Kind)
		return nil
	}
	if openErr != nil {
		rn.logf(actor, "hread #%d kind=%d refused", st.idx, rd.Kind)
		if readable && quiescent && sInit {
			return simcore.Violf("historic-root-refused", "%s: HistoricReader refused a retained canonical root although the indexer is idle: %v", where, openErr)
		}
		if !readable {
			rn.probe("historic-refused-unreadable-root")
		} else {
			rn.probe("historic-refused-index-incomplete")
		}
		return nil
	}
	if !readable && !overlapped {
		return simcore.Violf("historic-root-accepted", "%s: HistoricReader handed out a reader for a root that is not a retained canonical state below the disk layer", where)
	}
	sum := simcore.NewHash()
	for _, o := range out {
		if o.err != nil {
			if quiescent && readable {
				if rn.recoverWhileIndexing {
					rn.mu.Unlock()
					v := rn.keyed("historic-read-failed", "indexer-shorten-during-initial-indexing", true, "%s: %s failed although nothing was in flight: %v; a Recover ran during the initial index run, the index entries of the reverted history were left behind and now point into a history of the new branch that does not contain the key", where, o.what, o.err)
					rn.mu.Lock()
					return v
				}
				return simcore.Violf("historic-read-failed", "%s: %s failed although nothing was in flight: %v", where, o.what, o.err)
			}
			rn.probe("historic-read-error-during-mutation")
			continue
		}
		if !readable {
			continue // accepted only because a mutation overlapped; nothing to compare with
		}
		if !eq(o.got, o.want) {
			who := ""
			var ai, si int
			if n, _ := fmt.Sscanf(o.what, "account %d", &ai); n == 1 {
				who = rn.m.whoHasAccount(ai, o.got)
			} else if n, _ := fmt.Sscanf(o.what, "slot %d/%d", &ai, &si); n == 2 {
				who = rn.m.whoHasSlot(ai, si, o.got)
			}
			if rn.recoverWhileIndexing {
				rn.mu.Unlock()
				v := rn.keyed("historic-wrong-value", "indexer-shorten-during-initial-indexing", true, "%s: %s = %x, that state holds %x (value of: %s); a Recover ran during the initial index run and left index entries of the reverted branch behind", where, o.what, o.got, o.want, who)
				rn.mu.Lock()
				return v
			}
			return simcore.Violf("historic-wrong-value", "%s: %s = %x, that state holds %x (the returned value belongs to: %s)", where, o.what, o.got, o.want, who)
		}
		sum = sum.Bytes(o.got).String("|")
		rn.probe("historic-read-ok")
	}
	if nodeOpenErr != nil && quiescent && readable && tInit {
		// trienode histories have their own tail
		_, _, _, ttail, _, _ := db.VerifHistory()
		if id >= ttail {
			return simcore.Violf("historic-root-refused", "%s: HistoricNodeReader refused a retained canonical root although the trienode indexer is idle: %v", where, nodeOpenErr)
		}
	}
	if nodesRead > 0 {
		rn.probe("historic-node-read-ok")
	}
	rn.logf(actor, "hread #%d kind=%d -> %x", st.idx, rd.Kind, uint64(sum))
	return nil
}

// waitIndexers gives the background indexers (virtual) time to finish their
// initial run; returns a violation if they never do.
func (rn *runner) waitIndexers() *simcore.Violation {
	for i := 0; i < 400; i++ {
		var sIdx, sInit, tIdx, tInit bool
		if v := guard("indexer-state", func() { sIdx, sInit, tIdx, tInit = rn.w.db.VerifIndexerState() }); v != nil {
			return v
		}
		if (!sIdx || sInit) && (!tIdx || tInit) {
			rn.probe("indexer-idle")
			return nil
		}
		if i == 0 {
			// with no history at all there is nothing to index and the initial run
			// never reports completion; nothing is readable either
			if _, shead, _, _, _, _ := rn.w.db.VerifHistory(); shead == 0 {
				return nil
			}
		}
		time.Sleep(5 * time.Second) // virtual
	}
	if rn.elementless {
		return rn.keyed("indexer-never-finishes", "indexer-wedged-by-elementless-history", true,
			"the trienode history indexer never finishes its initial run: a flattened transition changed nothing but the account trie's root node, its history has no index elements, batchIndexer.finish returns at pending == 0 without storing the index metadata, so checkDone() never sees the target reached")
	}
	if rn.recoverWhileIndexing {
		return rn.keyed("indexer-never-finishes", "indexer-shorten-during-initial-indexing", true,
			"the history indexer never finishes its initial run after a Recover that happened while it was running: when the reverted history had been indexed already, indexIniter.run only lowers its target; the index metadata stays one ahead of the target, checkDone() can never become true again and the stale index entries of the reverted history remain")
	}
	return simcore.Violf("indexer-never-finishes", "the history indexer did not finish its initial indexing within %d virtual seconds after the workload paused", 400*5)
}

// historicSweep: once the indexer is idle every retained canonical root must be
// readable with every key right, every other root refused.
func (rn *runner) historicSweep() *simcore.Violation {
	if v := rn.waitIndexers(); v != nil {
		return v
	}
	rn.mu.Lock()
	n := len(rn.m.order)
	rn.mu.Unlock()
	for i := 0; i < n; i++ {
		if rn.failed() {
			return nil
		}
		if v := rn.hread("M", Read{Root: 2 * i, Kind: 10}, true); v != nil {
			return v
		}
	}
	return nil
}
