package pathdbsim

import (
	"fmt"
	"os"
	"sort"
	"strings"

	"github.com/ethereum/go-ethereum/common"
	"github.com/ethereum/go-ethereum/core/rawdb"

	"verifsim/simcore"
)

// modelRecoverable: the root is on the flattened chain strictly below the disk
// layer and the history that leads back to it is still retained (tail is read
// from the freezer: the pruning instant depends on flush timing, which the
// property does not fix).
func (rn *runner) modelRecoverable(root common.Hash, tail uint64) (uint64, bool) {
	k, ok := rn.m.canonicalID(root)
	if !ok || k >= rn.m.diskID() {
		return 0, false
	}
	// reverting from k+1 to k needs history k+1, i.e. item index k >= tail
	if k < tail {
		return k, false
	}
	return k, true
}

// checkRecoverable asks Recoverable for every state the model knows and compares.
func (rn *runner) checkRecoverable() (*simcore.Violation, []*state) {
	var (
		tail   uint64
		states []*state
		answer []bool
	)
	rn.mu.Lock()
	states = append(states, rn.m.order...)
	rn.mu.Unlock()
	if v := guard("recoverable", func() {
		tail, _, _, _, _, _ = rn.w.db.VerifHistory()
		for _, st := range states {
			answer = append(answer, rn.w.db.Recoverable(st.root))
		}
	}); v != nil {
		return v, nil
	}
	rn.mu.Lock()
	defer rn.mu.Unlock()
	var rec []*state
	for i, st := range states {
		k, want := rn.modelRecoverable(st.root, tail)
		if answer[i] != want {
			_, canon := rn.m.canonicalID(st.root)
			if want && !answer[i] && rawdb.ReadStateID(rn.w.kv.Mem(), st.root) == nil {
				return &simcore.Violation{Oracle: "recoverable-mismatch", Key: "recoverable-mismatch:state-id-mapping-missing",
					Msg: fmt.Sprintf("Recoverable(state #%d root %x) = false although the state is canonical at id %d below the disk layer (id %d) and its history is retained (tail %d): the root -> id mapping (written by an unsynced single put ahead of the flush batch / journal) is not in the key-value store", st.idx, st.root[:4], k, rn.m.diskID(), tail)}, nil
			}
			return simcore.Violf("recoverable-mismatch", "Recoverable(state #%d root %x) = %v, expected %v (canonical=%v id=%d, disk layer id %d, history tail %d)", st.idx, st.root[:4], answer[i], want, canon, k, rn.m.diskID(), tail), nil
		}
		if want {
			rec = append(rec, st)
		}
	}
	// newest first
	sort.Slice(rec, func(a, b int) bool {
		ka, _ := rn.m.canonicalID(rec[a].root)
		kb, _ := rn.m.canonicalID(rec[b].root)
		return ka > kb
	})
	if len(rec) > 0 {
		rn.probe("recoverable-roots")
	}
	if tail > 0 {
		rn.probe("history-tail-pruned")
	}
	return nil, rec
}

// recoverOne calls Recover(st.root) and judges the result against the model.
func (rn *runner) recoverOne(st *state) *simcore.Violation {
	var (
		tail, ttail0 uint64
		tok0         bool
		claimed      bool
	)
	if v := guard("recoverable", func() {
		tail, _, _, ttail0, _, tok0 = rn.w.db.VerifHistory()
		claimed = rn.w.db.Recoverable(st.root)
	}); v != nil {
		return v
	}
	rn.mu.Lock()
	k, want := rn.modelRecoverable(st.root, tail)
	diskID := rn.m.diskID()
	rn.mu.Unlock()
	if claimed != want {
		return simcore.Violf("recoverable-mismatch", "Recoverable(state #%d root %x) = %v, expected %v (id=%d, disk layer id %d, history tail %d)", st.idx, st.root[:4], claimed, want, k, diskID, tail)
	}
	if !claimed {
		// must fail and change nothing (let a background flush finish first, so
		// that any write seen below is the refused call's)
		if v := guard("waitflush", func() { rn.w.db.VerifWaitFlush() }); v != nil {
			return v
		}
		kvLen, evLen := rn.w.kv.LogLen(), 0
		if rn.w.rec != nil {
			evLen = rn.w.rec.Len()
		}
		var err error
		if v := guard("recover", func() { err = rn.w.db.Recover(st.root) }); v != nil {
			return v
		}
		rn.mu.Lock()
		rn.logf("M", "recover #%d refused=%v", st.idx, err != nil)
		rn.mu.Unlock()
		if err == nil {
			return simcore.Violf("recover-unrecoverable-accepted", "Recover(state #%d root %x) returned nil although Recoverable reported false", st.idx, st.root[:4])
		}
		if n := rn.w.kv.LogLen(); n != kvLen && !rn.p.K.Indexing { // (the background indexer writes on its own)
			return simcore.Violf("refused-recover-mutates", "refused Recover(state #%d) wrote %d key-value units", st.idx, n-kvLen)
		}
		if rn.w.rec != nil && rn.w.rec.Len() != evLen {
			return simcore.Violf("refused-recover-mutates", "refused Recover(state #%d) performed %d file mutations", st.idx, rn.w.rec.Len()-evLen)
		}
		rn.probe("recover-refused")
		return rn.checkTree("after refused Recover")
	}
	before := rn.w.db.VerifDisk()
	if rn.p.K.Indexing {
		if sIdx, sInit, tIdx, tInit := rn.w.db.VerifIndexerState(); (sIdx && !sInit) || (tIdx && !tInit) {
			rn.recoverWhileIndexing = true
			rn.probe("recover-during-initial-indexing")
		}
	}
	rn.mu.Lock()
	pre := liveSet(rn.m)
	var passing []common.Hash // states Recover passes through: each is the single layer of the tree for a moment
	for j := k + 1; j < uint64(len(rn.m.canon)); j++ {
		passing = append(passing, rn.m.canon[j].root)
	}
	rn.m.recoverTo(k)
	rn.recovers = append(rn.recovers, recoverRec{seq: rn.w.clock.Now(), k: k})
	t0 := rn.beginMut(pre)
	for _, r := range passing {
		if ls := rn.lives[r]; len(ls) > 0 && ls[len(ls)-1].dropStart == t0 {
			continue // was live before the call: its interval already ends with this operation
		}
		// transiently in the tree during the call: never surely live, not surely dead either
		rn.lives[r] = append(rn.lives[r], &life{addStart: t0, dropStart: t0})
	}
	rn.noteIntervals(t0, []common.Hash{st.root}, rn.orphanSet())
	rn.recStarted++
	rn.mu.Unlock()
	var err error
	v := guard("recover", func() { err = rn.w.db.Recover(st.root) })
	rn.mu.Lock()
	rn.endMut(t0)
	rn.recDone++
	rn.logf("M", "recover #%d to id %d from %d err=%v", st.idx, k, diskID, err != nil)
	rn.mu.Unlock()
	if v != nil {
		return v
	}
	if err != nil && rn.p.K.Indexing && strings.Contains(err.Error(), "history unindexing is out of order") {
		return rn.keyed("recover-failed", "indexer-shorten-during-initial-indexing", true,
			"Recover(state #%d, id %d; disk layer id %d) failed: %v. The initial indexing run was still in progress: indexIniter.run lowers its target first and then tests checkDone() against the lowered target, so 'everything below the reverted history is indexed' is taken for 'the reverted history is indexed too' and an unindex of a history that was never indexed is attempted; the disk layer has already been marked stale at that point", st.idx, k, diskID, err)
	}
	if err != nil {
		if tok0 && k < ttail0 {
			// Recoverable looks at the state history only; the trienode history has its
			// own (shorter) retention and cannot be truncated below its tail
			key := "recover-below-trienode-tail"
			msg := fmt.Sprintf("Recover(state #%d, id %d; disk layer id %d) returned an error AFTER rolling the state back and truncating the state history: %v. Recoverable reported true (state history tail %d), but the trienode history (TrienodeHistory=%d, StateHistory=%d) is only retained from id %d on; its head stays above the disk layer id", st.idx, k, diskID, err, tail, rn.p.K.TrienodeHistory, rn.p.K.StateHistory, ttail0)
			if simcore.IsKnown(key) || os.Getenv("PDB_ASSUME_KNOWN") != "" {
				rn.mu.Lock()
				rn.res.KnownHit(key)
				rn.stop = true
				rn.mu.Unlock()
				return nil
			}
			return &simcore.Violation{Oracle: "recover-failed", Key: key, Msg: msg}
		}
		return simcore.Violf("recover-failed", "Recover(state #%d root %x, id %d; disk layer was id %d, tail %d) failed although Recoverable reported true: %v", st.idx, st.root[:4], k, diskID, tail, err)
	}
	rn.probe("recover-done")
	if before.BufferLayers > 0 {
		rn.probe("recover-inside-buffer")
		if uint64(diskID-k) > before.BufferLayers {
			rn.probe("recover-across-buffer-boundary")
		}
	} else {
		rn.probe("recover-on-disk")
	}
	if v := rn.checkTree("after Recover"); v != nil {
		return v
	}
	// histories newer than the target are gone, the freezer head is the target id
	var shead, thead uint64
	var tok bool
	if v := guard("history", func() { _, shead, _, _, thead, tok = rn.w.db.VerifHistory() }); v != nil {
		return v
	}
	if shead != k {
		return simcore.Violf("history-not-truncated", "after Recover to id %d the state history head is %d", k, shead)
	}
	if tok && thead != k {
		return simcore.Violf("history-not-truncated", "after Recover to id %d the trienode history head is %d", k, thead)
	}
	// every key reads as the target state
	if v := rn.read("M", Read{Root: 2 * st.idx, Kind: 3}, true); v != nil {
		v.Msg = "after Recover: " + v.Msg
		return v
	}
	// persistent part
	if v := rn.diskCheck(true); v != nil {
		v.Msg = "after Recover: " + v.Msg
		return v
	}
	return nil
}

// recoverAll: Recover to every root reported recoverable, newest first (each
// deeper target stays recoverable after the shallower rollback).
func (rn *runner) recoverAll() *simcore.Violation {
	v, rec := rn.checkRecoverable()
	if v != nil {
		return v
	}
	for _, st := range rec {
		if rn.failed() {
			return nil
		}
		if v := rn.recoverOne(st); v != nil {
			return v
		}
		if rn.failed() {
			return nil
		}
		if v, _ := rn.checkRecoverable(); v != nil {
			v.Msg = fmt.Sprintf("after Recover to state #%d: %s", st.idx, v.Msg)
			return v
		}
	}
	return nil
}

// endPhase performs the clean shutdown + reopen named by the phase.
func (rn *runner) endPhase(end string) *simcore.Violation {
	switch end {
	case "":
		return nil
	case "journal":
		rn.releaseHeld() // iterators do not survive the shutdown
		rn.mu.Lock()
		tip := rn.tip()
		// only the journaled chain survives
		keep := map[common.Hash]*lay{}
		for c := rn.m.layers[tip]; ; c = rn.m.layers[c.parent] {
			keep[c.root] = c
			if c.disk {
				break
			}
		}
		pre := liveSet(rn.m)
		rn.m.layers = keep
		rn.m.epoch++
		t0 := rn.beginMut(pre)
		tipIdx := rn.m.states[tip].idx
		tipOrphan := rn.m.layers[tip].orphan
		jr := journalRec{startSeq: rn.w.clock.Now(), diskID: rn.m.diskID()}
		for c := rn.m.layers[tip]; ; c = rn.m.layers[c.parent] {
			jr.chain = append([]common.Hash{c.root}, jr.chain...)
			if c.disk {
				break
			}
		}
		rn.mu.Unlock()
		var err error
		v := guard("journal", func() { err = rn.w.db.Journal(tip) })
		if v != nil {
			return v
		}
		if err == nil {
			rn.mu.Lock()
			jr.endSeq = rn.w.clock.Now()
			if pid := persistentID(rn.w.kv); pid < uint64(len(rn.m.canon)) {
				jr.kvRoot = rn.m.canon[pid].root
			}
			rn.journals = append(rn.journals, jr)
			rn.mu.Unlock()
		}
		if err != nil {
			if tipOrphan {
				return rn.finding("journal", "Journal(state #%d) failed: %v (the journaled head hangs off a fork child of a flattened layer whose parent pointer leads to the stale disk layer)", tipIdx, err)
			}
			return simcore.Violf("journal-failed", "Journal(state #%d) failed: %v", tipIdx, err)
		}
		if v := guard("close", func() { err = rn.w.closeDB() }); v != nil {
			return v
		}
		if err != nil {
			return simcore.Violf("close-failed", "Close after Journal failed: %v", err)
		}
		if v := guard("reopen", func() { rn.w.open() }); v != nil {
			return v
		}
		rn.mu.Lock()
		rn.endMut(t0)
		rn.logf("M", "journal+reopen at #%d layers=%d", tipIdx, len(keep))
		rn.mu.Unlock()
		rn.probe("journal-reopen")
		if len(keep) > 1 {
			rn.probe("journal-reopen-with-diff-layers")
		}
		if v := rn.checkTree("after Journal + reopen"); v != nil {
			return v
		}
		if v := rn.sweepAll("M"); v != nil {
			v.Msg = "after Journal + reopen: " + v.Msg
			return v
		}
		return nil
	}
	simcore.Harnessf("unknown phase end %q", end)
	return nil
}
