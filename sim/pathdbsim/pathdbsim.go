package pathdbsim

import (
	"verifsim/simcore"
)

func (rn *runner) startIndexWatch() {}

// genC16: random layer trees with forks, repeated roots, empty transitions,
// Commit, tiny write buffers; either single-threaded (synchronous flush, the main
// actor reads everything after most steps) or scheduled (background flusher and
// 1-4 reader actors interleaved by the tape).
func genC16(r *simcore.Rand, tier string) any {
	p := &Plan{Check: "C16", K: genKnobs(r)}
	p.K.Indexing = false
	p.OrphanOK = r.Bool(0.25)
	single := r.Bool(0.35)
	nops := r.Range(8, 60)
	if tier == "thorough" {
		nops = r.Range(8, 300)
	}
	nph := r.Pick(6, 3, 1) + 1
	for i := 0; i < nph; i++ {
		ph := Phase{}
		if single {
			p.K.NoAsyncFlush = true
			ph.Ops = genOps(r, &p.K, nops/nph+1, 10, 0)
		} else {
			ph.Ops = genOps(r, &p.K, nops/nph+1, 2, 0)
			nr := r.Range(1, 4)
			for j := 0; j < nr; j++ {
				var script []Read
				n := r.Range(3, 30)
				for q := 0; q < n; q++ {
					script = append(script, genRead(r, &p.K, false))
				}
				ph.Readers = append(ph.Readers, script)
			}
		}
		if i < nph-1 || r.Bool(0.3) {
			ph.End = "journal"
		}
		p.Phases = append(p.Phases, ph)
	}
	if !single {
		p.Tape = r.Tape(2500)
	}
	return p
}

var realComponents = []string{
	"triedb/pathdb Database, layerTree, lookup, diffLayer, diskLayer, buffer (live + frozen, background flusher), reader, states, nodes, journal (KV or file), history writer, generator (empty-state run)",
	"core/rawdb state/trienode history freezers (resettable freezer on real files through simos), rawdb accessors",
	"ethdb/memorydb under SimKV", "fastcache clean caches",
}

var stubComponents = []string{
	"key-value store seam: simdisk.SimKV (real memorydb + op log + gates before and after every Get, before every write unit)",
	"file system seam: simos pass-through to tmpfs with event recording; fsync modelled",
	"callers: main actor and reader actors owned by the scheduler; clock: synctest bubble",
	"trie node sets and state sets handed to Update are produced from the reference model with refmpt (net difference of two full states)",
}

func Checks() map[string]*simcore.Check {
	return map[string]*simcore.Check{
		"C16": {
			ID: "C16", Engine: "pathdbsim", Level: "exploration",
			Rule: "plan = knobs (maxDiffLayers 2-16, WriteBufferSize 0-40000, clean caches 0/32K/256K, history limit, sync/async flush, journal in KV or file) + 1-3 phases of 8-300 main-actor operations (Update from the tip or a random live root, repeated roots, empty transitions, Commit, reads, Size) with a clean Journal+reopen between phases, either single-threaded with the main actor reading after most steps, or with 1-4 reader actors and the background flusher interleaved at every SimKV gate by the tape. Every read (account, slot, trie node, full sweep; fresh or held reader) is judged against the per-root full-state model; which roots are in the tree follows the documented flattening policy and is compared with the database's layer tree after every mutation; at quiescent points every root ever produced is swept and the raw key-value store is compared with the state of the persisted id. Non-trivial = at least one flatten/commit happened and (scheduled runs) the scheduler had a real choice at >= 2 steps; distinct = distinct (released-gate sequence, set of model states) fingerprints.",
			Assumptions: []string{
				"a reader parked in a SimKV gate holds the disk layer's read lock, so flattening never overlaps a point read in the decided schedule; the stale-layer fallback of reader.AccountRLP/Storage and lookup.addLayer/removeLayer goroutines have no seam and are only perturbed (GOMAXPROCS)",
				"states handed to Update are unique per transition (an account carries the transition salt); a root that already has a place in the flattened history is never re-added (root -> id must stay unique by the database's contract)",
				"an error of a held reader is accepted when any tree-changing operation overlapped its lifetime; values, when returned, must always be the requested state's",
			},
			Components: simcore.Components{Real: realComponents, Stub: stubComponents},
			Perturbed:  []string{"lookup add/remove worker goroutines", "interleavings between two KV gates of goroutines sharing memory", "map iteration order inside batches"},
			Runs:       map[string]int{"quick": 1600, "thorough": 60000},
			Gen:        genC16, Decode: decodePlan, Run: runPlan, Shrink: shrinkPlan,
			ProbeNames: []string{"flatten", "commit", "repeated-root", "empty-transition", "dropped-root-refused", "live-read", "journal-reopen-with-diff-layers", "disk-image-checked", "frozen-buffer-read", "buffer-read", "disk-read"},
		},
	}
}
