package pathdbsim

import (
	"testing"

	"verifsim/simcore"
)

func (rn *runner) startIndexWatch() {}

// genC16: random layer trees with forks, repeated roots, empty transitions,
// Commit, tiny write buffers; either single-threaded (synchronous flush, the main
// actor reads everything after most steps) or scheduled (background flusher and
// 1-4 reader actors interleaved by the tape).
func genC16(r *simcore.Rand, tier string) any {
	p := &Plan{Check: "C16", K: genKnobs(r)}
	p.K.Indexing = false
	p.OrphanOK = r.Bool(0.6)
	single := r.Bool(0.35)
	nops := r.Range(8, 60)
	if tier == "thorough" {
		nops = r.Range(8, 300)
	}
	nph := r.Pick(6, 3, 1) + 1
	for i := 0; i < nph; i++ {
		ph := Phase{}
		if single {
			p.K.NoAsyncFlush = true
			ph.Ops = genOps(r, &p.K, nops/nph+1, 10, 0)
		} else {
			ph.Ops = genOps(r, &p.K, nops/nph+1, 2, 0)
			nr := r.Range(1, 4)
			for j := 0; j < nr; j++ {
				var script []Read
				n := r.Range(3, 30)
				for q := 0; q < n; q++ {
					script = append(script, genRead(r, &p.K, false))
				}
				ph.Readers = append(ph.Readers, script)
			}
		}
		if i < nph-1 || r.Bool(0.3) {
			ph.End = "journal"
		}
		p.Phases = append(p.Phases, ph)
	}
	if !single {
		p.Tape = r.Tape(2500)
	}
	return p
}

// genC17: canonical histories with side branches and history limits, then
// Recover to every recoverable root (newest first), refused Recovers, and new
// forks on top of the rolled-back state, repeated.
func genC17(r *simcore.Rand, tier string) any {
	p := &Plan{Check: "C17", K: genKnobs(r)}
	p.K.Indexing = false
	p.K.MaxDiff = r.Range(2, 8)
	if r.Bool(0.5) {
		// trienode histories: unlimited, or at least as long as the state history;
		// in 1 of 10 such runs shorter (Recover below their tail is a recorded finding)
		switch {
		case r.Bool(0.1):
			p.K.TrienodeHistory = int64(r.Range(2, 12))
		case p.K.StateHistory == 0 || r.Bool(0.3):
			p.K.TrienodeHistory = 0
		default:
			p.K.TrienodeHistory = int64(p.K.StateHistory) + int64(r.Intn(3))
		}
	}
	p.K.NoAsyncFlush = r.Bool(0.5)
	rounds := r.Range(1, 3)
	total := r.Range(5, 60)
	if tier == "thorough" {
		total = r.Range(5, 300)
	}
	ph := Phase{}
	for round := 0; round < rounds; round++ {
		n := total/rounds + 1
		for i := 0; i < n; i++ {
			switch r.Pick(14, 1, 1, 2, 1) {
			case 0:
				op := Op{K: "upd", M: genMuts(r, &p.K)}
				if r.Bool(0.08) {
					op.P = 1 + r.Intn(64)
				}
				ph.Ops = append(ph.Ops, op)
			case 1:
				ph.Ops = append(ph.Ops, Op{K: "commit", T: r.Intn(64)})
			case 2:
				ph.Ops = append(ph.Ops, Op{K: "recover", T: r.Intn(1 << 10)})
			case 3:
				rd := genRead(r, &p.K, false)
				ph.Ops = append(ph.Ops, Op{K: "read", R: &rd})
			case 4:
				ph.Ops = append(ph.Ops, Op{K: "dup", P: r.Intn(16), T: r.Intn(64)})
			}
		}
		if r.Bool(0.3) {
			ph.Ops = append(ph.Ops, Op{K: "commit", T: 0})
		}
		ph.Ops = append(ph.Ops, Op{K: "recall"})
		if r.Bool(0.25) && round < rounds-1 {
			ph.End = "journal"
			p.Phases = append(p.Phases, ph)
			ph = Phase{}
		}
	}
	p.Phases = append(p.Phases, ph)
	if !p.K.NoAsyncFlush {
		if r.Bool(0.4) {
			for i := range p.Phases {
				var script []Read
				for q := r.Range(3, 20); q > 0; q-- {
					script = append(script, genRead(r, &p.K, false))
				}
				p.Phases[i].Readers = [][]Read{script}
			}
		}
		p.Tape = r.Tape(2500)
	}
	return p
}

// genC22: the layered workload with iterator reads (fast and binary, account and
// storage) by the main actor and by iterator actors whose Next() calls are gates.
func genC22(r *simcore.Rand, tier string) any {
	p := &Plan{Check: "C22", K: genKnobs(r)}
	p.K.Indexing = false
	if r.Bool(0.35) {
		genLegacy(r, tier, p)
		return p
	}
	p.OrphanOK = r.Bool(0.6)
	single := r.Bool(0.4)
	nops := r.Range(8, 50)
	if tier == "thorough" {
		nops = r.Range(8, 250)
	}
	nph := r.Pick(6, 3) + 1
	for i := 0; i < nph; i++ {
		ph := Phase{}
		if single {
			p.K.NoAsyncFlush = true
			ph.Ops = genOps(r, &p.K, nops/nph+1, 1, 10)
			// held iterators: opened, partially drained, drained after more layers
			// were added and flattened underneath
			var ops []Op
			for _, op := range ph.Ops {
				ops = append(ops, op)
				switch r.Intn(8) {
				case 0:
					rd := genRead(r, &p.K, true)
					if r.Bool(0.6) {
						rd.Kind, rd.Seek = 5, 0
					}
					ops = append(ops, Op{K: "popen", R: &rd, T: r.Intn(4), P: r.Intn(3)})
				case 1:
					ops = append(ops, Op{K: "pdrain", T: r.Intn(4)})
				}
			}
			for s := 0; s < 4; s++ {
				ops = append(ops, Op{K: "pdrain", T: s})
			}
			ph.Ops = ops
		} else {
			ph.Ops = genOps(r, &p.K, nops/nph+1, 1, 3)
			for j := r.Range(1, 3); j > 0; j-- {
				var script []Read
				for q := r.Range(2, 12); q > 0; q-- {
					script = append(script, genRead(r, &p.K, true))
				}
				ph.Readers = append(ph.Readers, script)
			}
		}
		if i < nph-1 || r.Bool(0.2) {
			ph.End = "journal"
		}
		p.Phases = append(p.Phases, ph)
	}
	if !single {
		p.Tape = r.Tape(3000)
	}
	return p
}

// runC22 dispatches between the path database world and the legacy snapshot tree world.
func runC22(t *testing.T, pl any) *simcore.Result {
	if pl.(*Plan).Legacy {
		return runLegacy(t, pl.(*Plan))
	}
	return runPlan(t, pl)
}

var realComponents = []string{
	"triedb/pathdb Database, layerTree, lookup, diffLayer, diskLayer, buffer (live + frozen, background flusher), reader, states, nodes, journal (KV or file), history writer, generator (empty-state run)",
	"core/rawdb state/trienode history freezers (resettable freezer on real files through simos), rawdb accessors",
	"ethdb/memorydb under SimKV", "fastcache clean caches",
}

var stubComponents = []string{
	"key-value store seam: simdisk.SimKV (real memorydb + op log + gates before and after every Get, before every write unit)",
	"file system seam: simos pass-through to tmpfs with event recording; fsync modelled",
	"callers: main actor and reader actors owned by the scheduler; clock: synctest bubble",
	"trie node sets and state sets handed to Update are produced from the reference model with refmpt (net difference of two full states)",
}

func Checks() map[string]*simcore.Check {
	return map[string]*simcore.Check{
		"C16": {
			ID: "C16", Engine: "pathdbsim", Level: "exploration",
			Rule: "plan = knobs (maxDiffLayers 2-16, WriteBufferSize 0-40000, clean caches 0/32K/256K, history limit, sync/async flush, journal in KV or file) + 1-3 phases of 8-300 main-actor operations (Update from the tip or a random live root, repeated roots, empty transitions, Commit, reads, Size) with a clean Journal+reopen between phases, either single-threaded with the main actor reading after most steps, or with 1-4 reader actors and the background flusher interleaved at every SimKV gate by the tape. Every read (account, slot, trie node, full sweep; fresh or held reader) is judged against the per-root full-state model; which roots are in the tree follows the documented flattening policy and is compared with the database's layer tree after every mutation; at quiescent points every root ever produced is swept and the raw key-value store is compared with the state of the persisted id. Non-trivial = at least one flatten/commit happened and (scheduled runs) the scheduler had a real choice at >= 2 steps; distinct = distinct (released-gate sequence, set of model states) fingerprints.",
			Assumptions: []string{
				"a reader parked in a SimKV gate holds the disk layer's read lock, so flattening never overlaps a point read in the decided schedule; the stale-layer fallback of reader.AccountRLP/Storage and lookup.addLayer/removeLayer goroutines have no seam and are only perturbed (GOMAXPROCS)",
				"states handed to Update are unique per transition (an account carries the transition salt); a root that already has a place in the flattened history is never re-added (root -> id must stay unique by the database's contract)",
				"an error of a held point reader or reader-actor sweep is accepted only when its own root was flattened into the disk layer during its lifetime (the captured layer object then hangs off the stale disk layer); iterators may fail whenever a tree-changing operation overlapped; values, when returned, must always be the requested state's",
			},
			Components: simcore.Components{Real: realComponents, Stub: stubComponents},
			Perturbed:  []string{"lookup add/remove worker goroutines", "interleavings between two KV gates of goroutines sharing memory", "map iteration order inside batches"},
			Runs:       map[string]int{"quick": 4000, "thorough": 60000},
			Gen:        genC16, Decode: decodePlan, Run: runPlan, Shrink: shrinkPlan,
			ProbeNames: []string{"flatten", "commit", "repeated-root", "empty-transition", "dropped-root-refused", "live-read", "journal-reopen-with-diff-layers", "disk-image-checked", "read-with-frozen-buffer", "read-with-live-buffer", "read-error-on-dropped-root"},
		},
		"C17": {
			ID: "C17", Engine: "pathdbsim", Level: "exploration",
			Rule: "plan = knobs (maxDiffLayers 2-8, WriteBufferSize 0-40000, StateHistory limit 0 or 2-30, trienode history off/limited/unlimited, sync or async flush) + canonical histories of 5-300 transitions with side branches, Commit, repeated roots, in 1-3 rounds; random Recover targets among all states ever produced (recoverable or not) and at the end of each round Recoverable is asked for every state and Recover is called for every reported one, newest first; new forks are then built on the rolled-back state. After each successful Recover: layer tree = the single target layer, every account/slot/trie node of the universe reads as the target state, state (and trienode) history head == target id, Recoverable of every state re-evaluated, and once the flusher is idle the raw flat-state and trie-node key spaces equal the model state of the persisted id exactly (no leftover). Refused Recover: error, no key-value unit and no file event recorded. Non-trivial = at least one successful Recover; distinct = distinct (schedule, model states + flattened chain) fingerprints.",
			Assumptions: []string{
				"which roots are recoverable is judged with the history tail read back from the freezer (the pruning instant depends on flush timing, which the property leaves open); everything else is predicted by the model",
				"states are unique per transition and a root with a place in the flattened history is never re-added",
			},
			Components: simcore.Components{Real: realComponents, Stub: stubComponents},
			Perturbed:  []string{"map iteration order inside batches and history encoding", "lookup workers"},
			Runs:       map[string]int{"quick": 2400, "thorough": 30000},
			Gen:        genC17, Decode: decodePlan, Run: runPlan, Shrink: shrinkPlan,
			ProbeNames: []string{"recover-done", "recover-refused", "recover-inside-buffer", "recover-across-buffer-boundary", "recover-on-disk", "recoverable-roots", "disk-image-checked", "history-tail-pruned"},
		},
		"C18": {
			ID: "C18", Engine: "pathdbsim", Level: "exploration",
			Rule: "plan = knobs with EnableStateIndexing (history limit 0 or 2-30 so tails get pruned, trienode histories in 30% of runs, sync/async flush) + 1-3 incarnations of 6-150 operations (Update, Commit, Recover followed by new forks, historical reads) joined by clean Journal+reopen (restart with a partially built index); the main actor, 0-2 historical-reader actors, the flusher and the indexer/pruner goroutines are interleaved at every SimKV gate by the tape. Every successful HistoricReader read (account by address, slot by raw key; trie nodes through HistoricNodeReader in sweeps) must equal the model value of that state; a reader for a root that is not a retained canonical state below the disk layer is a violation; refusals and errors are accepted while a mutation overlaps or the index is incomplete. At the end of every phase the indexer is given (virtual) time to go idle and then every state ever produced is swept: retained canonical roots must be served completely, all others refused. Non-trivial = at least one successful historical read; distinct = distinct (schedule, model states) fingerprints.",
			Assumptions: []string{
				"a historical read overlapped by a Recover is not judged (the handle may legitimately see the new branch); reads overlapped by Update/Commit only must still return right values",
				"the chain-head keys the indexer consults to decide 'syncing' are absent; NoHistoryIndexDelay makes it index at once",
			},
			Components: simcore.Components{Real: append([]string{"triedb/pathdb historyIndexer (indexIniter, batchIndexer, indexSingle/unindexSingle, pruner), HistoricalStateReader, HistoricalNodeReader, stateHistoryReader/trienodeReader, index blocks"}, realComponents...), Stub: stubComponents},
			Perturbed:  []string{"select among ready channels inside the indexer run loop", "map iteration order in batches"},
			Runs:       map[string]int{"quick": 1600, "thorough": 20000},
			Gen:        genC18, Decode: decodePlan, Run: runPlan, Shrink: shrinkPlan,
			ProbeNames: []string{"historic-read-ok", "historic-node-read-ok", "historic-refused-unreadable-root", "historic-refused-index-incomplete", "indexer-idle", "history-tail-pruned", "recover-done", "journal-reopen"},
		},
		"C20": {
			ID: "C20", Engine: "pathdbsim", Level: "fault_enumeration",
			Rule: "plan = knobs (maxDiffLayers 2-6, tiny write buffers, history limits, trienode histories on/off, sync/async flush, journal in KV or in a journal file) + 1-3 incarnations of 5-80 operations (Update with forks, Commit, Recover) each ended by a clean Journal+Close+reopen or left running; every key-value mutation unit (single put/delete or one atomic batch, SyncKeyValue barriers) and every file mutation/fsync of the history freezers and the journal file is recorded with one global sequence number. The run is then cut after every sequence number (quick: 40 sampled cuts per run, thorough: every cut of runs with up to 600 sequence numbers and 600 sampled cuts of longer ones; half of a sample sits right before/after a key-value unit) and each cut is materialised as a process-crash image and 1-2 power-loss images (per file a drawn prefix of its unsynced writes, torn or zero-filled last write; key-value store minus up to 4 unsynced trailing units) and the real pathdb.New reopens on it. Oracle per reboot: opens without panic/log.Crit; the raw flat-state and trie-node key spaces are exactly the model state whose root/id the store records; state (and trienode) history head == disk layer id, tail <= persisted id and within the limit; layers above the persisted state only if the image holds a journal for that disk root and then exactly one recorded journal's layers, each reading as its model state; a journal completed right before a process crash is used; Recoverable agrees with the model for every state, Recover to a random and to the deepest recoverable root restores that state (C17 oracle), two new Updates and a Commit succeed. evaluations = runs, reboots = crash states reopened. Non-trivial = run with >= 1 flatten and > 2 reboots; distinct = distinct model-state fingerprints.",
			Assumptions: []string{
				"a key-value batch is atomic (one WAL record); unsynced key-value units are lost as a suffix of at most 4 units in power-loss images (SyncKeyValue is the barrier); directory operations are durable immediately, file data at fsync of that file",
				"reboots run with synchronous flushing (a legal configuration change across a restart)",
				"the recorded run itself is judged by the C16/C17 oracles; cuts are taken from a run those oracles accepted",
			},
			Components: simcore.Components{Real: append([]string{"triedb/pathdb loadLayers/loadJournal/repairHistory/truncateFromHead/Recover on materialised crash states", "core/rawdb resettable freezer open/repair (recompiled onto simos)"}, realComponents...), Stub: stubComponents},
			Perturbed:  []string{"order of freezer table writes and batch contents (map iteration): cut positions shift between executions, replays fall back to full enumeration"},
			Runs:       map[string]int{"quick": 480, "thorough": 2000},
			Gen:        genC20, Decode: decodePlan, Run: runCrash, Shrink: shrinkPlan,
			ProbeNames: []string{"journal-loaded-after-crash", "journal-absent-or-discarded-after-crash", "rollback-after-crash", "rebooted-nonempty", "rebooted-empty", "recover-done", "flatten"},
		},
		"C22": {
			ID: "C22", Engine: "pathdbsim", Level: "exploration",
			Rule: "plan = the C16 layer-tree workload (forks, destruct/recreate, deletions overlapping across layers, tiny write buffers, Commit, Journal+reopen) with iterator reads by the main actor and 1-3 iterator actors: fast (merged) and binary account/storage iterators at random live or dropped roots with seek = zero / exact key / just after a key / max; every Next() is a gate, so flattening and flushing proceed between steps. Drained sequence must be a prefix of the ascending live entries of the model state from the seek position with equal values; complete when the iterator ends without error; an error only when a tree-changing operation overlapped the iteration; no iterator for a dropped root. Non-trivial = at least one non-empty complete iteration and one flatten; distinct = distinct (schedule, model states) fingerprints.",
			Assumptions: []string{
				"35% of the plans run the second world instead: a real core/state/snapshot.Tree (generated empty base, Update, Cap to 0-4 layers, fast and binary iterators, iterators opened, partially drained, drained further after Update/Cap, re-opened so that cached sorted key lists are reused) on a SimKV, single-threaded, judged by the same per-root model; its layer set is compared with the Cap policy after every mutation",
				"an iterator whose base layer went stale may fail; what it yielded before must still be right",
			},
			Components: simcore.Components{Real: append([]string{"triedb/pathdb fastIterator, binaryIterator, diff/disk account and storage iterators"}, realComponents...), Stub: stubComponents},
			Perturbed:  []string{"map iteration order", "lookup workers"},
			Runs:       map[string]int{"quick": 4000, "thorough": 50000},
			Gen:        genC22, Decode: decodePlan, Run: runC22, Shrink: shrinkPlan,
			ProbeNames: []string{"iterator-complete", "iterator-nonempty", "iterator-failed-on-stale-base", "flatten", "dropped-root-refused"},
		},
	}
}
